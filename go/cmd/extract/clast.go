package main

// Translation go/ast → CL.S / CL.E (lean/QF/Core/CLExpr.lean) of the clause evaluation of Filter:
//
//	func (qf QFrame) Filter(clause FilterClause) QFrame                      /repo/qframe.go
//	func (qf QFrame) filter(filters ...filter.Filter) QFrame
//	func (qf QFrame) withErr(err error) QFrame, withIndex(ix index.Int) QFrame
//	func (c T) filter(qf QFrame) QFrame, func (c T) Err() error              /repo/filter.go, T the five clause types
//	func And, Or, Not, Null, anyFilterErr, orFrames
//	index.NewBool, Int.Len, Bool.Len, Int.Filter                             /repo/internal/index
//	integer.Max                                                              /repo/internal/math/integer
//
// Method: a statement-by-statement translation of the function bodies with a small type inference of its own (only
// go/parser + go/ast): every expression has a KIND (frame, pointer to frame, error, bool, int, index, mask, filter,
// slice of filters, clause interface, slice of clauses, clause struct, …) computed from the declarations. The roots are
// found through the public vocabulary (the types QFrame, FilterClause, Filter, AndClause, OrClause, NotClause,
// NullClause, the constructors And, Or, Not, Null, the method QFrame.Filter, the fields Err, Column, Arg, Comparator,
// Inverse, the table filter.Inverse, Column.Filter of internal/column); everything else by ROLE:
//
//   - variables are numbered in the order of their declaration (receiver, parameters, then every `:=`, `var`, range
//     variable, variable of `if v, ok := …` as it occurs in the text) — names do not reach the output;
//   - a function that is called is resolved through the name at the call site to its declaration and gets the FnId its
//     SIGNATURE stands for (`(error) QFrame` on QFrame → withErr, `(*QFrame, *QFrame, *QFrame) *QFrame` → orFrames, …);
//     it is then translated under that FnId. Two different functions in one role make the role ambiguous (opaque);
//   - the fields of QFrame and of the clause structs by their types, the methods of the interface by their signatures.
//
// Conversions between `Filter` and `filter.Filter` (same struct) are dropped. `&x` is only understood for a frame
// variable that is never assigned after its declaration (then the pointer is as good as the value); `m[i] = e` only for
// a mask made in the same function; a `range` over a mask the body writes becomes `rangeLive`. Whatever is not
// understood becomes `.opaque "<text>"`; such a term has no meaning and the proofs of QF/Props/C02ClausesGen.lean fail.

import (
	"fmt"
	"go/ast"
	"go/token"
	"path/filepath"
	"strconv"
	"strings"
)

type clPkg struct {
	path    string
	files   map[string]*ast.File
	fns     map[string]*ast.FuncDecl
	types   map[string]ast.Expr
	imports map[string]string
}

type clTarget struct {
	pkg  *clPkg
	decl *ast.FuncDecl
}

type clCtx struct {
	repo   string
	module string
	pkgs   map[string]*clPkg
	root   *clPkg
	// FnId (Lean text) → what is translated under it
	targets map[string]*clTarget
	queue   []string
	bodies  map[string]string
	// the interface FilterClause: method name → "filter" | "err"
	ifaceRole map[string]string
	// fields of QFrame by role: "err" (public Err), "index", "colmap", "cols"
	frameField map[string]string
	ncolType   string // the element type of the map of columns
	// fields of the clause structs: type → field → "subs" | "err" | "sub"
	clauseField map[string]map[string]string
}

var clDynTy = map[string]string{"Filter": "filter", "AndClause": "and", "OrClause": "or", "NotClause": "not", "NullClause": "null"}
var clCtorTy = map[string]string{"And": "and", "Or": "or", "Not": "not", "Null": "null"}
var clFnOrder = []string{"FnId.publicFilter", "FnId.leaves",
	"FnId.filter DynTy.filter", "FnId.filter DynTy.and", "FnId.filter DynTy.or", "FnId.filter DynTy.not", "FnId.filter DynTy.null",
	"FnId.errM DynTy.filter", "FnId.errM DynTy.and", "FnId.errM DynTy.or", "FnId.errM DynTy.not", "FnId.errM DynTy.null",
	"FnId.ctor DynTy.and", "FnId.ctor DynTy.or", "FnId.ctor DynTy.not", "FnId.ctor DynTy.null",
	"FnId.anyErr", "FnId.orFrames", "FnId.withErr", "FnId.withIndex", "FnId.newBool", "FnId.ixLen", "FnId.maskLen", "FnId.ixFilter", "FnId.max"}

func (c *clCtx) pkg(path string) *clPkg {
	if p, ok := c.pkgs[path]; ok {
		return p
	}
	var p *clPkg
	if c.module != "" && (path == c.module || strings.HasPrefix(path, c.module+"/")) {
		dir := filepath.Join(c.repo, filepath.FromSlash(strings.TrimPrefix(strings.TrimPrefix(path, c.module), "/")))
		files := parseDir(dir)
		p = &clPkg{path: path, files: files, fns: funcDecls(files), types: typeDecls(files), imports: importsOf(files)}
	}
	c.pkgs[path] = p
	return p
}

// the package an identifier in front of a dot names (nil: it is not an import name of the repository, or it is shadowed)
func (c *clCtx) importOf(p *clPkg, x ast.Expr, sc *clScope) *clPkg {
	id, ok := x.(*ast.Ident)
	if !ok || (sc != nil && sc.lookup(id.Name) != nil) {
		return nil
	}
	path, ok := p.imports[id.Name]
	if !ok {
		return nil
	}
	return c.pkg(path)
}

func pathEnds(p *clPkg, suffix string) bool {
	return p != nil && (strings.HasSuffix(p.path, "/"+suffix))
}

// kinds: frame ptr err bool int pos ix mask leaf leaves obj objs recv:<ty> ncol colname string cmp arg colval tok:<k> unit ?
func (c *clCtx) kind(p *clPkg, t ast.Expr) string {
	switch x := t.(type) {
	case nil:
		return "unit"
	case *ast.ParenExpr:
		return c.kind(p, x.X)
	case *ast.Ident:
		switch x.Name {
		case "error":
			return "err"
		case "bool":
			return "bool"
		case "int":
			return "int"
		case "uint32":
			return "pos"
		case "string":
			return "string"
		}
		return c.namedKind(p, x.Name, 0)
	case *ast.StarExpr:
		if c.kind(p, x.X) == "frame" {
			return "ptr"
		}
	case *ast.SelectorExpr:
		if q := c.importOf(p, x.X, nil); q != nil {
			return c.namedKind(q, x.Sel.Name, 0)
		}
	case *ast.ArrayType:
		if x.Len == nil {
			return c.sliceKind(c.kind(p, x.Elt))
		}
	case *ast.Ellipsis:
		return c.sliceKind(c.kind(p, x.Elt))
	}
	return "?"
}

func (c *clCtx) sliceKind(elem string) string {
	switch elem {
	case "obj":
		return "objs"
	case "leaf":
		return "leaves"
	case "pos":
		return "ix"
	case "bool":
		return "mask"
	}
	return "?"
}

func (c *clCtx) namedKind(p *clPkg, name string, depth int) string {
	if p == nil || depth > 5 {
		return "?"
	}
	if p == c.root {
		switch name {
		case "QFrame":
			return "frame"
		case "FilterClause":
			return "obj"
		case "Filter":
			return "leaf"
		}
		if ty, ok := clDynTy[name]; ok {
			return "recv:" + ty
		}
		if name == c.ncolType && name != "" {
			return "ncol"
		}
	}
	if pathEnds(p, "filter") && name == "Filter" {
		return "leaf"
	}
	if pathEnds(p, "types") && name == "ColumnName" {
		return "colname"
	}
	// a named slice type: by its underlying type
	if t, ok := p.types[name]; ok {
		if at, ok := t.(*ast.ArrayType); ok && at.Len == nil {
			return c.sliceKind(c.kind(p, at.Elt))
		}
		if id, ok := t.(*ast.Ident); ok {
			if _, ok := p.types[id.Name]; ok && id.Name != name {
				return c.namedKind(p, id.Name, depth+1)
			}
		}
	}
	return "?"
}

// the struct type behind a named type of the package
func (c *clCtx) structOf(p *clPkg, name string) *ast.StructType {
	for i := 0; i < 5; i++ {
		t, ok := p.types[name]
		if !ok {
			return nil
		}
		switch x := t.(type) {
		case *ast.StructType:
			return x
		case *ast.Ident:
			name = x.Name
		default:
			return nil
		}
	}
	return nil
}

func (c *clCtx) scan() {
	c.ifaceRole = map[string]string{}
	c.frameField = map[string]string{}
	c.clauseField = map[string]map[string]string{}
	p := c.root
	// the element type of QFrame's map of columns
	if st := c.structOf(p, "QFrame"); st != nil {
		for _, f := range st.Fields.List {
			if mt, ok := f.Type.(*ast.MapType); ok && src(mt.Key) == "string" {
				if id, ok := mt.Value.(*ast.Ident); ok {
					c.ncolType = id.Name
				}
			}
		}
		count := map[string]int{}
		for _, f := range st.Fields.List {
			role := ""
			switch {
			case c.kind(p, f.Type) == "err":
				role = "err"
			case c.kind(p, f.Type) == "ix":
				role = "index"
			default:
				if mt, ok := f.Type.(*ast.MapType); ok && src(mt.Key) == "string" && src(mt.Value) == c.ncolType {
					role = "colmap"
				} else if at, ok := f.Type.(*ast.ArrayType); ok && at.Len == nil && src(at.Elt) == c.ncolType {
					role = "cols"
				}
			}
			for _, n := range f.Names {
				if role != "" {
					c.frameField[n.Name] = role
					count[role]++
				} else {
					c.frameField[n.Name] = "other"
				}
			}
		}
		for r, k := range count {
			if k > 1 {
				for n, rr := range c.frameField {
					if rr == r {
						c.frameField[n] = "other"
					}
				}
			}
		}
	}
	if it, ok := p.types["FilterClause"].(*ast.InterfaceType); ok {
		for _, m := range it.Methods.List {
			ft, ok := m.Type.(*ast.FuncType)
			if !ok || len(m.Names) != 1 {
				continue
			}
			pk, rk := c.sigKinds(p, ft)
			switch pk + "→" + rk {
			case "frame→frame":
				c.ifaceRole[m.Names[0].Name] = "filter"
			case "→err":
				c.ifaceRole[m.Names[0].Name] = "err"
			}
		}
	}
	for tn, ty := range clDynTy {
		if ty == "filter" {
			continue
		}
		st := c.structOf(p, tn)
		if st == nil {
			continue
		}
		roles := map[string]string{}
		count := map[string]int{}
		for _, f := range st.Fields.List {
			role := "other"
			switch c.kind(p, f.Type) {
			case "objs":
				role = "subs"
			case "err":
				role = "err"
			case "obj":
				role = "sub"
			}
			for _, n := range f.Names {
				roles[n.Name] = role
				count[role]++
			}
		}
		for n, r := range roles {
			if r != "other" && count[r] > 1 {
				roles[n] = "other"
			}
		}
		c.clauseField[ty] = roles
	}
}

func (c *clCtx) sigKinds(p *clPkg, ft *ast.FuncType) (string, string) {
	var ps, rs []string
	if ft.Params != nil {
		for _, f := range ft.Params.List {
			n := len(f.Names)
			if n == 0 {
				n = 1
			}
			for i := 0; i < n; i++ {
				ps = append(ps, c.kind(p, f.Type))
			}
		}
	}
	if ft.Results != nil {
		for _, f := range ft.Results.List {
			n := len(f.Names)
			if n == 0 {
				n = 1
			}
			for i := 0; i < n; i++ {
				rs = append(rs, c.kind(p, f.Type))
			}
		}
	}
	return strings.Join(ps, ","), strings.Join(rs, ",")
}

// the role of a declared function: its FnId as Lean text ("" = none)
func (c *clCtx) roleOf(p *clPkg, fd *ast.FuncDecl) string {
	pk, rk := c.sigKinds(p, fd.Type)
	recv := ""
	if fd.Recv != nil && len(fd.Recv.List) == 1 {
		recv = c.kind(p, fd.Recv.List[0].Type)
	}
	sig := recv + "|" + pk + "→" + rk
	switch sig {
	case "frame|obj→frame":
		return "FnId.publicFilter"
	case "frame|leaves→frame":
		return "FnId.leaves"
	case "frame|err→frame":
		return "FnId.withErr"
	case "frame|ix→frame":
		return "FnId.withIndex"
	case "|ptr,ptr,ptr→ptr":
		return "FnId.orFrames"
	case "|objs→err":
		return "FnId.anyErr"
	case "|int→mask":
		return "FnId.newBool"
	case "ix|→int":
		return "FnId.ixLen"
	case "mask|→int":
		return "FnId.maskLen"
	case "ix|mask→ix":
		return "FnId.ixFilter"
	case "|int,int→int":
		return "FnId.max"
	}
	if strings.HasPrefix(recv, "recv:") || recv == "leaf" {
		ty := strings.TrimPrefix(recv, "recv:")
		if recv == "leaf" {
			ty = "filter"
		}
		switch pk + "→" + rk {
		case "frame→frame":
			return "FnId.filter DynTy." + ty
		case "→err":
			return "FnId.errM DynTy." + ty
		}
	}
	if recv == "" && p == c.root {
		if ty, ok := clCtorTy[fd.Name.Name]; ok {
			return "FnId.ctor DynTy." + ty
		}
	}
	return ""
}

// use registers a called function under its role; "" if it has none or the role is taken by another function
func (c *clCtx) use(p *clPkg, fd *ast.FuncDecl) string {
	id := c.roleOf(p, fd)
	if id == "" {
		return ""
	}
	if t, ok := c.targets[id]; ok {
		if t.decl != fd {
			return ""
		}
		return id
	}
	c.targets[id] = &clTarget{pkg: p, decl: fd}
	c.queue = append(c.queue, id)
	return id
}

// ---------------------------------------------------------------------------------------------------------------------

type clVar struct {
	id       int
	kind     string
	leafOf   int  // tokens: the variable of the filter they come from
	local    bool // a mask made in this function
	addr     bool
	assigned bool
}

type clScope struct {
	vars   map[string]*clVar
	parent *clScope
}

func (s *clScope) lookup(n string) *clVar {
	for f := s; f != nil; f = f.parent {
		if v, ok := f.vars[n]; ok {
			return v
		}
	}
	return nil
}

func (s *clScope) push() *clScope { return &clScope{vars: map[string]*clVar{}, parent: s} }

type clFn struct {
	c    *clCtx
	p    *clPkg
	fd   *ast.FuncDecl
	next int
	all  []*clVar
	rets string // kind of the result
}

func eop(n ast.Node) *lt    { return ls("E.opaque", src(n)) }
func sop(n ast.Node) *lt    { return ls("S.opaque", src(n)) }
func sopText(s string) *lt  { return ls("S.opaque", s) }
func evar(v *clVar) *lt     { return lh("E.var", lh(strconv.Itoa(v.id))) }
func nat(v *clVar) *lt      { return lh(strconv.Itoa(v.id)) }
func block(items []*lt) *lt { return lh("S.block", ll(items)) }

func (f *clFn) declare(sc *clScope, name, kind string) *clVar {
	v := &clVar{id: f.next, kind: kind, leafOf: -1}
	f.next++
	f.all = append(f.all, v)
	if name != "_" && name != "" {
		sc.vars[name] = v
	}
	return v
}

func optVar(v *clVar) *lt {
	if v == nil {
		return lh("none")
	}
	return lh("some", nat(v))
}

// field of a selector by role
func (f *clFn) frameFieldRole(name string) string { return f.c.frameField[name] }

// expr translates an expression: (term, kind)
func (f *clFn) expr(e ast.Expr, sc *clScope) (*lt, string) {
	e = unparen(e)
	bad := func() (*lt, string) { return eop(e), "?" }
	c := f.c
	switch t := e.(type) {
	case *ast.Ident:
		if v := sc.lookup(t.Name); v != nil {
			if strings.HasPrefix(v.kind, "tok:") || v.kind == "ncol" || v.kind == "?" {
				return eop(e), v.kind
			}
			return evar(v), v.kind
		}
		switch t.Name {
		case "true":
			return lh("E.bool", lh("true")), "bool"
		case "false":
			return lh("E.bool", lh("false")), "bool"
		case "nil":
			return lh("nil"), "nil"
		}
	case *ast.BasicLit:
		if t.Kind == token.INT {
			if n, err := strconv.ParseInt(t.Value, 0, 64); err == nil {
				return lh("E.int", lh(strconv.FormatInt(n, 10))), "int"
			}
		}
	case *ast.UnaryExpr:
		switch t.Op {
		case token.NOT:
			x, k := f.expr(t.X, sc)
			if k == "bool" {
				return lh("E.not", x), "bool"
			}
		case token.AND:
			if id, ok := unparen(t.X).(*ast.Ident); ok {
				if v := sc.lookup(id.Name); v != nil && v.kind == "frame" {
					v.addr = true
					return lh("E.addr", evar(v)), "ptr"
				}
			}
		}
	case *ast.StarExpr:
		x, k := f.expr(t.X, sc)
		if k == "ptr" {
			return lh("E.deref", x), "frame"
		}
	case *ast.BinaryExpr:
		x, kx := f.expr(t.X, sc)
		y, ky := f.expr(t.Y, sc)
		switch t.Op {
		case token.LAND, token.LOR:
			if kx == "bool" && ky == "bool" {
				h := "E.and"
				if t.Op == token.LOR {
					h = "E.or"
				}
				return lh(h, x, y), "bool"
			}
		case token.EQL, token.NEQ:
			if ky == "nil" && (kx == "err" || kx == "ptr") {
				if t.Op == token.EQL {
					return lh("E.isNil", x), "bool"
				}
				return lh("E.notNil", x), "bool"
			}
			if kx == "nil" && (ky == "err" || ky == "ptr") {
				if t.Op == token.EQL {
					return lh("E.isNil", y), "bool"
				}
				return lh("E.notNil", y), "bool"
			}
			fallthrough
		case token.LSS, token.LEQ, token.GTR, token.GEQ:
			if (kx == "int" && ky == "int") || (kx == "pos" && ky == "pos") {
				op := map[token.Token]string{token.LSS: "COp.lt", token.LEQ: "COp.le", token.GTR: "COp.gt", token.GEQ: "COp.ge", token.EQL: "COp.eq", token.NEQ: "COp.ne"}[t.Op]
				return lh("E.cmp", lh(op), x, y), "bool"
			}
		case token.ADD, token.SUB:
			if kx == "int" && ky == "int" {
				h := "E.add"
				if t.Op == token.SUB {
					h = "E.sub"
				}
				return lh(h, x, y), "int"
			}
		}
	case *ast.IndexExpr:
		x, kx := f.expr(t.X, sc)
		i, ki := f.expr(t.Index, sc)
		if ki == "int" {
			switch kx {
			case "ix":
				return lh("E.at", x, i), "pos"
			case "mask":
				return lh("E.at", x, i), "bool"
			}
		}
	case *ast.SliceExpr:
		if t.Low == nil && t.High != nil && !t.Slice3 {
			x, kx := f.expr(t.X, sc)
			n, kn := f.expr(t.High, sc)
			if kx == "leaves" && kn == "int" {
				return lh("E.truncate", x, n), "leaves"
			}
		}
	case *ast.SelectorExpr:
		// a field
		if c.importOf(f.p, t.X, sc) != nil {
			return bad()
		}
		x, kx := f.expr(t.X, sc)
		if kx == "ptr" {
			x, kx = lh("E.deref", x), "frame"
		}
		switch {
		case kx == "frame":
			switch f.frameFieldRole(t.Sel.Name) {
			case "err":
				return lh("E.frameErr", x), "err"
			case "index":
				return lh("E.frameIndex", x), "ix"
			}
		case kx == "leaf" && t.Sel.Name == "Inverse":
			return lh("E.inverseFlag", x), "bool"
		case strings.HasPrefix(kx, "recv:"):
			ty := strings.TrimPrefix(kx, "recv:")
			switch c.clauseField[ty][t.Sel.Name] {
			case "subs":
				return lh("E.subClauses", x), "objs"
			case "err":
				return lh("E.errField", x), "err"
			case "sub":
				return lh("E.subClause", x), "obj"
			}
		}
	case *ast.CompositeLit:
		return f.composite(t, sc)
	case *ast.CallExpr:
		return f.call(t, sc)
	}
	return bad()
}

func (f *clFn) composite(t *ast.CompositeLit, sc *clScope) (*lt, string) {
	c := f.c
	k := c.kind(f.p, t.Type)
	fields := map[string]ast.Expr{}
	for _, el := range t.Elts {
		kv, ok := el.(*ast.KeyValueExpr)
		if !ok {
			return eop(t), "?"
		}
		id, ok := kv.Key.(*ast.Ident)
		if !ok {
			return eop(t), "?"
		}
		if _, dup := fields[id.Name]; dup {
			return eop(t), "?"
		}
		fields[id.Name] = kv.Value
	}
	switch {
	case k == "frame":
		var er, ix *lt
		from := ""
		for n, v := range fields {
			switch c.frameField[n] {
			case "err":
				x, kx := f.expr(v, sc)
				if kx == "nil" {
					x, kx = lh("E.nilErr"), "err"
				}
				if kx != "err" {
					return eop(t), "?"
				}
				er = x
			case "index":
				x, kx := f.expr(v, sc)
				if kx != "ix" {
					return eop(t), "?"
				}
				ix = x
			case "colmap", "cols":
				// copied from the same field of a frame variable (one and the same for both)
				sel, ok := unparen(v).(*ast.SelectorExpr)
				if !ok || c.frameField[sel.Sel.Name] != c.frameField[n] {
					return eop(t), "?"
				}
				id, ok := unparen(sel.X).(*ast.Ident)
				if !ok {
					return eop(t), "?"
				}
				fv := sc.lookup(id.Name)
				if fv == nil || (fv.kind != "frame" && fv.kind != "ptr") || (from != "" && from != id.Name) {
					return eop(t), "?"
				}
				from = id.Name
			default:
				return eop(t), "?"
			}
		}
		// both column fields must be carried over
		n := 0
		for name := range fields {
			if r := c.frameField[name]; r == "colmap" || r == "cols" {
				n++
			}
		}
		if n != 2 || ix == nil {
			return eop(t), "?"
		}
		if er == nil {
			er = lh("E.nilErr")
		}
		return lh("E.mkFrame", er, ix), "frame"
	case strings.HasPrefix(k, "recv:"):
		ty := strings.TrimPrefix(k, "recv:")
		switch ty {
		case "and", "or":
			subs, er := lh("E.noSubs"), lh("E.nilErr")
			for n, v := range fields {
				switch c.clauseField[ty][n] {
				case "subs":
					x, kx := f.expr(v, sc)
					if kx != "objs" {
						return eop(t), "?"
					}
					subs = x
				case "err":
					x, kx := f.expr(v, sc)
					if kx == "nil" {
						x, kx = lh("E.nilErr"), "err"
					}
					if kx != "err" {
						return eop(t), "?"
					}
					er = x
				default:
					return eop(t), "?"
				}
			}
			return lh("E.mkCombo", lh("DynTy."+ty), subs, er), k
		case "not":
			if len(fields) == 1 {
				for n, v := range fields {
					if c.clauseField[ty][n] == "sub" {
						x, kx := f.expr(v, sc)
						if kx == "obj" {
							return lh("E.mkNot", x), k
						}
					}
				}
			}
		case "null":
			if len(fields) == 0 {
				return lh("E.mkNull"), k
			}
		}
	}
	return eop(t), "?"
}

// does the call produce a non-nil error: a function of package qerrors whose result is its struct type
func (f *clFn) isNewErr(t *ast.CallExpr, sc *clScope) bool {
	sel, ok := unparen(t.Fun).(*ast.SelectorExpr)
	if !ok {
		return false
	}
	q := f.c.importOf(f.p, sel.X, sc)
	if !pathEnds(q, "qerrors") {
		return false
	}
	fd, ok := q.fns[sel.Sel.Name]
	if !ok || fd.Recv != nil || fd.Type.Results == nil || len(fd.Type.Results.List) != 1 {
		return false
	}
	id, ok := fd.Type.Results.List[0].Type.(*ast.Ident)
	if !ok {
		return false
	}
	return f.c.structOf(q, id.Name) != nil
}

func (f *clFn) args(args []ast.Expr, sc *clScope) ([]*lt, []string) {
	var ts []*lt
	var ks []string
	for _, a := range args {
		x, k := f.expr(a, sc)
		ts = append(ts, x)
		ks = append(ks, k)
	}
	return ts, ks
}

// a call of a translated function: the argument kinds must be the parameter kinds
func (f *clFn) callFn(p *clPkg, fd *ast.FuncDecl, recv *lt, recvKind string, t *ast.CallExpr, sc *clScope) (*lt, string) {
	c := f.c
	id := c.use(p, fd)
	if id == "" {
		return eop(t), "?"
	}
	pk, rk := c.sigKinds(p, fd.Type)
	var want []string
	if pk != "" {
		want = strings.Split(pk, ",")
	}
	var terms []*lt
	if recv != nil {
		if fd.Recv == nil || len(fd.Recv.List) != 1 || c.kind(p, fd.Recv.List[0].Type) != recvKind {
			return eop(t), "?"
		}
		terms = append(terms, recv)
	}
	variadic := false
	if fd.Type.Params != nil && len(fd.Type.Params.List) > 0 {
		_, variadic = fd.Type.Params.List[len(fd.Type.Params.List)-1].Type.(*ast.Ellipsis)
	}
	as, ks := f.args(t.Args, sc)
	if variadic {
		// f(xs...) or f(x)
		if len(want) != 1 {
			return eop(t), "?"
		}
		if t.Ellipsis != token.NoPos {
			if len(as) != 1 || ks[0] != want[0] {
				return eop(t), "?"
			}
			terms = append(terms, as[0])
		} else {
			if len(as) != 1 || want[0] != "leaves" || ks[0] != "leaf" {
				return eop(t), "?"
			}
			terms = append(terms, lh("E.single", as[0]))
		}
	} else {
		if len(as) != len(want) {
			return eop(t), "?"
		}
		for i := range as {
			k := ks[i]
			if k == "nil" && want[i] == "ptr" {
				as[i], k = lh("E.nilPtr"), "ptr"
			}
			if k == "nil" && want[i] == "err" {
				as[i], k = lh("E.nilErr"), "err"
			}
			if k != want[i] {
				return eop(t), "?"
			}
			terms = append(terms, as[i])
		}
	}
	if len(terms) < 1 || len(terms) > 3 {
		return eop(t), "?"
	}
	head := []string{"", "E.call1", "E.call2", "E.call3"}[len(terms)]
	return lh(head, append([]*lt{lh(id)}, terms...)...), rk
}

func (f *clFn) call(t *ast.CallExpr, sc *clScope) (*lt, string) {
	c := f.c
	bad := func() (*lt, string) { return eop(t), "?" }
	if f.isNewErr(t, sc) {
		return lh("E.newErr"), "err"
	}
	switch fun := unparen(t.Fun).(type) {
	case *ast.Ident:
		if sc.lookup(fun.Name) != nil {
			return bad()
		}
		switch fun.Name {
		case "len":
			if len(t.Args) == 1 {
				x, k := f.expr(t.Args[0], sc)
				if k == "ix" || k == "mask" || k == "leaves" || k == "objs" {
					return lh("E.len", x), "int"
				}
			}
			return bad()
		case "make":
			if len(t.Args) >= 2 {
				k := c.kind(f.p, t.Args[0])
				switch {
				case k == "mask" && len(t.Args) == 2:
					n, kn := f.expr(t.Args[1], sc)
					if kn == "int" {
						return lh("E.makeMask", n), "mask"
					}
				case k == "ix" && len(t.Args) == 3 && isIntLit(t.Args[1], "0"):
					n, kn := f.expr(t.Args[2], sc)
					if kn == "int" {
						return lh("E.makeIx", n), "ix"
					}
				case k == "leaves" && len(t.Args) == 2 && isIntLit(t.Args[1], "0"):
					return lh("E.emptyLeaves"), "leaves"
				}
			}
			return bad()
		case "append":
			if len(t.Args) == 2 && t.Ellipsis == token.NoPos {
				l, kl := f.expr(t.Args[0], sc)
				x, kx := f.expr(t.Args[1], sc)
				if (kl == "ix" && kx == "pos") || (kl == "leaves" && kx == "leaf") {
					return lh("E.snoc", l, x), kl
				}
			}
			return bad()
		}
		// a conversion between the two names of the filter struct
		if len(t.Args) == 1 && c.kind(f.p, fun) == "leaf" {
			x, k := f.expr(t.Args[0], sc)
			if k == "leaf" {
				return x, "leaf"
			}
			return bad()
		}
		if fd, ok := f.p.fns[fun.Name]; ok && fd.Recv == nil {
			return f.callFn(f.p, fd, nil, "", t, sc)
		}
	case *ast.SelectorExpr:
		if q := c.importOf(f.p, fun.X, sc); q != nil {
			// a conversion filter.Filter(x)
			if len(t.Args) == 1 && c.kind(f.p, fun) == "leaf" {
				x, k := f.expr(t.Args[0], sc)
				if k == "leaf" {
					return x, "leaf"
				}
				return bad()
			}
			if fd, ok := q.fns[fun.Sel.Name]; ok && fd.Recv == nil {
				return f.callFn(q, fd, nil, "", t, sc)
			}
			return bad()
		}
		// a method call
		x, kx := f.expr(fun.X, sc)
		if kx == "ptr" {
			x, kx = lh("E.deref", x), "frame"
		}
		switch {
		case kx == "obj":
			switch c.ifaceRole[fun.Sel.Name] {
			case "filter":
				if len(t.Args) == 1 {
					a, ka := f.expr(t.Args[0], sc)
					if ka == "frame" {
						return lh("E.callFilter", x, a), "frame"
					}
				}
			case "err":
				if len(t.Args) == 0 {
					return lh("E.callErr", x), "err"
				}
			}
		case kx == "frame":
			if fd, ok := c.root.fns["QFrame."+fun.Sel.Name]; ok {
				return f.callFn(c.root, fd, x, kx, t, sc)
			}
		case kx == "ix" || kx == "mask":
			// the named type of the receiver: found through the declaring package of the method
			var hitP *clPkg
			var hit *ast.FuncDecl
			hits := 0
			for _, q := range c.pkgs {
				if q == nil {
					continue
				}
				for name, fd := range q.fns {
					if fd.Recv != nil && strings.HasSuffix(name, "."+fun.Sel.Name) && len(fd.Recv.List) == 1 && c.kind(q, fd.Recv.List[0].Type) == kx {
						hitP, hit = q, fd
						hits++
					}
				}
			}
			if hits == 1 {
				return f.callFn(hitP, hit, x, kx, t, sc)
			}
		case strings.HasPrefix(kx, "recv:") || kx == "leaf":
			tn := ""
			for n, ty := range clDynTy {
				if "recv:"+ty == kx || (kx == "leaf" && ty == "filter") {
					tn = n
				}
			}
			if fd, ok := c.root.fns[tn+"."+fun.Sel.Name]; ok {
				return f.callFn(c.root, fd, x, kx, t, sc)
			}
		}
	}
	return bad()
}

// ---------------------------------------------------------------------------------------------------------------------
// statements

func (f *clFn) stmts(list []ast.Stmt, sc *clScope) []*lt {
	var out []*lt
	for _, st := range list {
		out = append(out, f.stmt(st, sc)...)
	}
	return out
}

func (f *clFn) blockOf(b *ast.BlockStmt, sc *clScope) *lt {
	if b == nil {
		return block(nil)
	}
	return block(f.stmts(b.List, sc.push()))
}

func (f *clFn) elseOf(e ast.Stmt, sc *clScope) *lt {
	switch x := e.(type) {
	case nil:
		return block(nil)
	case *ast.BlockStmt:
		return f.blockOf(x, sc)
	case *ast.IfStmt:
		return block(f.stmt(x, sc.push()))
	}
	return block([]*lt{sop(e)})
}

func zeroOf(kind string) *lt {
	switch kind {
	case "err":
		return lh("E.nilErr")
	case "ptr":
		return lh("E.nilPtr")
	case "int":
		return lh("E.int", lh("0"))
	case "bool":
		return lh("E.bool", lh("false"))
	}
	return nil
}

// coerce nil to the kind wanted
func coerce(x *lt, k, want string) (*lt, string) {
	if k == "nil" {
		if z := zeroOf(want); z != nil && (want == "err" || want == "ptr") {
			return z, want
		}
	}
	return x, k
}

// <leaf variable>.<field>
func (f *clFn) leafField(e ast.Expr, field string, sc *clScope) *clVar {
	sel, ok := unparen(e).(*ast.SelectorExpr)
	if !ok || sel.Sel.Name != field {
		return nil
	}
	id, ok := unparen(sel.X).(*ast.Ident)
	if !ok {
		return nil
	}
	if v := sc.lookup(id.Name); v != nil && v.kind == "leaf" {
		return v
	}
	return nil
}

// <token variable>.Column
func (f *clFn) tokColumn(e ast.Expr, kind string, sc *clScope) *clVar {
	sel, ok := unparen(e).(*ast.SelectorExpr)
	if !ok || sel.Sel.Name != "Column" {
		return nil
	}
	id, ok := unparen(sel.X).(*ast.Ident)
	if !ok {
		return nil
	}
	if v := sc.lookup(id.Name); v != nil && v.kind == kind {
		return v
	}
	return nil
}

func (f *clFn) isColMap(e ast.Expr, sc *clScope) (*lt, bool) {
	sel, ok := unparen(e).(*ast.SelectorExpr)
	if !ok || f.c.frameField[sel.Sel.Name] != "colmap" {
		return nil, false
	}
	x, k := f.expr(sel.X, sc)
	if k == "ptr" {
		x, k = lh("E.deref", x), "frame"
	}
	return x, k == "frame"
}

var clColPkg = map[string]string{"icolumn": "PTy.int", "fcolumn": "PTy.float", "bcolumn": "PTy.bool", "scolumn": "PTy.string", "ecolumn": "PTy.enum"}

// the column type a type expression <pkg>.Column names
func (f *clFn) colTy(t ast.Expr, sc *clScope) string {
	sel, ok := unparen(t).(*ast.SelectorExpr)
	if !ok || sel.Sel.Name != "Column" {
		return "PTy.other"
	}
	q := f.c.importOf(f.p, sel.X, sc)
	if q == nil {
		return "PTy.other"
	}
	for suffix, ty := range clColPkg {
		if pathEnds(q, "internal/"+suffix) {
			return ty
		}
	}
	return "PTy.other"
}

// `if x, ok := E.(T); ok` : (x, E, T)
func commaOk(s *ast.IfStmt) (string, ast.Expr, bool) {
	as, ok := s.Init.(*ast.AssignStmt)
	if !ok || as.Tok != token.DEFINE || len(as.Lhs) != 2 || len(as.Rhs) != 1 {
		return "", nil, false
	}
	v, ok1 := as.Lhs[0].(*ast.Ident)
	o, ok2 := as.Lhs[1].(*ast.Ident)
	c, ok3 := unparen(s.Cond).(*ast.Ident)
	if !ok1 || !ok2 || !ok3 || o.Name != c.Name || o.Name == "_" || v.Name == o.Name {
		return "", nil, false
	}
	return v.Name, as.Rhs[0], true
}

// the promotion chain on (s.Column, a.Column)
func (f *clFn) promoteChain(s *ast.IfStmt, sc *clScope) *lt {
	var rules []*lt
	var sv, av *clVar
	for cur := s; cur != nil; {
		name, rhs, ok := commaOk(cur)
		if !ok {
			return nil
		}
		ta, ok := unparen(rhs).(*ast.TypeAssertExpr)
		if !ok || ta.Type == nil {
			return nil
		}
		v := f.tokColumn(ta.X, "tok:col", sc)
		if v == nil || (sv != nil && sv != v) {
			return nil
		}
		sv = v
		recvTy := f.colTy(ta.Type, sc)
		if len(cur.Body.List) != 1 {
			return nil
		}
		in, ok := cur.Body.List[0].(*ast.IfStmt)
		if !ok || in.Else != nil {
			return nil
		}
		name2, rhs2, ok := commaOk(in)
		if !ok {
			return nil
		}
		ta2, ok := unparen(rhs2).(*ast.TypeAssertExpr)
		if !ok || ta2.Type == nil {
			return nil
		}
		a := f.tokColumn(ta2.X, "tok:argCol", sc)
		if a == nil || (av != nil && av != a) {
			return nil
		}
		av = a
		argTy := f.colTy(ta2.Type, sc)
		// X.Column = <pkg>.New(<v>.FloatSlice())
		if len(in.Body.List) != 1 {
			return nil
		}
		as, ok := in.Body.List[0].(*ast.AssignStmt)
		if !ok || as.Tok != token.ASSIGN || len(as.Lhs) != 1 || len(as.Rhs) != 1 {
			return nil
		}
		side, from := "", ""
		switch {
		case f.tokColumn(as.Lhs[0], "tok:col", sc) == sv:
			side, from = "PSide.column", name
		case f.tokColumn(as.Lhs[0], "tok:argCol", sc) == av:
			side, from = "PSide.arg", name2
		default:
			return nil
		}
		call, ok := unparen(as.Rhs[0]).(*ast.CallExpr)
		if !ok || len(call.Args) != 1 {
			return nil
		}
		fn, ok := unparen(call.Fun).(*ast.SelectorExpr)
		if !ok || fn.Sel.Name != "New" {
			return nil
		}
		toTy := f.colTy(&ast.SelectorExpr{X: fn.X, Sel: &ast.Ident{Name: "Column"}}, sc)
		inner, ok := unparen(call.Args[0]).(*ast.CallExpr)
		if !ok || len(inner.Args) != 0 {
			return nil
		}
		m, ok := unparen(inner.Fun).(*ast.SelectorExpr)
		if !ok || m.Sel.Name != "FloatSlice" || !isName(m.X, from) || toTy != "PTy.float" {
			return nil
		}
		rules = append(rules, lh("PRule.mk", lh(recvTy), lh(argTy), lh(side), lh(toTy)))
		switch e := cur.Else.(type) {
		case nil:
			cur = nil
		case *ast.IfStmt:
			cur = e
		default:
			return nil
		}
	}
	if sv == nil || av == nil {
		return nil
	}
	return lh("S.promote", ll(rules), nat(sv), nat(av))
}

func (f *clFn) ifStmt(s *ast.IfStmt, sc *clScope) []*lt {
	c := f.c
	if s.Init == nil {
		cond, k := f.expr(s.Cond, sc)
		if k != "bool" {
			return []*lt{sop(s)}
		}
		return []*lt{lh("S.ite", cond, f.blockOf(s.Body, sc), f.elseOf(s.Else, sc))}
	}
	name, rhs, ok := commaOk(s)
	if !ok {
		return []*lt{sop(s)}
	}
	inner := sc.push()
	switch r := unparen(rhs).(type) {
	case *ast.TypeAssertExpr:
		if r.Type == nil {
			break
		}
		if p := f.promoteChain(s, sc); p != nil {
			return []*lt{p}
		}
		// f.Arg.(types.ColumnName)
		if lv := f.leafField(r.X, "Arg", sc); lv != nil && c.kind(f.p, r.Type) == "colname" && s.Else == nil {
			v := f.declare(inner, name, "tok:argName")
			v.leafOf = lv.id
			return []*lt{lh("S.ifArgIsColumn", nat(lv), nat(v), f.blockOf(s.Body, inner))}
		}
		// f.Comparator.(string)
		if lv := f.leafField(r.X, "Comparator", sc); lv != nil && c.kind(f.p, r.Type) == "string" && s.Else == nil {
			v := f.declare(inner, name, "tok:cmpStr")
			v.leafOf = lv.id
			return []*lt{lh("S.ifCmpIsString", nat(lv), nat(v), f.blockOf(s.Body, inner))}
		}
		// c.(T) for an interface value and a clause type
		x, kx := f.expr(r.X, sc)
		kt := c.kind(f.p, r.Type)
		if kx == "obj" && (kt == "leaf" || strings.HasPrefix(kt, "recv:")) {
			ty := "filter"
			if kt != "leaf" {
				ty = strings.TrimPrefix(kt, "recv:")
			}
			v := f.declare(inner, name, kt)
			return []*lt{lh("S.ifIs", x, lh("DynTy."+ty), nat(v), f.blockOf(s.Body, inner), f.elseOf(s.Else, sc))}
		}
	case *ast.IndexExpr:
		// filter.Inverse[key]
		sel, ok := unparen(r.X).(*ast.SelectorExpr)
		if !ok || sel.Sel.Name != "Inverse" || !pathEnds(c.importOf(f.p, sel.X, sc), "filter") || s.Else != nil {
			break
		}
		id, ok := unparen(r.Index).(*ast.Ident)
		if !ok {
			break
		}
		kv := sc.lookup(id.Name)
		if kv == nil || kv.kind != "tok:cmpStr" {
			break
		}
		v := f.declare(inner, name, "tok:invCmp")
		v.leafOf = kv.leafOf
		return []*lt{lh("S.ifInverseEntry", nat(kv), nat(v), f.blockOf(s.Body, inner))}
	}
	return []*lt{sop(s)}
}

// does the statement list write the mask variable (m[i] = …, or hand it to a kernel)?
func writesMask(body *ast.BlockStmt, name string) bool {
	found := false
	ast.Inspect(body, func(n ast.Node) bool {
		switch x := n.(type) {
		case *ast.AssignStmt:
			for _, l := range x.Lhs {
				if ix, ok := l.(*ast.IndexExpr); ok && isName(ix.X, name) {
					found = true
				}
				if isName(l, name) {
					found = true
				}
			}
		case *ast.CallExpr:
			for _, a := range x.Args {
				if isName(a, name) {
					if fn, ok := x.Fun.(*ast.Ident); !ok || fn.Name != "len" {
						found = true
					}
				}
			}
		}
		return true
	})
	return found
}

func (f *clFn) rangeStmt(s *ast.RangeStmt, sc *clScope) []*lt {
	if s.Tok != token.DEFINE && !(s.Tok == token.ILLEGAL && s.Key == nil && s.Value == nil) {
		return []*lt{sop(s)}
	}
	xs, k := f.expr(s.X, sc)
	elem := map[string]string{"ix": "pos", "mask": "bool", "leaves": "leaf", "objs": "obj"}[k]
	if elem == "" {
		return []*lt{sop(s)}
	}
	inner := sc.push()
	var kv, vv *clVar
	if id, ok := s.Key.(*ast.Ident); ok && id.Name != "_" {
		kv = f.declare(inner, id.Name, "int")
	} else if s.Key != nil && !ok {
		return []*lt{sop(s)}
	}
	if id, ok := s.Value.(*ast.Ident); ok && id.Name != "_" {
		vv = f.declare(inner, id.Name, elem)
	} else if s.Value != nil && !ok {
		return []*lt{sop(s)}
	}
	if id, ok := unparen(s.X).(*ast.Ident); ok && k == "mask" && writesMask(s.Body, id.Name) {
		mv := sc.lookup(id.Name)
		if mv == nil || !mv.local {
			return []*lt{sop(s)}
		}
		return []*lt{lh("S.rangeLive", nat(mv), optVar(kv), optVar(vv), f.blockOf(s.Body, inner))}
	}
	return []*lt{lh("S.range", xs, optVar(kv), optVar(vv), f.blockOf(s.Body, inner))}
}

func (f *clFn) defineVar(sc *clScope, name string, x *lt, k string) []*lt {
	if k == "nil" || k == "?" || k == "unit" || strings.Contains(k, ",") {
		return nil
	}
	v := f.declare(sc, name, k)
	if k == "mask" && x.head != "E.var" {
		v.local = true // a mask this function makes (make, or the result of a call)
	}
	return []*lt{lh("S.define", nat(v), x)}
}

func (f *clFn) assign(s *ast.AssignStmt, sc *clScope) []*lt {
	c := f.c
	bad := []*lt{sop(s)}
	// s, ok := <frame>.<colmap>[key]
	if s.Tok == token.DEFINE && len(s.Lhs) == 2 && len(s.Rhs) == 1 {
		ix, ok := unparen(s.Rhs[0]).(*ast.IndexExpr)
		a, ok1 := s.Lhs[0].(*ast.Ident)
		o, ok2 := s.Lhs[1].(*ast.Ident)
		if !ok || !ok1 || !ok2 || a.Name == "_" || o.Name == "_" {
			return bad
		}
		fr, isMap := f.isColMap(ix.X, sc)
		if !isMap {
			return bad
		}
		if lv := f.leafField(ix.Index, "Column", sc); lv != nil {
			sv := f.declare(sc, a.Name, "tok:col")
			sv.leafOf = lv.id
			ov := f.declare(sc, o.Name, "bool")
			return []*lt{lh("S.lookupColumn", nat(sv), nat(ov), fr, evar(lv))}
		}
		// string(name)
		if call, ok := unparen(ix.Index).(*ast.CallExpr); ok && len(call.Args) == 1 && isName(call.Fun, "string") && sc.lookup("string") == nil {
			if id, ok := unparen(call.Args[0]).(*ast.Ident); ok {
				if nv := sc.lookup(id.Name); nv != nil && nv.kind == "tok:argName" {
					av := f.declare(sc, a.Name, "tok:argCol")
					av.leafOf = nv.leafOf
					ov := f.declare(sc, o.Name, "bool")
					return []*lt{lh("S.lookupArgColumn", nat(av), nat(ov), fr, nat(nv))}
				}
			}
		}
		return bad
	}
	if len(s.Lhs) != len(s.Rhs) {
		return bad
	}
	if len(s.Lhs) > 1 {
		// a, b := e1, e2 with right-hand sides that do not mention the variables
		if s.Tok != token.DEFINE {
			return bad
		}
		var out []*lt
		var xs []*lt
		var ks []string
		for _, r := range s.Rhs {
			x, k := f.expr(r, sc)
			xs, ks = append(xs, x), append(ks, k)
		}
		for i, l := range s.Lhs {
			id, ok := l.(*ast.Ident)
			if !ok {
				return bad
			}
			d := f.defineVar(sc, id.Name, xs[i], ks[i])
			if d == nil {
				return bad
			}
			out = append(out, d...)
		}
		return out
	}
	lhs, rhs := s.Lhs[0], s.Rhs[0]
	switch s.Tok {
	case token.DEFINE:
		id, ok := lhs.(*ast.Ident)
		if !ok {
			return bad
		}
		x, k := f.expr(rhs, sc)
		if d := f.defineVar(sc, id.Name, x, k); d != nil {
			return d
		}
		return bad
	case token.ASSIGN:
		switch l := unparen(lhs).(type) {
		case *ast.Ident:
			v := sc.lookup(l.Name)
			if v == nil {
				return bad
			}
			// err = s.Filter(ix, cmp, f.Arg, mask)
			if k := f.kernel(v, rhs, sc); k != nil {
				return []*lt{k}
			}
			x, k := f.expr(rhs, sc)
			x, k = coerce(x, k, v.kind)
			if k != v.kind || strings.HasPrefix(k, "tok:") || k == "mask" {
				return bad
			}
			v.assigned = true
			return []*lt{lh("S.assign", nat(v), x)}
		case *ast.IndexExpr:
			id, ok := unparen(l.X).(*ast.Ident)
			if !ok {
				return bad
			}
			v := sc.lookup(id.Name)
			i, ki := f.expr(l.Index, sc)
			x, kx := f.expr(rhs, sc)
			if v == nil || v.kind != "mask" || !v.local || ki != "int" || kx != "bool" {
				return bad
			}
			return []*lt{lh("S.setAt", nat(v), i, x)}
		case *ast.SelectorExpr:
			// f.Inverse = e
			if lv := f.leafField(l, "Inverse", sc); lv != nil {
				x, k := f.expr(rhs, sc)
				if k == "bool" {
					return []*lt{lh("S.setInverse", nat(lv), x)}
				}
			}
			// f.Arg = a.Column
			if lv := f.leafField(l, "Arg", sc); lv != nil {
				if av := f.tokColumn(rhs, "tok:argCol", sc); av != nil && av.leafOf == lv.id {
					return []*lt{lh("S.setArg", nat(lv), nat(av))}
				}
			}
		}
	}
	_ = c
	return bad
}

func (f *clFn) kernel(ev *clVar, rhs ast.Expr, sc *clScope) *lt {
	call, ok := unparen(rhs).(*ast.CallExpr)
	if !ok || len(call.Args) != 4 || ev.kind != "err" {
		return nil
	}
	sel, ok := unparen(call.Fun).(*ast.SelectorExpr)
	if !ok || sel.Sel.Name != "Filter" {
		return nil
	}
	id, ok := unparen(sel.X).(*ast.Ident)
	if !ok {
		return nil
	}
	sv := sc.lookup(id.Name)
	if sv == nil || sv.kind != "tok:col" {
		return nil
	}
	ix, kix := f.expr(call.Args[0], sc)
	if kix != "ix" {
		return ls("S.opaque", src(rhs))
	}
	lv := f.leafField(call.Args[2], "Arg", sc)
	if lv == nil || lv.id != sv.leafOf {
		return ls("S.opaque", src(rhs))
	}
	var cmp *lt
	if cv := f.leafField(call.Args[1], "Comparator", sc); cv != nil && cv == lv {
		cmp = lh("KCmp.own")
	} else if cid, ok := unparen(call.Args[1]).(*ast.Ident); ok {
		if iv := sc.lookup(cid.Name); iv != nil && iv.kind == "tok:invCmp" && iv.leafOf == lv.id {
			cmp = lh("KCmp.inverseVia", nat(iv))
		}
	}
	mid, ok := unparen(call.Args[3]).(*ast.Ident)
	if cmp == nil || !ok {
		return ls("S.opaque", src(rhs))
	}
	mv := sc.lookup(mid.Name)
	if mv == nil || mv.kind != "mask" || !mv.local {
		return ls("S.opaque", src(rhs))
	}
	return lh("S.kernel", nat(ev), nat(sv), ix, cmp, nat(lv), nat(mv))
}

func (f *clFn) stmt(st ast.Stmt, sc *clScope) []*lt {
	switch s := st.(type) {
	case *ast.EmptyStmt:
		return nil
	case *ast.BlockStmt:
		return []*lt{f.blockOf(s, sc)}
	case *ast.ReturnStmt:
		if len(s.Results) != 1 {
			return []*lt{sop(s)}
		}
		x, k := f.expr(s.Results[0], sc)
		x, k = coerce(x, k, f.rets)
		if k != f.rets {
			return []*lt{sop(s)}
		}
		return []*lt{lh("S.ret", x)}
	case *ast.IfStmt:
		return f.ifStmt(s, sc)
	case *ast.RangeStmt:
		return f.rangeStmt(s, sc)
	case *ast.AssignStmt:
		return f.assign(s, sc)
	case *ast.IncDecStmt:
		if id, ok := s.X.(*ast.Ident); ok && s.Tok == token.INC {
			if v := sc.lookup(id.Name); v != nil && v.kind == "int" {
				v.assigned = true
				return []*lt{lh("S.incr", nat(v))}
			}
		}
	case *ast.DeclStmt:
		gd, ok := s.Decl.(*ast.GenDecl)
		if !ok || gd.Tok != token.VAR {
			break
		}
		var out []*lt
		for _, sp := range gd.Specs {
			vs, ok := sp.(*ast.ValueSpec)
			if !ok || vs.Type == nil || len(vs.Values) > 0 && len(vs.Values) != len(vs.Names) {
				return []*lt{sop(s)}
			}
			k := f.c.kind(f.p, vs.Type)
			for i, n := range vs.Names {
				x := zeroOf(k)
				if len(vs.Values) > 0 {
					y, ky := f.expr(vs.Values[i], sc)
					y, ky = coerce(y, ky, k)
					if ky != k {
						return []*lt{sop(s)}
					}
					x = y
				}
				if x == nil {
					return []*lt{sop(s)}
				}
				out = append(out, f.defineVar(sc, n.Name, x, k)...)
			}
		}
		return out
	}
	return []*lt{sop(st)}
}

// translate one function: (number of parameters, body)
func (c *clCtx) translate(t *clTarget) string {
	f := &clFn{c: c, p: t.pkg, fd: t.decl}
	sc := &clScope{vars: map[string]*clVar{}}
	addParams := func(fl *ast.FieldList) {
		if fl == nil {
			return
		}
		for _, fld := range fl.List {
			k := c.kind(t.pkg, fld.Type)
			if len(fld.Names) == 0 {
				f.declare(sc, "_", k)
			}
			for _, n := range fld.Names {
				f.declare(sc, n.Name, k)
			}
		}
	}
	addParams(t.decl.Recv)
	addParams(t.decl.Type.Params)
	params := f.next
	_, f.rets = c.sigKinds(t.pkg, t.decl.Type)
	body := f.stmts(t.decl.Body.List, sc.push())
	for _, v := range f.all {
		if v.addr && v.assigned {
			body = []*lt{sopText("the address of a variable that is assigned again is taken")}
		}
	}
	return fmt.Sprintf("{ params := %d, body := %s }", params, block(body).lean())
}

func clausesLean(repo string) string {
	c := &clCtx{repo: repo, module: modulePath(repo), pkgs: map[string]*clPkg{}, targets: map[string]*clTarget{}, bodies: map[string]string{}}
	c.root = c.pkg(c.module)
	if c.root != nil {
		c.scan()
		// the index package is needed to resolve methods on index values
		for _, path := range c.root.imports {
			if strings.HasSuffix(path, "/internal/index") {
				c.pkg(path)
			}
		}
		// the roots
		if fd, ok := c.root.fns["QFrame.Filter"]; ok {
			c.use(c.root, fd)
		}
		for _, tn := range []string{"Filter", "AndClause", "OrClause", "NotClause", "NullClause"} {
			for m := range c.ifaceRole {
				if fd, ok := c.root.fns[tn+"."+m]; ok {
					c.use(c.root, fd)
				}
			}
		}
		for _, n := range []string{"And", "Or", "Not", "Null"} {
			if fd, ok := c.root.fns[n]; ok && fd.Recv == nil {
				c.use(c.root, fd)
			}
		}
		for len(c.queue) > 0 {
			id := c.queue[0]
			c.queue = c.queue[1:]
			c.bodies[id] = c.translate(c.targets[id])
		}
	}
	var b strings.Builder
	b.WriteString("/- GENERATED on every run by /verif/go/cmd/extract from /repo's source (tie T1). Do not edit. -/\nimport QF.Core.CLExpr\nnamespace QF.Gen\nopen QF.CL\n\n")
	b.WriteString("/-- the clause evaluation of Filter (`QFrame.Filter`, `QFrame.filter`, the `filter` / `Err` methods and the constructors of the\nclause types, `anyFilterErr`, `orFrames`, `withErr`, `withIndex`, and the helpers of internal/index they call) translated\nstatement by statement to the language `QF.CL`, by role: (function, term) -/\n")
	b.WriteString("def clauseFns : List (FnId × Fn) := [\n")
	var items []string
	for _, id := range clFnOrder {
		if body, ok := c.bodies[id]; ok {
			items = append(items, "  ("+id+", "+body+")")
		}
	}
	b.WriteString(strings.Join(items, ",\n") + "]\n\nend QF.Gen\n")
	return b.String()
}
