package main

// Translation go/ast → EP / ET / EC / ETmp (lean/QF/Core/EVExpr.lean) of the expression EXECUTION of /repo/expression.go
// and of QFrame.Eval (/repo/qframe.go):
//
//	func (e T) <execute>(qf QFrame, ctx *eval.Context) (QFrame, types.ColumnName)     T the eight expression structs
//	func getFunc(…) (QFrame, interface{}), the constructors called on the spot         inlined
//	func tempColName(qf QFrame, prefix string) types.ColumnName                       → ETmp (the function with the loop)
//	func missingCol(expr Expression, qf QFrame) (types.ColumnName, bool)              → EMiss (the recursive function)
//	func (qf QFrame) Eval(dstCol string, expr Expression, ff ...eval.ConfigFunc) QFrame
//
// Method: symbolic execution in continuation-passing style (as xast.go). Frames are immutable values here, so every call
// on a frame is a pure term; a run-time decision forks the execution (`EP.ite`), a call of the `execute` method of another
// expression — a struct built on the spot or a sub-expression field behind the interface — becomes an `EP.exec` node
// whose two results are `outF r` / `outN r` (r = number of such calls on the path). Package functions without a loop are
// executed on their symbolic arguments (`getFunc`, `newConstExpr`, `newColColExpr`, `newUnaryExpr`, `opIdentifier`, …):
// a type assertion on a value whose static type is known is decided at translation time. Two simplifications, both
// sound because conditions are pure: a condition already decided on the path is not asked again, and a fork whose two
// sides are the same term is that term.
//
// By ROLE, never by name: struct types by the multiset of their field types and their `Err()` method (xast.go `roleOf`);
// receiver fields by type and declaration order; the method `execute` as "the method of the Expression interface with two
// parameters"; `withErr` / `functionType` by their signatures; locals by what was assigned to them. Fixed vocabulary: the
// public names `QFrame`, `Eval`, `Val`, `Instruction{Fn, DstCol, SrcCol1, SrcCol2}`, `Apply`, `Drop`, `Contains`, `Copy`, `Err`,
// `types.ColumnName`, `eval.Context`, `GetFunc`, `NewConfig`, `Ctx`, `ArgCountOne/Two`, `qerrors.New/Errorf/Propagate`,
// `strconv.Itoa`, the builtins. Whatever is not understood becomes `.opaque`.

import (
	"go/ast"
	"go/token"
	"path/filepath"
	"strconv"
	"strings"
)

type evv struct {
	kind string
	// frame | name (types.ColumnName) | str | err | fnval (an interface{} handed to Instruction.Fn) | ftype | cond | ctx |
	// config | conffuncs | arity | recv | node | sub | int | list | nilv | null
	t      *lt
	f, n   *lt // ftype: functionType(f, n)
	i      int
	typ    string
	role   string
	fields map[string]*evv
	elems  []*evv
}

type evscope struct {
	vars   map[string]*evv
	parent *evscope
}

func (s *evscope) push() *evscope { return &evscope{vars: map[string]*evv{}, parent: s} }
func (s *evscope) get(n string) (*evv, bool) {
	for f := s; f != nil; f = f.parent {
		if v, ok := f.vars[n]; ok {
			return v, true
		}
	}
	return nil, false
}
func (s *evscope) bound(n string) bool { _, ok := s.get(n); return ok }
func (s *evscope) set(n string, v *evv) bool {
	for f := s; f != nil; f = f.parent {
		if _, ok := f.vars[n]; ok {
			f.vars[n] = v
			return true
		}
	}
	return false
}
func (s *evscope) clone() *evscope {
	if s == nil {
		return nil
	}
	r := &evscope{vars: map[string]*evv{}, parent: s.parent.clone()}
	for k, v := range s.vars {
		r.vars[k] = v
	}
	return r
}

// what is known on the path from the root: the number of execute calls made, the conditions decided
type evpath struct {
	nexec int
	known map[string]bool
}

func (p *evpath) with(key string, v bool) *evpath {
	r := &evpath{nexec: p.nexec, known: map[string]bool{}}
	for k, x := range p.known {
		r.known[k] = x
	}
	r.known[key] = v
	return r
}

type evctx struct {
	*xctx
	frameType   string
	execName    string
	fileImports map[*ast.FuncDecl]map[string]string
	recvRole    string
	recvType    string
	tmpDecl     *ast.FuncDecl
	tmpClash    bool
	missDecl    *ast.FuncDecl
	missClash   bool
	budget      int
}

type evk func(vs []*evv, p *evpath) *lt

func epOpaque(n ast.Node) *lt   { return ls("EP.opaque", src(n)) }
func epOpaqueText(s string) *lt { return ls("EP.opaque", s) }

var eTT, eFF = lh("EC.tt"), lh("EC.ff")

func econd(c *lt) *evv  { return &evv{kind: "cond", t: c} }
func estr(s string) *lt { return ls("ET.str", s) }

func enot(c *lt) *lt {
	switch c.head {
	case "EC.tt":
		return eFF
	case "EC.ff":
		return eTT
	case "EC.not":
		return c.args[0]
	}
	return lh("EC.not", c)
}

func eand(a, b *lt) *lt {
	switch {
	case a.head == "EC.tt":
		return b
	case a.head == "EC.ff":
		return eFF
	case b.head == "EC.tt":
		return a
	}
	return lh("EC.and", a, b)
}

func eor(a, b *lt) *lt {
	switch {
	case a.head == "EC.ff":
		return b
	case a.head == "EC.tt":
		return eTT
	case b.head == "EC.ff":
		return a
	}
	return lh("EC.or", a, b)
}

func (c *evctx) fork(cond *lt, p *evpath, thn, els func(*evpath) *lt) *lt {
	if cond.head == "EC.not" {
		return c.fork(cond.args[0], p, els, thn)
	}
	switch cond.head {
	case "EC.tt":
		return thn(p)
	case "EC.ff":
		return els(p)
	}
	key := cond.lean()
	if v, ok := p.known[key]; ok {
		if v {
			return thn(p)
		}
		return els(p)
	}
	c.budget--
	if c.budget < 0 {
		return epOpaqueText("?too large")
	}
	a, b := thn(p.with(key, true)), els(p.with(key, false))
	if a.lean() == b.lean() {
		return a
	}
	return lh("EP.ite", cond, a, b)
}

func (c *evctx) pkgSel(e ast.Expr, sc *evscope) (string, string, bool) {
	sel, ok := unparen(e).(*ast.SelectorExpr)
	if !ok {
		return "", "", false
	}
	id, ok := sel.X.(*ast.Ident)
	if !ok || sc.bound(id.Name) {
		return "", "", false
	}
	path, ok := c.imports[id.Name]
	if !ok || path == "?ambiguous" {
		return "", "", false
	}
	return path, sel.Sel.Name, true
}

// kind of a type expression
func (c *evctx) typeKind(t ast.Expr, sc *evscope) string {
	if t == nil {
		return ""
	}
	switch x := unparen(t).(type) {
	case *ast.Ident:
		if sc.bound(x.Name) {
			return ""
		}
		switch x.Name {
		case "string":
			return "str"
		case "bool":
			return "cond"
		case "error":
			return "err"
		case c.frameType:
			return "frame"
		case c.exprType:
			return "sub"
		}
	case *ast.SelectorExpr:
		if path, name, ok := c.pkgSel(x, sc); ok {
			switch {
			case strings.HasSuffix(path, "/types") && name == "ColumnName":
				return "name"
			case strings.HasSuffix(path, "/eval") && name == "ArgCount":
				return "arity"
			}
		}
	case *ast.StarExpr:
		if path, name, ok := c.pkgSel(x.X, sc); ok && strings.HasSuffix(path, "/eval") && name == "Context" {
			return "ctx"
		}
	case *ast.Ellipsis:
		if path, name, ok := c.pkgSel(x.Elt, sc); ok && strings.HasSuffix(path, "/eval") && name == "ConfigFunc" {
			return "conffuncs"
		}
	case *ast.InterfaceType:
		if x.Methods == nil || len(x.Methods.List) == 0 {
			return "fnval"
		}
	case *ast.ArrayType:
		if x.Len == nil {
			switch c.typeKind(x.Elt, sc) {
			case "fnval":
				return "list:iface"
			case "name":
				return "list:name"
			case "str":
				return "list:str"
			}
		}
	}
	if src(t) == "any" {
		return "fnval"
	}
	return ""
}

func isTermKind(k string) bool {
	switch k {
	case "frame", "name", "str", "err", "fnval", "sub":
		return true
	}
	return false
}

// a receiver field, by the type of the field and its position among the fields of that type
func (c *evctx) recvField(field string) *evv {
	names, types, ok := c.structInfo(c.recvType)
	if !ok {
		return nil
	}
	idx, typ, total := -1, "", 0
	for i, n := range names {
		if n == field {
			typ = c.normType(types[i])
		}
	}
	for i, n := range names {
		if c.normType(types[i]) == typ {
			if n == field {
				idx = total
			}
			total++
		}
	}
	if idx < 0 {
		return nil
	}
	ix := lh(strconv.Itoa(idx))
	switch typ {
	case "string":
		if total == 1 {
			return &evv{kind: "str", t: lh("ET.opF")}
		}
	case "ColumnName":
		return &evv{kind: "name", t: lh("ET.srcF", ix)}
	case "interface{}":
		if total == 1 {
			return &evv{kind: "fnval", t: lh("ET.valueF")}
		}
	case "bool":
		if total == 1 {
			return econd(lh("EC.flag", lh("ET.flagF")))
		}
	case "Expression":
		return &evv{kind: "sub", t: lh("ET.subF", ix)}
	case "error":
		if total == 1 {
			return &evv{kind: "err", t: lh("ET.errF")}
		}
	}
	return nil
}

// the term of a struct built on the spot
func (c *evctx) nodeTerm(v *evv) *lt {
	names, types, ok := c.structInfo(v.typ)
	if !ok {
		return nil
	}
	byType := map[string][]*evv{}
	for i, n := range names {
		t := c.normType(types[i])
		byType[t] = append(byType[t], v.fields[n])
	}
	get := func(t string, i int, kinds ...string) *lt {
		if i >= len(byType[t]) || byType[t][i] == nil {
			return nil
		}
		for _, k := range kinds {
			if byType[t][i].kind == k {
				return byType[t][i].t
			}
		}
		return nil
	}
	var args []*lt
	head := ""
	switch v.role {
	case "col":
		head, args = "ET.mkCol", []*lt{get("ColumnName", 0, "name")}
	case "const":
		head, args = "ET.mkConst", []*lt{get("interface{}", 0, "fnval")}
	case "unary":
		head, args = "ET.mkUnary", []*lt{get("string", 0, "str"), get("ColumnName", 0, "name")}
	case "colCol":
		head, args = "ET.mkColCol", []*lt{get("string", 0, "str"), get("ColumnName", 0, "name"), get("ColumnName", 1, "name")}
	default:
		return nil
	}
	for _, a := range args {
		if a == nil {
			return nil
		}
	}
	return lh(head, args...)
}

func hasLoop(fd *ast.FuncDecl) bool {
	found := false
	ast.Inspect(fd.Body, func(n ast.Node) bool {
		switch n.(type) {
		case *ast.ForStmt, *ast.RangeStmt:
			found = true
		}
		return !found
	})
	return found
}

func (c *evctx) expr(e ast.Expr, sc *evscope, p *evpath, depth int, k evk) *lt {
	e = unparen(e)
	bad := func() *lt { return epOpaque(e) }
	one := func(v *evv, p *evpath) *lt {
		if v == nil {
			return bad()
		}
		return k([]*evv{v}, p)
	}
	switch t := e.(type) {
	case *ast.Ident:
		if v, ok := sc.get(t.Name); ok {
			return one(v, p)
		}
		switch t.Name {
		case "nil":
			return one(&evv{kind: "nilv"}, p)
		case "true":
			return one(econd(eTT), p)
		case "false":
			return one(econd(eFF), p)
		}
		return bad()
	case *ast.BasicLit:
		switch t.Kind {
		case token.INT:
			if n, err := strconv.Atoi(t.Value); err == nil {
				return one(&evv{kind: "int", i: n}, p)
			}
		case token.STRING:
			if s, err := strconv.Unquote(t.Value); err == nil {
				return one(&evv{kind: "str", t: estr(s)}, p)
			}
		}
		return bad()
	case *ast.SelectorExpr:
		if path, name, ok := c.pkgSel(t, sc); ok {
			if strings.HasSuffix(path, "/eval") {
				switch name {
				case "ArgCountOne":
					return one(&evv{kind: "arity", t: lh("Arity.one")}, p)
				case "ArgCountTwo":
					return one(&evv{kind: "arity", t: lh("Arity.two")}, p)
				}
			}
			return bad()
		}
		return c.expr(t.X, sc, p, depth, func(vs []*evv, p *evpath) *lt {
			if len(vs) != 1 {
				return bad()
			}
			switch vs[0].kind {
			case "recv":
				return one(c.recvField(t.Sel.Name), p)
			case "node":
				return one(vs[0].fields[t.Sel.Name], p)
			case "frame":
				if t.Sel.Name == "Err" {
					return one(&evv{kind: "err", t: lh("ET.errOf", vs[0].t)}, p)
				}
			case "config":
				if t.Sel.Name == "Ctx" {
					return one(&evv{kind: "ctx"}, p)
				}
			}
			return bad()
		})
	case *ast.TypeAssertExpr:
		return c.expr(t.X, sc, p, depth, func(vs []*evv, p *evpath) *lt {
			if len(vs) != 1 || t.Type == nil {
				return bad()
			}
			want := c.typeKind(t.Type, sc)
			v := vs[0]
			switch v.kind {
			case "list:iface", "str", "name":
			default:
				return bad() // the dynamic type is not known at translation time
			}
			if want == v.kind {
				return k([]*evv{v, econd(eTT)}, p)
			}
			switch want {
			case "str", "name":
				return k([]*evv{{kind: want, t: estr("")}, econd(eFF)}, p)
			case "list:iface":
				return k([]*evv{{kind: "list:iface"}, econd(eFF)}, p)
			}
			return bad()
		})
	case *ast.IndexExpr:
		return c.expr(t.X, sc, p, depth, func(vs []*evv, p *evpath) *lt {
			if len(vs) != 1 || !strings.HasPrefix(vs[0].kind, "list:") {
				return bad()
			}
			l := vs[0]
			return c.expr(t.Index, sc, p, depth, func(is []*evv, p *evpath) *lt {
				if len(is) != 1 || is[0].kind != "int" || is[0].i < 0 || is[0].i >= len(l.elems) {
					return bad()
				}
				return one(l.elems[is[0].i], p)
			})
		})
	case *ast.UnaryExpr:
		if t.Op == token.NOT {
			return c.expr(t.X, sc, p, depth, func(vs []*evv, p *evpath) *lt {
				if len(vs) != 1 || vs[0].kind != "cond" {
					return bad()
				}
				return one(econd(enot(vs[0].t)), p)
			})
		}
		return bad()
	case *ast.BinaryExpr:
		return c.expr(t.X, sc, p, depth, func(xs []*evv, p *evpath) *lt {
			if len(xs) != 1 {
				return bad()
			}
			before := p.nexec
			return c.expr(t.Y, sc, p, depth, func(ys []*evv, p *evpath) *lt {
				if len(ys) != 1 {
					return bad()
				}
				x, y := xs[0], ys[0]
				switch t.Op {
				case token.LAND, token.LOR:
					// the right operand must be free of calls: it is evaluated here whether or not Go evaluates it
					if x.kind != "cond" || y.kind != "cond" || p.nexec != before {
						return bad()
					}
					if t.Op == token.LAND {
						return one(econd(eand(x.t, y.t)), p)
					}
					return one(econd(eor(x.t, y.t)), p)
				case token.EQL, token.NEQ:
					var r *lt
					isS := func(v *evv) bool { return v.kind == "str" || v.kind == "name" }
					switch {
					case x.kind == "err" && y.kind == "nilv":
						r = enot(lh("EC.notNil", x.t))
					case x.kind == "nilv" && y.kind == "err":
						r = enot(lh("EC.notNil", y.t))
					case x.kind == y.kind && isS(x):
						r = lh("EC.strEq", x.t, y.t)
					case x.kind == "int" && y.kind == "int":
						r = eFF
						if x.i == y.i {
							r = eTT
						}
					case (x.kind == "null" && y.kind == "nilv") || (x.kind == "nilv" && y.kind == "null"):
						r = eFF // an interface holding a typed nil pointer is not nil
					default:
						return bad()
					}
					if t.Op == token.NEQ {
						r = enot(r)
					}
					return one(econd(r), p)
				}
				return bad()
			})
		})
	case *ast.CompositeLit:
		return c.composite(t, sc, p, depth, k)
	case *ast.CallExpr:
		return c.call(t, sc, p, depth, k)
	}
	return bad()
}

func (c *evctx) exprs(es []ast.Expr, sc *evscope, p *evpath, depth int, k evk) *lt {
	if len(es) == 0 {
		return k(nil, p)
	}
	return c.expr(es[0], sc, p, depth, func(vs []*evv, p *evpath) *lt {
		if len(vs) != 1 {
			return epOpaque(es[0])
		}
		return c.exprs(es[1:], sc, p, depth, func(rest []*evv, p *evpath) *lt {
			return k(append([]*evv{vs[0]}, rest...), p)
		})
	})
}

// the field values of a composite literal by field name (positional elements by declaration order)
func keyedElts(t *ast.CompositeLit, names []string) ([]string, []ast.Expr, bool) {
	var keys []string
	var vals []ast.Expr
	for i, el := range t.Elts {
		if kv, ok := el.(*ast.KeyValueExpr); ok {
			kid, ok := kv.Key.(*ast.Ident)
			if !ok {
				return nil, nil, false
			}
			keys = append(keys, kid.Name)
			vals = append(vals, kv.Value)
		} else {
			if i >= len(names) {
				return nil, nil, false
			}
			keys = append(keys, names[i])
			vals = append(vals, el)
		}
	}
	return keys, vals, true
}

func (c *evctx) composite(t *ast.CompositeLit, sc *evscope, p *evpath, depth int, k evk) *lt {
	if lk := c.typeKind(t.Type, sc); strings.HasPrefix(lk, "list:") {
		for _, el := range t.Elts {
			if _, ok := el.(*ast.KeyValueExpr); ok {
				return epOpaque(t)
			}
		}
		return c.exprs(t.Elts, sc, p, depth, func(vs []*evv, p *evpath) *lt {
			for _, v := range vs {
				switch lk {
				case "list:name":
					if v.kind != "name" {
						return epOpaque(t)
					}
				case "list:str":
					if v.kind != "str" {
						return epOpaque(t)
					}
				}
			}
			return k([]*evv{{kind: lk, elems: vs}}, p)
		})
	}
	id, ok := t.Type.(*ast.Ident)
	if !ok || sc.bound(id.Name) {
		return epOpaque(t)
	}
	names, _, ok := c.structInfo(id.Name)
	if !ok {
		return epOpaque(t)
	}
	role := c.roleOf(id.Name)
	if role == "" {
		return epOpaqueText("?struct type without a role: " + id.Name)
	}
	keys, vals, ok := keyedElts(t, names)
	if !ok {
		return epOpaque(t)
	}
	return c.exprs(vals, sc, p, depth, func(vs []*evv, p *evpath) *lt {
		f := map[string]*evv{}
		for i, key := range keys {
			f[key] = vs[i]
		}
		return k([]*evv{{kind: "node", typ: id.Name, role: role, fields: f}}, p)
	})
}

// signature of a frame method: parameter kinds → result kinds
func (c *evctx) frameMethodRole(name string) string {
	fd, ok := c.fns[c.frameType+"."+name]
	if !ok {
		return ""
	}
	save := c.imports
	c.imports = c.fileImports[fd]
	defer func() { c.imports = save }()
	_, pt := fieldTypes(fd.Type.Params)
	_, rt := fieldTypes(fd.Type.Results)
	norm := func(ts []string) string {
		out := make([]string, len(ts))
		for i, t := range ts {
			switch {
			case t == c.frameType:
				out[i] = "QFrame"
			case strings.HasSuffix(t, ".FunctionType"):
				out[i] = "FunctionType"
			default:
				out[i] = t
			}
		}
		return strings.Join(out, ",")
	}
	switch norm(pt) + "→" + norm(rt) {
	case "error→QFrame":
		return "withErr"
	case "string→FunctionType,error":
		return "functionType"
	}
	return ""
}

func (c *evctx) call(t *ast.CallExpr, sc *evscope, p *evpath, depth int, k evk) *lt {
	bad := func() *lt { return epOpaque(t) }
	one := func(v *evv, p *evpath) *lt { return k([]*evv{v}, p) }
	// (*string)(nil)
	if pe, ok := t.Fun.(*ast.ParenExpr); ok && src(pe.X) == "*string" && len(t.Args) == 1 && isNilIdent(t.Args[0]) && !sc.bound("nil") && !sc.bound("string") {
		return one(&evv{kind: "null", t: lh("ET.orNull", lh("ET.nilV"))}, p)
	}
	// conversions string(x), types.ColumnName(x)
	if len(t.Args) == 1 && t.Ellipsis == token.NoPos {
		if to := c.typeKind(t.Fun, sc); to == "str" || to == "name" {
			return c.expr(t.Args[0], sc, p, depth, func(vs []*evv, p *evpath) *lt {
				if len(vs) != 1 || (vs[0].kind != "str" && vs[0].kind != "name") {
					return bad()
				}
				return one(&evv{kind: to, t: vs[0].t}, p)
			})
		}
	}
	// error constructors of an imported package
	if path, name, ok := c.pkgSel(t.Fun, sc); ok {
		switch {
		case name == "New" || name == "Errorf":
			return one(&evv{kind: "err", t: lh("ET.newErr")}, p)
		case name == "Propagate" && len(t.Args) == 2:
			return c.expr(t.Args[1], sc, p, depth, func(vs []*evv, p *evpath) *lt {
				if len(vs) != 1 || vs[0].kind != "err" {
					return bad()
				}
				return one(&evv{kind: "err", t: lh("ET.propagate", vs[0].t)}, p)
			})
		case strings.HasSuffix(path, "/eval") && name == "NewConfig" && len(t.Args) == 1:
			return c.expr(t.Args[0], sc, p, depth, func(vs []*evv, p *evpath) *lt {
				if len(vs) != 1 || vs[0].kind != "conffuncs" {
					return bad()
				}
				return one(&evv{kind: "config"}, p)
			})
		}
		return bad()
	}
	switch fn := t.Fun.(type) {
	case *ast.Ident:
		if sc.bound(fn.Name) {
			return bad()
		}
		switch fn.Name {
		case "len":
			if len(t.Args) == 1 {
				return c.expr(t.Args[0], sc, p, depth, func(vs []*evv, p *evpath) *lt {
					if len(vs) != 1 || !strings.HasPrefix(vs[0].kind, "list:") {
						return bad()
					}
					return one(&evv{kind: "int", i: len(vs[0].elems)}, p)
				})
			}
			return bad()
		case "make":
			if len(t.Args) == 2 {
				if lk := c.typeKind(t.Args[0], sc); strings.HasPrefix(lk, "list:") {
					if bl, ok := unparen(t.Args[1]).(*ast.BasicLit); ok && bl.Kind == token.INT && bl.Value == "0" {
						return one(&evv{kind: lk}, p)
					}
				}
			}
			return bad()
		case "append":
			if len(t.Args) == 2 && t.Ellipsis == token.NoPos {
				return c.exprs(t.Args, sc, p, depth, func(vs []*evv, p *evpath) *lt {
					if !strings.HasPrefix(vs[0].kind, "list:") || "list:"+vs[1].kind != vs[0].kind {
						return bad()
					}
					el := append(append([]*evv{}, vs[0].elems...), vs[1])
					return one(&evv{kind: vs[0].kind, elems: el}, p)
				})
			}
			return bad()
		}
		fd, ok := c.fns[fn.Name]
		if !ok || fd.Recv != nil || depth > 6 {
			return bad()
		}
		return c.exprs(t.Args, sc, p, depth, func(args []*evv, p *evpath) *lt {
			if t.Ellipsis != token.NoPos {
				return bad()
			}
			pn, _ := fieldTypes(fd.Type.Params)
			if len(pn) != len(args) {
				return bad()
			}
			if c.isMissSig(fd) {
				// the function (Expression, QFrame) (types.ColumnName, bool): recursive over the expression tree, translated
				// separately (EMiss); a call of it is the pair of terms `ET.missCol e f`, `EC.missing e f`
				if c.missDecl != nil && c.missDecl != fd {
					c.missClash = true
					return bad()
				}
				c.missDecl = fd
				var e, f *lt
				for _, a := range args {
					switch a.kind {
					case "sub":
						e = a.t
					case "frame":
						f = a.t
					}
				}
				if e == nil || f == nil || len(args) != 2 {
					return bad()
				}
				return k([]*evv{{kind: "name", t: lh("ET.missCol", e, f)}, econd(lh("EC.missing", e, f))}, p)
			}
			if hasLoop(fd) {
				// the temp-name function: translated separately, a call of it is a term
				if c.tmpDecl != nil && c.tmpDecl != fd {
					c.tmpClash = true
					return bad()
				}
				c.tmpDecl = fd
				if len(args) != 2 {
					return bad()
				}
				var f, s *lt
				for _, a := range args {
					switch a.kind {
					case "frame":
						f = a.t
					case "str":
						s = a.t
					}
				}
				if f == nil || s == nil {
					return bad()
				}
				return one(&evv{kind: "name", t: lh("ET.temp", f, s)}, p)
			}
			inner := &evscope{vars: map[string]*evv{}}
			for i, n := range pn {
				inner.vars[n] = args[i]
			}
			save := c.imports
			c.imports = c.fileImports[fd]
			r := c.stmts(fd.Body.List, inner, p, depth+1, func(vs []*evv, p *evpath) *lt {
				c.imports = save
				r := k(vs, p)
				c.imports = c.fileImports[fd]
				return r
			}, func(*evscope, *evpath) *lt { return epOpaqueText("?no return in " + fn.Name) })
			c.imports = save
			return r
		})
	case *ast.SelectorExpr:
		return c.expr(fn.X, sc, p, depth, func(rs []*evv, p *evpath) *lt {
			if len(rs) != 1 {
				return bad()
			}
			recv := rs[0]
			switch recv.kind {
			case "frame":
				return c.frameCall(recv, fn.Sel.Name, t, sc, p, depth, k)
			case "ctx":
				if fn.Sel.Name == "GetFunc" && len(t.Args) == 3 {
					return c.exprs(t.Args, sc, p, depth, func(vs []*evv, p *evpath) *lt {
						if vs[0].kind != "ftype" || vs[1].kind != "arity" || vs[2].kind != "str" {
							return bad()
						}
						return k([]*evv{
							{kind: "fnval", t: lh("ET.getFn", vs[1].t, vs[0].f, vs[0].n, vs[2].t)},
							econd(lh("EC.gotFn", vs[1].t, vs[0].f, vs[0].n, vs[2].t))}, p)
					})
				}
			case "node", "sub":
				if fn.Sel.Name == c.execName && c.execName != "" && len(t.Args) == 2 {
					var nt *lt
					if recv.kind == "sub" {
						nt = recv.t
					} else {
						nt = c.nodeTerm(recv)
					}
					if nt == nil {
						return epOpaqueText("?a struct that cannot be built as a term: " + src(fn.X))
					}
					return c.exprs(t.Args, sc, p, depth, func(vs []*evv, p *evpath) *lt {
						if vs[0].kind != "frame" || vs[1].kind != "ctx" {
							return bad()
						}
						r := lh(strconv.Itoa(p.nexec))
						p2 := &evpath{nexec: p.nexec + 1, known: p.known}
						rest := k([]*evv{{kind: "frame", t: lh("ET.outF", r)}, {kind: "name", t: lh("ET.outN", r)}}, p2)
						return lh("EP.exec", nt, vs[0].t, rest)
					})
				}
			}
			return bad()
		})
	}
	return bad()
}

func (c *evctx) frameCall(recv *evv, name string, t *ast.CallExpr, sc *evscope, p *evpath, depth int, k evk) *lt {
	bad := func() *lt { return epOpaque(t) }
	one := func(v *evv, p *evpath) *lt { return k([]*evv{v}, p) }
	isS := func(v *evv) bool { return v.kind == "str" || v.kind == "name" }
	switch name {
	case "Apply":
		if len(t.Args) != 1 || t.Ellipsis != token.NoPos {
			return bad()
		}
		lit, ok := unparen(t.Args[0]).(*ast.CompositeLit)
		if !ok {
			return bad()
		}
		id, ok := lit.Type.(*ast.Ident)
		if !ok || id.Name != "Instruction" || sc.bound(id.Name) {
			return bad()
		}
		names, _, ok := c.structInfo("Instruction")
		if !ok {
			return bad()
		}
		keys, vals, ok := keyedElts(lit, names)
		if !ok {
			return bad()
		}
		return c.exprs(vals, sc, p, depth, func(vs []*evv, p *evpath) *lt {
			fields := map[string]*lt{"Fn": lh("ET.nilV"), "DstCol": estr(""), "SrcCol1": estr(""), "SrcCol2": estr("")}
			seen := map[string]bool{}
			for i, key := range keys {
				if _, ok := fields[key]; !ok || seen[key] {
					return bad()
				}
				seen[key] = true
				switch key {
				case "Fn":
					switch vs[i].kind {
					case "fnval", "null":
					case "nilv":
						fields[key] = lh("ET.nilV")
						continue
					default:
						return bad()
					}
				default:
					if vs[i].kind != "str" {
						return bad()
					}
				}
				fields[key] = vs[i].t
			}
			return one(&evv{kind: "frame", t: lh("ET.apply", recv.t, fields["Fn"], fields["DstCol"], fields["SrcCol1"], fields["SrcCol2"])}, p)
		})
	case "Drop":
		return c.exprs(t.Args, sc, p, depth, func(vs []*evv, p *evpath) *lt {
			var names []*evv
			if t.Ellipsis != token.NoPos {
				if len(vs) != 1 || vs[0].kind != "list:str" {
					return bad()
				}
				names = vs[0].elems
			} else {
				names = vs
			}
			args := []*lt{recv.t}
			for _, n := range names {
				if n.kind != "str" {
					return bad()
				}
				args = append(args, n.t)
			}
			if len(names) > 2 {
				return bad()
			}
			return one(&evv{kind: "frame", t: lh("ET.drop"+strconv.Itoa(len(names)), args...)}, p)
		})
	case "Contains":
		if len(t.Args) != 1 {
			return bad()
		}
		return c.exprs(t.Args, sc, p, depth, func(vs []*evv, p *evpath) *lt {
			if !isS(vs[0]) {
				return bad()
			}
			return one(econd(lh("EC.contains", recv.t, vs[0].t)), p)
		})
	case "Copy":
		if len(t.Args) != 2 {
			return bad()
		}
		return c.exprs(t.Args, sc, p, depth, func(vs []*evv, p *evpath) *lt {
			if vs[0].kind != "str" || vs[1].kind != "str" {
				return bad()
			}
			return one(&evv{kind: "frame", t: lh("ET.copy", recv.t, vs[0].t, vs[1].t)}, p)
		})
	}
	switch c.frameMethodRole(name) {
	case "withErr":
		if len(t.Args) != 1 {
			return bad()
		}
		return c.exprs(t.Args, sc, p, depth, func(vs []*evv, p *evpath) *lt {
			if vs[0].kind != "err" {
				return bad()
			}
			return one(&evv{kind: "frame", t: lh("ET.withErr", recv.t, vs[0].t)}, p)
		})
	case "functionType":
		if len(t.Args) != 1 {
			return bad()
		}
		return c.exprs(t.Args, sc, p, depth, func(vs []*evv, p *evpath) *lt {
			if vs[0].kind != "str" {
				return bad()
			}
			return k([]*evv{{kind: "ftype", f: recv.t, n: vs[0].t}, {kind: "err", t: lh("ET.fnTypeErr", recv.t, vs[0].t)}}, p)
		})
	}
	return bad()
}

// `if v == nil { v = (*string)(nil) }` for an interface value v: v becomes `orNull v`
func (c *evctx) orNullIdiom(s *ast.IfStmt, sc *evscope) (string, *evv, bool) {
	if s.Init != nil || s.Else != nil || len(s.Body.List) != 1 {
		return "", nil, false
	}
	be, ok := unparen(s.Cond).(*ast.BinaryExpr)
	if !ok || be.Op != token.EQL {
		return "", nil, false
	}
	id, ok := unparen(be.X).(*ast.Ident)
	if !ok || !isNilIdent(be.Y) || sc.bound("nil") {
		return "", nil, false
	}
	v, ok := sc.get(id.Name)
	if !ok || v.kind != "fnval" {
		return "", nil, false
	}
	as, ok := s.Body.List[0].(*ast.AssignStmt)
	if !ok || as.Tok != token.ASSIGN || len(as.Lhs) != 1 || len(as.Rhs) != 1 || !isName(as.Lhs[0], id.Name) {
		return "", nil, false
	}
	call, ok := unparen(as.Rhs[0]).(*ast.CallExpr)
	if !ok {
		return "", nil, false
	}
	pe, ok := call.Fun.(*ast.ParenExpr)
	if !ok || src(pe.X) != "*string" || len(call.Args) != 1 || !isNilIdent(call.Args[0]) || sc.bound("string") {
		return "", nil, false
	}
	return id.Name, &evv{kind: "fnval", t: lh("ET.orNull", v.t)}, true
}

var evConstKinds = map[string]bool{"int": true, "float64": true, "bool": true, "string": true, "*string": true}

// stmts executes a statement list; ret: a `return` of the function being executed; k: falling off the end of the list.
func (c *evctx) stmts(list []ast.Stmt, sc *evscope, p *evpath, depth int, ret evk, k func(*evscope, *evpath) *lt) *lt {
	if len(list) == 0 {
		return k(sc, p)
	}
	st, rest := list[0], list[1:]
	next := func(sc *evscope, p *evpath) *lt { return c.stmts(rest, sc, p, depth, ret, k) }
	block := func(body []ast.Stmt, sc *evscope, p *evpath) *lt {
		return c.stmts(body, sc.push(), p, depth, ret, func(in *evscope, p *evpath) *lt { return next(in.parent, p) })
	}
	switch s := st.(type) {
	case *ast.ReturnStmt:
		if len(s.Results) == 1 {
			return c.expr(s.Results[0], sc, p, depth, ret)
		}
		return c.exprs(s.Results, sc, p, depth, ret)
	case *ast.BlockStmt:
		return block(s.List, sc, p)
	case *ast.DeclStmt:
		gd, ok := s.Decl.(*ast.GenDecl)
		if !ok || gd.Tok != token.VAR {
			return epOpaque(s)
		}
		sc2 := sc.clone()
		for _, sp := range gd.Specs {
			vs, ok := sp.(*ast.ValueSpec)
			if !ok || len(vs.Values) != 0 || vs.Type == nil || src(vs.Type) != "bool" {
				return epOpaque(s)
			}
			for _, n := range vs.Names {
				sc2.vars[n.Name] = econd(eFF)
			}
		}
		return next(sc2, p)
	case *ast.AssignStmt:
		return c.assign(s, sc, p, depth, next)
	case *ast.IfStmt:
		if name, v, ok := c.orNullIdiom(s, sc); ok {
			sc2 := sc.clone()
			sc2.set(name, v)
			return next(sc2, p)
		}
		if s.Init != nil {
			plain := *s
			plain.Init = nil
			return block([]ast.Stmt{s.Init, &plain}, sc, p)
		}
		return c.expr(s.Cond, sc, p, depth, func(vs []*evv, p *evpath) *lt {
			if len(vs) != 1 || vs[0].kind != "cond" {
				return epOpaque(s.Cond)
			}
			return c.fork(vs[0].t, p,
				func(p *evpath) *lt { return block(s.Body.List, sc.clone(), p) },
				func(p *evpath) *lt {
					switch e := s.Else.(type) {
					case nil:
						return next(sc.clone(), p)
					case *ast.BlockStmt:
						return block(e.List, sc.clone(), p)
					case *ast.IfStmt:
						return block([]ast.Stmt{e}, sc.clone(), p)
					}
					return epOpaque(s)
				})
		})
	case *ast.RangeStmt:
		// a range over a list whose elements are known: unrolled
		if s.Tok != token.DEFINE || (s.Key != nil && !isName(s.Key, "_") && src(s.Key) != "_") || containsBranch(s.Body) {
			return epOpaque(s)
		}
		var vname string
		if s.Value != nil {
			id, ok := s.Value.(*ast.Ident)
			if !ok {
				return epOpaque(s)
			}
			vname = id.Name
		}
		return c.expr(s.X, sc, p, depth, func(vs []*evv, p *evpath) *lt {
			if len(vs) != 1 || !strings.HasPrefix(vs[0].kind, "list:") {
				return epOpaque(s)
			}
			elems := vs[0].elems
			var round func(i int, sc *evscope, p *evpath) *lt
			round = func(i int, sc *evscope, p *evpath) *lt {
				if i == len(elems) {
					return next(sc, p)
				}
				in := sc.push()
				if vname != "" && vname != "_" {
					in.vars[vname] = elems[i]
				}
				return c.stmts(s.Body.List, in.push(), p, depth, ret, func(in2 *evscope, p *evpath) *lt {
					return round(i+1, in2.parent.parent, p)
				})
			}
			return round(0, sc, p)
		})
	case *ast.TypeSwitchStmt:
		return c.typeSwitch(s, sc, p, depth, ret, next)
	}
	return epOpaque(st)
}

func (c *evctx) assign(s *ast.AssignStmt, sc *evscope, p *evpath, depth int, next func(*evscope, *evpath) *lt) *lt {
	if s.Tok != token.DEFINE && s.Tok != token.ASSIGN {
		return epOpaque(s)
	}
	store := func(vs []*evv, p *evpath) *lt {
		if len(vs) != len(s.Lhs) {
			return epOpaque(s)
		}
		sc2 := sc.clone()
		for i, l := range s.Lhs {
			id, ok := l.(*ast.Ident)
			if !ok {
				return epOpaque(s)
			}
			if id.Name == "_" {
				continue
			}
			if s.Tok == token.DEFINE {
				// `a, b := …` redeclares only the names that are new in this scope
				if _, here := sc2.vars[id.Name]; !here {
					sc2.vars[id.Name] = vs[i]
					continue
				}
			}
			if !sc2.set(id.Name, vs[i]) {
				return epOpaque(s)
			}
		}
		return next(sc2, p)
	}
	if len(s.Rhs) == 1 {
		return c.expr(s.Rhs[0], sc, p, depth, store)
	}
	return c.exprs(s.Rhs, sc, p, depth, store)
}

// switch v.(type) { case int, float64, bool, string, *string: …; default: … } on an interface value
func (c *evctx) typeSwitch(s *ast.TypeSwitchStmt, sc *evscope, p *evpath, depth int, ret evk, next func(*evscope, *evpath) *lt) *lt {
	es, ok := s.Assign.(*ast.ExprStmt)
	if !ok || s.Init != nil {
		return epOpaque(s)
	}
	ta, ok := es.X.(*ast.TypeAssertExpr)
	if !ok || ta.Type != nil {
		return epOpaque(s)
	}
	return c.expr(ta.X, sc, p, depth, func(vs []*evv, p *evpath) *lt {
		if len(vs) != 1 || (vs[0].kind != "fnval" && vs[0].kind != "null") || len(s.Body.List) != 2 {
			return epOpaque(s)
		}
		var yes, dflt *ast.CaseClause
		for _, cl := range s.Body.List {
			cc := cl.(*ast.CaseClause)
			if cc.List == nil {
				dflt = cc
			} else {
				yes = cc
			}
		}
		if yes == nil || dflt == nil || len(yes.List) != len(evConstKinds) {
			return epOpaque(s)
		}
		seen := map[string]bool{}
		for _, t := range yes.List {
			n := src(t)
			if !evConstKinds[n] || seen[n] || sc.bound(n) {
				return epOpaque(s)
			}
			seen[n] = true
		}
		body := func(cc *ast.CaseClause, p *evpath) *lt {
			for _, st := range cc.Body {
				if containsBranch(st) {
					return epOpaque(s)
				}
			}
			return c.stmts(cc.Body, sc.clone().push(), p, depth, ret, func(in *evscope, p *evpath) *lt { return next(in.parent, p) })
		}
		return c.fork(lh("EC.isConstKind", vs[0].t), p,
			func(p *evpath) *lt { return body(yes, p) },
			func(p *evpath) *lt { return body(dflt, p) })
	})
}

// one translated function: the `execute` method of a struct type, or Eval
func (c *evctx) method(fd *ast.FuncDecl, isEval bool) *lt {
	if fd.Recv == nil || len(fd.Recv.List) != 1 || len(fd.Recv.List[0].Names) > 1 {
		return epOpaqueText("?receiver")
	}
	c.imports = c.fileImports[fd]
	sc := &evscope{vars: map[string]*evv{}}
	if len(fd.Recv.List[0].Names) == 1 && fd.Recv.List[0].Names[0].Name != "_" {
		if isEval {
			sc.vars[fd.Recv.List[0].Names[0].Name] = &evv{kind: "frame", t: lh("ET.qf")}
		} else {
			sc.vars[fd.Recv.List[0].Names[0].Name] = &evv{kind: "recv"}
		}
	}
	pn, _ := fieldTypes(fd.Type.Params)
	var pts []ast.Expr
	for _, f := range fd.Type.Params.List {
		n := len(f.Names)
		if n == 0 {
			n = 1
		}
		for i := 0; i < n; i++ {
			pts = append(pts, f.Type)
		}
	}
	empty := &evscope{vars: map[string]*evv{}}
	var kinds []string
	for _, t := range pts {
		kinds = append(kinds, c.typeKind(t, empty))
	}
	want := "frame,ctx"
	if isEval {
		want = "str,sub,conffuncs"
	}
	if strings.Join(kinds, ",") != want {
		return epOpaqueText("?signature: " + strings.Join(kinds, ","))
	}
	for i, n := range pn {
		if n == "_" {
			continue
		}
		switch kinds[i] {
		case "frame":
			sc.vars[n] = &evv{kind: "frame", t: lh("ET.qf")}
		case "ctx":
			sc.vars[n] = &evv{kind: "ctx"}
		case "str":
			sc.vars[n] = &evv{kind: "str", t: lh("ET.dstP")}
		case "sub":
			sc.vars[n] = &evv{kind: "sub", t: lh("ET.exprP")}
		case "conffuncs":
			sc.vars[n] = &evv{kind: "conffuncs"}
		}
	}
	c.budget = 2000
	return c.stmts(fd.Body.List, sc, &evpath{known: map[string]bool{}}, 0, func(vs []*evv, p *evpath) *lt {
		if isEval {
			if len(vs) == 1 && vs[0].kind == "frame" {
				return lh("EP.retF", vs[0].t)
			}
			return epOpaqueText("?return")
		}
		if len(vs) == 2 && vs[0].kind == "frame" && (vs[1].kind == "name" || vs[1].kind == "str") {
			return lh("EP.ret", vs[0].t, vs[1].t)
		}
		return epOpaqueText("?return")
	}, func(*evscope, *evpath) *lt { return epOpaqueText("?no return") })
}

// ---- the temp-name function → ETmp ----

func (c *evctx) tempFn() *lt {
	op := func(s string) *lt { return ls("ETmp.opaque", s) }
	fd := c.tmpDecl
	if fd == nil {
		return op("?no function with a loop is called")
	}
	if c.tmpClash {
		return op("?two functions with a loop")
	}
	c.imports = c.fileImports[fd]
	empty := &evscope{vars: map[string]*evv{}}
	var frame, prefix string
	if fd.Type.Params.NumFields() != 2 {
		return op("?signature")
	}
	for _, f := range fd.Type.Params.List {
		for _, n := range f.Names {
			switch c.typeKind(f.Type, empty) {
			case "frame":
				frame = n.Name
			case "str":
				prefix = n.Name
			}
		}
	}
	if frame == "" || prefix == "" || frame == prefix || len(fd.Body.List) != 2 {
		return op("?signature")
	}
	loop, ok := fd.Body.List[0].(*ast.ForStmt)
	if !ok {
		return op(src(fd.Body.List[0]))
	}
	// after the loop: panic(…)
	es, ok := fd.Body.List[1].(*ast.ExprStmt)
	if !ok {
		return op(src(fd.Body.List[1]))
	}
	if call, ok := es.X.(*ast.CallExpr); !ok || !isName(call.Fun, "panic") {
		return op(src(es))
	}
	// i := lo; i < hi; i++
	init, ok := loop.Init.(*ast.AssignStmt)
	if !ok || init.Tok != token.DEFINE || len(init.Lhs) != 1 || len(init.Rhs) != 1 {
		return op("?init")
	}
	iv, ok := init.Lhs[0].(*ast.Ident)
	lo, okLo := unparen(init.Rhs[0]).(*ast.BasicLit)
	if !ok || !okLo || lo.Kind != token.INT || iv.Name == frame || iv.Name == prefix {
		return op("?init")
	}
	cond, ok := unparen(loop.Cond).(*ast.BinaryExpr)
	if !ok || cond.Op != token.LSS || !isName(cond.X, iv.Name) {
		return op("?condition")
	}
	hi, ok := unparen(cond.Y).(*ast.BasicLit)
	if !ok || hi.Kind != token.INT {
		return op("?condition")
	}
	post, ok := loop.Post.(*ast.IncDecStmt)
	if !ok || post.Tok != token.INC || !isName(post.X, iv.Name) {
		return op("?post")
	}
	loN, err1 := strconv.Atoi(lo.Value)
	hiN, err2 := strconv.Atoi(hi.Value)
	if err1 != nil || err2 != nil {
		return op("?bounds")
	}
	// body: [n := <pieces>;] if !frame.Contains(<n>) { return <n> }
	locals := map[string][]*lt{}
	var pieces func(e ast.Expr) []*lt
	pieces = func(e ast.Expr) []*lt {
		e = unparen(e)
		switch t := e.(type) {
		case *ast.Ident:
			if ps, ok := locals[t.Name]; ok {
				return ps
			}
			if t.Name == prefix {
				return []*lt{lh("EPiece.pre")}
			}
		case *ast.BasicLit:
			if t.Kind == token.STRING {
				if s, err := strconv.Unquote(t.Value); err == nil {
					return []*lt{ls("EPiece.lit", s)}
				}
			}
		case *ast.BinaryExpr:
			if t.Op == token.ADD {
				a, b := pieces(t.X), pieces(t.Y)
				if a != nil && b != nil {
					return append(append([]*lt{}, a...), b...)
				}
			}
		case *ast.CallExpr:
			if len(t.Args) == 1 {
				if path, name, ok := c.pkgSel(t.Fun, empty); ok && path == "strconv" && name == "Itoa" && isName(t.Args[0], iv.Name) {
					return []*lt{lh("EPiece.itoa")}
				}
				if k := c.typeKind(t.Fun, empty); k == "str" || k == "name" {
					return pieces(t.Args[0])
				}
			}
		}
		return nil
	}
	var result []*lt
	for i, st := range loop.Body.List {
		last := i == len(loop.Body.List)-1
		switch s := st.(type) {
		case *ast.AssignStmt:
			if last || s.Tok != token.DEFINE || len(s.Lhs) != 1 || len(s.Rhs) != 1 {
				return op(src(s))
			}
			id, ok := s.Lhs[0].(*ast.Ident)
			ps := pieces(s.Rhs[0])
			if !ok || ps == nil || id.Name == iv.Name || id.Name == frame || id.Name == prefix {
				return op(src(s))
			}
			locals[id.Name] = ps
		case *ast.IfStmt:
			if !last || s.Init != nil || s.Else != nil || len(s.Body.List) != 1 {
				return op(src(s))
			}
			not, ok := unparen(s.Cond).(*ast.UnaryExpr)
			if !ok || not.Op != token.NOT {
				return op(src(s.Cond))
			}
			call, ok := unparen(not.X).(*ast.CallExpr)
			if !ok || len(call.Args) != 1 {
				return op(src(s.Cond))
			}
			sel, ok := call.Fun.(*ast.SelectorExpr)
			if !ok || !isName(sel.X, frame) || sel.Sel.Name != "Contains" {
				return op(src(s.Cond))
			}
			tested := pieces(call.Args[0])
			ret, ok := s.Body.List[0].(*ast.ReturnStmt)
			if !ok || len(ret.Results) != 1 || tested == nil {
				return op(src(s))
			}
			returned := pieces(ret.Results[0])
			if returned == nil || ll(returned).lean() != ll(tested).lean() {
				return op(src(s))
			}
			result = tested
		default:
			return op(src(st))
		}
	}
	if result == nil {
		return op("?body")
	}
	return lh("ETmp.search", lh(strconv.Itoa(loN)), lh(strconv.Itoa(hiN)), ll(result))
}


// ---- the missing-column function → EMiss ----

// a package function with the parameters (Expression, QFrame), in either order, and the results (types.ColumnName, bool)
func (c *evctx) isMissSig(fd *ast.FuncDecl) bool {
	if fd.Recv != nil || fd.Type.Results == nil {
		return false
	}
	save := c.imports
	c.imports = c.fileImports[fd]
	defer func() { c.imports = save }()
	empty := &evscope{vars: map[string]*evv{}}
	kinds := func(fl *ast.FieldList) []string {
		var out []string
		for _, f := range fl.List {
			n := len(f.Names)
			if n == 0 {
				n = 1
			}
			for i := 0; i < n; i++ {
				out = append(out, c.typeKind(f.Type, empty))
			}
		}
		return out
	}
	ps, rs := kinds(fd.Type.Params), kinds(fd.Type.Results)
	if len(ps) != 2 || len(rs) != 2 || rs[0] != "name" || rs[1] != "cond" {
		return false
	}
	return (ps[0] == "sub" && ps[1] == "frame") || (ps[0] == "frame" && ps[1] == "sub")
}

func (c *evctx) missFn() *lt {
	op := func(s string) *lt { return ls("EMiss.opaque", s) }
	fd := c.missDecl
	if fd == nil {
		return op("?no function (Expression, QFrame) (ColumnName, bool) is called")
	}
	if c.missClash {
		return op("?two functions (Expression, QFrame) (ColumnName, bool)")
	}
	c.imports = c.fileImports[fd]
	empty := &evscope{vars: map[string]*evv{}}
	self := fd.Name.Name
	var ex, fr string
	exPos := -1
	pos := 0
	for _, f := range fd.Type.Params.List {
		if len(f.Names) == 0 {
			return op("?unnamed parameter")
		}
		for _, n := range f.Names {
			switch c.typeKind(f.Type, empty) {
			case "sub":
				ex, exPos = n.Name, pos
			case "frame":
				fr = n.Name
			}
			pos++
		}
	}
	if ex == "" || fr == "" || ex == fr || len(fd.Body.List) != 4 {
		return op("?signature or number of statements")
	}
	reserved := map[string]bool{self: true, ex: true, fr: true, "true": true, "false": true, "string": true, "nil": true, "_": true}
	fresh := func(n string) bool {
		if reserved[n] {
			return false
		}
		if _, imp := c.imports[n]; imp {
			return false
		}
		return true
	}
	// 1. var cols []types.ColumnName
	ds, ok := fd.Body.List[0].(*ast.DeclStmt)
	if !ok {
		return op(src(fd.Body.List[0]))
	}
	gd, ok := ds.Decl.(*ast.GenDecl)
	if !ok || gd.Tok != token.VAR || len(gd.Specs) != 1 {
		return op(src(ds))
	}
	vs, ok := gd.Specs[0].(*ast.ValueSpec)
	if !ok || len(vs.Names) != 1 || len(vs.Values) != 0 || c.typeKind(vs.Type, empty) != "list:name" || !fresh(vs.Names[0].Name) {
		return op(src(ds))
	}
	cols := vs.Names[0].Name
	reserved[cols] = true
	// a call `self(<e>.<field>, fr)` (arguments in the order of the parameters): the index of the Expression field
	selfCall := func(x ast.Expr, e, typ string) (int, bool) {
		call, ok := unparen(x).(*ast.CallExpr)
		if !ok || !isName(call.Fun, self) || len(call.Args) != 2 || call.Ellipsis != token.NoPos {
			return 0, false
		}
		if !isName(call.Args[1-exPos], fr) {
			return 0, false
		}
		sel, ok := unparen(call.Args[exPos]).(*ast.SelectorExpr)
		if !ok || !isName(sel.X, e) {
			return 0, false
		}
		c.recvType = typ
		v := c.recvField(sel.Sel.Name)
		c.recvType = ""
		if v == nil || v.kind != "sub" || v.t.head != "ET.subF" {
			return 0, false
		}
		i, err := strconv.Atoi(v.t.args[0].head)
		return i, err == nil
	}
	isTrue := func(x ast.Expr) bool { return isName(unparen(x), "true") }
	// 2. switch e := ex.(type) { … }
	ts, ok := fd.Body.List[1].(*ast.TypeSwitchStmt)
	if !ok || ts.Init != nil {
		return op(src(fd.Body.List[1]))
	}
	as, ok := ts.Assign.(*ast.AssignStmt)
	if !ok || as.Tok != token.DEFINE || len(as.Lhs) != 1 || len(as.Rhs) != 1 {
		return op("?the type switch binds no variable")
	}
	eid, ok := as.Lhs[0].(*ast.Ident)
	ta, ok2 := as.Rhs[0].(*ast.TypeAssertExpr)
	if !ok || !ok2 || ta.Type != nil || !isName(ta.X, ex) || !fresh(eid.Name) {
		return op(src(as))
	}
	e := eid.Name
	reserved[e] = true
	clauses := map[string]*lt{}
	for _, cl := range ts.Body.List {
		cc := cl.(*ast.CaseClause)
		if cc.List == nil {
			if len(cc.Body) != 0 {
				return op("?default clause: " + stmtsText(cc.Body))
			}
			continue
		}
		if len(cc.List) != 1 {
			return op("?a clause for several types: " + src(cc))
		}
		tid, ok := cc.List[0].(*ast.Ident)
		if !ok || reserved[tid.Name] {
			return op(src(cc))
		}
		role := c.roleOf(tid.Name)
		if role == "" {
			return op("?struct type without a role: " + tid.Name)
		}
		if _, dup := clauses[role]; dup {
			return op("?two clauses for the role " + role)
		}
		var term *lt
		if len(cc.Body) == 1 {
			if a, ok := cc.Body[0].(*ast.AssignStmt); ok {
				// cols = []types.ColumnName{e.f₁, …}
				if a.Tok != token.ASSIGN || len(a.Lhs) != 1 || len(a.Rhs) != 1 || !isName(a.Lhs[0], cols) {
					return op(src(a))
				}
				lit, ok := unparen(a.Rhs[0]).(*ast.CompositeLit)
				if !ok || c.typeKind(lit.Type, empty) != "list:name" {
					return op(src(a))
				}
				var idx []*lt
				for _, el := range lit.Elts {
					sel, ok := unparen(el).(*ast.SelectorExpr)
					if !ok || !isName(sel.X, e) {
						return op(src(a))
					}
					c.recvType = tid.Name
					v := c.recvField(sel.Sel.Name)
					c.recvType = ""
					if v == nil || v.kind != "name" || v.t.head != "ET.srcF" {
						return op(src(a))
					}
					idx = append(idx, v.t.args[0])
				}
				term = lh("EMClause.cols", ll(idx))
			}
		}
		if term == nil {
			// { if c, m := self(e.g, fr); m { return c, true } }* return self(e.h, fr)
			if len(cc.Body) == 0 {
				return op("?empty clause: " + src(cc))
			}
			var idx []*lt
			for i, st := range cc.Body {
				if i == len(cc.Body)-1 {
					r, ok := st.(*ast.ReturnStmt)
					if !ok || len(r.Results) != 1 {
						return op(src(st))
					}
					j, ok := selfCall(r.Results[0], e, tid.Name)
					if !ok {
						return op(src(st))
					}
					idx = append(idx, lh(strconv.Itoa(j)))
					break
				}
				is, ok := st.(*ast.IfStmt)
				if !ok || is.Else != nil || is.Init == nil || len(is.Body.List) != 1 {
					return op(src(st))
				}
				in, ok := is.Init.(*ast.AssignStmt)
				if !ok || in.Tok != token.DEFINE || len(in.Lhs) != 2 || len(in.Rhs) != 1 {
					return op(src(st))
				}
				cv, ok1 := in.Lhs[0].(*ast.Ident)
				mv, ok2 := in.Lhs[1].(*ast.Ident)
				if !ok1 || !ok2 || cv.Name == mv.Name || !fresh(cv.Name) || !fresh(mv.Name) || !isName(unparen(is.Cond), mv.Name) {
					return op(src(st))
				}
				j, ok := selfCall(in.Rhs[0], e, tid.Name)
				if !ok {
					return op(src(st))
				}
				r, ok := is.Body.List[0].(*ast.ReturnStmt)
				if !ok || len(r.Results) != 2 || !isName(unparen(r.Results[0]), cv.Name) || !isTrue(r.Results[1]) {
					return op(src(st))
				}
				idx = append(idx, lh(strconv.Itoa(j)))
			}
			term = lh("EMClause.recur", ll(idx))
		}
		clauses[role] = term
	}
	// 3. for _, col := range cols { if !fr.Contains(string(col)) { return col, true } }
	rs, ok := fd.Body.List[2].(*ast.RangeStmt)
	if !ok || rs.Tok != token.DEFINE || (rs.Key != nil && src(rs.Key) != "_") || rs.Value == nil || !isName(rs.X, cols) || len(rs.Body.List) != 1 {
		return op(src(fd.Body.List[2]))
	}
	colID, ok := rs.Value.(*ast.Ident)
	if !ok || !fresh(colID.Name) {
		return op(src(rs))
	}
	col := colID.Name
	is, ok := rs.Body.List[0].(*ast.IfStmt)
	if !ok || is.Init != nil || is.Else != nil || len(is.Body.List) != 1 {
		return op(src(rs.Body))
	}
	not, ok := unparen(is.Cond).(*ast.UnaryExpr)
	if !ok || not.Op != token.NOT {
		return op(src(is.Cond))
	}
	call, ok := unparen(not.X).(*ast.CallExpr)
	if !ok || len(call.Args) != 1 {
		return op(src(is.Cond))
	}
	sel, ok := call.Fun.(*ast.SelectorExpr)
	if !ok || !isName(sel.X, fr) || sel.Sel.Name != "Contains" {
		return op(src(is.Cond))
	}
	tested := unparen(call.Args[0])
	if conv, ok := tested.(*ast.CallExpr); ok && len(conv.Args) == 1 {
		if k := c.typeKind(conv.Fun, empty); k == "str" || k == "name" {
			tested = unparen(conv.Args[0])
		}
	}
	r, ok := is.Body.List[0].(*ast.ReturnStmt)
	if !isName(tested, col) || !ok || len(r.Results) != 2 || !isName(unparen(r.Results[0]), col) || !isTrue(r.Results[1]) {
		return op(src(is))
	}
	// 4. return "", false
	last, ok := fd.Body.List[3].(*ast.ReturnStmt)
	if !ok || len(last.Results) != 2 || !isName(unparen(last.Results[1]), "false") {
		return op(src(fd.Body.List[3]))
	}
	if bl, ok := unparen(last.Results[0]).(*ast.BasicLit); !ok || bl.Kind != token.STRING || bl.Value != `""` {
		return op(src(last))
	}
	var entries []*lt
	for _, role := range evRoleOrder {
		if t, ok := clauses[role]; ok {
			entries = append(entries, lh("(,)", lh("Role."+role), t))
		}
	}
	return lh("EMiss.scan", ll(entries))
}

var evRoleOrder = []string{"col", "const", "unary", "colConst", "colCol", "ex1", "ex2", "error"}

func evalFnsLean(repo string, rootFiles map[string]*ast.File) string {
	x := &xctx{fns: funcDecls(rootFiles), types: typeDecls(rootFiles), imports: map[string]string{}}
	c := &evctx{xctx: x, frameType: "QFrame", fileImports: map[*ast.FuncDecl]map[string]string{}}
	for name, f := range rootFiles {
		im := importsOf(map[string]*ast.File{filepath.Base(name): f})
		for _, d := range f.Decls {
			if fd, ok := d.(*ast.FuncDecl); ok {
				c.fileImports[fd] = im
				if fd.Recv == nil && fd.Name.Name == "Val" && fd.Type.Results.NumFields() == 1 {
					c.exprType = src(fd.Type.Results.List[0].Type)
					c.imports = im
				}
			}
		}
	}
	// the method of the Expression interface that is not `Err() error`: two parameters, two results
	if it, ok := c.types[c.exprType].(*ast.InterfaceType); ok && it.Methods != nil {
		for _, m := range it.Methods.List {
			ft, ok := m.Type.(*ast.FuncType)
			if !ok || len(m.Names) != 1 {
				continue
			}
			if ft.Params.NumFields() == 2 && ft.Results.NumFields() == 2 {
				if c.execName != "" {
					c.execName = "?ambiguous"
				} else {
					c.execName = m.Names[0].Name
				}
			}
		}
	}
	// struct types by role
	byRole := map[string][]string{}
	for name, t := range c.types {
		if _, ok := t.(*ast.StructType); ok {
			if r := c.roleOf(name); r != "" {
				byRole[r] = append(byRole[r], name)
			}
		}
	}
	var entries []string
	for _, role := range evRoleOrder {
		var term *lt
		switch {
		case c.execName == "" || c.execName == "?ambiguous":
			term = epOpaqueText("?the interface has no execute method")
		case len(byRole[role]) != 1:
			term = epOpaqueText("?no struct type (or several) with the role " + role)
		default:
			fd, ok := c.fns[byRole[role][0]+"."+c.execName]
			if !ok {
				term = epOpaqueText("?missing method")
			} else {
				c.recvRole, c.recvType = role, byRole[role][0]
				term = c.method(fd, false)
			}
		}
		entries = append(entries, "  (FnId.exec Role."+role+", "+term.lean()+")")
	}
	c.recvRole, c.recvType = "", ""
	evalTerm := epOpaqueText("?missing")
	if fd, ok := c.fns[c.frameType+".Eval"]; ok {
		evalTerm = c.method(fd, true)
	}
	entries = append(entries, "  (FnId.eval, "+evalTerm.lean()+")")
	tmp := c.tempFn()
	miss := c.missFn()
	var b strings.Builder
	b.WriteString("/- GENERATED on every run by /verif/go/cmd/extract from /repo's source (tie T1). Do not edit. -/\nimport QF.Core.EVExpr\nnamespace QF.Gen\nopen QF.EV\n\n")
	b.WriteString("/-- the `execute` methods of the expression structs of expression.go (`getFunc` and the constructors called on the spot inlined) and `QFrame.Eval`, executed symbolically to decision trees `QF.EV.EP`, by role: (function, term) -/\n")
	b.WriteString("def evalFns : List (FnId × EP) := [\n" + strings.Join(entries, ",\n") + "]\n\n")
	b.WriteString("/-- the function with the search loop that the `execute` methods call for a fresh column name (`tempColName`) -/\n")
	b.WriteString("def tempColNameAst : ETmp :=\n  " + tmp.lean() + "\n\n")
	b.WriteString("/-- the recursive function `Eval` calls before anything is executed, with the results (column, missing): the first column reference of the expression tree that is not a column of the frame (`missingCol`) -/\n")
	b.WriteString("def missingColAst : EMiss :=\n  " + miss.lean() + "\n\nend QF.Gen\n")
	return b.String()
}
