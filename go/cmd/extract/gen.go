package main

func generate(repo, out string) error { return nil }
