package main

// T1: facts extracted from /repo's current source with go/parser + go/ast and written as Lean *data* in a fixed
// schema (QF/Gen/Facts.lean, QF/Gen/Ryu.lean). Nothing here is free-form Lean code: a change of the source shows up
// as a changed value, which breaks a proof (a `decide` over the data), not the build of the driver.

import (
	"bytes"
	"fmt"
	"go/ast"
	"go/parser"
	"go/printer"
	"go/token"
	"math/big"
	"os"
	"path/filepath"
	"sort"
	"strconv"
	"strings"
)

var fset = token.NewFileSet()

func src(n ast.Node) string {
	var b bytes.Buffer
	printer.Fprint(&b, fset, n)
	return strings.Join(strings.Fields(b.String()), " ")
}

func leanStr(s string) string {
	var b strings.Builder
	b.WriteByte('"')
	for _, c := range s {
		switch c {
		case '"':
			b.WriteString("\\\"")
		case '\\':
			b.WriteString("\\\\")
		case '\n':
			b.WriteString("\\n")
		case '\t':
			b.WriteString("\\t")
		default:
			b.WriteRune(c)
		}
	}
	b.WriteByte('"')
	return b.String()
}

func parseDir(dir string) map[string]*ast.File {
	pkgs, err := parser.ParseDir(fset, dir, func(fi os.FileInfo) bool {
		return !strings.HasSuffix(fi.Name(), "_test.go") && !strings.HasPrefix(fi.Name(), "verif_")
	}, parser.ParseComments)
	files := map[string]*ast.File{}
	if err != nil {
		return files
	}
	for _, p := range pkgs {
		for name, f := range p.Files {
			files[filepath.Base(name)] = f
		}
	}
	return files
}

// string constants of a package (filter.Gt = ">" …)
func stringConsts(files map[string]*ast.File) map[string]string {
	res := map[string]string{}
	for _, f := range files {
		for _, d := range f.Decls {
			gd, ok := d.(*ast.GenDecl)
			if !ok || gd.Tok != token.CONST {
				continue
			}
			for _, sp := range gd.Specs {
				vs := sp.(*ast.ValueSpec)
				for i, n := range vs.Names {
					if i < len(vs.Values) {
						if bl, ok := vs.Values[i].(*ast.BasicLit); ok && bl.Kind == token.STRING {
							if v, err := strconv.Unquote(bl.Value); err == nil {
								res[n.Name] = v
							}
						}
					}
				}
			}
		}
	}
	return res
}

// resolve a map key such as filter.Gt or "any_bits" to its string value
func resolveKey(e ast.Expr, filterConsts map[string]string) string {
	switch t := e.(type) {
	case *ast.BasicLit:
		if v, err := strconv.Unquote(t.Value); err == nil {
			return v
		}
	case *ast.SelectorExpr:
		if v, ok := filterConsts[t.Sel.Name]; ok {
			return v
		}
	case *ast.Ident:
		if v, ok := filterConsts[t.Name]; ok {
			return v
		}
	}
	return "?" + src(e)
}

type kv struct{ k, v string }

// map literals assigned to package-level variables
func mapTables(files map[string]*ast.File, filterConsts map[string]string) map[string][]kv {
	res := map[string][]kv{}
	for _, f := range files {
		for _, d := range f.Decls {
			gd, ok := d.(*ast.GenDecl)
			if !ok || gd.Tok != token.VAR {
				continue
			}
			for _, sp := range gd.Specs {
				vs, ok := sp.(*ast.ValueSpec)
				if !ok || len(vs.Values) != 1 {
					continue
				}
				cl, ok := vs.Values[0].(*ast.CompositeLit)
				if !ok {
					continue
				}
				if _, ok := cl.Type.(*ast.MapType); !ok {
					continue
				}
				var ents []kv
				for _, el := range cl.Elts {
					if p, ok := el.(*ast.KeyValueExpr); ok {
						ents = append(ents, kv{resolveKey(p.Key, filterConsts), src(p.Value)})
					}
				}
				sort.Slice(ents, func(i, j int) bool { return ents[i].k < ents[j].k })
				res[vs.Names[0].Name] = ents
			}
		}
	}
	return res
}

// kernelShape classifies a filter kernel: (shape, expression). Shapes: guarded, unguarded, noop, opaque.
func kernelShape(fd *ast.FuncDecl) (string, string) {
	var loop *ast.RangeStmt
	others := 0
	for _, st := range fd.Body.List {
		if r, isR := st.(*ast.RangeStmt); isR {
			if id, isI := r.X.(*ast.Ident); isI && id.Name == "bIndex" {
				loop = r
				continue
			}
		}
		if ret, isRet := st.(*ast.ReturnStmt); isRet {
			if len(ret.Results) == 1 {
				if call, isCall := ret.Results[0].(*ast.CallExpr); isCall {
					return "delegates", src(call)
				}
			}
			continue
		}
		if as, isAs := st.(*ast.AssignStmt); isAs && src(as.Lhs[0]) == "_" {
			continue
		}
		others++
	}
	if loop == nil {
		if others == 0 {
			return "noop", ""
		}
		return "opaque", src(fd.Body)
	}
	body := loop.Body.List
	guarded := false
	if len(body) == 1 {
		if ifs, isIf := body[0].(*ast.IfStmt); isIf && src(ifs.Cond) == "!x" && ifs.Else == nil && ifs.Init == nil {
			guarded = true
			body = ifs.Body.List
		}
	}
	decls := []string{}
	assign, cond := "", ""
	for _, st := range body {
		switch s := st.(type) {
		case *ast.AssignStmt:
			if src(s.Lhs[0]) == "bIndex[i]" {
				assign = src(s.Rhs[0])
			} else {
				decls = append(decls, src(s))
			}
		case *ast.IfStmt:
			if len(s.Body.List) == 1 && s.Else == nil {
				if a, isA := s.Body.List[0].(*ast.AssignStmt); isA && src(a.Lhs[0]) == "bIndex[i]" {
					cond = src(s.Cond)
					assign = src(a.Rhs[0])
					continue
				}
			}
			return "opaque", src(fd.Body)
		default:
			return "opaque", src(fd.Body)
		}
	}
	if assign == "" {
		return "opaque", src(fd.Body)
	}
	pre := ""
	if others != 0 {
		pre = "+pre" // statements before the loop (argument checks)
	}
	e := assign
	if cond != "" {
		e = "(" + cond + ") && (" + assign + ")"
	}
	if len(decls) > 0 {
		e = "let {" + strings.Join(decls, "; ") + "} in " + e
	}
	if guarded {
		return "guarded" + pre, e
	}
	return "unguarded" + pre, e
}

func hasParam(fd *ast.FuncDecl, name string) bool {
	if fd.Type.Params == nil {
		return false
	}
	for _, par := range fd.Type.Params.List {
		for _, nm := range par.Names {
			if nm.Name == name {
				return true
			}
		}
	}
	return false
}

func funcDecls(files map[string]*ast.File) map[string]*ast.FuncDecl {
	res := map[string]*ast.FuncDecl{}
	for _, f := range files {
		for _, d := range f.Decls {
			if fd, ok := d.(*ast.FuncDecl); ok && fd.Body != nil {
				name := fd.Name.Name
				if fd.Recv != nil && len(fd.Recv.List) > 0 {
					name = strings.TrimPrefix(src(fd.Recv.List[0].Type), "*") + "." + name
				}
				res[name] = fd
			}
		}
	}
	return res
}

// constant / variable initialisers by name
func valueOf(files map[string]*ast.File, name string) string {
	for _, f := range files {
		for _, d := range f.Decls {
			gd, ok := d.(*ast.GenDecl)
			if !ok {
				continue
			}
			for _, sp := range gd.Specs {
				vs, ok := sp.(*ast.ValueSpec)
				if !ok {
					continue
				}
				for i, n := range vs.Names {
					if n.Name == name && i < len(vs.Values) {
						return src(vs.Values[i])
					}
				}
			}
		}
	}
	return "?missing"
}

// valueExprOf is valueOf as a syntax tree (nil when the name has no initialiser in the package)
func valueExprOf(files map[string]*ast.File, name string) ast.Expr {
	for _, f := range files {
		for _, d := range f.Decls {
			gd, ok := d.(*ast.GenDecl)
			if !ok {
				continue
			}
			for _, sp := range gd.Specs {
				vs, ok := sp.(*ast.ValueSpec)
				if !ok {
					continue
				}
				for i, n := range vs.Names {
					if n.Name == name && i < len(vs.Values) {
						return vs.Values[i]
					}
				}
			}
		}
	}
	return nil
}

// intConstExpr evaluates an integer constant expression of a package: literals in any base, parentheses, other constants
// of the package by name, unary minus and + - * << >> | & on such. Spelling a constant differently (0xFF for 255) is not
// a change; anything else (calls, conversions, iota) is not understood.
func intConstExpr(files map[string]*ast.File, e ast.Expr, depth int) (int64, bool) {
	if depth > 8 || e == nil {
		return 0, false
	}
	switch t := e.(type) {
	case *ast.BasicLit:
		if t.Kind != token.INT {
			return 0, false
		}
		v, err := strconv.ParseInt(strings.ReplaceAll(t.Value, "_", ""), 0, 64)
		return v, err == nil
	case *ast.ParenExpr:
		return intConstExpr(files, t.X, depth+1)
	case *ast.Ident:
		return intConstExpr(files, valueExprOf(files, t.Name), depth+1)
	case *ast.UnaryExpr:
		v, ok := intConstExpr(files, t.X, depth+1)
		if !ok {
			return 0, false
		}
		switch t.Op {
		case token.SUB:
			return -v, true
		case token.ADD:
			return v, true
		}
		return 0, false
	case *ast.BinaryExpr:
		x, ok1 := intConstExpr(files, t.X, depth+1)
		y, ok2 := intConstExpr(files, t.Y, depth+1)
		if !ok1 || !ok2 {
			return 0, false
		}
		switch t.Op {
		case token.ADD:
			return x + y, true
		case token.SUB:
			return x - y, true
		case token.MUL:
			return x * y, true
		case token.OR:
			return x | y, true
		case token.AND:
			return x & y, true
		case token.SHL:
			if y >= 0 && y < 62 {
				return x << uint(y), true
			}
		case token.SHR:
			if y >= 0 && y < 64 {
				return x >> uint(y), true
			}
		}
	}
	return 0, false
}

func bodyOf(fns map[string]*ast.FuncDecl, name string) string {
	if fd, ok := fns[name]; ok {
		return src(fd.Body)
	}
	return "?missing"
}

// uint128 tables of internal/ryu/tables.go: {lo, hi} pairs
func ryuTable(files map[string]*ast.File, name string) [][2]string {
	var res [][2]string
	for _, f := range files {
		for _, d := range f.Decls {
			gd, ok := d.(*ast.GenDecl)
			if !ok {
				continue
			}
			for _, sp := range gd.Specs {
				vs, ok := sp.(*ast.ValueSpec)
				if !ok || len(vs.Names) != 1 || vs.Names[0].Name != name || len(vs.Values) != 1 {
					continue
				}
				cl, ok := vs.Values[0].(*ast.CompositeLit)
				if !ok {
					continue
				}
				for _, el := range cl.Elts {
					if ecl, ok := el.(*ast.CompositeLit); ok && len(ecl.Elts) == 2 {
						var pair [2]string
						for i, x := range ecl.Elts {
							if bl, ok := x.(*ast.BasicLit); ok {
								n := new(big.Int)
								if _, ok := n.SetString(bl.Value, 0); ok {
									pair[i] = n.String()
									continue
								}
							}
							pair[i] = "0"
						}
						res = append(res, pair)
					}
				}
			}
		}
	}
	return res
}

func fnv64(s string) uint64 {
	h := uint64(14695981039346656037)
	for i := 0; i < len(s); i++ {
		h ^= uint64(s[i])
		h *= 1099511628211
	}
	return h
}

func writeIfChanged(path string, content []byte) error {
	old, err := os.ReadFile(path)
	if err == nil && bytes.Equal(old, content) {
		return nil
	}
	return os.WriteFile(path, content, 0o644)
}

func generate(repo, out string) error {
	if out == "" {
		return fmt.Errorf("no output directory")
	}
	if err := os.MkdirAll(out, 0o755); err != nil {
		return err
	}
	var b bytes.Buffer
	b.WriteString("/- GENERATED on every run by /verif/go/cmd/extract from /repo's source (tie T1). Do not edit. -/\nnamespace QF.Gen\n\n")

	filterFiles := parseDir(filepath.Join(repo, "filter"))
	fconsts := stringConsts(filterFiles)

	// 1. filter.Inverse
	b.WriteString("/-- filter.Inverse: comparator ↦ inverse comparator -/\ndef inverse : List (String × String) := [")
	inv := mapTables(filterFiles, fconsts)["Inverse"]
	for i, e := range inv {
		if i > 0 {
			b.WriteString(", ")
		}
		v := e.v
		if r, ok := fconsts[e.v]; ok {
			v = r
		}
		fmt.Fprintf(&b, "(%s, %s)", leanStr(e.k), leanStr(v))
	}
	b.WriteString("]\n\n")

	// 2. comparator tables and kernels of the five column packages
	var tables, kernels, kasts []string
	colPkgs := []string{"icolumn", "fcolumn", "bcolumn", "scolumn", "ecolumn"}
	pkgFns := map[string]map[string]*ast.FuncDecl{}
	pkgImports := map[string]map[string]string{}
	pkgFiles := map[string]map[string]*ast.File{}
	for _, p := range colPkgs {
		files := parseDir(filepath.Join(repo, "internal", p))
		pkgFiles[p] = files
		mt := mapTables(files, fconsts)
		names := make([]string, 0, len(mt))
		for n := range mt {
			names = append(names, n)
		}
		sort.Strings(names)
		for _, n := range names {
			if !strings.Contains(strings.ToLower(n), "filter") {
				continue
			}
			var ents []string
			for _, e := range mt[n] {
				ents = append(ents, fmt.Sprintf("(%s, %s)", leanStr(e.k), leanStr(e.v)))
			}
			tables = append(tables, fmt.Sprintf("  (%s, %s, [%s])", leanStr(p), leanStr(n), strings.Join(ents, ", ")))
		}
		fns := funcDecls(files)
		pkgFns[p] = fns
		pkgImports[p] = importsOf(files)
		fnames := make([]string, 0, len(fns))
		for n := range fns {
			fnames = append(fnames, n)
		}
		sort.Strings(fnames)
		for _, n := range fnames {
			fd := fns[n]
			if !hasParam(fd, "bIndex") || n == "Column.Filter" || n == "Column.filterBuiltIn" {
				continue
			}
			shape, e := kernelShape(fd)
			kernels = append(kernels, fmt.Sprintf("  (%s, %s, %s, %s)", leanStr(p), leanStr(n), leanStr(shape), leanStr(e)))
		}
		kasts = append(kasts, kernelAsts(p, fns)...)
	}
	b.WriteString("/-- comparator tables: (package, table, [(comparator, kernel)]) -/\ndef tables : List (String × String × List (String × String)) := [\n" + strings.Join(tables, ",\n") + "]\n\n")
	b.WriteString("/-- filter kernels: (package, function, shape, expression) with shape ∈ guarded | unguarded | noop | opaque -/\ndef kernels : List (String × String × String × String) := [\n" + strings.Join(kernels, ",\n") + "]\n\n")

	// 3. constants and small function bodies
	grouper := parseDir(filepath.Join(repo, "internal", "grouper"))
	ecol := parseDir(filepath.Join(repo, "internal", "ecolumn"))
	strs := parseDir(filepath.Join(repo, "internal", "strings"))
	sorter := parseDir(filepath.Join(repo, "internal", "sort"))
	tmpl := parseDir(filepath.Join(repo, "internal", "template"))
	index := parseDir(filepath.Join(repo, "internal", "index"))
	root := parseDir(repo)
	gfn, efn, sfn, sofn, tfn, ifn, rfn := funcDecls(grouper), funcDecls(ecol), funcDecls(strs), funcDecls(sorter), funcDecls(tmpl), funcDecls(index), funcDecls(root)
	facts := []kv{
		{"grouper.maxLoadFactor", valueOf(grouper, "maxLoadFactor")},
		{"grouper.growthFactor", valueOf(grouper, "growthFactor")},
		{"grouper.calculateInitialSizeExp", bodyOf(gfn, "calculateInitialSizeExp")},
		{"grouper.insertEntry", bodyOf(gfn, "table.insertEntry")},
		{"grouper.grow", bodyOf(gfn, "table.grow")},
		{"ecolumn.maxCardinality", valueOf(ecol, "maxCardinality")},
		{"ecolumn.nullValue", valueOf(ecol, "nullValue")},
		{"ecolumn.bitset.set", bodyOf(efn, "bitset.set")},
		{"ecolumn.bitset.isSet", bodyOf(efn, "bitset.isSet")},
		{"ecolumn.compVal", bodyOf(efn, "enumVal.compVal")},
		{"ecolumn.subset", bodyOf(efn, "Column.subset")},
		{"strings.nullBit", valueOf(strs, "nullBit")},
		{"strings.NewPointer", bodyOf(sfn, "NewPointer")},
		{"strings.Pointer.Offset", bodyOf(sfn, "Pointer.Offset")},
		{"strings.Pointer.Len", bodyOf(sfn, "Pointer.Len")},
		{"strings.Pointer.IsNull", bodyOf(sfn, "Pointer.IsNull")},
		{"strings.CheckName", bodyOf(sfn, "CheckName")},
		{"strings.isQuoted", bodyOf(sfn, "isQuoted")},
		{"strings.ToUpper", bodyOf(sfn, "ToUpper")},
		{"strings.NewMatcher", bodyOf(sfn, "NewMatcher")},
		{"sort.Less", bodyOf(sofn, "Sorter.Less")},
		{"sort.Sort", bodyOf(sofn, "Sorter.Sort")},
		{"sort.quickSort", bodyOf(sofn, "quickSort")},
		{"sort.doPivot", bodyOf(sofn, "doPivot")},
		{"sort.heapSort", bodyOf(sofn, "heapSort")},
		{"sort.siftDown", bodyOf(sofn, "siftDown")},
		{"sort.insertionSort", bodyOf(sofn, "insertionSort")},
		{"sort.medianOfThree", bodyOf(sofn, "medianOfThree")},
		{"sort.maxDepth", bodyOf(sofn, "maxDepth")},
		{"template.Comparable", bodyOf(tfn, "Column.Comparable")},
		{"index.Filter", bodyOf(ifn, "Int.Filter")},
		{"index.Copy", bodyOf(ifn, "Int.Copy")},
		{"qframe.filter", bodyOf(rfn, "QFrame.filter")},
		{"qframe.orFrames", bodyOf(rfn, "orFrames")},
		{"qframe.OrClause.filter", bodyOf(rfn, "OrClause.filter")},
		{"qframe.AndClause.filter", bodyOf(rfn, "AndClause.filter")},
		{"qframe.NotClause.filter", bodyOf(rfn, "NotClause.filter")},
		{"qframe.Sort", bodyOf(rfn, "QFrame.Sort")},
		{"qframe.setColumn", bodyOf(rfn, "QFrame.setColumn")},
		{"qframe.Slice", bodyOf(rfn, "QFrame.Slice")},
		{"qframe.Select", bodyOf(rfn, "QFrame.Select")},
		{"qframe.Eval", bodyOf(rfn, "QFrame.Eval")},
		{"qframe.Aggregate", bodyOf(rfn, "Grouper.Aggregate")},
		{"qframe.tempColName", bodyOf(rfn, "tempColName")},
	}
	for _, p := range []string{"icolumn", "fcolumn", "bcolumn", "scolumn", "ecolumn"} {
		fns := funcDecls(parseDir(filepath.Join(repo, "internal", p)))
		facts = append(facts, kv{p + ".Comparable", bodyOf(fns, "Column.Comparable")})
		facts = append(facts, kv{p + ".Compare", bodyOf(fns, "Comparable.Compare")})
		facts = append(facts, kv{p + ".Hash", bodyOf(fns, "Comparable.Hash")})
	}
	fcsv := funcDecls(parseDir(filepath.Join(repo, "internal", "fastcsv")))
	for _, n := range []string{"bufferedReader.more", "bufferedReader.reset", "fields.nextUnquotedField", "nextQuotedField", "fields.next", "Reader.Next", "eofReaderWrapper.Read"} {
		facts = append(facts, kv{"fastcsv." + n, bodyOf(fcsv, n)})
	}
	sqlfn := funcDecls(parseDir(filepath.Join(repo, "internal", "io", "sql")))
	for _, n := range []string{"Column.Scan", "Column.Null", "Column.String", "Column.Float", "Column.Int", "Column.Bool", "Column.Data", "Insert", "escape", "ReadSQL", "NewArgBuilder", "StringToFloat", "Int64ToBool"} {
		facts = append(facts, kv{"sql." + n, bodyOf(sqlfn, n)})
	}
	iofn := funcDecls(parseDir(filepath.Join(repo, "internal", "io")))
	for _, n := range []string{"ReadCSV", "columnToData", "renameDuplicateColumns", "addAliasToMissingColumnNames", "isEmptyLine", "jsonRecordsToData", "UnmarshalJSON"} {
		facts = append(facts, kv{"io." + n, bodyOf(iofn, n)})
	}
	for _, n := range []string{"AppendQuotedString", "QuotedBytes"} {
		facts = append(facts, kv{"strings." + n, bodyOf(sfn, n)})
	}
	for _, n := range []string{"QFrame.ToCSV", "QFrame.ToJSON", "QFrame.ToSQL", "ReadCSV", "ReadJSON", "ReadSQLWithArgs", "New", "createColumn", "QFrame.Drop", "QFrame.Copy", "QFrame.Apply", "QFrame.apply0", "QFrame.apply1", "QFrame.apply2",
		"QFrame.FilteredApply", "QFrame.WithRowNums", "QFrame.Distinct", "QFrame.GroupBy", "Grouper.QFrames", "QFrame.Equals", "QFrame.Len", "QFrame.String", "newColConstExpr", "colConstExpr.execute", "exprExpr1.execute", "exprExpr2.execute", "colColExpr.execute", "unaryExpr.execute", "constExpr.execute", "getFunc", "Expr"} {
		facts = append(facts, kv{"qframe." + n, bodyOf(rfn, n)})
	}
	for _, n := range []string{"groupIndex", "GroupBy", "Distinct", "equals", "table.hash", "newTable"} {
		facts = append(facts, kv{"grouper." + n, bodyOf(gfn, n)})
	}
	for _, n := range []string{"New", "NewConst", "NewFactory", "Factory.enumVal", "Factory.appendString", "Factory.AppendByteString", "Factory.AppendString", "toUpper", "Column.Equals", "Column.filterBuiltIn", "filterLike", "in"} {
		facts = append(facts, kv{"ecolumn." + n, bodyOf(efn, n)})
	}
	scfn := funcDecls(parseDir(filepath.Join(repo, "internal", "scolumn")))
	for _, n := range []string{"New", "NewConst", "toUpper", "Column.stringAt", "Column.subset", "Column.Equals", "regexFilter"} {
		facts = append(facts, kv{"scolumn." + n, bodyOf(scfn, n)})
	}
	for _, p := range []string{"icolumn", "fcolumn", "bcolumn"} {
		fns := funcDecls(parseDir(filepath.Join(repo, "internal", p)))
		for _, n := range []string{"NewConst", "Column.Apply1", "Column.Apply2", "Column.Aggregate", "Column.subsetWithBuf", "Column.Equals", "View.Slice", "View.ItemAt", "Column.StringAt", "Column.AppendByteStringAt"} {
			facts = append(facts, kv{p + "." + n, bodyOf(fns, n)})
		}
	}
	b.WriteString("/-- constants and function bodies as normalised source text: (name, text) -/\ndef facts : List (String × String) := [\n")
	for i, f := range facts {
		if i > 0 {
			b.WriteString(",\n")
		}
		fmt.Fprintf(&b, "  (%s, %s)", leanStr(f.k), leanStr(f.v))
	}
	b.WriteString("]\n\n")
	b.WriteString("/-- the numeric constants among the facts: (name, source text) -/\ndef consts : List (String × String) := [")
	first := true
	for _, f := range facts {
		switch f.k {
		case "grouper.maxLoadFactor", "grouper.growthFactor", "ecolumn.maxCardinality", "ecolumn.nullValue", "strings.nullBit":
			if !first {
				b.WriteString(", ")
			}
			first = false
			fmt.Fprintf(&b, "(%s, %s)", leanStr(f.k), leanStr(f.v))
		}
	}
	b.WriteString("]\n\n")
	// FNV-1a hashes of the texts: proofs compare these numbers (cheap in the kernel), the texts above are for the reader
	b.WriteString("/-- 64-bit FNV-1a hash of each fact's text: (name, hash) -/\ndef hashes : List (String × Nat) := [\n")
	for i, f := range facts {
		if i > 0 {
			b.WriteString(",\n")
		}
		fmt.Fprintf(&b, "  (%s, %d)", leanStr(f.k), fnv64(f.v))
	}
	b.WriteString("]\n\n")
	fmt.Fprintf(&b, "/-- hash of the comparator tables and of the kernel list -/\ndef tablesHash : Nat := %d\ndef kernelsHash : Nat := %d\n\n", fnv64(strings.Join(tables, "\n")), fnv64(strings.Join(kernels, "\n")))

	// 4. default evaluation context: (operand type, arity, name, function)
	evalFiles := parseDir(filepath.Join(repo, "config", "eval"))
	var ctxEntries []string
	if fd, ok := funcDecls(evalFiles)["NewDefaultCtx"]; ok {
		ast.Inspect(fd.Body, func(n ast.Node) bool {
			kvp, ok := n.(*ast.KeyValueExpr)
			if !ok {
				return true
			}
			typ := src(kvp.Key)
			if !strings.HasPrefix(typ, "types.FunctionType") {
				return true
			}
			inner, ok := kvp.Value.(*ast.CompositeLit)
			if !ok {
				return true
			}
			for _, el := range inner.Elts {
				ar, ok := el.(*ast.KeyValueExpr)
				if !ok {
					continue
				}
				m, ok := ar.Value.(*ast.CompositeLit)
				if !ok {
					continue
				}
				for _, fe := range m.Elts {
					if fk, ok := fe.(*ast.KeyValueExpr); ok {
						name := resolveKey(fk.Key, nil)
						ctxEntries = append(ctxEntries, fmt.Sprintf("  (%s, %s, %s, %s)", leanStr(strings.TrimPrefix(typ, "types.FunctionType")), leanStr(src(ar.Key)), leanStr(name), leanStr(src(fk.Value))))
					}
				}
			}
			return false
		})
	}
	sort.Strings(ctxEntries)
	fmt.Fprintf(&b, "def evalCtxHash : Nat := %d\n", fnv64(strings.Join(ctxEntries, "\n")))
	b.WriteString("/-- default evaluation context: (operand type, arity field, name, function) -/\ndef evalCtx : List (String × String × String × String) := [\n" + strings.Join(ctxEntries, ",\n") + "]\n\n")
	// one-line function bodies of package function
	fnFiles := funcDecls(parseDir(filepath.Join(repo, "function")))
	fnNames := make([]string, 0)
	for n := range fnFiles {
		fnNames = append(fnNames, n)
	}
	sort.Strings(fnNames)
	b.WriteString("/-- bodies of the functions of package function -/\ndef functions : List (String × String) := [\n")
	for i, n := range fnNames {
		if i > 0 {
			b.WriteString(",\n")
		}
		fmt.Fprintf(&b, "  (%s, %s)", leanStr(n), leanStr(src(fnFiles[n].Body)))
	}
	b.WriteString("]\n\nend QF.Gen\n")
	if err := writeIfChanged(filepath.Join(out, "Facts.lean"), b.Bytes()); err != nil {
		return err
	}

	// 4b. the kernels' semantics as terms of QF.KE (kast.go)
	var kb bytes.Buffer
	kb.WriteString("/- GENERATED on every run by /verif/go/cmd/extract from /repo's source (tie T1). Do not edit. -/\nimport QF.Core.KExpr\nnamespace QF.Gen\n\n")
	kb.WriteString("/-- filter kernels translated to the expression language `QF.KE`, by role: (package, function, shape, term) -/\ndef kernelAst : List (String × String × String × KE) := [\n" + strings.Join(kasts, ",\n") + "]\n\nend QF.Gen\n")
	if err := writeIfChanged(filepath.Join(out, "Kernels.lean"), kb.Bytes()); err != nil {
		return err
	}

	// 4d. the functions of the default evaluation context as terms of QF.FE (fast.go)
	var fb bytes.Buffer
	fb.WriteString("/- GENERATED on every run by /verif/go/cmd/extract from /repo's source (tie T1). Do not edit. -/\nimport QF.Core.FExpr\nnamespace QF.Gen\n\n")
	fb.WriteString("/-- the functions of package function translated to the expression language `QF.FE`, by role: (qualified name, term) -/\ndef functionAst : List (String × FE) := [\n" + strings.Join(functionAsts("function", parseDir(filepath.Join(repo, "function"))), ",\n") + "]\n\nend QF.Gen\n")
	if err := writeIfChanged(filepath.Join(out, "Functions.lean"), fb.Bytes()); err != nil {
		return err
	}

	// 4c. the row comparators as terms of QF.CE / QF.FStmt (cast.go)
	colConsts := compareResultConsts(parseDir(filepath.Join(repo, "internal", "column")))
	if err := writeIfChanged(filepath.Join(out, "Compare.lean"), []byte(compareLean(colPkgs, pkgFns, colConsts))); err != nil {
		return err
	}

	// 4i. the per-cell observation functions (Equals, StringAt, AppendByteStringAt) as terms of QF.EQ / QF.RE (oast.go)
	if err := writeIfChanged(filepath.Join(out, "Observe.lean"), []byte(observeLean(colPkgs, pkgFns, pkgImports, ecol))); err != nil {
		return err
	}

	// 4g. the guard prefixes of the projection operations as terms of QF.GStep (gast.go)
	if err := writeIfChanged(filepath.Join(out, "Guards.lean"), []byte(guardsLean(root, strs))); err != nil {
		return err
	}

	// 4h. the filter dispatch in front of the kernels as terms of QF.DE (dast.go)
	if err := writeIfChanged(filepath.Join(out, "Dispatch.lean"), []byte(dispatchLean(repo, colPkgs, fconsts, strs, func(p string) map[string]*ast.File {
		return parseDir(filepath.Join(repo, "internal", p))
	}))); err != nil {
		return err
	}

	// 4l. the construction logic (`New` after its guard prefix, `createColumn`, the enum factory) as terms of QF.CK / QF.NS / QF.FT (nast.go, east.go)
	if err := writeIfChanged(filepath.Join(out, "Construct.lean"), []byte(constructLean(repo, root, ecol))); err != nil {
		return err
	}

	// 4j. NewMatcher and the Matches methods of internal/strings as terms of QF.MT / QF.MB (mast.go)
	if err := writeIfChanged(filepath.Join(out, "Matcher.lean"), []byte(matcherLean(strs))); err != nil {
		return err
	}

	// 4k. the expression decoder of expression.go and Expr as terms of QF.XT / QF.XF (xast.go)
	if err := writeIfChanged(filepath.Join(out, "ExprDecode.lean"), []byte(exprDecodeLean(repo, root))); err != nil {
		return err
	}

	// 4n. the column typing of ReadCSV (`columnToData`) as a term of QF.IS (iast.go)
	if err := writeIfChanged(filepath.Join(out, "Infer.lean"), []byte(inferLean(repo))); err != nil {
		return err
	}

	// 4o. Column.Scan of internal/io/sql, its helpers and the coercions as terms of QF.SX (sast.go)
	if err := writeIfChanged(filepath.Join(out, "Scan.lean"), []byte(scanLean(repo))); err != nil {
		return err
	}

	// 4p. the clause evaluation of Filter (QFrame.filter, the clause methods, orFrames, index helpers) as terms of QF.CL (clast.go)
	if err := writeIfChanged(filepath.Join(out, "Clauses.lean"), []byte(clausesLean(repo))); err != nil {
		return err
	}

	// 4q. the per-row loops of Apply and Aggregate as terms of QF.LFn / QF.GFn (last.go)
	if err := writeIfChanged(filepath.Join(out, "Loops.lean"), []byte(loopsLean(repo, colPkgs, root))); err != nil {
		return err
	}

	// 4r. the index and column-list work of Slice / Select / Drop / Copy / Sort / Distinct and the functions of internal/index as terms of QF.PF (pxast.go)
	if err := writeIfChanged(filepath.Join(out, "Project.lean"), []byte(projectLean(repo, root, func(p string) map[string]*ast.File {
		return parseDir(filepath.Join(repo, "internal", p))
	}))); err != nil {
		return err
	}

	// 4s. the sorter of internal/sort (Sort, Less, Swap, quickSort, doPivot, heapSort, …) as terms of QF.SL (sortast.go)
	if err := writeIfChanged(filepath.Join(out, "SorterFns.lean"), []byte(sorterLean(repo))); err != nil {
		return err
	}

	// 4t. the grouper hash table (newTable, grow, hash, insertEntry, equals, groupIndex, GroupBy, Distinct) as terms of QF.GL (grpast.go)
	if err := writeIfChanged(filepath.Join(out, "GrouperFns.lean"), []byte(grouperLean(repo))); err != nil {
		return err
	}

	// 4u. the CSV reader of internal/fastcsv as terms of QF.CR (csvast.go)
	if err := writeIfChanged(filepath.Join(out, "CsvFns.lean"), []byte(csvFnsLean(repo))); err != nil {
		return err
	}

	// 4v. the `execute` methods of the expression structs, tempColName and QFrame.Eval as terms of QF.EV (evalast.go)
	if err := writeIfChanged(filepath.Join(out, "EvalFns.lean"), []byte(evalFnsLean(repo, root))); err != nil {
		return err
	}

	// 4w. the gate keeper of user functions, Context.SetFunc with setFunc / GetFunc, as a table (sfast.go)
	if err := writeIfChanged(filepath.Join(out, "SetFunc.lean"), []byte(setFuncLean(repo))); err != nil {
		return err
	}

	// 4x. the string pointers, JSON quoting, ToUpper of internal/strings and the like/ilike filter loops as terms of QF.ST (strast.go)
	if err := writeIfChanged(filepath.Join(out, "StringsFns.lean"), []byte(stringsFnsLean(repo))); err != nil {
		return err
	}

	// 4y. the JSON reading glue (fill functions, jsonRecordsToData, UnmarshalJSON, ReadJSON) as terms of QF.JR / QF.JU (jrast.go)
	if err := writeIfChanged(filepath.Join(out, "ReadJson.lean"), []byte(readJsonLean(repo, root))); err != nil {
		return err
	}

	// 4z. ReadSQL of internal/io/sql (the rows.Next loop, Scan into the columns, rows.Err, the result map) as a term of QF.SR (sqlrast.go)
	if err := writeIfChanged(filepath.Join(out, "ReadSql.lean"), []byte(readSqlLean(repo))); err != nil {
		return err
	}

	// 4aa. the glue of ReadCSV (the record loop, isEmptyLine, the alias and rename helpers, the resize helpers, ReadCSV of the root package) as terms of QF.CG (csvgast.go)
	if err := writeIfChanged(filepath.Join(out, "CsvGlue.lean"), []byte(csvGlueLean(repo, root))); err != nil {
		return err
	}

	// 4ab. the typed views of the column packages (View, ItemAt, Len, Slice and their helpers) as terms of QF.Vw* (viewast.go)
	if err := writeIfChanged(filepath.Join(out, "Views.lean"), []byte(viewsLean(colPkgs, pkgFiles, pkgFns, pkgImports))); err != nil {
		return err
	}

	// 4ac. the write side of SQL (escape, Insert, NewArgBuilder, ColumnNames, ToSQL) as terms of QF.Sq* (sqlwast.go)
	if err := writeIfChanged(filepath.Join(out, "SqlWrite.lean"), []byte(sqlWriteLean(repo, root, strs))); err != nil {
		return err
	}

	// 4ad. the bitset, isNull, compVal, subset / Subset of internal/ecolumn as terms of QF.ER (ecast.go)
	if err := writeIfChanged(filepath.Join(out, "EnumRest.lean"), []byte(enumRestLean(ecol))); err != nil {
		return err
	}

	// 4ae. the column constructors createColumn calls (scolumn New / NewStrings / NewConst / NewBytes, New / NewConst of icolumn, fcolumn, bcolumn) as terms of QF.CT (ctorast.go)
	if err := writeIfChanged(filepath.Join(out, "Ctors.lean"), []byte(ctorsLean(repo, strs))); err != nil {
		return err
	}

	// 4af. the grouping glue (QFrame.GroupBy, Grouper.QFrames, Grouper.Aggregate, the config functions of config/groupby) as terms of QF.GG (grpgast.go)
	if err := writeIfChanged(filepath.Join(out, "GroupGlue.lean"), []byte(groupGlueLean(repo, root))); err != nil {
		return err
	}

	// 4ag. the rest of Apply: FilteredApply, WithRowNums and the built-in ToUpper of the string and enum columns as terms of QF.FAStm / QF.SUFn / QF.EUFn (faast.go)
	if err := writeIfChanged(filepath.Join(out, "FApply.lean"), []byte(fapplyLean(repo, root))); err != nil {
		return err
	}

	// 4ah. the glue of Sort, comparables / orders, apply1 / apply2, the error returns of createColumn, ReadSQLWithArgs as terms of QF.SG (sortgast.go)
	if err := writeIfChanged(filepath.Join(out, "SortGlue.lean"), []byte(sortGlueLean(repo, root))); err != nil {
		return err
	}

	// 4ai. the Ryu core and the AppendFloat64f pipeline (float64ToDecimalExactInt, float64ToDecimal, decimalLen64, dec64.appendF, sizeSlice and their helpers) as terms of QF.RY (ryuast.go)
	if err := writeIfChanged(filepath.Join(out, "RyuFns.lean"), []byte(ryuFnsLean(repo))); err != nil {
		return err
	}

	// 4m. the three writers of qframe.go (ToJSON, ToCSV, String) as terms of QF.JS / QF.CS / QF.PS (wast.go)
	if err := writeIfChanged(filepath.Join(out, "Writers.lean"), []byte(writersLean(repo, root, strs))); err != nil {
		return err
	}

	// 4e. the row hash functions as terms of QF.HE (hast.go)
	if err := writeIfChanged(filepath.Join(out, "Hash.lean"), []byte(hashLean(colPkgs, pkgFns))); err != nil {
		return err
	}

	// 4f. the built-in aggregations as terms of QF.AE (aast.go)
	if err := writeIfChanged(filepath.Join(out, "Aggregations.lean"), []byte(aggregationsLean(repo, colPkgs))); err != nil {
		return err
	}

	// 5. Ryu tables
	ryu := parseDir(filepath.Join(repo, "internal", "ryu"))
	var rb bytes.Buffer
	rb.WriteString("/- GENERATED on every run by /verif/go/cmd/extract from /repo/internal/ryu/tables.go (tie T1). Do not edit. -/\nnamespace QF.Gen\n\n")
	for _, name := range []string{"pow5Split64", "pow5InvSplit64"} {
		t := ryuTable(ryu, name)
		fmt.Fprintf(&rb, "/-- %s as (lo, hi) 64-bit halves -/\ndef %s : Array (Nat × Nat) := #[\n", name, name)
		for i, p := range t {
			if i > 0 {
				rb.WriteString(",\n")
			}
			fmt.Fprintf(&rb, "  (%s, %s)", p[0], p[1])
		}
		rb.WriteString("]\n\n")
	}
	for _, name := range []string{"pow5NumBits64", "pow5InvNumBits64"} {
		fmt.Fprintf(&rb, "def %s : String := %s\n", name, leanStr(valueOf(ryu, name)))
	}
	rfns := funcDecls(ryu)
	rb.WriteString("\n/-- small helpers of the Ryu core as source text -/\ndef ryuFacts : List (String × String) := [\n")
	rnames := []string{"log10Pow2", "log10Pow5", "pow5Bits", "mulShift64", "shiftRight128", "pow5Factor64", "multipleOfPowerOfFive64", "multipleOfPowerOfTwo64", "decimalLen64", "sizeSlice", "float64ToDecimalExactInt", "float64ToDecimal", "dec64.appendF", "AppendFloat64f", "appendSpecialf"}
	for i, n := range rnames {
		if i > 0 {
			rb.WriteString(",\n")
		}
		fmt.Fprintf(&rb, "  (%s, %s)", leanStr(n), leanStr(bodyOf(rfns, n)))
	}
	rb.WriteString("]\n\nend QF.Gen\n")
	return writeIfChanged(filepath.Join(out, "Ryu.lean"), rb.Bytes())
}
