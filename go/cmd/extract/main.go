// Command extract regenerates /verif/lean/QF/Gen/*.lean from /repo's current source (tie T1).
package main

import (
	"flag"
	"fmt"
	"os"
)

func main() {
	repo := flag.String("repo", "/repo", "repository root")
	out := flag.String("out", "", "output directory for generated Lean files")
	flag.Parse()
	if err := generate(*repo, *out); err != nil {
		fmt.Fprintln(os.Stderr, "extract:", err)
		os.Exit(1)
	}
}
