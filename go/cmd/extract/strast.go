package main

// Translation go/ast → ST.S / ST.E (lean/QF/Core/STExpr.lean) of
//
//	/repo/internal/strings/pointer.go    NewPointer, Pointer.Offset, Pointer.Len, Pointer.IsNull
//	/repo/internal/strings/serialize.go  AppendQuotedString
//	/repo/internal/strings/convert.go    ToUpper
//	/repo/internal/scolumn               the function (index.Int, Column, string, index.Bool, bool) error        (today: regexFilter)
//	/repo/internal/ecolumn               the function (string, []string, bool) (*bitset, error)                  (today: filterLike)
//
// Method: a statement-by-statement translation of the function bodies with a small kind inference of its own (only
// go/parser + go/ast). Every expression has a KIND (int, u64, u32, byte, rune, bool, str, bytes = []byte, err, bools =
// index.Bool, rows = index.Int, strs = []string, col = scolumn.Column, matcher, bitset = *bitset, ptr:bytes = *[]byte;
// untyped constants are cint / crune with their value and take the type of the other operand). Only the public vocabulary
// is looked up by name (the exported functions and methods named above, the exported types `Column`, `Pointer`, `Matcher`,
// `index.Int`, `index.Bool`, `NewMatcher`, `Matches`, `qerrors.Propagate`, `unicode/utf8`, `unicode.ToUpper`, `unsafe`, the
// builtins); everything else by ROLE, so that a rename of a private identifier, a reformatting or a comment does not
// change the output and any change of behaviour does:
//
//   - the variables of a function are numbered in the order of their declaration: receiver, parameters, then every new
//     name of a `:=`, `var`, range variable and the temporaries that hold the result of `utf8.EncodeRune` in `x += …`;
//   - package-level constants are replaced by their values; the constants of unicode/utf8 by theirs;
//   - the two private filter functions are found by their signature (exactly one function of the package has it);
//     `col.<m>(i)` is `S.stringAt` iff `<m>` is a method of `Column` whose body is the cell access `p := c.pointers[i]; if
//     p.IsNull() { return "", true }; return string(c.data[p.Offset() : p.Offset()+p.Len()]), false` (fields by type; the
//     conversion `string(…)` or `UnsafeBytesToString`; today: stringAt, stringCopyAt);
//     `b.<m>(x)` is `S.bsSet` iff `<m>` is the one method of `*bitset` with the signature `(enumVal)`; a call `f(b)` of a
//     package function whose body is `return unsafe.String(unsafe.SliceData(in), len(in))` is `E.toStr`;
//   - a parameter `*[]byte` is the variable of the slice it points to and may only occur as `*p`;
//   - `x op= e` is `x = x op e`, `x++` is `x = x + 1`; `for init; c; {…}` is the init statement and `S.loop` with
//     `S.ite c S.skip S.brk` at the head of the body (a post statement is put at the end of the body; it is refused
//     together with `continue`); `switch tag {…}` over a variable with constant cases is a chain of `S.ite`.
//
// Whatever is not understood becomes `.opaque "<text>"`; such a term has no meaning (`stuck`) and the proofs of
// QF/Props/C08PointerGen.lean, C14QuoteGen.lean, C18UpperGen.lean, C18FilterGen.lean fail.

import (
	"fmt"
	"go/ast"
	"go/token"
	"math/big"
	"path/filepath"
	"strconv"
	"strings"
)

type stPkg struct {
	fns     map[string]*ast.FuncDecl
	types   map[string]ast.Expr
	imports map[string]string
	consts  map[string]ast.Expr
	names   map[string]bool
	// the function `UnsafeBytesToString` of internal/strings is `unsafe.String(unsafe.SliceData(in), len(in))`
	toStrOK bool
}

func stLoad(dir string) *stPkg {
	files := parseDir(dir)
	p := &stPkg{fns: funcDecls(files), types: typeDecls(files), imports: importsOf(files), consts: map[string]ast.Expr{}, names: map[string]bool{}}
	for _, file := range files {
		for _, d := range file.Decls {
			switch x := d.(type) {
			case *ast.FuncDecl:
				if x.Recv == nil {
					p.names[x.Name.Name] = true
				}
			case *ast.GenDecl:
				for _, sp := range x.Specs {
					switch y := sp.(type) {
					case *ast.TypeSpec:
						p.names[y.Name.Name] = true
					case *ast.ValueSpec:
						for i, n := range y.Names {
							p.names[n.Name] = true
							if x.Tok == token.CONST && len(y.Values) == len(y.Names) {
								p.consts[n.Name] = y.Values[i]
							}
						}
					}
				}
			}
		}
	}
	return p
}

func (p *stPkg) importIs(name, suffix string) bool {
	return !p.names[name] && (p.imports[name] == suffix || strings.HasSuffix(p.imports[name], "/"+suffix))
}

type stVar struct {
	id   int
	kind string
}

type stScope struct {
	vars   map[string]*stVar
	parent *stScope
}

func (s *stScope) lookup(n string) *stVar {
	for c := s; c != nil; c = c.parent {
		if v, ok := c.vars[n]; ok {
			return v
		}
	}
	return nil
}

func (s *stScope) push() *stScope { return &stScope{vars: map[string]*stVar{}, parent: s} }

// a translated expression: the term, its kind, and for an untyped constant (kind cint / crune) its value
type stVal struct {
	t *lt
	k string
	c *big.Int
}

type stFn struct {
	p        *stPkg
	next     int
	res      []string
	inLoop   int
	inSwitch int
}

func stOp(n ast.Node) stVal   { return stVal{t: ls("E.opaque", src(n)), k: "?"} }
func stSop(n ast.Node) []*lt  { return []*lt{ls("S.opaque", src(n))} }
func stNum(n *big.Int) *lt    { return lh(stIntText(n)) }
func stEvar(v *stVar) *lt     { return lh("E.var", lh(strconv.Itoa(v.id))) }
func stLvar(v *stVar) *lt     { return lh("L.var", lh(strconv.Itoa(v.id))) }
func stNat(v *stVar) *lt      { return lh(strconv.Itoa(v.id)) }
func stEint(n int64) *lt      { return lh("E.int", stNum(big.NewInt(n))) }
func stIsConst(k string) bool { return k == "cint" || k == "crune" }

func stIntText(n *big.Int) string {
	if n.Sign() < 0 {
		return "(" + n.String() + ")"
	}
	return n.String()
}

var stNK = map[string]string{"int": "NK.int", "u64": "NK.u64", "byte": "NK.byte", "rune": "NK.rune"}

func (f *stFn) declare(sc *stScope, name, kind string) *stVar {
	v := &stVar{id: f.next, kind: kind}
	f.next++
	if name != "_" && name != "" {
		sc.vars[name] = v
	}
	return v
}

func (f *stFn) typeKind(t ast.Expr, sc *stScope) string {
	p := f.p
	switch x := unparen(t).(type) {
	case *ast.Ident:
		if sc != nil && sc.lookup(x.Name) != nil {
			return "?"
		}
		if u, ok := p.types[x.Name]; ok {
			if _, isStruct := u.(*ast.StructType); isStruct {
				if x.Name == "Column" {
					return "col"
				}
				return "?"
			}
			if at, isArr := u.(*ast.ArrayType); isArr && at.Len != nil {
				if l, isLit := at.Len.(*ast.BasicLit); isLit && l.Value == "4" && f.typeKind(at.Elt, nil) == "u64" {
					return "bitsetval"
				}
				return "?"
			}
			switch k := f.typeKind(u, nil); k {
			case "int", "u64", "u32", "byte", "rune", "bool", "str":
				return k
			}
			return "?"
		}
		if p.names[x.Name] {
			return "?"
		}
		switch x.Name {
		case "int", "bool":
			return x.Name
		case "uint64":
			return "u64"
		case "uint32":
			return "u32"
		case "byte", "uint8":
			return "byte"
		case "rune", "int32":
			return "rune"
		case "string":
			return "str"
		case "error":
			return "err"
		}
	case *ast.StarExpr:
		switch f.typeKind(x.X, sc) {
		case "bitsetval":
			return "bitset"
		case "bytes":
			return "ptr:bytes"
		}
	case *ast.ArrayType:
		if x.Len == nil {
			switch f.typeKind(x.Elt, sc) {
			case "byte":
				return "bytes"
			case "str":
				return "strs"
			case "bool":
				return "bools"
			case "u32":
				return "rows"
			}
		}
	case *ast.SelectorExpr:
		if id, ok := x.X.(*ast.Ident); ok && (sc == nil || sc.lookup(id.Name) == nil) {
			switch {
			case p.importIs(id.Name, "internal/index") && x.Sel.Name == "Int":
				return "rows"
			case p.importIs(id.Name, "internal/index") && x.Sel.Name == "Bool":
				return "bools"
			case p.importIs(id.Name, "internal/strings") && x.Sel.Name == "Matcher":
				return "matcher"
			case p.importIs(id.Name, "internal/strings") && x.Sel.Name == "Pointer":
				return "u64"
			}
		}
	}
	return "?"
}

func (f *stFn) fieldKinds(fl *ast.FieldList) []string {
	var res []string
	if fl == nil {
		return res
	}
	for _, fld := range fl.List {
		k := f.typeKind(fld.Type, nil)
		n := len(fld.Names)
		if n == 0 {
			n = 1
		}
		for i := 0; i < n; i++ {
			res = append(res, k)
		}
	}
	return res
}

// coerce gives the term of v as a value of kind `kind` (constants and nil take the type of the context).
func stCoerce(v stVal, kind string) (*lt, bool) {
	if v.k == kind && !stIsConst(kind) && kind != "?" && kind != "nil" {
		return v.t, true
	}
	if stIsConst(v.k) && v.c != nil {
		lo, hi := new(big.Int), new(big.Int)
		switch kind {
		case "int":
			lo.Lsh(big.NewInt(-1), 63)
			hi.Lsh(big.NewInt(1), 63)
			if v.c.Cmp(lo) >= 0 && v.c.Cmp(hi) < 0 {
				return lh("E.int", stNum(v.c)), true
			}
		case "u64":
			hi.Lsh(big.NewInt(1), 64)
			if v.c.Sign() >= 0 && v.c.Cmp(hi) < 0 {
				return lh("E.u64", stNum(v.c)), true
			}
		case "byte":
			if v.c.Sign() >= 0 && v.c.Cmp(big.NewInt(256)) < 0 {
				return lh("E.byte", stNum(v.c)), true
			}
		case "rune":
			lo.Lsh(big.NewInt(-1), 31)
			hi.Lsh(big.NewInt(1), 31)
			if v.c.Cmp(lo) >= 0 && v.c.Cmp(hi) < 0 {
				return lh("E.rune", stNum(v.c)), true
			}
		}
		return nil, false
	}
	if v.k == "nil" {
		switch kind {
		case "bytes":
			return lh("E.nilBytes"), true
		case "err":
			return lh("E.nilErr"), true
		case "bitset":
			return lh("E.nilBitset"), true
		}
	}
	return nil, false
}

func stDefault(v stVal) stVal {
	switch v.k {
	case "cint":
		if t, ok := stCoerce(v, "int"); ok {
			return stVal{t: t, k: "int"}
		}
	case "crune":
		if t, ok := stCoerce(v, "rune"); ok {
			return stVal{t: t, k: "rune"}
		}
	}
	return v
}

// unify brings two operands to one kind.
func stUnify(a, b stVal) (*lt, *lt, string, bool) {
	switch {
	case stIsConst(a.k) && stIsConst(b.k):
		return nil, nil, "", false
	case stIsConst(a.k):
		t, ok := stCoerce(a, b.k)
		return t, b.t, b.k, ok
	case stIsConst(b.k):
		t, ok := stCoerce(b, a.k)
		return a.t, t, a.k, ok
	}
	return a.t, b.t, a.k, a.k == b.k && a.k != "?"
}

func (f *stFn) isTypeExpr(e ast.Expr, sc *stScope) bool {
	return f.typeKind(e, sc) != "?"
}

// toStrFunc: a package function `func f(in []byte) string { return unsafe.String(unsafe.SliceData(in), len(in)) }`
func (f *stFn) toStrFunc(name string) bool {
	fd, ok := f.p.fns[name]
	if !ok || fd.Recv != nil || len(fd.Body.List) != 1 {
		return false
	}
	pk := f.fieldKinds(fd.Type.Params)
	rk := f.fieldKinds(fd.Type.Results)
	if len(pk) != 1 || pk[0] != "bytes" || len(rk) != 1 || rk[0] != "str" || len(fd.Type.Params.List[0].Names) != 1 {
		return false
	}
	in := fd.Type.Params.List[0].Names[0].Name
	ret, ok := fd.Body.List[0].(*ast.ReturnStmt)
	if !ok || len(ret.Results) != 1 {
		return false
	}
	isUnsafe := func(e ast.Expr, fn string) (*ast.CallExpr, bool) {
		c, ok := unparen(e).(*ast.CallExpr)
		if !ok {
			return nil, false
		}
		s, ok := c.Fun.(*ast.SelectorExpr)
		if !ok || s.Sel.Name != fn {
			return nil, false
		}
		id, ok := s.X.(*ast.Ident)
		return c, ok && id.Name != in && f.p.importIs(id.Name, "unsafe")
	}
	isIn := func(e ast.Expr) bool {
		id, ok := unparen(e).(*ast.Ident)
		return ok && id.Name == in
	}
	c, ok := isUnsafe(ret.Results[0], "String")
	if !ok || len(c.Args) != 2 {
		return false
	}
	d, ok := isUnsafe(c.Args[0], "SliceData")
	if !ok || len(d.Args) != 1 || !isIn(d.Args[0]) {
		return false
	}
	l, ok := unparen(c.Args[1]).(*ast.CallExpr)
	if !ok || len(l.Args) != 1 || !isIn(l.Args[0]) {
		return false
	}
	id, ok := l.Fun.(*ast.Ident)
	return ok && id.Name == "len" && !f.p.names["len"] && in != "len"
}

// methodRole: `name` is the one method of receiver type `recv` whose parameter / result kinds are `params` / `results`.
func (f *stFn) methodRole(recv, name string, params, results []string) bool {
	count, hit := 0, false
	for key, fd := range f.p.fns {
		if fd.Recv == nil || !strings.HasPrefix(key, recv+".") {
			continue
		}
		if strings.Join(f.fieldKinds(fd.Type.Params), ",") == strings.Join(params, ",") &&
			strings.Join(f.fieldKinds(fd.Type.Results), ",") == strings.Join(results, ",") {
			count++
			if key == recv+"."+name {
				hit = true
			}
		}
	}
	return count == 1 && hit
}

// cellAccessor: `name` is a method of `Column` of the shape
//
//	func (c Column) name(i uint32) (string, bool) {
//		p := c.<the []Pointer field>[i]
//		if p.IsNull() { return "", true }
//		return <string(…) | strings.UnsafeBytesToString(…)>(c.<the []byte field>[p.Offset() : p.Offset()+p.Len()]), false
//	}
//
// (today: stringAt and stringCopyAt): the string and the null flag of cell i as the column stores them.
func (f *stFn) cellAccessor(name string) bool {
	fd, ok := f.p.fns["Column."+name]
	if !ok || fd.Recv == nil || len(fd.Recv.List) != 1 || len(fd.Recv.List[0].Names) != 1 || len(fd.Body.List) != 3 {
		return false
	}
	if _, isPtr := fd.Recv.List[0].Type.(*ast.StarExpr); isPtr {
		return false
	}
	pk, rk := f.fieldKinds(fd.Type.Params), f.fieldKinds(fd.Type.Results)
	if strings.Join(pk, ",") != "u32" || strings.Join(rk, ",") != "str,bool" || len(fd.Type.Params.List[0].Names) != 1 {
		return false
	}
	c, i := fd.Recv.List[0].Names[0].Name, fd.Type.Params.List[0].Names[0].Name
	st, ok := f.p.types["Column"].(*ast.StructType)
	if !ok {
		return false
	}
	ptrField, dataField := "", ""
	for _, fld := range st.Fields.List {
		at, isSlice := fld.Type.(*ast.ArrayType)
		if !isSlice || at.Len != nil || len(fld.Names) != 1 {
			continue
		}
		switch {
		case f.typeKind(at.Elt, nil) == "byte":
			dataField += fld.Names[0].Name + ";"
		case f.typeKind(at.Elt, nil) == "u64":
			if sel, isSel := at.Elt.(*ast.SelectorExpr); isSel && sel.Sel.Name == "Pointer" {
				ptrField += fld.Names[0].Name + ";"
			}
		}
	}
	field := func(e ast.Expr, want string) bool {
		sel, ok := unparen(e).(*ast.SelectorExpr)
		if !ok {
			return false
		}
		id, ok := sel.X.(*ast.Ident)
		return ok && id.Name == c && sel.Sel.Name+";" == want
	}
	// p := c.pointers[i]
	as, ok := fd.Body.List[0].(*ast.AssignStmt)
	if !ok || as.Tok != token.DEFINE || len(as.Lhs) != 1 || len(as.Rhs) != 1 {
		return false
	}
	pid, ok := as.Lhs[0].(*ast.Ident)
	if !ok || pid.Name == "_" || pid.Name == c || pid.Name == i {
		return false
	}
	ix, ok := unparen(as.Rhs[0]).(*ast.IndexExpr)
	if !ok || !field(ix.X, ptrField) {
		return false
	}
	if id, ok := unparen(ix.Index).(*ast.Ident); !ok || id.Name != i {
		return false
	}
	pcall := func(e ast.Expr, m string) bool {
		call, ok := unparen(e).(*ast.CallExpr)
		if !ok || len(call.Args) != 0 {
			return false
		}
		sel, ok := call.Fun.(*ast.SelectorExpr)
		if !ok || sel.Sel.Name != m {
			return false
		}
		id, ok := sel.X.(*ast.Ident)
		return ok && id.Name == pid.Name
	}
	// if p.IsNull() { return "", true }
	ifs, ok := fd.Body.List[1].(*ast.IfStmt)
	if !ok || ifs.Init != nil || ifs.Else != nil || !pcall(ifs.Cond, "IsNull") || len(ifs.Body.List) != 1 {
		return false
	}
	if src(ifs.Body.List[0]) != `return "", true` {
		return false
	}
	// return conv(c.data[p.Offset() : p.Offset()+p.Len()]), false
	ret, ok := fd.Body.List[2].(*ast.ReturnStmt)
	if !ok || len(ret.Results) != 2 || src(ret.Results[1]) != "false" {
		return false
	}
	conv, ok := unparen(ret.Results[0]).(*ast.CallExpr)
	if !ok || len(conv.Args) != 1 || conv.Ellipsis != token.NoPos {
		return false
	}
	switch fun := conv.Fun.(type) {
	case *ast.Ident:
		if fun.Name != "string" || f.p.names["string"] {
			return false
		}
	case *ast.SelectorExpr:
		id, ok := fun.X.(*ast.Ident)
		if !ok || !f.p.importIs(id.Name, "internal/strings") || fun.Sel.Name != "UnsafeBytesToString" || !f.p.toStrOK {
			return false
		}
	default:
		return false
	}
	sl, ok := unparen(conv.Args[0]).(*ast.SliceExpr)
	if !ok || sl.Slice3 || sl.Low == nil || sl.High == nil || !field(sl.X, dataField) || !pcall(sl.Low, "Offset") {
		return false
	}
	sum, ok := unparen(sl.High).(*ast.BinaryExpr)
	return ok && sum.Op == token.ADD && pcall(sum.X, "Offset") && pcall(sum.Y, "Len")
}

func (f *stFn) builtin(name string, sc *stScope) bool {
	return sc.lookup(name) == nil && !f.p.names[name]
}

func (f *stFn) pkgSel(e ast.Expr, sc *stScope, suffix string) (string, bool) {
	s, ok := unparen(e).(*ast.SelectorExpr)
	if !ok {
		return "", false
	}
	id, ok := s.X.(*ast.Ident)
	if !ok || sc.lookup(id.Name) != nil || !f.p.importIs(id.Name, suffix) {
		return "", false
	}
	return s.Sel.Name, true
}

func (f *stFn) want(e ast.Expr, sc *stScope, kind string) *lt {
	v := f.expr(e, sc)
	if t, ok := stCoerce(v, kind); ok {
		return t
	}
	if v.k == "?" {
		return v.t
	}
	return stOp(e).t
}

func (f *stFn) index(e ast.Expr, sc *stScope) *lt {
	v := stDefault(f.expr(e, sc))
	switch v.k {
	case "int", "byte", "rune", "u64", "u32":
		return v.t
	}
	if v.k == "?" {
		return v.t
	}
	return stOp(e).t
}

func (f *stFn) expr(e ast.Expr, sc *stScope) stVal {
	switch x := e.(type) {
	case *ast.ParenExpr:
		return f.expr(x.X, sc)
	case *ast.BasicLit:
		switch x.Kind {
		case token.INT:
			n, ok := new(big.Int).SetString(strings.ReplaceAll(x.Value, "_", ""), 0)
			if ok {
				return stVal{k: "cint", c: n}
			}
		case token.CHAR:
			s, err := strconv.Unquote(x.Value)
			if err == nil {
				r := []rune(s)
				if len(r) == 1 {
					return stVal{k: "crune", c: big.NewInt(int64(r[0]))}
				}
			}
		case token.STRING:
			s, err := strconv.Unquote(x.Value)
			if err == nil {
				items := make([]*lt, len(s))
				for i := 0; i < len(s); i++ {
					items[i] = lh(strconv.Itoa(int(s[i])))
				}
				return stVal{t: lh("E.str", ll(items)), k: "str"}
			}
		}
	case *ast.Ident:
		if v := sc.lookup(x.Name); v != nil {
			if v.kind == "ptr:bytes" {
				return stOp(e)
			}
			return stVal{t: stEvar(v), k: v.kind}
		}
		if c, ok := f.p.consts[x.Name]; ok {
			return f.expr(c, &stScope{vars: map[string]*stVar{}})
		}
		if !f.p.names[x.Name] {
			switch x.Name {
			case "true", "false":
				return stVal{t: lh("E.bool", lh(x.Name)), k: "bool"}
			case "nil":
				return stVal{k: "nil"}
			}
		}
	case *ast.SelectorExpr:
		if name, ok := f.pkgSel(x, sc, "unicode/utf8"); ok {
			switch name {
			case "RuneSelf":
				return stVal{k: "cint", c: big.NewInt(0x80)}
			case "UTFMax":
				return stVal{k: "cint", c: big.NewInt(4)}
			case "RuneError":
				return stVal{k: "crune", c: big.NewInt(0xFFFD)}
			case "MaxRune":
				return stVal{k: "crune", c: big.NewInt(0x10FFFF)}
			}
		}
	case *ast.StarExpr:
		if id, ok := unparen(x.X).(*ast.Ident); ok {
			if v := sc.lookup(id.Name); v != nil && v.kind == "ptr:bytes" {
				return stVal{t: stEvar(v), k: "bytes"}
			}
		}
	case *ast.UnaryExpr:
		switch x.Op {
		case token.NOT:
			a := f.expr(x.X, sc)
			if a.k == "bool" {
				return stVal{t: lh("E.not", a.t), k: "bool"}
			}
		case token.SUB:
			a := f.expr(x.X, sc)
			if stIsConst(a.k) {
				return stVal{k: a.k, c: new(big.Int).Neg(a.c)}
			}
		case token.AND:
			if cl, ok := unparen(x.X).(*ast.CompositeLit); ok && len(cl.Elts) == 0 && cl.Type != nil && f.typeKind(cl.Type, sc) == "bitsetval" {
				return stVal{t: lh("E.newBitset"), k: "bitset"}
			}
		}
	case *ast.BinaryExpr:
		return f.binary(x, sc)
	case *ast.IndexExpr:
		s := f.expr(x.X, sc)
		elem := map[string]string{"str": "byte", "bytes": "byte", "bools": "bool", "rows": "u32", "strs": "str"}[s.k]
		if elem != "" {
			return stVal{t: lh("E.at", s.t, f.index(x.Index, sc)), k: elem}
		}
	case *ast.SliceExpr:
		s := f.expr(x.X, sc)
		if (s.k == "str" || s.k == "bytes") && !x.Slice3 {
			switch {
			case x.Low != nil && x.High != nil:
				return stVal{t: lh("E.slice", s.t, f.want(x.Low, sc, "int"), f.want(x.High, sc, "int")), k: s.k}
			case x.Low != nil:
				return stVal{t: lh("E.sliceFrom", s.t, f.want(x.Low, sc, "int")), k: s.k}
			case x.High != nil:
				return stVal{t: lh("E.sliceTo", s.t, f.want(x.High, sc, "int")), k: s.k}
			}
		}
	case *ast.CallExpr:
		return f.call(x, sc)
	}
	return stOp(e)
}

func (f *stFn) binary(x *ast.BinaryExpr, sc *stScope) stVal {
	a, b := f.expr(x.X, sc), f.expr(x.Y, sc)
	if a.k == "?" || b.k == "?" {
		return stOp(x)
	}
	switch x.Op {
	case token.LAND, token.LOR:
		if a.k == "bool" && b.k == "bool" {
			return stVal{t: lh(map[token.Token]string{token.LAND: "E.and", token.LOR: "E.or"}[x.Op], a.t, b.t), k: "bool"}
		}
	case token.EQL, token.NEQ, token.LSS, token.LEQ, token.GTR, token.GEQ:
		if a.k == "nil" || b.k == "nil" {
			o := a
			if a.k == "nil" {
				o = b
			}
			if (o.k == "bytes" || o.k == "err" || o.k == "bitset") && (x.Op == token.EQL || x.Op == token.NEQ) {
				t := lh("E.isNil", o.t)
				if x.Op == token.NEQ {
					t = lh("E.not", t)
				}
				return stVal{t: t, k: "bool"}
			}
			return stOp(x)
		}
		ta, tb, k, ok := stUnify(a, b)
		op := map[token.Token]string{token.EQL: "COp.eq", token.NEQ: "COp.ne", token.LSS: "COp.lt", token.LEQ: "COp.le", token.GTR: "COp.gt", token.GEQ: "COp.ge"}[x.Op]
		if ok {
			switch k {
			case "int", "u64", "byte", "rune":
				return stVal{t: lh("E.cmp", lh(op), ta, tb), k: "bool"}
			case "bool", "str":
				if x.Op == token.EQL || x.Op == token.NEQ {
					return stVal{t: lh("E.cmp", lh(op), ta, tb), k: "bool"}
				}
			}
		}
	case token.ADD, token.SUB, token.MUL:
		ta, tb, k, ok := stUnify(a, b)
		if ok && (k == "int" || k == "u64") {
			return stVal{t: lh(map[token.Token]string{token.ADD: "E.add", token.SUB: "E.sub", token.MUL: "E.mul"}[x.Op], ta, tb), k: k}
		}
	case token.AND, token.OR:
		ta, tb, k, ok := stUnify(a, b)
		if ok && (k == "int" || k == "u64" || k == "byte" || k == "rune") {
			return stVal{t: lh(map[token.Token]string{token.AND: "E.band", token.OR: "E.bor"}[x.Op], ta, tb), k: k}
		}
	case token.SHL, token.SHR:
		if a.k == "int" || a.k == "u64" || a.k == "byte" {
			var cnt *lt
			switch {
			case b.k == "cint" && b.c.Sign() >= 0 && b.c.IsInt64():
				cnt = lh("E.int", stNum(b.c))
			case b.k == "int" || b.k == "u64" || b.k == "byte":
				cnt = b.t
			}
			if cnt != nil {
				return stVal{t: lh(map[token.Token]string{token.SHL: "E.shl", token.SHR: "E.shr"}[x.Op], a.t, cnt), k: a.k}
			}
		}
	}
	return stOp(x)
}

func (f *stFn) call(x *ast.CallExpr, sc *stScope) stVal {
	if x.Ellipsis != token.NoPos {
		// append(b, s...)
		if id, ok := x.Fun.(*ast.Ident); ok && id.Name == "append" && f.builtin("append", sc) && len(x.Args) == 2 {
			b, s := f.expr(x.Args[0], sc), f.expr(x.Args[1], sc)
			if b.k == "bytes" && (s.k == "str" || s.k == "bytes") {
				return stVal{t: lh("E.appAll", b.t, s.t), k: "bytes"}
			}
		}
		return stOp(x)
	}
	// conversions
	if len(x.Args) == 1 && f.isTypeExpr(x.Fun, sc) {
		k := f.typeKind(x.Fun, sc)
		if nk, ok := stNK[k]; ok {
			a := f.expr(x.Args[0], sc)
			if stIsConst(a.k) {
				if t, ok := stCoerce(a, k); ok {
					return stVal{t: t, k: k}
				}
				return stOp(x)
			}
			switch a.k {
			case "int", "u64", "byte", "rune":
				return stVal{t: lh("E.conv", lh(nk), a.t), k: k}
			}
		}
		return stOp(x)
	}
	switch fun := x.Fun.(type) {
	case *ast.Ident:
		if f.builtin(fun.Name, sc) {
			switch fun.Name {
			case "len":
				if len(x.Args) == 1 {
					a := f.expr(x.Args[0], sc)
					switch a.k {
					case "str", "bytes", "bools", "rows", "strs":
						return stVal{t: lh("E.len", a.t), k: "int"}
					}
				}
			case "append":
				if len(x.Args) == 2 {
					b := f.expr(x.Args[0], sc)
					if b.k == "bytes" {
						return stVal{t: lh("E.app1", b.t, f.want(x.Args[1], sc, "byte")), k: "bytes"}
					}
				}
			case "make":
				if len(x.Args) == 2 && f.typeKind(x.Args[0], sc) == "bytes" {
					return stVal{t: lh("E.make", f.want(x.Args[1], sc, "int")), k: "bytes"}
				}
			}
			return stOp(x)
		}
		if sc.lookup(fun.Name) == nil && len(x.Args) == 1 && f.toStrFunc(fun.Name) {
			return stVal{t: lh("E.toStr", f.want(x.Args[0], sc, "bytes")), k: "str"}
		}
	case *ast.SelectorExpr:
		if name, ok := f.pkgSel(fun, sc, "unicode"); ok && name == "ToUpper" && len(x.Args) == 1 {
			return stVal{t: lh("E.upper", f.want(x.Args[0], sc, "rune")), k: "rune"}
		}
		if name, ok := f.pkgSel(fun, sc, "unicode/utf8"); ok && name == "RuneLen" && len(x.Args) == 1 {
			return stVal{t: lh("E.runeLen", f.want(x.Args[0], sc, "rune")), k: "int"}
		}
		if name, ok := f.pkgSel(fun, sc, "qerrors"); ok && name == "Propagate" && len(x.Args) == 2 {
			if lit, isLit := unparen(x.Args[0]).(*ast.BasicLit); isLit && lit.Kind == token.STRING {
				if msg, err := strconv.Unquote(lit.Value); err == nil {
					t := ls("E.propagate", msg)
					t.args = []*lt{f.want(x.Args[1], sc, "err")}
					return stVal{t: t, k: "err"}
				}
			}
		}
		if id, ok := fun.X.(*ast.Ident); ok {
			if v := sc.lookup(id.Name); v != nil && v.kind == "matcher" && fun.Sel.Name == "Matches" && len(x.Args) == 1 {
				return stVal{t: lh("E.matches", stEvar(v), f.want(x.Args[0], sc, "str")), k: "bool"}
			}
		}
	}
	return stOp(x)
}

/* ---------- statements ---------- */

func (f *stFn) stmts(list []ast.Stmt, sc *stScope) []*lt {
	var out []*lt
	for _, s := range list {
		out = append(out, f.stmt(s, sc)...)
	}
	return out
}

func (f *stFn) blockOf(b *ast.BlockStmt, sc *stScope) *lt {
	if b == nil {
		return block(nil)
	}
	return block(f.stmts(b.List, sc.push()))
}

func stHasContinue(n ast.Node) bool {
	found := false
	ast.Inspect(n, func(m ast.Node) bool {
		switch y := m.(type) {
		case *ast.ForStmt, *ast.RangeStmt, *ast.FuncLit:
			return m == n
		case *ast.BranchStmt:
			if y.Tok == token.CONTINUE {
				found = true
			}
		}
		return true
	})
	return found
}

func stAssigns(n ast.Node, name string) bool {
	found := false
	ast.Inspect(n, func(m ast.Node) bool {
		switch y := m.(type) {
		case *ast.AssignStmt:
			for _, l := range y.Lhs {
				if id, ok := unparen(l).(*ast.Ident); ok && id.Name == name {
					found = true
				}
			}
		case *ast.IncDecStmt:
			if id, ok := unparen(y.X).(*ast.Ident); ok && id.Name == name {
				found = true
			}
		case *ast.UnaryExpr:
			if y.Op == token.AND {
				if id, ok := unparen(y.X).(*ast.Ident); ok && id.Name == name {
					found = true
				}
			}
		}
		return true
	})
	return found
}

// lhs of a definition or assignment: a variable (new when `define` and not yet in this scope), `_`, or `*p`
func (f *stFn) lhs(e ast.Expr, sc *stScope, define bool, kind string) (*lt, *stVar, bool) {
	switch x := unparen(e).(type) {
	case *ast.Ident:
		if x.Name == "_" {
			return lh("L.blank"), nil, true
		}
		if define {
			if _, here := sc.vars[x.Name]; !here {
				if kind == "?" || kind == "nil" || stIsConst(kind) {
					return nil, nil, false
				}
				v := f.declare(sc, x.Name, kind)
				return stLvar(v), v, true
			}
		}
		if v := sc.lookup(x.Name); v != nil && v.kind == kind && v.kind != "ptr:bytes" {
			return stLvar(v), v, true
		}
	case *ast.StarExpr:
		if id, ok := unparen(x.X).(*ast.Ident); ok {
			if v := sc.lookup(id.Name); v != nil && v.kind == "ptr:bytes" && kind == "bytes" {
				return stLvar(v), v, true
			}
		}
	}
	return nil, nil, false
}

// the kind the left-hand side of a plain assignment has (so that constants and nil on the right can be typed)
func (f *stFn) lhsKind(e ast.Expr, sc *stScope) string {
	switch x := unparen(e).(type) {
	case *ast.Ident:
		if v := sc.lookup(x.Name); v != nil {
			return v.kind
		}
	case *ast.StarExpr:
		if id, ok := unparen(x.X).(*ast.Ident); ok {
			if v := sc.lookup(id.Name); v != nil && v.kind == "ptr:bytes" {
				return "bytes"
			}
		}
	case *ast.IndexExpr:
		if id, ok := unparen(x.X).(*ast.Ident); ok {
			if v := sc.lookup(id.Name); v != nil {
				return map[string]string{"bytes": "byte", "bools": "bool"}[v.kind]
			}
		}
	}
	return "?"
}

// the calls that are statements: (kind of call, its pieces)
type stEffect struct {
	what string // "copy" "encode" "decode" "newMatcher" "stringAt"
	v    *stVar
	args []*lt
	res  []string // kinds of the results
}

func (f *stFn) effect(e ast.Expr, sc *stScope) *stEffect {
	x, ok := unparen(e).(*ast.CallExpr)
	if !ok || x.Ellipsis != token.NoPos {
		return nil
	}
	varOf := func(a ast.Expr, kind string) *stVar {
		if id, ok := unparen(a).(*ast.Ident); ok {
			if v := sc.lookup(id.Name); v != nil && v.kind == kind {
				return v
			}
		}
		return nil
	}
	switch fun := x.Fun.(type) {
	case *ast.Ident:
		if fun.Name == "copy" && f.builtin("copy", sc) && len(x.Args) == 2 {
			if v := varOf(x.Args[0], "bytes"); v != nil {
				s := f.expr(x.Args[1], sc)
				if s.k == "str" || s.k == "bytes" {
					return &stEffect{what: "copy", v: v, args: []*lt{s.t}, res: []string{"int"}}
				}
			}
		}
	case *ast.SelectorExpr:
		if name, ok := f.pkgSel(fun, sc, "unicode/utf8"); ok {
			switch {
			case name == "EncodeRune" && len(x.Args) == 2:
				r := f.want(x.Args[1], sc, "rune")
				if v := varOf(x.Args[0], "bytes"); v != nil {
					return &stEffect{what: "encode", v: v, args: []*lt{stEint(0), r}, res: []string{"int"}}
				}
				if sl, ok := unparen(x.Args[0]).(*ast.SliceExpr); ok && sl.Low != nil && sl.High == nil && !sl.Slice3 {
					if v := varOf(sl.X, "bytes"); v != nil {
						return &stEffect{what: "encode", v: v, args: []*lt{f.want(sl.Low, sc, "int"), r}, res: []string{"int"}}
					}
				}
			case name == "DecodeRuneInString" && len(x.Args) == 1:
				return &stEffect{what: "decode", args: []*lt{f.want(x.Args[0], sc, "str")}, res: []string{"rune", "int"}}
			}
		}
		if name, ok := f.pkgSel(fun, sc, "internal/strings"); ok && name == "NewMatcher" && len(x.Args) == 2 {
			return &stEffect{what: "newMatcher", args: []*lt{f.want(x.Args[0], sc, "str"), f.want(x.Args[1], sc, "bool")}, res: []string{"matcher", "err"}}
		}
		if v := varOf(fun.X, "col"); v != nil && len(x.Args) == 1 && f.cellAccessor(fun.Sel.Name) {
			a := f.expr(x.Args[0], sc)
			if a.k == "u32" {
				return &stEffect{what: "stringAt", args: []*lt{stEvar(v), a.t}, res: []string{"str", "bool"}}
			}
		}
	}
	return nil
}

func (ef *stEffect) stmt(ls []*lt) *lt {
	switch ef.what {
	case "copy":
		return lh("S.copy", ls[0], stNat(ef.v), ef.args[0])
	case "encode":
		return lh("S.encodeRune", ls[0], stNat(ef.v), ef.args[0], ef.args[1])
	case "decode":
		return lh("S.decodeRune", ls[0], ls[1], ef.args[0])
	case "newMatcher":
		return lh("S.newMatcher", ls[0], ls[1], ef.args[0], ef.args[1])
	}
	return lh("S.stringAt", ls[0], ls[1], ef.args[0], ef.args[1])
}

var stOpAssign = map[token.Token]token.Token{token.ADD_ASSIGN: token.ADD, token.SUB_ASSIGN: token.SUB, token.MUL_ASSIGN: token.MUL,
	token.OR_ASSIGN: token.OR, token.AND_ASSIGN: token.AND, token.SHL_ASSIGN: token.SHL, token.SHR_ASSIGN: token.SHR}

func (f *stFn) assign(s *ast.AssignStmt, sc *stScope) []*lt {
	define := s.Tok == token.DEFINE
	if define || s.Tok == token.ASSIGN {
		// a call with an effect on the right
		if len(s.Rhs) == 1 {
			if ef := f.effect(s.Rhs[0], sc); ef != nil {
				if len(s.Lhs) != len(ef.res) {
					return stSop(s)
				}
				ls := make([]*lt, len(s.Lhs))
				fresh := false
				for i, l := range s.Lhs {
					if id, ok := unparen(l).(*ast.Ident); ok && define && id.Name != "_" {
						if _, here := sc.vars[id.Name]; !here {
							fresh = true
						}
					}
					t, _, ok := f.lhs(l, sc, define, ef.res[i])
					if !ok {
						return stSop(s)
					}
					ls[i] = t
				}
				if define && !fresh {
					return stSop(s)
				}
				return []*lt{ef.stmt(ls)}
			}
		}
		if len(s.Lhs) != 1 || len(s.Rhs) != 1 {
			return stSop(s)
		}
		// v[i] = e
		if ix, ok := unparen(s.Lhs[0]).(*ast.IndexExpr); ok && !define {
			if id, ok := unparen(ix.X).(*ast.Ident); ok {
				if v := sc.lookup(id.Name); v != nil && (v.kind == "bytes" || v.kind == "bools") {
					return []*lt{lh("S.setAt", stNat(v), f.index(ix.Index, sc), f.want(s.Rhs[0], sc, f.lhsKind(s.Lhs[0], sc)))}
				}
			}
			return stSop(s)
		}
		var r stVal
		if define {
			r = stDefault(f.expr(s.Rhs[0], sc))
		} else {
			k := f.lhsKind(s.Lhs[0], sc)
			r = stVal{t: f.want(s.Rhs[0], sc, k), k: k}
		}
		if r.k == "?" || r.t == nil || r.t.hasOpaque() {
			return stSop(s)
		}
		if id, ok := unparen(s.Lhs[0]).(*ast.Ident); ok && define {
			if _, here := sc.vars[id.Name]; here || id.Name == "_" {
				return stSop(s)
			}
		}
		l, _, ok := f.lhs(s.Lhs[0], sc, define, r.k)
		if !ok {
			return stSop(s)
		}
		return []*lt{lh("S.assign", l, r.t)}
	}
	op, ok := stOpAssign[s.Tok]
	if !ok || len(s.Lhs) != 1 || len(s.Rhs) != 1 {
		return stSop(s)
	}
	k := f.lhsKind(s.Lhs[0], sc)
	l, _, okL := f.lhs(s.Lhs[0], sc, false, k)
	if !okL {
		return stSop(s)
	}
	// x += utf8.EncodeRune(b[n:], r), x += copy(…): the call first, into a temporary
	if ef := f.effect(s.Rhs[0], sc); ef != nil && len(ef.res) == 1 && ef.res[0] == k && op == token.ADD {
		tmp := f.declare(sc, "", k)
		cur := f.expr(s.Lhs[0], sc)
		return []*lt{ef.stmt([]*lt{stLvar(tmp)}), lh("S.assign", l, lh("E.add", cur.t, stEvar(tmp)))}
	}
	r := f.binary(&ast.BinaryExpr{X: s.Lhs[0], Op: op, Y: s.Rhs[0], OpPos: s.TokPos}, sc)
	if r.k != k || r.t.hasOpaque() {
		return stSop(s)
	}
	return []*lt{lh("S.assign", l, r.t)}
}

func stZero(kind string) *lt {
	switch kind {
	case "int":
		return stEint(0)
	case "u64":
		return lh("E.u64", lh("0"))
	case "byte":
		return lh("E.byte", lh("0"))
	case "rune":
		return lh("E.rune", lh("0"))
	case "bool":
		return lh("E.bool", lh("false"))
	case "str":
		return lh("E.str", ll(nil))
	case "bytes":
		return lh("E.nilBytes")
	case "err":
		return lh("E.nilErr")
	case "bitset":
		return lh("E.nilBitset")
	}
	return nil
}

func (f *stFn) stmt(st ast.Stmt, sc *stScope) []*lt {
	switch s := st.(type) {
	case *ast.EmptyStmt:
		return nil
	case *ast.BlockStmt:
		return []*lt{f.blockOf(s, sc)}
	case *ast.AssignStmt:
		return f.assign(s, sc)
	case *ast.IncDecStmt:
		tok := token.ADD_ASSIGN
		if s.Tok == token.DEC {
			tok = token.SUB_ASSIGN
		}
		return f.assign(&ast.AssignStmt{Lhs: []ast.Expr{s.X}, Tok: tok, TokPos: s.TokPos, Rhs: []ast.Expr{&ast.BasicLit{Kind: token.INT, Value: "1"}}}, sc)
	case *ast.DeclStmt:
		gd, ok := s.Decl.(*ast.GenDecl)
		if !ok || gd.Tok != token.VAR {
			return stSop(s)
		}
		var out []*lt
		for _, sp := range gd.Specs {
			vs, ok := sp.(*ast.ValueSpec)
			if !ok {
				return stSop(s)
			}
			for i, n := range vs.Names {
				if _, here := sc.vars[n.Name]; here || n.Name == "_" {
					return stSop(s)
				}
				switch {
				case vs.Type != nil && len(vs.Values) == 0:
					k := f.typeKind(vs.Type, sc)
					z := stZero(k)
					if z == nil {
						return stSop(s)
					}
					out = append(out, lh("S.assign", stLvar(f.declare(sc, n.Name, k)), z))
				case len(vs.Values) == len(vs.Names):
					var r stVal
					if vs.Type != nil {
						k := f.typeKind(vs.Type, sc)
						r = stVal{t: f.want(vs.Values[i], sc, k), k: k}
					} else {
						r = stDefault(f.expr(vs.Values[i], sc))
					}
					if r.k == "?" || r.k == "nil" || r.t == nil || r.t.hasOpaque() {
						return stSop(s)
					}
					out = append(out, lh("S.assign", stLvar(f.declare(sc, n.Name, r.k)), r.t))
				default:
					return stSop(s)
				}
			}
		}
		return out
	case *ast.ExprStmt:
		if ef := f.effect(s.X, sc); ef != nil && ef.what == "copy" {
			return []*lt{ef.stmt([]*lt{lh("L.blank")})}
		}
		// b.set(x)
		if call, ok := s.X.(*ast.CallExpr); ok && len(call.Args) == 1 && call.Ellipsis == token.NoPos {
			if sel, ok := call.Fun.(*ast.SelectorExpr); ok {
				if id, ok := sel.X.(*ast.Ident); ok {
					if v := sc.lookup(id.Name); v != nil && v.kind == "bitset" && f.methodRole("bitset", sel.Sel.Name, []string{"byte"}, nil) {
						return []*lt{lh("S.bsSet", stNat(v), f.want(call.Args[0], sc, "byte"))}
					}
				}
			}
		}
	case *ast.IfStmt:
		inner := sc.push()
		var out []*lt
		if s.Init != nil {
			out = append(out, f.stmt(s.Init, inner)...)
		}
		c := f.want(s.Cond, inner, "bool")
		th := f.blockOf(s.Body, inner)
		el := block(nil)
		switch e := s.Else.(type) {
		case nil:
		case *ast.BlockStmt:
			el = f.blockOf(e, inner)
		case *ast.IfStmt:
			el = block(f.stmt(e, inner))
		default:
			return stSop(s)
		}
		return append(out, lh("S.ite", c, th, el))
	case *ast.ForStmt:
		inner := sc.push()
		var out []*lt
		if s.Init != nil {
			out = append(out, f.stmt(s.Init, inner)...)
		}
		if s.Post != nil && stHasContinue(s.Body) {
			return stSop(s)
		}
		var body []*lt
		if s.Cond != nil {
			body = append(body, lh("S.ite", f.want(s.Cond, inner, "bool"), lh("S.skip"), lh("S.brk")))
		}
		f.inLoop++
		saved := f.inSwitch
		f.inSwitch = 0
		body = append(body, f.stmts(s.Body.List, inner.push())...)
		f.inSwitch = saved
		f.inLoop--
		if s.Post != nil {
			body = append(body, f.stmt(s.Post, inner)...)
		}
		return append(out, lh("S.loop", block(body)))
	case *ast.RangeStmt:
		if s.Tok != token.DEFINE && !(s.Key == nil && s.Value == nil) {
			return stSop(s)
		}
		inner := sc.push()
		var head func(i, x *lt, body *lt) *lt
		elem := ""
		if id, ok := unparen(s.X).(*ast.Ident); ok {
			if v := sc.lookup(id.Name); v != nil {
				elem = map[string]string{"bytes": "byte", "bools": "bool", "rows": "u32", "strs": "str"}[v.kind]
				if elem != "" {
					if stAssigns(s.Body, id.Name) {
						return stSop(s)
					}
					head = func(i, x, body *lt) *lt { return lh("S.rangeVar", i, x, stNat(v), body) }
				}
			}
		}
		if head == nil {
			x := f.expr(s.X, sc)
			if x.k != "str" {
				return stSop(s)
			}
			elem = "rune"
			head = func(i, c, body *lt) *lt { return lh("S.rangeStr", i, c, x.t, body) }
		}
		lv := func(e ast.Expr, kind string) *lt {
			if e == nil {
				return lh("L.blank")
			}
			id, ok := e.(*ast.Ident)
			if !ok {
				return nil
			}
			if id.Name == "_" {
				return lh("L.blank")
			}
			return stLvar(f.declare(inner, id.Name, kind))
		}
		i, x := lv(s.Key, "int"), lv(s.Value, elem)
		if i == nil || x == nil {
			return stSop(s)
		}
		f.inLoop++
		saved := f.inSwitch
		f.inSwitch = 0
		body := block(f.stmts(s.Body.List, inner.push()))
		f.inSwitch = saved
		f.inLoop--
		return []*lt{head(i, x, body)}
	case *ast.SwitchStmt:
		if s.Init != nil || s.Tag == nil {
			return stSop(s)
		}
		id, ok := unparen(s.Tag).(*ast.Ident)
		if !ok || sc.lookup(id.Name) == nil {
			return stSop(s)
		}
		tag := f.expr(s.Tag, sc)
		switch tag.k {
		case "int", "u64", "byte", "rune":
		default:
			return stSop(s)
		}
		type arm struct {
			cond *lt
			body *lt
		}
		var arms []arm
		def := block(nil)
		seenDefault := false
		f.inSwitch++
		defer func() { f.inSwitch-- }()
		for _, cc := range s.Body.List {
			cl, ok := cc.(*ast.CaseClause)
			if !ok {
				return stSop(s)
			}
			body := block(f.stmts(cl.Body, sc.push()))
			if cl.List == nil {
				if seenDefault {
					return stSop(s)
				}
				seenDefault = true
				def = body
				continue
			}
			var cond *lt
			for _, v := range cl.List {
				c := f.expr(v, sc)
				if !stIsConst(c.k) {
					return stSop(s)
				}
				t, ok := stCoerce(c, tag.k)
				if !ok {
					return stSop(s)
				}
				eq := lh("E.cmp", lh("COp.eq"), tag.t, t)
				if cond == nil {
					cond = eq
				} else {
					cond = lh("E.or", cond, eq)
				}
			}
			arms = append(arms, arm{cond, body})
		}
		out := def
		for i := len(arms) - 1; i >= 0; i-- {
			out = lh("S.ite", arms[i].cond, arms[i].body, out)
		}
		return []*lt{out}
	case *ast.BranchStmt:
		if s.Label == nil && f.inLoop > 0 {
			switch {
			case s.Tok == token.BREAK && f.inSwitch == 0:
				return []*lt{lh("S.brk")}
			case s.Tok == token.CONTINUE:
				return []*lt{lh("S.cont")}
			}
		}
	case *ast.ReturnStmt:
		if len(s.Results) != len(f.res) {
			return stSop(s)
		}
		items := make([]*lt, len(s.Results))
		for i, r := range s.Results {
			items[i] = f.want(r, sc, f.res[i])
		}
		return []*lt{lh("S.ret", ll(items))}
	}
	return stSop(st)
}

/* ---------- functions ---------- */

func (p *stPkg) translate(fd *ast.FuncDecl, params, results []string) string {
	f := &stFn{p: p}
	sc := &stScope{vars: map[string]*stVar{}}
	refused := ""
	var kinds []string
	add := func(fl *ast.FieldList) {
		if fl == nil {
			return
		}
		for _, fld := range fl.List {
			k := f.typeKind(fld.Type, nil)
			names := fld.Names
			if len(names) == 0 {
				names = []*ast.Ident{{Name: "_"}}
			}
			for _, n := range names {
				kinds = append(kinds, k)
				f.declare(sc, n.Name, k)
			}
		}
	}
	add(fd.Recv)
	add(fd.Type.Params)
	f.res = f.fieldKinds(fd.Type.Results)
	if fd.Type.Results != nil {
		for _, fld := range fd.Type.Results.List {
			if len(fld.Names) > 0 {
				refused = "named results"
			}
		}
	}
	if strings.Join(kinds, ",") != strings.Join(params, ",") || strings.Join(f.res, ",") != strings.Join(results, ",") {
		refused = "not the signature of this role"
	}
	var body []*lt
	if refused != "" {
		body = []*lt{sopText(refused + ": " + src(&ast.FuncDecl{Recv: fd.Recv, Name: fd.Name, Type: fd.Type}))}
	} else {
		body = f.stmts(fd.Body.List, sc)
	}
	return fmt.Sprintf("{ params := %d, body := %s }", len(kinds), block(body).lean())
}

// bySignature: the one function (no receiver) of the package with these parameter and result kinds
func (p *stPkg) bySignature(params, results []string) (*ast.FuncDecl, string) {
	f := &stFn{p: p}
	var hit *ast.FuncDecl
	n := 0
	for _, fd := range p.fns {
		if fd.Recv != nil {
			continue
		}
		if strings.Join(f.fieldKinds(fd.Type.Params), ",") == strings.Join(params, ",") &&
			strings.Join(f.fieldKinds(fd.Type.Results), ",") == strings.Join(results, ",") {
			hit = fd
			n++
		}
	}
	switch n {
	case 0:
		return nil, "no function with the signature of this role"
	case 1:
		return hit, ""
	}
	return nil, "several functions with the signature of this role"
}

func stringsFnsLean(repo string) string {
	strs := stLoad(filepath.Join(repo, "internal", "strings"))
	scol := stLoad(filepath.Join(repo, "internal", "scolumn"))
	ecol := stLoad(filepath.Join(repo, "internal", "ecolumn"))
	scol.toStrOK = (&stFn{p: strs}).toStrFunc("UnsafeBytesToString")
	missing := func(why string) string {
		return "{ params := 0, body := " + block([]*lt{sopText(why)}).lean() + " }"
	}
	named := func(p *stPkg, name string, params, results []string) string {
		fd, ok := p.fns[name]
		if !ok {
			return missing("no function " + name)
		}
		return p.translate(fd, params, results)
	}
	signed := func(p *stPkg, params, results []string) string {
		fd, why := p.bySignature(params, results)
		if fd == nil {
			return missing(why)
		}
		return p.translate(fd, params, results)
	}
	items := []string{
		"  (FnId.newPointer, " + named(strs, "NewPointer", []string{"int", "int", "bool"}, []string{"u64"}) + ")",
		"  (FnId.pOffset, " + named(strs, "Pointer.Offset", []string{"u64"}, []string{"int"}) + ")",
		"  (FnId.pLen, " + named(strs, "Pointer.Len", []string{"u64"}, []string{"int"}) + ")",
		"  (FnId.pIsNull, " + named(strs, "Pointer.IsNull", []string{"u64"}, []string{"bool"}) + ")",
		"  (FnId.appendQuoted, " + named(strs, "AppendQuotedString", []string{"bytes", "str"}, []string{"bytes"}) + ")",
		"  (FnId.toUpper, " + named(strs, "ToUpper", []string{"ptr:bytes", "str"}, []string{"str"}) + ")",
		"  (FnId.likeStrings, " + signed(scol, []string{"rows", "col", "str", "bools", "bool"}, []string{"err"}) + ")",
		"  (FnId.likeEnum, " + signed(ecol, []string{"str", "strs", "bool"}, []string{"bitset", "err"}) + ")",
	}
	var b strings.Builder
	b.WriteString("/- GENERATED on every run by /verif/go/cmd/extract from /repo's source (tie T1). Do not edit. -/\nimport QF.Core.STExpr\nnamespace QF.Gen\nopen QF.ST\n\n")
	b.WriteString("/-- the packed string pointers, the JSON string quoting and the upper-casing of internal/strings and the like / ilike filter\nloops of internal/scolumn and internal/ecolumn translated statement by statement to the language `QF.ST`, by role: (function, term) -/\n")
	b.WriteString("def stringsFns : List (FnId × Fn) := [\n" + strings.Join(items, ",\n") + "]\n\nend QF.Gen\n")
	return b.String()
}
