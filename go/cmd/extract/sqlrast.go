package main

// Translation go/ast → SR (lean/QF/Core/SRExpr.lean) of ReadSQL in /repo/internal/io/sql/reader.go:
//
//	func ReadSQL(rows *sql.Rows, conf SQLConfig) (map[string]types.DataSlice, []string, error)   → SR
//
// The body is walked statement by statement; the result is ONE term in continuation style. A call whose error is tested by
// the next statement is one constructor with the failure branch. Everything is found by ROLE:
//
//   - the function: the only one of the package without receiver (*S.Rows, C) (map[string]X, []string, error) with S the
//     import name of database/sql and C a struct of the package; the parameters by position;
//   - the column struct, its precision and coercion fields and its method Data: as sast.go finds them (field types, method
//     signatures); the fields of C by type: map[string]F with F a named type func(*Column) func(interface{}) error is the
//     coercion map, the only int field the precision;
//   - the methods of *sql.Rows by their names (Next, Columns, Scan, Err: the API of database/sql);
//   - variables by what they are bound to (see the kinds of `jv`); one register per kind, as in jrast.go.
//
// Whatever is not understood becomes `.opaque "<text>"`.

import (
	"go/ast"
	"go/token"
	"path/filepath"
	"strings"
)

type qctx struct {
	*sctx
	fd              *ast.FuncDecl
	cfgMap, cfgPrec string
	valType         string // X
	dataMeth        string
	gens            map[string]int
	label           string
	nextDone        bool // the loop over rows.Next() has been translated: what follows runs after Next returned false
}

func srop(n ast.Node) *lt { return ls("SR.opaque", src(n)) }

func (c *qctx) find() string {
	sqlName := ""
	for n, p := range c.imports {
		if p == "database/sql" {
			sqlName = n
		}
	}
	if sqlName == "" {
		return "database/sql is not imported"
	}
	var found []*ast.FuncDecl
	for _, fd := range c.fns {
		if fd.Recv != nil {
			continue
		}
		p, r := flatTypes(fd.Type.Params), flatTypes(fd.Type.Results)
		if len(p) != 2 || len(r) != 3 || p[0] != "*"+sqlName+".Rows" || !strings.HasPrefix(r[0], "map[string]") || r[1] != "[]string" || r[2] != "error" {
			continue
		}
		if _, _, ok := structFields(c.files, p[1]); !ok {
			continue
		}
		found = append(found, fd)
	}
	if len(found) != 1 {
		return "no unique function (*sql.Rows, <config>) (map[string]X, []string, error)"
	}
	c.fd = found[0]
	c.valType = strings.TrimPrefix(flatTypes(c.fd.Type.Results)[0], "map[string]")
	names, types, _ := structFields(c.files, flatTypes(c.fd.Type.Params)[1])
	for i, t := range types {
		switch {
		case strings.HasPrefix(t, "map[string]") && c.isCoerceFuncType(strings.TrimPrefix(t, "map[string]")):
			if c.cfgMap != "" {
				return "two coercion maps"
			}
			c.cfgMap = names[i]
		case t == "int":
			if c.cfgPrec != "" {
				return "two int fields in the configuration"
			}
			c.cfgPrec = names[i]
		}
	}
	if c.cfgMap == "" || c.cfgPrec == "" {
		return "the configuration has no coercion map / precision"
	}
	for n, r := range c.meths {
		if r == "data" {
			c.dataMeth = n
		}
	}
	return ""
}

// a named type func(*Column) func(interface{}) error
func (c *qctx) isCoerceFuncType(name string) bool {
	for _, f := range c.files {
		for _, d := range f.Decls {
			gd, ok := d.(*ast.GenDecl)
			if !ok || gd.Tok != token.TYPE {
				continue
			}
			for _, sp := range gd.Specs {
				ts, ok := sp.(*ast.TypeSpec)
				if !ok || ts.Name.Name != name {
					continue
				}
				ft, ok := ts.Type.(*ast.FuncType)
				if !ok {
					return false
				}
				p, r := flatTypes(ft.Params), ft.Results
				if len(p) != 1 || p[0] != "*"+c.recv || r == nil || len(r.List) != 1 {
					return false
				}
				inner, ok := r.List[0].Type.(*ast.FuncType)
				if !ok {
					return false
				}
				ip, ir := flatTypes(inner.Params), flatTypes(inner.Results)
				return len(ip) == 1 && isEmptyIface(ip[0]) && len(ir) == 1 && ir[0] == "error"
			}
		}
	}
	return false
}

func (c *qctx) bind(kind string) int { c.gens[kind]++; return c.gens[kind] }

func (c *qctx) is(e ast.Expr, sc *jscope, kind string) bool {
	id, ok := unparen(e).(*ast.Ident)
	if !ok {
		return false
	}
	v, ok := sc.get(id.Name)
	return ok && v.kind == kind && v.gen == c.gens[kind]
}

// conf.<field>
func (c *qctx) confField(e ast.Expr, sc *jscope, field string) bool {
	sel, ok := unparen(e).(*ast.SelectorExpr)
	return ok && field != "" && sel.Sel.Name == field && c.is(sel.X, sc, "conf")
}

// rows.<Method>(args)
func (c *qctx) rowsCall(e ast.Expr, sc *jscope, meth string) (*ast.CallExpr, bool) {
	call, ok := unparen(e).(*ast.CallExpr)
	if !ok {
		return nil, false
	}
	sel, ok := call.Fun.(*ast.SelectorExpr)
	if !ok || sel.Sel.Name != meth || !c.is(sel.X, sc, "rows") {
		return nil, false
	}
	return call, true
}

// `if err != nil { body }` (no else, no init) for the variable `errName`: the body
func errTest(st ast.Stmt, errName string, sc *jscope) ([]ast.Stmt, bool) {
	s, ok := st.(*ast.IfStmt)
	if !ok || s.Init != nil || s.Else != nil || errName == "_" || errName == "" {
		return nil, false
	}
	b, ok := unparen(s.Cond).(*ast.BinaryExpr)
	if !ok || b.Op != token.NEQ || !isIdent(b.X, errName) || !isNilIdent(b.Y) || sc.bound("nil") {
		return nil, false
	}
	return s.Body.List, true
}

func (c *qctx) block(stmts []ast.Stmt, sc *jscope) *lt {
	if len(stmts) == 0 {
		return lh("SR.done")
	}
	st, rest := stmts[0], stmts[1:]
	k := func() *lt { return c.block(rest, sc) }
	nilOk := !sc.bound("nil")
	switch s := st.(type) {
	case *ast.DeclStmt:
		gd, ok := s.Decl.(*ast.GenDecl)
		if !ok || gd.Tok != token.VAR || len(gd.Specs) != 2 || sc.hasKind("columns") || sc.hasKind("colNames") {
			return srop(s)
		}
		got := map[string]string{}
		for _, sp := range gd.Specs {
			vs, ok := sp.(*ast.ValueSpec)
			if !ok || len(vs.Names) != 1 || len(vs.Values) != 0 || vs.Names[0].Name == "_" {
				return srop(s)
			}
			switch src(vs.Type) {
			case "[]interface{}", "[]any":
				got["columns"] = vs.Names[0].Name
			case "[]string":
				got["colNames"] = vs.Names[0].Name
			}
		}
		if len(got) != 2 || got["columns"] == got["colNames"] || sc.bound("string") || sc.bound("any") {
			return srop(s)
		}
		sc.def(got["columns"], &jv{kind: "columns"})
		sc.def(got["colNames"], &jv{kind: "colNames"})
		return lh("SR.declVars", k())
	case *ast.ForStmt:
		// for rows.Next() { … }
		if s.Init != nil || s.Post != nil || s.Cond == nil || sc.hasKind("row") || c.nextDone {
			return srop(s)
		}
		if call, ok := c.rowsCall(s.Cond, sc, "Next"); !ok || len(call.Args) != 0 {
			return srop(s)
		}
		c.enterLoop()
		inner := sc.push()
		inner.def("\x00row", &jv{kind: "row"})
		body := c.block(s.Body.List, inner.push())
		c.enterLoop()
		c.nextDone = true
		return lh("SR.forNext", body, k())
	case *ast.LabeledStmt:
		rs, ok := s.Stmt.(*ast.RangeStmt)
		if !ok || c.label != "" {
			return srop(s)
		}
		c.label = s.Label.Name
		t := c.rangeStmt(rs, rest, sc)
		c.label = ""
		if t != nil {
			return t
		}
	case *ast.RangeStmt:
		if t := c.rangeStmt(s, rest, sc); t != nil {
			return t
		}
	case *ast.BranchStmt:
		if s.Tok == token.CONTINUE && s.Label != nil && s.Label.Name == c.label && c.label != "" && len(rest) == 0 && sc.hasKind("mapkey") {
			return lh("SR.continueOuter")
		}
	case *ast.IfStmt:
		if s.Else != nil {
			return srop(s)
		}
		if s.Init != nil {
			// if err := rows.Err(); err != nil { … }
			as, ok := s.Init.(*ast.AssignStmt)
			if !ok || as.Tok != token.DEFINE || len(as.Lhs) != 1 || len(as.Rhs) != 1 || sc.hasKind("row") || !c.nextDone {
				return srop(s)
			}
			id, ok := as.Lhs[0].(*ast.Ident)
			call, ok2 := c.rowsCall(as.Rhs[0], sc, "Err")
			if !ok || !ok2 || len(call.Args) != 0 {
				return srop(s)
			}
			if _, ok := errTest(&ast.IfStmt{Cond: s.Cond, Body: s.Body}, id.Name, sc); !ok {
				return srop(s)
			}
			inner := sc.push()
			inner.def(id.Name, &jv{kind: "err"})
			return lh("SR.checkRowsErr", c.block(s.Body.List, inner.push()), k())
		}
		cond := unparen(s.Cond)
		then := func() *lt { return c.block(s.Body.List, sc.push()) }
		if c.is(cond, sc, "ok") {
			return lh("SR.ifOk", then(), k())
		}
		if b, ok := cond.(*ast.BinaryExpr); ok {
			switch {
			case b.Op == token.EQL && c.is(b.X, sc, "columns") && isNilIdent(b.Y) && nilOk:
				return lh("SR.ifColumnsNil", then(), k())
			case b.Op == token.NEQ && c.confField(b.X, sc, c.cfgMap) && isNilIdent(b.Y) && nilOk:
				return lh("SR.ifCoerceMap", then(), k())
			case b.Op == token.EQL && (c.is(b.X, sc, "mapkey") && c.is(b.Y, sc, "colName") || c.is(b.X, sc, "colName") && c.is(b.Y, sc, "mapkey")):
				return lh("SR.ifNameIsColName", then(), k())
			}
		}
	case *ast.AssignStmt:
		if t := c.assign(s, rest, sc); t != nil {
			return t
		}
	case *ast.ReturnStmt:
		if len(rest) != 0 || len(s.Results) != 3 || !c.is(s.Results[1], sc, "colNames") {
			return srop(s)
		}
		switch {
		case isNilIdent(s.Results[0]) && nilOk && jErrCall(s.Results[2], sc.bound, c.imports):
			return lh("SR.retErr")
		case c.is(s.Results[0], sc, "result") && isNilIdent(s.Results[2]) && nilOk:
			return lh("SR.retResult")
		}
	}
	return srop(st)
}

// what a statement bound before a loop cannot be referred to inside it (the loop variables are only bound by their loops,
// which do not nest with a loop of the same kind; `names` is bound at most once in a scope)
func (c *qctx) enterLoop() {
	for _, k := range []string{"col", "fn", "ok"} {
		c.gens[k]++
	}
}

func (c *qctx) rangeStmt(s *ast.RangeStmt, rest []ast.Stmt, sc *jscope) *lt {
	if s.Tok != token.DEFINE {
		return nil
	}
	ident := func(e ast.Expr) (string, bool) {
		if e == nil {
			return "_", true
		}
		id, ok := e.(*ast.Ident)
		if !ok {
			return "", false
		}
		return id.Name, true
	}
	key, ok1 := ident(s.Key)
	val, ok2 := ident(s.Value)
	if !ok1 || !ok2 {
		return nil
	}
	loop := func(ctor, kindKey, kindVal string) *lt {
		c.enterLoop()
		inner := sc.push()
		if kindKey != "" {
			inner.def(key, &jv{kind: kindKey, gen: c.bind(kindKey)})
		}
		if kindVal != "" {
			inner.def(val, &jv{kind: kindVal, gen: c.bind(kindVal)})
		}
		body := c.block(s.Body.List, inner.push())
		c.enterLoop()
		return lh(ctor, body, c.block(rest, sc))
	}
	switch {
	case c.is(s.X, sc, "names") && key == "_" && val != "_" && !sc.hasKind("name") && !sc.hasKind("mapkey"):
		return loop("SR.rangeNames", "", "name")
	case c.confField(s.X, sc, c.cfgMap) && key != "_" && val == "_" && !sc.hasKind("name") && !sc.hasKind("mapkey"):
		return loop("SR.rangeCoerceKeys", "mapkey", "")
	case c.is(s.X, sc, "colNames") && key == "_" && val != "_" && !sc.hasKind("colName") && sc.hasKind("mapkey"):
		return loop("SR.rangeColNames", "", "colName")
	case c.is(s.X, sc, "columns") && key != "_" && val != "_" && key != val && !sc.hasKind("idx") && !sc.hasKind("row"):
		return loop("SR.rangeColumns", "idx", "column")
	}
	return nil
}

func (c *qctx) assign(s *ast.AssignStmt, rest []ast.Stmt, sc *jscope) *lt {
	if len(s.Rhs) != 1 {
		return nil
	}
	rhs := unparen(s.Rhs[0])
	names := make([]string, len(s.Lhs))
	for i, l := range s.Lhs {
		if id, ok := l.(*ast.Ident); ok {
			names[i] = id.Name
		}
	}
	k := func() *lt { return c.block(rest, sc) }
	switch {
	case s.Tok == token.DEFINE && len(names) == 2 && names[0] != "" && names[1] != "" && names[0] != names[1]:
		// names, err := rows.Columns(); if err != nil { … }
		if call, ok := c.rowsCall(rhs, sc, "Columns"); ok && len(call.Args) == 0 && len(rest) > 0 && names[0] != "_" && !sc.hasKind("names") {
			body, ok := errTest(rest[0], names[1], sc)
			if !ok {
				return nil
			}
			inner := sc.push()
			inner.def(names[1], &jv{kind: "err"})
			onErr := c.block(body, inner.push())
			sc.def(names[0], &jv{kind: "names", gen: c.bind("names")})
			sc.def(names[1], &jv{kind: "err"})
			return lh("SR.getColumns", onErr, c.block(rest[1:], sc))
		}
		// fn, ok := conf.CoerceMap[name]
		if ix, ok := rhs.(*ast.IndexExpr); ok && c.confField(ix.X, sc, c.cfgMap) && c.is(ix.Index, sc, "name") && names[0] != "_" && names[1] != "_" {
			sc.def(names[0], &jv{kind: "fn", gen: c.bind("fn")})
			sc.def(names[1], &jv{kind: "ok", gen: c.bind("ok")})
			return lh("SR.lookupCoerce", k())
		}
	case s.Tok == token.DEFINE && len(names) == 1 && names[0] != "" && names[0] != "_":
		switch r := rhs.(type) {
		case *ast.UnaryExpr:
			// col := &Column{precision: conf.Precision}
			cl, ok := r.X.(*ast.CompositeLit)
			if r.Op != token.AND || !ok || !isIdent(cl.Type, c.recv) || sc.bound(c.recv) || len(cl.Elts) != 1 {
				return nil
			}
			kv, ok := cl.Elts[0].(*ast.KeyValueExpr)
			if !ok || !isIdent(kv.Key, c.fPrec) || !c.confField(kv.Value, sc, c.cfgPrec) {
				return nil
			}
			sc.def(names[0], &jv{kind: "col", gen: c.bind("col")})
			return lh("SR.newColumn", k())
		case *ast.CallExpr:
			// err := rows.Scan(columns...); if err != nil { … }
			if call, ok := c.rowsCall(rhs, sc, "Scan"); ok && len(call.Args) == 1 && call.Ellipsis.IsValid() && c.is(call.Args[0], sc, "columns") && len(rest) > 0 && sc.hasKind("row") {
				body, ok := errTest(rest[0], names[0], sc)
				if !ok {
					return nil
				}
				inner := sc.push()
				inner.def(names[0], &jv{kind: "err"})
				onErr := c.block(body, inner.push())
				sc.def(names[0], &jv{kind: "err"})
				return lh("SR.scanRow", onErr, c.block(rest[1:], sc))
			}
		case *ast.CompositeLit:
			// result := map[string]X{}
			if r.Type != nil && src(r.Type) == "map[string]"+c.valType && len(r.Elts) == 0 && !sc.hasKind("result") && !sc.bound("string") {
				sc.def(names[0], &jv{kind: "result", gen: c.bind("result")})
				return lh("SR.newResult", k())
			}
		}
	case s.Tok == token.ASSIGN && len(s.Lhs) == 1:
		switch l := unparen(s.Lhs[0]).(type) {
		case *ast.SelectorExpr:
			// col.coerce = fn(col)
			call, ok := rhs.(*ast.CallExpr)
			if ok && l.Sel.Name == c.fCoerce && c.is(l.X, sc, "col") && len(call.Args) == 1 && !call.Ellipsis.IsValid() && c.is(call.Fun, sc, "fn") && c.is(call.Args[0], sc, "col") {
				return lh("SR.setCoerce", k())
			}
		case *ast.Ident:
			switch {
			case c.is(l, sc, "columns"):
				// columns = append(columns, col)
				call, ok := rhs.(*ast.CallExpr)
				if ok && isIdent(call.Fun, "append") && !sc.bound("append") && len(call.Args) == 2 && !call.Ellipsis.IsValid() && c.is(call.Args[0], sc, "columns") && c.is(call.Args[1], sc, "col") {
					return lh("SR.appendColumn", k())
				}
			case c.is(l, sc, "colNames") && c.is(rhs, sc, "names"):
				return lh("SR.setColNames", k())
			}
		case *ast.IndexExpr:
			// result[colNames[i]] = column.(*Column).Data()
			inner, ok := unparen(l.Index).(*ast.IndexExpr)
			if !ok || !c.is(l.X, sc, "result") || !c.is(inner.X, sc, "colNames") || !c.is(inner.Index, sc, "idx") {
				return nil
			}
			call, ok := rhs.(*ast.CallExpr)
			if !ok || len(call.Args) != 0 {
				return nil
			}
			sel, ok := call.Fun.(*ast.SelectorExpr)
			if !ok || sel.Sel.Name != c.dataMeth || c.dataMeth == "" {
				return nil
			}
			ta, ok := unparen(sel.X).(*ast.TypeAssertExpr)
			if !ok || ta.Type == nil || src(ta.Type) != "*"+c.recv || sc.bound(c.recv) || !c.is(ta.X, sc, "column") {
				return nil
			}
			return lh("SR.setResult", k())
		}
	}
	return nil
}

// readSqlLean writes QF/Gen/ReadSql.lean.
func readSqlLean(repo string) string {
	var b strings.Builder
	b.WriteString("/- GENERATED on every run by /verif/go/cmd/extract from /repo's source (tie T1). Do not edit. -/\nimport QF.Core.SRExpr\nnamespace QF.Gen\n\n")
	files := parseDir(filepath.Join(repo, "internal", "io", "sql"))
	s := &sctx{repo: repo, files: files, fns: funcDecls(files), imports: importsOf(files)}
	var t *lt
	if msg := s.scan(); msg != "" {
		t = ls("SR.opaque", msg)
	} else {
		c := &qctx{sctx: s, gens: map[string]int{}}
		if msg := c.find(); msg != "" {
			t = ls("SR.opaque", msg)
		} else {
			sc := &jscope{vars: map[string]*jv{}}
			pn := paramNames(c.fd)
			sc.def(pn[0], &jv{kind: "rows"})
			sc.def(pn[1], &jv{kind: "conf"})
			if len(sc.vars) != 2 {
				t = ls("SR.opaque", "parameters are not distinct names")
			} else {
				t = c.block(c.fd.Body.List, sc.push())
			}
		}
	}
	b.WriteString("/-- the function (*sql.Rows, <config>) (map[string]X, []string, error) of internal/io/sql (`ReadSQL`) -/\n")
	b.WriteString("def readSqlAst : SR :=\n  " + t.lean() + "\n")
	b.WriteString("\nend QF.Gen\n")
	return b.String()
}
