package main

// Translation go/ast → DE (lean/QF/Core/DExpr.lean) of the filter DISPATCH of the five column packages:
//
//	func (c Column) filterBuiltIn(index index.Int, comparator string, comparatee interface{}, bIndex index.Bool) error
//	func (c Column) Filter(index index.Int, comparator interface{}, comparatee interface{}, bIndex index.Bool) error
//	func (c Column) filterCustom1(index index.Int, fn func(T) bool, bIndex index.Bool)
//	func (c Column) filterCustom2(index index.Int, fn func(T, T) bool, comparatee interface{}, bIndex index.Bool) error
//
// and of ecolumn's `equalTypes` (→ QStep).
//
// Method: SYMBOLIC EXECUTION of the body, once for every kind of comparatee (int, float64, bool, string, []int,
// []string, a Column of the package, nil, anything else) and every kind of comparator (string, func(T) bool,
// func(T, T) bool, anything else). With the kind fixed, type assertions, type switches and `== nil` tests on the
// comparatee are decided at translation time, and the helpers that only inspect and convert it (`intComp`,
// `newIntSet`, `qfstrings.InterfaceSliceToStringSlice`, `qfstrings.NewStringSet`: any function without the mask whose
// control flow is decided by the kind) are executed on the symbolic value. What remains are the decisions that depend
// on the run-time values: the table look-up `f, ok := table[comparator]` (→ lookup), `math.IsNaN(const)` (→ ifNaN),
// the search of the constant in the value table (→ enumSearch), the bool field of the column struct (→ ifStrict),
// `comparator == "…"` (→ ifOpIs), the bool helper on (receiver, comparatee column) (→ ifEqualTypes), and the effects:
// the call of the function found (→ callKernel / callBitset), the loop that sets every mask entry (→ fillAllTrue), the
// function's own mask loop (→ ownLoop), the calls of the other entry points (→ callEntry), error returns (→ err).
// The nine (four) results are put under one `typeSwitch` (`cmpSwitch`) unless they are all equal.
//
// The translation is by ROLE, never by identifier name. Parameters get their role from type and position (index.Int →
// the index, index.Bool → the mask, `string` → the comparator string, the `interface{}` parameters → comparator (if
// there are two) and comparatee, a func → the predicate), fields of the column struct from their types (`[]string` →
// the value table, `bool` → the strict flag, kast.go's cellField → the cells), locals from their declarations, the
// entry points from their signatures. Whatever is not understood becomes `.opaque "<text>"`; such a term has no meaning
// (`DRes.stuck`) and the proofs of QF/Props/C02Dispatch.lean fail on it.

import (
	"fmt"
	"go/ast"
	"go/token"
	"sort"
	"strconv"
	"strings"
)

// dv is a symbolic value.
type dv struct {
	kind string
	// arg      the comparatee as passed in (an interface value of the kind under execution)
	// typed    the comparatee asserted to its dynamic type; conv: the conversion applied since
	// elem     an element of the comparatee slice (the variable of a loop over it); conv
	// newset   a fresh map (make(…)); set: a map holding exactly the elements of the comparatee slice; conv: of the elements
	// col2 / col2data   the comparatee as a Column of the package / its cells
	// recv / recvdata / values / strict   the receiver / its cells / its value table / its bool field
	// index / mask / op   the index, the mask, the comparator string
	// cmp / cmpstr / pred   the comparator as passed in / asserted to string / asserted to a func
	// bool     a bool known at translation time (b)
	// hit      `ok` of a table look-up (s: the table); fn: the entry found (s: the table)
	// nan / eqtypes / opis   run-time conditions (opis: s = the comparator string compared with)
	// berr     the error result of a bitset builder; bset: its bitset (role, checked)
	// err      an error variable: s = nil | new (tag) | call (node)
	// loopidx / loopval / enumidx   index and value of the loop over the value table, enumVal(index)
	// nil / lit / strlit / zero / opaque
	s       string
	tag     string
	conv    string
	role    string
	b       bool
	checked bool
	node    *lt
}

// dscope is a chain of block scopes.
type dscope struct {
	vars   map[string]*dv
	parent *dscope
}

func newScope() *dscope { return &dscope{vars: map[string]*dv{}} }

func (s *dscope) push() *dscope { return &dscope{vars: map[string]*dv{}, parent: s} }

func (s *dscope) get(n string) (*dv, bool) {
	for f := s; f != nil; f = f.parent {
		if v, ok := f.vars[n]; ok {
			return v, true
		}
	}
	return nil, false
}

// def declares n in the innermost block (`:=`, `var`)
func (s *dscope) def(n string, v *dv) { s.vars[n] = v }

// set assigns to the variable n where it was declared (`=`)
func (s *dscope) set(n string, v *dv) bool {
	for f := s; f != nil; f = f.parent {
		if _, ok := f.vars[n]; ok {
			f.vars[n] = v
			return true
		}
	}
	return false
}

func (s *dscope) each(fn func(*dv)) {
	for f := s; f != nil; f = f.parent {
		for _, v := range f.vars {
			fn(v)
		}
	}
}

// clone copies the whole chain (the two branches of a run-time decision must not see each other's bindings)
func (s *dscope) clone() *dscope {
	if s == nil {
		return nil
	}
	r := &dscope{vars: map[string]*dv{}, parent: s.parent.clone()}
	for k, v := range s.vars {
		c := *v
		r.vars[k] = &c
	}
	return r
}

var dOpaque = &dv{kind: "opaque"}

type dctx struct {
	pkg      string
	fns      map[string]*ast.FuncDecl
	strFns   map[string]*ast.FuncDecl // functions of internal/strings
	strAlias map[string]bool          // import names of internal/strings in this package
	fconsts  map[string]string        // string constants of package filter
	fAlias   map[string]bool          // import names of package filter
	errAlias map[string]bool          // import names of qerrors, errors, fmt
	tables   map[string]bool          // comparator tables of the package
	kind     string                   // kind of the comparatee under execution
	ckind    string                   // kind of the comparator under execution
	values   string                   // field of Column of type []string
	strict   string                   // field of Column of type bool
	self     string                   // the function being translated
	eqFns    map[string]bool          // bool helpers on two Columns that were called as conditions
}

var dKinds = []string{"int", "float64", "bool", "string", "[]int", "[]string", "Column", "nil", "other"}
var dCKinds = []string{"string", "fn1", "fn2", "other"}

// element type of the package's cells as the user's predicates see them
var pkgElem = map[string]string{"icolumn": "int", "fcolumn": "float64", "bcolumn": "bool", "scolumn": "*string", "ecolumn": "*string"}

func dop(n ast.Node) *lt   { return ls("DE.opaque", src(n)) }
func dopText(s string) *lt { return ls("DE.opaque", s) }
func dbool(b bool) *lt     { return lh(strconv.FormatBool(b)) }
func drole(r string) *lt   { return lh("DRole." + r) }
func derr(tag string) *lt  { return ls("DE.err", tag) }
func dnothing() *lt        { return lh("DE.nothing") }
func dstr(h, s string, a ...*lt) *lt {
	return &lt{head: h, str: &s, args: a}
}

// does a type expression of a type assertion / type switch case match the kind?
func (c *dctx) typeMatches(t ast.Expr, kind string) bool {
	if t == nil {
		return false
	}
	s := src(t)
	switch kind {
	case "int", "float64", "bool", "string", "[]int", "[]string", "Column":
		return s == kind
	case "nil":
		return s == "nil"
	case "fn1", "fn2":
		ft, ok := t.(*ast.FuncType)
		if !ok || ft.Params == nil || ft.Results == nil || len(ft.Results.List) != 1 || src(ft.Results.List[0].Type) != "bool" {
			return false
		}
		n := 0
		for _, p := range ft.Params.List {
			if src(p.Type) != pkgElem[c.pkg] {
				return false
			}
			if len(p.Names) == 0 {
				n++
			} else {
				n += len(p.Names)
			}
		}
		return (kind == "fn1" && n == 1) || (kind == "fn2" && n == 2)
	}
	return false
}

// x.(T) for a symbolic x: (value, ok, known)
func (c *dctx) assert(x *dv, t ast.Expr) (*dv, bool, bool) {
	switch x.kind {
	case "arg":
		if c.typeMatches(t, c.kind) {
			if c.kind == "Column" {
				return &dv{kind: "col2"}, true, true
			}
			return &dv{kind: "typed"}, true, true
		}
		return &dv{kind: "zero"}, false, true
	case "cmp":
		if c.typeMatches(t, c.ckind) {
			if c.ckind == "string" {
				return &dv{kind: "cmpstr"}, true, true
			}
			return &dv{kind: "pred"}, true, true
		}
		return &dv{kind: "zero"}, false, true
	}
	return dOpaque, false, false
}

func (c *dctx) unboundPkg(e ast.Expr, sc *dscope, names map[string]bool) bool {
	id, ok := e.(*ast.Ident)
	if !ok {
		return false
	}
	if _, bound := sc.get(id.Name); bound {
		return false
	}
	return names == nil || names[id.Name]
}

// a call that constructs a non-nil error: pkg.New / pkg.Propagate / pkg.Errorf of a package that is not bound locally
func (c *dctx) errCall(e ast.Expr, sc *dscope) (string, bool) {
	call, ok := e.(*ast.CallExpr)
	if !ok {
		return "", false
	}
	sel, ok := call.Fun.(*ast.SelectorExpr)
	if !ok || !c.unboundPkg(sel.X, sc, c.errAlias) {
		return "", false
	}
	switch sel.Sel.Name {
	case "New", "Propagate", "Errorf":
	default:
		return "", false
	}
	var lits []string
	for _, a := range call.Args {
		if bl, ok := a.(*ast.BasicLit); ok && bl.Kind == token.STRING {
			if v, err := strconv.Unquote(bl.Value); err == nil {
				lits = append(lits, v)
			}
		}
	}
	return strings.Join(lits, ": "), true
}

func (c *dctx) evalN(e ast.Expr, sc *dscope, depth int) []*dv {
	if call, ok := unparen(e).(*ast.CallExpr); ok {
		return c.call(call, sc, depth)
	}
	return []*dv{c.eval(e, sc, depth)}
}

func (c *dctx) eval(e ast.Expr, sc *dscope, depth int) *dv {
	switch t := e.(type) {
	case *ast.ParenExpr:
		return c.eval(t.X, sc, depth)
	case *ast.Ident:
		if v, ok := sc.get(t.Name); ok {
			return v
		}
		switch t.Name {
		case "nil":
			return &dv{kind: "nil"}
		case "true":
			return &dv{kind: "bool", b: true}
		case "false":
			return &dv{kind: "bool", b: false}
		}
		if c.tables[t.Name] {
			return &dv{kind: "table", s: t.Name}
		}
		return dOpaque
	case *ast.BasicLit:
		if t.Kind == token.STRING {
			if v, err := strconv.Unquote(t.Value); err == nil {
				return &dv{kind: "strlit", s: v}
			}
		}
		if t.Kind == token.INT {
			return &dv{kind: "lit", s: t.Value}
		}
		return dOpaque
	case *ast.CompositeLit:
		if src(t) == "struct{}{}" {
			return &dv{kind: "unit"}
		}
		return dOpaque
	case *ast.SelectorExpr:
		if c.unboundPkg(t.X, sc, c.fAlias) {
			if v, ok := c.fconsts[t.Sel.Name]; ok {
				return &dv{kind: "strlit", s: v}
			}
			return dOpaque
		}
		x := c.eval(t.X, sc, depth)
		switch x.kind {
		case "recv":
			switch {
			case t.Sel.Name == cellField[c.pkg]:
				return &dv{kind: "recvdata"}
			case t.Sel.Name == c.values && c.values != "":
				return &dv{kind: "values"}
			case t.Sel.Name == c.strict && c.strict != "":
				return &dv{kind: "strict"}
			}
		case "col2":
			if t.Sel.Name == cellField[c.pkg] {
				return &dv{kind: "col2data"}
			}
		}
		return dOpaque
	case *ast.UnaryExpr:
		if t.Op == token.NOT {
			x := c.eval(t.X, sc, depth)
			if x.kind == "bool" {
				return &dv{kind: "bool", b: !x.b}
			}
			return dOpaque // run-time conditions are negated by the if statement that tests them
		}
		return dOpaque
	case *ast.TypeAssertExpr:
		if t.Type == nil {
			return dOpaque
		}
		v, ok, known := c.assert(c.eval(t.X, sc, depth), t.Type)
		if known && ok {
			return v
		}
		return dOpaque // the single-value form panics on a mismatch
	case *ast.IndexExpr:
		x, ix := c.eval(t.X, sc, depth), c.eval(t.Index, sc, depth)
		if x.kind == "table" && ix.kind == "op" {
			return &dv{kind: "fn", s: x.s}
		}
		return dOpaque
	case *ast.BinaryExpr:
		return c.binary(t, sc, depth)
	case *ast.CallExpr:
		r := c.call(t, sc, depth)
		if len(r) == 1 {
			return r[0]
		}
		return dOpaque
	}
	return dOpaque
}

func (c *dctx) binary(t *ast.BinaryExpr, sc *dscope, depth int) *dv {
	if t.Op != token.EQL && t.Op != token.NEQ {
		return dOpaque
	}
	x, y := c.eval(t.X, sc, depth), c.eval(t.Y, sc, depth)
	neg := t.Op == token.NEQ
	stat := func(b bool) *dv { return &dv{kind: "bool", b: b != neg} }
	for i := 0; i < 2; i++ {
		switch {
		case x.kind == "arg" && y.kind == "nil":
			return stat(c.kind == "nil")
		case x.kind == "op" && y.kind == "strlit":
			return &dv{kind: "opis", s: y.s, b: neg}
		case x.kind == "berr" && y.kind == "nil":
			// err != nil: b = "true when the builder failed"
			return &dv{kind: "berrtest", b: neg, s: x.s}
		case x.kind == "loopval" && y.kind == "typed" && y.conv == "" && c.kind == "string" && !neg:
			return &dv{kind: "found"}
		}
		x, y = y, x
	}
	return dOpaque
}

// the roles of the parameters of a function of the package, from types and positions
func (c *dctx) paramScope(fd *ast.FuncDecl) *dscope {
	sc := newScope()
	if fd.Recv != nil && len(fd.Recv.List) == 1 && strings.TrimPrefix(src(fd.Recv.List[0].Type), "*") == "Column" {
		for _, n := range fd.Recv.List[0].Names {
			sc.def(n.Name, &dv{kind: "recv"})
		}
	}
	if fd.Type.Params == nil {
		return sc
	}
	ifaces := 0
	for _, par := range fd.Type.Params.List {
		if src(par.Type) == "interface{}" || src(par.Type) == "any" {
			ifaces += len(par.Names)
		}
	}
	seen := 0
	for _, par := range fd.Type.Params.List {
		ty := src(par.Type)
		for _, nm := range par.Names {
			var v *dv
			_, isFunc := par.Type.(*ast.FuncType)
			switch {
			case ty == "index.Int":
				v = &dv{kind: "index"}
			case ty == "index.Bool":
				v = &dv{kind: "mask"}
			case ty == "string":
				v = &dv{kind: "op"}
			case isFunc:
				v = &dv{kind: "pred"}
			case ty == "interface{}" || ty == "any":
				if ifaces == 2 && seen == 0 {
					v = &dv{kind: "cmp"}
				} else {
					v = &dv{kind: "arg"}
				}
				seen++
			default:
				v = dOpaque
			}
			if nm.Name != "_" {
				sc.def(nm.Name, v)
			}
		}
	}
	return sc
}

// ---------------------------------------------------------------------------------------------------------------
// helpers executed on symbolic values: every condition must be decided by the kind

type vres struct {
	vals []*dv
	done bool
	bad  bool
}

// callValue executes a function that does not take the mask.
func (c *dctx) callValue(fd *ast.FuncDecl, fns map[string]*ast.FuncDecl, recv *dv, args []*dv, depth int) []*dv {
	nres := 0
	if fd.Type.Results != nil {
		for _, r := range fd.Type.Results.List {
			if len(r.Names) == 0 {
				nres++
			} else {
				nres += len(r.Names)
			}
		}
	}
	bad := make([]*dv, nres)
	for i := range bad {
		bad[i] = dOpaque
	}
	if depth > 4 || hasMaskParam(fd) {
		return bad
	}
	sc := newScope()
	if fd.Recv != nil && len(fd.Recv.List) == 1 {
		for _, n := range fd.Recv.List[0].Names {
			sc.def(n.Name, recv)
		}
	}
	names := paramNames(fd)
	if len(names) != len(args) {
		return bad
	}
	for i, n := range names {
		if n != "_" {
			sc.def(n, args[i])
		}
	}
	sub := *c
	sub.fns = fns
	r := sub.vexec(fd.Body.List, sc, depth)
	if r.bad || !r.done || len(r.vals) != nres {
		return bad
	}
	return r.vals
}

func (c *dctx) vexec(stmts []ast.Stmt, outer *dscope, depth int) vres {
	sc := outer.push()
	for _, st := range stmts {
		r := c.vstmt(st, sc, depth)
		if r.bad || r.done {
			return r
		}
	}
	return vres{}
}

func (c *dctx) vstmt(st ast.Stmt, sc *dscope, depth int) vres {
	bad := vres{bad: true}
	switch s := st.(type) {
	case *ast.ReturnStmt:
		var vals []*dv
		for _, r := range s.Results {
			vals = append(vals, c.evalN(r, sc, depth)...)
		}
		return vres{vals: vals, done: true}
	case *ast.DeclStmt:
		if !c.declare(s, sc) {
			return bad
		}
		return vres{}
	case *ast.AssignStmt:
		if !c.assign(s, sc, depth) {
			return bad
		}
		return vres{}
	case *ast.ExprStmt:
		// result.Add(s): a method that inserts its argument
		call, ok := s.X.(*ast.CallExpr)
		if !ok {
			return bad
		}
		r := c.call(call, sc, depth)
		if len(r) != 0 {
			return bad
		}
		return vres{}
	case *ast.IfStmt:
		if s.Init != nil {
			sc = sc.push()
			if r := c.vstmt(s.Init, sc, depth); r.bad {
				return bad
			}
		}
		cond := c.eval(s.Cond, sc, depth)
		if cond.kind != "bool" {
			return bad
		}
		if cond.b {
			return c.vexec(s.Body.List, sc, depth)
		}
		switch e := s.Else.(type) {
		case nil:
			return vres{}
		case *ast.BlockStmt:
			return c.vexec(e.List, sc, depth)
		case *ast.IfStmt:
			return c.vstmt(e, sc, depth)
		}
		return bad
	case *ast.TypeSwitchStmt:
		inner := sc.push()
		body, ok := c.typeSwitch(s, inner, depth)
		if !ok {
			return bad
		}
		return c.vexec(body, inner, depth)
	case *ast.RangeStmt:
		// for _, v := range <typed slice> { <set>[<v | int(v) | float64(v)>] = struct{}{} }  |  { <set>.Add(v) }
		x := c.eval(s.X, sc, depth)
		if x.kind != "typed" || x.conv != "" || (c.kind != "[]int" && c.kind != "[]string") || s.Tok != token.DEFINE {
			return bad
		}
		if k, ok := s.Key.(*ast.Ident); !ok || k.Name != "_" {
			return bad
		}
		v, ok := s.Value.(*ast.Ident)
		if !ok || len(s.Body.List) != 1 {
			return bad
		}
		inner := sc.push()
		inner.def(v.Name, &dv{kind: "elem"})
		r := c.vstmt(s.Body.List[0], inner, depth)
		if r.bad || r.done {
			return bad
		}
		// the body must have turned exactly one fresh map into "one element inserted"; the loop makes it the full set
		n := 0
		seen := map[*dv]bool{}
		sc.each(func(w *dv) {
			if w.kind == "set1" && !seen[w] {
				seen[w] = true
				w.kind = "set"
				n++
			}
		})
		if n != 1 {
			return bad
		}
		return vres{}
	}
	return bad
}

func (c *dctx) declare(s *ast.DeclStmt, sc *dscope) bool {
	gd, ok := s.Decl.(*ast.GenDecl)
	if !ok || gd.Tok != token.VAR {
		return false
	}
	for _, sp := range gd.Specs {
		vs, ok := sp.(*ast.ValueSpec)
		if !ok || len(vs.Values) != 0 || vs.Type == nil {
			return false
		}
		for _, n := range vs.Names {
			switch src(vs.Type) {
			case "bool":
				sc.def(n.Name, &dv{kind: "bool", b: false})
			case "error":
				sc.def(n.Name, &dv{kind: "err", s: "nil"})
			default:
				sc.def(n.Name, &dv{kind: "zero"})
			}
		}
	}
	return true
}

// the clause of a type switch on the comparatee / the comparator that the kind selects; binds the switch variable
func (c *dctx) typeSwitch(s *ast.TypeSwitchStmt, sc *dscope, depth int) ([]ast.Stmt, bool) {
	if s.Init != nil {
		return nil, false
	}
	var bind string
	var x ast.Expr
	switch a := s.Assign.(type) {
	case *ast.AssignStmt:
		if len(a.Lhs) != 1 || len(a.Rhs) != 1 || a.Tok != token.DEFINE {
			return nil, false
		}
		bind = a.Lhs[0].(*ast.Ident).Name
		x = a.Rhs[0]
	case *ast.ExprStmt:
		x = a.X
	default:
		return nil, false
	}
	ta, ok := x.(*ast.TypeAssertExpr)
	if !ok || ta.Type != nil {
		return nil, false
	}
	subject := c.eval(ta.X, sc, depth)
	kind := ""
	switch subject.kind {
	case "arg":
		kind = c.kind
	case "cmp":
		kind = c.ckind
	default:
		return nil, false
	}
	var deflt *ast.CaseClause
	for _, cl := range s.Body.List {
		cc := cl.(*ast.CaseClause)
		if cc.List == nil {
			deflt = cc
			continue
		}
		for _, t := range cc.List {
			if c.typeMatches(t, kind) {
				if bind != "" && bind != "_" {
					if len(cc.List) == 1 {
						v, _, _ := c.assert(subject, t)
						sc.def(bind, v)
					} else {
						sc.def(bind, subject)
					}
				}
				return cc.Body, true
			}
		}
	}
	if deflt != nil {
		if bind != "" && bind != "_" {
			sc.def(bind, subject)
		}
		return deflt.Body, true
	}
	return nil, true
}

// x := e · x, ok := e.(T) · x, ok := table[comparator] · x, y := f(…) · x = e · a, b = e1, e2 · set[k] = struct{}{}
func (c *dctx) assign(as *ast.AssignStmt, sc *dscope, depth int) bool {
	if as.Tok != token.DEFINE && as.Tok != token.ASSIGN {
		return false
	}
	// set[k] = struct{}{}
	if len(as.Lhs) == 1 && len(as.Rhs) == 1 && as.Tok == token.ASSIGN {
		if ix, ok := as.Lhs[0].(*ast.IndexExpr); ok {
			m, k, v := c.eval(ix.X, sc, depth), c.eval(ix.Index, sc, depth), c.eval(as.Rhs[0], sc, depth)
			if m.kind == "newset" && k.kind == "elem" && v.kind == "unit" {
				m.kind, m.conv = "set1", k.conv
				return true
			}
			return false
		}
	}
	var vals []*dv
	switch {
	case len(as.Rhs) == len(as.Lhs):
		for _, r := range as.Rhs {
			vals = append(vals, c.eval(r, sc, depth))
		}
	case len(as.Rhs) == 1 && len(as.Lhs) == 2:
		switch r := unparen(as.Rhs[0]).(type) {
		case *ast.TypeAssertExpr:
			if r.Type == nil {
				return false
			}
			v, ok, known := c.assert(c.eval(r.X, sc, depth), r.Type)
			if !known {
				return false
			}
			vals = []*dv{v, {kind: "bool", b: ok}}
		case *ast.IndexExpr:
			f := c.eval(r, sc, depth)
			if f.kind != "fn" {
				return false
			}
			vals = []*dv{f, {kind: "hit", s: f.s}}
		case *ast.CallExpr:
			vals = c.call(r, sc, depth)
			if len(vals) != 2 {
				return false
			}
		default:
			return false
		}
	default:
		return false
	}
	for i, l := range as.Lhs {
		id, ok := l.(*ast.Ident)
		if !ok {
			return false
		}
		if id.Name == "_" {
			continue
		}
		v := vals[i]
		if v.kind != "newset" && v.kind != "set" && v.kind != "set1" { // maps are references, everything else is copied
			cp := *v
			v = &cp
		}
		if as.Tok == token.ASSIGN {
			if !sc.set(id.Name, v) {
				return false
			}
		} else {
			sc.def(id.Name, v)
		}
	}
	return true
}

func (c *dctx) call(t *ast.CallExpr, sc *dscope, depth int) []*dv {
	one := func(v *dv) []*dv { return []*dv{v} }
	switch f := t.Fun.(type) {
	case *ast.Ident:
		if _, bound := sc.get(f.Name); bound {
			return one(dOpaque)
		}
		switch f.Name {
		case "int", "float64":
			if len(t.Args) != 1 {
				return one(dOpaque)
			}
			x := c.eval(t.Args[0], sc, depth)
			if (x.kind != "typed" && x.kind != "elem") || x.conv != "" {
				return one(dOpaque)
			}
			elemKind := map[string]string{"int": "int", "float64": "float64", "[]int": "int", "[]float64": "float64"}[c.kind]
			if x.kind == "typed" && (c.kind == "[]int" || c.kind == "[]float64") {
				return one(dOpaque)
			}
			cp := *x
			switch {
			case f.Name == elemKind:
			case f.Name == "int" && elemKind == "float64":
				cp.conv = "floatToInt"
			case f.Name == "float64" && elemKind == "int":
				cp.conv = "intToFloat"
			default:
				return one(dOpaque)
			}
			return one(&cp)
		case "enumVal":
			if len(t.Args) == 1 && c.pkg == "ecolumn" {
				if x := c.eval(t.Args[0], sc, depth); x.kind == "loopidx" {
					return one(&dv{kind: "enumidx"})
				}
			}
			return one(dOpaque)
		case "len":
			return one(&dv{kind: "len"})
		case "make":
			if len(t.Args) >= 1 {
				if _, isArr := t.Args[0].(*ast.ArrayType); !isArr {
					return one(&dv{kind: "newset"})
				}
			}
			return one(dOpaque)
		}
		if fd, ok := c.fns[f.Name]; ok && fd.Recv == nil {
			args := make([]*dv, len(t.Args))
			for i, a := range t.Args {
				args[i] = c.eval(a, sc, depth)
			}
			// a bool helper on (receiver, comparatee column): translated separately (→ QStep)
			if len(args) == 2 && args[0].kind == "recv" && args[1].kind == "col2" && returnsOnly(fd, "bool") {
				c.eqFns[f.Name] = true
				return one(&dv{kind: "eqtypes"})
			}
			return c.callValue(fd, c.fns, nil, args, depth+1)
		}
		return one(dOpaque)
	case *ast.SelectorExpr:
		if c.unboundPkg(f.X, sc, nil) {
			id := f.X.(*ast.Ident)
			if id.Name == "math" && f.Sel.Name == "IsNaN" && len(t.Args) == 1 {
				if x := c.eval(t.Args[0], sc, depth); x.kind == "typed" && x.conv == "" && c.kind == "float64" {
					return one(&dv{kind: "nan"})
				}
				return one(dOpaque)
			}
			if c.strAlias[id.Name] {
				if fd, ok := c.strFns[f.Sel.Name]; ok && fd.Recv == nil {
					args := make([]*dv, len(t.Args))
					for i, a := range t.Args {
						args[i] = c.eval(a, sc, depth)
					}
					return c.callValue(fd, c.strFns, nil, args, depth+1)
				}
			}
			if tag, ok := c.errCall(t, sc); ok {
				return one(&dv{kind: "err", s: "new", tag: tag})
			}
			return one(dOpaque)
		}
		// a method of a fresh set that inserts its argument (StringSet.Add)
		recv := c.eval(f.X, sc, depth)
		if recv.kind == "newset" && len(t.Args) == 1 {
			for name, fd := range c.fns {
				if strings.HasSuffix(name, "."+f.Sel.Name) && fd.Recv != nil && len(fd.Recv.List) == 1 && len(fd.Recv.List[0].Names) == 1 {
					if fd.Type.Results != nil && len(fd.Type.Results.List) > 0 {
						continue
					}
					names := paramNames(fd)
					if len(names) != 1 {
						continue
					}
					inner := newScope()
					inner.def(fd.Recv.List[0].Names[0].Name, recv)
					inner.def(names[0], c.eval(t.Args[0], sc, depth))
					if len(fd.Body.List) == 1 {
						if as, ok := fd.Body.List[0].(*ast.AssignStmt); ok && c.assign(as, inner, depth+1) && recv.kind == "set1" {
							return nil
						}
					}
				}
			}
			recv.kind = "opaque"
		}
		return one(dOpaque)
	}
	return one(dOpaque)
}

// ---------------------------------------------------------------------------------------------------------------
// the dispatcher itself

type dexec struct {
	*dctx
	hasResult bool
	inner     []string // tables of the enclosing look-up hits, innermost last
}

// pseudo statements: the end of a loop body that must not be reached, entering / leaving a block scope
var dFallOff = &ast.BadStmt{From: 1}
var dPush = &ast.BadStmt{From: 2}
var dPop = &ast.BadStmt{From: 3}

// the statements of a block, in a scope of their own, followed by rest
func scoped(body, rest []ast.Stmt) []ast.Stmt {
	return concat(concat([]ast.Stmt{dPush}, body), concat([]ast.Stmt{dPop}, rest))
}

func (x *dexec) withInner(tab string) *dexec {
	cp := *x
	cp.inner = append(append([]string{}, x.inner...), tab)
	return &cp
}

// the effect of `return <e>` after the effect eff (nil: none so far)
func (x *dexec) ret(s *ast.ReturnStmt, sc *dscope, eff *lt) *lt {
	if len(s.Results) == 0 {
		if x.hasResult {
			return dop(s)
		}
		return finish(eff, false)
	}
	if len(s.Results) != 1 {
		return dop(s)
	}
	r := unparen(s.Results[0])
	if call, ok := r.(*ast.CallExpr); ok {
		if tag, ok := x.errCall(call, sc); ok {
			if eff != nil {
				return dop(s)
			}
			return derr(tag)
		}
		if eff != nil {
			return dop(s)
		}
		if e := x.effectCall(call, sc); e != nil {
			return finish(e, true)
		}
		return dop(s)
	}
	v := x.eval(r, sc, 0)
	switch {
	case v.kind == "nil":
		return finish(eff, false)
	case v.kind == "err" && v.s == "nil":
		return finish(eff, false)
	case v.kind == "err" && v.s == "new" && eff == nil:
		return derr(v.tag)
	case v.kind == "err" && v.s == "call" && eff != nil && v.node == eff:
		return finish(eff, true)
	}
	return dop(s)
}

// set the `ret` flag of a call node
func finish(eff *lt, returned bool) *lt {
	if eff == nil {
		return dnothing()
	}
	switch eff.head {
	case "DE.callKernel", "DE.callEntry":
		cp := *eff
		cp.args = append(append([]*lt{}, eff.args[:len(eff.args)-1]...), dbool(returned))
		return wrapConv(&cp)
	}
	return wrapConv(eff)
}

// a pending `convert` around a call node is kept in the node's list field
func wrapConv(n *lt) *lt {
	if len(n.list) == 1 {
		cp := *n
		cp.list = nil
		return lh("DE.convert", n.list[0], &cp)
	}
	return n
}

// role of a value handed to a kernel / bitset builder; conv: the conversion to wrap around the call
func (x *dexec) argRole(v *dv) (string, string, bool) {
	switch v.kind {
	case "typed":
		if x.kind == "int" || x.kind == "float64" || x.kind == "bool" || x.kind == "string" {
			return "const", v.conv, true
		}
	case "enumidx":
		return "const", "", true
	case "set":
		if v.conv == "" {
			return "set", "", true
		}
	case "col2data", "col2":
		return "col2", "", true
	}
	return "", "", false
}

// a call with an effect on the mask: the function found in a table, the bitset reader, another entry point
func (x *dexec) effectCall(call *ast.CallExpr, sc *dscope) *lt {
	args := make([]*dv, len(call.Args))
	for i, a := range call.Args {
		args[i] = x.eval(a, sc, 0)
	}
	n := len(args)
	switch f := call.Fun.(type) {
	case *ast.Ident:
		fn, ok := sc.get(f.Name)
		if !ok || fn.kind != "fn" || !fn.checked || len(x.inner) == 0 || x.inner[len(x.inner)-1] != fn.s {
			return nil
		}
		// f(index, <column>, [arg,] mask)
		if n < 3 || n > 4 || args[0].kind != "index" || (args[1].kind != "recvdata" && args[1].kind != "recv") || args[n-1].kind != "mask" {
			return nil
		}
		role, conv := "none", ""
		if n == 4 {
			var ok bool
			if role, conv, ok = x.argRole(args[2]); !ok {
				return nil
			}
		}
		node := lh("DE.callKernel", drole(role), dbool(false))
		if conv != "" {
			node.list = []*lt{lh("DConv." + conv)}
		}
		return node
	case *ast.SelectorExpr:
		if recv := x.eval(f.X, sc, 0); recv.kind != "recv" {
			return nil
		}
		name := "Column." + f.Sel.Name
		fd, ok := x.fns[name]
		if !ok || !hasMaskParam(fd) || n < 3 || args[0].kind != "index" || args[n-1].kind != "mask" {
			return nil
		}
		// c.<reader>(index, bset, mask)
		if n == 3 && args[1].kind == "bset" {
			return dstr("DE.callBitset", name, drole(args[1].role), dbool(args[1].checked))
		}
		// c.<entry>(index, <comparator>, [comparatee,] mask)
		role := entryRole(fd)
		switch {
		case role == "builtIn" && n == 4 && args[1].kind == "cmpstr" && args[2].kind == "arg":
		case role == "custom1" && n == 3 && args[1].kind == "pred" && x.ckind == "fn1":
		case role == "custom2" && n == 4 && args[1].kind == "pred" && x.ckind == "fn2" && args[2].kind == "arg":
		default:
			return nil
		}
		return dstr("DE.callEntry", role, dbool(false))
	}
	return nil
}

// the role of an entry point, from its signature
func entryRole(fd *ast.FuncDecl) string {
	if fd.Recv == nil || fd.Type.Params == nil || !hasMaskParam(fd) {
		return ""
	}
	var tys []ast.Expr
	for _, p := range fd.Type.Params.List {
		k := len(p.Names)
		if k == 0 {
			k = 1
		}
		for i := 0; i < k; i++ {
			tys = append(tys, p.Type)
		}
	}
	if len(tys) < 3 || src(tys[0]) != "index.Int" || src(tys[len(tys)-1]) != "index.Bool" {
		return ""
	}
	mid := tys[1 : len(tys)-1]
	isIface := func(e ast.Expr) bool { return src(e) == "interface{}" || src(e) == "any" }
	nparams := func(e ast.Expr) int {
		ft, ok := e.(*ast.FuncType)
		if !ok || ft.Params == nil {
			return -1
		}
		n := 0
		for _, p := range ft.Params.List {
			if len(p.Names) == 0 {
				n++
			} else {
				n += len(p.Names)
			}
		}
		return n
	}
	switch {
	case len(mid) == 2 && isIface(mid[0]) && isIface(mid[1]):
		return "filter"
	case len(mid) == 2 && src(mid[0]) == "string" && isIface(mid[1]):
		return "builtIn"
	case len(mid) == 1 && nparams(mid[0]) == 1:
		return "custom1"
	case len(mid) == 2 && nparams(mid[0]) == 2 && isIface(mid[1]):
		return "custom2"
	}
	return ""
}

func blockOf(s ast.Stmt) []ast.Stmt {
	switch e := s.(type) {
	case nil:
		return nil
	case *ast.BlockStmt:
		return e.List
	}
	return []ast.Stmt{s}
}

func concat(a, b []ast.Stmt) []ast.Stmt {
	return append(append([]ast.Stmt{}, a...), b...)
}

// exec translates the statements that remain on a path; eff is the call already made on it.
func (x *dexec) exec(stmts []ast.Stmt, sc *dscope, eff *lt) *lt {
	if len(stmts) == 0 {
		if x.hasResult {
			return dopText("missing return")
		}
		return finish(eff, false)
	}
	st, rest := stmts[0], stmts[1:]
	switch st {
	case dFallOff:
		return dopText("the loop body does not return")
	case dPush:
		return x.exec(rest, sc.push(), eff)
	case dPop:
		return x.exec(rest, sc.parent, eff)
	}
	switch s := st.(type) {
	case *ast.ReturnStmt:
		return x.ret(s, sc, eff)
	case *ast.BlockStmt:
		return x.exec(scoped(s.List, rest), sc, eff)
	case *ast.DeclStmt:
		if !x.declare(s, sc) {
			return dop(s)
		}
		return x.exec(rest, sc, eff)
	case *ast.ExprStmt:
		call, ok := s.X.(*ast.CallExpr)
		if !ok || eff != nil {
			return dop(s)
		}
		e := x.effectCall(call, sc)
		if e == nil {
			return dop(s)
		}
		return x.exec(rest, sc, e)
	case *ast.AssignStmt:
		// err = c.<entry>(…) · bset[, err] := f(<arg>, <values>)
		if len(s.Rhs) == 1 {
			if call, ok := unparen(s.Rhs[0]).(*ast.CallExpr); ok {
				if len(s.Lhs) == 1 && s.Tok == token.ASSIGN && eff == nil {
					if id, ok := s.Lhs[0].(*ast.Ident); ok {
						if old, bound := sc.get(id.Name); bound && old.kind == "err" {
							if e := x.effectCall(call, sc); e != nil {
								sc.set(id.Name, &dv{kind: "err", s: "call", node: e})
								return x.exec(rest, sc, e)
							}
							if tag, ok := x.errCall(call, sc); ok {
								sc.set(id.Name, &dv{kind: "err", s: "new", tag: tag})
								return x.exec(rest, sc, eff)
							}
						}
					}
				}
				if b := x.builder(call, sc); b != nil && s.Tok == token.DEFINE && (len(s.Lhs) == 1 || len(s.Lhs) == 2) {
					ids := make([]string, len(s.Lhs))
					for i, l := range s.Lhs {
						id, ok := l.(*ast.Ident)
						if !ok {
							return dop(s)
						}
						ids[i] = id.Name
					}
					if ids[0] == "_" {
						return dop(s)
					}
					sc.def(ids[0], b)
					if len(ids) == 2 && ids[1] != "_" {
						sc.def(ids[1], &dv{kind: "berr", s: ids[0]})
					}
					return x.exec(rest, sc, eff)
				}
			}
		}
		if !x.assign(s, sc, 0) {
			return dop(s)
		}
		return x.exec(rest, sc, eff)
	case *ast.TypeSwitchStmt:
		inner := sc.push()
		body, ok := x.typeSwitch(s, inner, 0)
		if !ok {
			return dop(s)
		}
		return x.exec(concat(body, concat([]ast.Stmt{dPop}, rest)), inner, eff)
	case *ast.IfStmt:
		return x.ifStmt(s, rest, sc, eff)
	case *ast.RangeStmt:
		return x.rangeStmt(s, rest, sc, eff)
	}
	return dop(st)
}

// bset[, err] := f(<arg>, <value table>) for the table entry f
func (x *dexec) builder(call *ast.CallExpr, sc *dscope) *dv {
	id, ok := call.Fun.(*ast.Ident)
	if !ok || len(call.Args) != 2 {
		return nil
	}
	fn, ok := sc.get(id.Name)
	if !ok || fn.kind != "fn" || !fn.checked || len(x.inner) == 0 || x.inner[len(x.inner)-1] != fn.s {
		return nil
	}
	a, v := x.eval(call.Args[0], sc, 0), x.eval(call.Args[1], sc, 0)
	if v.kind != "values" {
		return nil
	}
	role, conv, ok := x.argRole(a)
	if !ok || conv != "" || role == "col2" || a.kind == "enumidx" {
		return nil
	}
	return &dv{kind: "bset", role: role}
}

func (x *dexec) ifStmt(s *ast.IfStmt, rest []ast.Stmt, sc *dscope, eff *lt) *lt {
	if s.Init != nil {
		as, ok := s.Init.(*ast.AssignStmt)
		if !ok {
			return dop(s)
		}
		// the variables of the init statement are local to the if statement
		sc = sc.push()
		rest = concat([]ast.Stmt{dPop}, rest)
		if !x.assign(as, sc, 0) {
			return dop(s)
		}
	}
	thenB := scoped(s.Body.List, rest)
	elseB := scoped(blockOf(s.Else), rest)
	cond, neg := unparen(s.Cond), false
	for {
		u, ok := cond.(*ast.UnaryExpr)
		if !ok || u.Op != token.NOT {
			break
		}
		cond, neg = unparen(u.X), !neg
	}
	v := x.eval(cond, sc, 0)
	if neg {
		thenB, elseB = elseB, thenB
	}
	switch v.kind {
	case "bool":
		if v.b {
			return x.exec(thenB, sc, eff)
		}
		return x.exec(elseB, sc, eff)
	case "hit":
		if eff != nil {
			return dop(s)
		}
		hit := sc.clone()
		hit.each(func(w *dv) {
			if w.kind == "fn" && w.s == v.s {
				w.checked = true
			}
		})
		return dstr("DE.lookup", v.s, x.withInner(v.s).exec(thenB, hit, eff), x.exec(elseB, sc.clone(), eff))
	case "nan":
		return lh("DE.ifNaN", x.exec(thenB, sc.clone(), eff), x.exec(elseB, sc.clone(), eff))
	case "strict":
		return lh("DE.ifStrict", x.exec(thenB, sc.clone(), eff), x.exec(elseB, sc.clone(), eff))
	case "eqtypes":
		return lh("DE.ifEqualTypes", x.exec(thenB, sc.clone(), eff), x.exec(elseB, sc.clone(), eff))
	case "opis":
		if v.b {
			thenB, elseB = elseB, thenB
		}
		return dstr("DE.ifOpIs", v.s, x.exec(thenB, sc.clone(), eff), x.exec(elseB, sc.clone(), eff))
	case "berrtest":
		// if err != nil { return <error> }: recorded in the bitset (`checked`), no node of its own
		if !v.b {
			thenB, elseB = elseB, thenB
		}
		fail := x.exec(thenB, sc.clone(), eff)
		if fail.head != "DE.err" {
			return dop(s)
		}
		ok := sc.clone()
		if b, has := ok.get(v.s); has && b.kind == "bset" {
			b.checked = true
		}
		return x.exec(elseB, ok, eff)
	}
	return dop(s)
}

func (x *dexec) rangeStmt(s *ast.RangeStmt, rest []ast.Stmt, sc *dscope, eff *lt) *lt {
	over := x.eval(s.X, sc, 0)
	key, _ := s.Key.(*ast.Ident)
	switch over.kind {
	case "mask":
		if eff != nil || s.Tok != token.DEFINE || key == nil {
			return dop(s)
		}
		// for i := range mask { mask[i] = true }
		if s.Value == nil && len(s.Body.List) == 1 {
			if as, ok := s.Body.List[0].(*ast.AssignStmt); ok && as.Tok == token.ASSIGN && len(as.Lhs) == 1 && len(as.Rhs) == 1 {
				if ix, ok := as.Lhs[0].(*ast.IndexExpr); ok {
					if id, ok := ix.Index.(*ast.Ident); ok && id.Name == key.Name && x.eval(ix.X, sc, 0).kind == "mask" {
						if v := x.eval(as.Rhs[0], sc, 0); v.kind == "bool" && v.b {
							return x.exec(rest, sc, lh("DE.fillAllTrue"))
						}
					}
				}
			}
			return dop(s)
		}
		// the function's own mask loop: its term is in Gen.kernelAst under the function's name
		role := "none"
		sc.each(func(w *dv) {
			if w.kind == "col2" {
				role = "col2"
			}
		})
		return x.exec(rest, sc, dstr("DE.ownLoop", x.self, drole(role)))
	case "values":
		// for i, v := range <values> { if v == <const> { …; return } }
		val, _ := s.Value.(*ast.Ident)
		if eff != nil || s.Tok != token.DEFINE || key == nil || val == nil || len(s.Body.List) != 1 {
			return dop(s)
		}
		ifs, ok := s.Body.List[0].(*ast.IfStmt)
		if !ok || ifs.Init != nil || ifs.Else != nil {
			return dop(s)
		}
		inner := sc.clone().push()
		inner.def(key.Name, &dv{kind: "loopidx"})
		inner.def(val.Name, &dv{kind: "loopval"})
		if x.eval(ifs.Cond, inner, 0).kind != "found" {
			return dop(s)
		}
		found := x.exec(scoped(ifs.Body.List, []ast.Stmt{dFallOff}), inner, nil)
		return lh("DE.enumSearch", found, x.exec(rest, sc.clone(), nil))
	}
	return dop(s)
}

// ---------------------------------------------------------------------------------------------------------------

func (c *dctx) translate(name string, fd *ast.FuncDecl) *lt {
	var perC []*lt
	for _, ck := range dCKinds {
		var perK []*lt
		for _, k := range dKinds {
			sub := *c
			sub.kind, sub.ckind, sub.self = k, ck, name
			x := &dexec{dctx: &sub, hasResult: fd.Type.Results != nil && len(fd.Type.Results.List) > 0}
			perK = append(perK, x.exec(fd.Body.List, c.paramScope(fd), nil))
		}
		perC = append(perC, collapse("DE.typeSwitch", perK))
	}
	return collapse("DE.cmpSwitch", perC)
}

func collapse(head string, ts []*lt) *lt {
	same := true
	for _, t := range ts[1:] {
		if t.lean() != ts[0].lean() {
			same = false
		}
	}
	if same {
		return ts[0]
	}
	return lh(head, ts...)
}

// ecolumn's bool helper on two columns → QStep
func (c *dctx) equalTypesSteps(fd *ast.FuncDecl) []*lt {
	names := paramNames(fd)
	if len(names) != 2 || fd.Recv != nil {
		return []*lt{ls("QStep.opaque", src(fd.Body))}
	}
	s1, s2 := names[0], names[1]
	field := func(e ast.Expr, v, f string) bool {
		sel, ok := unparen(e).(*ast.SelectorExpr)
		if !ok || f == "" || sel.Sel.Name != f {
			return false
		}
		id, ok := sel.X.(*ast.Ident)
		return ok && id.Name == v
	}
	lenOf := func(e ast.Expr, v, f string) bool {
		call, ok := unparen(e).(*ast.CallExpr)
		if !ok || len(call.Args) != 1 || src(call.Fun) != "len" {
			return false
		}
		return field(call.Args[0], v, f)
	}
	var cond func(e ast.Expr) *lt
	cond = func(e ast.Expr) *lt {
		b, ok := unparen(e).(*ast.BinaryExpr)
		if !ok {
			return ls("QCond.opaque", src(e))
		}
		switch b.Op {
		case token.LOR:
			return lh("QCond.or", cond(b.X), cond(b.Y))
		case token.NEQ:
			for _, f := range []struct{ field, head string }{{c.values, "QCond.lenValuesNe"}, {cellField[c.pkg], "QCond.lenDataNe"}} {
				if (lenOf(b.X, s1, f.field) && lenOf(b.Y, s2, f.field)) || (lenOf(b.X, s2, f.field) && lenOf(b.Y, s1, f.field)) {
					return lh(f.head)
				}
			}
		}
		return ls("QCond.opaque", src(e))
	}
	returnsLit := func(b []ast.Stmt, lit string) bool {
		if len(b) != 1 {
			return false
		}
		r, ok := b[0].(*ast.ReturnStmt)
		return ok && len(r.Results) == 1 && src(r.Results[0]) == lit
	}
	var steps []*lt
	for _, st := range fd.Body.List {
		switch s := st.(type) {
		case *ast.IfStmt:
			if s.Init == nil && s.Else == nil && returnsLit(s.Body.List, "false") {
				steps = append(steps, lh("QStep.rejectIf", cond(s.Cond)))
				continue
			}
		case *ast.RangeStmt:
			// for i, val := range s1.values { if val != s2.values[i] { return false } }
			k, _ := s.Key.(*ast.Ident)
			v, _ := s.Value.(*ast.Ident)
			if k != nil && v != nil && s.Tok == token.DEFINE && field(s.X, s1, c.values) && len(s.Body.List) == 1 {
				if ifs, ok := s.Body.List[0].(*ast.IfStmt); ok && ifs.Init == nil && ifs.Else == nil && returnsLit(ifs.Body.List, "false") {
					if b, ok := unparen(ifs.Cond).(*ast.BinaryExpr); ok && b.Op == token.NEQ {
						isVal := func(e ast.Expr) bool { id, ok := unparen(e).(*ast.Ident); return ok && id.Name == v.Name }
						isOther := func(e ast.Expr) bool {
							ix, ok := unparen(e).(*ast.IndexExpr)
							if !ok || !field(ix.X, s2, c.values) {
								return false
							}
							id, ok := ix.Index.(*ast.Ident)
							return ok && id.Name == k.Name
						}
						if (isVal(b.X) && isOther(b.Y)) || (isVal(b.Y) && isOther(b.X)) {
							steps = append(steps, lh("QStep.rejectIfValueDiffers"))
							continue
						}
					}
				}
			}
		case *ast.ReturnStmt:
			if returnsLit([]ast.Stmt{s}, "true") {
				steps = append(steps, lh("QStep.accept"))
				continue
			}
		}
		steps = append(steps, ls("QStep.opaque", src(st)))
	}
	return steps
}

// fields of `type Column struct` by type
func columnFields(files map[string]*ast.File) (values, strict string) {
	for _, f := range files {
		for _, d := range f.Decls {
			gd, ok := d.(*ast.GenDecl)
			if !ok || gd.Tok != token.TYPE {
				continue
			}
			for _, sp := range gd.Specs {
				ts, ok := sp.(*ast.TypeSpec)
				if !ok || ts.Name.Name != "Column" {
					continue
				}
				st, ok := ts.Type.(*ast.StructType)
				if !ok {
					continue
				}
				for _, fl := range st.Fields.List {
					for _, n := range fl.Names {
						switch src(fl.Type) {
						case "[]string":
							if values == "" {
								values = n.Name
							}
						case "bool":
							if strict == "" {
								strict = n.Name
							}
						}
					}
				}
			}
		}
	}
	return
}

// dispatchLean writes QF/Gen/Dispatch.lean.
func dispatchLean(repo string, colPkgs []string, fconsts map[string]string, strFiles map[string]*ast.File, parse func(string) map[string]*ast.File) string {
	var builtIns, entries []string
	eqSteps := []*lt{ls("QStep.opaque", "no bool helper on (receiver, comparatee column) is called")}
	for _, p := range colPkgs {
		files := parse(p)
		fns := funcDecls(files)
		c := &dctx{pkg: p, fns: fns, strFns: funcDecls(strFiles), strAlias: importNames(files, "/internal/strings"), fconsts: fconsts,
			fAlias: importNames(files, "/qframe/filter"), errAlias: importNames(files, "/qerrors"), tables: map[string]bool{}, eqFns: map[string]bool{}}
		for _, std := range []string{"/errors", "/fmt"} {
			for n := range importNames(files, std) {
				c.errAlias[n] = true
			}
		}
		for n := range mapTables(files, fconsts) {
			c.tables[n] = true
		}
		c.values, c.strict = columnFields(files)
		names := make([]string, 0, len(fns))
		for n := range fns {
			names = append(names, n)
		}
		sort.Strings(names)
		for _, n := range names {
			role := entryRole(fns[n])
			if role == "" || !strings.HasPrefix(n, "Column.") {
				continue
			}
			t := c.translate(n, fns[n])
			if role == "builtIn" {
				builtIns = append(builtIns, fmt.Sprintf("  (%s, %s)", leanStr(p), t.lean()))
			}
			entries = append(entries, fmt.Sprintf("  (%s, %s, %s)", leanStr(p), leanStr(role), t.lean()))
		}
		if p == "ecolumn" {
			var eq []string
			for n := range c.eqFns {
				eq = append(eq, n)
			}
			sort.Strings(eq)
			if len(eq) == 1 {
				eqSteps = c.equalTypesSteps(fns[eq[0]])
			} else if len(eq) > 1 {
				eqSteps = []*lt{ls("QStep.opaque", "several bool helpers: "+strings.Join(eq, ", "))}
			}
		}
	}
	var b strings.Builder
	b.WriteString("/- GENERATED on every run by /verif/go/cmd/extract from /repo's source (tie T1). Do not edit. -/\nimport QF.Core.DExpr\nnamespace QF.Gen\n\n")
	b.WriteString("/-- `Column.filterBuiltIn` of the five column packages translated to the dispatch language `QF.DE`, by role: (package, term) -/\n")
	b.WriteString("def dispatchAst : List (String × DE) := [\n" + strings.Join(builtIns, ",\n") + "]\n\n")
	b.WriteString("/-- all entry points that take the mask, by the role their signature gives them (filter | builtIn | custom1 | custom2): (package, role, term) -/\n")
	b.WriteString("def entryAst : List (String × String × DE) := [\n" + strings.Join(entries, ",\n") + "]\n\n")
	b.WriteString("/-- ecolumn's bool helper on (receiver, comparatee column) (`equalTypes`) -/\n")
	b.WriteString("def equalTypesAst : List QStep := " + ll(eqSteps).lean() + "\n\nend QF.Gen\n")
	return b.String()
}
