package main

// Translation go/ast → FT / FI / FL (lean/QF/Core/Factory.lean) of the enum factory of internal/ecolumn:
//
//	type Factory struct { column Column; valToEnum map[string]enumVal }
//	func NewFactory(values []string, sizeHint int) (*Factory, error)                      → []FI
//	func (f *Factory) AppendNil() · AppendEnum(enumVal) · AppendString(string) error ·
//	                  appendString(string) error · AppendByteString([]byte) error ·
//	                  enumVal(*string) (enumVal, error)                                    → FT (helpers inlined)
//	func New(data []*string, values []string) (Column, error)                            → FL
//	func NewConst(val *string, count int, values []string) (Column, error)               → FL
//
// Method: symbolic execution of the method bodies; calls of other methods of the factory are inlined (their `return`s
// continue the caller). Everything is found by ROLE: the factory is the struct with a field of type `Column` and a
// field of a map type with string keys; the map's element type is the code type (its declaration gives the modulus of
// the conversion); the fields of `Column` by type (`[]string` the value list, `bool` strict, `[]<code>` the cells);
// parameters by type (`string` / `[]byte` the string, `*string` the nullable string, `<code>` the code); functions by
// signature. Named integer constants are resolved to their values. What is not understood becomes `.opaque "<text>"`
// (no meaning; the proofs of QF/Props/C17Factory.lean fail on it).

import (
	"fmt"
	"go/ast"
	"go/token"
	"sort"
	"strconv"
	"strings"
)

type ectx struct {
	files    map[string]*ast.File
	fns      map[string]*ast.FuncDecl
	facType  string // the factory struct
	colField string // its field of type Column
	mapField string // its map field
	codeType string // element type of the map
	modulus  int    // number of values of the code type
	values   string // fields of Column
	strict   string
	data     string
}

// ev is a symbolic value.
type ev struct {
	kind string
	// recv · col (recv.column) · values · strict · data · map
	// str (the string) · bytes (the []byte parameter) · ptr (the *string parameter; nonNil: tested on this path)
	// code (c: FCode term) · lenValues · int (n) · nil · errnew · errvar (a named error variable holding nil) · cellsParam ·
	// valuesParam · countParam · hint
	c      *lt
	n      int
	nonNil bool
}

type escope struct {
	vars   map[string]*ev
	parent *escope
}

func (s *escope) get(n string) (*ev, bool) {
	for f := s; f != nil; f = f.parent {
		if v, ok := f.vars[n]; ok {
			return v, true
		}
	}
	return nil, false
}

func (s *escope) push() *escope { return &escope{vars: map[string]*ev{}, parent: s} }

func (s *escope) clone() *escope {
	if s == nil {
		return nil
	}
	r := &escope{vars: map[string]*ev{}, parent: s.parent.clone()}
	for k, v := range s.vars {
		cp := *v
		r.vars[k] = &cp
	}
	return r
}

var eOpaque = &ev{kind: "opaque"}

func fop(n ast.Node) *lt   { return ls("FT.opaque", src(n)) }
func fopText(s string) *lt { return ls("FT.opaque", s) }

// integer constants of the package, resolved through other constants
func (c *ectx) intConst(name string, depth int) (int, bool) {
	v, ok := intConstExpr(c.files, ast.NewIdent(name), depth)
	if !ok || v < -1<<31 || v > 1<<31 {
		return 0, false
	}
	return int(v), true
}

func unsignedModulus(t string) int {
	switch t {
	case "uint8", "byte":
		return 256
	case "uint16":
		return 65536
	}
	return 0
}

// scan finds the factory struct, the code type and the roles of the fields
func (c *ectx) scan() bool {
	c.values, c.strict = columnFields(c.files)
	types := map[string]ast.Expr{}
	for _, f := range c.files {
		for _, d := range f.Decls {
			gd, ok := d.(*ast.GenDecl)
			if !ok || gd.Tok != token.TYPE {
				continue
			}
			for _, sp := range gd.Specs {
				if ts, ok := sp.(*ast.TypeSpec); ok {
					types[ts.Name.Name] = ts.Type
				}
			}
		}
	}
	var names []string
	for n := range types {
		names = append(names, n)
	}
	sort.Strings(names)
	for _, n := range names {
		st, ok := types[n].(*ast.StructType)
		if !ok {
			continue
		}
		col, mp, code := "", "", ""
		for _, fl := range st.Fields.List {
			for _, fn := range fl.Names {
				if id, ok := fl.Type.(*ast.Ident); ok && id.Name == "Column" && col == "" {
					col = fn.Name
				}
				if mt, ok := fl.Type.(*ast.MapType); ok && src(mt.Key) == "string" && mp == "" {
					if id, ok := mt.Value.(*ast.Ident); ok {
						mp, code = fn.Name, id.Name
					}
				}
			}
		}
		if col != "" && mp != "" && c.facType == "" {
			c.facType, c.colField, c.mapField, c.codeType = n, col, mp, code
		}
	}
	if c.facType == "" {
		return false
	}
	if t, ok := types[c.codeType]; ok {
		c.modulus = unsignedModulus(src(t))
	}
	if st, ok := types["Column"].(*ast.StructType); ok {
		for _, fl := range st.Fields.List {
			for _, fn := range fl.Names {
				if src(fl.Type) == "[]"+c.codeType && c.data == "" {
					c.data = fn.Name
				}
			}
		}
	}
	return c.modulus != 0 && c.values != "" && c.strict != "" && c.data != ""
}

func (c *ectx) eval(e ast.Expr, sc *escope) *ev {
	switch t := unparen(e).(type) {
	case *ast.Ident:
		if v, ok := sc.get(t.Name); ok {
			return v
		}
		if t.Name == "nil" {
			return &ev{kind: "nil"}
		}
		if n, ok := c.intConst(t.Name, 0); ok {
			return &ev{kind: "int", n: n}
		}
		return eOpaque
	case *ast.BasicLit:
		if t.Kind == token.INT {
			if n, err := strconv.Atoi(t.Value); err == nil {
				return &ev{kind: "int", n: n}
			}
		}
		return eOpaque
	case *ast.StarExpr:
		if x := c.eval(t.X, sc); x.kind == "ptr" && x.nonNil {
			return &ev{kind: "str"}
		}
		return eOpaque
	case *ast.SelectorExpr:
		x := c.eval(t.X, sc)
		switch {
		case x.kind == "recv" && t.Sel.Name == c.colField:
			return &ev{kind: "col"}
		case x.kind == "recv" && t.Sel.Name == c.mapField:
			return &ev{kind: "map"}
		case x.kind == "col" && t.Sel.Name == c.values:
			return &ev{kind: "values"}
		case x.kind == "col" && t.Sel.Name == c.strict:
			return &ev{kind: "strict"}
		case x.kind == "col" && t.Sel.Name == c.data:
			return &ev{kind: "data"}
		}
		return eOpaque
	case *ast.CallExpr:
		id, ok := t.Fun.(*ast.Ident)
		if !ok || len(t.Args) != 1 {
			return eOpaque
		}
		if _, bound := sc.get(id.Name); bound {
			return eOpaque
		}
		x := c.eval(t.Args[0], sc)
		switch {
		case id.Name == "len" && x.kind == "values":
			return &ev{kind: "lenValues"}
		case id.Name == "string" && (x.kind == "bytes" || x.kind == "str"):
			return &ev{kind: "str"}
		case id.Name == c.codeType && x.kind == "int" && x.n >= 0 && x.n < c.modulus:
			return &ev{kind: "code", c: lh("FCode.lit", lh(strconv.Itoa(x.n)))}
		case id.Name == c.codeType && x.kind == "code":
			return x
		}
		return eOpaque
	}
	return eOpaque
}

// a value used as a code
func (c *ectx) asCode(v *ev) *lt {
	switch v.kind {
	case "code":
		return v.c
	case "int": // an untyped constant where a code is expected
		if v.n >= 0 && v.n < c.modulus {
			return lh("FCode.lit", lh(strconv.Itoa(v.n)))
		}
	}
	return nil
}

// pkg.New / pkg.Errorf / pkg.Propagate of a package that is not bound locally: a non-nil error
func eIsErrCall(e ast.Expr, sc *escope) bool {
	call, ok := unparen(e).(*ast.CallExpr)
	if !ok {
		return false
	}
	sel, ok := call.Fun.(*ast.SelectorExpr)
	if !ok {
		return false
	}
	id, ok := sel.X.(*ast.Ident)
	if !ok {
		return false
	}
	if _, bound := sc.get(id.Name); bound {
		return false
	}
	switch id.Name {
	case "qerrors", "errors", "fmt":
	default:
		return false
	}
	switch sel.Sel.Name {
	case "New", "Propagate", "Errorf":
		return true
	}
	return false
}

// the method of the factory a call `f.M(args)` names
func (c *ectx) methodCall(e ast.Expr, sc *escope) (*ast.FuncDecl, *ast.CallExpr) {
	call, ok := unparen(e).(*ast.CallExpr)
	if !ok {
		return nil, nil
	}
	sel, ok := call.Fun.(*ast.SelectorExpr)
	if !ok || c.eval(sel.X, sc).kind != "recv" {
		return nil, nil
	}
	fd, ok := c.fns[c.facType+"."+sel.Sel.Name]
	if !ok {
		return nil, nil
	}
	return fd, call
}

// the role of a parameter, from its type
func (c *ectx) paramRole(t ast.Expr) *ev {
	switch src(t) {
	case "string":
		return &ev{kind: "str"}
	case "[]byte":
		return &ev{kind: "bytes"}
	case "*string":
		return &ev{kind: "ptr"}
	case c.codeType:
		return &ev{kind: "code", c: lh("FCode.param")}
	}
	return eOpaque
}

type econt func(vals []*ev, sc *escope) *lt

// inline executes the body of fd for the call; k continues with the values it returns
func (c *ectx) inline(fd *ast.FuncDecl, call *ast.CallExpr, sc *escope, depth int, k econt) *lt {
	if depth > 4 {
		return fop(call)
	}
	inner := &escope{vars: map[string]*ev{}}
	if fd.Recv != nil && len(fd.Recv.List) == 1 {
		for _, n := range fd.Recv.List[0].Names {
			inner.vars[n.Name] = &ev{kind: "recv"}
		}
	}
	names := paramNames(fd)
	if len(names) != len(call.Args) {
		return fop(call)
	}
	for i, n := range names {
		v := c.eval(call.Args[i], sc)
		if v.kind == "opaque" {
			return fop(call)
		}
		// the callee must take the value as what it is
		var pt ast.Expr
		j := 0
		for _, par := range fd.Type.Params.List {
			cnt := len(par.Names)
			if cnt == 0 {
				cnt = 1
			}
			if i < j+cnt {
				pt = par.Type
				break
			}
			j += cnt
		}
		want := c.paramRole(pt)
		if want.kind != v.kind && !(want.kind == "code" && c.asCode(v) != nil) {
			return fop(call)
		}
		cp := *v
		if want.kind == "code" {
			cp = ev{kind: "code", c: c.asCode(v)}
		}
		if n != "_" {
			inner.vars[n] = &cp
		}
	}
	return c.exec(fd.Body.List, inner, depth+1, func(vals []*ev, _ *escope) *lt { return k(vals, sc) })
}

// values of the results of a return statement; a call of a factory method among them is inlined first
func (c *ectx) results(rs []ast.Expr, i int, acc []*ev, sc *escope, depth int, k econt) *lt {
	if i == len(rs) {
		return k(acc, sc)
	}
	if fd, call := c.methodCall(rs[i], sc); fd != nil {
		return c.inline(fd, call, sc, depth, func(vals []*ev, sc2 *escope) *lt {
			return c.results(rs, i+1, append(append([]*ev{}, acc...), vals...), sc2, depth, k)
		})
	}
	v := c.eval(rs[i], sc)
	if eIsErrCall(rs[i], sc) {
		v = &ev{kind: "errnew"}
	}
	return c.results(rs, i+1, append(append([]*ev{}, acc...), v), sc, depth, k)
}

func eBlock(s ast.Stmt) []ast.Stmt {
	switch e := s.(type) {
	case nil:
		return nil
	case *ast.BlockStmt:
		return e.List
	}
	return []ast.Stmt{s}
}

func flipCmp(op token.Token) string {
	switch op {
	case token.LSS:
		return "gt"
	case token.LEQ:
		return "ge"
	case token.GTR:
		return "lt"
	case token.GEQ:
		return "le"
	case token.EQL:
		return "eq"
	case token.NEQ:
		return "ne"
	}
	return ""
}

func cmpName(op token.Token) string {
	switch op {
	case token.LSS:
		return "lt"
	case token.LEQ:
		return "le"
	case token.GTR:
		return "gt"
	case token.GEQ:
		return "ge"
	case token.EQL:
		return "eq"
	case token.NEQ:
		return "ne"
	}
	return ""
}

// exec translates the statements that remain on a path
func (c *ectx) exec(stmts []ast.Stmt, sc *escope, depth int, k econt) *lt {
	if len(stmts) == 0 {
		return k(nil, sc)
	}
	st, rest := stmts[0], stmts[1:]
	switch s := st.(type) {
	case *ast.ReturnStmt:
		return c.results(s.Results, 0, nil, sc, depth, k)
	case *ast.BlockStmt:
		return c.exec(concat(s.List, rest), sc, depth, k)
	case *ast.ExprStmt:
		if fd, call := c.methodCall(s.X, sc); fd != nil && (fd.Type.Results == nil || len(fd.Type.Results.List) == 0) {
			return c.inline(fd, call, sc, depth, func(_ []*ev, sc2 *escope) *lt { return c.exec(rest, sc2, depth, k) })
		}
		return fop(s)
	case *ast.AssignStmt:
		if len(s.Lhs) != 1 || len(s.Rhs) != 1 {
			return fop(s)
		}
		// x := f.M(…)
		if fd, call := c.methodCall(s.Rhs[0], sc); fd != nil {
			id, ok := s.Lhs[0].(*ast.Ident)
			if !ok || s.Tok != token.DEFINE {
				return fop(s)
			}
			return c.inline(fd, call, sc, depth, func(vals []*ev, sc2 *escope) *lt {
				if len(vals) != 1 {
					return fop(s)
				}
				sc2.vars[id.Name] = vals[0]
				return c.exec(rest, sc2, depth, k)
			})
		}
		switch lhs := s.Lhs[0].(type) {
		case *ast.Ident:
			if s.Tok != token.DEFINE {
				return fop(s)
			}
			// ev := <code type>(len(<values>))
			if call, ok := unparen(s.Rhs[0]).(*ast.CallExpr); ok && len(call.Args) == 1 && src(call.Fun) == c.codeType {
				if c.eval(call.Args[0], sc).kind == "lenValues" {
					fresh := false
					for f := sc; f != nil; f = f.parent {
						for _, v := range f.vars {
							if v.kind == "code" && v.c.lean() == "FCode.fresh" {
								fresh = true
							}
						}
					}
					if fresh {
						return fop(s)
					}
					sc.vars[lhs.Name] = &ev{kind: "code", c: lh("FCode.fresh")}
					return lh("FT.letLen", lh(strconv.Itoa(c.modulus)), c.exec(rest, sc, depth, k))
				}
			}
			v := c.eval(s.Rhs[0], sc)
			if v.kind != "str" && v.kind != "code" {
				return fop(s)
			}
			cp := *v
			sc.vars[lhs.Name] = &cp
			return c.exec(rest, sc, depth, k)
		case *ast.SelectorExpr:
			if s.Tok != token.ASSIGN {
				return fop(s)
			}
			// f.column.<field> = append(f.column.<field>, x)
			target := c.eval(lhs, sc)
			call, ok := unparen(s.Rhs[0]).(*ast.CallExpr)
			if !ok || src(call.Fun) != "append" || len(call.Args) != 2 || call.Ellipsis != token.NoPos || c.eval(call.Args[0], sc).kind != target.kind {
				return fop(s)
			}
			x := c.eval(call.Args[1], sc)
			switch target.kind {
			case "data":
				if code := c.asCode(x); code != nil {
					return lh("FT.push", code, c.exec(rest, sc, depth, k))
				}
			case "values":
				if x.kind == "str" {
					return lh("FT.appendValue", c.exec(rest, sc, depth, k))
				}
			}
			return fop(s)
		case *ast.IndexExpr:
			// f.<map>[<the string>] = code
			if s.Tok != token.ASSIGN || c.eval(lhs.X, sc).kind != "map" || c.eval(lhs.Index, sc).kind != "str" {
				return fop(s)
			}
			if code := c.asCode(c.eval(s.Rhs[0], sc)); code != nil {
				return lh("FT.mapPut", code, c.exec(rest, sc, depth, k))
			}
			return fop(s)
		}
		return fop(s)
	case *ast.IfStmt:
		thenB := concat(s.Body.List, rest)
		elseB := concat(eBlock(s.Else), rest)
		if s.Init != nil {
			// if e, ok := f.<map>[<the string>]; ok { … }
			as, ok := s.Init.(*ast.AssignStmt)
			if !ok || as.Tok != token.DEFINE || len(as.Lhs) != 2 || len(as.Rhs) != 1 {
				return fop(s)
			}
			ix, ok := unparen(as.Rhs[0]).(*ast.IndexExpr)
			e, ok1 := as.Lhs[0].(*ast.Ident)
			okv, ok2 := as.Lhs[1].(*ast.Ident)
			if !ok || !ok1 || !ok2 || c.eval(ix.X, sc).kind != "map" || c.eval(ix.Index, sc).kind != "str" {
				return fop(s)
			}
			cond, neg := unparen(s.Cond), false
			if u, ok := cond.(*ast.UnaryExpr); ok && u.Op == token.NOT {
				cond, neg = unparen(u.X), true
			}
			if id, ok := cond.(*ast.Ident); !ok || id.Name != okv.Name || okv.Name == "_" {
				return fop(s)
			}
			hit := sc.clone().push()
			if e.Name != "_" {
				hit.vars[e.Name] = &ev{kind: "code", c: lh("FCode.seen")}
			}
			miss := sc.clone().push()
			if neg {
				return lh("FT.ifSeen", c.exec(elseB, hit, depth, k), c.exec(thenB, miss, depth, k))
			}
			return lh("FT.ifSeen", c.exec(thenB, hit, depth, k), c.exec(elseB, miss, depth, k))
		}
		cond := unparen(s.Cond)
		if b, ok := cond.(*ast.BinaryExpr); ok {
			x, y := c.eval(b.X, sc), c.eval(b.Y, sc)
			// s == nil · s != nil
			if (b.Op == token.EQL || b.Op == token.NEQ) && ((x.kind == "ptr" && y.kind == "nil") || (x.kind == "nil" && y.kind == "ptr")) {
				id := rootIdent(b.X)
				if x.kind == "nil" {
					id = rootIdent(b.Y)
				}
				nn := sc.clone()
				if id != nil {
					if p, ok := nn.get(id.Name); ok {
						p.nonNil = true
					}
				}
				if b.Op == token.EQL {
					return lh("FT.ifNil", c.exec(thenB, sc.clone(), depth, k), c.exec(elseB, nn, depth, k))
				}
				return lh("FT.ifNil", c.exec(elseB, sc.clone(), depth, k), c.exec(thenB, nn, depth, k))
			}
			// len(<values>) <cmp> n
			op := ""
			bound := 0
			switch {
			case x.kind == "lenValues" && y.kind == "int":
				op, bound = cmpName(b.Op), y.n
			case x.kind == "int" && y.kind == "lenValues":
				op, bound = flipCmp(b.Op), x.n
			}
			if op != "" {
				return lh("FT.ifCard", lh("FCmp."+op), lh(strconv.Itoa(bound)), c.exec(thenB, sc.clone(), depth, k), c.exec(elseB, sc.clone(), depth, k))
			}
			return fop(s)
		}
		neg := false
		if u, ok := cond.(*ast.UnaryExpr); ok && u.Op == token.NOT {
			cond, neg = unparen(u.X), true
		}
		if c.eval(cond, sc).kind == "strict" {
			if neg {
				thenB, elseB = elseB, thenB
			}
			return lh("FT.ifStrict", c.exec(thenB, sc.clone(), depth, k), c.exec(elseB, sc.clone(), depth, k))
		}
		return fop(s)
	}
	return fop(st)
}

// the result types of a function, classified
func (c *ectx) resultRoles(fd *ast.FuncDecl) []string {
	var res []string
	if fd.Type.Results == nil {
		return res
	}
	for _, r := range fd.Type.Results.List {
		n := len(r.Names)
		if n == 0 {
			n = 1
		}
		for i := 0; i < n; i++ {
			switch src(r.Type) {
			case "error":
				res = append(res, "error")
			case c.codeType:
				res = append(res, "code")
			case "Column":
				res = append(res, "column")
			default:
				res = append(res, "?")
			}
		}
	}
	return res
}

// method translates a method of the factory; role is its signature by role
func (c *ectx) method(fd *ast.FuncDecl) (string, *lt) {
	sc := &escope{vars: map[string]*ev{}}
	if fd.Recv == nil || len(fd.Recv.List) != 1 {
		return "?", fop(fd.Body)
	}
	for _, n := range fd.Recv.List[0].Names {
		sc.vars[n.Name] = &ev{kind: "recv"}
	}
	var prs []string
	if fd.Type.Params != nil {
		for _, par := range fd.Type.Params.List {
			role := c.paramRole(par.Type)
			cnt := len(par.Names)
			if cnt == 0 {
				cnt = 1
			}
			for i := 0; i < cnt; i++ {
				prs = append(prs, role.kind)
			}
			for _, n := range par.Names {
				if n.Name != "_" {
					cp := *role
					sc.vars[n.Name] = &cp
				}
			}
		}
	}
	rr := c.resultRoles(fd)
	role := "(" + strings.Join(prs, ", ") + ") → (" + strings.Join(rr, ", ") + ")"
	term := c.exec(fd.Body.List, sc, 0, func(vals []*ev, _ *escope) *lt {
		switch {
		case len(rr) == 0 && len(vals) == 0:
			return lh("FT.retNil")
		case len(rr) == 1 && rr[0] == "error" && len(vals) == 1:
			switch vals[0].kind {
			case "nil":
				return lh("FT.retNil")
			case "errnew":
				return lh("FT.retErr")
			}
		case len(rr) == 1 && rr[0] == "code" && len(vals) == 1:
			if code := c.asCode(vals[0]); code != nil {
				return lh("FT.retCode", code)
			}
		case len(rr) == 2 && rr[0] == "code" && rr[1] == "error" && len(vals) == 2:
			switch vals[1].kind {
			case "errnew":
				return lh("FT.retErr")
			case "nil":
				if code := c.asCode(vals[0]); code != nil {
					return lh("FT.retCode", code)
				}
			}
		}
		return fopText("return")
	})
	return role, term
}

// `func (f *Factory) M() Column { return f.<column> }`
func (c *ectx) isToColumn(fd *ast.FuncDecl) bool {
	if fd == nil || fd.Recv == nil || len(fd.Recv.List) != 1 || len(fd.Recv.List[0].Names) != 1 || len(paramNames(fd)) != 0 || len(fd.Body.List) != 1 {
		return false
	}
	r, ok := fd.Body.List[0].(*ast.ReturnStmt)
	if !ok || len(r.Results) != 1 {
		return false
	}
	sc := &escope{vars: map[string]*ev{fd.Recv.List[0].Names[0].Name: {kind: "recv"}}}
	return c.eval(r.Results[0], sc).kind == "col"
}

// the function `(values []string, hint int) (*Factory, error)`
func (c *ectx) initFn() *ast.FuncDecl {
	var names []string
	for n := range c.fns {
		names = append(names, n)
	}
	sort.Strings(names)
	for _, n := range names {
		fd := c.fns[n]
		if fd.Recv != nil || fd.Type.Results == nil || len(fd.Type.Results.List) != 2 {
			continue
		}
		if src(fd.Type.Results.List[0].Type) == "*"+c.facType && src(fd.Type.Results.List[1].Type) == "error" {
			return fd
		}
	}
	return nil
}

func fiop(n ast.Node) *lt { return ls("FI.opaque", src(n)) }

// `return <zero>, <non-nil error>` as the only statement of a block
func isErrReturn(b []ast.Stmt, sc *escope, passVar string) bool {
	if len(b) != 1 {
		return false
	}
	r, ok := b[0].(*ast.ReturnStmt)
	if !ok || len(r.Results) != 2 {
		return false
	}
	if id, ok := r.Results[1].(*ast.Ident); ok && passVar != "" && id.Name == passVar {
		return true
	}
	return eIsErrCall(r.Results[1], sc)
}

// initSteps translates NewFactory
func (c *ectx) initSteps(fd *ast.FuncDecl) []*lt {
	if fd == nil {
		return []*lt{ls("FI.opaque", "no function returns (*"+c.facType+", error)")}
	}
	vals := "" // the []string parameter
	for _, par := range fd.Type.Params.List {
		if src(par.Type) == "[]string" && len(par.Names) == 1 && vals == "" {
			vals = par.Names[0].Name
		}
	}
	isVals := func(e ast.Expr) bool { id, ok := unparen(e).(*ast.Ident); return ok && id.Name == vals && vals != "" }
	lenVals := func(e ast.Expr) bool {
		call, ok := unparen(e).(*ast.CallExpr)
		return ok && src(call.Fun) == "len" && len(call.Args) == 1 && isVals(call.Args[0])
	}
	lenCmp := func(e ast.Expr) (string, int, bool) {
		b, ok := unparen(e).(*ast.BinaryExpr)
		if !ok {
			return "", 0, false
		}
		sc := &escope{vars: map[string]*ev{}}
		switch {
		case lenVals(b.X):
			if y := c.eval(b.Y, sc); y.kind == "int" && cmpName(b.Op) != "" {
				return cmpName(b.Op), y.n, true
			}
		case lenVals(b.Y):
			if x := c.eval(b.X, sc); x.kind == "int" && flipCmp(b.Op) != "" {
				return flipCmp(b.Op), x.n, true
			}
		}
		return "", 0, false
	}
	var steps []*lt
	mapVar := ""
	stmts := fd.Body.List
	for i := 0; i < len(stmts); i++ {
		switch s := stmts[i].(type) {
		case *ast.IfStmt:
			if s.Init == nil && s.Else == nil {
				if op, n, ok := lenCmp(s.Cond); ok && isErrReturn(s.Body.List, &escope{vars: map[string]*ev{}}, "") {
					steps = append(steps, lh("FI.rejectIfLen", lh("FCmp."+op), lh(strconv.Itoa(n))))
					continue
				}
				// if values == nil { values = make([]string, 0) }
				if b, ok := unparen(s.Cond).(*ast.BinaryExpr); ok && b.Op == token.EQL && isVals(b.X) && isNilIdent(b.Y) && len(s.Body.List) == 1 {
					if as, ok := s.Body.List[0].(*ast.AssignStmt); ok && as.Tok == token.ASSIGN && len(as.Lhs) == 1 && isVals(as.Lhs[0]) && len(as.Rhs) == 1 {
						if call, ok := as.Rhs[0].(*ast.CallExpr); ok && src(call.Fun) == "make" && len(call.Args) == 2 && src(call.Args[0]) == "[]string" && src(call.Args[1]) == "0" {
							steps = append(steps, lh("FI.nilToEmpty"))
							continue
						}
					}
				}
			}
		case *ast.AssignStmt:
			// m := make(map[string]<code>, …) followed by for i, v := range values { m[v] = <code>(i) }
			if s.Tok == token.DEFINE && len(s.Lhs) == 1 && len(s.Rhs) == 1 && i+1 < len(stmts) {
				id, ok1 := s.Lhs[0].(*ast.Ident)
				call, ok2 := s.Rhs[0].(*ast.CallExpr)
				rg, ok3 := stmts[i+1].(*ast.RangeStmt)
				if ok1 && ok2 && ok3 && src(call.Fun) == "make" && len(call.Args) >= 1 && src(call.Args[0]) == "map[string]"+c.codeType &&
					rg.Tok == token.DEFINE && isVals(rg.X) && len(rg.Body.List) == 1 {
					ki, okk := rg.Key.(*ast.Ident)
					vi, okv := rg.Value.(*ast.Ident)
					if as, ok := rg.Body.List[0].(*ast.AssignStmt); ok && okk && okv && ki.Name != "_" && vi.Name != "_" && as.Tok == token.ASSIGN && len(as.Lhs) == 1 && len(as.Rhs) == 1 &&
						src(as.Lhs[0]) == id.Name+"["+vi.Name+"]" && src(as.Rhs[0]) == c.codeType+"("+ki.Name+")" {
						mapVar = id.Name
						steps = append(steps, lh("FI.mapFromValues", lh(strconv.Itoa(c.modulus))))
						i++
						continue
					}
				}
			}
		case *ast.ReturnStmt:
			// return &Factory{column: Column{data: make([]<code>, 0, …), values: values, strict: len(values) > 0}, valToEnum: m}, nil
			if len(s.Results) == 2 && isNilIdent(s.Results[1]) {
				if u, ok := s.Results[0].(*ast.UnaryExpr); ok && u.Op == token.AND {
					if cl, ok := u.X.(*ast.CompositeLit); ok && src(cl.Type) == c.facType && len(cl.Elts) == 2 {
						fields := map[string]ast.Expr{}
						for _, el := range cl.Elts {
							if kv, ok := el.(*ast.KeyValueExpr); ok {
								fields[src(kv.Key)] = kv.Value
							}
						}
						colLit, ok := fields[c.colField].(*ast.CompositeLit)
						mv, okm := fields[c.mapField].(*ast.Ident)
						if ok && okm && mv.Name == mapVar && mapVar != "" && src(colLit.Type) == "Column" && len(colLit.Elts) == 3 {
							cf := map[string]ast.Expr{}
							for _, el := range colLit.Elts {
								if kv, ok := el.(*ast.KeyValueExpr); ok {
									cf[src(kv.Key)] = kv.Value
								}
							}
							dataOk := false
							if call, ok := cf[c.data].(*ast.CallExpr); ok && src(call.Fun) == "make" && len(call.Args) == 3 && src(call.Args[0]) == "[]"+c.codeType && src(call.Args[1]) == "0" {
								dataOk = true
							}
							if op, n, ok := lenCmp(cf[c.strict]); ok && dataOk && cf[c.values] != nil && isVals(cf[c.values]) {
								steps = append(steps, lh("FI.build", lh("FCmp."+op), lh(strconv.Itoa(n))))
								continue
							}
						}
					}
				}
			}
		}
		steps = append(steps, fiop(stmts[i]))
	}
	return steps
}

func flop(n ast.Node) *lt { return ls("FL.opaque", src(n)) }

// constructor translates New / NewConst: a function returning (Column, error) that makes a factory first
func (c *ectx) constructor(fd *ast.FuncDecl, init *ast.FuncDecl) *lt {
	roles := map[string]string{} // parameter → cells | values | val | count
	for _, par := range fd.Type.Params.List {
		for _, n := range par.Names {
			switch src(par.Type) {
			case "[]*string":
				roles[n.Name] = "cells"
			case "[]string":
				roles[n.Name] = "values"
			case "*string":
				roles[n.Name] = "val"
			case "int":
				roles[n.Name] = "count"
			}
		}
	}
	role := func(e ast.Expr) string {
		if id, ok := unparen(e).(*ast.Ident); ok {
			return roles[id.Name]
		}
		return ""
	}
	fac, code := "", ""
	// `if err != nil { return Column{}, err }` right after a statement that defined err
	errCheck := func(st ast.Stmt, errVar string) bool {
		s, ok := st.(*ast.IfStmt)
		if !ok || s.Init != nil || s.Else != nil {
			return false
		}
		b, ok := unparen(s.Cond).(*ast.BinaryExpr)
		if !ok || b.Op != token.NEQ || src(b.X) != errVar || !isNilIdent(b.Y) {
			return false
		}
		return isErrReturn(s.Body.List, &escope{vars: map[string]*ev{}}, errVar)
	}
	methodOf := func(e ast.Expr) (*ast.FuncDecl, *ast.CallExpr) {
		call, ok := unparen(e).(*ast.CallExpr)
		if !ok {
			return nil, nil
		}
		sel, ok := call.Fun.(*ast.SelectorExpr)
		if !ok || src(sel.X) != fac || fac == "" {
			return nil, nil
		}
		return c.fns[c.facType+"."+sel.Sel.Name], call
	}
	var build func(stmts []ast.Stmt) *lt
	build = func(stmts []ast.Stmt) *lt {
		if len(stmts) == 0 {
			return ls("FL.opaque", "missing return")
		}
		switch s := stmts[0].(type) {
		case *ast.AssignStmt:
			if s.Tok == token.DEFINE && len(s.Lhs) == 2 && len(s.Rhs) == 1 && len(stmts) >= 2 && errCheck(stmts[1], src(s.Lhs[1])) {
				call, ok := s.Rhs[0].(*ast.CallExpr)
				if !ok {
					return flop(s)
				}
				// f, err := NewFactory(values, …)
				if id, ok := call.Fun.(*ast.Ident); ok && init != nil && id.Name == init.Name.Name && fac == "" && len(call.Args) == 2 && role(call.Args[0]) == "values" {
					fac = src(s.Lhs[0])
					return lh("FL.init", build(stmts[2:]))
				}
				// eV, err := f.<m>(val)
				if m, mc := methodOf(call); m != nil && code == "" && len(mc.Args) == 1 && role(mc.Args[0]) == "val" {
					r, t := c.method(m)
					if r != "(ptr) → (code, error)" {
						return flop(s)
					}
					code = src(s.Lhs[0])
					return lh("FL.codeOf", t, build(stmts[2:]))
				}
			}
		case *ast.RangeStmt:
			// for _, d := range data { if d != nil { if err := f.<onStr>(*d); err != nil { return Column{}, err } } else { f.<onNil>() } }
			v, okv := s.Value.(*ast.Ident)
			if k, ok := s.Key.(*ast.Ident); !ok || k.Name != "_" || !okv || s.Tok != token.DEFINE || role(s.X) != "cells" || len(s.Body.List) != 1 {
				return flop(s)
			}
			ifs, ok := s.Body.List[0].(*ast.IfStmt)
			if !ok || ifs.Init != nil {
				return flop(s)
			}
			b, ok := unparen(ifs.Cond).(*ast.BinaryExpr)
			if !ok || (b.Op != token.NEQ && b.Op != token.EQL) || src(b.X) != v.Name || !isNilIdent(b.Y) {
				return flop(s)
			}
			strB, nilB := ifs.Body.List, eBlock(ifs.Else)
			if b.Op == token.EQL {
				strB, nilB = nilB, strB
			}
			if len(strB) != 1 || len(nilB) != 1 {
				return flop(s)
			}
			var onStr, onNil *lt
			if is, ok := strB[0].(*ast.IfStmt); ok && is.Init != nil && is.Else == nil {
				if as, ok := is.Init.(*ast.AssignStmt); ok && as.Tok == token.DEFINE && len(as.Lhs) == 1 && len(as.Rhs) == 1 && errCheck(&ast.IfStmt{Cond: is.Cond, Body: is.Body}, src(as.Lhs[0])) {
					if m, mc := methodOf(as.Rhs[0]); m != nil && len(mc.Args) == 1 && src(mc.Args[0]) == "*"+v.Name {
						if r, t := c.method(m); r == "(str) → (error)" {
							onStr = t
						}
					}
				}
			}
			if es, ok := nilB[0].(*ast.ExprStmt); ok {
				if m, mc := methodOf(es.X); m != nil && len(mc.Args) == 0 {
					if r, t := c.method(m); r == "() → ()" {
						onNil = t
					}
				}
			}
			if onStr == nil || onNil == nil {
				return flop(s)
			}
			return lh("FL.forEachCell", onNil, onStr, build(stmts[1:]))
		case *ast.ForStmt:
			// for i := 0; i < count; i++ { f.<m>(eV) }
			init, ok1 := s.Init.(*ast.AssignStmt)
			cond, ok2 := s.Cond.(*ast.BinaryExpr)
			post, ok3 := s.Post.(*ast.IncDecStmt)
			if !ok1 || !ok2 || !ok3 || init.Tok != token.DEFINE || len(init.Lhs) != 1 || len(init.Rhs) != 1 || src(init.Rhs[0]) != "0" ||
				cond.Op != token.LSS || src(cond.X) != src(init.Lhs[0]) || role(cond.Y) != "count" || post.Tok != token.INC || src(post.X) != src(init.Lhs[0]) || len(s.Body.List) != 1 {
				return flop(s)
			}
			es, ok := s.Body.List[0].(*ast.ExprStmt)
			if !ok {
				return flop(s)
			}
			m, mc := methodOf(es.X)
			if m == nil || len(mc.Args) != 1 || src(mc.Args[0]) != code || code == "" {
				return flop(s)
			}
			r, t := c.method(m)
			if r != "(code) → ()" {
				return flop(s)
			}
			return lh("FL.repeatPush", t, build(stmts[1:]))
		case *ast.ReturnStmt:
			if len(s.Results) == 2 && isNilIdent(s.Results[1]) {
				if m, mc := methodOf(s.Results[0]); m != nil && len(mc.Args) == 0 && c.isToColumn(m) {
					return lh("FL.retColumn")
				}
			}
		}
		return flop(stmts[0])
	}
	return build(fd.Body.List)
}

// factoryLean is the part of QF/Gen/Construct.lean about the enum factory.
func factoryLean(ecol map[string]*ast.File) string {
	c := &ectx{files: ecol, fns: funcDecls(ecol)}
	var b strings.Builder
	if !c.scan() {
		b.WriteString("def factoryInit : List FI := [FI.opaque \"no factory struct (a field of type Column and a map with string keys) found\"]\n")
		b.WriteString("def factoryMethods : List (String × FT) := []\ndef factoryNew : FL := FL.opaque \"\"\ndef factoryNewConst : FL := FL.opaque \"\"\n")
		return b.String()
	}
	init := c.initFn()
	b.WriteString("/-- the function that makes the factory (`NewFactory`) -/\n")
	b.WriteString("def factoryInit : List FI := " + ll(c.initSteps(init)).lean() + "\n\n")
	// the methods of the factory by signature role, sorted by (role, term): rename-insensitive
	type mt struct{ role, term string }
	var ms []mt
	for n, fd := range c.fns {
		if !strings.HasPrefix(n, c.facType+".") || c.isToColumn(fd) {
			continue
		}
		r, t := c.method(fd)
		ms = append(ms, mt{r, t.lean()})
	}
	sort.Slice(ms, func(i, j int) bool {
		if ms[i].role != ms[j].role {
			return ms[i].role < ms[j].role
		}
		return ms[i].term < ms[j].term
	})
	var ents []string
	for _, m := range ms {
		ents = append(ents, fmt.Sprintf("  (%s, %s)", leanStr(m.role), m.term))
	}
	b.WriteString("/-- the methods of the factory with the calls of other methods inlined, by the role of their signature (str: `string`, bytes: `[]byte`,\nptr: `*string`, code: the element type of the look-up map); sorted by (role, term) -/\n")
	b.WriteString("def factoryMethods : List (String × FT) := [\n" + strings.Join(ents, ",\n") + "]\n\n")
	// the constructors: functions returning (Column, error) whose first statement makes a factory
	var news, consts []*ast.FuncDecl
	var names []string
	for n := range c.fns {
		names = append(names, n)
	}
	sort.Strings(names)
	for _, n := range names {
		fd := c.fns[n]
		if fd.Recv != nil || fd.Type.Results == nil || len(fd.Type.Results.List) != 2 || src(fd.Type.Results.List[0].Type) != "Column" || src(fd.Type.Results.List[1].Type) != "error" || fd.Type.Params == nil {
			continue
		}
		var ptys []string
		for _, par := range fd.Type.Params.List {
			for range par.Names {
				ptys = append(ptys, src(par.Type))
			}
		}
		switch strings.Join(ptys, ",") {
		case "[]*string,[]string":
			news = append(news, fd)
		case "*string,int,[]string":
			consts = append(consts, fd)
		}
	}
	one := func(fds []*ast.FuncDecl, what string) string {
		if len(fds) != 1 {
			return "FL.opaque " + leanStr(fmt.Sprintf("%d functions %s", len(fds), what))
		}
		return c.constructor(fds[0], init).lean()
	}
	b.WriteString("/-- the constructor from cells (`New(data []*string, values []string) (Column, error)`), method bodies inlined -/\n")
	b.WriteString("def factoryNew : FL := " + one(news, "([]*string, []string) (Column, error)") + "\n\n")
	b.WriteString("/-- the constructor of a constant column (`NewConst(val *string, count int, values []string) (Column, error)`) -/\n")
	b.WriteString("def factoryNewConst : FL := " + one(consts, "(*string, int, []string) (Column, error)") + "\n")
	return b.String()
}
