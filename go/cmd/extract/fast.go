package main

// Translation go/ast → FE (lean/QF/Core/FExpr.lean) of the functions of package `function`, the functions the default
// evaluation context (config/eval/context.go) maps operator names to.
//
// The translation is by ROLE, never by identifier name: the first parameter is `.x`, the second `.y`; a local variable
// (`result := strconv.Itoa(x)`) is replaced by its definition; a call of another function of the package (`AndB(x, y)`)
// by the callee's term with the arguments for its parameters. Understood bodies:
//
//	return <expr>
//	if <cond> { return <a> } [else { … }] <rest>          (ite cond a rest; nests)
//	<name> := <expr>; <rest>                              (<rest> with <name> bound, e.g. `return &result`)
//
// and function-valued variables `var UpperS = nilSafe(strings.ToUpper)`, where `nilSafe` is a function of the package
// that returns a function literal: the literal's body with nilSafe's parameter bound to the external function.
// Whatever is not understood becomes `.opaque "<text>"`; such a function has no semantics in the model and the proofs
// of QF/Props/C07Functions.lean fail on it.

import (
	"fmt"
	"go/ast"
	"go/token"
	"sort"
	"strconv"
	"strings"
)

// fe is a term of the Lean type QF.FE.
type fe struct {
	c    string // constructor
	s    string // cmp: the Go operator; sprintf: the format; ext: the qualified function name; opaque: the text
	n    uint64 // intLit
	b    bool   // boolLit
	args []*fe
}

func fatom(c string) *fe              { return &fe{c: c} }
func fnode(c string, args ...*fe) *fe { return &fe{c: c, args: args} }
func fopaque(n ast.Node) *fe          { return &fe{c: "opaque", s: src(n)} }
func fopaqueText(s string) *fe        { return &fe{c: "opaque", s: s} }

func (k *fe) lean() string {
	parts := []string{"FE." + k.c}
	switch k.c {
	case "cmp", "sprintf", "ext", "opaque":
		parts = append(parts, leanStr(k.s))
	case "intLit":
		parts = append(parts, strconv.FormatUint(k.n, 10))
	case "boolLit":
		parts = append(parts, strconv.FormatBool(k.b))
	}
	for _, a := range k.args {
		s := a.lean()
		if strings.Contains(s, " ") {
			s = "(" + s + ")"
		}
		parts = append(parts, s)
	}
	return strings.Join(parts, " ")
}

// fbind is what a Go name stands for while a body is translated.
type fbind struct {
	kind string   // val | extfn | closure
	k    *fe      // val: the value
	name string   // extfn: qualified name of a function of another package
	cl   *closure // closure: a function value of this package
}

type fscope map[string]fbind

func (s fscope) clone() fscope {
	r := fscope{}
	for k, v := range s {
		r[k] = v
	}
	return r
}

// closure is a function value: parameters, body and the scope it was written in.
type closure struct {
	typ  *ast.FuncType
	body *ast.BlockStmt
	sc   fscope
}

// fctx is package `function`.
type fctx struct {
	fns     map[string]*ast.FuncDecl
	vars    map[string]ast.Expr // package-level `var N = <expr>`
	imports map[string]bool     // names under which other packages are imported
	depth   int
}

func fparamNames(t *ast.FuncType) []string {
	var res []string
	if t.Params == nil {
		return res
	}
	for _, par := range t.Params.List {
		if len(par.Names) == 0 {
			res = append(res, "_")
		}
		for _, nm := range par.Names {
			res = append(res, nm.Name)
		}
	}
	return res
}

func (c *fctx) expr(e ast.Expr, sc fscope) *fe {
	switch t := e.(type) {
	case *ast.ParenExpr:
		return c.expr(t.X, sc)
	case *ast.Ident:
		if b, ok := sc[t.Name]; ok {
			if b.kind == "val" {
				return b.k
			}
			return fopaque(e)
		}
		switch t.Name {
		case "nil":
			return fatom("nil")
		case "true":
			return &fe{c: "boolLit", b: true}
		case "false":
			return &fe{c: "boolLit", b: false}
		}
		return fopaque(e)
	case *ast.BasicLit:
		if t.Kind == token.INT {
			if n, err := strconv.ParseUint(t.Value, 0, 64); err == nil {
				return &fe{c: "intLit", n: n}
			}
		}
		return fopaque(e)
	case *ast.StarExpr:
		return fnode("deref", c.expr(t.X, sc))
	case *ast.UnaryExpr:
		switch t.Op {
		case token.NOT:
			return fnode("not", c.expr(t.X, sc))
		case token.SUB:
			return fnode("neg", c.expr(t.X, sc))
		case token.AND:
			return fnode("addr", c.expr(t.X, sc))
		}
		return fopaque(e)
	case *ast.BinaryExpr:
		a, b := c.expr(t.X, sc), c.expr(t.Y, sc)
		switch t.Op {
		case token.ADD:
			return fnode("add", a, b)
		case token.SUB:
			return fnode("sub", a, b)
		case token.MUL:
			return fnode("mul", a, b)
		case token.QUO:
			return fnode("div", a, b)
		case token.LAND:
			return fnode("and", a, b)
		case token.LOR:
			return fnode("or", a, b)
		case token.LSS, token.LEQ, token.GTR, token.GEQ, token.EQL, token.NEQ:
			return &fe{c: "cmp", s: t.Op.String(), args: []*fe{a, b}}
		}
		return fopaque(e)
	case *ast.CallExpr:
		return c.call(t, sc)
	}
	return fopaque(e)
}

// the binding an argument expression gives to the callee's parameter
func (c *fctx) bindArg(e ast.Expr, sc fscope) fbind {
	switch t := unparen(e).(type) {
	case *ast.Ident:
		if b, ok := sc[t.Name]; ok {
			return b
		}
		if cl := c.funcValue(t, sc); cl != nil {
			return fbind{kind: "closure", cl: cl}
		}
	case *ast.SelectorExpr:
		if id, ok := t.X.(*ast.Ident); ok {
			if _, bound := sc[id.Name]; !bound && c.imports[id.Name] {
				return fbind{kind: "extfn", name: id.Name + "." + t.Sel.Name}
			}
		}
	case *ast.FuncLit:
		return fbind{kind: "closure", cl: &closure{typ: t.Type, body: t.Body, sc: sc}}
	}
	return fbind{kind: "val", k: c.expr(e, sc)}
}

func (c *fctx) call(t *ast.CallExpr, sc fscope) *fe {
	if t.Ellipsis != token.NoPos {
		return fopaque(t)
	}
	switch f := unparen(t.Fun).(type) {
	case *ast.Ident:
		if b, ok := sc[f.Name]; ok {
			switch b.kind {
			case "extfn":
				if len(t.Args) == 1 {
					return &fe{c: "ext", s: b.name, args: []*fe{c.expr(t.Args[0], sc)}}
				}
			case "closure":
				return c.apply(b.cl, t, sc)
			}
			return fopaque(t)
		}
		if len(t.Args) == 1 {
			switch f.Name {
			case "float64":
				return fnode("toFloat", c.expr(t.Args[0], sc))
			case "int":
				return fnode("toInt", c.expr(t.Args[0], sc))
			case "len":
				return fnode("strLen", c.expr(t.Args[0], sc))
			}
		}
		if cl := c.funcValue(f, sc); cl != nil {
			return c.apply(cl, t, sc)
		}
		return fopaque(t)
	case *ast.SelectorExpr:
		id, ok := f.X.(*ast.Ident)
		if !ok {
			return fopaque(t)
		}
		if _, bound := sc[id.Name]; bound || !c.imports[id.Name] {
			return fopaque(t)
		}
		q := id.Name + "." + f.Sel.Name
		switch {
		case q == "strconv.Itoa" && len(t.Args) == 1:
			return fnode("itoa", c.expr(t.Args[0], sc))
		case q == "strconv.FormatBool" && len(t.Args) == 1:
			return fnode("formatBool", c.expr(t.Args[0], sc))
		case q == "fmt.Sprintf" && len(t.Args) == 2:
			if bl, ok := unparen(t.Args[0]).(*ast.BasicLit); ok && bl.Kind == token.STRING {
				if format, err := strconv.Unquote(bl.Value); err == nil {
					return &fe{c: "sprintf", s: format, args: []*fe{c.expr(t.Args[1], sc)}}
				}
			}
		case len(t.Args) == 1:
			return &fe{c: "ext", s: q, args: []*fe{c.expr(t.Args[0], sc)}}
		}
	}
	return fopaque(t)
}

// a call of a function value of this package: its body with the arguments for its parameters
func (c *fctx) apply(cl *closure, call *ast.CallExpr, sc fscope) *fe {
	names := fparamNames(cl.typ)
	if len(names) != len(call.Args) || c.depth > 4 {
		return fopaque(call)
	}
	inner := cl.sc.clone()
	for i, a := range call.Args {
		if names[i] != "_" {
			inner[names[i]] = c.bindArg(a, sc)
		}
	}
	sub := &fctx{fns: c.fns, vars: c.vars, imports: c.imports, depth: c.depth + 1}
	return sub.body(cl.body.List, inner, cl.body)
}

// funcValue resolves an expression that denotes a function of this package: a function literal, the name of a declared
// function, or a call `g(args…)` of a declared function whose body is `return <function value>`.
func (c *fctx) funcValue(e ast.Expr, sc fscope) *closure {
	if c.depth > 4 {
		return nil
	}
	switch t := unparen(e).(type) {
	case *ast.FuncLit:
		return &closure{typ: t.Type, body: t.Body, sc: sc}
	case *ast.Ident:
		if b, ok := sc[t.Name]; ok {
			if b.kind == "closure" {
				return b.cl
			}
			return nil
		}
		if fd, ok := c.fns[t.Name]; ok && fd.Recv == nil {
			return &closure{typ: fd.Type, body: fd.Body, sc: fscope{}}
		}
		if v, ok := c.vars[t.Name]; ok {
			sub := &fctx{fns: c.fns, vars: c.vars, imports: c.imports, depth: c.depth + 1}
			return sub.funcValue(v, fscope{})
		}
	case *ast.CallExpr:
		id, ok := unparen(t.Fun).(*ast.Ident)
		if !ok {
			return nil
		}
		if _, bound := sc[id.Name]; bound {
			return nil
		}
		g, ok := c.fns[id.Name]
		if !ok || g.Recv != nil || len(g.Body.List) != 1 {
			return nil
		}
		ret, ok := g.Body.List[0].(*ast.ReturnStmt)
		if !ok || len(ret.Results) != 1 {
			return nil
		}
		names := fparamNames(g.Type)
		if len(names) != len(t.Args) {
			return nil
		}
		inner := fscope{}
		for i, a := range t.Args {
			if names[i] != "_" {
				inner[names[i]] = c.bindArg(a, sc)
			}
		}
		sub := &fctx{fns: c.fns, vars: c.vars, imports: c.imports, depth: c.depth + 1}
		return sub.funcValue(ret.Results[0], inner)
	}
	return nil
}

// body translates a statement list that ends in a return on every path.
func (c *fctx) body(stmts []ast.Stmt, sc fscope, whole ast.Node) *fe {
	if len(stmts) == 0 {
		return fopaque(whole)
	}
	switch s := stmts[0].(type) {
	case *ast.ReturnStmt:
		if len(s.Results) == 1 && len(stmts) == 1 {
			return c.expr(s.Results[0], sc)
		}
	case *ast.IfStmt:
		if s.Init != nil {
			break
		}
		var rest *fe
		switch el := s.Else.(type) {
		case nil:
			rest = c.body(stmts[1:], sc, whole)
		case *ast.BlockStmt:
			if len(stmts) != 1 {
				return fopaque(whole)
			}
			rest = c.body(el.List, sc.clone(), whole)
		case *ast.IfStmt:
			if len(stmts) != 1 {
				return fopaque(whole)
			}
			rest = c.body([]ast.Stmt{el}, sc, whole)
		default:
			return fopaque(whole)
		}
		return fnode("ite", c.expr(s.Cond, sc), c.body(s.Body.List, sc.clone(), whole), rest)
	case *ast.AssignStmt:
		if s.Tok == token.DEFINE && len(s.Lhs) == 1 && len(s.Rhs) == 1 {
			if id, ok := s.Lhs[0].(*ast.Ident); ok {
				inner := sc.clone()
				if id.Name != "_" {
					inner[id.Name] = fbind{kind: "val", k: c.expr(s.Rhs[0], sc)}
				}
				return c.body(stmts[1:], inner, whole)
			}
		}
	case *ast.BlockStmt:
		if len(stmts) == 1 {
			return c.body(s.List, sc.clone(), whole)
		}
	}
	return fopaque(whole)
}

// function translates a function value with its parameters in the roles x, y.
func (c *fctx) function(cl *closure) *fe {
	sc := cl.sc.clone()
	for i, n := range fparamNames(cl.typ) {
		if n == "_" {
			continue
		}
		switch i {
		case 0:
			sc[n] = fbind{kind: "val", k: fatom("x")}
		case 1:
			sc[n] = fbind{kind: "val", k: fatom("y")}
		default:
			sc[n] = fbind{kind: "val", k: fopaqueText("parameter " + strconv.Itoa(i))}
		}
	}
	return c.body(cl.body.List, sc, cl.body)
}

func returnsFunc(t *ast.FuncType) bool {
	if t.Results == nil {
		return false
	}
	for _, r := range t.Results.List {
		if _, ok := r.Type.(*ast.FuncType); ok {
			return true
		}
	}
	return false
}

// functionAsts lists ("<pkg>.<Name>", term) for every function of the package: declared functions (except the ones that
// return a function: they only occur applied, in the initialiser of a variable) and function-valued variables.
func functionAsts(pkg string, files map[string]*ast.File) []string {
	c := &fctx{fns: map[string]*ast.FuncDecl{}, vars: map[string]ast.Expr{}, imports: map[string]bool{}}
	for _, f := range files {
		for _, im := range f.Imports {
			path, err := strconv.Unquote(im.Path.Value)
			if err != nil {
				continue
			}
			name := path[strings.LastIndex(path, "/")+1:]
			if im.Name != nil {
				name = im.Name.Name
			}
			c.imports[name] = true
		}
		for _, d := range f.Decls {
			switch t := d.(type) {
			case *ast.FuncDecl:
				if t.Recv == nil && t.Body != nil {
					c.fns[t.Name.Name] = t
				}
			case *ast.GenDecl:
				if t.Tok != token.VAR {
					continue
				}
				for _, sp := range t.Specs {
					vs, ok := sp.(*ast.ValueSpec)
					if !ok || len(vs.Names) != len(vs.Values) {
						continue
					}
					for i, n := range vs.Names {
						c.vars[n.Name] = vs.Values[i]
					}
				}
			}
		}
	}
	terms := map[string]*fe{}
	for n, fd := range c.fns {
		if returnsFunc(fd.Type) {
			continue
		}
		terms[n] = c.function(&closure{typ: fd.Type, body: fd.Body, sc: fscope{}})
	}
	for n, v := range c.vars {
		_, isCall := unparen(v).(*ast.CallExpr)
		_, isLit := unparen(v).(*ast.FuncLit)
		_, isName := unparen(v).(*ast.Ident)
		if !isCall && !isLit && !isName {
			continue
		}
		if cl := c.funcValue(v, fscope{}); cl != nil {
			terms[n] = c.function(cl)
		} else if isCall {
			terms[n] = fopaque(v)
		}
	}
	names := make([]string, 0, len(terms))
	for n := range terms {
		names = append(names, n)
	}
	sort.Strings(names)
	var res []string
	for _, n := range names {
		res = append(res, fmt.Sprintf("  (%s, %s)", leanStr(pkg+"."+n), terms[n].lean()))
	}
	return res
}
