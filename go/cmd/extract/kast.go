package main

// Translation go/ast → KE (lean/QF/Core/KExpr.lean) of the filter kernels of the five column packages.
//
// The translation is by ROLE, never by identifier name: the role of a name comes from the position and the type of
// the parameter that introduces it (index.Int → the index, index.Bool → the mask, the first remaining parameter or
// the receiver → the column, a further parameter of the column's type → the second column, a func → the custom
// predicate, *bitset → the bitset, anything else → the constant argument) and from the declarations in front of and
// inside the loop (`pos := index[i]`, `s, isNull := c.stringAt(index[i])`, `enum := column[index[i]]`,
// `otherC, ok := comparatee.(Column)`, `matcher, err := qfstrings.NewMatcher(comparatee, caseSensitive)`).
// A kernel that only forwards to another function of the package (`return regexFilter(index, s, comparatee, bIndex,
// true)`) is translated by translating the callee with the caller's arguments bound to the callee's parameters.
// Whatever is not understood becomes `.opaque "<text>"`; such a kernel has no semantics in the model and the proofs
// of QF/Props/C02Kernels.lean fail on it.

import (
	"fmt"
	"go/ast"
	"go/token"
	"sort"
	"strconv"
	"strings"
)

// ke is a term of the Lean type QF.KE.
type ke struct {
	c    string // constructor
	s    string // cmp: the Go operator; opaque: the text
	n    int    // num, arg
	b    bool   // lit
	args []*ke
}

func atom(c string) *ke              { return &ke{c: c} }
func node(c string, args ...*ke) *ke { return &ke{c: c, args: args} }
func opaque(n ast.Node) *ke          { return &ke{c: "opaque", s: src(n)} }
func opaqueText(s string) *ke        { return &ke{c: "opaque", s: s} }

func (k *ke) lean() string {
	var parts []string
	parts = append(parts, "KE."+k.c)
	switch k.c {
	case "cmp", "opaque":
		parts = append(parts, leanStr(k.s))
	case "num", "arg":
		parts = append(parts, strconv.Itoa(k.n))
	case "lit":
		parts = append(parts, strconv.FormatBool(k.b))
	}
	for _, a := range k.args {
		s := a.lean()
		if strings.Contains(s, " ") {
			s = "(" + s + ")"
		}
		parts = append(parts, s)
	}
	return strings.Join(parts, " ")
}

// sym is what a Go name (or expression) stands for while a kernel is translated.
type sym struct {
	kind string // val | pair | index | mask | maskval | i | pos | col | col2 | data | data2 | fn | bset | const | matcher | values | newbset | ok | err
	k    *ke    // val: the value; pair: first result; matcher: the pattern
	k2   *ke    // pair: second result; matcher: the case-sensitivity flag
}

func val(k *ke) sym { return sym{kind: "val", k: k} }

type scope map[string]sym

func (s scope) clone() scope {
	r := scope{}
	for k, v := range s {
		r[k] = v
	}
	return r
}

// kctx is the package a kernel lives in.
type kctx struct {
	pkg   string
	fns   map[string]*ast.FuncDecl
	depth int
}

// cellField is the field of the package's Column struct that holds the cells (nothing for scolumn, whose `data` is the
// byte buffer the pointers refer to; its cells are read with stringAt).
var cellField = map[string]string{"icolumn": "data", "fcolumn": "data", "bcolumn": "data", "ecolumn": "data"}

// value of a symbol used as an operand
func (s sym) value(n ast.Node) *ke {
	switch s.kind {
	case "val":
		return s.k
	case "const":
		return atom("const")
	}
	return opaque(n)
}

func (c *kctx) expr(e ast.Expr, sc scope) sym {
	switch t := e.(type) {
	case *ast.ParenExpr:
		return c.expr(t.X, sc)
	case *ast.Ident:
		if s, ok := sc[t.Name]; ok {
			return s
		}
		switch t.Name {
		case "true":
			return val(&ke{c: "lit", b: true})
		case "false":
			return val(&ke{c: "lit", b: false})
		}
		return val(opaque(e))
	case *ast.BasicLit:
		if t.Kind == token.INT {
			if n, err := strconv.ParseInt(t.Value, 0, 64); err == nil && n >= 0 {
				return val(&ke{c: "num", n: int(n)})
			}
		}
		return val(opaque(e))
	case *ast.UnaryExpr:
		if t.Op == token.NOT {
			return val(node("not", c.expr(t.X, sc).value(t.X)))
		}
		return val(opaque(e))
	case *ast.BinaryExpr:
		a, b := c.expr(t.X, sc).value(t.X), c.expr(t.Y, sc).value(t.Y)
		switch t.Op {
		case token.LAND:
			return val(node("and", a, b))
		case token.LOR:
			return val(node("or", a, b))
		case token.AND:
			return val(node("band", a, b))
		case token.LSS, token.LEQ, token.GTR, token.GEQ, token.EQL, token.NEQ:
			return val(&ke{c: "cmp", s: t.Op.String(), args: []*ke{a, b}})
		}
		return val(opaque(e))
	case *ast.IndexExpr:
		x, ix := c.expr(t.X, sc), c.expr(t.Index, sc)
		switch {
		case x.kind == "index" && ix.kind == "i":
			return sym{kind: "pos"}
		case x.kind == "data" && ix.kind == "pos":
			return val(atom("cell"))
		case x.kind == "data2" && ix.kind == "pos":
			return val(atom("cell2"))
		}
		return val(opaque(e))
	case *ast.SelectorExpr:
		x := c.expr(t.X, sc)
		if f, ok := cellField[c.pkg]; ok && t.Sel.Name == f {
			switch x.kind {
			case "col":
				return sym{kind: "data"}
			case "col2":
				return sym{kind: "data2"}
			}
		}
		return val(opaque(e))
	case *ast.CallExpr:
		return c.call(t, sc)
	}
	return val(opaque(e))
}

func (c *kctx) call(t *ast.CallExpr, sc scope) sym {
	args := make([]sym, len(t.Args))
	for i, a := range t.Args {
		args[i] = c.expr(a, sc)
	}
	arg := func(i int) *ke { return args[i].value(t.Args[i]) }
	switch f := t.Fun.(type) {
	case *ast.Ident:
		if s, ok := sc[f.Name]; ok {
			if s.kind == "fn" && len(args) == 1 {
				return val(node("custom1", arg(0)))
			}
			if s.kind == "fn" && len(args) == 2 {
				return val(node("custom2", arg(0), arg(1)))
			}
			return val(opaque(t))
		}
		if f.Name == "stringToPtr" && c.pkg == "scolumn" {
			if len(args) == 1 && args[0].kind == "pair" {
				return val(node("ptr", args[0].k, args[0].k2))
			}
			if len(args) == 2 {
				return val(node("ptr", arg(0), arg(1)))
			}
		}
		return val(opaque(t))
	case *ast.SelectorExpr:
		if id, ok := f.X.(*ast.Ident); ok {
			if _, bound := sc[id.Name]; !bound && id.Name == "math" && f.Sel.Name == "IsNaN" && len(args) == 1 {
				return val(node("isNaN", arg(0)))
			}
		}
		recv := c.expr(f.X, sc)
		m := f.Sel.Name
		switch recv.kind {
		case "col", "col2":
			second := recv.kind == "col2"
			if m == "stringAt" && c.pkg == "scolumn" && len(args) == 1 && args[0].kind == "pos" {
				if second {
					return sym{kind: "pair", k: atom("cell2"), k2: atom("isNull2")}
				}
				return sym{kind: "pair", k: atom("cell"), k2: atom("isNull")}
			}
			if m == "stringPtrAt" && c.pkg == "ecolumn" && len(args) == 1 && args[0].kind == "pos" {
				if second {
					return val(atom("cellPtr2"))
				}
				return val(atom("cellPtr"))
			}
		case "val", "const":
			if c.pkg == "ecolumn" && len(args) == 0 {
				if m == "isNull" {
					return val(node("nullTest", recv.value(f.X)))
				}
				if m == "compVal" {
					return val(node("rank", recv.value(f.X)))
				}
			}
			if recv.kind == "const" && m == "Contains" && len(args) == 1 {
				return val(node("contains", arg(0)))
			}
		case "bset":
			if m == "isSet" && len(args) == 1 {
				return val(node("bitset", arg(0)))
			}
		case "matcher":
			if m == "Matches" && len(args) == 1 {
				return val(node("matches", recv.k, recv.k2, arg(0)))
			}
		}
	}
	return val(opaque(t))
}

// bind `lhs := rhs` / `lhs = rhs` of the declarations in front of and inside the loop
func (c *kctx) define(as *ast.AssignStmt, sc scope) bool {
	names := make([]string, len(as.Lhs))
	for i, l := range as.Lhs {
		id, ok := l.(*ast.Ident)
		if !ok {
			return false
		}
		names[i] = id.Name
	}
	if as.Tok != token.DEFINE {
		return false
	}
	var vals []sym
	switch {
	case len(as.Rhs) == len(as.Lhs):
		for _, r := range as.Rhs {
			vals = append(vals, c.expr(r, sc))
		}
	case len(as.Lhs) == 2 && len(as.Rhs) == 1:
		r := as.Rhs[0]
		if ta, ok := r.(*ast.TypeAssertExpr); ok && ta.Type != nil {
			// otherC, ok := comparatee.(Column): the argument is the second column
			x := c.expr(ta.X, sc)
			if x.kind == "const" && src(ta.Type) == "Column" {
				vals = []sym{{kind: "col2"}, {kind: "ok"}}
				break
			}
			return false
		}
		if call, ok := r.(*ast.CallExpr); ok {
			if sel, ok := call.Fun.(*ast.SelectorExpr); ok && sel.Sel.Name == "NewMatcher" && len(call.Args) == 2 {
				if id, ok := sel.X.(*ast.Ident); ok {
					if _, bound := sc[id.Name]; !bound {
						p, f := c.expr(call.Args[0], sc), c.expr(call.Args[1], sc)
						vals = []sym{{kind: "matcher", k: p.value(call.Args[0]), k2: f.value(call.Args[1])}, {kind: "err"}}
						break
					}
				}
			}
		}
		p := c.expr(r, sc)
		if p.kind != "pair" {
			return false
		}
		vals = []sym{val(p.k), val(p.k2)}
	default:
		return false
	}
	for i, n := range names {
		if n != "_" {
			sc[n] = vals[i]
		}
	}
	return true
}

// `if !ok { return … }` / `if err != nil { return … }` after a declaration in front of the loop
func (c *kctx) isBailOut(st ast.Stmt, sc scope) bool {
	ifs, ok := st.(*ast.IfStmt)
	if !ok || ifs.Init != nil || ifs.Else != nil || len(ifs.Body.List) != 1 {
		return false
	}
	if _, ok := ifs.Body.List[0].(*ast.ReturnStmt); !ok {
		return false
	}
	switch t := unparen(ifs.Cond).(type) {
	case *ast.UnaryExpr:
		if id, ok := unparen(t.X).(*ast.Ident); ok && t.Op == token.NOT {
			return sc[id.Name].kind == "ok"
		}
	case *ast.BinaryExpr:
		x, okx := unparen(t.X).(*ast.Ident)
		y, oky := unparen(t.Y).(*ast.Ident)
		if okx && oky && t.Op == token.NEQ && y.Name == "nil" {
			return sc[x.Name].kind == "err"
		}
	}
	return false
}

// parameter roles from positions and types
func (c *kctx) paramScope(fd *ast.FuncDecl) scope {
	sc := scope{}
	colType := ""
	if fd.Recv != nil && len(fd.Recv.List) == 1 {
		colType = src(fd.Recv.List[0].Type)
		for _, n := range fd.Recv.List[0].Names {
			sc[n.Name] = sym{kind: "col"}
		}
	}
	builder := returnsBitset(fd)
	pos := 0
	haveValues, haveSecond, haveConst := false, false, false
	if fd.Type.Params == nil {
		return sc
	}
	for _, par := range fd.Type.Params.List {
		ty := src(par.Type)
		names := par.Names
		if len(names) == 0 {
			names = []*ast.Ident{{Name: "_"}}
		}
		for _, nm := range names {
			var s sym
			_, isFunc := par.Type.(*ast.FuncType)
			_, isSlice := par.Type.(*ast.ArrayType)
			switch {
			case ty == "index.Int":
				s = sym{kind: "index"}
			case ty == "index.Bool":
				s = sym{kind: "mask"}
			case isFunc:
				s = sym{kind: "fn"}
			case ty == "*bitset":
				s = sym{kind: "bset"}
			case builder && ty == "[]string" && !haveValues:
				haveValues = true
				s = sym{kind: "values"}
			case !builder && colType == "":
				colType = ty
				if isSlice {
					s = sym{kind: "data"}
				} else {
					s = sym{kind: "col"}
				}
			case !builder && ty == colType && fd.Recv == nil && !haveSecond && !haveConst:
				haveSecond = true
				if isSlice {
					s = sym{kind: "data2"}
				} else {
					s = sym{kind: "col2"}
				}
			case !haveConst && !haveSecond:
				haveConst = true
				s = sym{kind: "const"}
			default:
				// a further parameter without a role of its own (regexFilter's caseSensitive): known by its position
				s = val(&ke{c: "arg", n: pos})
			}
			if nm.Name != "_" {
				sc[nm.Name] = s
			}
			pos++
		}
	}
	return sc
}

func paramNames(fd *ast.FuncDecl) []string {
	var res []string
	if fd.Type.Params == nil {
		return res
	}
	for _, par := range fd.Type.Params.List {
		if len(par.Names) == 0 {
			res = append(res, "_")
		}
		for _, nm := range par.Names {
			res = append(res, nm.Name)
		}
	}
	return res
}

func unparen(e ast.Expr) ast.Expr {
	for {
		p, ok := e.(*ast.ParenExpr)
		if !ok {
			return e
		}
		e = p.X
	}
}

func returnsBitset(fd *ast.FuncDecl) bool {
	return fd.Type.Results != nil && len(fd.Type.Results.List) > 0 && src(fd.Type.Results.List[0].Type) == "*bitset"
}

func hasMaskParam(fd *ast.FuncDecl) bool {
	if fd.Type.Params == nil {
		return false
	}
	for _, par := range fd.Type.Params.List {
		if src(par.Type) == "index.Bool" {
			return true
		}
	}
	return false
}

// kernel translates a function: (shape, term).
// Shapes: guarded[+pre] (`for i, x := range mask { if !x { mask[i] = e } }`), unguarded[+pre] (`for i := range mask
// { mask[i] = e }`), noop (no statement with an effect), bitset[+pre] (`for i, v := range values { if e { bset.set(
// enumVal(i)) } }; return bset`, the term is over the value `v` as `.cell`), opaque.
func (c *kctx) kernel(fd *ast.FuncDecl, sc scope) (string, *ke) {
	whole := func() (string, *ke) { return "opaque", opaqueText(src(fd.Body)) }
	var loop *ast.RangeStmt
	pre, after := false, false
	for _, st := range fd.Body.List {
		if after {
			// only a final `return nil` / `return bset[, nil]`
			ret, ok := st.(*ast.ReturnStmt)
			if !ok {
				return whole()
			}
			for i, r := range ret.Results {
				id, ok := r.(*ast.Ident)
				if !ok {
					return whole()
				}
				if _, bound := sc[id.Name]; id.Name == "nil" && !bound {
					continue
				}
				if i == 0 && sc[id.Name].kind == "newbset" {
					continue
				}
				return whole()
			}
			continue
		}
		switch s := st.(type) {
		case *ast.RangeStmt:
			if id, ok := s.X.(*ast.Ident); ok && (sc[id.Name].kind == "mask" || sc[id.Name].kind == "values") {
				loop = s
				after = true
				continue
			}
			return whole()
		case *ast.ReturnStmt:
			if len(s.Results) == 1 {
				if call, ok := s.Results[0].(*ast.CallExpr); ok && len(fd.Body.List) == 1 {
					return c.delegate(call, sc, fd)
				}
			}
			after = true
			for _, r := range s.Results {
				if id, ok := r.(*ast.Ident); !ok || id.Name != "nil" {
					return whole()
				}
			}
		case *ast.AssignStmt:
			if len(s.Lhs) == 1 && len(s.Rhs) == 1 && s.Tok == token.ASSIGN {
				if id, ok := s.Lhs[0].(*ast.Ident); ok && id.Name == "_" {
					if _, ok := s.Rhs[0].(*ast.Ident); ok {
						continue // `_ = bIndex`
					}
				}
			}
			if s.Tok == token.DEFINE && len(s.Lhs) == 1 && len(s.Rhs) == 1 && src(s.Rhs[0]) == "&bitset{}" {
				if id, ok := s.Lhs[0].(*ast.Ident); ok {
					sc[id.Name] = sym{kind: "newbset"}
					continue
				}
			}
			if !c.define(s, sc) {
				return whole()
			}
			pre = true
		case *ast.IfStmt:
			if !c.isBailOut(s, sc) {
				return whole()
			}
			pre = true
		default:
			return whole()
		}
	}
	suffix := ""
	if pre {
		suffix = "+pre"
	}
	if loop == nil {
		if pre {
			return whole()
		}
		return "noop", atom("skip")
	}
	if loop.Tok != token.DEFINE {
		return whole()
	}
	key, _ := loop.Key.(*ast.Ident)
	if key == nil {
		return whole()
	}
	over := sc[loop.X.(*ast.Ident).Name].kind
	sc = sc.clone()
	body := loop.Body.List
	if over == "values" {
		// for i, v := range values { if e { bset.set(enumVal(i)) } }
		v, _ := loop.Value.(*ast.Ident)
		if v == nil || len(body) != 1 {
			return whole()
		}
		sc[key.Name] = sym{kind: "i"}
		sc[v.Name] = val(atom("cell"))
		ifs, ok := body[0].(*ast.IfStmt)
		if !ok || ifs.Init != nil || ifs.Else != nil || len(ifs.Body.List) != 1 {
			return whole()
		}
		es, ok := ifs.Body.List[0].(*ast.ExprStmt)
		if !ok {
			return whole()
		}
		call, ok := es.X.(*ast.CallExpr)
		if !ok || len(call.Args) != 1 {
			return whole()
		}
		sel, ok := call.Fun.(*ast.SelectorExpr)
		if !ok || sel.Sel.Name != "set" {
			return whole()
		}
		if id, ok := sel.X.(*ast.Ident); !ok || sc[id.Name].kind != "newbset" {
			return whole()
		}
		conv, ok := call.Args[0].(*ast.CallExpr)
		if !ok || len(conv.Args) != 1 || src(conv.Fun) != "enumVal" {
			return whole()
		}
		if id, ok := conv.Args[0].(*ast.Ident); !ok || sc[id.Name].kind != "i" {
			return whole()
		}
		return "bitset" + suffix, c.expr(ifs.Cond, sc).value(ifs.Cond)
	}
	sc[key.Name] = sym{kind: "i"}
	guarded := false
	if loop.Value != nil {
		v, ok := loop.Value.(*ast.Ident)
		if !ok {
			return whole()
		}
		sc[v.Name] = sym{kind: "maskval"}
		if len(body) != 1 {
			return whole()
		}
		ifs, ok := body[0].(*ast.IfStmt)
		if !ok || ifs.Init != nil || ifs.Else != nil {
			return whole()
		}
		u, ok := unparen(ifs.Cond).(*ast.UnaryExpr)
		if !ok || u.Op != token.NOT {
			return whole()
		}
		if id, ok := unparen(u.X).(*ast.Ident); !ok || sc[id.Name].kind != "maskval" {
			return whole()
		}
		guarded = true
		body = ifs.Body.List
	}
	isMaskEntry := func(e ast.Expr) bool {
		ix, ok := unparen(e).(*ast.IndexExpr)
		if !ok {
			return false
		}
		return c.expr(ix.X, sc).kind == "mask" && c.expr(ix.Index, sc).kind == "i"
	}
	var result *ke
	for n, st := range body {
		last := n == len(body)-1
		switch s := st.(type) {
		case *ast.AssignStmt:
			if last && s.Tok == token.ASSIGN && len(s.Lhs) == 1 && len(s.Rhs) == 1 && isMaskEntry(s.Lhs[0]) {
				result = c.expr(s.Rhs[0], sc).value(s.Rhs[0])
				continue
			}
			if last || !c.define(s, sc) {
				return whole()
			}
		case *ast.IfStmt:
			// if cond { mask[i] = e }: under the guard the entry is false, so this is mask[i] = cond && e
			if !last || !guarded || s.Init != nil || s.Else != nil || len(s.Body.List) != 1 {
				return whole()
			}
			a, ok := s.Body.List[0].(*ast.AssignStmt)
			if !ok || a.Tok != token.ASSIGN || len(a.Lhs) != 1 || len(a.Rhs) != 1 || !isMaskEntry(a.Lhs[0]) {
				return whole()
			}
			result = node("and", c.expr(s.Cond, sc).value(s.Cond), c.expr(a.Rhs[0], sc).value(a.Rhs[0]))
		default:
			return whole()
		}
	}
	if result == nil {
		return whole()
	}
	if guarded {
		return "guarded" + suffix, result
	}
	return "unguarded" + suffix, result
}

// `return callee(args…)`: the callee's term with the caller's arguments for its parameters
func (c *kctx) delegate(call *ast.CallExpr, sc scope, caller *ast.FuncDecl) (string, *ke) {
	id, ok := call.Fun.(*ast.Ident)
	if !ok || c.depth > 3 {
		return "opaque", opaque(call)
	}
	if _, bound := sc[id.Name]; bound {
		return "opaque", opaque(call)
	}
	callee, ok := c.fns[id.Name]
	if !ok || callee == caller || callee.Recv != nil {
		return "opaque", opaque(call)
	}
	names := paramNames(callee)
	if len(names) != len(call.Args) || returnsBitset(callee) != returnsBitset(caller) {
		return "opaque", opaque(call)
	}
	inner := scope{}
	for i, a := range call.Args {
		if names[i] != "_" {
			inner[names[i]] = c.expr(a, sc)
		}
	}
	sub := &kctx{pkg: c.pkg, fns: c.fns, depth: c.depth + 1}
	return sub.kernel(callee, inner)
}

// kernelAsts lists (package, function, shape, term) for every function of the package that takes the mask
// (a parameter of type index.Bool) or builds a bitset, except the dispatchers Filter / filterBuiltIn.
func kernelAsts(pkg string, fns map[string]*ast.FuncDecl) []string {
	names := make([]string, 0, len(fns))
	for n := range fns {
		names = append(names, n)
	}
	sort.Strings(names)
	var res []string
	for _, n := range names {
		fd := fns[n]
		if n == "Column.Filter" || n == "Column.filterBuiltIn" {
			continue
		}
		if !hasMaskParam(fd) && !(pkg == "ecolumn" && returnsBitset(fd) && fd.Recv == nil) {
			continue
		}
		c := &kctx{pkg: pkg, fns: fns}
		shape, k := c.kernel(fd, c.paramScope(fd))
		res = append(res, fmt.Sprintf("  (%s, %s, %s, %s)", leanStr(pkg), leanStr(n), leanStr(shape), k.lean()))
	}
	return res
}
