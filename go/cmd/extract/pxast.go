package main

// Translation go/ast → PF / PStm / PA (lean/QF/Core/PExpr.lean) of the INDEX and COLUMN-LIST work of the projection and
// ordering operations of qframe.go, after their rejecting guards:
//
//	QFrame.Slice · QFrame.Select · QFrame.Drop · QFrame.Copy (→ setColumn, inlined) · setColumn on its own ·
//	QFrame.Sort · QFrame.Distinct · the helpers that build one frame literal (withErr, withIndex)
//
// and of the functions they rest on: Int.Copy, Int.Filter, Int.Len, NewAscending, NewBool, Bool.Len of internal/index and
// Distinct of internal/grouper.
//
// The bodies are executed SYMBOLICALLY, statement by statement:
//   - a REJECTING GUARD — `if … { return qf }`, `if … { return qf.withErr(…) }` (a frame that shares everything with the
//     receiver and carries a new error), a loop whose body consists of such guards, look-ups and inert statements — is
//     stepped over: those are the subject of gast.go / QF/Props/C08Guards.lean;
//   - a statement that touches the three kinds of storage (the `index.Int`, the `[]namedColumn`, the
//     `map[string]namedColumn`) becomes an atom `PA`: `make` → alloc…, `copy`, `x[i] = v`, `x = append(x, v)`,
//     `m[k] = v`, `s, ok := m[k]` → lookup into a register, `s.pos = i` → setPos, `sorter.Sort()` → sortIx;
//   - `int` locals, `namedColumn{…}` literals, a frame local and its field assignments are kept as symbolic VALUES and
//     substituted where they are used; an `if ok { … } else { … }` on the outcome of a look-up FORKS the function
//     (`PF.fork`), each branch running to its own `return`;
//   - a method of the frame whose body is one frame literal is inlined (`withIndex`, `withErr`), a tail call that forwards
//     the request (`Copy` → `setColumn`) is inlined, `return qf.Select(<computed names>...)` is `PRet.callSelect`;
//   - statements that only build values outside the model (`[]column.Comparable`, configs, `[]Order`) are INERT and
//     dropped, provided the frame methods they call write nowhere but into locals they made.
//
// Everything is named by ROLE (see PExpr.lean): struct fields by their types, parameters by type and position, locals by
// what they are bound to. Fixed vocabulary: the names of the exported operations, of the functions of internal/index and
// `GroupCount` (exported API). Whatever is not understood becomes `.opaque "<text>"`; such a term has no value and the
// proofs of QF/Props/C08ProjectGen.lean fail on it.

import (
	"fmt"
	"go/ast"
	"go/token"
	"strings"
)

// pxv is what a Go expression stands for during the symbolic execution.
type pxv struct {
	kind string // frame | ix | cols | mp | names | name | elem | int | col | cond | u32 | sorter | set | entries | stats | entry | bools | boolsMake | err | inert | callSel | opaque
	t    *lt
	fr   *pxframe
	reg  string // elem: the register it lives in ("" for a pure value)
	fn   *ast.FuncDecl
}

type pxframe struct {
	cols, mp, ix, err *lt
	self              bool // the receiver itself
}

var pxOpaque = &pxv{kind: "opaque"}
var pxInert = &pxv{kind: "inert"}

type pxscope map[string]*pxv

func (s pxscope) clone() pxscope {
	r := pxscope{}
	for k, v := range s {
		r[k] = v
	}
	return r
}

// pxctx: the packages and the roles of the struct fields.
type pxctx struct {
	rootFns, ixFns, grpFns, sortFns map[string]*ast.FuncDecl
	ixAlias, grpAlias, sortAlias    map[string]bool // import names in the root package
	strAlias, errAlias              map[string]bool
	grpIxAlias                      map[string]bool // import names of internal/index in internal/grouper
	colsField, mapField, ixField    string          // fields of QFrame by type
	errField                        string
	elemType                        string // namedColumn
	elemName, elemPos, elemCol      string
	entryType, entryOcc, entryFirst string         // tableEntry of internal/grouper
	ixIntType, ixBoolType           string         // `Int`, `Bool` of internal/index: the slice types of uint32 / bool
	pure                            map[string]int // frame methods: 1 = writes only into locals it made, 2 = not
}

// pxx is one symbolic execution.
type pxx struct {
	c       *pxctx
	pkg     string // root | index | grouper
	fns     map[string]*ast.FuncDecl
	recv    string
	regs    int
	newIx   bool
	newCols bool
	newMp   bool
	counter string // the int local that is counted up
	kept    string // the []string local that is appended to
	body    *[]*lt // where atoms go: the loop body (PL) if non-nil
	inWhen  *[]*lt // … or the atoms of an `if` inside a loop body (PA)
	out     []*lt  // top-level statements (PStm)
	dry     bool   // nothing may be emitted
	dirty   bool   // dry run: something would have been emitted
	depth   int
}

func (x *pxx) fork() *pxx {
	y := *x
	y.out = nil
	return &y
}

func pxName(t ast.Expr) string {
	switch v := t.(type) {
	case *ast.Ident:
		return v.Name
	case *ast.SelectorExpr:
		return src(v)
	case *ast.StarExpr:
		return "*" + pxName(v.X)
	case *ast.ArrayType:
		return "[]" + pxName(v.Elt)
	case *ast.Ellipsis:
		return "..." + pxName(v.Elt)
	case *ast.MapType:
		return "map[" + pxName(v.Key) + "]" + pxName(v.Value)
	}
	return src(t)
}

func structTypes(files map[string]*ast.File) map[string]*ast.StructType {
	res := map[string]*ast.StructType{}
	for _, f := range files {
		for _, d := range f.Decls {
			gd, ok := d.(*ast.GenDecl)
			if !ok || gd.Tok != token.TYPE {
				continue
			}
			for _, sp := range gd.Specs {
				ts := sp.(*ast.TypeSpec)
				if st, ok := ts.Type.(*ast.StructType); ok {
					res[ts.Name.Name] = st
				}
			}
		}
	}
	return res
}

func namedTypes(files map[string]*ast.File) map[string]ast.Expr {
	res := map[string]ast.Expr{}
	for _, f := range files {
		for _, d := range f.Decls {
			gd, ok := d.(*ast.GenDecl)
			if !ok || gd.Tok != token.TYPE {
				continue
			}
			for _, sp := range gd.Specs {
				ts := sp.(*ast.TypeSpec)
				res[ts.Name.Name] = ts.Type
			}
		}
	}
	return res
}

func newPxctx(repo string, root map[string]*ast.File, parse func(string) map[string]*ast.File) *pxctx {
	c := &pxctx{pure: map[string]int{}}
	ixFiles := parse("index")
	grpFiles := parse("grouper")
	sortFiles := parse("sort")
	c.rootFns, c.ixFns, c.grpFns, c.sortFns = funcDecls(root), funcDecls(ixFiles), funcDecls(grpFiles), funcDecls(sortFiles)
	c.ixAlias = importNames(root, "/internal/index")
	c.grpAlias = importNames(root, "/internal/grouper")
	c.sortAlias = importNames(root, "/internal/sort")
	c.strAlias = importNames(root, "/internal/strings")
	c.errAlias = importNames(root, "/qerrors")
	c.grpIxAlias = importNames(grpFiles, "/internal/index")
	// internal/index: the named slice types of uint32 and bool
	for n, t := range namedTypes(ixFiles) {
		if at, ok := t.(*ast.ArrayType); ok && at.Len == nil {
			switch pxName(at.Elt) {
			case "uint32":
				c.ixIntType = n
			case "bool":
				c.ixBoolType = n
			}
		}
	}
	// QFrame: fields by type; its element type
	sts := structTypes(root)
	if st, ok := sts["QFrame"]; ok {
		for _, fl := range st.Fields.List {
			for _, n := range fl.Names {
				switch t := fl.Type.(type) {
				case *ast.Ident:
					if t.Name == "error" && c.errField == "" {
						c.errField = n.Name
					}
				case *ast.MapType:
					if pxName(t.Key) == "string" && c.mapField == "" {
						c.mapField = n.Name
						c.elemType = pxName(t.Value)
					}
				case *ast.ArrayType:
					if t.Len == nil && c.colsField == "" {
						c.colsField = n.Name
					}
				case *ast.SelectorExpr:
					if id, ok := t.X.(*ast.Ident); ok && c.ixAlias[id.Name] && t.Sel.Name == c.ixIntType && c.ixField == "" {
						c.ixField = n.Name
					}
				}
			}
		}
	}
	if st, ok := sts[c.elemType]; ok {
		for _, fl := range st.Fields.List {
			if len(fl.Names) == 0 {
				if sel, ok := fl.Type.(*ast.SelectorExpr); ok && c.elemCol == "" {
					c.elemCol = sel.Sel.Name
				}
				continue
			}
			for _, n := range fl.Names {
				switch pxName(fl.Type) {
				case "string":
					if c.elemName == "" {
						c.elemName = n.Name
					}
				case "int":
					if c.elemPos == "" {
						c.elemPos = n.Name
					}
				}
			}
		}
	}
	// internal/grouper: the entry struct (it has an index and a bool) and its "first row" field: the uint32 field some
	// method assigns from a uint32 parameter
	for n, st := range structTypes(grpFiles) {
		hasIx, occ := false, ""
		u32 := map[string]bool{}
		for _, fl := range st.Fields.List {
			for _, fn := range fl.Names {
				switch t := fl.Type.(type) {
				case *ast.SelectorExpr:
					if id, ok := t.X.(*ast.Ident); ok && c.grpIxAlias[id.Name] && t.Sel.Name == c.ixIntType {
						hasIx = true
					}
				case *ast.Ident:
					if t.Name == "bool" && occ == "" {
						occ = fn.Name
					}
					if t.Name == "uint32" {
						u32[fn.Name] = true
					}
				}
			}
		}
		if !hasIx || occ == "" {
			continue
		}
		c.entryType, c.entryOcc = n, occ
		first := map[string]bool{}
		for _, fd := range c.grpFns {
			params := map[string]bool{}
			for _, p := range fd.Type.Params.List {
				if pxName(p.Type) == "uint32" {
					for _, pn := range p.Names {
						params[pn.Name] = true
					}
				}
			}
			ast.Inspect(fd.Body, func(nd ast.Node) bool {
				as, ok := nd.(*ast.AssignStmt)
				if !ok || as.Tok != token.ASSIGN || len(as.Lhs) != 1 || len(as.Rhs) != 1 {
					return true
				}
				sel, ok := as.Lhs[0].(*ast.SelectorExpr)
				id, ok2 := as.Rhs[0].(*ast.Ident)
				if ok && ok2 && u32[sel.Sel.Name] && params[id.Name] {
					first[sel.Sel.Name] = true
				}
				return true
			})
		}
		if len(first) == 1 {
			for f := range first {
				c.entryFirst = f
			}
		}
	}
	return c
}

/* ---- purity of frame methods that are called for a value outside the model ---- */

// does fd write only into locals it made itself (`make`, composite literals, `var`)? Calls of other frame methods are
// checked recursively; everything else it calls gets no storage of the model.
func (c *pxctx) pureMethod(name string) bool {
	if v, ok := c.pure[name]; ok {
		return v == 1
	}
	fd, ok := c.rootFns[name]
	if !ok {
		return false
	}
	c.pure[name] = 1 // recursion: assume
	recv := ""
	if fd.Recv != nil && len(fd.Recv.List) > 0 && len(fd.Recv.List[0].Names) > 0 {
		recv = fd.Recv.List[0].Names[0].Name
	}
	own := map[string]bool{}
	ok = true
	root := func(e ast.Expr) string {
		if id := rootIdent(e); id != nil {
			return id.Name
		}
		return ""
	}
	ast.Inspect(fd.Body, func(nd ast.Node) bool {
		switch s := nd.(type) {
		case *ast.AssignStmt:
			for i, l := range s.Lhs {
				switch lv := l.(type) {
				case *ast.Ident:
					if s.Tok == token.DEFINE && i < len(s.Rhs) {
						switch r := unparen(s.Rhs[i]).(type) {
						case *ast.CallExpr:
							if isIdent(r.Fun, "make") {
								own[lv.Name] = true
							}
						case *ast.CompositeLit:
							own[lv.Name] = true
						}
					}
				case *ast.IndexExpr:
					if !own[root(lv.X)] {
						ok = false
					}
				case *ast.SelectorExpr:
					if root(lv) == recv {
						ok = false
					}
				}
			}
		case *ast.DeclStmt:
			if gd, ok2 := s.Decl.(*ast.GenDecl); ok2 {
				for _, sp := range gd.Specs {
					if vs, ok3 := sp.(*ast.ValueSpec); ok3 && len(vs.Values) == 0 {
						for _, n := range vs.Names {
							own[n.Name] = true
						}
					}
				}
			}
		case *ast.CallExpr:
			if isIdent(s.Fun, "append") && len(s.Args) > 0 && !own[root(s.Args[0])] {
				ok = false
			}
			if isIdent(s.Fun, "copy") && len(s.Args) > 0 && !own[root(s.Args[0])] {
				ok = false
			}
			if isIdent(s.Fun, "delete") {
				ok = false
			}
			if sel, ok2 := s.Fun.(*ast.SelectorExpr); ok2 && isIdent(sel.X, recv) {
				if !c.pureMethod("QFrame." + sel.Sel.Name) {
					ok = false
				}
			}
		case *ast.GoStmt, *ast.FuncLit:
			ok = false
		}
		return true
	})
	if ok {
		c.pure[name] = 1
	} else {
		c.pure[name] = 2
	}
	return ok
}

/* ---- symbolic values ---- */

func pxop(n ast.Node) *lt { return ls("PI.opaque", src(n)) }

func (x *pxx) emit(a *lt) {
	if x.dry {
		// a look-up only binds a register: it may be part of a guard
		if a.head != "PA.lookup" {
			x.dirty = true
		}
		return
	}
	switch {
	case x.inWhen != nil:
		*x.inWhen = append(*x.inWhen, a)
	case x.body != nil:
		*x.body = append(*x.body, lh("PL.do", a))
	default:
		x.out = append(x.out, lh("PStm.do", a))
	}
}

func (x *pxx) nextReg() string {
	x.regs++
	switch x.regs {
	case 1:
		return "ERg.a"
	case 2:
		return "ERg.b"
	}
	return ""
}

func recvFrame() *pxv {
	return &pxv{kind: "frame", fr: &pxframe{cols: lh("PCs.recv"), mp: lh("PMp.recv"), ix: lh("PIx.recv"), err: lh("PEr.recv"), self: true}}
}

// the type of an index in the package being translated
func (x *pxx) isIxType(t ast.Expr) bool {
	switch x.pkg {
	case "index":
		return isIdent(t, x.c.ixIntType)
	case "root":
		sel, ok := t.(*ast.SelectorExpr)
		if !ok {
			return false
		}
		id, ok := sel.X.(*ast.Ident)
		return ok && x.c.ixAlias[id.Name] && sel.Sel.Name == x.c.ixIntType
	case "grouper":
		sel, ok := t.(*ast.SelectorExpr)
		if !ok {
			return false
		}
		id, ok := sel.X.(*ast.Ident)
		return ok && x.c.grpIxAlias[id.Name] && sel.Sel.Name == x.c.ixIntType
	}
	return false
}

func (x *pxx) isBoolIxType(t ast.Expr) bool {
	if x.pkg == "index" {
		return isIdent(t, x.c.ixBoolType)
	}
	sel, ok := t.(*ast.SelectorExpr)
	if !ok {
		return false
	}
	id, ok := sel.X.(*ast.Ident)
	return ok && x.c.ixAlias[id.Name] && sel.Sel.Name == x.c.ixBoolType
}

// the roles of receiver and parameters
func (x *pxx) topScope(fd *ast.FuncDecl) pxscope {
	sc := pxscope{}
	if fd.Recv != nil && len(fd.Recv.List) == 1 && len(fd.Recv.List[0].Names) == 1 {
		name := fd.Recv.List[0].Names[0].Name
		t := fd.Recv.List[0].Type
		switch {
		case x.pkg == "root" && isIdent(t, "QFrame"):
			sc[name] = recvFrame()
			x.recv = name
		case x.isIxType(t):
			sc[name] = &pxv{kind: "ix", t: lh("PIx.param")}
		case x.isBoolIxType(t):
			sc[name] = &pxv{kind: "bools"}
		default:
			sc[name] = pxOpaque
		}
	}
	ints, strs := 0, 0
	for _, p := range fd.Type.Params.List {
		for _, n := range p.Names {
			tn := pxName(p.Type)
			switch {
			case tn == "int" && x.pkg == "root":
				ints++
				switch ints {
				case 1:
					sc[n.Name] = &pxv{kind: "int", t: lh("PI.start")}
				case 2:
					sc[n.Name] = &pxv{kind: "int", t: lh("PI.stop")}
				default:
					sc[n.Name] = pxOpaque
				}
			case (tn == "int" || tn == "uint32") && x.pkg == "index":
				sc[n.Name] = &pxv{kind: "int", t: lh("PI.size")}
			case tn == "string":
				strs++
				switch strs {
				case 1:
					sc[n.Name] = &pxv{kind: "name", t: lh("PN.dst")}
				case 2:
					sc[n.Name] = &pxv{kind: "name", t: lh("PN.src")}
				default:
					sc[n.Name] = pxOpaque
				}
			case tn == "...string":
				sc[n.Name] = &pxv{kind: "names", t: lh("PNs.requested")}
			case tn == "error":
				sc[n.Name] = &pxv{kind: "err", t: lh("PEr.param")}
			case x.isIxType(p.Type):
				sc[n.Name] = &pxv{kind: "ix", t: lh("PIx.param")}
			case x.isBoolIxType(p.Type):
				sc[n.Name] = &pxv{kind: "bools"}
			case strings.HasSuffix(tn, ".Column") && !strings.HasPrefix(tn, "[]"):
				sc[n.Name] = &pxv{kind: "col", t: lh("PC.param")}
			default:
				sc[n.Name] = pxInert
			}
		}
	}
	return sc
}

func (x *pxx) intOf(e ast.Expr, sc pxscope) *lt {
	v := x.loopInt(x.eval(e, sc))
	if v.kind == "int" {
		return v.t
	}
	return pxop(e)
}

func (x *pxx) nameOf(e ast.Expr, sc pxscope) *lt {
	v := x.eval(e, sc)
	if v.kind == "name" {
		return v.t
	}
	return nil
}

func (x *pxx) elemOf(e ast.Expr, sc pxscope) *lt {
	v := x.eval(e, sc)
	if v.kind == "elem" {
		return v.t
	}
	return nil
}

// eval: what e stands for. Calls with an effect on the model (`ix.Copy()`, `grouper.Distinct(ix, …)`) emit their atom.
func (x *pxx) eval(e ast.Expr, sc pxscope) *pxv {
	e = unparen(e)
	switch t := e.(type) {
	case *ast.Ident:
		if v, ok := sc[t.Name]; ok {
			return v
		}
		if t.Name == "nil" {
			return &pxv{kind: "err", t: lh("PEr.none")}
		}
		if t.Name == "true" || t.Name == "false" {
			return pxInert
		}
		return pxOpaque
	case *ast.BasicLit:
		if t.Kind == token.INT {
			if s, ok := gIntLit(t); ok && !strings.HasPrefix(s, "(") {
				return &pxv{kind: "int", t: lh("PI.lit", lh(s))}
			}
		}
		return pxInert
	case *ast.SelectorExpr:
		v := x.eval(t.X, sc)
		switch v.kind {
		case "frame":
			switch t.Sel.Name {
			case x.c.colsField:
				return &pxv{kind: "cols", t: v.fr.cols}
			case x.c.mapField:
				return &pxv{kind: "mp", t: v.fr.mp}
			case x.c.ixField:
				return &pxv{kind: "ix", t: v.fr.ix}
			case x.c.errField:
				return &pxv{kind: "err", t: v.fr.err}
			}
		case "elem":
			switch t.Sel.Name {
			case x.c.elemName:
				return &pxv{kind: "name", t: lh("PN.nameOf", v.t)}
			case x.c.elemPos:
				return &pxv{kind: "int", t: lh("PI.posOf", v.t)}
			case x.c.elemCol:
				return &pxv{kind: "col", t: lh("PC.colOf", v.t)}
			}
			return pxInert
		case "stats":
			if t.Sel.Name == "GroupCount" {
				return &pxv{kind: "int", t: lh("PI.groupCount")}
			}
			return pxInert
		case "entry":
			switch t.Sel.Name {
			case x.c.entryOcc:
				return &pxv{kind: "cond", t: lh("PCond.occupied")}
			case x.c.entryFirst:
				return &pxv{kind: "u32", t: lh("PU.firstPos")}
			}
			return pxOpaque
		case "inert", "err":
			return pxInert
		}
		return pxOpaque
	case *ast.IndexExpr:
		v := x.eval(t.X, sc)
		switch v.kind {
		case "ix":
			return &pxv{kind: "u32", t: lh("PU.ixAt", v.t, x.intOf(t.Index, sc))}
		case "inert":
			return pxInert
		}
		return pxOpaque
	case *ast.SliceExpr:
		v := x.eval(t.X, sc)
		if v.kind == "ix" && t.Low != nil && t.High != nil && t.Max == nil {
			return &pxv{kind: "ix", t: lh("PIx.slice", v.t, x.intOf(t.Low, sc), x.intOf(t.High, sc))}
		}
		if v.kind == "inert" {
			return pxInert
		}
		return pxOpaque
	case *ast.BinaryExpr:
		a, b := x.eval(t.X, sc), x.eval(t.Y, sc)
		if a.kind == "int" && b.kind == "int" && t.Op == token.ADD {
			return &pxv{kind: "int", t: lh("PI.add", a.t, b.t)}
		}
		if a.kind == "inert" && b.kind == "inert" {
			return pxInert
		}
		return pxOpaque
	case *ast.UnaryExpr:
		if t.Op == token.NOT {
			v := x.eval(t.X, sc)
			if v.kind == "cond" && v.t.head == "PCond.requestedPos" {
				return &pxv{kind: "cond", t: lh("PCond.notRequested", v.t.args[0])}
			}
			if v.kind == "inert" {
				return pxInert
			}
		}
		return pxOpaque
	case *ast.CompositeLit:
		return x.composite(t, sc)
	case *ast.CallExpr:
		return x.call(t, sc)
	}
	return pxOpaque
}

func (x *pxx) composite(t *ast.CompositeLit, sc pxscope) *pxv {
	switch {
	case isIdent(t.Type, "QFrame") && x.pkg == "root":
		fr := &pxframe{cols: nil, mp: nil, ix: nil, err: lh("PEr.none")}
		for _, el := range t.Elts {
			kv, ok := el.(*ast.KeyValueExpr)
			if !ok {
				return pxOpaque
			}
			k, ok := kv.Key.(*ast.Ident)
			if !ok {
				return pxOpaque
			}
			v := x.eval(kv.Value, sc)
			switch {
			case k.Name == x.c.colsField && v.kind == "cols":
				fr.cols = v.t
			case k.Name == x.c.mapField && v.kind == "mp":
				fr.mp = v.t
			case k.Name == x.c.ixField && v.kind == "ix":
				fr.ix = v.t
			case k.Name == x.c.errField && (v.kind == "err" || v.kind == "inert"):
				if v.kind == "inert" {
					fr.err = lh("PEr.param")
				} else {
					fr.err = v.t
				}
			default:
				return pxOpaque
			}
		}
		return &pxv{kind: "frame", fr: fr}
	case isIdent(t.Type, x.c.elemType) && x.pkg == "root":
		var n, c, p *lt
		for _, el := range t.Elts {
			kv, ok := el.(*ast.KeyValueExpr)
			if !ok {
				return pxOpaque
			}
			k, ok := kv.Key.(*ast.Ident)
			if !ok {
				return pxOpaque
			}
			v := x.eval(kv.Value, sc)
			switch {
			case k.Name == x.c.elemName && v.kind == "name":
				n = v.t
			case k.Name == x.c.elemCol && v.kind == "col":
				c = v.t
			case k.Name == x.c.elemPos && v.kind == "int":
				p = v.t
			default:
				return pxOpaque
			}
		}
		if n == nil || c == nil || p == nil {
			return pxOpaque
		}
		return &pxv{kind: "elem", t: lh("PEl.mk", n, c, p)}
	}
	return pxInert
}

// the frame methods whose body is one frame literal
func (x *pxx) literalHelper(name string) *ast.FuncDecl {
	fd, ok := x.c.rootFns["QFrame."+name]
	if !ok || len(fd.Body.List) != 1 {
		return nil
	}
	r, ok := fd.Body.List[0].(*ast.ReturnStmt)
	if !ok || len(r.Results) != 1 {
		return nil
	}
	if cl, ok := unparen(r.Results[0]).(*ast.CompositeLit); !ok || !isIdent(cl.Type, "QFrame") {
		return nil
	}
	return fd
}

func (x *pxx) call(t *ast.CallExpr, sc pxscope) *pxv {
	// builtins and conversions
	if id, ok := t.Fun.(*ast.Ident); ok {
		switch id.Name {
		case "len":
			if len(t.Args) == 1 {
				v := x.eval(t.Args[0], sc)
				switch v.kind {
				case "names":
					return &pxv{kind: "int", t: lh("PI.countNames", v.t)}
				case "cols":
					return &pxv{kind: "int", t: lh("PI.lenCols", v.t)}
				case "ix":
					return &pxv{kind: "int", t: lh("PI.lenIx", v.t)}
				case "bools":
					return &pxv{kind: "int", t: lh("PI.lenBools")}
				case "inert":
					return pxInert
				}
			}
			return pxOpaque
		case "uint32", "int":
			if len(t.Args) == 1 {
				v := x.eval(t.Args[0], sc)
				if v.kind == "loopIndex" && id.Name == "uint32" {
					return &pxv{kind: "u32", t: lh("PU.ofI")}
				}
				v = x.loopInt(v)
				if v.kind == "int" || v.kind == "inert" {
					return v
				}
			}
			return pxOpaque
		case "make":
			return x.makeOf(t, sc)
		case "append", "copy", "delete", "panic":
			return pxOpaque // only as statements
		}
		// a function of the package
		if fd, ok := x.fns[id.Name]; ok && fd.Recv == nil {
			return x.localCall(fd, t, sc)
		}
		return pxOpaque
	}
	sel, ok := t.Fun.(*ast.SelectorExpr)
	if !ok {
		return pxOpaque
	}
	// pkg.F(…)
	if id, ok := sel.X.(*ast.Ident); ok {
		if _, bound := sc[id.Name]; !bound {
			return x.pkgCall(id.Name, sel.Sel.Name, t, sc)
		}
	}
	v := x.eval(sel.X, sc)
	switch v.kind {
	case "frame":
		if !v.fr.self {
			return pxOpaque
		}
		if fd := x.literalHelper(sel.Sel.Name); fd != nil {
			inner := pxscope{}
			if len(fd.Recv.List[0].Names) == 1 {
				inner[fd.Recv.List[0].Names[0].Name] = recvFrame()
			}
			i := 0
			for _, p := range fd.Type.Params.List {
				for _, n := range p.Names {
					if i >= len(t.Args) {
						return pxOpaque
					}
					a := x.eval(t.Args[i], sc)
					if a.kind == "inert" && pxName(p.Type) == "error" {
						a = &pxv{kind: "err", t: lh("PEr.param")}
					}
					inner[n.Name] = a
					i++
				}
			}
			return x.eval(fd.Body.List[0].(*ast.ReturnStmt).Results[0], inner)
		}
		if fd, ok := x.c.rootFns["QFrame."+sel.Sel.Name]; ok {
			// `qf.Select(<names>...)`: the whole operation
			if sel.Sel.Name == "Select" && len(t.Args) == 1 && t.Ellipsis != token.NoPos {
				if a := x.eval(t.Args[0], sc); a.kind == "names" {
					return &pxv{kind: "callSel", t: a.t}
				}
			}
			// a call that forwards the request is inlined by the caller (tail position only)
			if returnsOnly(fd, "QFrame") {
				return &pxv{kind: "frameCall", fn: fd}
			}
			if x.c.pureMethod("QFrame." + sel.Sel.Name) {
				return pxInert
			}
		}
		return pxOpaque
	case "ix":
		// methods of index.Int
		if fd, ok := x.c.ixFns[x.c.ixIntType+"."+sel.Sel.Name]; ok {
			res := ""
			if fd.Type.Results != nil && len(fd.Type.Results.List) == 1 {
				res = pxName(fd.Type.Results.List[0].Type)
			}
			switch {
			case res == x.c.ixIntType && len(t.Args) == 0:
				if x.newIx {
					return pxOpaque
				}
				x.newIx = true
				x.emit(lh("PA.callIx", lh("IxFn.copy"), v.t))
				return &pxv{kind: "ix", t: lh("PIx.new")}
			case res == "int" && len(t.Args) == 0:
				return &pxv{kind: "int", t: lh("PI.lenIx", v.t)}
			}
		}
		return pxOpaque
	case "bools":
		if fd, ok := x.c.ixFns[x.c.ixBoolType+"."+sel.Sel.Name]; ok && len(t.Args) == 0 {
			if fd.Type.Results != nil && len(fd.Type.Results.List) == 1 && pxName(fd.Type.Results.List[0].Type) == "int" {
				return &pxv{kind: "int", t: lh("PI.lenBools")}
			}
		}
		return pxOpaque
	case "set":
		if len(t.Args) == 1 {
			if n := x.nameOf(t.Args[0], sc); n != nil {
				if sel.Sel.Name == "Contains" {
					return &pxv{kind: "cond", t: lh("PCond.requestedPos", n)}
				}
			}
		}
		return pxOpaque
	case "sorter":
		return &pxv{kind: "sorterCall", t: v.t, reg: sel.Sel.Name}
	case "col", "inert", "elem":
		// methods of a column (outside the model), of inert values
		for _, a := range t.Args {
			if av := x.eval(a, sc); av.kind == "cols" || av.kind == "mp" || av.kind == "opaque" {
				return pxOpaque
			}
		}
		return pxInert
	}
	return pxOpaque
}

func (x *pxx) makeOf(t *ast.CallExpr, sc pxscope) *pxv {
	if len(t.Args) < 1 {
		return pxOpaque
	}
	switch ty := t.Args[0].(type) {
	case *ast.MapType:
		if pxName(ty.Key) == "string" && pxName(ty.Value) == x.c.elemType && x.pkg == "root" {
			return &pxv{kind: "makeMap"}
		}
		return pxInert
	case *ast.ArrayType:
		if ty.Len == nil && pxName(ty.Elt) == x.c.elemType && x.pkg == "root" && len(t.Args) == 2 {
			return &pxv{kind: "makeCols", t: x.intOf(t.Args[1], sc)}
		}
		if ty.Len == nil && pxName(ty.Elt) == "string" && len(t.Args) == 2 {
			if s, ok := gIntLit(t.Args[1]); ok && s == "0" {
				return &pxv{kind: "makeNames"}
			}
		}
		return pxInert
	}
	if x.isIxType(t.Args[0]) && (len(t.Args) == 2 || len(t.Args) == 3) {
		l := x.intOf(t.Args[1], sc)
		c := l
		if len(t.Args) == 3 {
			c = x.intOf(t.Args[2], sc)
		}
		return &pxv{kind: "makeIx", t: lh("PA.allocIx", l, c)}
	}
	if x.isBoolIxType(t.Args[0]) && len(t.Args) == 2 {
		return &pxv{kind: "boolsMake", t: x.intOf(t.Args[1], sc)}
	}
	return pxInert
}

// pkg.F(args)
func (x *pxx) pkgCall(pkg, fn string, t *ast.CallExpr, sc pxscope) *pxv {
	if x.pkg != "root" {
		return pxInert
	}
	args := make([]*pxv, len(t.Args))
	for i, a := range t.Args {
		args[i] = x.eval(a, sc)
	}
	switch {
	case x.c.grpAlias[pkg]:
		// the function of internal/grouper that takes the index first and returns an index
		if fd, ok := x.c.grpFns[fn]; ok && fd.Recv == nil && len(args) >= 1 && args[0].kind == "ix" &&
			fd.Type.Results != nil && len(fd.Type.Results.List) == 1 {
			if sel, ok := fd.Type.Results.List[0].Type.(*ast.SelectorExpr); ok && sel.Sel.Name == x.c.ixIntType {
				for _, a := range args[1:] {
					if a.kind != "inert" {
						return pxOpaque
					}
				}
				if x.newIx {
					return pxOpaque
				}
				x.newIx = true
				x.emit(lh("PA.callIx", lh("IxFn.distinct"), args[0].t))
				return &pxv{kind: "ix", t: lh("PIx.new")}
			}
		}
		return pxOpaque
	case x.c.sortAlias[pkg]:
		// the constructor of the sorter: its first parameter becomes the field the sorter swaps in
		if fd, ok := x.c.sortFns[fn]; ok && fd.Recv == nil && len(args) >= 1 && args[0].kind == "ix" && x.sorterCtor(fd) {
			return &pxv{kind: "sorter", t: args[0].t}
		}
		return pxOpaque
	case x.c.strAlias[pkg]:
		if len(args) == 1 && args[0].kind == "names" && args[0].t.head == "PNs.requested" && fn == "NewStringSet" {
			return &pxv{kind: "set"}
		}
		for _, a := range args {
			if a.kind != "inert" && a.kind != "name" && a.kind != "names" {
				return pxOpaque
			}
		}
		return pxInert
	case x.c.errAlias[pkg]:
		return &pxv{kind: "err", t: lh("PEr.param")}
	}
	// any other package: it must not get hold of the model's storage
	for _, a := range args {
		switch a.kind {
		case "ix", "cols", "mp", "frame", "opaque":
			return pxOpaque
		}
	}
	return pxInert
}

// `func New(ix index.Int, …) Sorter { return Sorter{<field>: ix, …} }` and the type has a method `Sort()`
func (x *pxx) sorterCtor(fd *ast.FuncDecl) bool {
	if len(fd.Body.List) != 1 || len(fd.Type.Params.List) == 0 || len(fd.Type.Params.List[0].Names) == 0 {
		return false
	}
	first := fd.Type.Params.List[0].Names[0].Name
	r, ok := fd.Body.List[0].(*ast.ReturnStmt)
	if !ok || len(r.Results) != 1 {
		return false
	}
	cl, ok := unparen(r.Results[0]).(*ast.CompositeLit)
	if !ok {
		return false
	}
	for _, el := range cl.Elts {
		if kv, ok := el.(*ast.KeyValueExpr); ok && isIdent(kv.Value, first) {
			_, hasSort := x.c.sortFns[pxName(cl.Type)+".Sort"]
			return hasSort
		}
	}
	return false
}

// a function of the package being translated, called for its values
func (x *pxx) localCall(fd *ast.FuncDecl, t *ast.CallExpr, sc pxscope) *pxv {
	if x.pkg == "grouper" && fd.Type.Results != nil && len(fd.Type.Results.List) == 2 && len(t.Args) >= 1 {
		// the table builder: (entries, stats) from the index
		if at, ok := fd.Type.Results.List[0].Type.(*ast.ArrayType); ok && pxName(at.Elt) == x.c.entryType {
			if a := x.eval(t.Args[0], sc); a.kind == "ix" && a.t.head == "PIx.param" {
				return &pxv{kind: "table"}
			}
		}
	}
	return pxOpaque
}

/* ---- statements ---- */

func (x *pxx) cond(e ast.Expr, sc pxscope) *lt {
	e = unparen(e)
	if be, ok := e.(*ast.BinaryExpr); ok && be.Op == token.EQL {
		a, b := x.eval(be.X, sc), x.eval(be.Y, sc)
		if a.kind == "int" && b.kind == "int" && a.t.head == "PI.countNames" && b.t.lean() == "PI.lit 0" {
			return lh("PCond.noNames", a.t.args[0])
		}
		return ls("PCond.opaque", src(e))
	}
	v := x.eval(e, sc)
	if v.kind == "cond" && v.t.head != "PCond.requestedPos" {
		return v.t
	}
	return ls("PCond.opaque", src(e))
}

// is st a statement the guard chain accounts for: `if … { return <the receiver | the receiver with a new error> }`,
// possibly after look-ups, or a loop made of such statements and inert ones?
func (x *pxx) skippable(st ast.Stmt, sc pxscope) bool {
	y := x.fork()
	y.dry, y.dirty = true, false
	return y.guardish(st, sc.clone()) && !y.dirty
}

func (x *pxx) guardish(st ast.Stmt, sc pxscope) bool {
	switch s := st.(type) {
	case *ast.IfStmt:
		if s.Else != nil || len(s.Body.List) != 1 {
			return false
		}
		r, ok := s.Body.List[0].(*ast.ReturnStmt)
		if !ok || len(r.Results) != 1 {
			return false
		}
		if s.Init != nil {
			as, ok := s.Init.(*ast.AssignStmt)
			if !ok || as.Tok != token.DEFINE || !x.assign(as, sc) {
				return false
			}
		}
		// the condition may call nothing that is not understood (a call could write)
		clean := true
		ast.Inspect(s.Cond, func(n ast.Node) bool {
			if call, ok := n.(*ast.CallExpr); ok {
				if v := x.eval(call, sc); v.kind == "opaque" || v.kind == "frameCall" {
					clean = false
				}
				return false
			}
			return true
		})
		if !clean {
			return false
		}
		v := x.eval(r.Results[0], sc)
		if v.kind != "frame" {
			return false
		}
		if v.fr.self {
			return true
		}
		same := func(a *lt, b string) bool { return a != nil && a.lean() == b }
		return same(v.fr.cols, "PCs.recv") && same(v.fr.mp, "PMp.recv") && same(v.fr.ix, "PIx.recv") && same(v.fr.err, "PEr.param")
	case *ast.RangeStmt:
		if !x.bindLoopVars(s, sc, true) {
			return false
		}
		sawGuard := false
		for _, b := range s.Body.List {
			switch bs := b.(type) {
			case *ast.IfStmt:
				if !x.guardish(bs, sc) {
					return false
				}
				sawGuard = true
			case *ast.AssignStmt:
				if !x.assign(bs, sc) {
					return false
				}
			default:
				return false
			}
		}
		return sawGuard
	}
	return false
}

// the loop variables of `for k, v := range X`; guard: only bind (no role needed for a loop that is stepped over)
func (x *pxx) bindLoopVars(s *ast.RangeStmt, sc pxscope, guard bool) bool {
	if s.Tok != token.DEFINE && !(s.Key == nil && s.Value == nil) {
		return false
	}
	coll := x.eval(s.X, sc)
	key, val := "", ""
	if id, ok := s.Key.(*ast.Ident); ok && id.Name != "_" {
		key = id.Name
	}
	if id, ok := s.Value.(*ast.Ident); ok && id.Name != "_" {
		val = id.Name
	}
	switch coll.kind {
	case "names":
		if key != "" {
			sc[key] = &pxv{kind: "loopIndex", t: lh("PI.i")}
		}
		if val != "" {
			sc[val] = &pxv{kind: "name", t: lh("PN.each")}
		}
	case "cols":
		if key != "" {
			sc[key] = &pxv{kind: "loopIndex", t: lh("PI.i")}
		}
		if val != "" {
			sc[val] = &pxv{kind: "elem", t: lh("PEl.eachCol")}
		}
	case "bools":
		if key != "" {
			sc[key] = &pxv{kind: "loopIndex", t: lh("PI.i")}
		}
		if val != "" {
			sc[val] = &pxv{kind: "cond", t: lh("PCond.eachBool")}
		}
	case "ix":
		if key != "" {
			sc[key] = &pxv{kind: "loopIndex", t: lh("PI.i")}
		}
		if val != "" {
			return false
		}
	case "entries":
		if key != "" {
			return false
		}
		if val != "" {
			sc[val] = &pxv{kind: "entry"}
		}
	case "inert":
		if !guard {
			return false
		}
		if key != "" {
			sc[key] = pxInert
		}
		if val != "" {
			sc[val] = pxInert
		}
	default:
		return false
	}
	return true
}

// the loop index as an int
func (x *pxx) loopInt(v *pxv) *pxv {
	if v.kind == "loopIndex" {
		return &pxv{kind: "int", t: v.t}
	}
	return v
}

// assign: one assignment; emits its atoms, updates the scope. false: not understood.
func (x *pxx) assign(s *ast.AssignStmt, sc pxscope) bool {
	// `a, ok := m[k]`
	if len(s.Rhs) == 1 && (len(s.Lhs) == 1 || len(s.Lhs) == 2) {
		if ie, ok := unparen(s.Rhs[0]).(*ast.IndexExpr); ok {
			if m := x.eval(ie.X, sc); m.kind == "mp" {
				k := x.nameOf(ie.Index, sc)
				if k == nil && x.dry && s.Tok == token.DEFINE {
					// inside a guard: a look-up under a name outside the model (`o.Column`, `col` of a config)
					for _, l := range s.Lhs {
						if id, ok := l.(*ast.Ident); ok && id.Name != "_" {
							sc[id.Name] = pxInert
						}
					}
					return true
				}
				if k == nil || s.Tok != token.DEFINE {
					return false
				}
				r := x.nextReg()
				if r == "" {
					return false
				}
				x.emit(lh("PA.lookup", lh(r), m.t, k))
				if id, ok := s.Lhs[0].(*ast.Ident); ok && id.Name != "_" {
					sc[id.Name] = &pxv{kind: "elem", t: lh("PEl.reg", lh(r)), reg: r}
				}
				if len(s.Lhs) == 2 {
					if id, ok := s.Lhs[1].(*ast.Ident); ok && id.Name != "_" {
						sc[id.Name] = &pxv{kind: "cond", t: lh("PCond.present", lh(r))}
					}
				}
				return true
			}
		}
	}
	// `entries, stats := groupIndex(ix, …)`
	if len(s.Lhs) == 2 && len(s.Rhs) == 1 && s.Tok == token.DEFINE {
		if v := x.eval(s.Rhs[0], sc); v.kind == "table" {
			if id, ok := s.Lhs[0].(*ast.Ident); ok && id.Name != "_" {
				sc[id.Name] = &pxv{kind: "entries"}
			}
			if id, ok := s.Lhs[1].(*ast.Ident); ok && id.Name != "_" {
				sc[id.Name] = &pxv{kind: "stats"}
			}
			return true
		} else if v.kind == "inert" {
			for _, l := range s.Lhs {
				if id, ok := l.(*ast.Ident); ok && id.Name != "_" {
					sc[id.Name] = pxInert
				}
			}
			return true
		}
		return false
	}
	if len(s.Lhs) != len(s.Rhs) {
		return false
	}
	for i := range s.Lhs {
		if !x.assign1(s.Lhs[i], s.Rhs[i], s.Tok, sc) {
			return false
		}
	}
	return true
}

// the storage value behind the left-hand side of an assignment, and how to rebind it
func (x *pxx) assign1(lhs, rhs ast.Expr, tok token.Token, sc pxscope) bool {
	lhs = unparen(lhs)
	// `x = append(y, v)`
	if call, ok := unparen(rhs).(*ast.CallExpr); ok && isIdent(call.Fun, "append") && len(call.Args) == 2 && call.Ellipsis == token.NoPos {
		src0 := x.eval(call.Args[0], sc)
		switch src0.kind {
		case "names":
			if src0.t.head != "PNs.kept" || !isIdent(lhs, x.kept) {
				return false
			}
			n := x.nameOf(call.Args[1], sc)
			if n == nil {
				return false
			}
			x.emit(lh("PA.pushName", n))
			return true
		case "ix":
			v := x.eval(call.Args[1], sc)
			if v.kind != "u32" {
				return false
			}
			x.emit(lh("PA.appendIx", src0.t, v.t))
			x.newIx = true
			return x.rebind(lhs, &pxv{kind: "ix", t: lh("PIx.new")}, sc)
		case "cols":
			e := x.elemOf(call.Args[1], sc)
			if e == nil {
				return false
			}
			x.emit(lh("PA.appendCol", src0.t, e))
			x.newCols = true
			return x.rebind(lhs, &pxv{kind: "cols", t: lh("PCs.new")}, sc)
		case "inert":
			return x.rebind(lhs, pxInert, sc)
		}
		return false
	}
	// stores: `m[k] = e`, `cs[i] = e`, `ix[i] = v`
	if ie, ok := lhs.(*ast.IndexExpr); ok && tok == token.ASSIGN {
		base := x.eval(ie.X, sc)
		switch base.kind {
		case "mp":
			k := x.nameOf(ie.Index, sc)
			e := x.elemOf(rhs, sc)
			if k == nil || e == nil {
				return false
			}
			x.emit(lh("PA.mapPut", base.t, k, e))
			return true
		case "cols":
			e := x.elemOf(rhs, sc)
			if e == nil {
				return false
			}
			x.emit(lh("PA.colStore", base.t, x.loopInt(x.eval(ie.Index, sc)).tOr(ie.Index), e))
			return true
		case "ix":
			v := x.eval(rhs, sc)
			if v.kind != "u32" {
				return false
			}
			x.emit(lh("PA.ixStore", base.t, x.loopInt(x.eval(ie.Index, sc)).tOr(ie.Index), v.t))
			return true
		case "inert":
			return true
		}
		return false
	}
	// `s.pos = i`
	if sel, ok := lhs.(*ast.SelectorExpr); ok && tok == token.ASSIGN {
		base := x.eval(sel.X, sc)
		if base.kind == "elem" && base.reg != "" && sel.Sel.Name == x.c.elemPos {
			v := x.loopInt(x.eval(rhs, sc))
			if v.kind != "int" {
				return false
			}
			// values that mention the register go stale
			for n, o := range sc {
				if o.t != nil && o.reg == "" && strings.Contains(o.t.lean(), "PEl.reg "+base.reg) {
					sc[n] = pxOpaque
				}
			}
			x.emit(lh("PA.setPos", lh(base.reg), v.t))
			return true
		}
	}
	v := x.eval(rhs, sc)
	switch v.kind {
	case "makeIx":
		if x.newIx {
			return false
		}
		x.newIx = true
		x.emit(v.t)
		return x.rebind(lhs, &pxv{kind: "ix", t: lh("PIx.new")}, sc)
	case "makeCols":
		if x.newCols {
			return false
		}
		x.newCols = true
		x.emit(lh("PA.allocCols", v.t))
		return x.rebind(lhs, &pxv{kind: "cols", t: lh("PCs.new")}, sc)
	case "makeMap":
		if x.newMp {
			return false
		}
		x.newMp = true
		x.emit(lh("PA.allocMap"))
		return x.rebind(lhs, &pxv{kind: "mp", t: lh("PMp.new")}, sc)
	case "makeNames":
		id, ok := lhs.(*ast.Ident)
		if !ok || x.kept != "" {
			return false
		}
		x.kept = id.Name
		x.emit(lh("PA.initNames"))
		sc[id.Name] = &pxv{kind: "names", t: lh("PNs.kept")}
		return true
	case "int":
		id, ok := lhs.(*ast.Ident)
		if !ok {
			return false
		}
		// `count := 0`: a counter if it is counted up inside a loop later — decided by the literal
		if v.t.head == "PI.lit" && tok == token.DEFINE && x.pkg == "index" {
			if x.counter != "" {
				return false
			}
			x.counter = id.Name
			n := v.t.args[0].lean()
			x.emit(lh("PA.setCount", lh(n)))
			sc[id.Name] = &pxv{kind: "int", t: lh("PI.count")}
			return true
		}
		if id.Name == x.counter {
			return false
		}
		if x.body != nil {
			return false // symbolic ints do not survive a loop
		}
		sc[id.Name] = v
		return true
	case "loopIndex":
		return false
	case "frame", "ix", "cols", "mp", "names", "name", "elem", "col", "sorter", "set", "err", "inert", "entries", "stats":
		if v.kind == "elem" && v.reg != "" {
			// a copy of a register: not tracked
			return false
		}
		return x.rebind(lhs, v, sc)
	}
	return false
}

func (v *pxv) tOr(e ast.Expr) *lt {
	if v.kind == "int" {
		return v.t
	}
	return pxop(e)
}

// rebind: `name = v`, `name := v`, or `<frame local>.<field> = v`
func (x *pxx) rebind(lhs ast.Expr, v *pxv, sc pxscope) bool {
	switch l := lhs.(type) {
	case *ast.Ident:
		if l.Name == "_" {
			return true
		}
		if old, ok := sc[l.Name]; ok && old.kind == "frame" && old.fr.self && l.Name == x.recv {
			return false // the receiver is not reassigned
		}
		if v.kind == "frame" {
			// a frame local: a copy whose fields may be assigned
			c := *v.fr
			c.self = false
			sc[l.Name] = &pxv{kind: "frame", fr: &c}
			return true
		}
		sc[l.Name] = v
		return true
	case *ast.SelectorExpr:
		id, ok := l.X.(*ast.Ident)
		if !ok || id.Name == x.recv {
			return false
		}
		base, ok := sc[id.Name]
		if !ok || base.kind != "frame" || base.fr.self {
			if ok && base.kind == "inert" {
				return true
			}
			return false
		}
		switch {
		case l.Sel.Name == x.c.colsField && v.kind == "cols":
			base.fr.cols = v.t
		case l.Sel.Name == x.c.mapField && v.kind == "mp":
			base.fr.mp = v.t
		case l.Sel.Name == x.c.ixField && v.kind == "ix":
			base.fr.ix = v.t
		default:
			return false
		}
		return true
	}
	return false
}

// the statements of a loop body → PL
func (x *pxx) loopBody(stmts []ast.Stmt, sc pxscope) ([]*lt, bool) {
	var body []*lt
	saved := x.body
	x.body = &body
	defer func() { x.body = saved }()
	for _, st := range stmts {
		switch s := st.(type) {
		case *ast.AssignStmt:
			if !x.assign(s, sc) {
				return nil, false
			}
		case *ast.IncDecStmt:
			if !x.incDec(s, sc) {
				return nil, false
			}
		case *ast.IfStmt:
			if s.Else != nil || s.Init != nil {
				return nil, false
			}
			c := x.cond(s.Cond, sc)
			var atoms []*lt
			x.inWhen = &atoms
			ok := true
			for _, b := range s.Body.List {
				switch bs := b.(type) {
				case *ast.AssignStmt:
					ok = ok && x.assign(bs, sc)
				case *ast.IncDecStmt:
					ok = ok && x.incDec(bs, sc)
				default:
					ok = false
				}
			}
			x.inWhen = nil
			if !ok {
				return nil, false
			}
			body = append(body, lh("PL.when", c, ll(atoms)))
		default:
			return nil, false
		}
	}
	return body, true
}

func (x *pxx) incDec(s *ast.IncDecStmt, sc pxscope) bool {
	id, ok := s.X.(*ast.Ident)
	if !ok {
		return false
	}
	if id.Name == x.counter && s.Tok == token.INC {
		x.emit(lh("PA.incCount"))
		return true
	}
	if v, ok := sc[id.Name]; ok && v.kind == "int" && s.Tok == token.INC && x.body == nil {
		sc[id.Name] = &pxv{kind: "int", t: lh("PI.add", v.t, lh("PI.lit", lh("1")))}
		return true
	}
	return false
}

// `for k, v := range src { dst[k] = v }`
func (x *pxx) mapCopy(s *ast.RangeStmt, sc pxscope) (*lt, bool) {
	srcv := x.eval(s.X, sc)
	if srcv.kind != "mp" || s.Tok != token.DEFINE || len(s.Body.List) != 1 {
		return nil, false
	}
	k, ok1 := s.Key.(*ast.Ident)
	v, ok2 := s.Value.(*ast.Ident)
	as, ok3 := s.Body.List[0].(*ast.AssignStmt)
	if !ok1 || !ok2 || !ok3 || as.Tok != token.ASSIGN || len(as.Lhs) != 1 || len(as.Rhs) != 1 {
		return nil, false
	}
	ie, ok := as.Lhs[0].(*ast.IndexExpr)
	if !ok || !isIdent(ie.Index, k.Name) || !isIdent(as.Rhs[0], v.Name) {
		return nil, false
	}
	dst := x.eval(ie.X, sc)
	if dst.kind != "mp" {
		return nil, false
	}
	return lh("PA.copyMap", dst.t, srcv.t), true
}

func (x *pxx) retTerm(v *pxv) *lt {
	switch v.kind {
	case "frame":
		if v.fr.cols == nil && v.fr.mp == nil && v.fr.ix == nil && v.fr.err.lean() == "PEr.none" {
			return lh("PRet.emptyFrame")
		}
		if v.fr.cols == nil || v.fr.mp == nil || v.fr.ix == nil {
			return nil
		}
		return lh("PRet.frame", v.fr.cols, v.fr.mp, v.fr.ix, v.fr.err)
	case "ix":
		return lh("PRet.ix", v.t)
	case "int":
		return lh("PRet.int", v.t)
	case "boolsMake":
		return lh("PRet.bools", v.t)
	case "callSel":
		return lh("PRet.callSelect", v.t)
	}
	return nil
}

type pxfork struct {
	pre  []*lt
	cond *lt
	t, e []*lt
}

// run: the statements of a function body; returns the top-level list, or a fork
func (x *pxx) run(stmts []ast.Stmt, sc pxscope) ([]*lt, *pxfork) {
	for n, st := range stmts {
		if x.skippable(st, sc) {
			// the definitions of a guard's init do not leave the guard
			continue
		}
		switch s := st.(type) {
		case *ast.ReturnStmt:
			if len(s.Results) != 1 {
				x.out = append(x.out, ls("PStm.opaque", src(s)))
				return x.out, nil
			}
			// a tail call that forwards the request: the callee's body continues
			if call, ok := unparen(s.Results[0]).(*ast.CallExpr); ok {
				if v := x.evalNoEmitCheck(call, sc); v != nil && v.kind == "frameCall" && x.depth < 3 {
					inner, ok := x.forward(v.fn, call, sc)
					if ok {
						x.depth++
						return x.run(v.fn.Body.List, inner)
					}
				}
			}
			v := x.eval(s.Results[0], sc)
			r := x.retTerm(v)
			if r == nil {
				x.out = append(x.out, ls("PStm.opaque", src(s)))
				return x.out, nil
			}
			x.out = append(x.out, lh("PStm.ret", r))
			return x.out, nil
		case *ast.IfStmt:
			// `if c { return <frame> }`
			if s.Else == nil && s.Init == nil && len(s.Body.List) == 1 {
				if r, ok := s.Body.List[0].(*ast.ReturnStmt); ok && len(r.Results) == 1 {
					if rt := x.retTerm(x.eval(r.Results[0], sc)); rt != nil {
						x.out = append(x.out, lh("PStm.retIf", x.cond(s.Cond, sc), rt))
						continue
					}
				}
			}
			// `if ok { … } else { … }` on a look-up: both branches run to the end of the function
			if s.Init == nil {
				c := x.cond(s.Cond, sc)
				if c.head == "PCond.present" {
					var elseB []ast.Stmt
					switch e := s.Else.(type) {
					case nil:
					case *ast.BlockStmt:
						elseB = e.List
					default:
						x.out = append(x.out, ls("PStm.opaque", src(s)))
						return x.out, nil
					}
					rest := stmts[n+1:]
					yt, ye := x.fork(), x.fork()
					tl, f1 := yt.run(append(append([]ast.Stmt{}, s.Body.List...), rest...), sc.clone())
					el, f2 := ye.run(append(append([]ast.Stmt{}, elseB...), rest...), sc.clone())
					if f1 != nil || f2 != nil {
						x.out = append(x.out, ls("PStm.opaque", "nested fork: "+src(s.Cond)))
						return x.out, nil
					}
					return nil, &pxfork{pre: x.out, cond: c, t: tl, e: el}
				}
			}
			x.out = append(x.out, ls("PStm.opaque", src(s)))
			return x.out, nil
		case *ast.RangeStmt:
			if a, ok := x.mapCopy(s, sc); ok {
				x.emit(a)
				continue
			}
			coll := x.eval(s.X, sc)
			inner := sc // Go scopes are ignored: names are unique enough within these bodies
			if !x.bindLoopVars(s, inner, false) {
				x.out = append(x.out, ls("PStm.opaque", src(s)))
				return x.out, nil
			}
			body, ok := x.loopBody(s.Body.List, inner)
			if !ok {
				x.out = append(x.out, ls("PStm.opaque", src(s)))
				return x.out, nil
			}
			switch coll.kind {
			case "names":
				x.out = append(x.out, lh("PStm.forEachName", coll.t, ll(body)))
			case "cols":
				x.out = append(x.out, lh("PStm.forEachCol", coll.t, ll(body)))
			case "bools":
				x.out = append(x.out, lh("PStm.forEachBool", ll(body)))
			case "ix":
				x.out = append(x.out, lh("PStm.forRangeIx", coll.t, ll(body)))
			case "entries":
				x.out = append(x.out, lh("PStm.forEachEntry", ll(body)))
			default:
				x.out = append(x.out, ls("PStm.opaque", src(s)))
				return x.out, nil
			}
		case *ast.AssignStmt:
			if !x.assign(s, sc) {
				x.out = append(x.out, ls("PStm.opaque", src(s)))
				return x.out, nil
			}
		case *ast.IncDecStmt:
			if !x.incDec(s, sc) {
				x.out = append(x.out, ls("PStm.opaque", src(s)))
				return x.out, nil
			}
		case *ast.ExprStmt:
			if !x.exprStmt(s, sc) {
				x.out = append(x.out, ls("PStm.opaque", src(s)))
				return x.out, nil
			}
		default:
			x.out = append(x.out, ls("PStm.opaque", src(st)))
			return x.out, nil
		}
	}
	x.out = append(x.out, ls("PStm.opaque", "no return"))
	return x.out, nil
}

// evaluate a call without side effects on the output, only to see whether it is a frame method to inline
func (x *pxx) evalNoEmitCheck(call *ast.CallExpr, sc pxscope) *pxv {
	sel, ok := call.Fun.(*ast.SelectorExpr)
	if !ok || !isIdent(sel.X, x.recv) || x.recv == "" {
		return nil
	}
	if x.literalHelper(sel.Sel.Name) != nil {
		return nil
	}
	if sel.Sel.Name == "Select" && call.Ellipsis != token.NoPos {
		return nil
	}
	if fd, ok := x.c.rootFns["QFrame."+sel.Sel.Name]; ok && returnsOnly(fd, "QFrame") {
		return &pxv{kind: "frameCall", fn: fd}
	}
	return nil
}

// the scope of a callee whose parameters are bound to the caller's values
func (x *pxx) forward(fd *ast.FuncDecl, call *ast.CallExpr, sc pxscope) (pxscope, bool) {
	inner := pxscope{}
	if fd.Recv == nil || len(fd.Recv.List[0].Names) != 1 {
		return nil, false
	}
	inner[fd.Recv.List[0].Names[0].Name] = recvFrame()
	x.recv = fd.Recv.List[0].Names[0].Name
	i := 0
	for _, p := range fd.Type.Params.List {
		for _, n := range p.Names {
			if i >= len(call.Args) || call.Ellipsis != token.NoPos {
				return nil, false
			}
			v := x.eval(call.Args[i], sc)
			switch v.kind {
			case "name", "col", "int", "names", "inert":
			default:
				return nil, false
			}
			inner[n.Name] = v
			i++
		}
	}
	return inner, i == len(call.Args)
}

func (x *pxx) exprStmt(s *ast.ExprStmt, sc pxscope) bool {
	call, ok := unparen(s.X).(*ast.CallExpr)
	if !ok {
		return false
	}
	if isIdent(call.Fun, "copy") && len(call.Args) == 2 {
		d, sv := x.eval(call.Args[0], sc), x.eval(call.Args[1], sc)
		switch {
		case d.kind == "ix" && sv.kind == "ix":
			x.emit(lh("PA.copyIx", d.t, sv.t))
			return true
		case d.kind == "cols" && sv.kind == "cols":
			x.emit(lh("PA.copyCols", d.t, sv.t))
			return true
		case d.kind == "inert" && sv.kind == "inert":
			return true
		}
		return false
	}
	v := x.eval(call, sc)
	switch v.kind {
	case "sorterCall":
		if v.reg == "Sort" && len(call.Args) == 0 {
			x.emit(lh("PA.sortIx", v.t))
			return true
		}
	case "inert":
		return true
	}
	return false
}

func (x *pxx) function(fd *ast.FuncDecl) *lt {
	sc := x.topScope(fd)
	out, fk := x.run(fd.Body.List, sc)
	if fk != nil {
		return lh("PF.fork", ll(fk.pre), fk.cond, ll(fk.t), ll(fk.e))
	}
	return lh("PF.seq", ll(out))
}

/* ---- output ---- */

func pfLean(t *lt, indent string) string {
	list := func(items []*lt, ind string) string {
		parts := make([]string, len(items))
		for i, s := range items {
			parts[i] = ind + s.lean()
		}
		return "[\n" + strings.Join(parts, ",\n") + "]"
	}
	switch t.head {
	case "PF.seq":
		return "PF.seq " + list(t.args[0].list, indent)
	case "PF.fork":
		c := t.args[1].lean()
		if strings.Contains(c, " ") {
			c = "(" + c + ")"
		}
		return "PF.fork " + list(t.args[0].list, indent) + " " + c + " " + list(t.args[2].list, indent) + " " + list(t.args[3].list, indent)
	}
	return t.lean()
}

func projectLean(repo string, root map[string]*ast.File, parse func(string) map[string]*ast.File) string {
	c := newPxctx(repo, root, parse)
	var b strings.Builder
	b.WriteString("/- GENERATED on every run by /verif/go/cmd/extract from /repo's source (tie T1). Do not edit. -/\nimport QF.Core.PExpr\nnamespace QF.Gen\n\n")

	// the frame methods whose body is one frame literal, by the type of their parameter
	var helpers []string
	for _, role := range []struct{ label, ptype string }{{"(error) → frame", "error"}, {"(index) → frame", "index"}} {
		term := ls("PRet.opaque", "?missing")
		found := 0
		for name, fd := range c.rootFns {
			if !strings.HasPrefix(name, "QFrame.") {
				continue
			}
			x := &pxx{c: c, pkg: "root", fns: c.rootFns}
			if x.literalHelper(strings.TrimPrefix(name, "QFrame.")) == nil || len(fd.Type.Params.List) != 1 || len(fd.Type.Params.List[0].Names) != 1 {
				continue
			}
			pt := fd.Type.Params.List[0].Type
			if (role.ptype == "error" && pxName(pt) == "error") || (role.ptype == "index" && x.isIxType(pt)) {
				found++
				sc := x.topScope(fd)
				v := x.eval(fd.Body.List[0].(*ast.ReturnStmt).Results[0], sc)
				if r := x.retTerm(v); r != nil {
					term = r
				} else {
					term = ls("PRet.opaque", src(fd.Body))
				}
			}
		}
		if found > 1 {
			term = ls("PRet.opaque", "ambiguous")
		}
		helpers = append(helpers, fmt.Sprintf("  (%s, %s)", leanStr(role.label), term.lean()))
	}
	b.WriteString("/-- the frame methods whose body is one frame literal, by the type of their parameter -/\n")
	b.WriteString("def frameHelperAst : List (String × PRet) := [\n" + strings.Join(helpers, ",\n") + "]\n\n")

	ops := []struct{ name, key string }{{"Slice", "QFrame.Slice"}, {"Select", "QFrame.Select"}, {"Drop", "QFrame.Drop"}, {"Copy", "QFrame.Copy"}, {"setColumn", ""}, {"Sort", "QFrame.Sort"}, {"Distinct", "QFrame.Distinct"}}
	// `setColumn` by role: the frame method `Copy` ends in
	if fd, ok := c.rootFns["QFrame.Copy"]; ok && len(fd.Body.List) > 0 {
		if r, ok := fd.Body.List[len(fd.Body.List)-1].(*ast.ReturnStmt); ok && len(r.Results) == 1 {
			if call, ok := unparen(r.Results[0]).(*ast.CallExpr); ok {
				if sel, ok := call.Fun.(*ast.SelectorExpr); ok {
					ops[4].key = "QFrame." + sel.Sel.Name
				}
			}
		}
	}
	var items []string
	for _, op := range ops {
		term := "PF.opaque \"?missing\""
		if fd, ok := c.rootFns[op.key]; ok {
			x := &pxx{c: c, pkg: "root", fns: c.rootFns}
			term = pfLean(x.function(fd), "    ")
		}
		items = append(items, fmt.Sprintf("  (%s, %s)", leanStr(op.name), term))
	}
	b.WriteString("/-- the index and column-list work of the operations of qframe.go, from the end of their rejecting guards on (helpers that build a frame literal and forwarding tail calls inlined): (operation, term) -/\n")
	b.WriteString("def projectAst : List (String × PF) := [\n" + strings.Join(items, ",\n") + "]\n\n")

	items = nil
	ixOps := []struct{ name, key string }{{"Int.Copy", c.ixIntType + ".Copy"}, {"Int.Filter", c.ixIntType + ".Filter"}, {"Int.Len", c.ixIntType + ".Len"}, {"NewAscending", "NewAscending"}, {"NewBool", "NewBool"}, {"Bool.Len", c.ixBoolType + ".Len"}}
	for _, op := range ixOps {
		term := "PF.opaque \"?missing\""
		if fd, ok := c.ixFns[op.key]; ok {
			x := &pxx{c: c, pkg: "index", fns: c.ixFns}
			term = pfLean(x.function(fd), "    ")
		}
		items = append(items, fmt.Sprintf("  (%s, %s)", leanStr(op.name), term))
	}
	// the function of internal/grouper `Distinct` calls: the one `QFrame.Distinct` hands its index to
	term := "PF.opaque \"?missing\""
	if fd, ok := c.rootFns["QFrame.Distinct"]; ok {
		callee := ""
		ast.Inspect(fd.Body, func(n ast.Node) bool {
			if call, ok := n.(*ast.CallExpr); ok {
				if sel, ok := call.Fun.(*ast.SelectorExpr); ok {
					if id, ok := sel.X.(*ast.Ident); ok && c.grpAlias[id.Name] {
						callee = sel.Sel.Name
					}
				}
			}
			return true
		})
		if gfd, ok := c.grpFns[callee]; ok {
			x := &pxx{c: c, pkg: "grouper", fns: c.grpFns}
			term = pfLean(x.function(gfd), "    ")
		}
	}
	items = append(items, fmt.Sprintf("  (%s, %s)", leanStr("grouper.Distinct"), term))
	b.WriteString("/-- the functions of internal/index, and the function of internal/grouper that `Distinct` calls: (function, term) -/\n")
	b.WriteString("def indexAst : List (String × PF) := [\n" + strings.Join(items, ",\n") + "]\n\n")
	b.WriteString("end QF.Gen\n")
	return b.String()
}
