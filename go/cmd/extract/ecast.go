package main

// Translation go/ast → W / BS / CV / SS (lean/QF/Core/EnumRest.lean) of the small functions of internal/ecolumn that are
// not the factory (east.go):
//
//	type bitset [4]uint64
//	func (s *bitset) set(val enumVal) · func (s *bitset) isSet(val enumVal) bool         → []BS
//	func (v enumVal) isNull() bool                                                       → []BS
//	func (v enumVal) compVal() int                                                       → CV
//	func (c Column) subset(index index.Int) Column · Subset(index index.Int) column.Column → []SS
//
// Everything is found by ROLE: the code type is the element type of the factory's look-up map (east.go: scan); the bitset
// is the array type `[N]uintK` of the package whose pointer has methods taking one code; `set` is the one without a result,
// `isSet` the one returning bool; `isNull` / `compVal` are the methods of the code type returning bool / int; `subset` is the
// method of Column `(index.Int) Column`, `Subset` the one `(index.Int) column.Column`. Named integer constants are replaced
// by their values. The width of `<<` is made explicit from Go's typing rules (an untyped constant operand takes the type
// of its context). What is not understood becomes `.opaque "<text>"`.

import (
	"fmt"
	"go/ast"
	"go/token"
	"sort"
	"strconv"
	"strings"
)

type erctx struct {
	*ectx
	imports  map[string]string
	codeBits int
	bsType   string // the array type
	bsWords  int
	bsBits   int
}

func erUintBits(t string) int {
	switch t {
	case "uint8", "byte":
		return 8
	case "uint16":
		return 16
	case "uint32":
		return 32
	case "uint64":
		return 64
	}
	return 0
}

func wop(n ast.Node) *lt { return ls("W.opaque", src(n)) }

// scanRest finds the width of the code type and the bitset array type
func (c *erctx) scanRest() {
	for _, f := range c.files {
		for _, d := range f.Decls {
			gd, ok := d.(*ast.GenDecl)
			if !ok || gd.Tok != token.TYPE {
				continue
			}
			for _, sp := range gd.Specs {
				ts, ok := sp.(*ast.TypeSpec)
				if !ok {
					continue
				}
				if ts.Name.Name == c.codeType {
					c.codeBits = erUintBits(src(ts.Type))
				}
			}
		}
	}
	// candidates: array types of unsigned words whose pointer has a method taking one code
	var names []string
	cands := map[string][2]int{}
	for _, f := range c.files {
		for _, d := range f.Decls {
			gd, ok := d.(*ast.GenDecl)
			if !ok || gd.Tok != token.TYPE {
				continue
			}
			for _, sp := range gd.Specs {
				ts, ok := sp.(*ast.TypeSpec)
				if !ok {
					continue
				}
				at, ok := ts.Type.(*ast.ArrayType)
				if !ok || at.Len == nil {
					continue
				}
				n, err := strconv.Atoi(src(at.Len))
				bits := erUintBits(src(at.Elt))
				if err != nil || bits == 0 {
					continue
				}
				cands[ts.Name.Name] = [2]int{n, bits}
				names = append(names, ts.Name.Name)
			}
		}
	}
	sort.Strings(names)
	for _, n := range names {
		for fn, fd := range c.fns {
			if strings.HasPrefix(fn, n+".") && c.takesOneCode(fd) && c.bsType == "" {
				c.bsType, c.bsWords, c.bsBits = n, cands[n][0], cands[n][1]
			}
		}
	}
}

func (c *erctx) takesOneCode(fd *ast.FuncDecl) bool {
	if fd.Type.Params == nil || len(fd.Type.Params.List) != 1 || len(fd.Type.Params.List[0].Names) != 1 {
		return false
	}
	return src(fd.Type.Params.List[0].Type) == c.codeType
}

func erResultTypes(fd *ast.FuncDecl) []string {
	var res []string
	if fd.Type.Results == nil {
		return res
	}
	for _, r := range fd.Type.Results.List {
		n := len(r.Names)
		if n == 0 {
			n = 1
		}
		for i := 0; i < n; i++ {
			res = append(res, src(r.Type))
		}
	}
	return res
}

// erscope: the names a W expression may use
type erscope struct {
	code string // the code parameter / receiver
	arr  string // the receiver array ("" when there is none)
}

// static width of an expression: 0 for an untyped constant, -1 when unknown
func (c *erctx) wtype(e ast.Expr, sc erscope) int {
	switch t := unparen(e).(type) {
	case *ast.Ident:
		if t.Name == sc.code && sc.code != "" {
			return c.codeBits
		}
		if t.Name == sc.arr {
			return -1
		}
		if _, ok := c.intConst(t.Name, 0); ok {
			return 0
		}
		return -1
	case *ast.BasicLit:
		if t.Kind == token.INT {
			return 0
		}
		return -1
	case *ast.IndexExpr:
		if id, ok := unparen(t.X).(*ast.Ident); ok && id.Name == sc.arr && sc.arr != "" {
			return c.bsBits
		}
		return -1
	case *ast.BinaryExpr:
		switch t.Op {
		case token.SHL, token.SHR:
			return c.wtype(t.X, sc)
		case token.AND, token.OR:
			a, b := c.wtype(t.X, sc), c.wtype(t.Y, sc)
			switch {
			case a < 0 || b < 0:
				return -1
			case a == 0:
				return b
			case b == 0 || a == b:
				return a
			}
			return -1
		}
	}
	return -1
}

// is the expression a constant (no variable in it)?
func (c *erctx) isConstExpr(e ast.Expr, sc erscope) bool {
	res := true
	ast.Inspect(e, func(n ast.Node) bool {
		if id, ok := n.(*ast.Ident); ok {
			if id.Name == sc.code || id.Name == sc.arr {
				res = false
			} else if _, ok := c.intConst(id.Name, 0); !ok {
				res = false
			}
		}
		if _, ok := n.(*ast.CallExpr); ok {
			res = false
		}
		return res
	})
	return res
}

// wexpr translates an unsigned expression; want is the width an untyped constant takes from its context (0: none)
func (c *erctx) wexpr(e ast.Expr, sc erscope, want int) *lt {
	switch t := unparen(e).(type) {
	case *ast.Ident:
		if t.Name == sc.code && sc.code != "" {
			return lh("W.code")
		}
		if t.Name == sc.arr {
			return wop(e)
		}
		if n, ok := c.intConst(t.Name, 0); ok && n >= 0 && (want == 0 || want >= 63 || n < 1<<uint(want)) {
			return lh("W.lit", lnat(n))
		}
		return wop(e)
	case *ast.BasicLit:
		if t.Kind == token.INT {
			if n, err := strconv.ParseInt(t.Value, 0, 64); err == nil && n >= 0 && (want == 0 || want >= 63 || n < 1<<uint(want)) {
				return lh("W.lit", lnat(int(n)))
			}
		}
		return wop(e)
	case *ast.IndexExpr:
		if id, ok := unparen(t.X).(*ast.Ident); ok && id.Name == sc.arr && sc.arr != "" {
			if c.wtype(t.Index, sc) < 0 {
				return wop(e)
			}
			return lh("W.word", c.wexpr(t.Index, sc, 0))
		}
		return wop(e)
	case *ast.BinaryExpr:
		switch t.Op {
		case token.SHR, token.SHL:
			w := c.wtype(t.X, sc)
			cw := c.wtype(t.Y, sc)
			if w < 0 || cw < 0 {
				return wop(e)
			}
			if w == 0 {
				// an untyped constant shifted by a non-constant count takes the type of the context
				if c.isConstExpr(t.Y, sc) || want == 0 {
					return wop(e)
				}
				w = want
			}
			a, b := c.wexpr(t.X, sc, w), c.wexpr(t.Y, sc, 0)
			if t.Op == token.SHR {
				return lh("W.shr", a, b)
			}
			return lh("W.shl", lnat(w), a, b)
		case token.AND, token.OR:
			w := c.wtype(e, sc)
			if w < 0 {
				return wop(e)
			}
			if w == 0 {
				w = want
			}
			a, b := c.wexpr(t.X, sc, w), c.wexpr(t.Y, sc, w)
			if t.Op == token.AND {
				return lh("W.band", a, b)
			}
			return lh("W.bor", a, b)
		}
	}
	return wop(e)
}

func bsop(n ast.Node) *lt { return ls("BS.opaque", src(n)) }

// bsBody translates the statements of a bitset method / of isNull
func (c *erctx) bsBody(fd *ast.FuncDecl, sc erscope) []*lt {
	var res []*lt
	for _, st := range fd.Body.List {
		switch s := st.(type) {
		case *ast.AssignStmt:
			if len(s.Lhs) != 1 || len(s.Rhs) != 1 {
				res = append(res, bsop(s))
				continue
			}
			ix, ok := unparen(s.Lhs[0]).(*ast.IndexExpr)
			if !ok {
				res = append(res, bsop(s))
				continue
			}
			id, ok := unparen(ix.X).(*ast.Ident)
			if !ok || id.Name != sc.arr || sc.arr == "" || c.wtype(ix.Index, sc) < 0 {
				res = append(res, bsop(s))
				continue
			}
			ixT := c.wexpr(ix.Index, sc, 0)
			rhsW := c.wtype(s.Rhs[0], sc)
			if rhsW != 0 && rhsW != c.bsBits {
				res = append(res, bsop(s))
				continue
			}
			rhs := c.wexpr(s.Rhs[0], sc, c.bsBits)
			switch s.Tok {
			case token.ASSIGN:
				res = append(res, lh("BS.store", ixT, rhs))
			case token.OR_ASSIGN:
				res = append(res, lh("BS.store", ixT, lh("W.bor", lh("W.word", ixT), rhs)))
			case token.AND_ASSIGN:
				res = append(res, lh("BS.store", ixT, lh("W.band", lh("W.word", ixT), rhs)))
			default:
				res = append(res, bsop(s))
			}
		case *ast.ReturnStmt:
			if len(s.Results) != 1 {
				res = append(res, bsop(s))
				continue
			}
			b, ok := unparen(s.Results[0]).(*ast.BinaryExpr)
			if !ok || cmpName(b.Op) == "" {
				res = append(res, bsop(s))
				continue
			}
			wa, wb := c.wtype(b.X, sc), c.wtype(b.Y, sc)
			w := wa
			if w == 0 {
				w = wb
			}
			if wa < 0 || wb < 0 || (wa != 0 && wb != 0 && wa != wb) {
				res = append(res, bsop(s))
				continue
			}
			res = append(res, lh("BS.retCmp", lh("Cmp."+cmpName(b.Op)), c.wexpr(b.X, sc, w), c.wexpr(b.Y, sc, w)))
		default:
			res = append(res, bsop(st))
		}
	}
	return res
}

func erRecvName(fd *ast.FuncDecl) string {
	if fd.Recv == nil || len(fd.Recv.List) != 1 || len(fd.Recv.List[0].Names) != 1 {
		return ""
	}
	return fd.Recv.List[0].Names[0].Name
}

func cvop(n ast.Node) *lt { return ls("CV.opaque", src(n)) }

// an integer constant expression (`-1`, `0`, a named constant)
func (c *erctx) intLit(e ast.Expr) (int, bool) {
	switch t := unparen(e).(type) {
	case *ast.BasicLit:
		if t.Kind == token.INT {
			if n, err := strconv.ParseInt(t.Value, 0, 64); err == nil {
				return int(n), true
			}
		}
	case *ast.UnaryExpr:
		if t.Op == token.SUB {
			if n, ok := c.intLit(t.X); ok {
				return -n, true
			}
		}
	case *ast.Ident:
		return c.intConst(t.Name, 0)
	}
	return 0, false
}

func erInt(n int) *lt {
	if n < 0 {
		return lh("(" + strconv.Itoa(n) + ")")
	}
	return lh(strconv.Itoa(n))
}

// cvBody translates the body of compVal: a decision tree over the receiver
func (c *erctx) cvBody(stmts []ast.Stmt, v string) *lt {
	if len(stmts) == 0 {
		return ls("CV.opaque", "missing return")
	}
	switch s := stmts[0].(type) {
	case *ast.ReturnStmt:
		if len(s.Results) != 1 {
			return cvop(s)
		}
		if n, ok := c.intLit(s.Results[0]); ok {
			return lh("CV.retInt", erInt(n))
		}
		if call, ok := unparen(s.Results[0]).(*ast.CallExpr); ok && src(call.Fun) == "int" && len(call.Args) == 1 {
			if id, ok := unparen(call.Args[0]).(*ast.Ident); ok && id.Name == v && v != "" {
				return lh("CV.retCode")
			}
		}
		return cvop(s)
	case *ast.IfStmt:
		if s.Init != nil {
			return cvop(s)
		}
		b, ok := unparen(s.Cond).(*ast.BinaryExpr)
		if !ok {
			return cvop(s)
		}
		op, other := "", ast.Expr(nil)
		if id, ok := unparen(b.X).(*ast.Ident); ok && id.Name == v && v != "" {
			op, other = cmpName(b.Op), b.Y
		} else if id, ok := unparen(b.Y).(*ast.Ident); ok && id.Name == v && v != "" {
			op, other = flipCmp(b.Op), b.X
		}
		n, okN := 0, false
		if other != nil {
			n, okN = c.intLit(other)
		}
		if op == "" || !okN || n < 0 || n >= 1<<uint(c.codeBits) {
			return cvop(s)
		}
		return lh("CV.ifCode", lh("Cmp."+op), lnat(n), c.cvBody(concat(s.Body.List, stmts[1:]), v), c.cvBody(concat(eBlock(s.Else), stmts[1:]), v))
	case *ast.BlockStmt:
		return c.cvBody(concat(s.List, stmts[1:]), v)
	}
	return cvop(stmts[0])
}

func ssop(n ast.Node) *lt { return ls("SS.opaque", src(n)) }

// is the type `index.Int` of the package imported as internal/index?
func (c *erctx) isIndexInt(t ast.Expr) bool {
	sel, ok := t.(*ast.SelectorExpr)
	if !ok || sel.Sel.Name != "Int" {
		return false
	}
	id, ok := sel.X.(*ast.Ident)
	return ok && strings.HasSuffix(c.imports[id.Name], "/internal/index")
}

// ssBody translates subset / Subset
func (c *erctx) ssBody(fd *ast.FuncDecl, subsetName string) []*lt {
	recv := erRecvName(fd)
	names := paramNames(fd)
	if recv == "" || len(names) != 1 || names[0] == "_" {
		return []*lt{ssop(fd.Body)}
	}
	index := names[0]
	local := "" // the slice made in the function
	isRecvField := func(e ast.Expr, field string) bool {
		sel, ok := unparen(e).(*ast.SelectorExpr)
		if !ok || sel.Sel.Name != field || field == "" {
			return false
		}
		id, ok := sel.X.(*ast.Ident)
		return ok && id.Name == recv
	}
	isIdent := func(e ast.Expr, name string) bool {
		id, ok := unparen(e).(*ast.Ident)
		return ok && id.Name == name && name != ""
	}
	// the element expression of a loop with key k and value v
	elem := func(e ast.Expr, k, v string) *lt {
		if ix, ok := unparen(e).(*ast.IndexExpr); ok && isRecvField(ix.X, c.data) {
			if isIdent(ix.Index, v) && v != "_" {
				return lh("SE.cellAtVal")
			}
			if isIdent(ix.Index, k) && k != "_" {
				return lh("SE.cellAtKey")
			}
			return nil
		}
		if call, ok := unparen(e).(*ast.CallExpr); ok && src(call.Fun) == c.codeType && len(call.Args) == 1 {
			e = call.Args[0]
		}
		if n, ok := c.intLit(e); ok && n >= 0 && n < 1<<uint(c.codeBits) {
			return lh("SE.lit", lnat(n))
		}
		return nil
	}
	var res []*lt
	for _, st := range fd.Body.List {
		switch s := st.(type) {
		case *ast.AssignStmt:
			// data := make([]<code>, n[, cap])
			if s.Tok == token.DEFINE && len(s.Lhs) == 1 && len(s.Rhs) == 1 && local == "" {
				id, ok1 := s.Lhs[0].(*ast.Ident)
				call, ok2 := s.Rhs[0].(*ast.CallExpr)
				if ok1 && ok2 && id.Name != "_" && src(call.Fun) == "make" && (len(call.Args) == 2 || len(call.Args) == 3) && src(call.Args[0]) == "[]"+c.codeType {
					switch {
					case src(call.Args[1]) == "0":
						local = id.Name
						res = append(res, lh("SS.makeCells", lh("SLen.zero")))
						continue
					case src(call.Args[1]) == "len("+index+")":
						local = id.Name
						res = append(res, lh("SS.makeCells", lh("SLen.lenIndex")))
						continue
					}
				}
			}
		case *ast.RangeStmt:
			k, v := "_", "_"
			if id, ok := s.Key.(*ast.Ident); ok {
				k = id.Name
			} else if s.Key != nil {
				res = append(res, ssop(s))
				continue
			}
			if id, ok := s.Value.(*ast.Ident); ok {
				v = id.Name
			} else if s.Value != nil {
				res = append(res, ssop(s))
				continue
			}
			if s.Tok != token.DEFINE || !isIdent(s.X, index) || len(s.Body.List) != 1 || local == "" || k == local || v == local {
				res = append(res, ssop(s))
				continue
			}
			as, ok := s.Body.List[0].(*ast.AssignStmt)
			if !ok || as.Tok != token.ASSIGN || len(as.Lhs) != 1 || len(as.Rhs) != 1 {
				res = append(res, ssop(s))
				continue
			}
			// data = append(data, e)
			if call, ok := as.Rhs[0].(*ast.CallExpr); ok && isIdent(as.Lhs[0], local) && src(call.Fun) == "append" && len(call.Args) == 2 && call.Ellipsis == token.NoPos && isIdent(call.Args[0], local) {
				if e := elem(call.Args[1], k, v); e != nil {
					res = append(res, lh("SS.rangeAppend", e))
					continue
				}
			}
			// data[i] = e
			if ix, ok := as.Lhs[0].(*ast.IndexExpr); ok && isIdent(ix.X, local) && isIdent(ix.Index, k) && k != "_" {
				if e := elem(as.Rhs[0], k, v); e != nil {
					res = append(res, lh("SS.rangeStore", e))
					continue
				}
			}
		case *ast.ReturnStmt:
			if len(s.Results) == 1 {
				// return c.<subset>(index)
				if call, ok := unparen(s.Results[0]).(*ast.CallExpr); ok && subsetName != "" && len(call.Args) == 1 && isIdent(call.Args[0], index) && call.Ellipsis == token.NoPos {
					if sel, ok := call.Fun.(*ast.SelectorExpr); ok && sel.Sel.Name == subsetName && isIdent(sel.X, recv) {
						res = append(res, lh("SS.retSubset"))
						continue
					}
				}
				// return Column{…}
				if cl, ok := unparen(s.Results[0]).(*ast.CompositeLit); ok && src(cl.Type) == "Column" {
					fields := map[string]*lt{c.data: lh("SF.zero"), c.values: lh("SF.zero"), c.strict: lh("SF.zero")}
					good := true
					for _, el := range cl.Elts {
						kv, ok := el.(*ast.KeyValueExpr)
						if !ok {
							good = false
							break
						}
						key := src(kv.Key)
						if _, known := fields[key]; !known {
							good = false
							break
						}
						switch {
						case isIdent(kv.Value, local):
							fields[key] = lh("SF.fresh")
						case isRecvField(kv.Value, c.data):
							fields[key] = lh("SF.recvCells")
						case isRecvField(kv.Value, c.values):
							fields[key] = lh("SF.recvValues")
						case isRecvField(kv.Value, c.strict):
							fields[key] = lh("SF.recvStrict")
						case src(kv.Value) == "true":
							fields[key] = lh("SF.bool", lh("true"))
						case src(kv.Value) == "false":
							fields[key] = lh("SF.bool", lh("false"))
						default:
							good = false
						}
					}
					if good {
						res = append(res, lh("SS.ret", fields[c.data], fields[c.values], fields[c.strict]))
						continue
					}
				}
			}
		}
		res = append(res, ssop(st))
	}
	return res
}

// enumRestLean writes QF/Gen/EnumRest.lean.
func enumRestLean(ecol map[string]*ast.File) string {
	var b strings.Builder
	b.WriteString("/- GENERATED on every run by /verif/go/cmd/extract from /repo's source (tie T1). Do not edit. -/\nimport QF.Core.EnumRest\nnamespace QF.Gen\nopen QF.ER\n\n")
	c := &erctx{ectx: &ectx{files: ecol, fns: funcDecls(ecol)}, imports: importsOf(ecol)}
	okScan := c.scan()
	if okScan {
		c.scanRest()
	}
	list := func(ts []*lt) string { return ll(ts).lean() }
	var set, isSet, isNull, sub, subX []*lt
	compVal := ls("CV.opaque", "no method of the code type returns int")
	miss := func(head, what string) []*lt { return []*lt{ls(head, what)} }
	set, isSet = miss("BS.opaque", "no method (code) of the bitset without result"), miss("BS.opaque", "no method (code) bool of the bitset")
	isNull = miss("BS.opaque", "no method of the code type returns bool")
	sub, subX = miss("SS.opaque", "no method (index.Int) Column of Column"), miss("SS.opaque", "no method (index.Int) column.Column of Column")
	if okScan {
		var names []string
		for n := range c.fns {
			names = append(names, n)
		}
		sort.Strings(names)
		nSet, nIsSet, nNull, nCv, nSub, nSubX := 0, 0, 0, 0, 0, 0
		subsetName := ""
		for _, n := range names {
			fd := c.fns[n]
			if strings.HasPrefix(n, "Column.") && fd.Type.Params != nil && len(fd.Type.Params.List) == 1 && len(fd.Type.Params.List[0].Names) == 1 && c.isIndexInt(fd.Type.Params.List[0].Type) {
				if rt := erResultTypes(fd); len(rt) == 1 && rt[0] == "Column" {
					subsetName = fd.Name.Name
				}
			}
		}
		for _, n := range names {
			fd := c.fns[n]
			rt := erResultTypes(fd)
			switch {
			case c.bsType != "" && strings.HasPrefix(n, c.bsType+".") && c.takesOneCode(fd):
				sc := erscope{code: fd.Type.Params.List[0].Names[0].Name, arr: erRecvName(fd)}
				if len(rt) == 0 {
					nSet++
					set = c.bsBody(fd, sc)
				} else if len(rt) == 1 && rt[0] == "bool" {
					nIsSet++
					isSet = c.bsBody(fd, sc)
				}
			case strings.HasPrefix(n, c.codeType+".") && len(paramNames(fd)) == 0 && len(rt) == 1 && rt[0] == "bool":
				nNull++
				isNull = c.bsBody(fd, erscope{code: erRecvName(fd)})
			case strings.HasPrefix(n, c.codeType+".") && len(paramNames(fd)) == 0 && len(rt) == 1 && rt[0] == "int":
				nCv++
				compVal = c.cvBody(fd.Body.List, erRecvName(fd))
			case strings.HasPrefix(n, "Column.") && fd.Type.Params != nil && len(fd.Type.Params.List) == 1 && len(fd.Type.Params.List[0].Names) == 1 && c.isIndexInt(fd.Type.Params.List[0].Type) && len(rt) == 1:
				if rt[0] == "Column" {
					nSub++
					sub = c.ssBody(fd, "")
				} else if sel, ok := fd.Type.Results.List[0].Type.(*ast.SelectorExpr); ok && sel.Sel.Name == "Column" && strings.HasSuffix(c.imports[src(sel.X)], "/internal/column") {
					nSubX++
					subX = c.ssBody(fd, subsetName)
				}
			}
		}
		dup := func(n int, head, what string, cur []*lt) []*lt {
			if n > 1 {
				return miss(head, fmt.Sprintf("%d methods %s", n, what))
			}
			return cur
		}
		set, isSet, isNull = dup(nSet, "BS.opaque", "(code) of the bitset", set), dup(nIsSet, "BS.opaque", "(code) bool of the bitset", isSet), dup(nNull, "BS.opaque", "() bool of the code type", isNull)
		sub, subX = dup(nSub, "SS.opaque", "(index.Int) Column", sub), dup(nSubX, "SS.opaque", "(index.Int) column.Column", subX)
		if nCv > 1 {
			compVal = ls("CV.opaque", fmt.Sprintf("%d methods () int of the code type", nCv))
		}
	}
	fmt.Fprintf(&b, "/-- the code type (`enumVal`) is an unsigned type of this many bits -/\ndef enumCodeBits : Nat := %d\n\n", c.codeBits)
	fmt.Fprintf(&b, "/-- the bitset is an array of `bitsetWords` unsigned words of `bitsetWordBits` bits -/\ndef bitsetWords : Nat := %d\ndef bitsetWordBits : Nat := %d\n\n", c.bsWords, c.bsBits)
	b.WriteString("/-- the method of the bitset `(code)` without result (`set`) -/\ndef bitsetSet : List BS := " + list(set) + "\n\n")
	b.WriteString("/-- the method of the bitset `(code) bool` (`isSet`) -/\ndef bitsetIsSet : List BS := " + list(isSet) + "\n\n")
	b.WriteString("/-- the method of the code type `() bool` (`isNull`) -/\ndef enumIsNull : List BS := " + list(isNull) + "\n\n")
	b.WriteString("/-- the method of the code type `() int` (`compVal`) -/\ndef enumCompVal : CV := " + compVal.lean() + "\n\n")
	b.WriteString("/-- the method of Column `(index.Int) Column` (`subset`) -/\ndef enumSubset : List SS := " + list(sub) + "\n\n")
	b.WriteString("/-- the method of Column `(index.Int) column.Column` (`Subset`) -/\ndef enumSubsetExported : List SS := " + list(subX) + "\n\nend QF.Gen\n")
	return b.String()
}
