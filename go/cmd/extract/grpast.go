package main

// Translation go/ast → GL.S / GL.E (lean/QF/Core/GLExpr.lean) of the grouper hash table:
//
//	func newTable, (t *table) grow / hash / insertEntry, equals, calculateInitialSizeExp,
//	func groupIndex, GroupBy, Distinct                                        /repo/internal/grouper/grouper.go
//	integer.Max, integer.Pow2                                                 /repo/internal/math/integer
//
// Method (as clast.go for the clause evaluation of Filter): a statement-by-statement translation of the function bodies
// with a small type inference of its own (only go/parser + go/ast): every expression has a KIND (tbl = *table, entry,
// eptr = *tableEntry, entries, stats, cmps, cmp, rows = index.Int, groups = []index.Int, u32, u64, int, float, bool, cres,
// const = an untyped constant) computed from the declarations. The roots are found through the public vocabulary (GroupBy,
// Distinct, GroupStats and its fields in internal/grouper; Comparable, CompareResult and its constants in internal/column;
// index.Int; math.Pow, bits.Len64); everything else by ROLE:
//
//   - variables are numbered in the order of their declaration (receiver, parameters, then every `:=`, `var`, range
//     variable, `for` variable as it occurs in the text) — names do not reach the output;
//   - the struct `table` is the one with a field of type []column.Comparable, `tableEntry` the element type of its field
//     that is a slice of structs; their fields are named by their types (the two uint32 fields of an entry: by order);
//   - a function that is called is resolved through the name at the call site to its declaration and gets the FnId its
//     SIGNATURE stands for; it is then translated under that FnId. Two functions in one role make the role ambiguous;
//   - the methods of the interface Comparable by their signatures;
//   - package-level constants are replaced by their values, typed by the context.
//
// Pointers: a *table is understood as long as it is only a receiver / the root of a field access (never copied, passed
// on or compared); `&t.<entries>[i]` as long as `t.<entries>` is not replaced afterwards (no assignment of the field and no
// call of a writing method on t later in the text or in a loop around the address-of). A method of *table that writes
// through its receiver can only be called as a statement (GL.S.callMut). A `range` over a slice the body writes, and
// whatever else is not understood, becomes `.opaque "<text>"`; such a term has no meaning and the proofs of
// QF/Props/C04GrouperCanon.lean (gen_grouper_no_opaque, gen_grouper_canon — and with them gen_grouper_semantics of
// QF/Props/C04GrouperGen.lean) fail. Self-test: bin/selftest-grouper.

import (
	"fmt"
	"go/ast"
	"go/token"
	"math/big"
	"strconv"
	"strings"
)

type glTarget struct {
	pkg  *clPkg
	decl *ast.FuncDecl
}

type glCtx struct {
	repo    string
	module  string
	pkgs    map[string]*clPkg
	grp     *clPkg
	targets map[string]*glTarget
	queue   []string
	bodies  map[string]string
	// the struct types of package grouper by role
	tblType, entryType, statsType string
	tblField, entryField, stField map[string]string // field name → Fld ("" / "other": not understood)
	// the methods of column.Comparable by role: name → "hash" | "compare"
	cmpMethod map[string]string
	mutates   map[*ast.FuncDecl]int // 0 unknown, 1 no, 2 yes, 3 in progress
}

var glFnOrder = []string{"FnId.grow", "FnId.hash", "FnId.insertEntry", "FnId.newTable", "FnId.equals", "FnId.initialSizeExp",
	"FnId.groupIndex", "FnId.groupBy", "FnId.distinct", "FnId.max", "FnId.pow2"}

var glStatsFields = map[string][2]string{
	"RelocationCount":      {"Fld.sRelocationCount", "int"},
	"RelocationCollisions": {"Fld.sRelocationCollisions", "int"},
	"InsertCollisions":     {"Fld.sInsertCollisions", "int"},
	"GroupCount":           {"Fld.sGroupCount", "int"},
	"LoadFactor":           {"Fld.sLoadFactor", "float"},
}

var glCRes = map[string]string{"LessThan": "CRes.lessThan", "GreaterThan": "CRes.greaterThan", "Equal": "CRes.equal", "NotEqual": "CRes.notEqual"}

func (c *glCtx) pkg(path string) *clPkg {
	if p, ok := c.pkgs[path]; ok {
		return p
	}
	var p *clPkg
	if c.module != "" && (path == c.module || strings.HasPrefix(path, c.module+"/")) {
		dir := c.repo + "/" + strings.TrimPrefix(strings.TrimPrefix(path, c.module), "/")
		files := parseDir(dir)
		p = &clPkg{path: path, files: files, fns: funcDecls(files), types: typeDecls(files), imports: importsOf(files)}
	}
	c.pkgs[path] = p
	return p
}

// the import path an identifier in front of a dot names ("" = not an import name, or shadowed)
func (c *glCtx) importPath(p *clPkg, x ast.Expr, sc *glScope) string {
	id, ok := x.(*ast.Ident)
	if !ok || (sc != nil && sc.lookup(id.Name) != nil) {
		return ""
	}
	return p.imports[id.Name]
}

func (c *glCtx) importOf(p *clPkg, x ast.Expr, sc *glScope) *clPkg {
	path := c.importPath(p, x, sc)
	if path == "" {
		return nil
	}
	return c.pkg(path)
}

func (c *glCtx) kind(p *clPkg, t ast.Expr) string {
	switch x := t.(type) {
	case nil:
		return "unit"
	case *ast.ParenExpr:
		return c.kind(p, x.X)
	case *ast.Ident:
		switch x.Name {
		case "bool":
			return "bool"
		case "int":
			return "int"
		case "uint32":
			return "u32"
		case "uint64":
			return "u64"
		case "float64":
			return "float"
		}
		return c.namedKind(p, x.Name, 0)
	case *ast.StarExpr:
		switch c.kind(p, x.X) {
		case "tblval":
			return "tbl"
		case "entry":
			return "eptr"
		}
	case *ast.SelectorExpr:
		if q := c.importOf(p, x.X, nil); q != nil {
			return c.namedKind(q, x.Sel.Name, 0)
		}
	case *ast.ArrayType:
		if x.Len == nil {
			return glSliceKind(c.kind(p, x.Elt))
		}
	}
	return "?"
}

func glSliceKind(elem string) string {
	switch elem {
	case "entry":
		return "entries"
	case "cmp":
		return "cmps"
	case "u32":
		return "rows"
	case "rows":
		return "groups"
	}
	return "?"
}

func (c *glCtx) namedKind(p *clPkg, name string, depth int) string {
	if p == nil || depth > 5 {
		return "?"
	}
	if p == c.grp {
		switch name {
		case c.tblType:
			return "tblval"
		case c.entryType:
			return "entry"
		case c.statsType:
			return "stats"
		}
	}
	if pathEnds(p, "internal/column") {
		switch name {
		case "Comparable":
			return "cmp"
		case "CompareResult":
			return "cres"
		}
	}
	if t, ok := p.types[name]; ok {
		if at, ok := t.(*ast.ArrayType); ok && at.Len == nil {
			return glSliceKind(c.kind(p, at.Elt))
		}
	}
	return "?"
}

func (c *glCtx) structOf(p *clPkg, name string) *ast.StructType {
	if t, ok := p.types[name]; ok {
		if st, ok := t.(*ast.StructType); ok {
			return st
		}
	}
	return nil
}

// find the struct types and name their fields
func (c *glCtx) scan() {
	p := c.grp
	c.tblField, c.entryField, c.stField = map[string]string{}, map[string]string{}, map[string]string{}
	c.cmpMethod = map[string]string{}
	if c.structOf(p, "GroupStats") != nil {
		c.statsType = "GroupStats"
	}
	// table: the struct with a field of type []column.Comparable (exactly one such struct)
	n := 0
	for name := range p.types {
		st := c.structOf(p, name)
		if st == nil {
			continue
		}
		for _, f := range st.Fields.List {
			if c.kind(p, f.Type) == "cmps" {
				c.tblType = name
				n++
				break
			}
		}
	}
	if n != 1 {
		c.tblType = ""
		return
	}
	// tableEntry: the element type of the table's field that is a slice of a struct of the package
	n = 0
	for _, f := range c.structOf(p, c.tblType).Fields.List {
		if at, ok := f.Type.(*ast.ArrayType); ok && at.Len == nil {
			if id, ok := at.Elt.(*ast.Ident); ok && c.structOf(p, id.Name) != nil && id.Name != c.tblType && id.Name != c.statsType {
				c.entryType = id.Name
				n += len(f.Names)
			}
		}
	}
	if n != 1 {
		c.entryType = ""
		return
	}
	byKind := func(st *ast.StructType, roles map[string]string, out map[string]string) {
		count := map[string]int{}
		for _, f := range st.Fields.List {
			k := c.kind(p, f.Type)
			for _, nm := range f.Names {
				if r, ok := roles[k]; ok {
					out[nm.Name] = r
					count[r]++
				} else {
					out[nm.Name] = "other"
				}
			}
			if len(f.Names) == 0 {
				out["?embedded"] = "other"
			}
		}
		for nm, r := range out {
			if r != "other" && count[r] > 1 {
				out[nm] = "other"
			}
		}
	}
	byKind(c.structOf(p, c.tblType), map[string]string{"entries": "Fld.entries", "cmps": "Fld.comparables", "stats": "Fld.stats",
		"float": "Fld.loadFactor", "u32": "Fld.groupCount", "bool": "Fld.collectIx"}, c.tblField)
	// an entry: the index.Int field, the bool field, and two uint32 fields named by their order
	byKind(c.structOf(p, c.entryType), map[string]string{"rows": "Fld.ix", "bool": "Fld.occupied"}, c.entryField)
	var words []string
	for _, f := range c.structOf(p, c.entryType).Fields.List {
		if c.kind(p, f.Type) == "u32" {
			for _, nm := range f.Names {
				words = append(words, nm.Name)
			}
		}
	}
	if len(words) == 2 {
		c.entryField[words[0]] = "Fld.hash"
		c.entryField[words[1]] = "Fld.firstPos"
	}
	if c.statsType != "" {
		for _, f := range c.structOf(p, c.statsType).Fields.List {
			k := c.kind(p, f.Type)
			for _, nm := range f.Names {
				if r, ok := glStatsFields[nm.Name]; ok && r[1] == k {
					c.stField[nm.Name] = r[0]
				} else {
					c.stField[nm.Name] = "other"
				}
			}
		}
	}
	// the interface Comparable
	for _, path := range p.imports {
		if strings.HasSuffix(path, "/internal/column") {
			q := c.pkg(path)
			if q == nil {
				continue
			}
			if it, ok := q.types["Comparable"].(*ast.InterfaceType); ok {
				for _, m := range it.Methods.List {
					ft, ok := m.Type.(*ast.FuncType)
					if !ok || len(m.Names) != 1 {
						continue
					}
					pk, rk := c.sigKinds(q, ft)
					switch pk + "→" + rk {
					case "u32,u64→u64":
						c.cmpMethod[m.Names[0].Name] = "hash"
					case "u32,u32→cres":
						c.cmpMethod[m.Names[0].Name] = "compare"
					}
				}
			}
		}
	}
}

func (c *glCtx) sigKinds(p *clPkg, ft *ast.FuncType) (string, string) {
	list := func(fl *ast.FieldList) string {
		var ks []string
		if fl != nil {
			for _, f := range fl.List {
				n := len(f.Names)
				if n == 0 {
					n = 1
				}
				for i := 0; i < n; i++ {
					ks = append(ks, c.kind(p, f.Type))
				}
			}
		}
		return strings.Join(ks, ",")
	}
	return list(ft.Params), list(ft.Results)
}

func (c *glCtx) roleOf(p *clPkg, fd *ast.FuncDecl) string {
	pk, rk := c.sigKinds(p, fd.Type)
	recv := ""
	if fd.Recv != nil && len(fd.Recv.List) == 1 {
		recv = c.kind(p, fd.Recv.List[0].Type)
	}
	sig := recv + "|" + pk + "→" + rk
	if p == c.grp {
		switch sig {
		case "tbl|→":
			return "FnId.grow"
		case "tbl|u32→u32":
			return "FnId.hash"
		case "tbl|u32→":
			return "FnId.insertEntry"
		case "|int,cmps,bool→tbl":
			return "FnId.newTable"
		case "|cmps,u32,u32→bool":
			return "FnId.equals"
		case "|int→int":
			return "FnId.initialSizeExp"
		case "|rows,cmps,bool→entries,stats":
			return "FnId.groupIndex"
		case "|rows,cmps→groups,stats":
			if fd.Name.Name == "GroupBy" {
				return "FnId.groupBy"
			}
		case "|rows,cmps→rows":
			if fd.Name.Name == "Distinct" {
				return "FnId.distinct"
			}
		}
		return ""
	}
	if pathEnds(p, "internal/math/integer") {
		switch sig {
		case "|int,int→int":
			return "FnId.max"
		case "|int→int":
			return "FnId.pow2"
		}
	}
	return ""
}

func (c *glCtx) use(p *clPkg, fd *ast.FuncDecl) string {
	id := c.roleOf(p, fd)
	if id == "" {
		return ""
	}
	if t, ok := c.targets[id]; ok {
		if t.decl != fd {
			return ""
		}
		return id
	}
	c.targets[id] = &glTarget{pkg: p, decl: fd}
	c.queue = append(c.queue, id)
	return id
}

// does a method of *table write through its receiver (assign a field, take the address of an entry, call a writing method)?
func (c *glCtx) isMutating(fd *ast.FuncDecl) bool {
	switch c.mutates[fd] {
	case 1:
		return false
	case 2, 3:
		return true
	}
	c.mutates[fd] = 3
	res := false
	if fd.Recv == nil || len(fd.Recv.List) != 1 || len(fd.Recv.List[0].Names) != 1 || c.kind(c.grp, fd.Recv.List[0].Type) != "tbl" {
		c.mutates[fd] = 1
		return false
	}
	recv := fd.Recv.List[0].Names[0].Name
	rootIs := func(e ast.Expr) bool {
		for {
			switch x := unparen(e).(type) {
			case *ast.SelectorExpr:
				e = x.X
			case *ast.IndexExpr:
				e = x.X
			case *ast.StarExpr:
				e = x.X
			case *ast.Ident:
				return x.Name == recv
			default:
				return false
			}
		}
	}
	ast.Inspect(fd.Body, func(n ast.Node) bool {
		switch x := n.(type) {
		case *ast.AssignStmt:
			for _, l := range x.Lhs {
				if _, isId := unparen(l).(*ast.Ident); !isId && rootIs(l) {
					res = true
				}
			}
			// an alias of the receiver
			for _, r := range x.Rhs {
				if isName(r, recv) {
					res = true
				}
			}
		case *ast.IncDecStmt:
			if _, isId := unparen(x.X).(*ast.Ident); !isId && rootIs(x.X) {
				res = true
			}
		case *ast.UnaryExpr:
			if x.Op == token.AND && rootIs(x.X) {
				res = true
			}
		case *ast.CallExpr:
			if sel, ok := unparen(x.Fun).(*ast.SelectorExpr); ok && isName(sel.X, recv) {
				if m, ok := c.grp.fns[c.tblType+"."+sel.Sel.Name]; ok && c.isMutating(m) {
					res = true
				}
			}
			for _, a := range x.Args {
				if isName(a, recv) {
					res = true
				}
			}
		}
		return true
	})
	if res {
		c.mutates[fd] = 2
	} else {
		c.mutates[fd] = 1
	}
	return res
}

// ---------------------------------------------------------------------------------------------------------------------

type glVar struct {
	id    int
	kind  string
	local bool // a slice of entries made in this function
}

type glScope struct {
	vars   map[string]*glVar
	parent *glScope
}

func (s *glScope) lookup(n string) *glVar {
	for f := s; f != nil; f = f.parent {
		if v, ok := f.vars[n]; ok {
			return v
		}
	}
	return nil
}

func (s *glScope) push() *glScope { return &glScope{vars: map[string]*glVar{}, parent: s} }

// something that happens to a table variable at a place in the text
type glEvent struct {
	v     *glVar
	what  string // "addr" | "replace"
	pos   token.Pos
	loops []ast.Node
}

type glFn struct {
	c      *glCtx
	p      *clPkg
	fd     *ast.FuncDecl
	next   int
	rets   string
	loops  []ast.Node
	events []glEvent
}

func geop(n ast.Node) *lt { return ls("E.opaque", src(n)) }
func gsop(n ast.Node) *lt { return ls("S.opaque", src(n)) }
func gvar(v *glVar) *lt   { return lh("E.var", lh(strconv.Itoa(v.id))) }
func gnat(v *glVar) *lt   { return lh(strconv.Itoa(v.id)) }
func gopt(v *glVar) *lt {
	if v == nil {
		return lh("none")
	}
	return lh("some", gnat(v))
}

func (f *glFn) declare(sc *glScope, name, kind string) *glVar {
	v := &glVar{id: f.next, kind: kind}
	f.next++
	if name != "_" && name != "" {
		sc.vars[name] = v
	}
	return v
}

func (f *glFn) event(v *glVar, what string, pos token.Pos) {
	f.events = append(f.events, glEvent{v: v, what: what, pos: pos, loops: append([]ast.Node(nil), f.loops...)})
}

// an untyped constant: the term carries the exact value
func constTerm(r *big.Rat) *lt {
	s := r.RatString()
	return &lt{head: "#const", str: &s}
}

func constOf(x *lt) *big.Rat {
	if x == nil || x.head != "#const" || x.str == nil {
		return nil
	}
	r, ok := new(big.Rat).SetString(*x.str)
	if !ok {
		return nil
	}
	return r
}

// the value of a constant expression: a literal, or the name of a package-level constant whose value is one
func (f *glFn) constValue(p *clPkg, e ast.Expr, sc *glScope, depth int) *big.Rat {
	if depth > 4 || p == nil {
		return nil
	}
	switch t := unparen(e).(type) {
	case *ast.BasicLit:
		if t.Kind == token.INT {
			if n, ok := new(big.Int).SetString(t.Value, 0); ok {
				return new(big.Rat).SetInt(n)
			}
		}
		if t.Kind == token.FLOAT {
			if r, ok := new(big.Rat).SetString(t.Value); ok {
				return r
			}
		}
	case *ast.Ident:
		if sc != nil && sc.lookup(t.Name) != nil {
			return nil
		}
		for _, file := range p.files {
			for _, d := range file.Decls {
				gd, ok := d.(*ast.GenDecl)
				if !ok || gd.Tok != token.CONST {
					continue
				}
				for _, sp := range gd.Specs {
					vs, ok := sp.(*ast.ValueSpec)
					if !ok || vs.Type != nil {
						continue
					}
					for i, nm := range vs.Names {
						if nm.Name == t.Name && i < len(vs.Values) {
							return f.constValue(p, vs.Values[i], nil, depth+1)
						}
					}
				}
			}
		}
	}
	return nil
}

// a typed constant of the kind wanted
func typedConst(r *big.Rat, want string) *lt {
	if r == nil {
		return nil
	}
	switch want {
	case "int":
		if r.IsInt() {
			return lh("E.int", lh(leanInt(r.Num())))
		}
	case "u32":
		if r.IsInt() && r.Sign() >= 0 && r.Num().BitLen() <= 32 {
			return lh("E.u32", lh(r.Num().String()))
		}
	case "u64":
		if r.IsInt() && r.Sign() >= 0 && r.Num().BitLen() <= 64 {
			return lh("E.u64", lh(r.Num().String()))
		}
	case "float":
		// exactly representable only if the denominator is a power of two and the numerator is small; the canonical-term
		// check fixes today's values (2, 1/2), for which this holds
		if r.Sign() >= 0 {
			return lh("E.flt", lh(r.Num().String()), lh(r.Denom().String()))
		}
	}
	return nil
}

func leanInt(n *big.Int) string {
	if n.Sign() < 0 {
		return "(" + n.String() + ")"
	}
	return n.String()
}

func isNumKind(k string) bool { return k == "int" || k == "u32" || k == "u64" || k == "float" }

// coerce an untyped constant / nil to the kind wanted
func gcoerce(x *lt, k, want string) (*lt, string) {
	if k == "const" && isNumKind(want) {
		if t := typedConst(constOf(x), want); t != nil {
			return t, want
		}
	}
	if k == "nil" {
		switch want {
		case "eptr":
			return lh("E.nilPtr"), want
		case "rows":
			return lh("E.nilRows"), want
		}
	}
	return x, k
}

func (f *glFn) fieldOf(kind, name string) string {
	var r string
	switch kind {
	case "tbl":
		r = f.c.tblField[name]
	case "entry":
		r = f.c.entryField[name]
	case "stats":
		r = f.c.stField[name]
	}
	if r == "other" {
		return ""
	}
	return r
}

var glFieldKind = map[string]string{
	"Fld.entries": "entries", "Fld.comparables": "cmps", "Fld.stats": "stats", "Fld.loadFactor": "float", "Fld.groupCount": "u32", "Fld.collectIx": "bool",
	"Fld.ix": "rows", "Fld.hash": "u32", "Fld.firstPos": "u32", "Fld.occupied": "bool",
	"Fld.sRelocationCount": "int", "Fld.sRelocationCollisions": "int", "Fld.sInsertCollisions": "int", "Fld.sGroupCount": "int", "Fld.sLoadFactor": "float",
}

func (f *glFn) expr(e ast.Expr, sc *glScope) (*lt, string) {
	e = unparen(e)
	bad := func() (*lt, string) { return geop(e), "?" }
	c := f.c
	switch t := e.(type) {
	case *ast.Ident:
		if v := sc.lookup(t.Name); v != nil {
			if v.kind == "?" {
				return bad()
			}
			return gvar(v), v.kind
		}
		switch t.Name {
		case "true":
			return lh("E.bool", lh("true")), "bool"
		case "false":
			return lh("E.bool", lh("false")), "bool"
		case "nil":
			return lh("nil"), "nil"
		}
		if r := f.constValue(f.p, t, sc, 0); r != nil {
			return constTerm(r), "const"
		}
	case *ast.BasicLit:
		if r := f.constValue(f.p, t, sc, 0); r != nil {
			return constTerm(r), "const"
		}
	case *ast.UnaryExpr:
		switch t.Op {
		case token.NOT:
			x, k := f.expr(t.X, sc)
			if k == "bool" {
				return lh("E.not", x), "bool"
			}
		case token.AND:
			// &t.<entries>[i]
			if ix, ok := unparen(t.X).(*ast.IndexExpr); ok {
				if sel, ok := unparen(ix.X).(*ast.SelectorExpr); ok {
					if id, ok := unparen(sel.X).(*ast.Ident); ok {
						if v := sc.lookup(id.Name); v != nil && v.kind == "tbl" && f.fieldOf("tbl", sel.Sel.Name) == "Fld.entries" {
							i, ki := f.expr(ix.Index, sc)
							if ki == "int" || ki == "u32" || ki == "u64" {
								f.event(v, "addr", t.Pos())
								return lh("E.addrEntry", gnat(v), i), "eptr"
							}
						}
					}
				}
			}
			// &table{…}
			if cl, ok := unparen(t.X).(*ast.CompositeLit); ok && c.kind(f.p, cl.Type) == "tblval" {
				return f.tableLit(cl, sc)
			}
		}
	case *ast.StarExpr:
		x, k := f.expr(t.X, sc)
		if k == "eptr" {
			return lh("E.deref", x), "entry"
		}
	case *ast.BinaryExpr:
		return f.binary(t, sc)
	case *ast.IndexExpr:
		x, kx := f.expr(t.X, sc)
		i, ki := f.expr(t.Index, sc)
		i, ki = gcoerce(i, ki, "int")
		if ki == "int" || ki == "u32" || ki == "u64" {
			switch kx {
			case "rows":
				return lh("E.at", x, i), "u32"
			case "entries":
				return lh("E.at", x, i), "entry"
			}
		}
	case *ast.SelectorExpr:
		if q := c.importOf(f.p, t.X, sc); q != nil {
			// a constant of column.CompareResult
			if pathEnds(q, "internal/column") {
				if r, ok := glCRes[t.Sel.Name]; ok && isCResConst(q, t.Sel.Name) {
					return lh("E.cres", lh(r)), "cres"
				}
			}
			if r := f.constValue(q, t.Sel, nil, 0); r != nil {
				return constTerm(r), "const"
			}
			return bad()
		}
		x, kx := f.expr(t.X, sc)
		if kx == "eptr" {
			x, kx = lh("E.deref", x), "entry"
		}
		if fl := f.fieldOf(kx, t.Sel.Name); fl != "" {
			return lh("E.field", x, lh(fl)), glFieldKind[fl]
		}
	case *ast.CompositeLit:
		if c.kind(f.p, t.Type) == "rows" && (len(t.Elts) == 1 || len(t.Elts) == 2) {
			var xs []*lt
			for _, el := range t.Elts {
				if _, isKV := el.(*ast.KeyValueExpr); isKV {
					return bad()
				}
				x, k := f.expr(el, sc)
				x, k = gcoerce(x, k, "u32")
				if k != "u32" {
					return bad()
				}
				xs = append(xs, x)
			}
			if len(xs) == 1 {
				return lh("E.rows1", xs[0]), "rows"
			}
			return lh("E.rows2", xs[0], xs[1]), "rows"
		}
	case *ast.CallExpr:
		return f.call(t, sc)
	}
	return bad()
}

// is the name a constant declared with the type CompareResult in the package (in a block that starts with one)?
func isCResConst(q *clPkg, name string) bool {
	for _, file := range q.files {
		for _, d := range file.Decls {
			gd, ok := d.(*ast.GenDecl)
			if !ok || gd.Tok != token.CONST || len(gd.Specs) == 0 {
				continue
			}
			first, ok := gd.Specs[0].(*ast.ValueSpec)
			if !ok || first.Type == nil || src(first.Type) != "CompareResult" {
				continue
			}
			for _, sp := range gd.Specs {
				vs := sp.(*ast.ValueSpec)
				if vs.Type != nil && src(vs.Type) != "CompareResult" {
					continue
				}
				for _, nm := range vs.Names {
					if nm.Name == name {
						return true
					}
				}
			}
		}
	}
	return false
}

// &table{<entries>: es, <comparables>: cs, <collectIx>: b}
func (f *glFn) tableLit(cl *ast.CompositeLit, sc *glScope) (*lt, string) {
	parts := map[string]*lt{}
	for _, el := range cl.Elts {
		kv, ok := el.(*ast.KeyValueExpr)
		if !ok {
			return geop(cl), "?"
		}
		id, ok := kv.Key.(*ast.Ident)
		if !ok {
			return geop(cl), "?"
		}
		fl := f.fieldOf("tbl", id.Name)
		if _, dup := parts[fl]; dup || fl == "" {
			return geop(cl), "?"
		}
		x, k := f.expr(kv.Value, sc)
		if k != glFieldKind[fl] {
			return geop(cl), "?"
		}
		parts[fl] = x
	}
	if len(parts) != 3 || parts["Fld.entries"] == nil || parts["Fld.comparables"] == nil || parts["Fld.collectIx"] == nil {
		return geop(cl), "?"
	}
	return lh("E.mkTable", parts["Fld.entries"], parts["Fld.comparables"], parts["Fld.collectIx"]), "tbl"
}

func (f *glFn) binary(t *ast.BinaryExpr, sc *glScope) (*lt, string) {
	bad := func() (*lt, string) { return geop(t), "?" }
	x, kx := f.expr(t.X, sc)
	y, ky := f.expr(t.Y, sc)
	switch t.Op {
	case token.LAND, token.LOR:
		if kx == "bool" && ky == "bool" {
			h := "E.and"
			if t.Op == token.LOR {
				h = "E.or"
			}
			return lh(h, x, y), "bool"
		}
		return bad()
	}
	// nil tests
	if t.Op == token.EQL || t.Op == token.NEQ {
		var z *lt
		if ky == "nil" && (kx == "eptr" || kx == "rows") {
			z = x
		} else if kx == "nil" && (ky == "eptr" || ky == "rows") {
			z = y
		}
		if z != nil {
			if t.Op == token.EQL {
				return lh("E.isNil", z), "bool"
			}
			return lh("E.not", lh("E.isNil", z)), "bool"
		}
	}
	x, kx = gcoerce(x, kx, ky)
	y, ky = gcoerce(y, ky, kx)
	if kx != ky {
		return bad()
	}
	switch t.Op {
	case token.EQL, token.NEQ, token.LSS, token.LEQ, token.GTR, token.GEQ:
		op := map[token.Token]string{token.LSS: "COp.lt", token.LEQ: "COp.le", token.GTR: "COp.gt", token.GEQ: "COp.ge", token.EQL: "COp.eq", token.NEQ: "COp.ne"}[t.Op]
		if isNumKind(kx) || ((kx == "cres" || kx == "bool") && (t.Op == token.EQL || t.Op == token.NEQ)) {
			return lh("E.cmp", lh(op), x, y), "bool"
		}
	case token.ADD, token.SUB, token.MUL, token.QUO, token.AND:
		op := map[token.Token]string{token.ADD: "AOp.add", token.SUB: "AOp.sub", token.MUL: "AOp.mul", token.QUO: "AOp.div", token.AND: "AOp.band"}[t.Op]
		if kx == "int" || kx == "u32" || kx == "u64" || (kx == "float" && t.Op == token.QUO) {
			if kx == "int" && t.Op == token.AND {
				return bad()
			}
			return lh("E.bin", lh(op), x, y), kx
		}
	}
	return bad()
}

func (f *glFn) args(args []ast.Expr, sc *glScope) ([]*lt, []string) {
	var ts []*lt
	var ks []string
	for _, a := range args {
		x, k := f.expr(a, sc)
		ts = append(ts, x)
		ks = append(ks, k)
	}
	return ts, ks
}

// the translated arguments of a call of fd, coerced to the parameter kinds (nil: they do not fit)
func (f *glFn) fitArgs(p *clPkg, fd *ast.FuncDecl, args []ast.Expr, sc *glScope) []*lt {
	pk, _ := f.c.sigKinds(p, fd.Type)
	var want []string
	if pk != "" {
		want = strings.Split(pk, ",")
	}
	if fd.Type.Params != nil {
		for _, fl := range fd.Type.Params.List {
			if _, variadic := fl.Type.(*ast.Ellipsis); variadic {
				return nil
			}
		}
	}
	as, ks := f.args(args, sc)
	if len(as) != len(want) {
		return nil
	}
	for i := range as {
		as[i], ks[i] = gcoerce(as[i], ks[i], want[i])
		// a pointer to the table is not handed on
		if ks[i] != want[i] || ks[i] == "tbl" || ks[i] == "?" {
			return nil
		}
	}
	return as
}

func (f *glFn) callFn(p *clPkg, fd *ast.FuncDecl, recv *lt, t *ast.CallExpr, sc *glScope) (*lt, string) {
	c := f.c
	id := c.use(p, fd)
	if id == "" {
		return geop(t), "?"
	}
	as := f.fitArgs(p, fd, t.Args, sc)
	if as == nil && len(t.Args) > 0 {
		return geop(t), "?"
	}
	_, rk := c.sigKinds(p, fd.Type)
	var terms []*lt
	if recv != nil {
		terms = append(terms, recv)
	}
	terms = append(terms, as...)
	if len(terms) < 1 || len(terms) > 3 {
		return geop(t), "?"
	}
	head := []string{"", "E.call1", "E.call2", "E.call3"}[len(terms)]
	return lh(head, append([]*lt{lh(id)}, terms...)...), rk
}

func (f *glFn) conversion(to string, t *ast.CallExpr, sc *glScope) (*lt, string) {
	bad := func() (*lt, string) { return geop(t), "?" }
	if len(t.Args) != 1 {
		return bad()
	}
	// int(math.Pow(2, float64(e)))
	if to == "int" {
		if call, ok := unparen(t.Args[0]).(*ast.CallExpr); ok && len(call.Args) == 2 {
			if sel, ok := unparen(call.Fun).(*ast.SelectorExpr); ok && sel.Sel.Name == "Pow" && f.c.importPath(f.p, sel.X, sc) == "math" {
				base := f.constValue(f.p, call.Args[0], sc, 0)
				if conv, ok := unparen(call.Args[1]).(*ast.CallExpr); ok && base != nil && base.Cmp(big.NewRat(2, 1)) == 0 &&
					isName(conv.Fun, "float64") && sc.lookup("float64") == nil && len(conv.Args) == 1 {
					x, k := f.expr(conv.Args[0], sc)
					if k == "int" {
						return lh("E.pow2", x), "int"
					}
				}
				return bad()
			}
		}
	}
	x, k := f.expr(t.Args[0], sc)
	if k == "const" {
		if y, ky := gcoerce(x, k, to); ky == to {
			return y, to
		}
		return bad()
	}
	head := map[string]string{"u32": "E.toU32", "u64": "E.toU64", "int": "E.toInt", "float": "E.toFloat"}[to]
	switch {
	case to == "float" && (k == "int" || k == "u32" || k == "u64" || k == "float"):
		return lh(head, x), to
	case to != "float" && (k == "int" || k == "u32" || k == "u64"):
		return lh(head, x), to
	}
	return bad()
}

func (f *glFn) call(t *ast.CallExpr, sc *glScope) (*lt, string) {
	c := f.c
	bad := func() (*lt, string) { return geop(t), "?" }
	switch fun := unparen(t.Fun).(type) {
	case *ast.Ident:
		if sc.lookup(fun.Name) != nil {
			return bad()
		}
		switch fun.Name {
		case "uint32", "uint64", "int", "float64":
			return f.conversion(c.kind(f.p, fun), t, sc)
		case "len":
			if len(t.Args) == 1 {
				x, k := f.expr(t.Args[0], sc)
				if k == "rows" || k == "entries" || k == "groups" || k == "cmps" {
					return lh("E.len", x), "int"
				}
			}
			return bad()
		case "make":
			if len(t.Args) >= 2 {
				k := c.kind(f.p, t.Args[0])
				n, kn := f.expr(t.Args[len(t.Args)-1], sc)
				n, kn = gcoerce(n, kn, "int")
				if kn != "int" && kn != "u32" && kn != "u64" {
					return bad()
				}
				switch {
				case k == "entries" && len(t.Args) == 2:
					return lh("E.makeEntries", n), "entries"
				case k == "rows" && len(t.Args) == 3 && isIntLit(t.Args[1], "0"):
					return lh("E.makeRows", n), "rows"
				case k == "groups" && len(t.Args) == 3 && isIntLit(t.Args[1], "0"):
					return lh("E.makeGroups", n), "groups"
				}
			}
			return bad()
		case "append":
			if len(t.Args) == 2 && t.Ellipsis == token.NoPos {
				l, kl := f.expr(t.Args[0], sc)
				x, kx := f.expr(t.Args[1], sc)
				if kl == "rows" {
					x, kx = gcoerce(x, kx, "u32")
				}
				if (kl == "rows" && kx == "u32") || (kl == "groups" && kx == "rows") {
					return lh("E.snoc", l, x), kl
				}
			}
			return bad()
		}
		if fd, ok := f.p.fns[fun.Name]; ok && fd.Recv == nil {
			return f.callFn(f.p, fd, nil, t, sc)
		}
	case *ast.SelectorExpr:
		if path := c.importPath(f.p, fun.X, sc); path != "" {
			if path == "math/bits" && fun.Sel.Name == "Len64" && len(t.Args) == 1 {
				x, k := f.expr(t.Args[0], sc)
				if k == "u64" {
					return lh("E.bitLen64", x), "int"
				}
				return bad()
			}
			if q := c.pkg(path); q != nil {
				if fd, ok := q.fns[fun.Sel.Name]; ok && fd.Recv == nil {
					return f.callFn(q, fd, nil, t, sc)
				}
			}
			return bad()
		}
		x, kx := f.expr(fun.X, sc)
		switch kx {
		case "cmp":
			as, ks := f.args(t.Args, sc)
			if len(as) == 2 {
				second := map[string]string{"hash": "u64", "compare": "u32"}[c.cmpMethod[fun.Sel.Name]]
				as[0], ks[0] = gcoerce(as[0], ks[0], "u32")
				as[1], ks[1] = gcoerce(as[1], ks[1], second)
			}
			switch c.cmpMethod[fun.Sel.Name] {
			case "hash":
				if len(as) == 2 && ks[0] == "u32" && ks[1] == "u64" {
					return lh("E.cmpHash", x, as[0], as[1]), "u64"
				}
			case "compare":
				if len(as) == 2 && ks[0] == "u32" && ks[1] == "u32" {
					return lh("E.cmpCompare", x, as[0], as[1]), "cres"
				}
			}
		case "tbl":
			if _, isVar := unparen(fun.X).(*ast.Ident); isVar {
				if fd, ok := c.grp.fns[c.tblType+"."+fun.Sel.Name]; ok && f.p == c.grp && !c.isMutating(fd) {
					return f.callFn(c.grp, fd, x, t, sc)
				}
			}
		}
	}
	return bad()
}

// ---------------------------------------------------------------------------------------------------------------------
// statements

func gblock(items []*lt) *lt { return lh("S.block", ll(items)) }

func (f *glFn) stmts(list []ast.Stmt, sc *glScope) []*lt {
	var out []*lt
	for _, st := range list {
		out = append(out, f.stmt(st, sc)...)
	}
	return out
}

func (f *glFn) blockOf(b *ast.BlockStmt, sc *glScope) *lt {
	if b == nil {
		return gblock(nil)
	}
	return gblock(f.stmts(b.List, sc.push()))
}

func (f *glFn) elseOf(e ast.Stmt, sc *glScope) *lt {
	switch x := e.(type) {
	case nil:
		return gblock(nil)
	case *ast.BlockStmt:
		return f.blockOf(x, sc)
	case *ast.IfStmt:
		return gblock(f.stmt(x, sc.push()))
	}
	return gblock([]*lt{gsop(e)})
}

func gzero(kind string) *lt {
	switch kind {
	case "eptr":
		return lh("E.nilPtr")
	case "rows":
		return lh("E.nilRows")
	case "int":
		return lh("E.int", lh("0"))
	case "u32":
		return lh("E.u32", lh("0"))
	case "u64":
		return lh("E.u64", lh("0"))
	case "bool":
		return lh("E.bool", lh("false"))
	}
	return nil
}

// a selector chain v.f₁.….fₙ on a variable: (variable, fields, kind of the component); the variable is a struct value, the
// pointer to the table, or (one field only) a pointer to an entry
func (f *glFn) lvaluePath(e ast.Expr, sc *glScope) (*glVar, []*lt, string) {
	var names []string
	cur := unparen(e)
	for {
		sel, ok := cur.(*ast.SelectorExpr)
		if !ok {
			break
		}
		names = append([]string{sel.Sel.Name}, names...)
		cur = unparen(sel.X)
	}
	id, ok := cur.(*ast.Ident)
	if !ok || len(names) == 0 {
		return nil, nil, ""
	}
	v := sc.lookup(id.Name)
	if v == nil {
		return nil, nil, ""
	}
	k := v.kind
	if k == "eptr" {
		k = "entry"
	}
	var path []*lt
	for _, n := range names {
		fl := f.fieldOf(k, n)
		if fl == "" {
			return nil, nil, ""
		}
		path = append(path, lh(fl))
		k = glFieldKind[fl]
	}
	return v, path, k
}

func (f *glFn) defineVar(sc *glScope, name string, x *lt, k string) []*lt {
	if k == "nil" || k == "?" || k == "unit" || k == "const" || k == "tblval" || strings.Contains(k, ",") {
		return nil
	}
	// a second name for the table
	if k == "tbl" && x.head == "E.var" {
		return nil
	}
	v := f.declare(sc, name, k)
	if k == "entries" && x.head == "E.makeEntries" {
		v.local = true
	}
	return []*lt{lh("S.define", gnat(v), x)}
}

func (f *glFn) assign(s *ast.AssignStmt, sc *glScope) []*lt {
	bad := []*lt{gsop(s)}
	// a, b := f(…)
	if s.Tok == token.DEFINE && len(s.Lhs) == 2 && len(s.Rhs) == 1 {
		a, ok1 := s.Lhs[0].(*ast.Ident)
		b, ok2 := s.Lhs[1].(*ast.Ident)
		if !ok1 || !ok2 {
			return bad
		}
		x, k := f.expr(s.Rhs[0], sc)
		ks := strings.Split(k, ",")
		if len(ks) != 2 || !strings.HasPrefix(x.head, "E.call") || ks[0] == "tbl" || ks[1] == "tbl" || ks[0] == "?" || ks[1] == "?" {
			return bad
		}
		va := f.declare(sc, a.Name, ks[0])
		vb := f.declare(sc, b.Name, ks[1])
		return []*lt{lh("S.define2", gnat(va), gnat(vb), x)}
	}
	if len(s.Lhs) != 1 || len(s.Rhs) != 1 {
		return bad
	}
	lhs, rhs := s.Lhs[0], s.Rhs[0]
	switch s.Tok {
	case token.DEFINE:
		id, ok := lhs.(*ast.Ident)
		if !ok {
			return bad
		}
		x, k := f.expr(rhs, sc)
		if d := f.defineVar(sc, id.Name, x, k); d != nil {
			return d
		}
		return bad
	case token.ASSIGN:
		switch l := unparen(lhs).(type) {
		case *ast.Ident:
			v := sc.lookup(l.Name)
			if v == nil {
				return bad
			}
			x, k := f.expr(rhs, sc)
			x, k = gcoerce(x, k, v.kind)
			if k != v.kind || k == "tbl" || k == "?" || k == "cmps" || k == "cmp" {
				return bad
			}
			if k == "entries" {
				v.local = false
			}
			return []*lt{lh("S.assign", gnat(v), x)}
		case *ast.IndexExpr:
			id, ok := unparen(l.X).(*ast.Ident)
			if !ok {
				return bad
			}
			v := sc.lookup(id.Name)
			i, ki := f.expr(l.Index, sc)
			i, ki = gcoerce(i, ki, "int")
			x, kx := f.expr(rhs, sc)
			if v == nil || v.kind != "entries" || !v.local || (ki != "int" && ki != "u32" && ki != "u64") || kx != "entry" {
				return bad
			}
			return []*lt{lh("S.setAt", gnat(v), i, x)}
		case *ast.SelectorExpr:
			v, path, k := f.lvaluePath(l, sc)
			if v == nil {
				return bad
			}
			x, kx := f.expr(rhs, sc)
			x, kx = gcoerce(x, kx, k)
			if kx != k || k == "cmps" || k == "?" {
				return bad
			}
			switch v.kind {
			case "eptr":
				if len(path) == 1 {
					return []*lt{lh("S.setPtrField", gnat(v), path[0], x)}
				}
			case "tbl", "stats", "entry":
				if v.kind == "tbl" && path[0].head == "Fld.entries" {
					f.event(v, "replace", s.Pos())
				}
				return []*lt{lh("S.setField", gnat(v), ll(path), x)}
			}
		}
	}
	return bad
}

// does the body write what the loop ranges over?
func (f *glFn) rangeWritten(s *ast.RangeStmt, sc *glScope) bool {
	written := false
	switch x := unparen(s.X).(type) {
	case *ast.Ident:
		ast.Inspect(s.Body, func(n ast.Node) bool {
			switch y := n.(type) {
			case *ast.AssignStmt:
				for _, l := range y.Lhs {
					if isName(l, x.Name) {
						written = true
					}
					if ix, ok := unparen(l).(*ast.IndexExpr); ok && isName(ix.X, x.Name) {
						written = true
					}
				}
			case *ast.UnaryExpr:
				if y.Op == token.AND {
					written = true
				}
			}
			return true
		})
	case *ast.SelectorExpr:
		// t.<field>: no assignment to a field of t.<field…>, no address-of, no write through a pointer to an entry, no
		// writing call on t in the body
		id, ok := unparen(x.X).(*ast.Ident)
		if !ok {
			return true
		}
		v := sc.lookup(id.Name)
		if v == nil || v.kind != "tbl" {
			return true
		}
		ast.Inspect(s.Body, func(n ast.Node) bool {
			switch y := n.(type) {
			case *ast.AssignStmt:
				for _, l := range y.Lhs {
					if lv, path, _ := f.lvaluePath(l, sc); lv != nil {
						if lv.kind == "eptr" || (lv == v && path[0].head == f.fieldOf("tbl", x.Sel.Name)) {
							written = true
						}
					}
					if _, isStar := unparen(l).(*ast.StarExpr); isStar {
						written = true
					}
				}
			case *ast.UnaryExpr:
				if y.Op == token.AND {
					written = true
				}
			case *ast.CallExpr:
				if sel, ok := unparen(y.Fun).(*ast.SelectorExpr); ok && isName(sel.X, id.Name) {
					if m, ok := f.c.grp.fns[f.c.tblType+"."+sel.Sel.Name]; !ok || f.c.isMutating(m) {
						written = true
					}
				}
			}
			return true
		})
	default:
		if _, isCall := x.(*ast.CallExpr); !isCall {
			return true
		}
	}
	return written
}

func (f *glFn) rangeStmt(s *ast.RangeStmt, sc *glScope) []*lt {
	if s.Tok != token.DEFINE && !(s.Tok == token.ILLEGAL && s.Key == nil && s.Value == nil) {
		return []*lt{gsop(s)}
	}
	xs, k := f.expr(s.X, sc)
	elem := map[string]string{"rows": "u32", "entries": "entry", "cmps": "cmp", "groups": "rows"}[k]
	if elem == "" || f.rangeWritten(s, sc) {
		return []*lt{gsop(s)}
	}
	inner := sc.push()
	var kv, vv *glVar
	if id, ok := s.Key.(*ast.Ident); ok && id.Name != "_" {
		kv = f.declare(inner, id.Name, "int")
	} else if s.Key != nil && !ok {
		return []*lt{gsop(s)}
	}
	if id, ok := s.Value.(*ast.Ident); ok && id.Name != "_" {
		vv = f.declare(inner, id.Name, elem)
	} else if s.Value != nil && !ok {
		return []*lt{gsop(s)}
	}
	f.loops = append(f.loops, s)
	body := f.blockOf(s.Body, inner)
	f.loops = f.loops[:len(f.loops)-1]
	return []*lt{lh("S.range", xs, gopt(kv), gopt(vv), body)}
}

func (f *glFn) forStmt(s *ast.ForStmt, sc *glScope) []*lt {
	inner := sc.push()
	f.loops = append(f.loops, s)
	defer func() { f.loops = f.loops[:len(f.loops)-1] }()
	one := func(st ast.Stmt) *lt {
		if st == nil {
			return gblock(nil)
		}
		return gblock(f.stmt(st, inner))
	}
	init := one(s.Init)
	cond := lh("E.bool", lh("true"))
	if s.Cond != nil {
		x, k := f.expr(s.Cond, inner)
		if k != "bool" {
			return []*lt{gsop(s)}
		}
		cond = x
	}
	body := f.blockOf(s.Body, inner)
	post := one(s.Post)
	return []*lt{lh("S.for", init, cond, post, body)}
}

func (f *glFn) stmt(st ast.Stmt, sc *glScope) []*lt {
	c := f.c
	switch s := st.(type) {
	case *ast.EmptyStmt:
		return nil
	case *ast.BlockStmt:
		return []*lt{f.blockOf(s, sc)}
	case *ast.ReturnStmt:
		want := strings.Split(f.rets, ",")
		if len(s.Results) != len(want) || f.rets == "unit" || f.rets == "" {
			return []*lt{gsop(s)}
		}
		var xs []*lt
		for i, r := range s.Results {
			x, k := f.expr(r, sc)
			x, k = gcoerce(x, k, want[i])
			// the pointer to the table is returned only where it is made
			if k != want[i] || k == "?" || (k == "tbl" && x.head != "E.mkTable") {
				return []*lt{gsop(s)}
			}
			xs = append(xs, x)
		}
		switch len(xs) {
		case 1:
			return []*lt{lh("S.ret", xs[0])}
		case 2:
			return []*lt{lh("S.ret", lh("E.pair", xs[0], xs[1]))}
		}
	case *ast.IfStmt:
		if s.Init != nil {
			break
		}
		cond, k := f.expr(s.Cond, sc)
		if k != "bool" {
			break
		}
		return []*lt{lh("S.ite", cond, f.blockOf(s.Body, sc), f.elseOf(s.Else, sc))}
	case *ast.RangeStmt:
		return f.rangeStmt(s, sc)
	case *ast.ForStmt:
		return f.forStmt(s, sc)
	case *ast.BranchStmt:
		if s.Tok == token.BREAK && s.Label == nil && len(f.loops) > 0 {
			return []*lt{lh("S.brk")}
		}
	case *ast.AssignStmt:
		return f.assign(s, sc)
	case *ast.IncDecStmt:
		if s.Tok != token.INC {
			break
		}
		if v, path, k := f.lvaluePath(s.X, sc); v != nil && (k == "int" || k == "u32" || k == "u64") && (v.kind == "tbl" || v.kind == "stats" || v.kind == "entry") {
			return []*lt{lh("S.incrField", gnat(v), ll(path))}
		}
	case *ast.ExprStmt:
		// t.m(args) for a method that writes through its receiver
		call, ok := unparen(s.X).(*ast.CallExpr)
		if !ok {
			break
		}
		sel, ok := unparen(call.Fun).(*ast.SelectorExpr)
		if !ok {
			break
		}
		id, ok := unparen(sel.X).(*ast.Ident)
		if !ok {
			break
		}
		v := sc.lookup(id.Name)
		if v == nil || v.kind != "tbl" || f.p != c.grp {
			break
		}
		fd, ok := c.grp.fns[c.tblType+"."+sel.Sel.Name]
		if !ok || !c.isMutating(fd) {
			break
		}
		fid := c.use(c.grp, fd)
		_, rk := c.sigKinds(c.grp, fd.Type)
		as := f.fitArgs(c.grp, fd, call.Args, sc)
		if fid == "" || rk != "" || (as == nil && len(call.Args) > 0) {
			break
		}
		f.event(v, "replace", s.Pos())
		return []*lt{lh("S.callMut", lh(fid), gnat(v), ll(as))}
	case *ast.DeclStmt:
		gd, ok := s.Decl.(*ast.GenDecl)
		if !ok || gd.Tok != token.VAR {
			break
		}
		var out []*lt
		for _, sp := range gd.Specs {
			vs, ok := sp.(*ast.ValueSpec)
			if !ok || vs.Type == nil || len(vs.Values) > 0 && len(vs.Values) != len(vs.Names) {
				return []*lt{gsop(s)}
			}
			k := c.kind(f.p, vs.Type)
			for i, n := range vs.Names {
				x := gzero(k)
				if len(vs.Values) > 0 {
					y, ky := f.expr(vs.Values[i], sc)
					y, ky = gcoerce(y, ky, k)
					if ky != k {
						return []*lt{gsop(s)}
					}
					x = y
				}
				if x == nil {
					return []*lt{gsop(s)}
				}
				d := f.defineVar(sc, n.Name, x, k)
				if d == nil {
					return []*lt{gsop(s)}
				}
				out = append(out, d...)
			}
		}
		return out
	}
	return []*lt{gsop(st)}
}

func sharesLoop(a, b []ast.Node) bool {
	for _, x := range a {
		for _, y := range b {
			if x == y {
				return true
			}
		}
	}
	return false
}

func (c *glCtx) translate(t *glTarget) string {
	f := &glFn{c: c, p: t.pkg, fd: t.decl}
	sc := &glScope{vars: map[string]*glVar{}}
	addParams := func(fl *ast.FieldList) {
		if fl == nil {
			return
		}
		for _, fld := range fl.List {
			k := c.kind(t.pkg, fld.Type)
			if len(fld.Names) == 0 {
				f.declare(sc, "_", k)
			}
			for _, n := range fld.Names {
				f.declare(sc, n.Name, k)
			}
		}
	}
	addParams(t.decl.Recv)
	addParams(t.decl.Type.Params)
	params := f.next
	_, f.rets = c.sigKinds(t.pkg, t.decl.Type)
	body := f.stmts(t.decl.Body.List, sc.push())
	// a pointer to an entry stays good only while the slice it points into is the table's
	for _, a := range f.events {
		if a.what != "addr" {
			continue
		}
		for _, r := range f.events {
			if r.what == "replace" && r.v == a.v && (r.pos > a.pos || sharesLoop(a.loops, r.loops)) {
				body = []*lt{ls("S.opaque", "the entries of the table are replaced while a pointer to one of them is alive")}
			}
		}
	}
	return fmt.Sprintf("{ params := %d, body := %s }", params, gblock(body).lean())
}

func grouperLean(repo string) string {
	c := &glCtx{repo: repo, module: modulePath(repo), pkgs: map[string]*clPkg{}, targets: map[string]*glTarget{}, bodies: map[string]string{},
		mutates: map[*ast.FuncDecl]int{}}
	c.grp = c.pkg(c.module + "/internal/grouper")
	if c.grp != nil {
		c.scan()
		for _, n := range []string{"GroupBy", "Distinct"} {
			if fd, ok := c.grp.fns[n]; ok && fd.Recv == nil {
				c.use(c.grp, fd)
			}
		}
		for len(c.queue) > 0 {
			id := c.queue[0]
			c.queue = c.queue[1:]
			c.bodies[id] = c.translate(c.targets[id])
		}
	}
	var b strings.Builder
	b.WriteString("/- GENERATED on every run by /verif/go/cmd/extract from /repo's source (tie T1). Do not edit. -/\nimport QF.Core.GLExpr\nnamespace QF.Gen\nopen QF.GL\n\n")
	b.WriteString("/-- the grouper hash table (`newTable`, `table.grow`, `table.hash`, `table.insertEntry`, `equals`, `calculateInitialSizeExp`,\n`groupIndex`, `GroupBy`, `Distinct` of internal/grouper and the helpers of internal/math/integer they call) translated\nstatement by statement to the language `QF.GL`, by role: (function, term) -/\n")
	b.WriteString("def grouperFns : List (FnId × Fn) := [\n")
	var items []string
	for _, id := range glFnOrder {
		if body, ok := c.bodies[id]; ok {
			items = append(items, "  ("+id+", "+body+")")
		}
	}
	b.WriteString(strings.Join(items, ",\n") + "]\n\nend QF.Gen\n")
	return b.String()
}
