package main

// Translation go/ast → CE / FStmt (lean/QF/Core/CExpr.lean) of the row comparators of the five column packages:
//
//	func (c Comparable) Compare(i, j uint32) column.CompareResult          → a decision tree CE
//	func (c Column) Comparable(reverse, equalNull, nullLast bool) …        → a list of guarded assignments FStmt
//
// As in kast.go the translation is by ROLE, never by identifier name: the receiver is the comparable, the first index
// parameter selects the cell `x`, the second one the cell `y`; local names get their role from their declaration
// (`x, y := c.data[i], c.data[j]`, `x, xNull := c.column.bytesAt(i)`, `r := bytes.Compare(x, y)`). Which field of the
// Comparable struct holds the column (or its cells) is read off the composite literal in `Column.Comparable`
// (`Comparable{data: c.data, …}` / `Comparable{column: c, …}`). Only the names of the five result fields and of the
// CompareResult constants are a fixed vocabulary. `x < y` and `y > x` are the same condition; `y < x` is not.
// Whatever is not understood (arithmetic on the cells, assignments to existing variables, loops, …) becomes `.opaque
// "<text>"`; such a comparator has no semantics in the model and the proofs of QF/Props/C03Compare.lean fail on it.

import (
	"fmt"
	"go/ast"
	"go/token"
	"strings"
)

// lt is a term of one of the Lean types of CExpr.lean.
type lt struct {
	head string
	str  *string
	args []*lt
	list []*lt // a Lean list literal (head == "")
	isL  bool
}

func lh(head string, args ...*lt) *lt { return &lt{head: head, args: args} }
func ls(head, s string) *lt           { return &lt{head: head, str: &s} }
func ll(items []*lt) *lt              { return &lt{isL: true, list: items} }

func (t *lt) lean() string {
	if t.isL {
		parts := make([]string, len(t.list))
		for i, x := range t.list {
			parts[i] = x.lean()
		}
		return "[" + strings.Join(parts, ", ") + "]"
	}
	if t.head == "(,)" {
		return "(" + t.args[0].lean() + ", " + t.args[1].lean() + ")"
	}
	parts := []string{t.head}
	if t.str != nil {
		parts = append(parts, leanStr(*t.str))
	}
	for _, a := range t.args {
		s := a.lean()
		if strings.Contains(s, " ") && !a.isL && a.head != "(,)" {
			s = "(" + s + ")"
		}
		parts = append(parts, s)
	}
	return strings.Join(parts, " ")
}

func (t *lt) hasOpaque() bool {
	if strings.HasSuffix(t.head, ".opaque") {
		return true
	}
	for _, a := range t.args {
		if a.hasOpaque() {
			return true
		}
	}
	for _, a := range t.list {
		if a.hasOpaque() {
			return true
		}
	}
	return false
}

var resultFields = map[string]string{
	"ltValue": "CField.lt", "gtValue": "CField.gt", "nullLtValue": "CField.nullLt", "nullGtValue": "CField.nullGt",
	"equalNullValue": "CField.equalNull",
}

var resultConsts = map[string]string{
	"LessThan": "CRes.lessThan", "GreaterThan": "CRes.greaterThan", "Equal": "CRes.equal", "NotEqual": "CRes.notEqual",
}

// csym is what a Go name (or expression) stands for while a comparator is translated.
type csym struct {
	kind string // cmp | colrecv | col | data | ix | cell | null | pair | cmpres | ret | cond | flag | res | unknown
	w    string // ix, cell, null: "x" | "y"; cmpres: "xy" | "yx"; flag: the Lean constructor
	t    *lt    // ret: the CRet; cond: the CCond
	t2   *lt
	w2   string
}

type cscope map[string]csym

func (s cscope) clone() cscope {
	r := cscope{}
	for k, v := range s {
		r[k] = v
	}
	return r
}

// cctx is the package a comparator lives in.
type cctx struct {
	pkg       string
	colField  string // field of Comparable that holds the Column
	dataField string // field of Comparable that holds the Column's cells
}

func unbound(sc cscope, e ast.Expr, name string) bool {
	id, ok := e.(*ast.Ident)
	if !ok || id.Name != name {
		return false
	}
	_, b := sc[name]
	return !b
}

func (c *cctx) expr(e ast.Expr, sc cscope) csym {
	switch t := e.(type) {
	case *ast.ParenExpr:
		return c.expr(t.X, sc)
	case *ast.Ident:
		if s, ok := sc[t.Name]; ok {
			return s
		}
	case *ast.SelectorExpr:
		if unbound(sc, t.X, "column") {
			if r, ok := resultConsts[t.Sel.Name]; ok {
				return csym{kind: "ret", t: lh("CRet.const", lh(r))}
			}
			return csym{kind: "unknown"}
		}
		x := c.expr(t.X, sc)
		switch x.kind {
		case "cmp":
			if f, ok := resultFields[t.Sel.Name]; ok {
				return csym{kind: "ret", t: lh("CRet.field", lh(f))}
			}
			if c.dataField != "" && t.Sel.Name == c.dataField {
				return csym{kind: "data"}
			}
			if c.colField != "" && t.Sel.Name == c.colField {
				return csym{kind: "col"}
			}
		case "col":
			if f, ok := cellField[c.pkg]; ok && t.Sel.Name == f {
				return csym{kind: "data"}
			}
		}
	case *ast.IndexExpr:
		x, ix := c.expr(t.X, sc), c.expr(t.Index, sc)
		if x.kind == "data" && ix.kind == "ix" {
			return csym{kind: "cell", w: ix.w}
		}
	case *ast.CallExpr:
		sel, ok := t.Fun.(*ast.SelectorExpr)
		if !ok {
			break
		}
		if unbound(sc, sel.X, "math") && sel.Sel.Name == "IsNaN" && len(t.Args) == 1 && c.pkg == "fcolumn" {
			if a := c.expr(t.Args[0], sc); a.kind == "cell" {
				return csym{kind: "cond", t: lh("CCond." + a.w + "NaN")}
			}
			break
		}
		if unbound(sc, sel.X, "bytes") && sel.Sel.Name == "Compare" && len(t.Args) == 2 && c.pkg == "scolumn" {
			a, b := c.expr(t.Args[0], sc), c.expr(t.Args[1], sc)
			if a.kind == "cell" && b.kind == "cell" && a.w != b.w {
				return csym{kind: "cmpres", w: a.w + b.w}
			}
			break
		}
		recv := c.expr(sel.X, sc)
		switch {
		case recv.kind == "col" && sel.Sel.Name == "bytesAt" && c.pkg == "scolumn" && len(t.Args) == 1:
			if a := c.expr(t.Args[0], sc); a.kind == "ix" {
				return csym{kind: "pair", w: a.w}
			}
		case recv.kind == "cell" && sel.Sel.Name == "isNull" && c.pkg == "ecolumn" && len(t.Args) == 0:
			return csym{kind: "cond", t: lh("CCond." + recv.w + "Null")}
		}
	}
	return csym{kind: "unknown"}
}

func intLit(e ast.Expr) (int, bool) {
	e = unparen(e)
	neg := false
	if u, ok := e.(*ast.UnaryExpr); ok && u.Op == token.SUB {
		neg = true
		e = unparen(u.X)
	}
	bl, ok := e.(*ast.BasicLit)
	if !ok || bl.Kind != token.INT {
		return 0, false
	}
	switch bl.Value {
	case "0":
		return 0, true
	case "1":
		if neg {
			return -1, true
		}
		return 1, true
	}
	return 0, false
}

// the condition "the result of bytes.Compare(a, b) `op` n"
func cmpresCond(order string, op token.Token, n int) *lt {
	var name string
	switch {
	case op == token.EQL && n == -1, op == token.LSS && n == 0:
		name = "lt"
	case op == token.EQL && n == 1, op == token.GTR && n == 0:
		name = "gt"
	case op == token.EQL && n == 0:
		name = "eq"
	case op == token.NEQ && n == 0:
		name = "ne"
	default:
		return nil
	}
	return orderCond(order, name)
}

// a comparison of the two cells in the given operand order
func orderCond(order, name string) *lt {
	if order != "xy" && order != "yx" {
		return nil
	}
	if order == "yx" {
		switch name {
		case "lt":
			name = "gt"
		case "gt":
			name = "lt"
		}
	}
	switch name {
	case "lt":
		return lh("CCond.xLtY")
	case "gt":
		return lh("CCond.xGtY")
	case "eq":
		return lh("CCond.xEqY")
	case "ne":
		return lh("CCond.not", lh("CCond.xEqY"))
	}
	return nil
}

func (c *cctx) cond(e ast.Expr, sc cscope) *lt {
	bad := func() *lt { return ls("CCond.opaque", src(e)) }
	switch t := unparen(e).(type) {
	case *ast.UnaryExpr:
		if t.Op == token.NOT {
			return lh("CCond.not", c.cond(t.X, sc))
		}
		return bad()
	case *ast.BinaryExpr:
		switch t.Op {
		case token.LOR:
			return lh("CCond.or", c.cond(t.X, sc), c.cond(t.Y, sc))
		case token.LAND:
			return lh("CCond.and", c.cond(t.X, sc), c.cond(t.Y, sc))
		case token.LSS, token.GTR, token.EQL, token.NEQ:
			a, b := c.expr(t.X, sc), c.expr(t.Y, sc)
			if a.kind == "cell" && b.kind == "cell" && c.pkg != "scolumn" {
				name := map[token.Token]string{token.LSS: "lt", token.GTR: "gt", token.EQL: "eq", token.NEQ: "ne"}[t.Op]
				if r := orderCond(a.w+b.w, name); r != nil {
					return r
				}
				return bad()
			}
			if a.kind == "cmpres" {
				if n, ok := intLit(t.Y); ok {
					if r := cmpresCond(a.w, t.Op, n); r != nil {
						return r
					}
				}
			}
		}
		return bad()
	}
	s := c.expr(e, sc)
	switch s.kind {
	case "cond":
		return s.t
	case "null":
		return lh("CCond." + s.w + "Null")
	case "cell":
		if c.pkg == "bcolumn" {
			return lh("CCond." + s.w + "True")
		}
	}
	return bad()
}

// `lhs := rhs` inside Compare
func (c *cctx) define(as *ast.AssignStmt, sc cscope) bool {
	if as.Tok != token.DEFINE {
		return false
	}
	names := make([]string, len(as.Lhs))
	for i, l := range as.Lhs {
		id, ok := l.(*ast.Ident)
		if !ok {
			return false
		}
		names[i] = id.Name
	}
	var vals []csym
	switch {
	case len(as.Rhs) == len(as.Lhs):
		for _, r := range as.Rhs {
			vals = append(vals, c.expr(r, sc))
		}
	case len(as.Lhs) == 2 && len(as.Rhs) == 1:
		p := c.expr(as.Rhs[0], sc)
		if p.kind != "pair" {
			return false
		}
		vals = []csym{{kind: "cell", w: p.w}, {kind: "null", w: p.w}}
	default:
		return false
	}
	for i, n := range names {
		if n != "_" {
			sc[n] = vals[i]
		}
	}
	return true
}

func stmtsText(stmts []ast.Stmt) string {
	parts := make([]string, len(stmts))
	for i, s := range stmts {
		parts[i] = src(s)
	}
	return strings.Join(parts, "; ")
}

// block translates a statement list every path of which must end in a `return`.
func (c *cctx) block(stmts []ast.Stmt, sc cscope, depth int) *lt {
	if len(stmts) == 0 {
		return ls("CE.opaque", "no return")
	}
	if depth > 40 {
		return ls("CE.opaque", stmtsText(stmts))
	}
	rest := stmts[1:]
	join := func(body []ast.Stmt) []ast.Stmt {
		return append(append([]ast.Stmt{}, body...), rest...)
	}
	switch s := stmts[0].(type) {
	case *ast.ReturnStmt:
		if len(s.Results) == 1 {
			if r := c.expr(s.Results[0], sc); r.kind == "ret" {
				return lh("CE.ret", r.t)
			}
		}
	case *ast.AssignStmt:
		sc = sc.clone()
		if c.define(s, sc) {
			return c.block(rest, sc, depth+1)
		}
	case *ast.BlockStmt:
		return c.block(join(s.List), sc.clone(), depth+1)
	case *ast.IfStmt:
		sc = sc.clone()
		if s.Init != nil {
			as, ok := s.Init.(*ast.AssignStmt)
			if !ok || !c.define(as, sc) {
				break
			}
		}
		cond := c.cond(s.Cond, sc)
		then := c.block(join(s.Body.List), sc, depth+1)
		var els *lt
		switch e := s.Else.(type) {
		case nil:
			els = c.block(rest, sc, depth+1)
		case *ast.BlockStmt:
			els = c.block(join(e.List), sc, depth+1)
		case *ast.IfStmt:
			els = c.block(join([]ast.Stmt{e}), sc, depth+1)
		default:
			els = ls("CE.opaque", src(s.Else))
		}
		return lh("CE.ite", cond, then, els)
	case *ast.SwitchStmt:
		sc = sc.clone()
		if s.Init != nil {
			as, ok := s.Init.(*ast.AssignStmt)
			if !ok || !c.define(as, sc) {
				break
			}
		}
		var tag *csym
		if s.Tag != nil {
			t := c.expr(s.Tag, sc)
			if t.kind != "cmpres" {
				break
			}
			tag = &t
		}
		type arm struct {
			cond *lt
			body []ast.Stmt
		}
		var arms []arm
		var deflt []ast.Stmt
		haveDefault, ok := false, true
		for _, cl := range s.Body.List {
			cc, isCC := cl.(*ast.CaseClause)
			if !isCC {
				ok = false
				break
			}
			for _, b := range cc.Body {
				if containsBranch(b) {
					ok = false
				}
			}
			if cc.List == nil {
				haveDefault = true
				deflt = cc.Body
				continue
			}
			var cond *lt
			for _, v := range cc.List {
				var one *lt
				if tag == nil {
					one = c.cond(v, sc)
				} else if n, isInt := intLit(v); isInt {
					one = cmpresCond(tag.w, token.EQL, n)
				}
				if one == nil {
					one = ls("CCond.opaque", src(s.Tag)+" == "+src(v))
				}
				if cond == nil {
					cond = one
				} else {
					cond = lh("CCond.or", cond, one)
				}
			}
			arms = append(arms, arm{cond, cc.Body})
		}
		if !ok {
			break
		}
		var res *lt
		if haveDefault {
			res = c.block(join(deflt), sc, depth+1)
		} else {
			res = c.block(rest, sc, depth+1)
		}
		for i := len(arms) - 1; i >= 0; i-- {
			res = lh("CE.ite", arms[i].cond, c.block(join(arms[i].body), sc, depth+1), res)
		}
		return res
	}
	return ls("CE.opaque", stmtsText(stmts))
}

// break / fallthrough / continue / goto anywhere inside a statement
func containsBranch(n ast.Node) bool {
	found := false
	ast.Inspect(n, func(m ast.Node) bool {
		if _, ok := m.(*ast.BranchStmt); ok {
			found = true
		}
		return !found
	})
	return found
}

// compareAst translates `func (c Comparable) Compare(i, j uint32) column.CompareResult`.
func (c *cctx) compareAst(fd *ast.FuncDecl) *lt {
	sc := cscope{}
	if fd.Recv == nil || len(fd.Recv.List) != 1 || src(fd.Recv.List[0].Type) != "Comparable" {
		return ls("CE.opaque", "receiver")
	}
	for _, n := range fd.Recv.List[0].Names {
		sc[n.Name] = csym{kind: "cmp"}
	}
	names := paramNames(fd)
	if len(names) != 2 {
		return ls("CE.opaque", "parameters")
	}
	for i, n := range names {
		if n != "_" {
			sc[n] = csym{kind: "ix", w: []string{"x", "y"}[i]}
		}
	}
	return c.block(fd.Body.List, sc, 0)
}

// comparableAst translates `func (c Column) Comparable(reverse, equalNull, nullLast bool) column.Comparable` and finds
// the fields of the Comparable struct that hold the column / its cells.
func (c *cctx) comparableAst(fd *ast.FuncDecl) []*lt {
	sc := cscope{}
	if fd.Recv == nil || len(fd.Recv.List) != 1 || src(fd.Recv.List[0].Type) != "Column" {
		return []*lt{ls("FStmt.opaque", "receiver")}
	}
	for _, n := range fd.Recv.List[0].Names {
		sc[n.Name] = csym{kind: "colrecv"}
	}
	names := paramNames(fd)
	if len(names) != 3 {
		return []*lt{ls("FStmt.opaque", "parameters")}
	}
	for i, n := range names {
		if n != "_" {
			sc[n] = csym{kind: "flag", w: []string{"CFlag.reverse", "CFlag.equalNull", "CFlag.nullLast"}[i]}
		}
	}
	var out []*lt
	returned := c.fieldStmts(fd.Body.List, sc, nil, true, &out)
	if !returned {
		out = append(out, ls("FStmt.opaque", "no return"))
	}
	return out
}

func guardTerm(g [][2]string) *lt {
	items := make([]*lt, len(g))
	for i, p := range g {
		items[i] = lh("(,)", lh(p[0]), lh(p[1]))
	}
	return ll(items)
}

// the value of a right-hand side / literal element: a result constant or a field of the value being built
func (c *cctx) fieldVal(e ast.Expr, sc cscope) *lt {
	e = unparen(e)
	sel, ok := e.(*ast.SelectorExpr)
	if !ok {
		return nil
	}
	if unbound(sc, sel.X, "column") {
		if r, ok := resultConsts[sel.Sel.Name]; ok {
			return lh("CRet.const", lh(r))
		}
		return nil
	}
	if id, ok := unparen(sel.X).(*ast.Ident); ok && sc[id.Name].kind == "res" {
		if f, ok := resultFields[sel.Sel.Name]; ok {
			return lh("CRet.field", lh(f))
		}
	}
	return nil
}

// fieldStmts translates the statements of Column.Comparable under the guard g; reports whether the list ends with the
// `return` of the value built (allowed at top level only).
func (c *cctx) fieldStmts(stmts []ast.Stmt, sc cscope, g [][2]string, top bool, out *[]*lt) bool {
	for n, st := range stmts {
		last := n == len(stmts)-1
		bad := func() { *out = append(*out, ls("FStmt.opaque", src(st))) }
		switch s := st.(type) {
		case *ast.ReturnStmt:
			if top && last && len(s.Results) == 1 {
				if id, ok := unparen(s.Results[0]).(*ast.Ident); ok && sc[id.Name].kind == "res" {
					return true
				}
			}
			bad()
			return true
		case *ast.AssignStmt:
			if s.Tok == token.DEFINE {
				// result := Comparable{…}
				if !top || len(s.Lhs) != 1 || len(s.Rhs) != 1 {
					bad()
					continue
				}
				id, ok := s.Lhs[0].(*ast.Ident)
				cl, ok2 := s.Rhs[0].(*ast.CompositeLit)
				if !ok || !ok2 || cl.Type == nil || src(cl.Type) != "Comparable" {
					bad()
					continue
				}
				for _, v := range sc {
					if v.kind == "res" {
						ok = false
					}
				}
				var lhs, rhs []*lt
				for _, el := range cl.Elts {
					kv, isKV := el.(*ast.KeyValueExpr)
					if !isKV {
						ok = false
						break
					}
					key, isID := kv.Key.(*ast.Ident)
					if !isID {
						ok = false
						break
					}
					if f, isF := resultFields[key.Name]; isF {
						v := c.fieldVal(kv.Value, sc)
						if v == nil || v.head != "CRet.const" {
							ok = false
							break
						}
						lhs = append(lhs, lh(f))
						rhs = append(rhs, v)
						continue
					}
					// the column itself or its cells
					switch v := unparen(kv.Value).(type) {
					case *ast.Ident:
						if sc[v.Name].kind == "colrecv" && c.colField == "" {
							c.colField = key.Name
							continue
						}
					case *ast.SelectorExpr:
						if x, isID := unparen(v.X).(*ast.Ident); isID && sc[x.Name].kind == "colrecv" && v.Sel.Name == cellField[c.pkg] && c.dataField == "" {
							c.dataField = key.Name
							continue
						}
					}
					ok = false
				}
				if !ok {
					bad()
					continue
				}
				sc[id.Name] = csym{kind: "res"}
				*out = append(*out, lh("FStmt.assign", guardTerm(g), ll(lhs), ll(rhs)))
				continue
			}
			if s.Tok != token.ASSIGN || len(s.Lhs) != len(s.Rhs) {
				bad()
				continue
			}
			var lhs, rhs []*lt
			ok := true
			for i := range s.Lhs {
				l := c.fieldVal(s.Lhs[i], sc)
				r := c.fieldVal(s.Rhs[i], sc)
				if l == nil || l.head != "CRet.field" || r == nil {
					ok = false
					break
				}
				lhs = append(lhs, l.args[0])
				rhs = append(rhs, r)
			}
			if !ok {
				bad()
				continue
			}
			*out = append(*out, lh("FStmt.assign", guardTerm(g), ll(lhs), ll(rhs)))
		case *ast.IfStmt:
			if s.Init != nil {
				bad()
				continue
			}
			flag, pos := "", "true"
			cond := unparen(s.Cond)
			if u, ok := cond.(*ast.UnaryExpr); ok && u.Op == token.NOT {
				pos = "false"
				cond = unparen(u.X)
			}
			if id, ok := cond.(*ast.Ident); ok && sc[id.Name].kind == "flag" {
				flag = sc[id.Name].w
			}
			if flag == "" {
				bad()
				continue
			}
			neg := map[string]string{"true": "false", "false": "true"}[pos]
			with := func(p string) [][2]string {
				return append(append([][2]string{}, g...), [2]string{flag, p})
			}
			c.fieldStmts(s.Body.List, sc, with(pos), false, out)
			switch e := s.Else.(type) {
			case nil:
			case *ast.BlockStmt:
				c.fieldStmts(e.List, sc, with(neg), false, out)
			case *ast.IfStmt:
				c.fieldStmts([]ast.Stmt{e}, sc, with(neg), false, out)
			default:
				bad()
			}
		default:
			bad()
		}
	}
	return false
}

// compareResultConsts lists the constants of type CompareResult of internal/column in declaration order (iota).
func compareResultConsts(files map[string]*ast.File) []string {
	var res []string
	for _, f := range files {
		for _, d := range f.Decls {
			gd, ok := d.(*ast.GenDecl)
			if !ok || gd.Tok != token.CONST {
				continue
			}
			isBlock := false
			for i, sp := range gd.Specs {
				vs := sp.(*ast.ValueSpec)
				if i == 0 {
					isBlock = vs.Type != nil && src(vs.Type) == "CompareResult" && len(vs.Values) == 1 && src(vs.Values[0]) == "iota"
				} else if vs.Type != nil || len(vs.Values) != 0 {
					if isBlock {
						res = append(res, "?"+src(vs))
						continue
					}
				}
				if isBlock {
					for _, n := range vs.Names {
						res = append(res, n.Name)
					}
				}
			}
		}
	}
	return res
}

// compareLean renders QF/Gen/Compare.lean.
func compareLean(pkgs []string, fns map[string]map[string]*ast.FuncDecl, consts []string) string {
	var asts, fields []string
	for _, p := range pkgs {
		c := &cctx{pkg: p}
		prog := []*lt{ls("FStmt.opaque", "?missing")}
		if fd, ok := fns[p]["Column.Comparable"]; ok {
			prog = c.comparableAst(fd)
		}
		t := ls("CE.opaque", "?missing")
		if fd, ok := fns[p]["Comparable.Compare"]; ok {
			t = c.compareAst(fd)
		}
		asts = append(asts, fmt.Sprintf("  (%s, %s)", leanStr(p), t.lean()))
		items := make([]string, len(prog))
		for i, s := range prog {
			items[i] = "    " + s.lean()
		}
		fields = append(fields, fmt.Sprintf("  (%s, [\n%s])", leanStr(p), strings.Join(items, ",\n")))
	}
	cs := make([]string, len(consts))
	for i, s := range consts {
		cs[i] = leanStr(s)
	}
	var b strings.Builder
	b.WriteString("/- GENERATED on every run by /verif/go/cmd/extract from /repo's source (tie T1). Do not edit. -/\nimport QF.Core.CExpr\nnamespace QF.Gen\n\n")
	b.WriteString("/-- the constants of `column.CompareResult` in declaration order (`iota`): the first is the zero value -/\n")
	b.WriteString("def compareResultConsts : List String := [" + strings.Join(cs, ", ") + "]\n\n")
	b.WriteString("/-- `Comparable.Compare` of every column package as a decision tree `QF.CE`, by role: (package, term) -/\n")
	b.WriteString("def compareAst : List (String × CE) := [\n" + strings.Join(asts, ",\n") + "]\n\n")
	b.WriteString("/-- `Column.Comparable(reverse, equalNull, nullLast)` of every column package: the assignments to the result fields -/\n")
	b.WriteString("def comparableFields : List (String × List FStmt) := [\n" + strings.Join(fields, ",\n") + "]\n\nend QF.Gen\n")
	return b.String()
}
