package main

// Translation go/ast → CR.S / CR.E (lean/QF/Core/CRExpr.lean) of the CSV reader of /repo/internal/fastcsv:
//
//	func (b *bufferedReader) more() error, reset()
//	func (fs *fields) reset(), nextUnquotedField() bool, next() bool
//	func nextQuotedField(buffer *bufferedReader, delimiter byte) ([]byte, bool, error)
//	func (r *Reader) Next() bool, Err() error, Read() ([][]byte, error)
//	func (r *eofReaderWrapper) Read(b []byte) (int, error)
//	func NewReader(r io.Reader, delimiter byte) Reader
//
// Method: a statement-by-statement translation of the function bodies with a small kind inference of its own (only
// go/parser + go/ast): every expression has a KIND (int, bool, byte, err, bytes = []byte, rows = [][]byte, ioreader, the
// object kinds). Only the public vocabulary is looked up by name (the type `Reader`, its methods `Next`, `Err`, `Read`, the
// function `NewReader`, `io.Reader` with its method `Read`, `io.EOF`, the builtins); everything else by ROLE, so that a
// rename of a private identifier, a reordering of struct fields, a reformatting or a comment does not change the output and
// any change of behaviour does:
//
//   - the structs are found structurally from `Reader`: `Reader` = {one struct (the FIELDS struct), one [][]byte}, the
//     fields struct = {one struct (the BUFFER struct), int, bool, byte, []byte, error}, the buffer struct = {io.Reader,
//     []byte, int}; the WRAPPER struct is the type T of the literal `&T{…}` in NewReader = {io.Reader, bool}. The structs are
//     held by value inside each other. A struct with another field, or two fields of one type, has no roles: everything
//     that touches it is opaque. The fields are named by struct and type (`Fld`);
//   - there is ONE object: a pointer receiver, a parameter `*<buffer struct>`, the selector paths through the by-value
//     struct fields and `&<path>` all denote (a part of) it. Object expressions never become variables or arguments:
//     `x.f` is `E.fld` / `L.fld`; receivers and `*<buffer struct>` arguments are checked and dropped. A value receiver, a
//     by-value struct parameter, a local variable holding an object are not understood;
//   - the variables of a function are numbered in the order of their declaration: the value parameters, then every new
//     name of a `:=` (Go's rule: new = not yet declared in the same scope), `var`, the variables of `if v := …`, and the
//     fresh temporaries that hold the result of a call used as a condition, as they occur in the text. Local integer
//     constants are replaced by their value;
//   - a function that is called is resolved through the name at the call site to its declaration and gets the FnId its
//     receiver, its SIGNATURE and the caller stand for (buffer `() error` → more, buffer `()` → bufReset, fields `()` →
//     fsReset, fields `() bool` called from Reader.Next → fsNext, called from fsNext → unquoted, `(*buffer, byte) ([]byte,
//     bool, error)` → quoted); it is then translated under that FnId. Two declarations in one role make the role ambiguous
//     (opaque). `<buffer>.<io.Reader field>.Read(x)` is a call of the wrapper's `Read` iff NewReader stores the wrapper in
//     that field (the value is the `&W{…}` literal, or a variable whose last assignment before the one `return` is that
//     literal); `<wrapper>.<io.Reader field>.Read(x)` is the primitive `S.rawRead`;
//   - calls are statements (`S.call`, `S.retCall`): `a, b := f(x)`, `if v := f(x); c {…}` (call, then `S.ite`), `if f(x) {…}`
//     and `for f(x) {…}` (through a fresh temporary). Everything else in an expression is pure;
//   - `for {…}` / `for c {…}` → `S.loop` (the condition is `S.ite c S.skip S.brk` at the head of the body), `switch tag {…}`
//     with single-valued cases → a chain of `S.ite (E.cmp COp.eq tag v)`, `break` only directly in a loop.
//
// Whatever is not understood becomes `.opaque "<text>"`; such a term has no meaning (`stuck`) and the proofs of
// QF/Props/C12CsvCanon.lean fail.

import (
	"fmt"
	"go/ast"
	"go/token"
	"path/filepath"
	"strconv"
	"strings"
)

type crPkg struct {
	fns     map[string]*ast.FuncDecl
	types   map[string]ast.Expr
	imports map[string]string
	names   map[string]bool // everything declared at package level
}

type crCtx struct {
	p *crPkg
	// the structs by role ("reader", "fields", "buffer", "wrapper") and their fields: name → "Fld.x" | "sub:<role>" | "rd"
	typeOf     map[string]string
	roleOfType map[string]string
	fields     map[string]map[string]string
	// NewReader stores the wrapper in the buffer's io.Reader field
	bufIsWrapper bool
	targets      map[string]*ast.FuncDecl
	ambiguous    map[string]bool
	dirty        bool
	queue        []string
	bodies       map[string]string
}

var crFnOrder = []string{"FnId.more", "FnId.bufReset", "FnId.fsReset", "FnId.unquoted", "FnId.quoted", "FnId.fsNext",
	"FnId.rdNext", "FnId.rdErr", "FnId.rdRead", "FnId.wrapRead", "FnId.newReader"}

var crFldKind = map[string]string{"Fld.data": "bytes", "Fld.cursor": "int", "Fld.fieldStart": "int", "Fld.hitEOL": "bool",
	"Fld.delim": "byte", "Fld.field": "bytes", "Fld.err": "err", "Fld.row": "rows", "Fld.isEof": "bool"}

// the signatures of the roots: receiver role | parameter kinds → result kinds
var crRootSig = map[string]string{"FnId.rdNext": "reader|→bool", "FnId.rdErr": "reader|→err", "FnId.rdRead": "reader|→rows,err",
	"FnId.newReader": "|ioreader,byte→val:reader"}

// kinds: int bool byte err bytes rows ioreader | val:<role> ptr:<role> obj:<role> rdof:<role> | wrapped nil rune | ?
func (c *crCtx) typeKind(t ast.Expr) string {
	switch x := t.(type) {
	case *ast.ParenExpr:
		return c.typeKind(x.X)
	case *ast.Ident:
		if !c.p.names[x.Name] {
			switch x.Name {
			case "int", "bool":
				return x.Name
			case "byte", "uint8":
				return "byte"
			case "error":
				return "err"
			}
		}
		if r, ok := c.roleOfType[x.Name]; ok {
			return "val:" + r
		}
	case *ast.StarExpr:
		if id, ok := unparen(x.X).(*ast.Ident); ok {
			if r, ok := c.roleOfType[id.Name]; ok {
				return "ptr:" + r
			}
		}
	case *ast.ArrayType:
		if x.Len == nil {
			switch c.typeKind(x.Elt) {
			case "byte":
				return "bytes"
			case "bytes":
				return "rows"
			}
		}
	case *ast.SelectorExpr:
		if id, ok := x.X.(*ast.Ident); ok && c.isIO(id.Name) && x.Sel.Name == "Reader" {
			return "ioreader"
		}
	}
	return "?"
}

func (c *crCtx) isIO(name string) bool { return c.p.imports[name] == "io" && !c.p.names[name] }

func crStorable(k string) bool {
	switch k {
	case "int", "bool", "byte", "err", "bytes", "rows", "ioreader":
		return true
	}
	return false
}

// the roles of the fields of a struct that has exactly one field of every wanted slot ("struct" = a struct of the package
// held by value) and no other field; sub = the name of the type of the struct slot
func (c *crCtx) scanStruct(name string, want ...string) (roles map[string]string, sub string, ok bool) {
	st, isStruct := c.p.types[name].(*ast.StructType)
	if !isStruct || st.Fields == nil {
		return nil, "", false
	}
	roles = map[string]string{}
	seen := map[string]int{}
	for _, f := range st.Fields.List {
		if len(f.Names) == 0 {
			return nil, "", false
		}
		slot := c.typeKind(f.Type)
		if id, isId := f.Type.(*ast.Ident); isId {
			if _, isSt := c.p.types[id.Name].(*ast.StructType); isSt {
				slot, sub = "struct", id.Name
			}
		}
		for _, n := range f.Names {
			roles[n.Name] = slot
			seen[slot]++
		}
	}
	if len(roles) != len(want) {
		return nil, "", false
	}
	for _, w := range want {
		if seen[w] != 1 {
			return nil, "", false
		}
	}
	return roles, sub, true
}

func (c *crCtx) setRole(role, typeName string, slots map[string]string, m map[string]string) bool {
	if _, taken := c.roleOfType[typeName]; taken {
		return false
	}
	c.typeOf[role] = typeName
	c.roleOfType[typeName] = role
	fm := map[string]string{}
	for n, s := range slots {
		fm[n] = m[s]
	}
	c.fields[role] = fm
	return true
}

// the field of a struct role that has the given role
func (c *crCtx) fieldNamed(role, what string) string {
	for n, r := range c.fields[role] {
		if r == what {
			return n
		}
	}
	return ""
}

func (c *crCtx) scan() {
	c.typeOf, c.roleOfType, c.fields = map[string]string{}, map[string]string{}, map[string]map[string]string{}
	rs, fT, ok := c.scanStruct("Reader", "struct", "rows")
	if !ok || !c.setRole("reader", "Reader", rs, map[string]string{"struct": "sub:fields", "rows": "Fld.row"}) {
		return
	}
	fs, bT, ok := c.scanStruct(fT, "struct", "int", "bool", "byte", "bytes", "err")
	if !ok || !c.setRole("fields", fT, fs, map[string]string{"struct": "sub:buffer", "int": "Fld.fieldStart", "bool": "Fld.hitEOL",
		"byte": "Fld.delim", "bytes": "Fld.field", "err": "Fld.err"}) {
		// the reader struct then holds something that is not understood
		c.fields["reader"][c.fieldNamed("reader", "sub:fields")] = ""
		return
	}
	bs, _, ok := c.scanStruct(bT, "ioreader", "bytes", "int")
	if !ok || !c.setRole("buffer", bT, bs, map[string]string{"ioreader": "rd", "bytes": "Fld.data", "int": "Fld.cursor"}) {
		c.fields["fields"][c.fieldNamed("fields", "sub:buffer")] = ""
		return
	}
	// the wrapper: the one struct type T of a literal &T{…} in NewReader
	fd := c.p.fns["NewReader"]
	if fd == nil || fd.Recv != nil {
		return
	}
	cands := map[string]bool{}
	ast.Inspect(fd.Body, func(n ast.Node) bool {
		if u, ok := n.(*ast.UnaryExpr); ok && u.Op == token.AND {
			if cl, ok := unparen(u.X).(*ast.CompositeLit); ok {
				if id, ok := cl.Type.(*ast.Ident); ok {
					if _, isSt := c.p.types[id.Name].(*ast.StructType); isSt && c.roleOfType[id.Name] == "" {
						cands[id.Name] = true
					}
				}
			}
		}
		return true
	})
	if len(cands) != 1 {
		return
	}
	for wT := range cands {
		ws, _, ok := c.scanStruct(wT, "ioreader", "bool")
		if !ok || !c.setRole("wrapper", wT, ws, map[string]string{"ioreader": "rd", "bool": "Fld.isEof"}) {
			return
		}
	}
	c.bufIsWrapper = c.wrapperStored(fd)
}

// &W{<io.Reader field>: e} for the wrapper struct W: e
func (c *crCtx) wrapLit(e ast.Expr) ast.Expr {
	u, ok := unparen(e).(*ast.UnaryExpr)
	if !ok || u.Op != token.AND {
		return nil
	}
	cl, ok := unparen(u.X).(*ast.CompositeLit)
	if !ok {
		return nil
	}
	kv := c.keyed(cl, "wrapper")
	if kv == nil || len(kv) != 1 || kv["rd"] == nil {
		return nil
	}
	return kv["rd"]
}

// the elements of a keyed literal of the struct in the given role, by the role of the field (nil: not such a literal)
func (c *crCtx) keyed(cl *ast.CompositeLit, role string) map[string]ast.Expr {
	id, ok := cl.Type.(*ast.Ident)
	if !ok || c.typeOf[role] == "" || id.Name != c.typeOf[role] {
		return nil
	}
	res := map[string]ast.Expr{}
	for _, el := range cl.Elts {
		kv, ok := el.(*ast.KeyValueExpr)
		if !ok {
			return nil
		}
		k, ok := kv.Key.(*ast.Ident)
		if !ok {
			return nil
		}
		r := c.fields[role][k.Name]
		if _, dup := res[r]; dup || r == "" {
			return nil
		}
		res[r] = kv.Value
	}
	return res
}

// Reader{<fields>: F{<buffer>: B{<reader>: X, <data>: D}, <delim>: C}, <rows>: R} with exactly these fields set
func (c *crCtx) readerLit(e ast.Expr) (x, d, dl, r ast.Expr, ok bool) {
	cl, isLit := unparen(e).(*ast.CompositeLit)
	if !isLit {
		return
	}
	top := c.keyed(cl, "reader")
	if len(top) != 2 || top["sub:fields"] == nil || top["Fld.row"] == nil {
		return
	}
	fl, isLit := unparen(top["sub:fields"]).(*ast.CompositeLit)
	if !isLit {
		return
	}
	mid := c.keyed(fl, "fields")
	if len(mid) != 2 || mid["sub:buffer"] == nil || mid["Fld.delim"] == nil {
		return
	}
	bl, isLit := unparen(mid["sub:buffer"]).(*ast.CompositeLit)
	if !isLit {
		return
	}
	in := c.keyed(bl, "buffer")
	if len(in) != 2 || in["rd"] == nil || in["Fld.data"] == nil {
		return
	}
	return in["rd"], in["Fld.data"], mid["Fld.delim"], top["Fld.row"], true
}

// does NewReader store the wrapper in the buffer's io.Reader field: the value X of that field in the literal of the one
// `return` (a statement of the body itself) is the literal &W{…}, or a variable whose last assignment before is that literal
func (c *crCtx) wrapperStored(fd *ast.FuncDecl) bool {
	returns := 0
	ast.Inspect(fd.Body, func(n ast.Node) bool {
		if _, ok := n.(*ast.ReturnStmt); ok {
			returns++
		}
		return true
	})
	if returns != 1 {
		return false
	}
	wrapped := map[string]bool{}
	for _, st := range fd.Body.List {
		if as, ok := st.(*ast.AssignStmt); ok && len(as.Lhs) == 1 && len(as.Rhs) == 1 && (as.Tok == token.ASSIGN || as.Tok == token.DEFINE) {
			if id, ok := as.Lhs[0].(*ast.Ident); ok && id.Name != "_" && c.wrapLit(as.Rhs[0]) != nil {
				wrapped[id.Name] = true
				continue
			}
		}
		if ret, ok := st.(*ast.ReturnStmt); ok {
			if len(ret.Results) != 1 {
				return false
			}
			x, _, _, _, ok := c.readerLit(ret.Results[0])
			if !ok {
				return false
			}
			if id, ok := unparen(x).(*ast.Ident); ok {
				return wrapped[id.Name]
			}
			return c.wrapLit(x) != nil
		}
		// anything else: the names it may write or whose address it takes lose the mark
		ast.Inspect(st, func(n ast.Node) bool {
			unmark := func(e ast.Expr) {
				if id, ok := unparen(e).(*ast.Ident); ok {
					delete(wrapped, id.Name)
				}
			}
			switch x := n.(type) {
			case *ast.AssignStmt:
				for _, l := range x.Lhs {
					unmark(l)
				}
			case *ast.IncDecStmt:
				unmark(x.X)
			case *ast.UnaryExpr:
				if x.Op == token.AND {
					unmark(x.X)
				}
			case *ast.RangeStmt:
				if x.Key != nil {
					unmark(x.Key)
				}
				if x.Value != nil {
					unmark(x.Value)
				}
			case *ast.ValueSpec:
				for _, nm := range x.Names {
					delete(wrapped, nm.Name)
				}
			}
			return true
		})
	}
	return false
}

func (c *crCtx) fieldKinds(fl *ast.FieldList) []string {
	var ks []string
	if fl == nil {
		return ks
	}
	for _, f := range fl.List {
		n := len(f.Names)
		if n == 0 {
			n = 1
		}
		for i := 0; i < n; i++ {
			ks = append(ks, c.typeKind(f.Type))
		}
	}
	return ks
}

// receiver role | parameter kinds → result kinds ("" for a receiver that is none of the structs)
func (c *crCtx) sigOf(fd *ast.FuncDecl) string {
	recv := ""
	if fd.Recv != nil {
		if len(fd.Recv.List) != 1 {
			return ""
		}
		k := c.typeKind(fd.Recv.List[0].Type)
		if !strings.HasPrefix(k, "val:") && !strings.HasPrefix(k, "ptr:") {
			return ""
		}
		recv = k[4:]
	}
	return recv + "|" + strings.Join(c.fieldKinds(fd.Type.Params), ",") + "→" + strings.Join(c.fieldKinds(fd.Type.Results), ",")
}

// the role of a declared function that is called from the body translated under `caller`: its FnId as Lean text ("" = none)
func (c *crCtx) roleOf(fd *ast.FuncDecl, caller string) string {
	switch c.sigOf(fd) {
	case "buffer|→err":
		return "FnId.more"
	case "buffer|→":
		return "FnId.bufReset"
	case "fields|→":
		return "FnId.fsReset"
	case "fields|→bool":
		switch caller {
		case "FnId.rdNext":
			return "FnId.fsNext"
		case "FnId.fsNext":
			return "FnId.unquoted"
		}
	case "|ptr:buffer,byte→bytes,bool,err":
		return "FnId.quoted"
	case "reader|→bool":
		if fd.Name.Name == "Next" {
			return "FnId.rdNext"
		}
	case "wrapper|bytes→int,err":
		if fd.Name.Name == "Read" {
			return "FnId.wrapRead"
		}
	}
	return ""
}

// use registers a function under its role; "" if the role is taken by another function
func (c *crCtx) use(id string, fd *ast.FuncDecl) string {
	if c.ambiguous[id] {
		return ""
	}
	if t, ok := c.targets[id]; ok {
		if t != fd {
			c.ambiguous[id] = true
			c.dirty = true
			return ""
		}
		return id
	}
	c.targets[id] = fd
	c.queue = append(c.queue, id)
	return id
}

// ---------------------------------------------------------------------------------------------------------------------

type crVar struct {
	id      int // -1: an object (receiver, *buffer parameter)
	kind    string
	isConst bool
	val     int64
	made    bool // defined by make([]byte, …) in this function
}

type crScope struct {
	vars   map[string]*crVar
	parent *crScope
}

func (s *crScope) lookup(n string) *crVar {
	for f := s; f != nil; f = f.parent {
		if v, ok := f.vars[n]; ok {
			return v
		}
	}
	return nil
}

func (s *crScope) push() *crScope { return &crScope{vars: map[string]*crVar{}, parent: s} }

type crFn struct {
	c        *crCtx
	id       string
	fd       *ast.FuncDecl
	next     int
	res      []string
	inLoop   bool
	inSwitch bool
}

func crEvar(v *crVar) *lt { return lh("E.var", lh(strconv.Itoa(v.id))) }
func crLvar(v *crVar) *lt { return lh("L.var", lh(strconv.Itoa(v.id))) }
func crInt(n int64) *lt   { return lh("E.int", lh(crIntText(n))) }
func crBool(b bool) *lt   { return lh("E.bool", lh(strconv.FormatBool(b))) }
func crObjRole(k string) string {
	if strings.HasPrefix(k, "obj:") || strings.HasPrefix(k, "ptr:") {
		return k[4:]
	}
	return ""
}

func crIntText(n int64) string {
	if n < 0 {
		return "(" + strconv.FormatInt(n, 10) + ")"
	}
	return strconv.FormatInt(n, 10)
}

func (f *crFn) declare(sc *crScope, name, kind string) *crVar {
	v := &crVar{id: f.next, kind: kind}
	f.next++
	if name != "_" && name != "" {
		sc.vars[name] = v
	}
	return v
}

// a predeclared name (builtin function, true, false, nil, a basic type) that is not redeclared
func (f *crFn) predeclared(e ast.Expr, sc *crScope, names ...string) string {
	id, ok := unparen(e).(*ast.Ident)
	if !ok || sc.lookup(id.Name) != nil || f.c.p.names[id.Name] {
		return ""
	}
	for _, n := range names {
		if id.Name == n {
			return n
		}
	}
	return ""
}

// the kind of a type written inside a function body (no identifier of it may be a local name)
func (f *crFn) typeKindIn(t ast.Expr, sc *crScope) string {
	shadowed := false
	ast.Inspect(t, func(n ast.Node) bool {
		if id, ok := n.(*ast.Ident); ok && sc.lookup(id.Name) != nil {
			shadowed = true
		}
		return true
	})
	if shadowed {
		return "?"
	}
	return f.c.typeKind(t)
}

// nil, a character constant and the wrapper literal take the kind that is wanted
func crCoerce(x *lt, k, want string) (*lt, string) {
	switch {
	case k == "nil" && want == "err":
		return lh("E.nilErr"), want
	case k == "nil" && want == "bytes":
		return lh("E.nilBytes"), want
	case k == "nil" && want == "rows":
		return lh("E.nilRows"), want
	case k == "rune" && want == "byte":
		return x, want
	case k == "wrapped" && want == "ioreader":
		return x, want
	}
	return x, k
}

var crCmpOp = map[token.Token]string{token.LSS: "COp.lt", token.LEQ: "COp.le", token.GTR: "COp.gt", token.GEQ: "COp.ge",
	token.EQL: "COp.eq", token.NEQ: "COp.ne"}

// expr translates a PURE expression: (term, kind). For the object kinds, nil and everything that is not understood the
// term is `E.opaque`; the caller decides by the kind.
func (f *crFn) expr(e ast.Expr, sc *crScope) (*lt, string) {
	e = unparen(e)
	c := f.c
	bad := func() (*lt, string) { return eop(e), "?" }
	switch t := e.(type) {
	case *ast.Ident:
		if v := sc.lookup(t.Name); v != nil {
			switch {
			case v.isConst:
				return crInt(v.val), "int"
			case v.id < 0:
				return eop(e), v.kind
			case !crStorable(v.kind):
				return bad()
			}
			return crEvar(v), v.kind
		}
		switch f.predeclared(t, sc, "true", "false", "nil") {
		case "true":
			return crBool(true), "bool"
		case "false":
			return crBool(false), "bool"
		case "nil":
			return eop(e), "nil"
		}
	case *ast.BasicLit:
		switch t.Kind {
		case token.INT:
			if n, err := strconv.ParseInt(t.Value, 0, 64); err == nil {
				return crInt(n), "int"
			}
		case token.CHAR:
			if s, err := strconv.Unquote(t.Value); err == nil {
				if r := []rune(s); len(r) == 1 && r[0] >= 0 && r[0] < 256 {
					return lh("E.byte", lh(strconv.Itoa(int(r[0])))), "rune"
				}
			}
		}
	case *ast.UnaryExpr:
		switch t.Op {
		case token.NOT:
			if x, k := f.expr(t.X, sc); k == "bool" {
				return lh("E.not", x), "bool"
			}
		case token.SUB:
			if bl, ok := unparen(t.X).(*ast.BasicLit); ok && bl.Kind == token.INT {
				if n, err := strconv.ParseInt(bl.Value, 0, 64); err == nil {
					return crInt(-n), "int"
				}
			}
		case token.AND:
			if in := c.wrapLit(t); in != nil {
				if x, k := f.expr(in, sc); k == "ioreader" {
					return lh("E.wrap", x), "wrapped"
				}
				return bad()
			}
			if _, k := f.expr(t.X, sc); strings.HasPrefix(k, "obj:") {
				return eop(e), "ptr:" + k[4:]
			}
		}
	case *ast.BinaryExpr:
		x, kx := f.expr(t.X, sc)
		y, ky := f.expr(t.Y, sc)
		switch t.Op {
		case token.LAND, token.LOR:
			if kx == "bool" && ky == "bool" {
				if t.Op == token.LAND {
					return lh("E.and", x, y), "bool"
				}
				return lh("E.or", x, y), "bool"
			}
		case token.EQL, token.NEQ, token.LSS, token.LEQ, token.GTR, token.GEQ:
			x, kx = crCoerce(x, kx, ky)
			y, ky = crCoerce(y, ky, kx)
			ordered := t.Op != token.EQL && t.Op != token.NEQ
			if kx == ky && (kx == "int" || kx == "byte" || (!ordered && (kx == "bool" || kx == "err"))) {
				return lh("E.cmp", lh(crCmpOp[t.Op]), x, y), "bool"
			}
		case token.ADD, token.SUB, token.MUL, token.REM:
			if kx == "int" && ky == "int" {
				h := map[token.Token]string{token.ADD: "E.add", token.SUB: "E.sub", token.MUL: "E.mul", token.REM: "E.rem"}[t.Op]
				return lh(h, x, y), "int"
			}
		}
	case *ast.IndexExpr:
		x, kx := f.expr(t.X, sc)
		i, ki := f.expr(t.Index, sc)
		if ki == "int" {
			switch kx {
			case "bytes":
				return lh("E.at", x, i), "byte"
			case "rows":
				return lh("E.at", x, i), "bytes"
			}
		}
	case *ast.SliceExpr:
		x, kx := f.expr(t.X, sc)
		if t.Slice3 || (kx != "bytes" && kx != "rows") {
			return bad()
		}
		var lo, hi *lt
		if t.Low != nil {
			a, ka := f.expr(t.Low, sc)
			if ka != "int" {
				return bad()
			}
			lo = a
		}
		if t.High != nil {
			b, kb := f.expr(t.High, sc)
			if kb != "int" {
				return bad()
			}
			hi = b
		}
		switch {
		case lo != nil && hi != nil:
			return lh("E.slice", x, lo, hi), kx
		case lo != nil:
			return lh("E.sliceFrom", x, lo), kx
		case hi != nil:
			return lh("E.sliceTo", x, hi), kx
		}
	case *ast.SelectorExpr:
		if id, ok := t.X.(*ast.Ident); ok && sc.lookup(id.Name) == nil && c.isIO(id.Name) {
			if t.Sel.Name == "EOF" {
				return lh("E.eof"), "err"
			}
			return bad()
		}
		_, kx := f.expr(t.X, sc)
		role := crObjRole(kx)
		if role == "" {
			return bad()
		}
		switch r := c.fields[role][t.Sel.Name]; {
		case strings.HasPrefix(r, "sub:"):
			return eop(e), "obj:" + r[4:]
		case r == "rd":
			return eop(e), "rdof:" + role
		case strings.HasPrefix(r, "Fld."):
			return lh("E.fld", lh(r)), crFldKind[r]
		}
	case *ast.CompositeLit:
		xe, de, ce, re, ok := c.readerLit(t)
		if !ok {
			return bad()
		}
		x, kx := f.expr(xe, sc)
		x, kx = crCoerce(x, kx, "ioreader")
		d, kd := f.expr(de, sc)
		dl, kc := f.expr(ce, sc)
		dl, kc = crCoerce(dl, kc, "byte")
		r, kr := f.expr(re, sc)
		if kx == "ioreader" && kd == "bytes" && kc == "byte" && kr == "rows" {
			return lh("E.mkReader", x, d, dl, r), "val:reader"
		}
	case *ast.CallExpr:
		if t.Ellipsis != token.NoPos {
			return bad()
		}
		switch f.predeclared(t.Fun, sc, "len", "cap", "make", "append") {
		case "len", "cap":
			if len(t.Args) == 1 {
				if x, k := f.expr(t.Args[0], sc); k == "bytes" || k == "rows" {
					if isName(t.Fun, "len") {
						return lh("E.len", x), "int"
					}
					return lh("E.cap", x), "int"
				}
			}
		case "make":
			if len(t.Args) == 3 {
				k := f.typeKindIn(t.Args[0], sc)
				n, kn := f.expr(t.Args[1], sc)
				m, km := f.expr(t.Args[2], sc)
				if kn == "int" && km == "int" {
					switch k {
					case "bytes":
						return lh("E.make", n, m), "bytes"
					case "rows":
						return lh("E.makeRows", n, m), "rows"
					}
				}
			}
		case "append":
			if len(t.Args) == 2 {
				l, kl := f.expr(t.Args[0], sc)
				x, kx := f.expr(t.Args[1], sc)
				if kl == "rows" && kx == "bytes" {
					return lh("E.snoc", l, x), "rows"
				}
			}
		}
	}
	return bad()
}

// what can be assigned: (L term, kind), nil if it is not understood
func (f *crFn) lval(e ast.Expr, sc *crScope) (*lt, string) {
	switch t := unparen(e).(type) {
	case *ast.Ident:
		if v := sc.lookup(t.Name); v != nil && !v.isConst && v.id >= 0 && crStorable(v.kind) {
			return crLvar(v), v.kind
		}
	case *ast.SelectorExpr:
		if x, k := f.expr(t, sc); x.head == "E.fld" {
			return lh("L.fld", x.args[0]), k
		}
	}
	return nil, "?"
}

// ---------------------------------------------------------------------------------------------------------------------
// calls

type crCall struct {
	bad  bool
	raw  bool // the Read of the underlying io.Reader
	id   string
	args []*lt
	res  []string
}

// callOf: nil if the expression is not a call (or a call of a pure builtin); bad if the call is not understood
func (f *crFn) callOf(e ast.Expr, sc *crScope) *crCall {
	call, ok := unparen(e).(*ast.CallExpr)
	if !ok || f.predeclared(call.Fun, sc, "len", "cap", "make", "append") != "" {
		return nil
	}
	c := f.c
	badc := &crCall{bad: true}
	if call.Ellipsis != token.NoPos {
		return badc
	}
	switch fun := unparen(call.Fun).(type) {
	case *ast.Ident:
		if sc.lookup(fun.Name) != nil {
			return badc
		}
		if fd := c.p.fns[fun.Name]; fd != nil && fd.Recv == nil {
			return f.userCall(fd, "", call, sc)
		}
	case *ast.SelectorExpr:
		_, kx := f.expr(fun.X, sc)
		if strings.HasPrefix(kx, "rdof:") {
			// the method Read of the io.Reader a struct holds
			if fun.Sel.Name != "Read" || len(call.Args) != 1 {
				return badc
			}
			switch kx[5:] {
			case "wrapper":
				a, ka := f.expr(call.Args[0], sc)
				if ka != "bytes" {
					return badc
				}
				return &crCall{raw: true, args: []*lt{a}, res: []string{"int", "err"}}
			case "buffer":
				if fd := c.p.fns[c.typeOf["wrapper"]+".Read"]; fd != nil && c.bufIsWrapper {
					return f.userCall(fd, "wrapper", call, sc)
				}
			}
			return badc
		}
		role := crObjRole(kx)
		if role == "" {
			return badc
		}
		if fd := c.p.fns[c.typeOf[role]+"."+fun.Sel.Name]; fd != nil {
			return f.userCall(fd, role, call, sc)
		}
	}
	return badc
}

// a call of a declared function: its role, and the arguments against the parameters (pointers to the buffer are dropped)
func (f *crFn) userCall(fd *ast.FuncDecl, recvRole string, call *ast.CallExpr, sc *crScope) *crCall {
	c := f.c
	badc := &crCall{bad: true}
	id := c.roleOf(fd, f.id)
	sig := c.sigOf(fd)
	if id == "" || !strings.HasPrefix(sig, recvRole+"|") {
		return badc
	}
	want := c.fieldKinds(fd.Type.Params)
	if len(want) != len(call.Args) {
		return badc
	}
	var args []*lt
	for i, a := range call.Args {
		x, k := f.expr(a, sc)
		if want[i] == "ptr:buffer" {
			if k != "ptr:buffer" {
				return badc
			}
			continue
		}
		x, k = crCoerce(x, k, want[i])
		if k != want[i] || !crStorable(k) {
			return badc
		}
		args = append(args, x)
	}
	if c.use(id, fd) == "" {
		return badc
	}
	return &crCall{id: id, args: args, res: c.fieldKinds(fd.Type.Results)}
}

func (cl *crCall) stmt(ls []*lt) *lt {
	if cl.raw {
		return lh("S.rawRead", ls[0], ls[1], cl.args[0])
	}
	return lh("S.call", ll(ls), lh(cl.id), ll(cl.args))
}

// a call as a condition: the call into a fresh temporary, and the temporary
func (f *crFn) condCall(cl *crCall) (*lt, *lt) {
	if cl.bad || cl.raw || len(cl.res) != 1 || cl.res[0] != "bool" {
		return nil, nil
	}
	t := f.declare(nil, "", "bool")
	return cl.stmt([]*lt{crLvar(t)}), crEvar(t)
}

// ---------------------------------------------------------------------------------------------------------------------
// statements

func (f *crFn) stmts(list []ast.Stmt, sc *crScope) []*lt {
	var out []*lt
	for _, st := range list {
		out = append(out, f.stmt(st, sc)...)
	}
	return out
}

func (f *crFn) blockOf(b *ast.BlockStmt, sc *crScope) *lt {
	if b == nil {
		return block(nil)
	}
	return block(f.stmts(b.List, sc.push()))
}

func (f *crFn) elseOf(e ast.Stmt, sc *crScope) *lt {
	switch x := e.(type) {
	case nil:
		return block(nil)
	case *ast.BlockStmt:
		return f.blockOf(x, sc)
	case *ast.IfStmt:
		items := f.ifStmt(x, sc)
		if len(items) == 1 {
			return items[0]
		}
		return block(items)
	}
	return block([]*lt{sop(e)})
}

func (f *crFn) ifStmt(s *ast.IfStmt, sc *crScope) []*lt {
	inner := sc.push()
	var out []*lt
	if s.Init != nil {
		out = append(out, f.stmt(s.Init, inner)...)
	}
	var cond *lt
	if cl := f.callOf(s.Cond, inner); cl != nil {
		st, v := f.condCall(cl)
		if st == nil {
			return []*lt{sop(s)}
		}
		out, cond = append(out, st), v
	} else {
		x, k := f.expr(s.Cond, inner)
		if k != "bool" {
			return []*lt{sop(s)}
		}
		cond = x
	}
	then := f.blockOf(s.Body, inner)
	return append(out, lh("S.ite", cond, then, f.elseOf(s.Else, inner)))
}

func (f *crFn) forStmt(s *ast.ForStmt, sc *crScope) []*lt {
	if s.Init != nil || s.Post != nil {
		return []*lt{sop(s)}
	}
	var head []*lt
	if s.Cond != nil {
		var cond *lt
		if cl := f.callOf(s.Cond, sc); cl != nil {
			st, v := f.condCall(cl)
			if st == nil {
				return []*lt{sop(s)}
			}
			head, cond = append(head, st), v
		} else {
			x, k := f.expr(s.Cond, sc)
			if k != "bool" {
				return []*lt{sop(s)}
			}
			cond = x
		}
		head = append(head, lh("S.ite", cond, lh("S.skip"), lh("S.brk")))
	}
	l, w := f.inLoop, f.inSwitch
	f.inLoop, f.inSwitch = true, false
	body := f.stmts(s.Body.List, sc.push())
	f.inLoop, f.inSwitch = l, w
	return []*lt{lh("S.loop", block(append(head, body...)))}
}

func (f *crFn) switchStmt(s *ast.SwitchStmt, sc *crScope) []*lt {
	bad := []*lt{sop(s)}
	if s.Init != nil || s.Tag == nil || f.callOf(s.Tag, sc) != nil || len(s.Body.List) == 0 {
		return bad
	}
	tag, kt := f.expr(s.Tag, sc)
	if kt != "int" && kt != "byte" && kt != "bool" && kt != "err" {
		return bad
	}
	type arm struct{ cond, body *lt }
	var arms []arm
	w := f.inSwitch
	defer func() { f.inSwitch = w }()
	f.inSwitch = true
	for i, cs := range s.Body.List {
		cc, ok := cs.(*ast.CaseClause)
		if !ok {
			return bad
		}
		var cond *lt
		if cc.List == nil {
			if i != len(s.Body.List)-1 {
				return bad
			}
		} else {
			if len(cc.List) != 1 {
				return bad
			}
			v, kv := f.expr(cc.List[0], sc)
			v, kv = crCoerce(v, kv, kt)
			if kv != kt {
				return bad
			}
			cond = lh("E.cmp", lh("COp.eq"), tag, v)
		}
		arms = append(arms, arm{cond, block(f.stmts(cc.Body, sc.push()))})
	}
	res := block(nil)
	for i := len(arms) - 1; i >= 0; i-- {
		if arms[i].cond == nil {
			res = arms[i].body
		} else {
			res = lh("S.ite", arms[i].cond, arms[i].body, res)
		}
	}
	return []*lt{res}
}

// the names a `:=` that is not understood would declare are declared without a kind (they shadow)
func (f *crFn) badDefine(s *ast.AssignStmt, sc *crScope) []*lt {
	if s.Tok == token.DEFINE {
		for _, l := range s.Lhs {
			if id, ok := l.(*ast.Ident); ok && id.Name != "_" {
				if _, here := sc.vars[id.Name]; !here {
					f.declare(sc, id.Name, "?")
				}
			}
		}
	}
	return []*lt{sop(s)}
}

// the left-hand sides of `… = f(x)` / `… := f(x)` for results of the given kinds
func (f *crFn) lhsList(s *ast.AssignStmt, kinds []string, sc *crScope) ([]*lt, bool) {
	if len(s.Lhs) != len(kinds) {
		return nil, false
	}
	if s.Tok == token.ASSIGN {
		blank := 0
		for _, l := range s.Lhs {
			if isBlank(l) {
				blank++
			}
		}
		if blank == len(s.Lhs) {
			return nil, true
		}
	}
	var out []*lt
	for i, l := range s.Lhs {
		if isBlank(l) || !crStorable(kinds[i]) {
			return nil, false
		}
		if id, ok := l.(*ast.Ident); ok && s.Tok == token.DEFINE {
			if _, here := sc.vars[id.Name]; !here {
				out = append(out, crLvar(f.declare(sc, id.Name, kinds[i])))
				continue
			}
		} else if s.Tok == token.DEFINE {
			return nil, false
		}
		x, k := f.lval(l, sc)
		if x == nil || k != kinds[i] {
			return nil, false
		}
		out = append(out, x)
	}
	return out, true
}

func (f *crFn) assign(s *ast.AssignStmt, sc *crScope) []*lt {
	if s.Tok != token.DEFINE && s.Tok != token.ASSIGN {
		return []*lt{sop(s)}
	}
	if len(s.Rhs) == 1 {
		if cl := f.callOf(s.Rhs[0], sc); cl != nil {
			if cl.bad {
				return f.badDefine(s, sc)
			}
			ls, ok := f.lhsList(s, cl.res, sc)
			if !ok || (cl.raw && len(ls) != 2) {
				return f.badDefine(s, sc)
			}
			return []*lt{cl.stmt(ls)}
		}
	}
	if len(s.Lhs) != 1 || len(s.Rhs) != 1 {
		return f.badDefine(s, sc)
	}
	lhs, rhs := s.Lhs[0], s.Rhs[0]
	x, k := f.expr(rhs, sc)
	if s.Tok == token.DEFINE {
		id, ok := lhs.(*ast.Ident)
		if !ok || id.Name == "_" || !crStorable(k) {
			return f.badDefine(s, sc)
		}
		if _, here := sc.vars[id.Name]; here {
			return f.badDefine(s, sc)
		}
		v := f.declare(sc, id.Name, k)
		v.made = x.head == "E.make"
		return []*lt{lh("S.assign", crLvar(v), x)}
	}
	// <the rows field>[i] = e
	if ix, ok := unparen(lhs).(*ast.IndexExpr); ok {
		l, kl := f.expr(ix.X, sc)
		i, ki := f.expr(ix.Index, sc)
		if kl == "rows" && l.head == "E.fld" && ki == "int" && k == "bytes" {
			return []*lt{lh("S.setRowAt", i, x)}
		}
		return []*lt{sop(s)}
	}
	l, kl := f.lval(lhs, sc)
	x, k = crCoerce(x, k, kl)
	if l == nil || k != kl {
		return []*lt{sop(s)}
	}
	return []*lt{lh("S.assign", l, x)}
}

// a slice of the buffer's data field
func crFromData(t *lt) bool {
	switch t.head {
	case "E.fld":
		return len(t.args) == 1 && t.args[0].head == "Fld.data"
	case "E.slice", "E.sliceFrom", "E.sliceTo":
		return crFromData(t.args[0])
	}
	return false
}

func crZero(kind string) *lt {
	switch kind {
	case "int":
		return crInt(0)
	case "bool":
		return crBool(false)
	case "byte":
		return lh("E.byte", lh("0"))
	case "err":
		return lh("E.nilErr")
	case "bytes":
		return lh("E.nilBytes")
	case "rows":
		return lh("E.nilRows")
	}
	return nil
}

func (f *crFn) declStmt(s *ast.DeclStmt, sc *crScope) []*lt {
	bad := []*lt{sop(s)}
	gd, ok := s.Decl.(*ast.GenDecl)
	if !ok {
		return bad
	}
	switch gd.Tok {
	case token.CONST:
		// integer constants: a use is the value
		for _, sp := range gd.Specs {
			vs, ok := sp.(*ast.ValueSpec)
			if !ok || vs.Type != nil || len(vs.Values) != len(vs.Names) {
				return bad
			}
			for i, n := range vs.Names {
				bl, ok := unparen(vs.Values[i]).(*ast.BasicLit)
				if !ok || bl.Kind != token.INT || n.Name == "_" {
					return bad
				}
				v, err := strconv.ParseInt(bl.Value, 0, 64)
				if err != nil {
					return bad
				}
				sc.vars[n.Name] = &crVar{id: -1, kind: "int", isConst: true, val: v}
			}
		}
		return nil
	case token.VAR:
		var out []*lt
		for _, sp := range gd.Specs {
			vs, ok := sp.(*ast.ValueSpec)
			if !ok || (len(vs.Values) > 0 && len(vs.Values) != len(vs.Names)) || (vs.Type == nil && len(vs.Values) == 0) {
				return bad
			}
			var xs []*lt
			var ks []string
			for i := range vs.Names {
				var x *lt
				k := "?"
				if vs.Type != nil {
					k = f.typeKindIn(vs.Type, sc)
					x = crZero(k)
				}
				if len(vs.Values) > 0 {
					y, ky := f.expr(vs.Values[i], sc)
					if vs.Type != nil {
						y, ky = crCoerce(y, ky, k)
						if ky != k {
							return bad
						}
					}
					x, k = y, ky
				}
				if x == nil || !crStorable(k) {
					return bad
				}
				xs, ks = append(xs, x), append(ks, k)
			}
			for i, n := range vs.Names {
				if n.Name == "_" {
					return bad
				}
				v := f.declare(sc, n.Name, ks[i])
				v.made = xs[i].head == "E.make"
				out = append(out, lh("S.assign", crLvar(v), xs[i]))
			}
		}
		return out
	}
	return bad
}

func (f *crFn) stmt(st ast.Stmt, sc *crScope) []*lt {
	bad := []*lt{sop(st)}
	switch s := st.(type) {
	case *ast.EmptyStmt:
		return nil
	case *ast.ExprStmt:
		call, ok := unparen(s.X).(*ast.CallExpr)
		if !ok {
			return bad
		}
		if f.predeclared(call.Fun, sc, "copy") != "" {
			if len(call.Args) != 2 || call.Ellipsis != token.NoPos {
				return bad
			}
			dst, kd := f.expr(call.Args[0], sc)
			from, ks := f.expr(call.Args[1], sc)
			if kd != "bytes" || ks != "bytes" {
				return bad
			}
			if id, ok := unparen(call.Args[0]).(*ast.Ident); ok {
				if v := sc.lookup(id.Name); v != nil && v.made {
					return []*lt{lh("S.copyVar", lh(strconv.Itoa(v.id)), from)}
				}
				return bad
			}
			if crFromData(dst) && crFromData(from) {
				return []*lt{lh("S.copy", dst, from)}
			}
			return bad
		}
		if cl := f.callOf(call, sc); cl != nil && !cl.bad && !cl.raw {
			return []*lt{cl.stmt(nil)}
		}
	case *ast.AssignStmt:
		return f.assign(s, sc)
	case *ast.IncDecStmt:
		if s.Tok == token.INC {
			if l, k := f.lval(s.X, sc); l != nil && k == "int" {
				return []*lt{lh("S.incr", l)}
			}
		}
	case *ast.DeclStmt:
		return f.declStmt(s, sc)
	case *ast.IfStmt:
		return f.ifStmt(s, sc)
	case *ast.ForStmt:
		return f.forStmt(s, sc)
	case *ast.SwitchStmt:
		return f.switchStmt(s, sc)
	case *ast.BranchStmt:
		if s.Label != nil {
			return bad
		}
		switch s.Tok {
		case token.BREAK:
			if f.inLoop && !f.inSwitch {
				return []*lt{lh("S.brk")}
			}
		case token.CONTINUE:
			if f.inLoop {
				return []*lt{lh("S.cont")}
			}
		}
	case *ast.ReturnStmt:
		if len(s.Results) == 1 {
			if cl := f.callOf(s.Results[0], sc); cl != nil {
				if cl.bad || cl.raw || strings.Join(cl.res, ",") != strings.Join(f.res, ",") {
					return bad
				}
				return []*lt{lh("S.retCall", lh(cl.id), ll(cl.args))}
			}
		}
		if len(s.Results) != len(f.res) {
			return bad
		}
		var xs []*lt
		for i, r := range s.Results {
			x, k := f.expr(r, sc)
			x, k = crCoerce(x, k, f.res[i])
			if k != f.res[i] || k == "?" {
				return bad
			}
			xs = append(xs, x)
		}
		return []*lt{lh("S.ret", ll(xs))}
	}
	return bad
}

// translate one function: { params := <number of value parameters>, body := … }
func (c *crCtx) translate(id string, fd *ast.FuncDecl) string {
	f := &crFn{c: c, id: id, fd: fd}
	sc := &crScope{vars: map[string]*crVar{}}
	refused := ""
	if fd.Recv != nil && len(fd.Recv.List) == 1 {
		k := c.typeKind(fd.Recv.List[0].Type)
		if !strings.HasPrefix(k, "ptr:") {
			refused = "the receiver is not a pointer to one of the structs"
		}
		for _, n := range fd.Recv.List[0].Names {
			if n.Name != "_" {
				sc.vars[n.Name] = &crVar{id: -1, kind: k}
			}
		}
	}
	if fd.Type.Params != nil {
		for _, fld := range fd.Type.Params.List {
			k := c.typeKind(fld.Type)
			names := fld.Names
			if len(names) == 0 {
				names = []*ast.Ident{{Name: "_"}}
			}
			for _, n := range names {
				switch {
				case k == "ptr:buffer":
					if n.Name != "_" {
						sc.vars[n.Name] = &crVar{id: -1, kind: k}
					}
				case strings.HasPrefix(k, "ptr:") || strings.HasPrefix(k, "val:"):
					refused = "a struct parameter that is not a pointer to the buffer struct"
				default:
					f.declare(sc, n.Name, k)
				}
			}
		}
	}
	params := f.next
	f.res = c.fieldKinds(fd.Type.Results)
	if fd.Type.Results != nil {
		for _, fld := range fd.Type.Results.List {
			if len(fld.Names) > 0 {
				refused = "named results"
			}
		}
	}
	if want, isRoot := crRootSig[id]; isRoot && c.sigOf(fd) != want && refused == "" {
		refused = "not the signature of this root"
	}
	var body []*lt
	if refused != "" {
		body = []*lt{sopText(refused + ": " + src(&ast.FuncDecl{Recv: fd.Recv, Name: fd.Name, Type: fd.Type}))}
	} else {
		body = f.stmts(fd.Body.List, sc)
	}
	return fmt.Sprintf("{ params := %d, body := %s }", params, block(body).lean())
}

func csvFnsLean(repo string) string {
	files := parseDir(filepath.Join(repo, "internal", "fastcsv"))
	p := &crPkg{fns: funcDecls(files), types: typeDecls(files), imports: importsOf(files), names: map[string]bool{}}
	for _, file := range files {
		for _, d := range file.Decls {
			switch x := d.(type) {
			case *ast.FuncDecl:
				if x.Recv == nil {
					p.names[x.Name.Name] = true
				}
			case *ast.GenDecl:
				for _, sp := range x.Specs {
					switch y := sp.(type) {
					case *ast.TypeSpec:
						p.names[y.Name.Name] = true
					case *ast.ValueSpec:
						for _, n := range y.Names {
							p.names[n.Name] = true
						}
					}
				}
			}
		}
	}
	// a role that two declarations claim is ambiguous: translate again without it until nothing changes
	ambiguous := map[string]bool{}
	var c *crCtx
	for round := 0; round <= len(crFnOrder); round++ {
		c = &crCtx{p: p, targets: map[string]*ast.FuncDecl{}, ambiguous: ambiguous, bodies: map[string]string{}}
		c.scan()
		roots := []struct{ id, name string }{{"FnId.rdNext", "Reader.Next"}, {"FnId.rdErr", "Reader.Err"}, {"FnId.rdRead", "Reader.Read"}, {"FnId.newReader", "NewReader"}}
		for _, r := range roots {
			if fd, ok := p.fns[r.name]; ok && (fd.Recv != nil) == (r.id != "FnId.newReader") {
				c.use(r.id, fd)
			}
		}
		for len(c.queue) > 0 {
			id := c.queue[0]
			c.queue = c.queue[1:]
			c.bodies[id] = c.translate(id, c.targets[id])
		}
		if !c.dirty {
			break
		}
	}
	for id := range ambiguous {
		c.bodies[id] = "{ params := 0, body := " + block([]*lt{sopText("two declarations in this role")}).lean() + " }"
	}
	var b strings.Builder
	b.WriteString("/- GENERATED on every run by /verif/go/cmd/extract from /repo's source (tie T1). Do not edit. -/\nimport QF.Core.CRExpr\nnamespace QF.Gen\nopen QF.CR\n\n")
	b.WriteString("/-- the CSV reader of internal/fastcsv (the methods `() error` and `()` of the buffer struct, the methods `()` and `() bool` of the\nfields struct, the function `(*buffer, byte) ([]byte, bool, error)`, `Reader.Next`, `Reader.Err`, `Reader.Read`, the `Read` of the\nwrapper struct, `NewReader`) translated statement by statement to the language `QF.CR`, by role: (function, term) -/\n")
	b.WriteString("def csvFns : List (FnId × Fn) := [\n")
	var items []string
	for _, id := range crFnOrder {
		if body, ok := c.bodies[id]; ok {
			items = append(items, "  ("+id+", "+body+")")
		}
	}
	b.WriteString(strings.Join(items, ",\n") + "]\n\nend QF.Gen\n")
	return b.String()
}
