package main

// Translation go/ast → IS / IC (lean/QF/Core/IExpr.lean) of the column typing of ReadCSV in /repo/internal/io/csv.go:
//
//	func columnToData(bytes []byte, pointers []bytePointer, colName string, conf CSVConfig) (interface{}, error)   → IS
//
// The body is walked statement by statement; the result is ONE term in continuation style (every statement carries the
// rest of its block). Everything is found by ROLE:
//
//   - the function: the only function of the package without receiver with parameters ([]byte, []P, string, C) and results
//     (interface{}, error), P a struct of two uint32 fields, C a struct with a map[string][]string field;
//   - the parameters by their position / type; the fields of C by their type (map[string][]string: the enum declarations, the
//     other map with string keys: the declared types); `EmptyNull` is the bool field the exported function EmptyNull of
//     config/csv assigns; start / end of P: `end` is the field that receives `uint32(len(…))` in the composite literal of P
//     the package builds (ReadCSV), `start` the other one;
//   - local variables by what they are bound to (see the kinds of `iv`);
//   - `types.X` by the string value of the constant; the parsers of internal/strings by the strconv function they return;
//     the factory of internal/ecolumn by signature (as east.go does): ([]string, int) → (*F, error) makes it, the method
//     () → () appends a null, ([]byte) → error appends a cell, () → Column is the result;
//   - the error results of parser / factory calls: only the one of the LATEST call can be referred to (`gen`).
//
// Whatever is not understood becomes `.opaque "<text>"`.

import (
	"go/ast"
	"go/token"
	"path/filepath"
	"strings"
)

type iv struct {
	// blob · pointers · name · conf (parameters) · errvar · dtype · acc (s: int | float | bool) · ptrarr · p · idx ·
	// parsed (s: kind) · callerr · values · factory
	kind string
	s    string
	gen  int
}

type iscope struct {
	vars   map[string]*iv
	parent *iscope
}

func (s *iscope) get(n string) (*iv, bool) {
	for f := s; f != nil; f = f.parent {
		if v, ok := f.vars[n]; ok {
			return v, true
		}
	}
	return nil, false
}
func (s *iscope) push() *iscope { return &iscope{vars: map[string]*iv{}, parent: s} }
func (s *iscope) def(n string, v *iv) {
	if n != "_" {
		s.vars[n] = v
	}
}

type ictx struct {
	repo       string
	files      map[string]*ast.File
	fns        map[string]*ast.FuncDecl
	imports    map[string]string
	typeConsts map[string]string
	strFiles   map[string]*ast.File
	strFns     map[string]*ast.FuncDecl
	strImports map[string]string
	ecolFns    map[string]*ast.FuncDecl

	fd                          *ast.FuncDecl
	ptrType, fStart, fEnd       string
	cfgType                     string
	cfgTypes, cfgEnums, cfgNull string
	facType                     string // the factory type of internal/ecolumn (without *), once NewFactory was seen
	gen                         int
}

func isop(n ast.Node) *lt { return ls("IS.opaque", src(n)) }
func icop(n ast.Node) *lt { return ls("IC.opaque", src(n)) }

// fields of a struct type of a package: names and types, one entry per name
func structFields(files map[string]*ast.File, name string) (names, types []string, ok bool) {
	for _, f := range files {
		for _, d := range f.Decls {
			gd, isG := d.(*ast.GenDecl)
			if !isG || gd.Tok != token.TYPE {
				continue
			}
			for _, sp := range gd.Specs {
				ts, isT := sp.(*ast.TypeSpec)
				if !isT || ts.Name.Name != name {
					continue
				}
				st, isS := ts.Type.(*ast.StructType)
				if !isS {
					return nil, nil, false
				}
				for _, fl := range st.Fields.List {
					for _, n := range fl.Names {
						names = append(names, n.Name)
						types = append(types, src(fl.Type))
					}
					if len(fl.Names) == 0 {
						names = append(names, "")
						types = append(types, src(fl.Type))
					}
				}
				return names, types, true
			}
		}
	}
	return nil, nil, false
}

// find the function and the roles of the fields
func (c *ictx) scan() string {
	var found []*ast.FuncDecl
	for _, fd := range c.fns {
		if fd.Recv != nil {
			continue
		}
		p, r := flatTypes(fd.Type.Params), flatTypes(fd.Type.Results)
		if len(p) != 4 || len(r) != 2 || p[0] != "[]byte" || !strings.HasPrefix(p[1], "[]") || p[2] != "string" || (r[0] != "interface{}" && r[0] != "any") || r[1] != "error" {
			continue
		}
		_, pt, ok := structFields(c.files, strings.TrimPrefix(p[1], "[]"))
		if !ok || len(pt) != 2 || pt[0] != "uint32" || pt[1] != "uint32" {
			continue
		}
		if _, _, ok := structFields(c.files, p[3]); !ok {
			continue
		}
		found = append(found, fd)
	}
	if len(found) != 1 {
		return "no unique function ([]byte, []<two uint32>, string, <config>) (interface{}, error)"
	}
	c.fd = found[0]
	p := flatTypes(c.fd.Type.Params)
	c.ptrType, c.cfgType = strings.TrimPrefix(p[1], "[]"), p[3]
	// the configuration
	names, types, _ := structFields(c.files, c.cfgType)
	for i, t := range types {
		switch {
		case t == "map[string][]string" && c.cfgEnums == "":
			c.cfgEnums = names[i]
		case strings.HasPrefix(t, "map[string]") && !strings.HasPrefix(t, "map[string][]") && c.cfgTypes == "":
			c.cfgTypes = names[i]
		}
	}
	// EmptyNull: the bool field the function EmptyNull of config/csv assigns its parameter to
	if fd, ok := funcDecls(parseDir(filepath.Join(c.repo, "config", "csv")))["EmptyNull"]; ok && fd.Recv == nil {
		pn, pty := paramNames(fd), flatTypes(fd.Type.Params)
		if len(pn) == 1 && pty[0] == "bool" {
			n := 0
			ast.Inspect(fd.Body, func(nd ast.Node) bool {
				as, ok := nd.(*ast.AssignStmt)
				if !ok || as.Tok != token.ASSIGN || len(as.Lhs) != 1 || len(as.Rhs) != 1 {
					return true
				}
				n++
				if sel, ok := as.Lhs[0].(*ast.SelectorExpr); ok && isIdent(as.Rhs[0], pn[0]) {
					c.cfgNull = sel.Sel.Name
				}
				return true
			})
			if n != 1 {
				c.cfgNull = ""
			}
		}
	}
	ok := false
	for i, n := range names {
		if n == c.cfgNull && types[i] == "bool" {
			ok = true
		}
	}
	if !ok {
		c.cfgNull = ""
	}
	// start / end: the composite literals of the pointer type in the package
	pnames, _, _ := structFields(c.files, c.ptrType)
	ends := map[string]bool{}
	for _, f := range c.files {
		ast.Inspect(f, func(nd ast.Node) bool {
			cl, ok := nd.(*ast.CompositeLit)
			if !ok || cl.Type == nil || src(cl.Type) != c.ptrType || len(cl.Elts) != 2 {
				return true
			}
			for i, el := range cl.Elts {
				field, val := pnames[i], el
				if kv, ok := el.(*ast.KeyValueExpr); ok {
					field, val = src(kv.Key), kv.Value
				}
				if call, ok := unparen(val).(*ast.CallExpr); ok && isIdent(call.Fun, "uint32") && len(call.Args) == 1 {
					if inner, ok := unparen(call.Args[0]).(*ast.CallExpr); ok && isIdent(inner.Fun, "len") {
						ends[field] = true
					}
				}
			}
			return true
		})
	}
	switch {
	case len(ends) == 1 && ends[pnames[1]]:
		c.fStart, c.fEnd = pnames[0], pnames[1]
	case len(ends) == 1 && ends[pnames[0]]:
		c.fStart, c.fEnd = pnames[1], pnames[0]
	default:
		return "the start / end fields of " + c.ptrType + " cannot be told apart"
	}
	return ""
}

// ---------------------------------------------------------------------------------------------------------------

type iexec struct{ *ictx }

func (x *iexec) role(e ast.Expr, sc *iscope) *iv {
	if id, ok := unparen(e).(*ast.Ident); ok {
		if v, ok := sc.get(id.Name); ok {
			return v
		}
	}
	return &iv{kind: ""}
}

func (x *iexec) is(e ast.Expr, sc *iscope, kind string) bool { return x.role(e, sc).kind == kind }

// a variable bound by the latest call
func (x *iexec) current(e ast.Expr, sc *iscope, kind string) (*iv, bool) {
	v := x.role(e, sc)
	return v, v.kind == kind && v.gen == x.gen
}

// an unbound identifier that is the import name of a package whose path ends in suffix
func (x *iexec) pkg(e ast.Expr, sc *iscope, imports map[string]string, suffix string) bool {
	id, ok := unparen(e).(*ast.Ident)
	if !ok {
		return false
	}
	if sc != nil {
		if _, bound := sc.get(id.Name); bound {
			return false
		}
	}
	p, ok := imports[id.Name]
	return ok && (p == suffix || strings.HasSuffix(p, "/"+suffix))
}

// an unbound identifier that is the import name of the standard package path
func (x *iexec) stdpkg(e ast.Expr, sc *iscope, imports map[string]string, path string) bool {
	id, ok := unparen(e).(*ast.Ident)
	if !ok {
		return false
	}
	if sc != nil {
		if _, bound := sc.get(id.Name); bound {
			return false
		}
	}
	return imports[id.Name] == path
}

func builtin(e ast.Expr, sc *iscope, name string) bool {
	id, ok := unparen(e).(*ast.Ident)
	if !ok || id.Name != name {
		return false
	}
	_, bound := sc.get(name)
	return !bound
}

// conf.<field>
func (x *iexec) confField(e ast.Expr, sc *iscope, field string) bool {
	sel, ok := unparen(e).(*ast.SelectorExpr)
	return ok && field != "" && sel.Sel.Name == field && x.is(sel.X, sc, "conf")
}

// p.<field>
func (x *iexec) ptrField(e ast.Expr, sc *iscope, field string) bool {
	sel, ok := unparen(e).(*ast.SelectorExpr)
	return ok && field != "" && sel.Sel.Name == field && x.is(sel.X, sc, "p")
}

// len(<pointers>)
func (x *iexec) lenPointers(e ast.Expr, sc *iscope) bool {
	call, ok := unparen(e).(*ast.CallExpr)
	return ok && builtin(call.Fun, sc, "len") && len(call.Args) == 1 && x.is(call.Args[0], sc, "pointers")
}

// <blob>[p.start:p.end]
func (x *iexec) cell(e ast.Expr, sc *iscope) bool {
	sl, ok := unparen(e).(*ast.SliceExpr)
	return ok && !sl.Slice3 && sl.Max == nil && sl.Low != nil && sl.High != nil && x.is(sl.X, sc, "blob") &&
		x.ptrField(sl.Low, sc, x.fStart) && x.ptrField(sl.High, sc, x.fEnd)
}

// conf.<map>[colName]
func (x *iexec) confLookup(e ast.Expr, sc *iscope, field string) bool {
	ix, ok := unparen(e).(*ast.IndexExpr)
	return ok && x.confField(ix.X, sc, field) && x.is(ix.Index, sc, "name")
}

func iIntLit(e ast.Expr, v string) bool {
	b, ok := unparen(e).(*ast.BasicLit)
	return ok && b.Kind == token.INT && b.Value == v
}

// int(<e>): the inner expression
func (x *iexec) intConv(e ast.Expr, sc *iscope) ast.Expr {
	call, ok := unparen(e).(*ast.CallExpr)
	if !ok || !builtin(call.Fun, sc, "int") || len(call.Args) != 1 {
		return nil
	}
	return unparen(call.Args[0])
}

// the string a constant of package types (or a string literal) stands for
func (x *iexec) typeConst(e ast.Expr, sc *iscope) (string, bool) {
	switch t := unparen(e).(type) {
	case *ast.SelectorExpr:
		if x.pkg(t.X, sc, x.imports, "types") {
			v, ok := x.typeConsts[t.Sel.Name]
			return v, ok
		}
	case *ast.BasicLit:
		if t.Kind == token.STRING && t.Value == `""` {
			return "", true
		}
	}
	return "", false
}

func inot(c *lt, neg bool) *lt {
	if neg {
		return lh("IC.not", c)
	}
	return c
}

func (x *iexec) cond(e ast.Expr, sc *iscope) *lt {
	e = unparen(e)
	switch t := e.(type) {
	case *ast.UnaryExpr:
		if t.Op == token.NOT {
			return lh("IC.not", x.cond(t.X, sc))
		}
	case *ast.SelectorExpr:
		if x.confField(t, sc, x.cfgNull) {
			return lh("IC.emptyNull")
		}
	case *ast.BinaryExpr:
		switch t.Op {
		case token.LAND:
			return lh("IC.and", x.cond(t.X, sc), x.cond(t.Y, sc))
		case token.LOR:
			return lh("IC.or", x.cond(t.X, sc), x.cond(t.Y, sc))
		case token.EQL, token.NEQ:
			neg := t.Op == token.NEQ
			for _, p := range [][2]ast.Expr{{t.X, t.Y}, {t.Y, t.X}} {
				a, b := p[0], p[1]
				if x.is(a, sc, "dtype") {
					if s, ok := x.typeConst(b, sc); ok {
						return inot(ls("IC.typeIs", s), neg)
					}
				}
				if x.lenPointers(a, sc) && iIntLit(b, "0") {
					return inot(lh("IC.noRows"), neg)
				}
				if x.is(a, sc, "errvar") && isNilIdent(b) && !builtinBound(sc, "nil") {
					return inot(lh("IC.errNil"), neg)
				}
				if _, ok := x.current(a, sc, "callerr"); ok && isNilIdent(b) && !builtinBound(sc, "nil") {
					return inot(lh("IC.callFailed"), !neg)
				}
				if x.ptrField(a, sc, x.fStart) && x.ptrField(b, sc, x.fEnd) {
					return inot(lh("IC.cellEmpty"), neg)
				}
			}
		}
	}
	return icop(e)
}

func builtinBound(sc *iscope, name string) bool { _, ok := sc.get(name); return ok }

// the strconv function a parser of internal/strings is
func (x *iexec) parser(fun ast.Expr, sc *iscope) (*lt, string) {
	sel, ok := unparen(fun).(*ast.SelectorExpr)
	if !ok || !x.pkg(sel.X, sc, x.imports, "internal/strings") {
		return nil, ""
	}
	fd, ok := x.strFns[sel.Sel.Name]
	if !ok || fd.Recv != nil {
		return nil, ""
	}
	pn, pt, rt := paramNames(fd), flatTypes(fd.Type.Params), flatTypes(fd.Type.Results)
	if len(pt) != 1 || pt[0] != "[]byte" || len(rt) != 2 || rt[1] != "error" || pn[0] == "_" {
		return nil, ""
	}
	opq := func() (*lt, string) { return ls("IParser.opaque", sel.Sel.Name+" "+src(fd.Body)), "?" }
	// the string view of the parameter
	view := map[string]bool{}
	isView := func(e ast.Expr) bool {
		e = unparen(e)
		if id, ok := e.(*ast.Ident); ok {
			return view[id.Name]
		}
		call, ok := e.(*ast.CallExpr)
		if !ok || len(call.Args) != 1 || !isIdent(call.Args[0], pn[0]) {
			return false
		}
		if isIdent(call.Fun, "string") {
			return true
		}
		// a helper ([]byte) string whose body is `return unsafe.String(unsafe.SliceData(in), len(in))` or `return string(in)`
		id, ok := call.Fun.(*ast.Ident)
		if !ok {
			return false
		}
		h, ok := x.strFns[id.Name]
		if !ok || h.Recv != nil || len(h.Body.List) != 1 {
			return false
		}
		hn, ht, hr := paramNames(h), flatTypes(h.Type.Params), flatTypes(h.Type.Results)
		if len(ht) != 1 || ht[0] != "[]byte" || len(hr) != 1 || hr[0] != "string" {
			return false
		}
		ret, ok := h.Body.List[0].(*ast.ReturnStmt)
		if !ok || len(ret.Results) != 1 {
			return false
		}
		body := src(ret.Results[0])
		un := ""
		for n, p := range x.strImports {
			if p == "unsafe" {
				un = n
			}
		}
		return un != "" && hn[0] != un && body == un+".String("+un+".SliceData("+hn[0]+"), len("+hn[0]+"))" || body == "string("+hn[0]+")"
	}
	stmts := fd.Body.List
	for len(stmts) > 1 {
		as, ok := stmts[0].(*ast.AssignStmt)
		if !ok || as.Tok != token.DEFINE || len(as.Lhs) != 1 || len(as.Rhs) != 1 || !isView(as.Rhs[0]) {
			return opq()
		}
		id := as.Lhs[0].(*ast.Ident)
		if id.Name == pn[0] {
			return opq()
		}
		view[id.Name] = true
		stmts = stmts[1:]
	}
	if len(stmts) != 1 {
		return opq()
	}
	ret, ok := stmts[0].(*ast.ReturnStmt)
	if !ok || len(ret.Results) != 1 {
		return opq()
	}
	call, ok := unparen(ret.Results[0]).(*ast.CallExpr)
	if !ok || len(call.Args) == 0 || !isView(call.Args[0]) {
		return opq()
	}
	cs, ok := call.Fun.(*ast.SelectorExpr)
	if !ok {
		return opq()
	}
	cid, isId := cs.X.(*ast.Ident)
	if !isId || x.strImports[cid.Name] != "strconv" || view[cid.Name] || pn[0] == cid.Name {
		return opq()
	}
	switch {
	case cs.Sel.Name == "Atoi" && len(call.Args) == 1 && rt[0] == "int":
		return lh("IParser.atoi"), "int"
	case cs.Sel.Name == "ParseFloat" && len(call.Args) == 2 && iIntLit(call.Args[1], "64") && rt[0] == "float64":
		return lh("IParser.float64"), "float"
	case cs.Sel.Name == "ParseBool" && len(call.Args) == 1 && rt[0] == "bool":
		return lh("IParser.bool"), "bool"
	}
	return opq()
}

// a method of the factory, by signature
func (x *iexec) factoryMethod(fun ast.Expr, sc *iscope) string {
	sel, ok := unparen(fun).(*ast.SelectorExpr)
	if !ok || !x.is(sel.X, sc, "factory") || x.facType == "" {
		return ""
	}
	fd, ok := x.ecolFns[x.facType+"."+sel.Sel.Name]
	if !ok {
		return ""
	}
	return strings.Join(flatTypes(fd.Type.Params), ", ") + " → " + strings.Join(flatTypes(fd.Type.Results), ", ")
}

var elemKind = map[string]string{"int": "int", "float64": "float", "bool": "bool"}

func ikind(s string) *lt { return lh("IKind." + s) }

// a non-nil error made on the spot
func (x *iexec) errCall(e ast.Expr, sc *iscope) bool {
	call, ok := unparen(e).(*ast.CallExpr)
	if !ok {
		return false
	}
	sel, ok := call.Fun.(*ast.SelectorExpr)
	if !ok {
		return false
	}
	switch {
	case x.pkg(sel.X, sc, x.imports, "qerrors"):
		return sel.Sel.Name == "New" || sel.Sel.Name == "Propagate"
	case x.stdpkg(sel.X, sc, x.imports, "errors"):
		return sel.Sel.Name == "New"
	case x.stdpkg(sel.X, sc, x.imports, "fmt"):
		return sel.Sel.Name == "Errorf"
	}
	return false
}

func (x *iexec) block(stmts []ast.Stmt, sc *iscope, inLoop bool) *lt {
	if len(stmts) == 0 {
		return lh("IS.done")
	}
	st, rest := stmts[0], stmts[1:]
	k := func() *lt { return x.block(rest, sc, inLoop) }
	switch s := st.(type) {
	case *ast.BlockStmt:
		return isop(s)
	case *ast.DeclStmt:
		gd, ok := s.Decl.(*ast.GenDecl)
		if !ok || gd.Tok != token.VAR || len(gd.Specs) != 1 {
			return isop(s)
		}
		vs, ok := gd.Specs[0].(*ast.ValueSpec)
		if !ok || len(vs.Names) != 1 || len(vs.Values) != 0 || !isIdent(vs.Type, "error") || builtinBound(sc, "error") {
			return isop(s)
		}
		sc.def(vs.Names[0].Name, &iv{kind: "errvar"})
		return lh("IS.declErr", k())
	case *ast.AssignStmt:
		if t := x.assign(s, sc, k); t != nil {
			return t
		}
	case *ast.IfStmt:
		if s.Init != nil {
			return isop(s)
		}
		c := x.cond(s.Cond, sc)
		then := x.block(s.Body.List, sc.push(), inLoop)
		if s.Else == nil {
			return lh("IS.ifThen", c, then, k())
		}
		return lh("IS.ifElse", c, then, x.block(blockOf(s.Else), sc.push(), inLoop), k())
	case *ast.RangeStmt:
		if !x.is(s.X, sc, "pointers") || (s.Tok != token.DEFINE && (s.Key != nil || s.Value != nil)) {
			return isop(s)
		}
		inner := sc.push()
		for i, e := range []ast.Expr{s.Key, s.Value} {
			if e == nil {
				continue
			}
			id, ok := e.(*ast.Ident)
			if !ok {
				return isop(s)
			}
			inner.def(id.Name, &iv{kind: []string{"idx", "p"}[i]})
		}
		return lh("IS.loop", x.block(s.Body.List, inner.push(), true), k())
	case *ast.BranchStmt:
		if s.Label != nil || !inLoop || len(rest) != 0 {
			return isop(s)
		}
		switch s.Tok {
		case token.BREAK:
			return lh("IS.brk")
		case token.CONTINUE:
			return lh("IS.cont")
		}
	case *ast.ExprStmt:
		call, ok := s.X.(*ast.CallExpr)
		if !ok {
			return isop(s)
		}
		// delete(conf.<enums>, colName)
		if builtin(call.Fun, sc, "delete") && len(call.Args) == 2 && x.confField(call.Args[0], sc, x.cfgEnums) && x.is(call.Args[1], sc, "name") {
			return lh("IS.deleteValues", k())
		}
		// factory.AppendNil()
		if x.factoryMethod(call.Fun, sc) == " → " && len(call.Args) == 0 {
			return lh("IS.facAppendNil", k())
		}
	case *ast.ReturnStmt:
		if len(rest) != 0 || len(s.Results) != 2 {
			return isop(s)
		}
		if t := x.ret(s, sc); t != nil {
			return t
		}
	}
	return isop(st)
}

func (x *iexec) ret(s *ast.ReturnStmt, sc *iscope) *lt {
	a, b := unparen(s.Results[0]), unparen(s.Results[1])
	nilOk := !builtinBound(sc, "nil")
	if isNilIdent(a) && nilOk {
		if x.errCall(b, sc) {
			return lh("IS.retErr")
		}
		if _, ok := x.current(b, sc, "callerr"); ok {
			return lh("IS.retCallErr")
		}
		return nil
	}
	if !isNilIdent(b) || !nilOk {
		return nil
	}
	if v := x.role(a, sc); v.kind == "acc" {
		return lh("IS.retAcc", ikind(v.s))
	}
	switch t := a.(type) {
	case *ast.CompositeLit:
		sel, ok := t.Type.(*ast.SelectorExpr)
		if !ok {
			return nil
		}
		// ncolumn.Column{}
		if x.pkg(sel.X, sc, x.imports, "internal/ncolumn") && len(t.Elts) == 0 {
			if names, _, ok := structFields(parseDir(filepath.Join(x.repo, "internal", "ncolumn")), sel.Sel.Name); ok && len(names) == 0 {
				return lh("IS.retEmpty")
			}
		}
		// strings.StringBlob{Pointers: ptrs, Data: bytes}
		if x.pkg(sel.X, sc, x.imports, "internal/strings") && len(t.Elts) == 2 {
			names, types, ok := structFields(x.strFiles, sel.Sel.Name)
			if !ok || len(names) != 2 {
				return nil
			}
			got := map[string]string{}
			for i, el := range t.Elts {
				field, val := names[i], el
				if kv, ok := el.(*ast.KeyValueExpr); ok {
					field, val = src(kv.Key), kv.Value
				}
				for j, n := range names {
					if n == field {
						got[types[j]] = x.role(val, sc).kind + ":" + x.role(val, sc).s
					}
				}
			}
			if len(got) == 2 && got["[]byte"] == "blob:" && got["[]"+x.ptrCtorType()] == "ptrarr:"+x.ptrCtorType() {
				return lh("IS.retBlob")
			}
		}
	case *ast.CallExpr:
		if x.factoryMethod(t.Fun, sc) == " → Column" && len(t.Args) == 0 {
			return lh("IS.retColumn")
		}
	}
	return nil
}

// the pointer constructor of internal/strings: (int, int, bool) T — name and T
func (x *iexec) ptrCtor() (string, string) {
	name, ty := "", ""
	for n, fd := range x.strFns {
		if fd.Recv != nil {
			continue
		}
		r := flatTypes(fd.Type.Results)
		if strings.Join(flatTypes(fd.Type.Params), ",") == "int,int,bool" && len(r) == 1 {
			if name != "" {
				return "", ""
			}
			name, ty = n, r[0]
		}
	}
	return name, ty
}
func (x *iexec) ptrCtorType() string { _, t := x.ptrCtor(); return t }

func (x *iexec) assign(s *ast.AssignStmt, sc *iscope, k func() *lt) *lt {
	if len(s.Rhs) != 1 {
		return nil
	}
	rhs := unparen(s.Rhs[0])
	names := make([]string, len(s.Lhs))
	for i, l := range s.Lhs {
		if id, ok := l.(*ast.Ident); ok {
			names[i] = id.Name
		}
	}
	call, isCall := rhs.(*ast.CallExpr)
	switch {
	case s.Tok == token.DEFINE && len(names) == 1 && names[0] != "":
		switch {
		case x.confLookup(rhs, sc, x.cfgTypes):
			sc.def(names[0], &iv{kind: "dtype"})
			return lh("IS.readType", k())
		case x.confLookup(rhs, sc, x.cfgEnums):
			sc.def(names[0], &iv{kind: "values"})
			return lh("IS.lookupValues", k())
		case isCall && builtin(call.Fun, sc, "make") && len(call.Args) >= 2:
			at, ok := call.Args[0].(*ast.ArrayType)
			if !ok || at.Len != nil {
				return nil
			}
			// make([]T, 0, len(pointers))
			if kd, ok := elemKind[src(at.Elt)]; ok && len(call.Args) == 3 && iIntLit(call.Args[1], "0") && x.lenPointers(call.Args[2], sc) && !builtinBound(sc, src(at.Elt)) {
				sc.def(names[0], &iv{kind: "acc", s: kd})
				return lh("IS.makeAcc", ikind(kd), k())
			}
			// make([]strings.Pointer, len(pointers))
			if sel, ok := at.Elt.(*ast.SelectorExpr); ok && len(call.Args) == 2 && x.lenPointers(call.Args[1], sc) && x.pkg(sel.X, sc, x.imports, "internal/strings") && sel.Sel.Name == x.ptrCtorType() && x.ptrCtorType() != "" {
				sc.def(names[0], &iv{kind: "ptrarr", s: sel.Sel.Name})
				return lh("IS.makePtrs", k())
			}
		case isCall && x.factoryMethod(call.Fun, sc) == "[]byte → error" && len(call.Args) == 1 && x.cell(call.Args[0], sc):
			x.gen++
			sc.def(names[0], &iv{kind: "callerr", gen: x.gen})
			return lh("IS.facAppendBytes", k())
		}
	case s.Tok == token.DEFINE && len(names) == 2 && names[0] != "" && names[1] != "" && isCall:
		// x, e := strings.ParseT(<cell>)
		if p, kd := x.parser(call.Fun, sc); p != nil && len(call.Args) == 1 && x.cell(call.Args[0], sc) {
			x.gen++
			sc.def(names[0], &iv{kind: "parsed", s: kd, gen: x.gen})
			sc.def(names[1], &iv{kind: "callerr", gen: x.gen})
			return lh("IS.parse", p, k())
		}
		// factory, e := ecolumn.NewFactory(values, len(pointers))
		if sel, ok := call.Fun.(*ast.SelectorExpr); ok && x.pkg(sel.X, sc, x.imports, "internal/ecolumn") && len(call.Args) == 2 && x.is(call.Args[0], sc, "values") && x.lenPointers(call.Args[1], sc) {
			fd, ok := x.ecolFns[sel.Sel.Name]
			if !ok || fd.Recv != nil {
				return nil
			}
			r := flatTypes(fd.Type.Results)
			if strings.Join(flatTypes(fd.Type.Params), ",") != "[]string,int" || len(r) != 2 || !strings.HasPrefix(r[0], "*") || r[1] != "error" {
				return nil
			}
			x.facType = strings.TrimPrefix(r[0], "*")
			x.gen++
			sc.def(names[0], &iv{kind: "factory"})
			sc.def(names[1], &iv{kind: "callerr", gen: x.gen})
			return lh("IS.newFactory", k())
		}
	case s.Tok == token.ASSIGN && len(s.Lhs) == 1:
		tgt := x.role(s.Lhs[0], sc)
		switch tgt.kind {
		case "errvar":
			if isNilIdent(rhs) && !builtinBound(sc, "nil") {
				return lh("IS.clearErr", k())
			}
			if _, ok := x.current(rhs, sc, "callerr"); ok {
				return lh("IS.setErr", k())
			}
		case "acc":
			// acc = append(acc, v)
			if !isCall || !builtin(call.Fun, sc, "append") || len(call.Args) != 2 || call.Ellipsis.IsValid() || x.role(call.Args[0], sc) != tgt {
				return nil
			}
			if v, ok := x.current(call.Args[1], sc, "parsed"); ok && v.s == tgt.s {
				return lh("IS.append", ikind(tgt.s), k())
			}
			if nan, ok := unparen(call.Args[1]).(*ast.CallExpr); ok && len(nan.Args) == 0 && tgt.s == "float" {
				if sel, ok := nan.Fun.(*ast.SelectorExpr); ok && x.stdpkg(sel.X, sc, x.imports, "math") && sel.Sel.Name == "NaN" {
					return lh("IS.appendNaN", k())
				}
			}
		default:
			// ptrs[i] = strings.NewPointer(int(p.start), 0, true) / (int(p.start), int(p.end-p.start), false)
			ix, ok := s.Lhs[0].(*ast.IndexExpr)
			if !ok || !x.is(ix.X, sc, "ptrarr") || !x.is(ix.Index, sc, "idx") || !isCall || len(call.Args) != 3 {
				return nil
			}
			ctor, _ := x.ptrCtor()
			sel, ok := call.Fun.(*ast.SelectorExpr)
			if !ok || !x.pkg(sel.X, sc, x.imports, "internal/strings") || sel.Sel.Name != ctor || ctor == "" {
				return nil
			}
			off := x.intConv(call.Args[0], sc)
			if off == nil || !x.ptrField(off, sc, x.fStart) || builtinBound(sc, "true") || builtinBound(sc, "false") {
				return nil
			}
			if iIntLit(call.Args[1], "0") && isIdent(call.Args[2], "true") {
				return lh("IS.setPtr", lh("true"), k())
			}
			if ln := x.intConv(call.Args[1], sc); ln != nil && isIdent(call.Args[2], "false") {
				if b, ok := ln.(*ast.BinaryExpr); ok && b.Op == token.SUB && x.ptrField(b.X, sc, x.fEnd) && x.ptrField(b.Y, sc, x.fStart) {
					return lh("IS.setPtr", lh("false"), k())
				}
			}
		}
	}
	return nil
}

// inferLean writes QF/Gen/Infer.lean.
func inferLean(repo string) string {
	var b strings.Builder
	b.WriteString("/- GENERATED on every run by /verif/go/cmd/extract from /repo's source (tie T1). Do not edit. -/\nimport QF.Core.IExpr\nnamespace QF.Gen\n\n")
	files := parseDir(filepath.Join(repo, "internal", "io"))
	strFiles := parseDir(filepath.Join(repo, "internal", "strings"))
	c := &ictx{repo: repo, files: files, fns: funcDecls(files), imports: importsOf(files),
		typeConsts: stringConsts(parseDir(filepath.Join(repo, "types"))),
		strFiles:   strFiles, strFns: funcDecls(strFiles), strImports: importsOf(strFiles),
		ecolFns: funcDecls(parseDir(filepath.Join(repo, "internal", "ecolumn")))}
	var t *lt
	if msg := c.scan(); msg != "" {
		t = ls("IS.opaque", msg)
	} else {
		sc := &iscope{vars: map[string]*iv{}}
		for i, n := range paramNames(c.fd) {
			sc.def(n, &iv{kind: []string{"blob", "pointers", "name", "conf"}[i]})
		}
		x := &iexec{c}
		t = x.block(c.fd.Body.List, sc.push(), false)
	}
	b.WriteString("/-- the function of internal/io that makes the data of one column from its cell texts (`columnToData`) -/\n")
	b.WriteString("def columnToDataAst : IS :=\n  " + t.lean() + "\n")
	b.WriteString("\nend QF.Gen\n")
	return b.String()
}
