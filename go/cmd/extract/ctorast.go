package main

// Translation go/ast → CN / CB / NB / NC (lean/QF/Core/Ctors.lean) of the column constructors `createColumn` (nast.go)
// takes as primitives:
//
//	internal/scolumn:  func NewBytes(pointers []qfstrings.Pointer, bytes []byte) Column      → NB
//	                   func New(strings []*string) Column · NewStrings(strings []string) Column
//	                   func NewConst(val *string, count int) Column                           → CN
//	internal/{i,f,b}column:  func New(d []T) Column · func NewConst(val T, count int) Column → NC
//
// Everything is found by ROLE: the functions by their signature, the fields of `Column` by their types, the locals by the
// way they are made, the element of the round by the `range` clause, `qfstrings.NewPointer` as the function
// `(int, int, bool) Pointer` of the package imported from internal/strings. What is not understood becomes `.opaque`.

import (
	"fmt"
	"go/ast"
	"go/token"
	"path/filepath"
	"sort"
	"strconv"
	"strings"
)

type ctctx struct {
	files      map[string]*ast.File
	fns        map[string]*ast.FuncDecl
	imports    map[string]string
	strsPkg    string // local name of the import of internal/strings
	ptrType    string // `qfstrings.Pointer`
	newPointer string // name of the function (int, int, bool) Pointer of that package
	ptrField   string // fields of Column
	dataField  string
	newBytes   string // the function ([]Pointer, []byte) Column
}

func ctFlatTypes(fl *ast.FieldList) []string {
	var res []string
	if fl == nil {
		return res
	}
	for _, f := range fl.List {
		n := len(f.Names)
		if n == 0 {
			n = 1
		}
		for i := 0; i < n; i++ {
			res = append(res, src(f.Type))
		}
	}
	return res
}

func ctStructFields(files map[string]*ast.File, name string) [][2]string {
	var res [][2]string
	for _, f := range files {
		for _, d := range f.Decls {
			gd, ok := d.(*ast.GenDecl)
			if !ok || gd.Tok != token.TYPE {
				continue
			}
			for _, sp := range gd.Specs {
				ts, ok := sp.(*ast.TypeSpec)
				if !ok || ts.Name.Name != name {
					continue
				}
				st, ok := ts.Type.(*ast.StructType)
				if !ok {
					continue
				}
				for _, fl := range st.Fields.List {
					for _, n := range fl.Names {
						res = append(res, [2]string{n.Name, src(fl.Type)})
					}
				}
			}
		}
	}
	return res
}

func (c *ctctx) scan(strs map[string]*ast.File) bool {
	for name, path := range c.imports {
		if strings.HasSuffix(path, "/internal/strings") {
			c.strsPkg = name
		}
	}
	if c.strsPkg == "" {
		return false
	}
	c.ptrType = c.strsPkg + ".Pointer"
	var names []string
	sfns := funcDecls(strs)
	for n := range sfns {
		names = append(names, n)
	}
	sort.Strings(names)
	for _, n := range names {
		fd := sfns[n]
		if fd.Recv == nil && strings.Join(ctFlatTypes(fd.Type.Params), ",") == "int,int,bool" && strings.Join(ctFlatTypes(fd.Type.Results), ",") == "Pointer" && c.newPointer == "" {
			c.newPointer = fd.Name.Name
		}
	}
	for _, f := range ctStructFields(c.files, "Column") {
		switch f[1] {
		case "[]" + c.ptrType:
			if c.ptrField == "" {
				c.ptrField = f[0]
			}
		case "[]byte":
			if c.dataField == "" {
				c.dataField = f[0]
			}
		}
	}
	if fd := c.bySig("[]"+c.ptrType+",[]byte", "Column"); fd != nil {
		c.newBytes = fd.Name.Name
	}
	return c.newPointer != "" && c.ptrField != "" && c.dataField != ""
}

// the one function without receiver with these parameter and result types
func (c *ctctx) bySig(params, results string) *ast.FuncDecl {
	var found *ast.FuncDecl
	cnt := 0
	var names []string
	for n := range c.fns {
		names = append(names, n)
	}
	sort.Strings(names)
	for _, n := range names {
		fd := c.fns[n]
		if fd.Recv == nil && strings.Join(ctFlatTypes(fd.Type.Params), ",") == params && strings.Join(ctFlatTypes(fd.Type.Results), ",") == results {
			found = fd
			cnt++
		}
	}
	if cnt != 1 {
		return nil
	}
	return found
}

func ctnbop(n ast.Node) *lt { return ls("NB.opaque", src(n)) }

// newBytesTerm translates `return Column{<pointers>: p, <data>: d}`
func (c *ctctx) newBytesTerm(fd *ast.FuncDecl) *lt {
	if fd == nil {
		return ls("NB.opaque", "no function ([]Pointer, []byte) Column")
	}
	names := paramNames(fd)
	if len(fd.Body.List) != 1 || len(names) != 2 {
		return ctnbop(fd.Body)
	}
	r, ok := fd.Body.List[0].(*ast.ReturnStmt)
	if !ok || len(r.Results) != 1 {
		return ctnbop(fd.Body)
	}
	cl, ok := unparen(r.Results[0]).(*ast.CompositeLit)
	if !ok || src(cl.Type) != "Column" {
		return ctnbop(r)
	}
	fields := map[string]*lt{c.ptrField: lh("BSrc.zero"), c.dataField: lh("BSrc.zero")}
	for _, el := range cl.Elts {
		kv, ok := el.(*ast.KeyValueExpr)
		if !ok {
			return ctnbop(r)
		}
		key := src(kv.Key)
		if _, known := fields[key]; !known {
			return ctnbop(r)
		}
		id, ok := unparen(kv.Value).(*ast.Ident)
		switch {
		case ok && id.Name == names[0] && names[0] != "_":
			fields[key] = lh("BSrc.ptrParam")
		case ok && id.Name == names[1] && names[1] != "_":
			fields[key] = lh("BSrc.bytesParam")
		default:
			return ctnbop(r)
		}
	}
	return lh("NB.ret", fields[c.ptrField], fields[c.dataField])
}

// roles of the names of a string constructor
type ctscope struct {
	roles map[string]string // cells | val | count | data | ptrs | offset | lenCur | lenVal | cur | pos
	ptrEl bool              // the cells are []*string
}

func (s *ctscope) clone() *ctscope {
	r := &ctscope{roles: map[string]string{}, ptrEl: s.ptrEl}
	for k, v := range s.roles {
		r.roles[k] = v
	}
	return r
}

func (s *ctscope) is(e ast.Expr, role string) bool {
	id, ok := unparen(e).(*ast.Ident)
	return ok && s.roles[id.Name] == role
}

// `*s` for the pointer of the round / `s` for the string of the round
func (s *ctscope) isCurString(e ast.Expr) bool {
	if s.ptrEl {
		st, ok := unparen(e).(*ast.StarExpr)
		return ok && s.is(st.X, "cur")
	}
	return s.is(e, "cur")
}

func (s *ctscope) isValString(e ast.Expr) bool {
	st, ok := unparen(e).(*ast.StarExpr)
	return ok && s.is(st.X, "val")
}

// ie translates an integer expression
func (c *ctctx) ie(e ast.Expr, sc *ctscope) *lt {
	switch t := unparen(e).(type) {
	case *ast.Ident:
		switch sc.roles[t.Name] {
		case "offset":
			return lh("IE.offset")
		case "lenCur":
			return lh("IE.lenCur")
		case "lenVal":
			return lh("IE.lenVal")
		}
	case *ast.BasicLit:
		if t.Kind == token.INT {
			if n, err := strconv.Atoi(t.Value); err == nil && n >= 0 {
				return lh("IE.lit", lnat(n))
			}
		}
	case *ast.CallExpr:
		if id, ok := t.Fun.(*ast.Ident); ok && id.Name == "len" && len(t.Args) == 1 {
			if _, shadow := sc.roles["len"]; shadow {
				return nil
			}
			switch {
			case sc.isCurString(t.Args[0]):
				return lh("IE.lenCur")
			case sc.isValString(t.Args[0]):
				return lh("IE.lenVal")
			case sc.is(t.Args[0], "data"):
				return lh("IE.lenData")
			}
		}
	}
	return nil
}

func ctbop(n ast.Node) *lt { return ls("CB.opaque", src(n)) }

// the call `<strings>.NewPointer(a, b, true|false)`
func (c *ctctx) pointerCall(e ast.Expr, sc *ctscope) (off, ln *lt, isNull string, ok bool) {
	call, isCall := unparen(e).(*ast.CallExpr)
	if !isCall || len(call.Args) != 3 {
		return
	}
	sel, isSel := call.Fun.(*ast.SelectorExpr)
	if !isSel || sel.Sel.Name != c.newPointer {
		return
	}
	id, isId := sel.X.(*ast.Ident)
	if !isId || id.Name != c.strsPkg {
		return
	}
	if _, shadow := sc.roles[id.Name]; shadow {
		return
	}
	off, ln = c.ie(call.Args[0], sc), c.ie(call.Args[1], sc)
	isNull = src(call.Args[2])
	ok = off != nil && ln != nil && (isNull == "true" || isNull == "false")
	return
}

// body translates the statements of a loop body
func (c *ctctx) body(stmts []ast.Stmt, sc *ctscope) *lt {
	if len(stmts) == 0 {
		return lh("CB.done")
	}
	st, rest := stmts[0], stmts[1:]
	switch s := st.(type) {
	case *ast.BlockStmt:
		return c.body(concat(s.List, rest), sc)
	case *ast.IncDecStmt:
		return ctbop(s)
	case *ast.AssignStmt:
		if len(s.Lhs) != 1 || len(s.Rhs) != 1 {
			return ctbop(s)
		}
		switch s.Tok {
		case token.DEFINE:
			// sLen := len(*s)
			id, ok := s.Lhs[0].(*ast.Ident)
			if !ok || id.Name == "_" {
				return ctbop(s)
			}
			if t := c.ie(s.Rhs[0], sc); t != nil && t.lean() == "IE.lenCur" {
				sc = sc.clone()
				sc.roles[id.Name] = "lenCur"
				return c.body(rest, sc)
			}
			return ctbop(s)
		case token.ASSIGN:
			// pointers[i] = NewPointer(…)
			if ix, ok := s.Lhs[0].(*ast.IndexExpr); ok && sc.is(ix.X, "ptrs") && sc.is(ix.Index, "pos") {
				if off, ln, isNull, ok := c.pointerCall(s.Rhs[0], sc); ok {
					return lh("CB.setPtr", off, ln, lh(isNull), c.body(rest, sc))
				}
				return ctbop(s)
			}
			// data = append(data, *s...)
			if sc.is(s.Lhs[0], "data") {
				if call, ok := s.Rhs[0].(*ast.CallExpr); ok && src(call.Fun) == "append" && len(call.Args) == 2 && call.Ellipsis != token.NoPos && sc.is(call.Args[0], "data") && sc.isCurString(call.Args[1]) {
					return lh("CB.appendCur", c.body(rest, sc))
				}
				return ctbop(s)
			}
			// offset = offset + e
			if sc.is(s.Lhs[0], "offset") {
				if b, ok := unparen(s.Rhs[0]).(*ast.BinaryExpr); ok && b.Op == token.ADD && sc.is(b.X, "offset") {
					if e := c.ie(b.Y, sc); e != nil {
						return lh("CB.addOffset", e, c.body(rest, sc))
					}
				}
			}
			return ctbop(s)
		case token.ADD_ASSIGN:
			if sc.is(s.Lhs[0], "offset") {
				if e := c.ie(s.Rhs[0], sc); e != nil {
					return lh("CB.addOffset", e, c.body(rest, sc))
				}
			}
			return ctbop(s)
		}
		return ctbop(s)
	case *ast.IfStmt:
		if s.Init != nil || !sc.ptrEl {
			return ctbop(s)
		}
		b, ok := unparen(s.Cond).(*ast.BinaryExpr)
		if !ok || (b.Op != token.EQL && b.Op != token.NEQ) {
			return ctbop(s)
		}
		if !((sc.is(b.X, "cur") && isNilIdent(b.Y)) || (sc.is(b.Y, "cur") && isNilIdent(b.X))) {
			return ctbop(s)
		}
		thenB, elseB := c.body(concat(s.Body.List, rest), sc.clone()), c.body(concat(eBlock(s.Else), rest), sc.clone())
		if b.Op == token.NEQ {
			thenB, elseB = elseB, thenB
		}
		return lh("CB.ifNil", thenB, elseB)
	}
	return ctbop(st)
}

func ctnop(n ast.Node) *lt { return ls("CN.opaque", src(n)) }

// `make([]byte, 0[, …])`
func isMakeEmptyBytes(e ast.Expr) bool {
	call, ok := unparen(e).(*ast.CallExpr)
	return ok && src(call.Fun) == "make" && (len(call.Args) == 2 || len(call.Args) == 3) && src(call.Args[0]) == "[]byte" && src(call.Args[1]) == "0"
}

// stmts translates the statements of a string constructor
func (c *ctctx) stmts(stmts []ast.Stmt, sc *ctscope) *lt {
	if len(stmts) == 0 {
		return ls("CN.opaque", "missing return")
	}
	st, rest := stmts[0], stmts[1:]
	switch s := st.(type) {
	case *ast.BlockStmt:
		return c.stmts(concat(s.List, rest), sc)
	case *ast.DeclStmt:
		// var data []byte
		if gd, ok := s.Decl.(*ast.GenDecl); ok && gd.Tok == token.VAR && len(gd.Specs) == 1 {
			if vs, ok := gd.Specs[0].(*ast.ValueSpec); ok && len(vs.Names) == 1 && len(vs.Values) == 0 && vs.Type != nil && src(vs.Type) == "[]byte" && vs.Names[0].Name != "_" {
				sc = sc.clone()
				sc.roles[vs.Names[0].Name] = "data"
				return lh("CN.makeData", c.stmts(rest, sc))
			}
		}
		return ctnop(s)
	case *ast.AssignStmt:
		if len(s.Lhs) != 1 || len(s.Rhs) != 1 {
			return ctnop(s)
		}
		if s.Tok == token.DEFINE {
			id, ok := s.Lhs[0].(*ast.Ident)
			if !ok || id.Name == "_" {
				return ctnop(s)
			}
			if _, shadow := sc.roles["make"]; shadow {
				return ctnop(s)
			}
			switch {
			case isMakeEmptyBytes(s.Rhs[0]):
				sc = sc.clone()
				sc.roles[id.Name] = "data"
				return lh("CN.makeData", c.stmts(rest, sc))
			case src(s.Rhs[0]) == "0" || src(s.Rhs[0]) == "1":
				n, _ := strconv.Atoi(src(s.Rhs[0]))
				sc = sc.clone()
				sc.roles[id.Name] = "offset"
				return lh("CN.initOffset", lnat(n), c.stmts(rest, sc))
			}
			if call, ok := unparen(s.Rhs[0]).(*ast.CallExpr); ok && src(call.Fun) == "make" && len(call.Args) == 2 && src(call.Args[0]) == "[]"+c.ptrType {
				var n *lt
				if lc, ok := unparen(call.Args[1]).(*ast.CallExpr); ok && src(lc.Fun) == "len" && len(lc.Args) == 1 && sc.is(lc.Args[0], "cells") {
					n = lh("PLen.lenCells")
				} else if sc.is(call.Args[1], "count") {
					n = lh("PLen.count")
				}
				if n != nil {
					sc = sc.clone()
					sc.roles[id.Name] = "ptrs"
					return lh("CN.makePointers", n, c.stmts(rest, sc))
				}
			}
			// sLen := len(*val)
			if t := c.ie(s.Rhs[0], sc); t != nil && t.lean() == "IE.lenVal" {
				sc = sc.clone()
				sc.roles[id.Name] = "lenVal"
				return c.stmts(rest, sc)
			}
			return ctnop(s)
		}
		if s.Tok == token.ASSIGN && sc.is(s.Lhs[0], "data") {
			if isMakeEmptyBytes(s.Rhs[0]) {
				return lh("CN.makeData", c.stmts(rest, sc))
			}
			if call, ok := s.Rhs[0].(*ast.CallExpr); ok && src(call.Fun) == "append" && len(call.Args) == 2 && call.Ellipsis != token.NoPos && sc.is(call.Args[0], "data") && sc.isValString(call.Args[1]) {
				return lh("CN.appendVal", c.stmts(rest, sc))
			}
		}
		return ctnop(s)
	case *ast.RangeStmt:
		if s.Tok != token.DEFINE {
			return ctnop(s)
		}
		inner := sc.clone()
		key, okK := s.Key.(*ast.Ident)
		if s.Key != nil && !okK {
			return ctnop(s)
		}
		if okK && key.Name != "_" {
			inner.roles[key.Name] = "pos"
		}
		switch {
		case sc.is(s.X, "cells"):
			if s.Value != nil {
				v, ok := s.Value.(*ast.Ident)
				if !ok {
					return ctnop(s)
				}
				if v.Name != "_" {
					inner.roles[v.Name] = "cur"
				}
			}
			return lh("CN.rangeCells", c.body(s.Body.List, inner), c.stmts(rest, sc))
		case sc.is(s.X, "ptrs") && s.Value == nil:
			return lh("CN.rangePointers", c.body(s.Body.List, inner), c.stmts(rest, sc))
		}
		return ctnop(s)
	case *ast.IfStmt:
		if s.Init != nil {
			return ctnop(s)
		}
		b, ok := unparen(s.Cond).(*ast.BinaryExpr)
		if !ok || (b.Op != token.EQL && b.Op != token.NEQ) {
			return ctnop(s)
		}
		if !((sc.is(b.X, "val") && isNilIdent(b.Y)) || (sc.is(b.Y, "val") && isNilIdent(b.X))) {
			return ctnop(s)
		}
		thenB, elseB := c.stmts(concat(s.Body.List, rest), sc.clone()), c.stmts(concat(eBlock(s.Else), rest), sc.clone())
		if b.Op == token.NEQ {
			thenB, elseB = elseB, thenB
		}
		return lh("CN.ifValNil", thenB, elseB)
	case *ast.ReturnStmt:
		if len(s.Results) == 1 {
			if call, ok := unparen(s.Results[0]).(*ast.CallExpr); ok && c.newBytes != "" && src(call.Fun) == c.newBytes && len(call.Args) == 2 && sc.is(call.Args[0], "ptrs") && sc.is(call.Args[1], "data") {
				if _, shadow := sc.roles[c.newBytes]; !shadow {
					return lh("CN.retBytes")
				}
			}
		}
		return ctnop(s)
	}
	return ctnop(st)
}

// stringCtor translates the function with the given parameter types
func (c *ctctx) stringCtor(params string) *lt {
	fd := c.bySig(params, "Column")
	if fd == nil {
		return ls("CN.opaque", "not exactly one function ("+params+") Column")
	}
	sc := &ctscope{roles: map[string]string{}}
	names := paramNames(fd)
	switch params {
	case "[]*string":
		sc.ptrEl = true
		sc.roles[names[0]] = "cells"
	case "[]string":
		sc.roles[names[0]] = "cells"
	case "*string,int":
		sc.roles[names[0]] = "val"
		sc.roles[names[1]] = "count"
	}
	delete(sc.roles, "_")
	return c.stmts(fd.Body.List, sc)
}

func ctncop(n ast.Node) *lt { return ls("NC.opaque", src(n)) }

// numCtor translates New / NewConst of a package with a single slice of cells
func numCtor(fd *ast.FuncDecl, field, elem string) *lt {
	if fd == nil {
		return ls("NC.opaque", "function not found")
	}
	names := paramNames(fd)
	isConst := len(names) == 2
	local := ""
	var walk func(stmts []ast.Stmt) *lt
	walk = func(stmts []ast.Stmt) *lt {
		if len(stmts) == 0 {
			return ls("NC.opaque", "missing return")
		}
		switch s := stmts[0].(type) {
		case *ast.AssignStmt:
			// data := make([]T, count)
			if isConst && s.Tok == token.DEFINE && len(s.Lhs) == 1 && len(s.Rhs) == 1 && local == "" {
				id, ok1 := s.Lhs[0].(*ast.Ident)
				call, ok2 := s.Rhs[0].(*ast.CallExpr)
				if ok1 && ok2 && id.Name != "_" && src(call.Fun) == "make" && len(call.Args) == 2 && src(call.Args[0]) == "[]"+elem && src(call.Args[1]) == names[1] && names[1] != "_" {
					local = id.Name
					return lh("NC.makeCells", walk(stmts[1:]))
				}
			}
		case *ast.RangeStmt:
			// for i := range data { data[i] = val }
			if k, ok := s.Key.(*ast.Ident); ok && isConst && s.Value == nil && s.Tok == token.DEFINE && src(s.X) == local && local != "" && k.Name != "_" && len(s.Body.List) == 1 {
				if as, ok := s.Body.List[0].(*ast.AssignStmt); ok && as.Tok == token.ASSIGN && len(as.Lhs) == 1 && len(as.Rhs) == 1 &&
					src(as.Lhs[0]) == local+"["+k.Name+"]" && src(as.Rhs[0]) == names[0] && names[0] != "_" && k.Name != names[0] && k.Name != local {
					return lh("NC.fillVal", walk(stmts[1:]))
				}
			}
		case *ast.ReturnStmt:
			if len(s.Results) == 1 {
				if cl, ok := unparen(s.Results[0]).(*ast.CompositeLit); ok && src(cl.Type) == "Column" && len(cl.Elts) == 1 {
					if kv, ok := cl.Elts[0].(*ast.KeyValueExpr); ok && src(kv.Key) == field {
						switch {
						case local != "" && src(kv.Value) == local:
							return lh("NC.retLocal")
						case !isConst && src(kv.Value) == names[0] && names[0] != "_":
							return lh("NC.retParam")
						}
					}
				}
			}
		}
		return ctncop(stmts[0])
	}
	return walk(fd.Body.List)
}

// ctorsLean writes QF/Gen/Ctors.lean.
func ctorsLean(repo string, strs map[string]*ast.File) string {
	var b strings.Builder
	b.WriteString("/- GENERATED on every run by /verif/go/cmd/extract from /repo's source (tie T1). Do not edit. -/\nimport QF.Core.Ctors\nnamespace QF.Gen\nopen QF.CT\n\n")
	sfiles := parseDir(filepath.Join(repo, "internal", "scolumn"))
	c := &ctctx{files: sfiles, fns: funcDecls(sfiles), imports: importsOf(sfiles)}
	nb := ls("NB.opaque", "package scolumn: no import of internal/strings, no function (int, int, bool) Pointer or no fields []Pointer / []byte of Column")
	cells, strsT, cst := ls("CN.opaque", "scan failed"), ls("CN.opaque", "scan failed"), ls("CN.opaque", "scan failed")
	if c.scan(strs) {
		nb = c.newBytesTerm(c.bySig("[]"+c.ptrType+",[]byte", "Column"))
		cells, strsT, cst = c.stringCtor("[]*string"), c.stringCtor("[]string"), c.stringCtor("*string,int")
	}
	b.WriteString("/-- package scolumn: the function `([]Pointer, []byte) Column` (`NewBytes`) -/\ndef scolNewBytes : NB := " + nb.lean() + "\n\n")
	b.WriteString("/-- package scolumn: the function `([]*string) Column` (`New`) -/\ndef scolNew : CN := " + cells.lean() + "\n\n")
	b.WriteString("/-- package scolumn: the function `([]string) Column` (`NewStrings`) -/\ndef scolNewStrings : CN := " + strsT.lean() + "\n\n")
	b.WriteString("/-- package scolumn: the function `(*string, int) Column` (`NewConst`) -/\ndef scolNewConst : CN := " + cst.lean() + "\n\n")
	var ents []string
	for _, p := range [][3]string{{"icolumn", "int", "CType.int"}, {"fcolumn", "float64", "CType.float"}, {"bcolumn", "bool", "CType.bool"}} {
		files := parseDir(filepath.Join(repo, "internal", p[0]))
		pc := &ctctx{files: files, fns: funcDecls(files)}
		field := ""
		for _, f := range ctStructFields(files, "Column") {
			if f[1] == "[]"+p[1] && field == "" {
				field = f[0]
			}
		}
		nw, cs := ls("NC.opaque", "no field []"+p[1]+" of Column"), ls("NC.opaque", "no field []"+p[1]+" of Column")
		if field != "" {
			nw = numCtor(pc.bySig("[]"+p[1], "Column"), field, p[1])
			cs = numCtor(pc.bySig(p[1]+",int", "Column"), field, p[1])
		}
		ents = append(ents, fmt.Sprintf("  (%s, %s, %s)", p[2], nw.lean(), cs.lean()))
	}
	b.WriteString("/-- packages icolumn, fcolumn, bcolumn: the functions `([]T) Column` (`New`) and `(T, int) Column` (`NewConst`): (cell type, New, NewConst) -/\n")
	b.WriteString("def numCtors : List (CType × NC × NC) := [\n" + strings.Join(ents, ",\n") + "]\n\nend QF.Gen\n")
	return b.String()
}
