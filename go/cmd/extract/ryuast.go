package main

// Translation go/ast → RY.S / RY.E (lean/QF/Core/RYExpr.lean) of the Ryu core:
//
//	func float64ToDecimalExactInt, float64ToDecimal, decimalLen64, mulShift64, shiftRight128, pow5Factor64,
//	multipleOfPowerOfFive64, multipleOfPowerOfTwo64                                   /repo/internal/ryu/ryu64.go
//	func log10Pow2, log10Pow5, pow5Bits, boolToInt, boolToUint32, boolToUint64, assert   /repo/internal/ryu/ryu.go
//	func AppendFloat64f, appendSpecialf (ryu.go), (d dec64) appendF, sizeSlice (ryu64.go)   the digit layout
//
// Method (as grpast.go for the grouper): a statement-by-statement translation of the function bodies with a small type
// inference of its own (only go/parser + go/ast): every expression has a KIND (bool, u8, u32, u64 — `uint` and `byte`
// included —, i32, int, u128 = the struct of two uint64, dec = the struct of a uint64 and an int32, const = an untyped
// constant with its exact value) computed from the declarations. The roots are found through the public vocabulary
// (AppendFloat64f of internal/ryu; math/bits; the table names pow5Split64 / pow5InvSplit64 that QF/Gen/Ryu.lean is read
// by); everything else by ROLE:
//
//   - a variable is the number of variables alive where it is declared (parameters, named results, then `:=` / `var` in the
//     order of the text; a block's variables end with it) — names do not reach the output;
//   - functions are numbered in the order of discovery: 0 = the function `(uint64, uint64) (dec, bool)` and 1 = the
//     function `(uint64, uint64) dec` that AppendFloat64f calls, 2 = the function `(uint64) int` called by the method of
//     dec that AppendFloat64f calls, 3 = AppendFloat64f itself; then every function in the order in which the translation
//     meets the first call of it (a method of dec with a value receiver: the receiver is the first parameter);
//   - a []byte is the kind `bytes`, a float64 parameter the kind `f64` (its bit pattern: math.Float64bits); the `append`s are
//     numbered in the order of the translation (the number names the spare capacity a reallocation leaves behind);
//   - the structs by the types of their fields, the fields by their position;
//   - a function whose body is `if !c { panic(msg) }` is an assertion (RY.S.assert);
//   - package-level constants are replaced by their values, typed by the context; constant expressions are folded;
//   - `x op= e`, `x++`, `x--` are `x = x op e` (x is a variable or a field of one: nothing is evaluated twice).
//
// Whatever is not understood becomes `.opaque "<text>"`; such a term has no meaning and the proofs of
// QF/Props/C16RyuCanon.lean (gen_ryu_no_opaque, gen_ryu_canon — and with them gen_ryu_semantics of C16RyuGen.lean) fail.

import (
	"fmt"
	"go/ast"
	"go/token"
	"math/big"
	"path/filepath"
	"strconv"
	"strings"
)

type ryCtx struct {
	files   map[string]*ast.File
	fns     map[string]*ast.FuncDecl
	types   map[string]ast.Expr
	imports map[string]string
	ids     map[*ast.FuncDecl]int
	queue   []*ast.FuncDecl
	bodies  []string
	// role → struct type name ("?" = ambiguous)
	roleType map[string]string
	// the array of uint64 that is indexed
	pow10Name string
	pow10     []string
	// the `append`s are numbered in the order of the translation
	sites int
}

type ryVar struct {
	id   int
	kind string
}

type ryScope struct {
	vars   map[string]*ryVar
	parent *ryScope
}

func (s *ryScope) lookup(n string) *ryVar {
	for f := s; f != nil; f = f.parent {
		if v, ok := f.vars[n]; ok {
			return v
		}
	}
	return nil
}

func (s *ryScope) push() *ryScope { return &ryScope{vars: map[string]*ryVar{}, parent: s} }

type ryFn struct {
	c        *ryCtx
	fd       *ast.FuncDecl
	next     int
	rets     []string
	retVars  []*ryVar
	inLoop   int
	funScope *ryScope
}

var ryInt = map[string]struct {
	signed bool
	w      int
}{"u8": {false, 8}, "u32": {false, 32}, "u64": {false, 64}, "i32": {true, 32}, "int": {true, 64}}

func ryIsInt(k string) bool { _, ok := ryInt[k]; return ok }

func ryLit(k string, n *big.Int) *lt {
	t := ryInt[k]
	if t.signed {
		return lh("E.i", lh(strconv.Itoa(t.w)), lh(leanInt(n)))
	}
	return lh("E.u", lh(strconv.Itoa(t.w)), lh(n.String()))
}

func ryTypedConst(r *big.Rat, want string) *lt {
	t, ok := ryInt[want]
	if r == nil || !ok || !r.IsInt() {
		return nil
	}
	n := r.Num()
	if t.signed {
		lim := new(big.Int).Lsh(big.NewInt(1), uint(t.w-1))
		if n.Cmp(lim) >= 0 || n.Cmp(new(big.Int).Neg(lim)) < 0 {
			return nil
		}
	} else if n.Sign() < 0 || n.BitLen() > t.w {
		return nil
	}
	return ryLit(want, n)
}

func ryCoerce(x *lt, k, want string) (*lt, string) {
	if k == "const" && ryIsInt(want) {
		if t := ryTypedConst(constOf(x), want); t != nil {
			return t, want
		}
	}
	return x, k
}

func ryeop(n ast.Node) *lt { return ls("E.opaque", src(n)) }
func rysop(n ast.Node) *lt { return ls("S.opaque", src(n)) }
func ryvar(v *ryVar) *lt   { return lh("E.var", lh(strconv.Itoa(v.id))) }
func rynat(n int) *lt      { return lh(strconv.Itoa(n)) }
func ryblock(items []*lt) *lt {
	return lh("S.block", ll(items))
}
func ryscope(items []*lt) *lt { return lh("S.scope", ryblock(items)) }

// ---------------------------------------------------------------------------------------------------------------------
// types

func (c *ryCtx) structRole(name string) string {
	st, ok := c.types[name].(*ast.StructType)
	if !ok {
		return "?"
	}
	var ks []string
	for _, f := range st.Fields.List {
		k := c.kind(f.Type)
		n := len(f.Names)
		if n == 0 {
			return "?"
		}
		for i := 0; i < n; i++ {
			ks = append(ks, k)
		}
	}
	switch strings.Join(ks, ",") {
	case "u64,u64":
		return "u128"
	case "u64,i32":
		return "dec"
	}
	return "?"
}

func (c *ryCtx) kind(t ast.Expr) string {
	switch x := t.(type) {
	case nil:
		return "unit"
	case *ast.ParenExpr:
		return c.kind(x.X)
	case *ast.Ident:
		if _, declared := c.types[x.Name]; declared {
			r := c.structRole(x.Name)
			if r != "?" && c.roleType[r] == x.Name {
				return r
			}
			return "?"
		}
		switch x.Name {
		case "bool":
			return "bool"
		case "float64":
			return "f64"
		case "string":
			return "str"
		case "int":
			return "int"
		case "int32":
			return "i32"
		case "uint8", "byte":
			return "u8"
		case "uint32":
			return "u32"
		case "uint64", "uint":
			return "u64"
		}
	case *ast.ArrayType:
		if x.Len == nil && c.kind(x.Elt) == "u8" {
			return "bytes"
		}
	}
	return "?"
}

func (c *ryCtx) scanTypes() {
	c.roleType = map[string]string{}
	for name := range c.types {
		r := c.structRole(name)
		if r == "?" {
			continue
		}
		if old, ok := c.roleType[r]; ok && old != name {
			c.roleType[r] = "?"
		} else {
			c.roleType[r] = name
		}
	}
}

func (c *ryCtx) fieldIndex(role, name string) (int, string) {
	st, ok := c.types[c.roleType[role]].(*ast.StructType)
	if !ok {
		return -1, "?"
	}
	i := 0
	for _, f := range st.Fields.List {
		for _, n := range f.Names {
			if n.Name == name {
				return i, c.kind(f.Type)
			}
			i++
		}
	}
	return -1, "?"
}

func (c *ryCtx) kindsOf(fl *ast.FieldList) []string {
	var ks []string
	if fl != nil {
		for _, f := range fl.List {
			n := len(f.Names)
			if n == 0 {
				n = 1
			}
			for i := 0; i < n; i++ {
				ks = append(ks, c.kind(f.Type))
			}
		}
	}
	return ks
}

func (c *ryCtx) sig(fd *ast.FuncDecl) string {
	return strings.Join(c.kindsOf(fd.Type.Params), ",") + "→" + strings.Join(c.kindsOf(fd.Type.Results), ",")
}

// func assert(t bool, msg string) { if !t { panic(msg) } }
func (c *ryCtx) isAssert(fd *ast.FuncDecl) bool {
	if fd.Recv != nil || fd.Type.Results != nil && len(fd.Type.Results.List) > 0 || fd.Type.Params == nil {
		return false
	}
	var names []string
	var types []string
	for _, f := range fd.Type.Params.List {
		for _, n := range f.Names {
			names = append(names, n.Name)
			types = append(types, src(f.Type))
		}
	}
	if len(names) != 2 || types[0] != "bool" || types[1] != "string" || len(fd.Body.List) != 1 {
		return false
	}
	is, ok := fd.Body.List[0].(*ast.IfStmt)
	if !ok || is.Init != nil || is.Else != nil || len(is.Body.List) != 1 {
		return false
	}
	u, ok := unparen(is.Cond).(*ast.UnaryExpr)
	if !ok || u.Op != token.NOT || !isName(u.X, names[0]) {
		return false
	}
	es, ok := is.Body.List[0].(*ast.ExprStmt)
	if !ok {
		return false
	}
	call, ok := es.X.(*ast.CallExpr)
	return ok && isName(call.Fun, "panic") && len(call.Args) == 1 && isName(call.Args[0], names[1]) && names[0] != "panic" && names[1] != "panic"
}

func (c *ryCtx) use(fd *ast.FuncDecl) int {
	if id, ok := c.ids[fd]; ok {
		return id
	}
	id := len(c.ids)
	c.ids[fd] = id
	c.queue = append(c.queue, fd)
	return id
}

// ---------------------------------------------------------------------------------------------------------------------
// constants

func (c *ryCtx) constValue(e ast.Expr, sc *ryScope, depth int) *big.Rat {
	if depth > 6 {
		return nil
	}
	switch t := unparen(e).(type) {
	case *ast.BasicLit:
		if t.Kind == token.INT {
			if n, ok := new(big.Int).SetString(t.Value, 0); ok {
				return new(big.Rat).SetInt(n)
			}
		}
		if t.Kind == token.FLOAT {
			if r, ok := new(big.Rat).SetString(t.Value); ok {
				return r
			}
		}
		if t.Kind == token.CHAR {
			if r, _, _, err := strconv.UnquoteChar(t.Value[1:len(t.Value)-1], '\''); err == nil {
				return new(big.Rat).SetInt64(int64(r))
			}
		}
	case *ast.Ident:
		if sc != nil && sc.lookup(t.Name) != nil {
			return nil
		}
		for _, file := range c.files {
			for _, d := range file.Decls {
				gd, ok := d.(*ast.GenDecl)
				if !ok || gd.Tok != token.CONST {
					continue
				}
				for _, sp := range gd.Specs {
					vs, ok := sp.(*ast.ValueSpec)
					if !ok || vs.Type != nil {
						continue
					}
					for i, nm := range vs.Names {
						if nm.Name == t.Name && i < len(vs.Values) {
							return c.constValue(vs.Values[i], nil, depth+1)
						}
					}
				}
			}
		}
	case *ast.UnaryExpr:
		if t.Op == token.SUB {
			if r := c.constValue(t.X, sc, depth+1); r != nil {
				return new(big.Rat).Neg(r)
			}
		}
	case *ast.BinaryExpr:
		a, b := c.constValue(t.X, sc, depth+1), c.constValue(t.Y, sc, depth+1)
		if a != nil && b != nil {
			return foldConst(t.Op, a, b)
		}
	}
	return nil
}

func foldConst(op token.Token, a, b *big.Rat) *big.Rat {
	switch op {
	case token.ADD:
		return new(big.Rat).Add(a, b)
	case token.SUB:
		return new(big.Rat).Sub(a, b)
	case token.MUL:
		return new(big.Rat).Mul(a, b)
	case token.SHL:
		if a.IsInt() && b.IsInt() && b.Sign() >= 0 && b.Num().IsInt64() && b.Num().Int64() < 4096 {
			return new(big.Rat).SetInt(new(big.Int).Lsh(a.Num(), uint(b.Num().Int64())))
		}
	}
	return nil
}

// ---------------------------------------------------------------------------------------------------------------------
// expressions

var ryCOp = map[token.Token]string{token.LSS: "COp.lt", token.LEQ: "COp.le", token.GTR: "COp.gt", token.GEQ: "COp.ge", token.EQL: "COp.eq", token.NEQ: "COp.ne"}
var ryAOp = map[token.Token]string{token.ADD: "AOp.add", token.SUB: "AOp.sub", token.MUL: "AOp.mul", token.QUO: "AOp.div", token.REM: "AOp.mod",
	token.AND: "AOp.band", token.OR: "AOp.bor", token.XOR: "AOp.bxor"}
var ryAssignOp = map[token.Token]token.Token{token.ADD_ASSIGN: token.ADD, token.SUB_ASSIGN: token.SUB, token.MUL_ASSIGN: token.MUL, token.QUO_ASSIGN: token.QUO,
	token.REM_ASSIGN: token.REM, token.AND_ASSIGN: token.AND, token.OR_ASSIGN: token.OR, token.XOR_ASSIGN: token.XOR, token.SHL_ASSIGN: token.SHL, token.SHR_ASSIGN: token.SHR}

func (f *ryFn) expr(e ast.Expr, sc *ryScope) (*lt, string) {
	e = unparen(e)
	bad := func() (*lt, string) { return ryeop(e), "?" }
	c := f.c
	if r := c.constValue(e, sc, 0); r != nil {
		return constTerm(r), "const"
	}
	switch t := e.(type) {
	case *ast.BasicLit:
		if t.Kind == token.STRING {
			if str, err := strconv.Unquote(t.Value); err == nil {
				var bs []*lt
				for i := 0; i < len(str); i++ {
					bs = append(bs, rynat(int(str[i])))
				}
				return lh("E.str", ll(bs)), "str"
			}
		}
	case *ast.SliceExpr:
		// b[:hi]
		if t.Low == nil && t.High != nil && t.Max == nil && !t.Slice3 {
			x, kx := f.expr(t.X, sc)
			hi, kh := f.expr(t.High, sc)
			hi, kh = ryCoerce(hi, kh, "int")
			if kx == "bytes" && ryIsInt(kh) {
				return lh("E.sliceTo", x, hi), "bytes"
			}
		}
	case *ast.Ident:
		if v := sc.lookup(t.Name); v != nil {
			if v.kind == "?" {
				return bad()
			}
			return ryvar(v), v.kind
		}
		switch t.Name {
		case "true":
			return lh("E.bool", lh("true")), "bool"
		case "false":
			return lh("E.bool", lh("false")), "bool"
		}
	case *ast.UnaryExpr:
		x, k := f.expr(t.X, sc)
		switch t.Op {
		case token.NOT:
			if k == "bool" {
				return lh("E.not", x), "bool"
			}
		case token.SUB:
			if ryIsInt(k) {
				return lh("E.neg", x), k
			}
		}
	case *ast.BinaryExpr:
		return f.binary(t.Op, t.X, t.Y, t, sc)
	case *ast.IndexExpr:
		// an element of a byte slice
		if x, kx := f.expr(t.X, sc); kx == "bytes" {
			i, ki := f.expr(t.Index, sc)
			i, ki = ryCoerce(i, ki, "int")
			if ryIsInt(ki) {
				return lh("E.index", x, i), "u8"
			}
			return bad()
		}
		// a package-level table
		id, ok := unparen(t.X).(*ast.Ident)
		if !ok || sc.lookup(id.Name) != nil {
			return bad()
		}
		i, ki := f.expr(t.Index, sc)
		i, ki = ryCoerce(i, ki, "int")
		if !ryIsInt(ki) {
			return bad()
		}
		elem := c.tableElem(id.Name)
		switch {
		case id.Name == "pow5Split64" && elem == "u128":
			return lh("E.tbl", lh("Tbl.pow5Split"), i), "u128"
		case id.Name == "pow5InvSplit64" && elem == "u128":
			return lh("E.tbl", lh("Tbl.pow5InvSplit"), i), "u128"
		case elem == "u64" && c.usePow10(id.Name):
			return lh("E.tbl", lh("Tbl.pow10"), i), "u64"
		}
	case *ast.SelectorExpr:
		if id, ok := unparen(t.X).(*ast.Ident); ok && sc.lookup(id.Name) == nil {
			if _, imp := c.imports[id.Name]; imp {
				return bad()
			}
		}
		x, kx := f.expr(t.X, sc)
		if kx == "u128" || kx == "dec" {
			if i, k := c.fieldIndex(kx, t.Sel.Name); i >= 0 && k != "?" {
				return lh("E.field", x, rynat(i)), k
			}
		}
	case *ast.CompositeLit:
		k := c.kind(t.Type)
		if k != "u128" && k != "dec" {
			return bad()
		}
		parts := map[int]*lt{}
		for pos, el := range t.Elts {
			idx, val := pos, el
			fk := "?"
			if kv, ok := el.(*ast.KeyValueExpr); ok {
				id, ok := kv.Key.(*ast.Ident)
				if !ok {
					return bad()
				}
				idx, fk = c.fieldIndex(k, id.Name)
				val = kv.Value
			} else {
				fk = []string{"u64", map[string]string{"u128": "u64", "dec": "i32"}[k]}[pos%2]
				if pos > 1 {
					return bad()
				}
			}
			if _, dup := parts[idx]; dup || idx < 0 {
				return bad()
			}
			x, kx := f.expr(val, sc)
			x, kx = ryCoerce(x, kx, fk)
			if kx != fk || fk == "?" {
				return bad()
			}
			parts[idx] = x
		}
		zero := ryZero(k)
		for i := 0; i < 2; i++ {
			if parts[i] == nil {
				parts[i] = zero.args[i]
			}
		}
		return lh("E.mk2", parts[0], parts[1]), k
	case *ast.CallExpr:
		return f.call(t, sc)
	}
	return bad()
}

// the element kind of a package-level array variable ("" = there is none of that name)
func (c *ryCtx) tableElem(name string) string {
	for _, file := range c.files {
		for _, d := range file.Decls {
			gd, ok := d.(*ast.GenDecl)
			if !ok || gd.Tok != token.VAR {
				continue
			}
			for _, sp := range gd.Specs {
				vs, ok := sp.(*ast.ValueSpec)
				if !ok || len(vs.Names) != 1 || vs.Names[0].Name != name || len(vs.Values) != 1 || vs.Type != nil {
					continue
				}
				cl, ok := vs.Values[0].(*ast.CompositeLit)
				if !ok {
					continue
				}
				at, ok := cl.Type.(*ast.ArrayType)
				if !ok || at.Len == nil {
					continue
				}
				if k := c.kind(at.Elt); k == "u64" {
					// the values
					var vals []string
					for _, el := range cl.Elts {
						r := c.constValue(el, nil, 0)
						if r == nil || !r.IsInt() || r.Sign() < 0 || r.Num().BitLen() > 64 {
							return ""
						}
						vals = append(vals, r.Num().String())
					}
					if c.pow10Name == "" || c.pow10Name == name {
						c.pow10 = vals
					}
					return k
				} else {
					return k
				}
			}
		}
	}
	return ""
}

func (c *ryCtx) usePow10(name string) bool {
	if c.pow10Name == "" {
		c.pow10Name = name
	}
	return c.pow10Name == name
}

func (f *ryFn) binary(op token.Token, ex, ey ast.Expr, whole ast.Node, sc *ryScope) (*lt, string) {
	bad := func() (*lt, string) { return ryeop(whole), "?" }
	x, kx := f.expr(ex, sc)
	y, ky := f.expr(ey, sc)
	switch op {
	case token.LAND, token.LOR:
		if kx == "bool" && ky == "bool" {
			h := "E.and"
			if op == token.LOR {
				h = "E.or"
			}
			return lh(h, x, y), "bool"
		}
		return bad()
	case token.SHL, token.SHR:
		y, ky = ryCoerce(y, ky, "u64")
		if ryIsInt(kx) && ryIsInt(ky) {
			h := "E.shl"
			if op == token.SHR {
				h = "E.shr"
			}
			return lh(h, x, y), kx
		}
		return bad()
	}
	x, kx = ryCoerce(x, kx, ky)
	y, ky = ryCoerce(y, ky, kx)
	if kx != ky {
		return bad()
	}
	if h, ok := ryCOp[op]; ok {
		if ryIsInt(kx) || (kx == "bool" && (op == token.EQL || op == token.NEQ)) {
			return lh("E.cmp", lh(h), x, y), "bool"
		}
		return bad()
	}
	if h, ok := ryAOp[op]; ok && ryIsInt(kx) {
		return lh("E.bin", lh(h), x, y), kx
	}
	return bad()
}

func (f *ryFn) call(t *ast.CallExpr, sc *ryScope) (*lt, string) {
	c := f.c
	bad := func() (*lt, string) { return ryeop(t), "?" }
	switch fun := unparen(t.Fun).(type) {
	case *ast.Ident:
		if sc.lookup(fun.Name) != nil {
			return bad()
		}
		_, declaredType := c.types[fun.Name]
		_, declaredFn := c.fns[fun.Name]
		if !declaredType && !declaredFn {
			switch fun.Name {
			case "len", "cap":
				if len(t.Args) == 1 && t.Ellipsis == token.NoPos {
					x, k := f.expr(t.Args[0], sc)
					if k == "bytes" || (k == "str" && fun.Name == "len") {
						return lh("E."+fun.Name, x), "int"
					}
				}
				return bad()
			case "make":
				if len(t.Args) == 2 && t.Ellipsis == token.NoPos && c.kind(t.Args[0]) == "bytes" {
					n, kn := f.expr(t.Args[1], sc)
					n, kn = ryCoerce(n, kn, "int")
					if ryIsInt(kn) {
						return lh("E.makeBytes", n), "bytes"
					}
				}
				return bad()
			case "append":
				if len(t.Args) != 2 {
					return bad()
				}
				// the site is numbered before the arguments are translated (text order)
				site := c.sites
				c.sites++
				b, kb := f.expr(t.Args[0], sc)
				x, kx := f.expr(t.Args[1], sc)
				if kb != "bytes" {
					return bad()
				}
				if t.Ellipsis != token.NoPos {
					if kx == "str" || kx == "bytes" {
						return lh("E.appendS", rynat(site), b, x), "bytes"
					}
					return bad()
				}
				x, kx = ryCoerce(x, kx, "u8")
				if kx == "u8" {
					return lh("E.append1", rynat(site), b, x), "bytes"
				}
				return bad()
			}
		}
		if t.Ellipsis != token.NoPos {
			return bad()
		}
		if !declaredType {
			if to := c.kind(fun); ryIsInt(to) && len(t.Args) == 1 {
				x, k := f.expr(t.Args[0], sc)
				if k == "const" {
					if y, ky := ryCoerce(x, k, to); ky == to {
						return y, to
					}
					return bad()
				}
				if ryIsInt(k) {
					w := lh(strconv.Itoa(ryInt[to].w))
					if ryInt[to].signed {
						return lh("E.toI", w, x), to
					}
					return lh("E.toU", w, x), to
				}
				return bad()
			}
		}
		fd, ok := c.fns[fun.Name]
		if !ok || fd.Recv != nil || c.isAssert(fd) {
			return bad()
		}
		return f.callFn(fd, nil, "", t, sc)
	case *ast.SelectorExpr:
		if t.Ellipsis != token.NoPos {
			return bad()
		}
		if id, ok := unparen(fun.X).(*ast.Ident); ok && sc.lookup(id.Name) == nil {
			switch c.imports[id.Name] {
			case "math/bits":
				var as []*lt
				for _, a := range t.Args {
					x, k := f.expr(a, sc)
					x, k = ryCoerce(x, k, "u64")
					if k != "u64" {
						return bad()
					}
					as = append(as, x)
				}
				switch {
				case fun.Sel.Name == "Mul64" && len(as) == 2:
					return lh("E.mul64", as[0], as[1]), "u64,u64"
				case fun.Sel.Name == "LeadingZeros64" && len(as) == 1:
					return lh("E.lz64", as[0]), "int"
				case fun.Sel.Name == "TrailingZeros64" && len(as) == 1:
					return lh("E.tz64", as[0]), "int"
				}
			case "math":
				if fun.Sel.Name == "Float64bits" && len(t.Args) == 1 {
					if x, k := f.expr(t.Args[0], sc); k == "f64" {
						return lh("E.f64bits", x), "u64"
					}
				}
			}
			return bad()
		}
		// a method of the decimal struct, called on a value
		x, kx := f.expr(fun.X, sc)
		if kx == "dec" && c.roleType["dec"] != "" && c.roleType["dec"] != "?" {
			if fd, ok := c.fns[c.roleType["dec"]+"."+fun.Sel.Name]; ok && fd.Recv != nil {
				return f.callFn(fd, x, kx, t, sc)
			}
		}
	}
	return bad()
}

// a call of a translated function (recv: the receiver of a method with a value receiver)
func (f *ryFn) callFn(fd *ast.FuncDecl, recv *lt, recvKind string, t *ast.CallExpr, sc *ryScope) (*lt, string) {
	c := f.c
	bad := func() (*lt, string) { return ryeop(t), "?" }
	want := c.kindsOf(fd.Type.Params)
	res := c.kindsOf(fd.Type.Results)
	if fd.Type.Params != nil {
		for _, fl := range fd.Type.Params.List {
			if _, variadic := fl.Type.(*ast.Ellipsis); variadic {
				return bad()
			}
		}
	}
	var as []*lt
	if recv != nil {
		if len(fd.Recv.List) != 1 || c.kind(fd.Recv.List[0].Type) != recvKind {
			return bad()
		}
		as = append(as, recv)
	}
	if len(t.Args) != len(want) || len(res) < 1 || len(res) > 2 {
		return bad()
	}
	for i, a := range t.Args {
		x, k := f.expr(a, sc)
		x, k = ryCoerce(x, k, want[i])
		if k != want[i] || !ryStorable(k) {
			return bad()
		}
		as = append(as, x)
	}
	for _, k := range res {
		if !ryStorable(k) {
			return bad()
		}
	}
	if len(as) < 1 || len(as) > 4 {
		return bad()
	}
	id := c.use(fd)
	head := []string{"", "E.call1", "E.call2", "E.call3", "E.call4"}[len(as)]
	return lh(head, append([]*lt{rynat(id)}, as...)...), strings.Join(res, ",")
}

// ---------------------------------------------------------------------------------------------------------------------
// statements

func ryZero(kind string) *lt {
	switch kind {
	case "bool":
		return lh("E.bool", lh("false"))
	case "u128":
		return lh("E.mk2", ryLit("u64", big.NewInt(0)), ryLit("u64", big.NewInt(0)))
	case "dec":
		return lh("E.mk2", ryLit("u64", big.NewInt(0)), ryLit("i32", big.NewInt(0)))
	}
	if ryIsInt(kind) {
		return ryLit(kind, big.NewInt(0))
	}
	return nil
}

func ryStorable(k string) bool {
	return k == "bool" || k == "u128" || k == "dec" || k == "bytes" || k == "f64" || ryIsInt(k)
}

func (f *ryFn) declare(sc *ryScope, name, kind string) *ryVar {
	v := &ryVar{id: f.next, kind: kind}
	f.next++
	if name != "_" && name != "" {
		sc.vars[name] = v
	}
	return v
}

func (f *ryFn) stmts(list []ast.Stmt, sc *ryScope) []*lt {
	var out []*lt
	for _, st := range list {
		out = append(out, f.stmt(st, sc)...)
	}
	return out
}

// `{ … }`: the variables declared inside end with the block
func (f *ryFn) blockOf(b *ast.BlockStmt, sc *ryScope) *lt {
	if b == nil {
		return ryscope(nil)
	}
	saved := f.next
	items := f.stmts(b.List, sc.push())
	f.next = saved
	return ryscope(items)
}

func (f *ryFn) elseOf(e ast.Stmt, sc *ryScope) *lt {
	switch x := e.(type) {
	case nil:
		return ryscope(nil)
	case *ast.BlockStmt:
		return f.blockOf(x, sc)
	case *ast.IfStmt:
		saved := f.next
		items := f.stmt(x, sc.push())
		f.next = saved
		return ryscope(items)
	}
	return ryscope([]*lt{rysop(e)})
}

// `x` or `x.f` for a variable x: (variable, field index or -1, kind of the place)
func (f *ryFn) place(e ast.Expr, sc *ryScope) (*ryVar, int, string) {
	switch l := unparen(e).(type) {
	case *ast.Ident:
		if v := sc.lookup(l.Name); v != nil && ryStorable(v.kind) {
			return v, -1, v.kind
		}
	case *ast.SelectorExpr:
		if id, ok := unparen(l.X).(*ast.Ident); ok {
			if v := sc.lookup(id.Name); v != nil && (v.kind == "u128" || v.kind == "dec") {
				if i, k := f.c.fieldIndex(v.kind, l.Sel.Name); i >= 0 && k != "?" {
					return v, i, k
				}
			}
		}
	}
	return nil, -1, "?"
}

func (f *ryFn) store(v *ryVar, field int, x *lt) *lt {
	if field < 0 {
		return lh("S.assign", rynat(v.id), x)
	}
	return lh("S.setField", rynat(v.id), rynat(field), x)
}

func (f *ryFn) load(v *ryVar, field int) *lt {
	if field < 0 {
		return ryvar(v)
	}
	return lh("E.field", ryvar(v), rynat(field))
}

func (f *ryFn) assign(s *ast.AssignStmt, sc *ryScope) []*lt {
	bad := []*lt{rysop(s)}
	isNew := func(e ast.Expr) (string, bool) {
		id, ok := e.(*ast.Ident)
		if !ok {
			return "", false
		}
		if _, here := sc.vars[id.Name]; here && id.Name != "_" {
			return "", false
		}
		return id.Name, true
	}
	switch {
	case s.Tok == token.DEFINE && len(s.Lhs) == 2 && len(s.Rhs) == 1:
		// a, b := <two values>
		a, ok1 := isNew(s.Lhs[0])
		b, ok2 := isNew(s.Lhs[1])
		x, k := f.expr(s.Rhs[0], sc)
		ks := strings.Split(k, ",")
		if !ok1 || !ok2 || len(ks) != 2 || !ryStorable(ks[0]) || !ryStorable(ks[1]) || (a == b && a != "_") {
			return bad
		}
		opt := func(name, kind string) *lt {
			if name == "_" {
				return lh("none")
			}
			return lh("some", rynat(f.declare(sc, name, kind).id))
		}
		va := opt(a, ks[0])
		vb := opt(b, ks[1])
		return []*lt{lh("S.define2", va, vb, x)}
	case s.Tok == token.DEFINE && len(s.Lhs) == len(s.Rhs):
		// a, b, … := x, y, …: the right-hand sides are translated before any of the names is declared
		var xs []*lt
		var ks, names []string
		for i := range s.Lhs {
			n, ok := isNew(s.Lhs[i])
			if !ok || n == "_" {
				return bad
			}
			x, k := f.expr(s.Rhs[i], sc)
			if k == "const" {
				x, k = ryCoerce(x, k, "int")
			}
			if !ryStorable(k) {
				return bad
			}
			for _, m := range names {
				if m == n {
					return bad
				}
			}
			xs, ks, names = append(xs, x), append(ks, k), append(names, n)
		}
		var out []*lt
		for i := range xs {
			v := f.declare(sc, names[i], ks[i])
			out = append(out, lh("S.define", rynat(v.id), xs[i]))
		}
		return out
	case len(s.Lhs) == 1 && len(s.Rhs) == 1 && s.Tok == token.ASSIGN && isIndexOfVar(s.Lhs[0], sc, "bytes") != nil:
		// b[i] = e
		ix := unparen(s.Lhs[0]).(*ast.IndexExpr)
		v := isIndexOfVar(s.Lhs[0], sc, "bytes")
		i, ki := f.expr(ix.Index, sc)
		i, ki = ryCoerce(i, ki, "int")
		x, kx := f.expr(s.Rhs[0], sc)
		x, kx = ryCoerce(x, kx, "u8")
		if !ryIsInt(ki) || kx != "u8" {
			return bad
		}
		return []*lt{lh("S.setIndex", rynat(v.id), i, x)}
	case len(s.Lhs) == 1 && len(s.Rhs) == 1:
		v, field, k := f.place(s.Lhs[0], sc)
		if v == nil {
			return bad
		}
		if s.Tok == token.ASSIGN {
			x, kx := f.expr(s.Rhs[0], sc)
			x, kx = ryCoerce(x, kx, k)
			if kx != k {
				return bad
			}
			return []*lt{f.store(v, field, x)}
		}
		if op, ok := ryAssignOp[s.Tok]; ok {
			x, kx := f.binary(op, s.Lhs[0], s.Rhs[0], s, sc)
			if kx != k {
				return bad
			}
			return []*lt{f.store(v, field, x)}
		}
	}
	return bad
}

func (f *ryFn) stmt(st ast.Stmt, sc *ryScope) []*lt {
	c := f.c
	switch s := st.(type) {
	case *ast.EmptyStmt:
		return nil
	case *ast.BlockStmt:
		return []*lt{f.blockOf(s, sc)}
	case *ast.ReturnStmt:
		var xs []*lt
		if len(s.Results) == 0 && len(f.retVars) == len(f.rets) && len(f.rets) > 0 {
			for _, v := range f.retVars {
				if sc.lookup(nameOfVar(f.funScope, v)) != v {
					return []*lt{rysop(s)}
				}
				xs = append(xs, ryvar(v))
			}
		} else {
			if len(s.Results) != len(f.rets) || len(f.rets) == 0 {
				return []*lt{rysop(s)}
			}
			for i, r := range s.Results {
				x, k := f.expr(r, sc)
				x, k = ryCoerce(x, k, f.rets[i])
				if k != f.rets[i] || !ryStorable(k) {
					return []*lt{rysop(s)}
				}
				xs = append(xs, x)
			}
		}
		switch len(xs) {
		case 1:
			return []*lt{lh("S.ret", xs[0])}
		case 2:
			return []*lt{lh("S.ret", lh("E.mk2", xs[0], xs[1]))}
		}
	case *ast.IfStmt:
		if s.Init != nil {
			break
		}
		cond, k := f.expr(s.Cond, sc)
		if k != "bool" {
			break
		}
		return []*lt{lh("S.ite", cond, f.blockOf(s.Body, sc), f.elseOf(s.Else, sc))}
	case *ast.ForStmt:
		saved := f.next
		inner := sc.push()
		one := func(x ast.Stmt) *lt {
			if x == nil {
				return ryblock(nil)
			}
			return ryblock(f.stmt(x, inner))
		}
		init := one(s.Init)
		cond := lh("E.bool", lh("true"))
		if s.Cond != nil {
			x, k := f.expr(s.Cond, inner)
			if k != "bool" {
				f.next = saved
				return []*lt{rysop(s)}
			}
			cond = x
		}
		f.inLoop++
		body := f.blockOf(s.Body, inner)
		f.inLoop--
		n := f.next
		post := one(s.Post)
		if f.next != n {
			// a post statement does not declare
			post = ryblock([]*lt{rysop(s.Post)})
		}
		f.next = saved
		return []*lt{lh("S.for", init, cond, post, body)}
	case *ast.BranchStmt:
		if s.Tok == token.BREAK && s.Label == nil && f.inLoop > 0 {
			return []*lt{lh("S.brk")}
		}
	case *ast.AssignStmt:
		return f.assign(s, sc)
	case *ast.IncDecStmt:
		v, field, k := f.place(s.X, sc)
		if v == nil || !ryIsInt(k) {
			break
		}
		op := "AOp.add"
		if s.Tok == token.DEC {
			op = "AOp.sub"
		}
		return []*lt{f.store(v, field, lh("E.bin", lh(op), f.load(v, field), ryLit(k, big.NewInt(1))))}
	case *ast.ExprStmt:
		// assert(c, "msg")
		call, ok := unparen(s.X).(*ast.CallExpr)
		if !ok || len(call.Args) != 2 {
			break
		}
		id, ok := unparen(call.Fun).(*ast.Ident)
		if !ok || sc.lookup(id.Name) != nil {
			break
		}
		fd, ok := c.fns[id.Name]
		if !ok || !c.isAssert(fd) {
			break
		}
		if bl, ok := unparen(call.Args[1]).(*ast.BasicLit); !ok || bl.Kind != token.STRING {
			break
		}
		x, k := f.expr(call.Args[0], sc)
		if k != "bool" {
			break
		}
		return []*lt{lh("S.assert", x)}
	case *ast.DeclStmt:
		gd, ok := s.Decl.(*ast.GenDecl)
		if !ok || gd.Tok != token.VAR {
			break
		}
		var out []*lt
		for _, sp := range gd.Specs {
			vs, ok := sp.(*ast.ValueSpec)
			if !ok || vs.Type == nil || len(vs.Values) > 0 && len(vs.Values) != len(vs.Names) {
				return []*lt{rysop(s)}
			}
			k := c.kind(vs.Type)
			if !ryStorable(k) {
				return []*lt{rysop(s)}
			}
			var xs []*lt
			for i := range vs.Names {
				x := ryZero(k)
				if len(vs.Values) > 0 {
					y, ky := f.expr(vs.Values[i], sc)
					y, ky = ryCoerce(y, ky, k)
					if ky != k {
						return []*lt{rysop(s)}
					}
					x = y
				}
				xs = append(xs, x)
			}
			for i, n := range vs.Names {
				if _, here := sc.vars[n.Name]; here && n.Name != "_" {
					return []*lt{rysop(s)}
				}
				v := f.declare(sc, n.Name, k)
				out = append(out, lh("S.define", rynat(v.id), xs[i]))
			}
		}
		return out
	}
	return []*lt{rysop(st)}
}

// `x[i]` for a variable x of the kind given
func isIndexOfVar(e ast.Expr, sc *ryScope, kind string) *ryVar {
	ix, ok := unparen(e).(*ast.IndexExpr)
	if !ok {
		return nil
	}
	id, ok := unparen(ix.X).(*ast.Ident)
	if !ok {
		return nil
	}
	if v := sc.lookup(id.Name); v != nil && v.kind == kind {
		return v
	}
	return nil
}

func nameOfVar(sc *ryScope, v *ryVar) string {
	for n, w := range sc.vars {
		if w == v {
			return n
		}
	}
	return ""
}

func (c *ryCtx) translate(fd *ast.FuncDecl) string {
	f := &ryFn{c: c, fd: fd}
	sc := &ryScope{vars: map[string]*ryVar{}}
	f.funScope = sc
	bad := false
	if fd.Recv != nil {
		// a value receiver is the first parameter
		if len(fd.Recv.List) != 1 || len(fd.Recv.List[0].Names) > 1 || !ryStorable(c.kind(fd.Recv.List[0].Type)) {
			bad = true
		} else if len(fd.Recv.List[0].Names) == 1 {
			f.declare(sc, fd.Recv.List[0].Names[0].Name, c.kind(fd.Recv.List[0].Type))
		} else {
			f.declare(sc, "_", c.kind(fd.Recv.List[0].Type))
		}
	}
	if fd.Type.Params != nil {
		for _, fld := range fd.Type.Params.List {
			k := c.kind(fld.Type)
			if !ryStorable(k) {
				bad = true
			}
			if len(fld.Names) == 0 {
				f.declare(sc, "_", k)
			}
			for _, n := range fld.Names {
				f.declare(sc, n.Name, k)
			}
		}
	}
	params := f.next
	f.rets = c.kindsOf(fd.Type.Results)
	var body []*lt
	if fd.Type.Results != nil {
		for _, fld := range fd.Type.Results.List {
			k := c.kind(fld.Type)
			for _, n := range fld.Names {
				z := ryZero(k)
				if z == nil {
					bad = true
					continue
				}
				v := f.declare(sc, n.Name, k)
				f.retVars = append(f.retVars, v)
				body = append(body, lh("S.define", rynat(v.id), z))
			}
		}
	}
	if bad {
		body = []*lt{ls("S.opaque", "signature: "+src(fd.Type))}
	} else {
		body = append(body, f.stmts(fd.Body.List, sc)...)
	}
	return fmt.Sprintf("{ params := %d, body := %s }", params, ryblock(body).lean())
}

// the three roots, through the public AppendFloat64f
func (c *ryCtx) roots() {
	pub, ok := c.fns["AppendFloat64f"]
	if !ok || pub.Recv != nil {
		return
	}
	var exact, general, method *ast.FuncDecl
	ast.Inspect(pub.Body, func(n ast.Node) bool {
		call, ok := n.(*ast.CallExpr)
		if !ok {
			return true
		}
		switch fun := unparen(call.Fun).(type) {
		case *ast.Ident:
			if fd, ok := c.fns[fun.Name]; ok && fd.Recv == nil {
				switch c.sig(fd) {
				case "u64,u64→dec,bool":
					if exact == nil {
						exact = fd
					}
				case "u64,u64→dec":
					if general == nil {
						general = fd
					}
				}
			}
		case *ast.SelectorExpr:
			if fd, ok := c.fns[c.roleType["dec"]+"."+fun.Sel.Name]; ok && method == nil && c.roleType["dec"] != "" {
				method = fd
			}
		}
		return true
	})
	var length *ast.FuncDecl
	if method != nil {
		ast.Inspect(method.Body, func(n ast.Node) bool {
			if call, ok := n.(*ast.CallExpr); ok && length == nil {
				if id, ok := unparen(call.Fun).(*ast.Ident); ok {
					if fd, ok := c.fns[id.Name]; ok && fd.Recv == nil && c.sig(fd) == "u64→int" {
						length = fd
					}
				}
			}
			return true
		})
	}
	if exact == nil || general == nil || length == nil || exact == general {
		return
	}
	c.use(exact)
	c.use(general)
	c.use(length)
	c.use(pub)
}

func ryuFnsLean(repo string) string {
	files := parseDir(filepath.Join(repo, "internal", "ryu"))
	c := &ryCtx{files: files, fns: funcDecls(files), types: typeDecls(files), imports: importsOf(files), ids: map[*ast.FuncDecl]int{}}
	c.scanTypes()
	c.roots()
	for i := 0; i < len(c.queue); i++ {
		c.bodies = append(c.bodies, c.translate(c.queue[i]))
	}
	var b strings.Builder
	b.WriteString("/- GENERATED on every run by /verif/go/cmd/extract from /repo's source (tie T1). Do not edit. -/\nimport QF.Core.RYExpr\nnamespace QF.Gen\nopen QF.RY\n\n")
	b.WriteString("/-- the Ryu core (`float64ToDecimalExactInt`, `float64ToDecimal`, `decimalLen64` and the helpers they call: `mulShift64`,\n`shiftRight128`, `pow5Factor64`, `multipleOfPowerOfFive64`, `multipleOfPowerOfTwo64`, `log10Pow2`, `log10Pow5`, `pow5Bits`, `boolTo…` of\ninternal/ryu) translated statement by statement to the language `QF.RY`, by role: (number in the order of discovery, term) -/\n")
	b.WriteString("def ryuFns : List (FnId × Fn) := [\n")
	var items []string
	for i, body := range c.bodies {
		items = append(items, fmt.Sprintf("  (%d, %s)", i, body))
	}
	b.WriteString(strings.Join(items, ",\n") + "]\n\n")
	b.WriteString("/-- the package-level array of `uint64` the translated functions index (`Tbl.pow10`) -/\ndef ryuPow10 : List Nat := [" + strings.Join(c.pow10, ", ") + "]\n\nend QF.Gen\n")
	return b.String()
}
