package main

// Translation go/ast → L* (lean/QF/Core/LExpr.lean) of the per-row LOOPS of Apply and Aggregate:
//
//	func (c Column) Apply1(fn interface{}, ix index.Int) (interface{}, error)                      five column packages → LFn
//	func (c Column) Apply2(fn interface{}, s2 column.Column, ix index.Int) (column.Column, error)  five column packages → LFn
//	func (qf QFrame) apply0(fn types.DataFuncOrBuiltInId, dstCol string) QFrame                    qframe.go → LFn (after its guard)
//	func (qf QFrame) apply1(…)                                                                      the switch on the slice type → LWrap
//	func (c Column) Aggregate(indices []index.Int, fn interface{}) (column.Column, error)          five column packages → LGFn
//	func (g Grouper) Aggregate(aggs ...Aggregation) QFrame                                         grouper.go, the key columns and the group loop → LGTail (Subset: LGSub)
//
// Everything is found and named by ROLE, never by identifier. Functions are found by their signature's role in the
// `column.Column` interface (their exported names are the interface's vocabulary); inside a function:
//
//   - the receiver is the column (`recv`); the parameter of an empty interface type (or of a named interface type of
//     package types) is the function value; the parameter of type `index.Int` the index, of type `[]index.Int` the
//     groups; a parameter of type `column.Column` the second column, which gets the role `other` only through the type
//     assertion to the package's `Column`;
//   - in `for k, v := range <index>` the key is the POSITION, the value the ROW;
//   - the cell array of a package is the field whose `len` its `Len()` returns; the element type decides what an element
//     is: `int`/`float64`/`bool` a raw cell, `qfstrings.Pointer` the pointer of a string cell, a named integer type of the
//     package (`enumVal`) the code of an enum cell;
//   - helpers between the cell array and the function argument (`stringToPtr(c.stringAt(i))`, `c.stringPtrAt(i)`,
//     `c.subsetWithBuf(ix, &buf)`, `c.stringSlice(ix)`) are executed symbolically with the callee's body inlined, whatever
//     they are called.
//
// Fixed vocabulary (as in oast.go): the field names `data`, `pointers`, `values`; `Pointer.IsNull/Offset/Len`;
// `enumVal.isNull`; the builtins `make`, `len`, `cap`, `append`, `string`; package qerrors (an error value), `Copy`, `Subset`.
// Whatever is not understood becomes `.opaque "<text>"`; such a function has no semantics in the model and the proofs of
// QF/Props/C06LoopsGen.lean / C04LoopsGen.lean fail on it.

import (
	"fmt"
	"go/ast"
	"go/token"
	"path/filepath"
	"sort"
	"strconv"
	"strings"
)

// lv is what a Go name or expression stands for during the symbolic execution.
type lv struct {
	// col     a Column value of the package: which = recv | other
	// iface   the second column before its type assertion
	// fnraw   the function value before its type assertion; fn: after it (sig = its LSig); fnconst / fnstr / fnnamed
	// ix      the index; pos / row: the variables of the range over it
	// field   <col>.<name>
	// entry   <col>.<cells>[idx]                     (which, idx)
	// value   <col>.values[<entry which idx>]         (enum)
	// off / plen / offlen: p.Offset(), p.Len(), their sum (which, idx)
	// bytes   <col>.data[off:off+len]; str: the string made of them
	// lit     a string literal (s); bool (b); nil; int (n)
	// null    the null flag of the cell (which, idx)
	// acc     a function argument: an LAcc over the cell (which, idx)
	// tuple   several values
	// ifnull  a decision on the null flag of the cell (which, idx): t / e
	// result  the result slice; data: apply0's interface variable; len: an LLen term
	// unknown
	kind  string
	which string
	idx   string
	name  string
	s     string
	b     bool
	n     int
	t     *lt
	tuple []*lv
	th    *lv
	el    *lv
	sig   *lt
	// part B
	// slice    a slice under construction: init = empty | full | "", over = group | groups (what `full` refers to),
	//          write = "" | append | set:pos | set:row, elem = the element (a value tree)
	// colOf    Column{<cells>: sl, <keeps…>: <recv>.<same field>}
	// buf      a buffer variable (`var buf []T`); bufptr: its address
	// group    one group (an index.Int); groups: the list of groups; grouprow: <group>[n]
	// aggf     the aggregating function (src = LGSrc term); aggcall: its call on the slice sl
	// effect   `name[idx] = val` / `name = append(name, val)` (write, el = val)
	init  string
	over  string
	write string
	sl    *lv
	keeps []string
}

func lunknown() *lv { return &lv{kind: "unknown"} }

type lscope struct {
	vars   map[string]*lv
	parent *lscope
}

func newLscope(parent *lscope) *lscope { return &lscope{vars: map[string]*lv{}, parent: parent} }

func (s *lscope) get(n string) (*lv, bool) {
	for c := s; c != nil; c = c.parent {
		if v, ok := c.vars[n]; ok {
			return v, true
		}
	}
	return nil, false
}

func (s *lscope) bound(n string) bool { _, ok := s.get(n); return ok }

// flat copy (helpers fork the execution at a decision on a null flag)
func (s *lscope) clone() *lscope {
	r := newLscope(nil)
	var chain []*lscope
	for c := s; c != nil; c = c.parent {
		chain = append(chain, c)
	}
	for i := len(chain) - 1; i >= 0; i-- {
		for k, v := range chain[i].vars {
			r.vars[k] = v
		}
	}
	return r
}

// set assigns to an existing variable
func (s *lscope) set(n string, v *lv) bool {
	for c := s; c != nil; c = c.parent {
		if _, ok := c.vars[n]; ok {
			c.vars[n] = v
			return true
		}
	}
	return false
}

type lctx struct {
	repo       string
	module     string
	pkg        string
	files      map[string]*ast.File
	fns        map[string]*ast.FuncDecl
	imports    map[string]string
	types      map[string]ast.Expr
	cellsField string // the field whose len Len() returns
	entryKind  string // raw | pointer | code
	elemType   string // the element type of the cell array as source text
	other      map[string]map[string]*ast.FuncDecl
	otherTypes map[string]map[string]ast.Expr
	depth      int
	ixField    string // apply0: the frame's field of type index.Int
	colsField  string // … of type []namedColumn
}

func newLctx(repo, pkg, dir string) *lctx {
	files := parseDir(dir)
	c := &lctx{repo: repo, module: modulePath(repo), pkg: pkg, files: files, fns: funcDecls(files), imports: importsOf(files),
		types: typeDecls(files), other: map[string]map[string]*ast.FuncDecl{}, otherTypes: map[string]map[string]ast.Expr{}}
	c.findCells()
	return c
}

// the directory of a package of the repository named by a local import name
func (c *lctx) repoPkg(local string) (string, bool) {
	p, ok := c.imports[local]
	if !ok || c.module == "" || !strings.HasPrefix(p, c.module+"/") {
		return "", false
	}
	return strings.TrimPrefix(p, c.module+"/"), true
}

func (c *lctx) otherFns(rel string) map[string]*ast.FuncDecl {
	if f, ok := c.other[rel]; ok {
		return f
	}
	files := parseDir(filepath.Join(c.repo, filepath.FromSlash(rel)))
	c.other[rel] = funcDecls(files)
	c.otherTypes[rel] = typeDecls(files)
	return c.other[rel]
}

// is `e` the selector <pkg>.<name> for an import whose path ends in suffix?
func (c *lctx) pkgSel(e ast.Expr, sc *lscope, suffix string) (string, bool) {
	sel, ok := unparen(e).(*ast.SelectorExpr)
	if !ok {
		return "", false
	}
	id, ok := sel.X.(*ast.Ident)
	if !ok || (sc != nil && sc.bound(id.Name)) {
		return "", false
	}
	p, ok := c.imports[id.Name]
	if !ok || !(p == suffix || strings.HasSuffix(p, "/"+suffix)) {
		return "", false
	}
	return sel.Sel.Name, true
}

// findCells: `func (c Column) Len() int { return len(c.<field>) }` and the element type of that field
func (c *lctx) findCells() {
	fd, ok := c.fns["Column.Len"]
	if !ok || len(fd.Body.List) != 1 || fd.Recv == nil || len(fd.Recv.List) != 1 || len(fd.Recv.List[0].Names) != 1 {
		return
	}
	r, ok := fd.Body.List[0].(*ast.ReturnStmt)
	if !ok || len(r.Results) != 1 {
		return
	}
	call, ok := unparen(r.Results[0]).(*ast.CallExpr)
	if !ok || identName(call.Fun) != "len" || len(call.Args) != 1 {
		return
	}
	sel, ok := unparen(call.Args[0]).(*ast.SelectorExpr)
	if !ok || identName(sel.X) != fd.Recv.List[0].Names[0].Name {
		return
	}
	st, ok := c.types["Column"].(*ast.StructType)
	if !ok {
		return
	}
	for _, fl := range st.Fields.List {
		for _, n := range fl.Names {
			if n.Name != sel.Sel.Name {
				continue
			}
			at, ok := fl.Type.(*ast.ArrayType)
			if !ok || at.Len != nil {
				return
			}
			c.cellsField = n.Name
			c.elemType = src(at.Elt)
			switch el := at.Elt.(type) {
			case *ast.Ident:
				switch el.Name {
				case "int", "float64", "bool":
					c.entryKind = "raw"
				default:
					// a named integer type of the package with a zero-argument bool method
					if _, ok := c.types[el.Name].(*ast.Ident); ok {
						c.entryKind = "code"
					}
				}
			case *ast.SelectorExpr:
				if name, ok := c.pkgSel(el, nil, "strings"); ok && name == "Pointer" {
					c.entryKind = "pointer"
				}
			}
		}
	}
}

func goElemType(e ast.Expr) (string, bool) {
	switch src(e) {
	case "int":
		return "CType.int", true
	case "float64":
		return "CType.float", true
	case "bool":
		return "CType.bool", true
	case "*string":
		return "CType.string", true
	}
	return "", false
}

// sigOf names a type of the type switch
func (c *lctx) sigOf(e ast.Expr) *lt {
	other := func() *lt { return ls("LSig.other", src(e)) }
	if ct, ok := goElemType(e); ok {
		return lh("LSig.const", lh(ct))
	}
	switch t := unparen(e).(type) {
	case *ast.Ident:
		if t.Name == "string" {
			return lh("LSig.str")
		}
	case *ast.SelectorExpr:
		// a named string type of another package of the repository
		if id, ok := t.X.(*ast.Ident); ok {
			if rel, ok := c.repoPkg(id.Name); ok {
				c.otherFns(rel)
				if u, ok := c.otherTypes[rel][t.Sel.Name].(*ast.Ident); ok && u.Name == "string" {
					return lh("LSig.named")
				}
			}
		}
	case *ast.FuncType:
		if t.Results == nil || len(t.Results.List) != 1 || len(t.Results.List[0].Names) > 1 {
			return other()
		}
		res, ok := goElemType(t.Results.List[0].Type)
		if !ok {
			return other()
		}
		var args []*lt
		if t.Params != nil {
			for _, p := range t.Params.List {
				n := len(p.Names)
				if n == 0 {
					n = 1
				}
				if at, ok := p.Type.(*ast.ArrayType); ok && at.Len == nil && len(t.Params.List) == 1 && n == 1 {
					if a, ok := goElemType(at.Elt); ok {
						return lh("LSig.aggFn", lh(a), lh(res))
					}
					return other()
				}
				a, ok := goElemType(p.Type)
				if !ok {
					return other()
				}
				for i := 0; i < n; i++ {
					args = append(args, lh(a))
				}
			}
		}
		return lh("LSig.fn", ll(args), lh(res))
	}
	return other()
}

// ---------------------------------------------------------------------------------------------------------------------
// symbolic evaluation of expressions and of helper bodies

func (c *lctx) isErrExpr(e ast.Expr, sc *lscope) bool {
	call, ok := unparen(e).(*ast.CallExpr)
	if !ok {
		return false
	}
	_, ok = c.pkgSel(call.Fun, sc, "qerrors")
	return ok
}

// mapLeaves applies f to every leaf of a decision tree
func mapLeaves(v *lv, f func(*lv) *lv) *lv {
	if v.kind == "ifnull" {
		return &lv{kind: "ifnull", which: v.which, idx: v.idx, th: mapLeaves(v.th, f), el: mapLeaves(v.el, f)}
	}
	return f(v)
}

func (c *lctx) eval(e ast.Expr, sc *lscope) *lv {
	switch t := unparen(e).(type) {
	case *ast.Ident:
		if v, ok := sc.get(t.Name); ok {
			return v
		}
		switch t.Name {
		case "nil":
			return &lv{kind: "nil"}
		case "true":
			return &lv{kind: "bool", b: true}
		case "false":
			return &lv{kind: "bool", b: false}
		}
	case *ast.BasicLit:
		switch t.Kind {
		case token.STRING:
			if s, err := strconv.Unquote(t.Value); err == nil {
				return &lv{kind: "lit", s: s}
			}
		case token.INT:
			if n, err := strconv.Atoi(t.Value); err == nil {
				return &lv{kind: "int", n: n}
			}
		}
	case *ast.SelectorExpr:
		if x := c.eval(t.X, sc); x.kind == "col" {
			return &lv{kind: "field", which: x.which, name: t.Sel.Name}
		} else if x.kind == "colOf" && t.Sel.Name == c.cellsField {
			return x.sl
		} else if x.kind == "frame" && c.ixField != "" && t.Sel.Name == c.ixField {
			return &lv{kind: "ix"}
		}
	case *ast.IndexExpr:
		x, i := c.eval(t.X, sc), c.eval(t.Index, sc)
		switch {
		case x.kind == "field" && x.name == c.cellsField && (i.kind == "row" || i.kind == "pos" || i.kind == "elem"):
			return &lv{kind: "entry", which: x.which, idx: i.kind, t: i.t}
		case x.kind == "field" && x.name == "values" && c.entryKind == "code" && i.kind == "entry" && i.which == x.which:
			return &lv{kind: "value", which: i.which, idx: i.idx, t: i.t}
		case x.kind == "group" && i.kind == "int" && i.n >= 0:
			return &lv{kind: "grouprow", n: i.n}
		}
	case *ast.BinaryExpr:
		if t.Op == token.ADD {
			if a, b := c.eval(t.X, sc), c.eval(t.Y, sc); a.kind == "off" && b.kind == "plen" && a.which == b.which && a.idx == b.idx {
				return &lv{kind: "offlen", which: a.which, idx: a.idx, t: a.t}
			}
		}
	case *ast.SliceExpr:
		if !t.Slice3 && t.Low == nil && t.High != nil {
			// <buffer>[:0]: an empty slice
			if x, hi := c.eval(t.X, sc), c.eval(t.High, sc); (x.kind == "buf" || x.kind == "slice") && hi.kind == "int" && hi.n == 0 {
				return &lv{kind: "slice", init: "empty"}
			}
			break
		}
		if t.Slice3 || t.Low == nil || t.High == nil {
			break
		}
		x, lo, hi := c.eval(t.X, sc), c.eval(t.Low, sc), c.eval(t.High, sc)
		if x.kind == "field" && x.name == "data" && c.entryKind == "pointer" && lo.kind == "off" && hi.kind == "offlen" &&
			lo.which == x.which && hi.which == x.which && lo.idx == hi.idx {
			return &lv{kind: "bytes", which: x.which, idx: lo.idx, t: lo.t}
		}
	case *ast.UnaryExpr:
		switch t.Op {
		case token.AND:
			switch x := c.eval(t.X, sc); x.kind {
			case "str":
				return &lv{kind: "acc", which: x.which, idx: x.idx, t: lh("LAcc.addrStr"), sig: x.t}
			case "value":
				return &lv{kind: "acc", which: x.which, idx: x.idx, t: lh("LAcc.addrValue"), sig: x.t}
			case "lit":
				return &lv{kind: "acc", t: lh("LAcc.addrLit", bytesTerm(x.s))}
			case "fnstr":
				return &lv{kind: "addrfn"}
			case "buf":
				return &lv{kind: "bufptr", name: x.name}
			}
		case token.NOT:
			if x := c.eval(t.X, sc); x.kind == "bool" {
				return &lv{kind: "bool", b: !x.b}
			} else if x.kind == "null" {
				return &lv{kind: "notnull", which: x.which, idx: x.idx, t: x.t}
			}
		}
	case *ast.StarExpr:
		if x := c.eval(t.X, sc); x.kind == "bufptr" {
			return &lv{kind: "buf", name: x.name}
		}
	case *ast.CompositeLit:
		// Column{<cells>: <slice>, <field>: <recv>.<field>, …}
		if identName(t.Type) != "Column" || sc.bound("Column") || c.cellsField == "" {
			break
		}
		res := &lv{kind: "colOf"}
		for _, el := range t.Elts {
			kvp, ok := el.(*ast.KeyValueExpr)
			if !ok {
				return lunknown()
			}
			k := identName(kvp.Key)
			v := c.eval(kvp.Value, sc)
			switch {
			case k == c.cellsField && v.kind == "slice":
				res.sl = v
			case k != "" && v.kind == "field" && v.which == "recv" && v.name == k:
				res.keeps = append(res.keeps, k)
			default:
				return lunknown()
			}
		}
		if res.sl != nil {
			sort.Strings(res.keeps)
			return res
		}
	case *ast.CallExpr:
		vs := c.call(t, sc)
		if len(vs) == 1 {
			return vs[0]
		}
		if len(vs) > 1 {
			return &lv{kind: "tuple", tuple: vs}
		}
	}
	return lunknown()
}

// call evaluates a call; helpers of the package are inlined
func (c *lctx) call(t *ast.CallExpr, sc *lscope) []*lv {
	unknown := []*lv{lunknown()}
	// the aggregating function on a slice
	if f := c.eval(t.Fun, sc); len(t.Args) == 1 && (f.kind == "aggf" || (f.kind == "fn" && f.sig != nil && f.sig.head == "LSig.aggFn")) {
		if a := c.eval(t.Args[0], sc); a.kind == "slice" {
			src := f.t
			if f.kind == "fn" {
				src = lh("LGSrc.user")
			}
			return []*lv{{kind: "aggcall", t: src, sl: a}}
		}
		return unknown
	}
	// conversions and builtins
	if id, ok := unparen(t.Fun).(*ast.Ident); ok && !sc.bound(id.Name) {
		switch id.Name {
		case "make":
			// make([]T, n) with n the length of what is ranged over: full; make([]T, 0[, n]): empty
			if len(t.Args) < 2 || len(t.Args) > 3 {
				return unknown
			}
			if _, ok := t.Args[0].(*ast.ArrayType); !ok {
				if n, ok := c.pkgSel(t.Args[0], sc, "index"); !ok || n != "Int" {
					return unknown
				}
			}
			n := c.eval(t.Args[1], sc)
			switch {
			case n.kind == "int" && n.n == 0:
				return []*lv{{kind: "slice", init: "empty"}}
			case n.kind == "len" && len(t.Args) == 2 && n.t.head == "GLen.groupLen":
				return []*lv{{kind: "slice", init: "full", over: "group"}}
			case n.kind == "len" && len(t.Args) == 2 && n.t.head == "GLen.nGroups":
				return []*lv{{kind: "slice", init: "full", over: "groups"}}
			}
			return unknown
		case "cap":
			if len(t.Args) == 1 {
				if x := c.eval(t.Args[0], sc); x.kind == "buf" {
					return []*lv{{kind: "cap", name: x.name}}
				}
			}
			return unknown
		case "string":
			if len(t.Args) == 1 {
				switch x := c.eval(t.Args[0], sc); x.kind {
				case "bytes":
					return []*lv{{kind: "str", which: x.which, idx: x.idx, t: x.t}}
				case "fnnamed":
					return []*lv{{kind: "fnnamedstr"}}
				}
			}
			return unknown
		case "len":
			if len(t.Args) == 1 {
				switch x := c.eval(t.Args[0], sc); {
				case x.kind == "field" && x.which == "recv" && x.name == c.cellsField:
					return []*lv{{kind: "len", t: lh("LLen.recvLen")}}
				case x.kind == "ix":
					return []*lv{{kind: "len", t: lh("LLen.ixLen")}}
				case x.kind == "group":
					return []*lv{{kind: "len", t: lh("GLen.groupLen")}}
				case x.kind == "groups":
					return []*lv{{kind: "len", t: lh("GLen.nGroups")}}
				}
			}
			return unknown
		}
		if fd, ok := c.fns[id.Name]; ok && fd.Recv == nil {
			return c.inline(fd, nil, t.Args, sc)
		}
		return unknown
	}
	sel, ok := unparen(t.Fun).(*ast.SelectorExpr)
	if !ok {
		return unknown
	}
	// a function of another package of the repository that turns bytes into a string: func(b []byte) string
	if id, ok := sel.X.(*ast.Ident); ok && !sc.bound(id.Name) {
		if rel, ok := c.repoPkg(id.Name); ok && len(t.Args) == 1 {
			if fd, ok := c.otherFns(rel)[sel.Sel.Name]; ok && fd.Recv == nil && len(flatTypes(fd.Type.Params)) == 1 &&
				flatTypes(fd.Type.Params)[0] == "[]byte" && len(flatTypes(fd.Type.Results)) == 1 && flatTypes(fd.Type.Results)[0] == "string" {
				if x := c.eval(t.Args[0], sc); x.kind == "bytes" {
					return []*lv{{kind: "str", which: x.which, idx: x.idx, t: x.t}}
				}
			}
		}
		return unknown
	}
	recv := c.eval(sel.X, sc)
	switch recv.kind {
	case "entry":
		if len(t.Args) != 0 {
			return unknown
		}
		switch {
		case c.entryKind == "pointer" && sel.Sel.Name == "IsNull", c.entryKind == "code" && sel.Sel.Name == "isNull":
			return []*lv{{kind: "null", which: recv.which, idx: recv.idx, t: recv.t}}
		case c.entryKind == "pointer" && sel.Sel.Name == "Offset":
			return []*lv{{kind: "off", which: recv.which, idx: recv.idx, t: recv.t}}
		case c.entryKind == "pointer" && sel.Sel.Name == "Len":
			return []*lv{{kind: "plen", which: recv.which, idx: recv.idx, t: recv.t}}
		}
	case "col":
		if fd, ok := c.fns["Column."+sel.Sel.Name]; ok {
			return c.inline(fd, recv, t.Args, sc)
		}
	}
	return unknown
}

// inline executes the body of a helper with its parameters bound to the arguments. A single argument that is a call
// with several results is spread over the parameters (`f(g(x))`).
func (c *lctx) inline(fd *ast.FuncDecl, recv *lv, args []ast.Expr, sc *lscope) []*lv {
	names := paramNames(fd)
	var vals []*lv
	if len(args) == 1 && len(names) > 1 {
		vals = []*lv{c.eval(args[0], sc)}
	} else {
		for _, a := range args {
			vals = append(vals, c.eval(a, sc))
		}
	}
	return c.inlineVals(fd, recv, vals)
}

func (c *lctx) inlineVals(fd *ast.FuncDecl, recv *lv, vals []*lv) []*lv {
	unknown := []*lv{lunknown()}
	if c.depth > 4 || fd.Body == nil {
		return unknown
	}
	names := paramNames(fd)
	run := func(vs []*lv) *lv {
		if len(vs) != len(names) {
			return lunknown()
		}
		inner := newLscope(nil)
		if fd.Recv != nil {
			if recv == nil || len(fd.Recv.List) != 1 || len(fd.Recv.List[0].Names) != 1 {
				return lunknown()
			}
			inner.vars[fd.Recv.List[0].Names[0].Name] = recv
		}
		for i, n := range names {
			if n != "_" {
				inner.vars[n] = vs[i]
			}
		}
		c.depth++
		r := c.execHelper(fd.Body.List, inner)
		c.depth--
		return r
	}
	var res *lv
	if len(vals) == 1 && len(names) > 1 {
		res = mapLeaves(vals[0], func(leaf *lv) *lv {
			if leaf.kind != "tuple" {
				return lunknown()
			}
			return run(leaf.tuple)
		})
	} else {
		for _, v := range vals {
			if v.kind == "ifnull" {
				return unknown // a decision as an argument: not needed today
			}
		}
		res = run(vals)
	}
	if res.kind == "tuple" {
		return res.tuple
	}
	return []*lv{res}
}

// execHelper runs straight-line helper code: definitions, `if <null flag | bool> { … }`, `return`. The result is a value
// or a decision tree over null flags.
func (c *lctx) execHelper(stmts []ast.Stmt, sc *lscope) *lv {
	if len(stmts) == 0 {
		return lunknown()
	}
	rest := stmts[1:]
	switch s := stmts[0].(type) {
	case *ast.RangeStmt:
		// a loop over a group that fills a slice declared before it
		if c.fillLoop(s, sc) {
			return c.execHelper(rest, sc)
		}
		return lunknown()
	case *ast.ReturnStmt:
		if len(s.Results) == 1 {
			return c.eval(s.Results[0], sc)
		}
		var vs []*lv
		for _, r := range s.Results {
			vs = append(vs, c.eval(r, sc))
		}
		return &lv{kind: "tuple", tuple: vs}
	case *ast.AssignStmt:
		if s.Tok != token.DEFINE {
			break
		}
		if len(s.Rhs) == 1 {
			v := c.eval(s.Rhs[0], sc)
			return mapLeaves(v, func(leaf *lv) *lv {
				in := sc.clone()
				if len(s.Lhs) == 1 {
					if n := identName(s.Lhs[0]); n != "" {
						in.vars[n] = leaf
						return c.execHelper(rest, in)
					}
					return lunknown()
				}
				if leaf.kind != "tuple" || len(leaf.tuple) != len(s.Lhs) {
					return lunknown()
				}
				for i, l := range s.Lhs {
					n := identName(l)
					if n == "" {
						return lunknown()
					}
					if n != "_" {
						in.vars[n] = leaf.tuple[i]
					}
				}
				return c.execHelper(rest, in)
			})
		}
		if len(s.Lhs) == len(s.Rhs) {
			in := sc.clone()
			for i, l := range s.Lhs {
				n := identName(l)
				v := c.eval(s.Rhs[i], sc)
				if n == "" || v.kind == "ifnull" {
					return lunknown()
				}
				if n != "_" {
					in.vars[n] = v
				}
			}
			return c.execHelper(rest, in)
		}
	case *ast.IfStmt:
		if s.Init != nil {
			break
		}
		if c.isBufGrow(s, sc) {
			return c.execHelper(rest, sc)
		}
		var els []ast.Stmt
		switch e := s.Else.(type) {
		case nil:
		case *ast.BlockStmt:
			els = e.List
		default:
			return lunknown()
		}
		cond := c.eval(s.Cond, sc)
		thenB := append(append([]ast.Stmt{}, s.Body.List...), rest...)
		elseB := append(append([]ast.Stmt{}, els...), rest...)
		switch cond.kind {
		case "bool":
			if cond.b {
				return c.execHelper(thenB, sc.clone())
			}
			return c.execHelper(elseB, sc.clone())
		case "null":
			return &lv{kind: "ifnull", which: cond.which, idx: cond.idx, t: cond.t, th: c.execHelper(thenB, sc.clone()), el: c.execHelper(elseB, sc.clone())}
		case "notnull":
			return &lv{kind: "ifnull", which: cond.which, idx: cond.idx, t: cond.t, th: c.execHelper(elseB, sc.clone()), el: c.execHelper(thenB, sc.clone())}
		}
	}
	return lunknown()
}

// accOf turns a value into a function argument: the LAcc and the cell it is made of
func accOf(v *lv) (*lt, string, string, bool) {
	switch v.kind {
	case "entry":
		return lh("LAcc.raw"), v.which, v.idx, true
	case "nil":
		return lh("LAcc.nilPtr"), "", "", true
	case "acc":
		return v.t, v.which, v.idx, true
	case "ifnull":
		t, w1, i1, ok1 := accOf(v.th)
		e, w2, i2, ok2 := accOf(v.el)
		if !ok1 || !ok2 {
			return nil, "", "", false
		}
		for _, p := range [][2]string{{w1, i1}, {w2, i2}} {
			if p[0] != "" && (p[0] != v.which || p[1] != v.idx) {
				return nil, "", "", false
			}
		}
		return lh("LAcc.ifNull", t, e), v.which, v.idx, true
	}
	return nil, "", "", false
}

func (c *lctx) argTerm(e ast.Expr, sc *lscope) *lt {
	v := c.eval(e, sc)
	if v.kind == "entry" && c.entryKind != "raw" {
		return ls("LArg.opaque", src(e))
	}
	acc, which, idx, ok := accOf(v)
	if !ok || which == "" || (idx != "row" && idx != "pos") {
		return ls("LArg.opaque", src(e))
	}
	return lh("LArg.cell", lh("LWhich."+which), lh("LIdx."+idx), acc)
}

// ---------------------------------------------------------------------------------------------------------------------
// the apply functions

type lfn struct {
	assertOther *lt
	cases       [][2]*lt
	dflt        *lt
}

func (f *lfn) lean() string {
	ao := "none"
	if f.assertOther != nil {
		ao = "some (" + f.assertOther.lean() + ")"
		if !strings.Contains(f.assertOther.lean(), " ") {
			ao = "some " + f.assertOther.lean()
		}
	}
	var cs []string
	for _, cse := range f.cases {
		cs = append(cs, "\n      ("+cse[0].lean()+", "+cse[1].lean()+")")
	}
	d := "LBody.opaque \"no default\""
	if f.dflt != nil {
		d = f.dflt.lean()
	}
	return fmt.Sprintf("{ assertOther := %s, cases := [%s], dflt := %s }", ao, strings.Join(cs, ","), d)
}

func lbop(n ast.Node) *lt            { return ls("LBody.opaque", src(n)) }
func lbopText(s string) *lt          { return ls("LBody.opaque", s) }
func lberr() *lt                     { return lh("LBody.err") }
func lstmtsText(s []ast.Stmt) string { return stmtsText(s) }

type lapply struct {
	*lctx
	recvName string
	frame    bool   // apply0: the receiver is the frame
	setRole  string // the frame method Copy ends in
	tail     *lt    // apply0: the LRet of a case that leaves the switch with `data = <result>`
	dataVar  string
}

// errReturn: `return <zero>, <error value>` (column functions) or `return <recv>.<m>(<error value>)` (frame functions)
func (x *lapply) errReturn(s ast.Stmt, sc *lscope) bool {
	r, ok := s.(*ast.ReturnStmt)
	if !ok {
		return false
	}
	if x.frame {
		if len(r.Results) != 1 {
			return false
		}
		call, ok := unparen(r.Results[0]).(*ast.CallExpr)
		if !ok || len(call.Args) != 1 || !x.isErrExpr(call.Args[0], sc) {
			return false
		}
		sel, ok := call.Fun.(*ast.SelectorExpr)
		return ok && identName(sel.X) == x.recvName
	}
	return len(r.Results) == 2 && x.isErrExpr(r.Results[1], sc)
}

// the map a `string` case looks its value up in: the package-level map literal of functions named `name`
func (c *lctx) funcMap(name string) ([]*lt, bool) {
	for _, f := range c.files {
		for _, d := range f.Decls {
			gd, ok := d.(*ast.GenDecl)
			if !ok || gd.Tok != token.VAR {
				continue
			}
			for _, sp := range gd.Specs {
				vs, ok := sp.(*ast.ValueSpec)
				if !ok || len(vs.Names) != len(vs.Values) {
					continue
				}
				for i, n := range vs.Names {
					if n.Name != name {
						continue
					}
					cl, ok := vs.Values[i].(*ast.CompositeLit)
					if !ok {
						return nil, false
					}
					mt, ok := cl.Type.(*ast.MapType)
					if !ok || src(mt.Key) != "string" {
						return nil, false
					}
					var ents []*lt
					for _, el := range cl.Elts {
						kvp, ok := el.(*ast.KeyValueExpr)
						if !ok {
							return nil, false
						}
						key, ok := strLit(kvp.Key)
						fn := identName(kvp.Value)
						fd, ok2 := c.fns[fn]
						if !ok || !ok2 || fd.Recv != nil {
							return nil, false
						}
						ents = append(ents, &lt{head: "(,)", args: []*lt{lh(leanStr(key)), lh(strconv.FormatUint(fnv64(src(fd.Body)), 10))}})
					}
					return ents, true
				}
			}
		}
	}
	return nil, false
}

// caseBody translates the statements of one case (or what follows a single type assertion)
func (x *lapply) caseBody(stmts []ast.Stmt, sc *lscope) *lt {
	if len(stmts) == 0 {
		return lbopText("empty case")
	}
	// `return <error>`
	if len(stmts) == 1 && x.errReturn(stmts[0], sc) {
		return lberr()
	}
	// `return qf.Copy(dst, string(t))`
	if r, ok := stmts[0].(*ast.ReturnStmt); ok && len(stmts) == 1 && x.frame && len(r.Results) == 1 {
		if call, ok := unparen(r.Results[0]).(*ast.CallExpr); ok && len(call.Args) == 2 {
			if sel, ok := call.Fun.(*ast.SelectorExpr); ok && identName(sel.X) == x.recvName && sel.Sel.Name == "Copy" {
				if a, b := x.eval(call.Args[0], sc), x.eval(call.Args[1], sc); a.kind == "dst" && b.kind == "fnnamedstr" {
					return lh("LBody.copyCol")
				}
			}
		}
		return lbop(stmts[0])
	}
	// `if f, ok := <map>[t]; ok { return f(ix, c), nil }; <miss>`
	if ifs, ok := stmts[0].(*ast.IfStmt); ok && ifs.Init != nil && ifs.Else == nil && len(stmts) >= 2 {
		def, ok := ifs.Init.(*ast.AssignStmt)
		if !ok || def.Tok != token.DEFINE || len(def.Lhs) != 2 || len(def.Rhs) != 1 {
			return lbop(stmts[0])
		}
		f, okv := identName(def.Lhs[0]), identName(def.Lhs[1])
		ie, ok := unparen(def.Rhs[0]).(*ast.IndexExpr)
		if !ok || f == "" || okv == "" || identName(ifs.Cond) != okv || len(ifs.Body.List) != 1 {
			return lbop(stmts[0])
		}
		m := identName(ie.X)
		if m == "" || sc.bound(m) || x.eval(ie.Index, sc).kind != "fnstr" {
			return lbop(stmts[0])
		}
		ents, ok := x.funcMap(m)
		if !ok {
			return lbop(stmts[0])
		}
		r, ok := ifs.Body.List[0].(*ast.ReturnStmt)
		if !ok || len(r.Results) != 2 || !isNilIdent(r.Results[1]) {
			return lbop(stmts[0])
		}
		call, ok := unparen(r.Results[0]).(*ast.CallExpr)
		if !ok || identName(call.Fun) != f || len(call.Args) != 2 {
			return lbop(stmts[0])
		}
		if a, b := x.eval(call.Args[0], sc), x.eval(call.Args[1], sc); a.kind != "ix" || b.kind != "col" || b.which != "recv" {
			return lbop(stmts[0])
		}
		return lh("LBody.lookup", ll(ents), x.caseBody(stmts[1:], sc))
	}
	// `result := make([]R, <len>); for pos, row := range <index> { … }; <ret>`
	if len(stmts) != 3 {
		return lbopText(lstmtsText(stmts))
	}
	def, ok := stmts[0].(*ast.AssignStmt)
	loop, ok2 := stmts[1].(*ast.RangeStmt)
	if !ok || !ok2 || def.Tok != token.DEFINE || len(def.Lhs) != 1 || len(def.Rhs) != 1 {
		return lbopText(lstmtsText(stmts))
	}
	result := identName(def.Lhs[0])
	mk, ok := unparen(def.Rhs[0]).(*ast.CallExpr)
	if !ok || result == "" || identName(mk.Fun) != "make" || sc.bound("make") || len(mk.Args) != 2 {
		return lbopText(lstmtsText(stmts))
	}
	at, ok := mk.Args[0].(*ast.ArrayType)
	if !ok || at.Len != nil {
		return lbopText(lstmtsText(stmts))
	}
	resTy, ok := goElemType(at.Elt)
	if !ok {
		return lbopText(lstmtsText(stmts))
	}
	lenT := ls("LLen.opaque", src(mk.Args[1]))
	if v := x.eval(mk.Args[1], sc); v.kind == "len" && strings.HasPrefix(v.t.head, "LLen.") {
		lenT = v.t
	} else if v.kind == "int" && v.n >= 0 {
		lenT = lh("LLen.lit", lh(strconv.Itoa(v.n)))
	}
	in := newLscope(sc)
	in.vars[result] = &lv{kind: "result"}
	body := x.loopBody(loop, in)
	ret := ls("LRet.opaque", src(stmts[2]))
	switch s := stmts[2].(type) {
	case *ast.ReturnStmt:
		if len(s.Results) == 2 && isNilIdent(s.Results[1]) && !x.frame {
			if x.eval(s.Results[0], in).kind == "result" {
				ret = lh("LRet.slice")
			} else if call, ok := unparen(s.Results[0]).(*ast.CallExpr); ok && len(call.Args) == 1 && x.eval(call.Args[0], in).kind == "result" {
				if fn := identName(call.Fun); fn != "" && !in.bound(fn) {
					// the package's own constructor from cells: func(<slice>) Column
					if fd, ok := x.fns[fn]; ok && fd.Recv == nil && len(flatTypes(fd.Type.Params)) == 1 && strings.HasPrefix(flatTypes(fd.Type.Params)[0], "[]") &&
						len(flatTypes(fd.Type.Results)) == 1 && flatTypes(fd.Type.Results)[0] == "Column" {
						ret = lh("LRet.ownCol")
					}
				} else if name, ok := x.pkgSel(call.Fun, in, "scolumn"); ok && name == "New" {
					ret = lh("LRet.strCol")
				}
			}
		}
	case *ast.AssignStmt:
		if x.frame && x.tail != nil && s.Tok == token.ASSIGN && len(s.Lhs) == 1 && len(s.Rhs) == 1 && identName(s.Lhs[0]) == x.dataVar && x.dataVar != "" &&
			x.eval(s.Rhs[0], in).kind == "result" {
			ret = x.tail
		}
	}
	return lh("LBody.loop", lh(resTy), lenT, ll(body), ret)
}

// loopBody translates `for pos, row := range <index> { … }`
func (x *lapply) loopBody(loop *ast.RangeStmt, sc *lscope) []*lt {
	bad := []*lt{ls("LStmt.opaque", src(loop))}
	if loop.Tok != token.DEFINE || x.eval(loop.X, sc).kind != "ix" {
		return bad
	}
	in := newLscope(sc)
	if loop.Key != nil {
		k := identName(loop.Key)
		if k == "" {
			return bad
		}
		if k != "_" {
			in.vars[k] = &lv{kind: "pos"}
		}
	}
	if loop.Value != nil {
		v := identName(loop.Value)
		if v == "" {
			return bad
		}
		if v != "_" {
			in.vars[v] = &lv{kind: "row"}
		}
	}
	var res []*lt
	for _, st := range loop.Body.List {
		res = append(res, x.loopStmt(st, in))
	}
	return res
}

func (x *lapply) loopStmt(st ast.Stmt, sc *lscope) *lt {
	bad := ls("LStmt.opaque", src(st))
	switch s := st.(type) {
	case *ast.AssignStmt:
		if s.Tok != token.ASSIGN || len(s.Lhs) != 1 || len(s.Rhs) != 1 {
			return bad
		}
		ie, ok := unparen(s.Lhs[0]).(*ast.IndexExpr)
		if !ok || x.eval(ie.X, sc).kind != "result" {
			return bad
		}
		slot := x.eval(ie.Index, sc)
		if slot.kind != "row" && slot.kind != "pos" {
			return bad
		}
		rhs := ls("LRhs.opaque", src(s.Rhs[0]))
		switch v := x.eval(s.Rhs[0], sc); v.kind {
		case "fnconst":
			rhs = lh("LRhs.fnValue")
		case "addrfn":
			rhs = lh("LRhs.addrFnValue")
		default:
			if call, ok := unparen(s.Rhs[0]).(*ast.CallExpr); ok && x.eval(call.Fun, sc).kind == "fn" {
				args := []*lt{}
				for _, a := range call.Args {
					args = append(args, x.argTerm(a, sc))
				}
				rhs = lh("LRhs.call", ll(args))
			}
		}
		return lh("LStmt.store", lh("LIdx."+slot.kind), rhs)
	case *ast.IfStmt:
		// `if <the cell is null> { continue }`
		if s.Init != nil || s.Else != nil || len(s.Body.List) != 1 {
			return bad
		}
		if b, ok := s.Body.List[0].(*ast.BranchStmt); !ok || b.Tok != token.CONTINUE || b.Label != nil {
			return bad
		}
		cond := x.eval(s.Cond, sc)
		if cond.kind != "null" {
			// math.IsNaN(<raw float cell>)
			if call, ok := unparen(s.Cond).(*ast.CallExpr); ok && len(call.Args) == 1 {
				if name, ok := x.pkgSel(call.Fun, sc, "math"); ok && name == "IsNaN" && x.elemType == "float64" {
					if v := x.eval(call.Args[0], sc); v.kind == "entry" {
						cond = &lv{kind: "null", which: v.which, idx: v.idx}
					}
				}
			}
		}
		if cond.kind == "null" && (cond.idx == "row" || cond.idx == "pos") {
			return lh("LStmt.skipIfNull", lh("LWhich."+cond.which), lh("LIdx."+cond.idx))
		}
	}
	return bad
}

// bind the value of a case to the role its type gives it
func fnRole(sig *lt) *lv {
	switch sig.head {
	case "LSig.fn", "LSig.aggFn":
		return &lv{kind: "fn", sig: sig}
	case "LSig.const":
		return &lv{kind: "fnconst", sig: sig}
	case "LSig.str":
		return &lv{kind: "fnstr", sig: sig}
	case "LSig.named":
		return &lv{kind: "fnnamed", sig: sig}
	}
	return lunknown()
}

// typeSwitch translates `switch t := fn.(type) { … }`
func (x *lapply) typeSwitch(s *ast.TypeSwitchStmt, sc *lscope, f *lfn) bool {
	if s.Init != nil {
		return false
	}
	var bindName string
	var ta *ast.TypeAssertExpr
	switch a := s.Assign.(type) {
	case *ast.AssignStmt:
		if a.Tok != token.DEFINE || len(a.Lhs) != 1 || len(a.Rhs) != 1 {
			return false
		}
		bindName = identName(a.Lhs[0])
		ta, _ = unparen(a.Rhs[0]).(*ast.TypeAssertExpr)
	case *ast.ExprStmt:
		ta, _ = unparen(a.X).(*ast.TypeAssertExpr)
	}
	if ta == nil || ta.Type != nil || x.eval(ta.X, sc).kind != "fnraw" {
		return false
	}
	for _, cl := range s.Body.List {
		cc := cl.(*ast.CaseClause)
		if cc.List == nil {
			in := newLscope(sc)
			f.dflt = x.caseBody(cc.Body, in)
			continue
		}
		if len(cc.List) != 1 {
			f.cases = append(f.cases, [2]*lt{ls("LSig.other", src(cc)), lbop(cc)})
			continue
		}
		sig := x.sigOf(cc.List[0])
		in := newLscope(sc)
		if bindName != "" && bindName != "_" {
			in.vars[bindName] = fnRole(sig)
		}
		f.cases = append(f.cases, [2]*lt{sig, x.caseBody(cc.Body, in)})
	}
	if f.dflt == nil {
		// without a default case the function goes on behind the switch
		f.dflt = lbopText("no default case")
	}
	return true
}

// `v, ok := <e>.(T); if !ok { <body> }`: the names, the asserted expression, the type, the body
func assertPair(stmts []ast.Stmt) (string, ast.Expr, ast.Expr, []ast.Stmt, bool) {
	if len(stmts) < 2 {
		return "", nil, nil, nil, false
	}
	def, ok := stmts[0].(*ast.AssignStmt)
	ifs, ok2 := stmts[1].(*ast.IfStmt)
	if !ok || !ok2 || len(def.Lhs) != 2 || len(def.Rhs) != 1 || ifs.Init != nil || ifs.Else != nil {
		return "", nil, nil, nil, false
	}
	if def.Tok != token.DEFINE && def.Tok != token.ASSIGN {
		return "", nil, nil, nil, false
	}
	ta, ok := unparen(def.Rhs[0]).(*ast.TypeAssertExpr)
	v, okv := identName(def.Lhs[0]), identName(def.Lhs[1])
	not, ok2 := unparen(ifs.Cond).(*ast.UnaryExpr)
	if !ok || !ok2 || ta.Type == nil || v == "" || okv == "" || okv == "_" || not.Op != token.NOT || identName(not.X) != okv {
		return "", nil, nil, nil, false
	}
	return v, ta.X, ta.Type, ifs.Body.List, true
}

// body translates the statements of an apply function after its parameters got their roles
func (x *lapply) body(stmts []ast.Stmt, sc *lscope) *lfn {
	f := &lfn{}
	for len(stmts) > 0 {
		// the second column asserted to the package's Column
		if v, e, typ, fail, ok := assertPair(stmts); ok {
			switch {
			case x.eval(e, sc).kind == "iface" && src(typ) == "Column" && f.assertOther == nil && len(f.cases) == 0:
				in := newLscope(sc)
				f.assertOther = x.caseBody(fail, in)
				sc.vars[v] = &lv{kind: "col", which: "other"}
				stmts = stmts[2:]
				continue
			case x.eval(e, sc).kind == "fnraw" && len(f.cases) == 0:
				// a single type assertion on the function value: a switch with one case
				sig := x.sigOf(typ)
				in := newLscope(sc)
				f.dflt = x.caseBody(fail, in)
				in2 := newLscope(sc)
				in2.vars[v] = fnRole(sig)
				f.cases = [][2]*lt{{sig, x.caseBody(stmts[2:], in2)}}
				return f
			}
		}
		if ts, ok := stmts[0].(*ast.TypeSwitchStmt); ok && len(f.cases) == 0 {
			if !x.typeSwitch(ts, sc, f) {
				f.cases = [][2]*lt{{ls("LSig.other", "switch"), lbop(ts)}}
				f.dflt = lbop(ts)
			}
			if !x.frame && len(stmts) != 1 {
				f.dflt = lbopText("statements after the switch: " + lstmtsText(stmts[1:]))
			}
			return f
		}
		break
	}
	f.dflt = lbopText(lstmtsText(stmts))
	return f
}

// columnFn translates Apply1 / Apply2 of one package
func (c *lctx) columnFn(name string) *lfn {
	fd, ok := c.fns["Column."+name]
	if !ok || fd.Recv == nil || len(fd.Recv.List) != 1 || len(fd.Recv.List[0].Names) != 1 || c.cellsField == "" || c.entryKind == "" {
		return &lfn{dflt: lbopText("no function Column." + name)}
	}
	x := &lapply{lctx: c, recvName: fd.Recv.List[0].Names[0].Name}
	sc := newLscope(nil)
	sc.vars[x.recvName] = &lv{kind: "col", which: "recv"}
	c.bindParams(fd, sc)
	return x.body(fd.Body.List, sc)
}

// bindParams gives the parameters their roles by type
func (c *lctx) bindParams(fd *ast.FuncDecl, sc *lscope) {
	if fd.Type.Params == nil {
		return
	}
	for _, p := range fd.Type.Params.List {
		role := ""
		switch t := p.Type.(type) {
		case *ast.InterfaceType:
			if t.Methods == nil || len(t.Methods.List) == 0 {
				role = "fnraw"
			}
		case *ast.Ident:
			if t.Name == "any" {
				role = "fnraw"
			} else if t.Name == "string" {
				role = "dst"
			}
		case *ast.SelectorExpr:
			if n, ok := c.pkgSel(t, nil, "index"); ok && n == "Int" {
				role = "ix"
			} else if n, ok := c.pkgSel(t, nil, "column"); ok && n == "Column" {
				role = "iface"
			} else if id, ok := t.X.(*ast.Ident); ok {
				// a named interface type of package types
				if rel, ok := c.repoPkg(id.Name); ok {
					c.otherFns(rel)
					if _, ok := c.otherTypes[rel][t.Sel.Name].(*ast.InterfaceType); ok {
						role = "fnraw"
					}
				}
			}
		case *ast.ArrayType:
			if t.Len == nil {
				if n, ok := c.pkgSel(t.Elt, nil, "index"); ok && n == "Int" {
					role = "groups"
				}
			}
		}
		for _, n := range p.Names {
			if n.Name == "_" {
				continue
			}
			if role == "" {
				sc.vars[n.Name] = lunknown()
			} else {
				sc.vars[n.Name] = &lv{kind: role}
			}
		}
	}
}

// apply0 of qframe.go: the guard in front is QF.Gen.guardAst2 "apply0"; what follows it is translated here
func apply0Fn(repo string, root map[string]*ast.File) (*lfn, *lwrap) {
	c := &lctx{repo: repo, module: modulePath(repo), pkg: "qframe", files: root, fns: funcDecls(root), imports: importsOf(root),
		types: typeDecls(root), other: map[string]map[string]*ast.FuncDecl{}, otherTypes: map[string]map[string]ast.Expr{}, entryKind: "none"}
	wrap := c.apply1Wrap()
	fd, ok := c.fns["QFrame.apply0"]
	if !ok || fd.Recv == nil || len(fd.Recv.List) != 1 || len(fd.Recv.List[0].Names) != 1 {
		return &lfn{dflt: lbopText("no function QFrame.apply0")}, wrap
	}
	x := &lapply{lctx: c, recvName: fd.Recv.List[0].Names[0].Name, frame: true}
	if st, ok := c.types["QFrame"].(*ast.StructType); ok {
		for _, fl := range st.Fields.List {
			for _, n := range fl.Names {
				if name, ok := c.pkgSel(fl.Type, nil, "index"); ok && name == "Int" {
					x.ixField = n.Name
				}
				if at, ok := fl.Type.(*ast.ArrayType); ok && at.Len == nil && src(at.Elt) == "namedColumn" {
					x.colsField = n.Name
				}
			}
		}
	}
	x.setRole = c.setRole()
	sc := newLscope(nil)
	c.bindParams(fd, sc)
	stmts := fd.Body.List
	// the guard prefix: `if qf.Err != nil { return qf }`
	if len(stmts) > 0 {
		if ifs, ok := stmts[0].(*ast.IfStmt); ok && ifs.Init == nil && ifs.Else == nil && len(ifs.Body.List) == 1 {
			if r, ok := ifs.Body.List[0].(*ast.ReturnStmt); ok && len(r.Results) == 1 && identName(r.Results[0]) == x.recvName {
				if b, ok := unparen(ifs.Cond).(*ast.BinaryExpr); ok && b.Op == token.NEQ && isNilIdent(b.Y) {
					if sel, ok := unparen(b.X).(*ast.SelectorExpr); ok && identName(sel.X) == x.recvName {
						stmts = stmts[1:]
					}
				}
			}
		}
	}
	// `n := 0; if len(qf.columns) > 0 { n = qf.columns[0].Len() }`
	if len(stmts) >= 2 {
		if name, ok := x.firstColLen(stmts[0], stmts[1]); ok {
			sc.vars[name] = &lv{kind: "len", t: lh("LLen.firstColLen")}
			stmts = stmts[2:]
		}
	}
	// `var data interface{}`
	if len(stmts) >= 1 {
		if ds, ok := stmts[0].(*ast.DeclStmt); ok {
			if gd, ok := ds.Decl.(*ast.GenDecl); ok && gd.Tok == token.VAR && len(gd.Specs) == 1 {
				if vs, ok := gd.Specs[0].(*ast.ValueSpec); ok && len(vs.Names) == 1 && len(vs.Values) == 0 && vs.Type != nil && isEmptyIface(src(vs.Type)) {
					x.dataVar = vs.Names[0].Name
					sc.vars[x.dataVar] = &lv{kind: "data"}
					stmts = stmts[1:]
				}
			}
		}
	}
	// the frame's index has the role of the index
	sc.vars[x.recvName] = &lv{kind: "frame"}
	// what follows the switch
	if len(stmts) >= 1 {
		x.tail = ls("LRet.opaque", lstmtsText(stmts[1:]))
		if x.createTail(stmts[1:], sc) {
			x.tail = lh("LRet.create")
		}
	}
	return x.body(stmts, sc), wrap
}

func (x *lapply) firstColLen(a, b ast.Stmt) (string, bool) {
	def, ok := a.(*ast.AssignStmt)
	ifs, ok2 := b.(*ast.IfStmt)
	if !ok || !ok2 || def.Tok != token.DEFINE || len(def.Lhs) != 1 || len(def.Rhs) != 1 || !isIntLit(def.Rhs[0], "0") || ifs.Init != nil || ifs.Else != nil || len(ifs.Body.List) != 1 {
		return "", false
	}
	name := identName(def.Lhs[0])
	cols := x.recvName + "." + x.colsField
	if name == "" || x.colsField == "" || src(unparen(ifs.Cond)) != "len("+cols+") > 0" {
		return "", false
	}
	as, ok := ifs.Body.List[0].(*ast.AssignStmt)
	if !ok || as.Tok != token.ASSIGN || len(as.Lhs) != 1 || len(as.Rhs) != 1 || identName(as.Lhs[0]) != name || src(as.Rhs[0]) != cols+"[0].Len()" {
		return "", false
	}
	return name, true
}

// createTail: `c, err := <create>(dst, data, <empty config>); if err != nil { return qf.<m>(err) }; return qf.<set>(dst, c)`
func (x *lapply) createTail(stmts []ast.Stmt, sc *lscope) bool {
	if len(stmts) != 3 || x.setRole == "" {
		return false
	}
	def, ok := stmts[0].(*ast.AssignStmt)
	ifs, ok2 := stmts[1].(*ast.IfStmt)
	ret, ok3 := stmts[2].(*ast.ReturnStmt)
	if !ok || !ok2 || !ok3 || def.Tok != token.DEFINE || len(def.Lhs) != 2 || len(def.Rhs) != 1 || len(ret.Results) != 1 {
		return false
	}
	col, errv := identName(def.Lhs[0]), identName(def.Lhs[1])
	call, ok := unparen(def.Rhs[0]).(*ast.CallExpr)
	if !ok || col == "" || errv == "" || len(call.Args) != 3 {
		return false
	}
	// the function that makes a column from a data value: func(string, interface{}, *Config) (column.Column, error) of the package
	fd, ok := x.fns[identName(call.Fun)]
	if !ok || fd.Recv != nil || len(flatTypes(fd.Type.Params)) != 3 || !isEmptyIface(flatTypes(fd.Type.Params)[1]) || len(flatTypes(fd.Type.Results)) != 2 || flatTypes(fd.Type.Results)[1] != "error" {
		return false
	}
	if x.eval(call.Args[0], sc).kind != "dst" || x.eval(call.Args[1], sc).kind != "data" {
		return false
	}
	// an empty configuration: <newqf>.NewConfig(nil)
	cfg, ok := unparen(call.Args[2]).(*ast.CallExpr)
	if !ok || len(cfg.Args) != 1 || !isNilIdent(cfg.Args[0]) {
		return false
	}
	if _, ok := x.pkgSel(cfg.Fun, sc, "newqf"); !ok {
		return false
	}
	// `if err != nil { return qf.<m>(err) }`
	if ifs.Init != nil || ifs.Else != nil || src(unparen(ifs.Cond)) != errv+" != nil" || len(ifs.Body.List) != 1 {
		return false
	}
	if r, ok := ifs.Body.List[0].(*ast.ReturnStmt); !ok || len(r.Results) != 1 {
		return false
	} else if ec, ok := unparen(r.Results[0]).(*ast.CallExpr); !ok || len(ec.Args) != 1 || identName(ec.Args[0]) != errv {
		return false
	} else if sel, ok := ec.Fun.(*ast.SelectorExpr); !ok || identName(sel.X) != x.recvName {
		return false
	}
	// `return qf.<set>(dst, c)`
	set, ok := unparen(ret.Results[0]).(*ast.CallExpr)
	if !ok || len(set.Args) != 2 || identName(set.Args[1]) != col || x.eval(set.Args[0], sc).kind != "dst" {
		return false
	}
	sel, ok := set.Fun.(*ast.SelectorExpr)
	return ok && identName(sel.X) == x.recvName && sel.Sel.Name == x.setRole
}

// setRole: the frame method `Copy` ends in (`return qf.<set>(dst, col)`)
func (c *lctx) setRole() string {
	fd, ok := c.fns["QFrame.Copy"]
	if !ok || len(fd.Body.List) == 0 || fd.Recv == nil || len(fd.Recv.List) != 1 || len(fd.Recv.List[0].Names) != 1 {
		return ""
	}
	r, ok := fd.Body.List[len(fd.Body.List)-1].(*ast.ReturnStmt)
	if !ok || len(r.Results) != 1 {
		return ""
	}
	call, ok := unparen(r.Results[0]).(*ast.CallExpr)
	if !ok || len(call.Args) != 2 {
		return ""
	}
	sel, ok := call.Fun.(*ast.SelectorExpr)
	if !ok || identName(sel.X) != fd.Recv.List[0].Names[0].Name {
		return ""
	}
	return sel.Sel.Name
}

type lwrap struct {
	slices       [][2]string
	passesColumn bool
	dfltErr      bool
	setsDst      bool
	opaque       string
}

func (w *lwrap) lean() string {
	var ss []string
	for _, s := range w.slices {
		ss = append(ss, "("+s[0]+", "+s[1]+")")
	}
	return fmt.Sprintf("{ slices := [%s], passesColumn := %v, dfltErr := %v, setsDst := %v }", strings.Join(ss, ", "), w.passesColumn, w.dfltErr, w.setsDst)
}

var pkgColType = map[string]string{"icolumn": "CType.int", "fcolumn": "CType.float", "bcolumn": "CType.bool", "scolumn": "CType.string", "ecolumn": "CType.enum"}

// apply1Wrap: in `QFrame.apply1`, `switch t := <slice result>.(type)` and the final `return qf.<set>(dst, resultColumn)`
func (c *lctx) apply1Wrap() *lwrap {
	w := &lwrap{}
	fd, ok := c.fns["QFrame.apply1"]
	if !ok || fd.Recv == nil || len(fd.Recv.List) != 1 || len(fd.Recv.List[0].Names) != 1 {
		return w
	}
	recv := fd.Recv.List[0].Names[0].Name
	sc := newLscope(nil)
	c.bindParams(fd, sc)
	// the variable that receives the first result of `<column>.Apply1(fn, qf.index)`
	sliceVar, resVar := "", ""
	var sw *ast.TypeSwitchStmt
	var last ast.Stmt
	for _, st := range fd.Body.List {
		last = st
		if as, ok := st.(*ast.AssignStmt); ok && as.Tok == token.DEFINE && len(as.Lhs) == 2 && len(as.Rhs) == 1 {
			if call, ok := unparen(as.Rhs[0]).(*ast.CallExpr); ok {
				if sel, ok := call.Fun.(*ast.SelectorExpr); ok && sel.Sel.Name == "Apply1" {
					sliceVar = identName(as.Lhs[0])
				}
			}
		}
		if ts, ok := st.(*ast.TypeSwitchStmt); ok && sw == nil {
			sw = ts
		}
	}
	if sw == nil || sliceVar == "" || sw.Init != nil {
		return w
	}
	as, ok := sw.Assign.(*ast.AssignStmt)
	if !ok || len(as.Lhs) != 1 || len(as.Rhs) != 1 {
		return w
	}
	t := identName(as.Lhs[0])
	ta, ok := unparen(as.Rhs[0]).(*ast.TypeAssertExpr)
	if !ok || ta.Type != nil || identName(ta.X) != sliceVar || t == "" {
		return w
	}
	for _, cl := range sw.Body.List {
		cc := cl.(*ast.CaseClause)
		if cc.List == nil {
			if len(cc.Body) == 1 {
				if r, ok := cc.Body[0].(*ast.ReturnStmt); ok && len(r.Results) == 1 {
					if call, ok := unparen(r.Results[0]).(*ast.CallExpr); ok && len(call.Args) == 1 && c.isErrExpr(call.Args[0], sc) {
						if sel, ok := call.Fun.(*ast.SelectorExpr); ok && identName(sel.X) == recv {
							w.dfltErr = true
						}
					}
				}
			}
			continue
		}
		if len(cc.List) != 1 || len(cc.Body) != 1 {
			w.slices = append(w.slices, [2]string{"CType.undef", "CType.undef"})
			continue
		}
		set, ok := cc.Body[0].(*ast.AssignStmt)
		if !ok || set.Tok != token.ASSIGN || len(set.Lhs) != 1 || len(set.Rhs) != 1 || identName(set.Lhs[0]) == "" {
			w.slices = append(w.slices, [2]string{"CType.undef", "CType.undef"})
			continue
		}
		if resVar == "" {
			resVar = identName(set.Lhs[0])
		}
		if identName(set.Lhs[0]) != resVar {
			w.slices = append(w.slices, [2]string{"CType.undef", "CType.undef"})
			continue
		}
		if at, ok := cc.List[0].(*ast.ArrayType); ok && at.Len == nil {
			el, ok := goElemType(at.Elt)
			call, ok2 := unparen(set.Rhs[0]).(*ast.CallExpr)
			col := "CType.undef"
			if ok2 && len(call.Args) == 1 && identName(call.Args[0]) == t {
				if sel, ok := call.Fun.(*ast.SelectorExpr); ok && sel.Sel.Name == "New" {
					if id, ok := sel.X.(*ast.Ident); ok {
						if rel, ok := c.repoPkg(id.Name); ok {
							if ct, ok := pkgColType[filepath.Base(rel)]; ok {
								col = ct
							}
						}
					}
				}
			}
			if !ok {
				el = "CType.undef"
			}
			w.slices = append(w.slices, [2]string{el, col})
			continue
		}
		if n, ok := c.pkgSel(cc.List[0], sc, "column"); ok && n == "Column" && identName(set.Rhs[0]) == t {
			w.passesColumn = true
			continue
		}
		w.slices = append(w.slices, [2]string{"CType.undef", "CType.undef"})
	}
	if r, ok := last.(*ast.ReturnStmt); ok && len(r.Results) == 1 {
		if call, ok := unparen(r.Results[0]).(*ast.CallExpr); ok && len(call.Args) == 2 && identName(call.Args[1]) == resVar && resVar != "" {
			if v, ok := sc.get(identName(call.Args[0])); ok && v.kind == "dst" && identName(call.Args[0]) == firstStringParam(fd) {
				if sel, ok := call.Fun.(*ast.SelectorExpr); ok && identName(sel.X) == recv && sel.Sel.Name == c.setRole() {
					w.setsDst = true
				}
			}
		}
	}
	return w
}

// the first parameter of type string (the destination column of apply0 / apply1 / apply2)
func firstStringParam(fd *ast.FuncDecl) string {
	if fd.Type.Params == nil {
		return ""
	}
	for _, p := range fd.Type.Params.List {
		if src(p.Type) == "string" && len(p.Names) > 0 {
			return p.Names[0].Name
		}
	}
	return ""
}

// loopsLean renders QF/Gen/Loops.lean.
func loopsLean(repo string, pkgs []string, root map[string]*ast.File) string {
	var b strings.Builder
	b.WriteString("/- GENERATED on every run by /verif/go/cmd/extract from /repo's source (tie T1). Do not edit. -/\nimport QF.Core.LExpr\nnamespace QF.Gen\n\n")
	ctxs := map[string]*lctx{}
	for _, p := range pkgs {
		ctxs[p] = newLctx(repo, p, filepath.Join(repo, "internal", p))
	}
	for _, fn := range []string{"Apply1", "Apply2"} {
		fmt.Fprintf(&b, "/-- `Column.%s` of every column package as a term of `QF.LFn`, by role: (package, term) -/\ndef %sAst : List (String × LFn) := [\n", fn, strings.ToLower(fn[:1])+fn[1:])
		for i, p := range pkgs {
			if i > 0 {
				b.WriteString(",\n")
			}
			fmt.Fprintf(&b, "  (%s, %s)", leanStr(p), ctxs[p].columnFn(fn).lean())
		}
		b.WriteString("]\n\n")
	}
	a0, wrap := apply0Fn(repo, root)
	b.WriteString("/-- the frame method `Apply` calls for an instruction without source column (`apply0`), after its guard prefix -/\ndef apply0Ast : LFn :=\n  " + a0.lean() + "\n\n")
	b.WriteString("/-- the frame method for one source column (`apply1`) after `Apply1` returned: the switch on the type of the slice -/\ndef apply1WrapAst : LWrap :=\n  " + wrap.lean() + "\n\n")
	b.WriteString(aggregateLean(repo, pkgs, ctxs, root))
	b.WriteString("end QF.Gen\n")
	return b.String()
}

// isBufGrow: `if cap(*buf) < len(<group>) { *buf = make([]T, 0, len(<group>)) }` — only the capacity of the buffer changes
func (c *lctx) isBufGrow(s *ast.IfStmt, sc *lscope) bool {
	if s.Else != nil || len(s.Body.List) != 1 {
		return false
	}
	cond, ok := unparen(s.Cond).(*ast.BinaryExpr)
	if !ok || cond.Op != token.LSS {
		return false
	}
	a, b := c.eval(cond.X, sc), c.eval(cond.Y, sc)
	if a.kind != "cap" || b.kind != "len" || b.t.head != "GLen.groupLen" {
		return false
	}
	as, ok := s.Body.List[0].(*ast.AssignStmt)
	if !ok || as.Tok != token.ASSIGN || len(as.Lhs) != 1 || len(as.Rhs) != 1 {
		return false
	}
	l := c.eval(as.Lhs[0], sc)
	mk, ok := unparen(as.Rhs[0]).(*ast.CallExpr)
	if !ok || l.kind != "buf" || l.name != a.name || identName(mk.Fun) != "make" || sc.bound("make") || len(mk.Args) != 3 {
		return false
	}
	n0, n1 := c.eval(mk.Args[1], sc), c.eval(mk.Args[2], sc)
	return n0.kind == "int" && n0.n == 0 && n1.kind == "len" && n1.t.head == "GLen.groupLen"
}

// fillLoop: `for pos, row := range <group> { … }` whose body writes one element into a slice that is still untouched
func (c *lctx) fillLoop(s *ast.RangeStmt, sc *lscope) bool {
	if s.Tok != token.DEFINE {
		return false
	}
	over := c.eval(s.X, sc)
	if over.kind != "group" && over.kind != "groups" {
		return false
	}
	in := newLscope(sc)
	if s.Key != nil {
		k := identName(s.Key)
		if k == "" {
			return false
		}
		if k != "_" {
			in.vars[k] = &lv{kind: "pos"}
		}
	}
	if s.Value != nil {
		v := identName(s.Value)
		if v == "" {
			return false
		}
		if v != "_" {
			if over.kind == "group" {
				in.vars[v] = &lv{kind: "row"}
			} else {
				in.vars[v] = &lv{kind: "group"}
			}
		}
	}
	name, write, val, ok := combineEffects(c.execEffect(s.Body.List, in))
	if !ok {
		return false
	}
	sl, ok := sc.get(name)
	if !ok || sl.kind != "slice" || sl.write != "" || (sl.init == "full" && sl.over != over.kind) {
		return false
	}
	return sc.set(name, &lv{kind: "slice", init: sl.init, over: over.kind, write: write, el: val})
}

// execEffect runs a loop body: definitions and decisions as in execHelper; every path must end in ONE write
// `name[idx] = v` or `name = append(name, v)`
func (c *lctx) execEffect(stmts []ast.Stmt, sc *lscope) *lv {
	if len(stmts) == 0 {
		return lunknown()
	}
	rest := stmts[1:]
	switch s := stmts[0].(type) {
	case *ast.AssignStmt:
		if s.Tok == token.ASSIGN {
			if len(rest) != 0 || len(s.Lhs) != 1 || len(s.Rhs) != 1 {
				return lunknown()
			}
			if ie, ok := unparen(s.Lhs[0]).(*ast.IndexExpr); ok {
				name := identName(ie.X)
				i := c.eval(ie.Index, sc)
				if t, ok := sc.get(name); ok && t.kind == "slice" && (i.kind == "pos" || i.kind == "row") {
					return &lv{kind: "effect", name: name, write: "set:" + i.kind, el: c.eval(s.Rhs[0], sc)}
				}
				return lunknown()
			}
			name := identName(s.Lhs[0])
			call, ok := unparen(s.Rhs[0]).(*ast.CallExpr)
			if t, ok2 := sc.get(name); ok && ok2 && t.kind == "slice" && identName(call.Fun) == "append" && !sc.bound("append") &&
				len(call.Args) == 2 && identName(call.Args[0]) == name && call.Ellipsis == token.NoPos {
				return &lv{kind: "effect", name: name, write: "append", el: c.eval(call.Args[1], sc)}
			}
			return lunknown()
		}
		if s.Tok != token.DEFINE || len(s.Rhs) != 1 {
			return lunknown()
		}
		v := c.eval(s.Rhs[0], sc)
		return mapLeaves(v, func(leaf *lv) *lv {
			in := sc.clone()
			if len(s.Lhs) == 1 {
				if n := identName(s.Lhs[0]); n != "" {
					in.vars[n] = leaf
					return c.execEffect(rest, in)
				}
				return lunknown()
			}
			if leaf.kind != "tuple" || len(leaf.tuple) != len(s.Lhs) {
				return lunknown()
			}
			for i, l := range s.Lhs {
				n := identName(l)
				if n == "" {
					return lunknown()
				}
				if n != "_" {
					in.vars[n] = leaf.tuple[i]
				}
			}
			return c.execEffect(rest, in)
		})
	case *ast.IfStmt:
		if s.Init != nil {
			return lunknown()
		}
		var els []ast.Stmt
		switch e := s.Else.(type) {
		case nil:
		case *ast.BlockStmt:
			els = e.List
		default:
			return lunknown()
		}
		cond := c.eval(s.Cond, sc)
		thenB := append(append([]ast.Stmt{}, s.Body.List...), rest...)
		elseB := append(append([]ast.Stmt{}, els...), rest...)
		switch cond.kind {
		case "bool":
			if cond.b {
				return c.execEffect(thenB, sc.clone())
			}
			return c.execEffect(elseB, sc.clone())
		case "null":
			return &lv{kind: "ifnull", which: cond.which, idx: cond.idx, t: cond.t, th: c.execEffect(thenB, sc.clone()), el: c.execEffect(elseB, sc.clone())}
		case "notnull":
			return &lv{kind: "ifnull", which: cond.which, idx: cond.idx, t: cond.t, th: c.execEffect(elseB, sc.clone()), el: c.execEffect(thenB, sc.clone())}
		}
	}
	return lunknown()
}

// combineEffects: all paths write the same way into the same slice; the written value becomes a decision tree
func combineEffects(v *lv) (string, string, *lv, bool) {
	switch v.kind {
	case "effect":
		return v.name, v.write, v.el, true
	case "ifnull":
		n1, w1, a, ok1 := combineEffects(v.th)
		n2, w2, b, ok2 := combineEffects(v.el)
		if !ok1 || !ok2 || n1 != n2 || w1 != w2 {
			return "", "", nil, false
		}
		return n1, w1, &lv{kind: "ifnull", which: v.which, idx: v.idx, t: v.t, th: a, el: b}, true
	}
	return "", "", nil, false
}

func ginit(s string) *lt {
	switch s {
	case "empty":
		return lh("LGInit.empty")
	case "full":
		return lh("LGInit.full")
	}
	return ls("LGInit.opaque", s)
}

func gwrite(s string) *lt {
	switch s {
	case "append":
		return lh("LGWrite.append")
	case "set:pos":
		return lh("LGWrite.setAt", lh("LIdx.pos"))
	case "set:row":
		return lh("LGWrite.setAt", lh("LIdx.row"))
	}
	return ls("LGWrite.opaque", s)
}

// sliceTerm renders a slice made from the receiver's cells over one group; copy: the elements are copied as they are
func (c *lctx) sliceTerm(sl *lv, copy bool) string {
	bad := func(why string) string {
		return fmt.Sprintf("{ init := LGInit.opaque %s, write := LGWrite.append, i := LIdx.row, acc := LAcc.raw }", leanStr(why))
	}
	if sl == nil || sl.kind != "slice" || sl.el == nil || sl.over != "group" {
		return bad("not a slice made in one loop over the group")
	}
	var acc *lt
	which, idx := "", ""
	if sl.el.kind == "entry" && copy {
		acc, which, idx = lh("LAcc.entry"), sl.el.which, sl.el.idx
	} else {
		if sl.el.kind == "entry" && c.entryKind != "raw" {
			return bad("an element that is not a function argument")
		}
		var ok bool
		acc, which, idx, ok = accOf(sl.el)
		if !ok {
			return bad("an element that is not made of one cell")
		}
	}
	if which != "recv" || (idx != "row" && idx != "pos") {
		return bad("an element that is not a cell of the receiver")
	}
	a := acc.lean()
	if strings.Contains(a, " ") {
		a = "(" + a + ")"
	}
	return fmt.Sprintf("{ init := %s, write := %s, i := LIdx.%s, acc := %s }", ginit(sl.init).lean(), paren(gwrite(sl.write).lean()), idx, a)
}

func paren(s string) string {
	if strings.Contains(s, " ") {
		return "(" + s + ")"
	}
	return s
}

// the package-level map of functions named name: its keys, sorted
func (c *lctx) funcMapKeys(name string) ([]string, bool) {
	for _, f := range c.files {
		for _, d := range f.Decls {
			gd, ok := d.(*ast.GenDecl)
			if !ok || gd.Tok != token.VAR {
				continue
			}
			for _, sp := range gd.Specs {
				vs, ok := sp.(*ast.ValueSpec)
				if !ok || len(vs.Names) != len(vs.Values) {
					continue
				}
				for i, n := range vs.Names {
					if n.Name != name {
						continue
					}
					cl, ok := vs.Values[i].(*ast.CompositeLit)
					if !ok {
						return nil, false
					}
					mt, ok := cl.Type.(*ast.MapType)
					if !ok || src(mt.Key) != "string" {
						return nil, false
					}
					if _, ok := mt.Value.(*ast.FuncType); !ok {
						return nil, false
					}
					var keys []string
					for _, el := range cl.Elts {
						kvp, ok := el.(*ast.KeyValueExpr)
						if !ok {
							return nil, false
						}
						keys = append(keys, resolveKey(kvp.Key, nil))
					}
					sort.Strings(keys)
					return keys, true
				}
			}
		}
	}
	return nil, false
}

type gfn struct {
	cases [][2]string
	dflt  string
}

func (f *gfn) lean() string {
	var cs []string
	for _, cse := range f.cases {
		cs = append(cs, "\n      ("+cse[0]+", "+cse[1]+")")
	}
	return fmt.Sprintf("{ cases := [%s], dflt := %s }", strings.Join(cs, ","), f.dflt)
}

func gcop(s string) string { return "LGCase.opaque " + leanStr(s) }

// aggCase runs the statements of Column.Aggregate from a case of the switch to the end of the function
func (c *lctx) aggCase(stmts []ast.Stmt, sc *lscope) string {
	var outer *lv // the aggregated values: slice with el = aggcall
	outerName := ""
	for n := 0; n < len(stmts); n++ {
		switch s := stmts[n].(type) {
		case *ast.DeclStmt:
			gd, ok := s.Decl.(*ast.GenDecl)
			if !ok || gd.Tok != token.VAR {
				return gcop(src(s))
			}
			for _, sp := range gd.Specs {
				vs, ok := sp.(*ast.ValueSpec)
				if !ok || len(vs.Values) != 0 {
					return gcop(src(s))
				}
				for _, nm := range vs.Names {
					if at, ok := vs.Type.(*ast.ArrayType); ok && at.Len == nil {
						sc.vars[nm.Name] = &lv{kind: "buf", name: nm.Name}
					} else {
						sc.vars[nm.Name] = &lv{kind: "undef"}
					}
				}
			}
		case *ast.ReturnStmt:
			if len(s.Results) != 2 {
				return gcop(src(s))
			}
			if c.isErrExpr(s.Results[1], sc) {
				return "LGCase.err"
			}
			if !isNilIdent(s.Results[1]) || outer == nil || outer.write == "" || outer.el == nil || outer.el.kind != "aggcall" || outer.over != "groups" {
				return gcop(src(s))
			}
			ret := ""
			switch v := c.eval(s.Results[0], sc); {
			case v.kind == "colOf" && v.sl == outer && len(v.keeps) == 0:
				ret = "LRet.ownCol"
			default:
				if call, ok := unparen(s.Results[0]).(*ast.CallExpr); ok && len(call.Args) == 1 && c.eval(call.Args[0], sc) == outer {
					if fn := identName(call.Fun); fn != "" && !sc.bound(fn) {
						if fd, ok := c.fns[fn]; ok && fd.Recv == nil && len(flatTypes(fd.Type.Params)) == 1 && strings.HasPrefix(flatTypes(fd.Type.Params)[0], "[]") &&
							len(flatTypes(fd.Type.Results)) == 1 && flatTypes(fd.Type.Results)[0] == "Column" {
							ret = "LRet.ownCol"
						}
					} else if name, ok := c.pkgSel(call.Fun, sc, "scolumn"); ok && name == "New" {
						ret = "LRet.strCol"
					}
				}
			}
			if ret == "" {
				return gcop(src(s))
			}
			return fmt.Sprintf("LGCase.agg %s %s %s %s %s", paren(outer.el.t.lean()), ginit(outer.init).lean(), paren(gwrite(outer.write).lean()), c.sliceTerm(outer.el.sl, false), ret)
		case *ast.AssignStmt:
			switch {
			case s.Tok == token.ASSIGN && len(s.Lhs) == 2 && len(s.Rhs) == 1:
				// `f, ok = <map>[t]` followed by `if !ok { return <error> }`
				f, okv := identName(s.Lhs[0]), identName(s.Lhs[1])
				ie, ok := unparen(s.Rhs[0]).(*ast.IndexExpr)
				if !ok || f == "" || okv == "" || !sc.bound(f) || !sc.bound(okv) || n+1 >= len(stmts) {
					return gcop(src(s))
				}
				m := identName(ie.X)
				keys, ok := c.funcMapKeys(m)
				if !ok || sc.bound(m) || c.eval(ie.Index, sc).kind != "fnstr" {
					return gcop(src(s))
				}
				ifs, ok := stmts[n+1].(*ast.IfStmt)
				if !ok || ifs.Init != nil || ifs.Else != nil || src(unparen(ifs.Cond)) != "!"+okv || len(ifs.Body.List) != 1 {
					return gcop(src(stmts[n+1]))
				}
				if r, ok := ifs.Body.List[0].(*ast.ReturnStmt); !ok || len(r.Results) != 2 || !c.isErrExpr(r.Results[1], sc) {
					return gcop(src(stmts[n+1]))
				}
				var ks []*lt
				for _, k := range keys {
					ks = append(ks, lh(leanStr(k)))
				}
				sc.set(f, &lv{kind: "aggf", t: lh("LGSrc.builtin", ll(ks))})
				n++
			case s.Tok == token.ASSIGN && len(s.Lhs) == 1 && len(s.Rhs) == 1:
				// `f = t`
				f := identName(s.Lhs[0])
				v := c.eval(s.Rhs[0], sc)
				if f == "" || !sc.bound(f) || v.kind != "fn" || v.sig == nil || v.sig.head != "LSig.aggFn" {
					return gcop(src(s))
				}
				sc.set(f, &lv{kind: "aggf", t: lh("LGSrc.user")})
			case s.Tok == token.DEFINE && len(s.Lhs) == 1 && len(s.Rhs) == 1:
				name := identName(s.Lhs[0])
				v := c.eval(s.Rhs[0], sc)
				if name == "" || v.kind != "slice" {
					return gcop(src(s))
				}
				sc.vars[name] = v
			default:
				return gcop(src(s))
			}
		case *ast.RangeStmt:
			if outer != nil || !c.fillLoop(s, sc) {
				return gcop(src(s))
			}
			// the slice the loop filled
			for name, v := range sc.vars {
				if v.kind == "slice" && v.write != "" && v.el != nil && v.el.kind == "aggcall" {
					outer, outerName = v, name
				}
			}
			if outer == nil {
				return gcop(src(s))
			}
		default:
			return gcop(src(s))
		}
	}
	_ = outerName
	return gcop("no return")
}

// aggregateFn translates Column.Aggregate of one package
func (c *lctx) aggregateFn() *gfn {
	f := &gfn{dflt: gcop("no default")}
	fd, ok := c.fns["Column.Aggregate"]
	if !ok || fd.Recv == nil || len(fd.Recv.List) != 1 || len(fd.Recv.List[0].Names) != 1 || c.cellsField == "" || c.entryKind == "" {
		f.dflt = gcop("no function Column.Aggregate")
		return f
	}
	base := newLscope(nil)
	base.vars[fd.Recv.List[0].Names[0].Name] = &lv{kind: "col", which: "recv"}
	c.bindParams(fd, base)
	stmts := fd.Body.List
	n := 0
	var pre []ast.Stmt
	for ; n < len(stmts); n++ {
		if _, ok := stmts[n].(*ast.TypeSwitchStmt); ok {
			break
		}
		if _, ok := stmts[n].(*ast.DeclStmt); !ok {
			f.dflt = gcop(src(stmts[n]))
			return f
		}
		pre = append(pre, stmts[n])
	}
	if n == len(stmts) {
		f.dflt = gcop("no type switch")
		return f
	}
	sw := stmts[n].(*ast.TypeSwitchStmt)
	rest := stmts[n+1:]
	bindName := ""
	var ta *ast.TypeAssertExpr
	if sw.Init == nil {
		switch a := sw.Assign.(type) {
		case *ast.AssignStmt:
			if a.Tok == token.DEFINE && len(a.Lhs) == 1 && len(a.Rhs) == 1 {
				bindName = identName(a.Lhs[0])
				ta, _ = unparen(a.Rhs[0]).(*ast.TypeAssertExpr)
			}
		case *ast.ExprStmt:
			ta, _ = unparen(a.X).(*ast.TypeAssertExpr)
		}
	}
	if ta == nil || ta.Type != nil || c.eval(ta.X, base).kind != "fnraw" {
		f.dflt = gcop(src(sw))
		return f
	}
	hasDefault := false
	for _, cl := range sw.Body.List {
		cc := cl.(*ast.CaseClause)
		all := append(append(append([]ast.Stmt{}, pre...), cc.Body...), rest...)
		sc := base.clone()
		if cc.List == nil {
			hasDefault = true
			f.dflt = c.aggCase(all, sc)
			continue
		}
		if len(cc.List) != 1 {
			f.cases = append(f.cases, [2]string{"LSig.other " + leanStr(src(cc)), gcop(src(cc))})
			continue
		}
		sig := c.sigOf(cc.List[0])
		if bindName != "" && bindName != "_" {
			sc.vars[bindName] = fnRole(sig)
		}
		f.cases = append(f.cases, [2]string{paren(sig.lean()), c.aggCase(all, sc)})
	}
	if !hasDefault {
		// a value of another type leaves the switch without a function
		f.dflt = gcop("no default case")
	}
	return f
}

// subsetTerm translates what the interface method `Subset(index)` returns
func (c *lctx) subsetTerm() string {
	fd, ok := c.fns["Column.Subset"]
	if !ok || fd.Recv == nil || len(paramNames(fd)) != 1 || c.cellsField == "" {
		return "LGSub.opaque \"no method Subset\""
	}
	vs := c.inlineVals(fd, &lv{kind: "col", which: "recv"}, []*lv{{kind: "group"}})
	if len(vs) != 1 || vs[0].kind != "colOf" {
		// the string column: its cells are a byte blob behind packed pointers; what the method returns is tied by the hash
		// of the body of the helper it calls (a fact of QF/Gen/Facts.lean) only
		if c.entryKind == "pointer" && len(fd.Body.List) == 1 {
			if r, ok := fd.Body.List[0].(*ast.ReturnStmt); ok && len(r.Results) == 1 {
				if call, ok := unparen(r.Results[0]).(*ast.CallExpr); ok && len(call.Args) == 1 && identName(call.Args[0]) == paramNames(fd)[0] {
					if sel, ok := call.Fun.(*ast.SelectorExpr); ok && len(fd.Recv.List) == 1 && len(fd.Recv.List[0].Names) == 1 && identName(sel.X) == fd.Recv.List[0].Names[0].Name {
						if sub, ok := c.fns["Column."+sel.Sel.Name]; ok {
							if t, ok := c.blobSubset(sub); ok {
								return t
							}
							return fmt.Sprintf("LGSub.byText %d", fnv64(src(sub.Body)))
						}
					}
				}
			}
		}
		return "LGSub.opaque " + leanStr(src(fd.Body))
	}
	var keeps []string
	for _, k := range vs[0].keeps {
		keeps = append(keeps, leanStr(k))
	}
	return fmt.Sprintf("LGSub.cells %s [%s]", c.sliceTerm(vs[0].sl, true), strings.Join(keeps, ", "))
}

// blobSubset translates the string column's `subset(index)`: the new pointers and the new byte blob are made in one loop
func (c *lctx) blobSubset(fd *ast.FuncDecl) (string, bool) {
	names := paramNames(fd)
	if fd.Recv == nil || len(fd.Recv.List) != 1 || len(fd.Recv.List[0].Names) != 1 || len(names) != 1 || names[0] == "_" {
		return "", false
	}
	sc := newLscope(nil)
	sc.vars[fd.Recv.List[0].Names[0].Name] = &lv{kind: "col", which: "recv"}
	sc.vars[names[0]] = &lv{kind: "group"}
	dataVar, ptrVar, offVar := "", "", ""
	var dataInit, ptrInit *lt
	offInit := 0
	stmts := fd.Body.List
	n := 0
	for ; n < len(stmts); n++ {
		def, ok := stmts[n].(*ast.AssignStmt)
		if !ok || def.Tok != token.DEFINE || len(def.Lhs) != 1 || len(def.Rhs) != 1 {
			break
		}
		name := identName(def.Lhs[0])
		if name == "" || name == "_" || sc.bound(name) {
			return "", false
		}
		if v := c.eval(def.Rhs[0], sc); v.kind == "int" && offVar == "" {
			offVar, offInit = name, v.n
			sc.vars[name] = &lv{kind: "running"}
			continue
		} else if v.kind == "slice" && v.write == "" && (v.init != "full" || v.over == "group") {
			mk := unparen(def.Rhs[0]).(*ast.CallExpr)
			at, ok := mk.Args[0].(*ast.ArrayType)
			if !ok {
				return "", false
			}
			if src(at.Elt) == "byte" && dataVar == "" {
				dataVar, dataInit = name, ginit(v.init)
				sc.vars[name] = &lv{kind: "bdata"}
				continue
			}
			if nm, ok := c.pkgSel(at.Elt, sc, "strings"); ok && nm == "Pointer" && ptrVar == "" {
				ptrVar, ptrInit = name, ginit(v.init)
				sc.vars[name] = &lv{kind: "bptrs"}
				continue
			}
		}
		return "", false
	}
	if dataVar == "" || ptrVar == "" || offVar == "" || n+2 != len(stmts) {
		return "", false
	}
	loop, ok := stmts[n].(*ast.RangeStmt)
	ret, ok2 := stmts[n+1].(*ast.ReturnStmt)
	if !ok || !ok2 || loop.Tok != token.DEFINE || c.eval(loop.X, sc).kind != "group" || len(ret.Results) != 1 {
		return "", false
	}
	in := newLscope(sc)
	for _, kv := range [][2]interface{}{{loop.Key, "pos"}, {loop.Value, "row"}} {
		if e, _ := kv[0].(ast.Expr); e != nil {
			nm := identName(e)
			if nm == "" {
				return "", false
			}
			if nm != "_" {
				in.vars[nm] = &lv{kind: kv[1].(string)}
			}
		}
	}
	cellAt := ""
	sameCell := func(v *lv) bool {
		if v.which != "recv" || (v.idx != "row" && v.idx != "pos") {
			return false
		}
		if cellAt == "" {
			cellAt = v.idx
		}
		return cellAt == v.idx
	}
	bint := func(e ast.Expr, sc *lscope) *lt {
		switch v := c.eval(e, sc); {
		case v.kind == "running":
			return lh("BInt.running")
		case v.kind == "plen" && sameCell(v):
			return lh("BInt.cellLen")
		case v.kind == "off" && sameCell(v):
			return lh("BInt.cellOff")
		case v.kind == "int" && v.n >= 0:
			return lh("BInt.lit", lh(strconv.Itoa(v.n)))
		}
		return ls("BInt.opaque", src(e))
	}
	bflag := func(e ast.Expr, sc *lscope) *lt {
		switch v := c.eval(e, sc); {
		case v.kind == "null" && sameCell(v):
			return lh("BFlag.cellNull")
		case v.kind == "bool":
			return lh("BFlag.lit", lh(strconv.FormatBool(v.b)))
		}
		return ls("BFlag.opaque", src(e))
	}
	var body []string
	emit := func(cond string, act *lt) { body = append(body, fmt.Sprintf("(BCond.%s, %s)", cond, act.lean())) }
	var walk func(stmts []ast.Stmt, cond string, sc *lscope) bool
	walk = func(stmts []ast.Stmt, cond string, sc *lscope) bool {
		for _, st := range stmts {
			switch s := st.(type) {
			case *ast.AssignStmt:
				switch {
				case s.Tok == token.DEFINE && len(s.Lhs) == 1 && len(s.Rhs) == 1:
					nm := identName(s.Lhs[0])
					v := c.eval(s.Rhs[0], sc)
					if nm == "" || v.kind != "entry" || !sameCell(v) {
						return false
					}
					sc.vars[nm] = v
				case s.Tok == token.ASSIGN && len(s.Lhs) == 1 && len(s.Rhs) == 1:
					if ie, ok := unparen(s.Lhs[0]).(*ast.IndexExpr); ok {
						// pointers[slot] = NewPointer(off, len, null)
						slot := c.eval(ie.Index, sc)
						call, ok := unparen(s.Rhs[0]).(*ast.CallExpr)
						if !ok || c.eval(ie.X, sc).kind != "bptrs" || (slot.kind != "pos" && slot.kind != "row") || len(call.Args) != 3 {
							return false
						}
						if nm, ok := c.pkgSel(call.Fun, sc, "strings"); !ok || nm != "NewPointer" {
							return false
						}
						emit(cond, lh("BAct.setPtr", lh("LIdx."+slot.kind), bint(call.Args[0], sc), bint(call.Args[1], sc), bflag(call.Args[2], sc)))
						continue
					}
					l := c.eval(s.Lhs[0], sc)
					switch l.kind {
					case "bdata":
						// data = append(data, c.data[off:off+len]...)
						call, ok := unparen(s.Rhs[0]).(*ast.CallExpr)
						if !ok || identName(call.Fun) != "append" || sc.bound("append") || len(call.Args) != 2 || call.Ellipsis == token.NoPos || c.eval(call.Args[0], sc).kind != "bdata" {
							return false
						}
						if v := c.eval(call.Args[1], sc); v.kind == "bytes" && sameCell(v) {
							emit(cond, lh("BAct.appendBytes", lh("BInt.cellOff"), lh("BInt.cellLen")))
						} else {
							emit(cond, ls("BAct.opaque", src(s)))
						}
					case "running":
						// offset = offset + n
						b, ok := unparen(s.Rhs[0]).(*ast.BinaryExpr)
						if !ok || b.Op != token.ADD || c.eval(b.X, sc).kind != "running" {
							return false
						}
						emit(cond, lh("BAct.advance", bint(b.Y, sc)))
					default:
						return false
					}
				case s.Tok == token.ADD_ASSIGN && len(s.Lhs) == 1 && len(s.Rhs) == 1 && c.eval(s.Lhs[0], sc).kind == "running":
					emit(cond, lh("BAct.advance", bint(s.Rhs[0], sc)))
				default:
					return false
				}
			case *ast.IfStmt:
				if s.Init != nil || s.Else != nil || cond != "always" {
					return false
				}
				v := c.eval(s.Cond, sc)
				if (v.kind != "null" && v.kind != "notnull") || !sameCell(v) {
					return false
				}
				inner := "isNull"
				if v.kind == "notnull" {
					inner = "notNull"
				}
				if !walk(s.Body.List, inner, newLscope(sc)) {
					return false
				}
			default:
				return false
			}
		}
		return true
	}
	if !walk(loop.Body.List, "always", in) || cellAt == "" {
		return "", false
	}
	// return Column{data: <blob>, pointers: <pointers>}
	cl, ok := unparen(ret.Results[0]).(*ast.CompositeLit)
	if !ok || identName(cl.Type) != "Column" || len(cl.Elts) != 2 {
		return "", false
	}
	got := map[string]string{}
	for _, el := range cl.Elts {
		kvp, ok := el.(*ast.KeyValueExpr)
		if !ok {
			return "", false
		}
		got[identName(kvp.Key)] = c.eval(kvp.Value, sc).kind
	}
	if got[c.cellsField] != "bptrs" || got["data"] != "bdata" {
		return "", false
	}
	return fmt.Sprintf("LGSub.blob { ptrInit := %s, dataInit := %s, offInit := %d, cellAt := LIdx.%s, body := [%s] }",
		ptrInit.lean(), dataInit.lean(), offInit, cellAt, strings.Join(body, ", ")), true
}

// grouperTail translates Grouper.Aggregate after its guards
func grouperTail(repo string, root map[string]*ast.File) string {
	c := &lctx{repo: repo, module: modulePath(repo), pkg: "qframe", files: root, fns: funcDecls(root), imports: importsOf(root),
		types: typeDecls(root), other: map[string]map[string]*ast.FuncDecl{}, otherTypes: map[string]map[string]ast.Expr{}, entryKind: "none"}
	firstInit, firstWrite, firstRow, key := ls("LGInit.opaque", "?").lean(), ls("LGWrite.opaque", "?").lean(), "none", ls("LGKey.opaque", "?").lean()
	passes, asc := false, false
	render := func() string {
		return fmt.Sprintf("{ firstInit := %s, firstWrite := %s, firstRow := %s, key := %s, aggPassesGroups := %v, indexAscending := %v }",
			firstInit, paren(firstWrite), firstRow, paren(key), passes, asc)
	}
	fd, ok := c.fns["Grouper.Aggregate"]
	if !ok || fd.Recv == nil || len(fd.Recv.List) != 1 || len(fd.Recv.List[0].Names) != 1 {
		return render()
	}
	recv := fd.Recv.List[0].Names[0].Name
	// the fields of the grouper by type: the groups, the names of the grouped columns, the columns by name
	groupsF, namesF, byNameF := "", "", ""
	if st, ok := c.types["Grouper"].(*ast.StructType); ok {
		for _, fl := range st.Fields.List {
			for _, n := range fl.Names {
				switch t := fl.Type.(type) {
				case *ast.ArrayType:
					if t.Len == nil {
						if name, ok := c.pkgSel(t.Elt, nil, "index"); ok && name == "Int" {
							groupsF = n.Name
						} else if src(t.Elt) == "string" {
							namesF = n.Name
						}
					}
				case *ast.MapType:
					if src(t.Key) == "string" && src(t.Value) == "namedColumn" {
						byNameF = n.Name
					}
				}
			}
		}
	}
	if groupsF == "" || namesF == "" || byNameF == "" {
		return render()
	}
	groups := recv + "." + groupsF
	sc := newLscope(nil)
	firstVar := ""
	stmts := fd.Body.List
	for n := 0; n < len(stmts); n++ {
		switch s := stmts[n].(type) {
		case *ast.AssignStmt:
			// `first := make(index.Int, len(g.indices))`
			if s.Tok == token.DEFINE && len(s.Lhs) == 1 && len(s.Rhs) == 1 && firstVar == "" {
				if mk, ok := unparen(s.Rhs[0]).(*ast.CallExpr); ok && identName(mk.Fun) == "make" && len(mk.Args) >= 2 {
					if name, ok := c.pkgSel(mk.Args[0], nil, "index"); ok && name == "Int" {
						firstVar = identName(s.Lhs[0])
						switch {
						case len(mk.Args) == 2 && src(mk.Args[1]) == "len("+groups+")":
							firstInit = "LGInit.full"
							sc.vars[firstVar] = &lv{kind: "slice", init: "full", over: "groups"}
						case isIntLit(mk.Args[1], "0"):
							firstInit = "LGInit.empty"
							sc.vars[firstVar] = &lv{kind: "slice", init: "empty"}
						}
					}
				}
			}
		case *ast.RangeStmt:
			switch {
			case src(s.X) == groups && firstVar != "" && firstRow == "none":
				// `for i, ix := range g.indices { first[i] = ix[k] }`
				sc.vars["\x00groups"] = &lv{kind: "groups"}
				loop := *s
				loop.X = ast.NewIdent("\x00groups")
				if c.fillLoop(&loop, sc) {
					if v, ok := sc.get(firstVar); ok && v.kind == "slice" && v.el != nil && v.el.kind == "grouprow" {
						firstWrite = gwrite(v.write).lean()
						firstRow = fmt.Sprintf("(some %d)", v.el.n)
					}
				}
			case src(s.X) == recv+"."+namesF:
				if keyLoop(s, recv, byNameF, firstVar) {
					key = "LGKey.subsetOfFirst"
				} else {
					key = ls("LGKey.opaque", src(s.Body)).lean()
				}
			default:
				// the loop over the aggregations: `<col>.Aggregate(g.indices, <agg>.Fn)`
				v := identName(s.Value)
				ast.Inspect(s.Body, func(nd ast.Node) bool {
					if call, ok := nd.(*ast.CallExpr); ok && len(call.Args) == 2 {
						if sel, ok := call.Fun.(*ast.SelectorExpr); ok && sel.Sel.Name == "Aggregate" {
							passes = src(call.Args[0]) == groups && v != "" && src(call.Args[1]) == v+"."+aggFnField(c)
						}
					}
					return true
				})
			}
		case *ast.ReturnStmt:
			// `return QFrame{…, index: index.NewAscending(uint32(len(g.indices)))}`
			if len(s.Results) == 1 && n == len(stmts)-1 {
				if cl, ok := unparen(s.Results[0]).(*ast.CompositeLit); ok && identName(cl.Type) == "QFrame" {
					for _, el := range cl.Elts {
						if kvp, ok := el.(*ast.KeyValueExpr); ok {
							if call, ok := unparen(kvp.Value).(*ast.CallExpr); ok && len(call.Args) == 1 {
								if name, ok := c.pkgSel(call.Fun, nil, "index"); ok && name == "NewAscending" && src(call.Args[0]) == "uint32(len("+groups+"))" {
									asc = true
								}
							}
						}
					}
				}
			}
		}
	}
	return render()
}

// the field of the Aggregation struct that holds the function (its type is an interface type of package types)
func aggFnField(c *lctx) string {
	st, ok := c.types["Aggregation"].(*ast.StructType)
	if !ok {
		return "?"
	}
	for _, fl := range st.Fields.List {
		if sel, ok := fl.Type.(*ast.SelectorExpr); ok && len(fl.Names) == 1 {
			if id, ok := sel.X.(*ast.Ident); ok {
				if rel, ok := c.repoPkg(id.Name); ok {
					c.otherFns(rel)
					if _, ok := c.otherTypes[rel][sel.Sel.Name].(*ast.InterfaceType); ok {
						return fl.Names[0].Name
					}
				}
			}
		}
	}
	return "?"
}

// keyLoop: `for i, name := range g.<names> { col := g.<byName>[name]; col.pos = i; col.Column = col.Subset(<first>);
// <newByName>[name] = col; <newColumns> = append(<newColumns>, col) }`
func keyLoop(s *ast.RangeStmt, recv, byNameF, firstVar string) bool {
	i, name := identName(s.Key), identName(s.Value)
	if s.Tok != token.DEFINE || i == "" || name == "" || i == "_" || name == "_" || firstVar == "" || len(s.Body.List) != 5 {
		return false
	}
	def, ok := s.Body.List[0].(*ast.AssignStmt)
	if !ok || def.Tok != token.DEFINE || len(def.Lhs) != 1 || len(def.Rhs) != 1 || src(def.Rhs[0]) != recv+"."+byNameF+"["+name+"]" {
		return false
	}
	col := identName(def.Lhs[0])
	if col == "" {
		return false
	}
	as := func(st ast.Stmt) (string, string, bool) {
		a, ok := st.(*ast.AssignStmt)
		if !ok || a.Tok != token.ASSIGN || len(a.Lhs) != 1 || len(a.Rhs) != 1 {
			return "", "", false
		}
		return src(a.Lhs[0]), src(a.Rhs[0]), true
	}
	l1, r1, ok1 := as(s.Body.List[1])
	l2, r2, ok2 := as(s.Body.List[2])
	l3, r3, ok3 := as(s.Body.List[3])
	l4, r4, ok4 := as(s.Body.List[4])
	if !ok1 || !ok2 || !ok3 || !ok4 {
		return false
	}
	if l1 != col+".pos" || r1 != i {
		return false
	}
	if l2 != col+".Column" || r2 != col+".Subset("+firstVar+")" {
		return false
	}
	if !strings.HasSuffix(l3, "["+name+"]") || r3 != col {
		return false
	}
	return r4 == "append("+l4+", "+col+")"
}

func aggregateLean(repo string, pkgs []string, ctxs map[string]*lctx, root map[string]*ast.File) string {
	var b strings.Builder
	b.WriteString("/-- `Column.Aggregate` of every column package as a term of `QF.LGFn`, by role: (package, term) -/\ndef aggregateAst : List (String × LGFn) := [\n")
	for i, p := range pkgs {
		if i > 0 {
			b.WriteString(",\n")
		}
		fmt.Fprintf(&b, "  (%s, %s)", leanStr(p), ctxs[p].aggregateFn().lean())
	}
	b.WriteString("]\n\n/-- what `Column.Subset(index)` of every column package returns, as a term of `QF.LGSub`: (package, term) -/\ndef subsetAst : List (String × LGSub) := [\n")
	for i, p := range pkgs {
		if i > 0 {
			b.WriteString(",\n")
		}
		fmt.Fprintf(&b, "  (%s, %s)", leanStr(p), ctxs[p].subsetTerm())
	}
	b.WriteString("]\n\n/-- `Grouper.Aggregate` after its guards: the first-row index, the key columns, the call of `Column.Aggregate`, the index of the result -/\ndef grouperTailAst : LGTail :=\n  " + grouperTail(repo, root) + "\n\n")
	return b.String()
}
