package main

// Translation go/ast → JS / CW / PS / FX / IE (lean/QF/Core/WExpr.lean) of the three WRITERS of /repo/qframe.go:
//
//	func (qf QFrame) ToJSON(writer io.Writer) error                                  → JS (a byte template program)
//	func (qf QFrame) ToCSV(writer io.Writer, confFuncs ...csv.ToConfigFunc) error    → CW (a record program)
//	func (qf QFrame) String() string                                                 → PS (a layout program)
//	func fixLengthString(s string, pad string, desiredLen int) string                → FX
//	func Max / Min(x, y int) int of internal/math/integer                            → IE
//	func (c Column) DataType() types.DataType of the five column packages            → the type names `String()` abbreviates
//
// The bodies are walked statement by statement after the guard on the frame's error (`if qf.Err != nil { return … }`,
// which belongs to the guard prefix translated by gast.go) and, for ToCSV, the fetching of the configuration.
//
// Everything is found by ROLE, never by identifier name: the receiver is the frame; its column slice, name map, index and
// error are found by their TYPES in `type QFrame struct` (gast.go: scanStructs); the `string` field of the element type of
// the column slice is the column's name; the first parameter is the writer; locals get their role from their declaration
// (`buf := []byte{…}` the byte buffer, `tbl := make([][]byte, len(qf.columns))` + the loop that fills it the prepared table,
// `for i, ix := range qf.index` the row position and the row, `for j, col := range qf.columns` the column position and the
// column, `w := csv.NewWriter(writer)` the csv writer, `x := <pure expression>` an abbreviation that is inlined, …).
// A cell may only be read as `<column>.AppendByteStringAt(<buffer>, <row>)` / `<column>.StringAt(<row>, <literal>)` with
// `<row>` the row loop's index value (`ix`, or `qf.index[i]` for its position `i`).
//
// Fixed vocabulary: the method names `AppendByteStringAt`, `StringAt`, `Write`, `Flush`, `Error`, `Len`, `DataType`; the
// fields `Columns` / `Header` of the csv configuration and `NewToConfig`; `AppendQuotedString` of internal/strings,
// `NewWriter` of encoding/csv, `Join` of strings, `Sprintf` of fmt, `Max` / `Min` of internal/math/integer (packages are
// recognised by their import PATH, whatever they are called locally); the builtins `append`, `len`, `make`, `string`, `byte`.
// Whatever is not understood becomes `.opaque "<text>"`; such a program has no semantics in the model and the proofs of
// QF/Props/C14WriterGen.lean, C13WriterGen.lean, C09StringGen.lean fail on it.

import (
	"fmt"
	"go/ast"
	"go/token"
	"path/filepath"
	"strconv"
	"strings"
)

// wsym is what a Go name stands for while a writer is translated.
type wsym struct {
	// recv | writer | conf | tbl | buf | err | rowpos | rowix | colpos | col                                    (ToJSON)
	// sel | rec | cols | csvw | gpos | gname | found | okflag | selElem | recElem | rcol                         (ToCSV)
	// result | rowS | widths | pe (an inlined abbreviation, term t)                                             (String)
	kind string
	t    *lt
}

type wscope map[string]wsym

func (s wscope) clone() wscope {
	r := wscope{}
	for k, v := range s {
		r[k] = v
	}
	return r
}

func (s wscope) has(kind string) bool {
	for _, v := range s {
		if v.kind == kind {
			return true
		}
	}
	return false
}

type wctx struct {
	root       map[string]*ast.FuncDecl
	imports    map[string]string // import name → path (root package)
	colsField  string
	byName     string
	indexField string
	errField   string
	nameField  string // the string field of the element type of the column slice
	elemType   string // the element type of the column slice (namedColumn)
	fixName    string // the function of the root package with the signature (string, string, int) string that String() calls
}

func newWctx(rootFiles, strFiles map[string]*ast.File) *wctx {
	g := newGctx(rootFiles, strFiles)
	c := &wctx{root: funcDecls(rootFiles), imports: importsOf(rootFiles)}
	if st := g.structs["QFrame"]; st != nil {
		c.colsField, c.byName, c.indexField, c.errField = st.colsField, st.byName, st.indexField, st.errField
	}
	c.nameField = g.elemName
	for _, f := range rootFiles {
		for _, d := range f.Decls {
			gd, ok := d.(*ast.GenDecl)
			if !ok || gd.Tok != token.TYPE {
				continue
			}
			for _, sp := range gd.Specs {
				ts := sp.(*ast.TypeSpec)
				st, ok := ts.Type.(*ast.StructType)
				if !ok || ts.Name.Name != "QFrame" {
					continue
				}
				for _, fl := range st.Fields.List {
					for _, n := range fl.Names {
						if at, ok := fl.Type.(*ast.ArrayType); ok && n.Name == c.colsField {
							c.elemType = src(at.Elt)
						}
					}
				}
			}
		}
	}
	return c
}

// is `e` the (unshadowed) import name of the package with this path (exact, or a suffix starting with "/")?
func (c *wctx) isPkg(sc wscope, e ast.Expr, want string) bool {
	id, ok := unparen(e).(*ast.Ident)
	if !ok {
		return false
	}
	if _, bound := sc[id.Name]; bound {
		return false
	}
	p, ok := c.imports[id.Name]
	if !ok {
		return false
	}
	if strings.HasPrefix(want, "/") {
		return strings.HasSuffix(p, want)
	}
	return p == want
}

func (c *wctx) kindOf(sc wscope, e ast.Expr) string {
	if id, ok := unparen(e).(*ast.Ident); ok {
		return sc[id.Name].kind
	}
	return ""
}

// `recv.<field>`
func (c *wctx) recvField(sc wscope, e ast.Expr, field string) bool {
	sel, ok := unparen(e).(*ast.SelectorExpr)
	return ok && field != "" && sel.Sel.Name == field && c.kindOf(sc, sel.X) == "recv"
}

func wUnbound(sc wscope, e ast.Expr, name string) bool {
	id, ok := unparen(e).(*ast.Ident)
	if !ok || id.Name != name {
		return false
	}
	_, b := sc[name]
	return !b
}

// `len(x)` with x satisfying p
func (c *wctx) lenOf(sc wscope, e ast.Expr, p func(ast.Expr) bool) bool {
	call, ok := unparen(e).(*ast.CallExpr)
	return ok && len(call.Args) == 1 && !call.Ellipsis.IsValid() && wUnbound(sc, call.Fun, "len") && p(call.Args[0])
}

func (c *wctx) isCols(sc wscope) func(ast.Expr) bool {
	return func(e ast.Expr) bool { return c.recvField(sc, e, c.colsField) }
}

func (c *wctx) isIndex(sc wscope) func(ast.Expr) bool {
	return func(e ast.Expr) bool { return c.recvField(sc, e, c.indexField) }
}

// the number of rows: `recv.Len()` (the error is nil after the guard), `len(recv.index)`, `recv.index.Len()`
func (c *wctx) isRowCount(sc wscope, e ast.Expr) bool {
	if c.lenOf(sc, e, c.isIndex(sc)) {
		return true
	}
	call, ok := unparen(e).(*ast.CallExpr)
	if !ok || len(call.Args) != 0 {
		return false
	}
	sel, ok := call.Fun.(*ast.SelectorExpr)
	if !ok || sel.Sel.Name != "Len" {
		return false
	}
	return c.kindOf(sc, sel.X) == "recv" || c.recvField(sc, sel.X, c.indexField)
}

// the row the current round of the row loop is about: the value of the range over the index, or `recv.index[i]`
func (c *wctx) isRow(sc wscope, e ast.Expr) bool {
	e = unparen(e)
	if c.kindOf(sc, e) == "rowix" {
		return true
	}
	ix, ok := e.(*ast.IndexExpr)
	return ok && c.recvField(sc, ix.X, c.indexField) && c.kindOf(sc, ix.Index) == "rowpos"
}

// the column the current round of a loop over the frame's columns is about: the range value, `recv.columns[j]`, or its
// embedded interface value
func (c *wctx) isCol(sc wscope, e ast.Expr, kind string) bool {
	e = unparen(e)
	if c.kindOf(sc, e) == kind {
		return true
	}
	if kind != "col" {
		return false
	}
	if ix, ok := e.(*ast.IndexExpr); ok {
		return c.recvField(sc, ix.X, c.colsField) && c.kindOf(sc, ix.Index) == "colpos"
	}
	if sel, ok := e.(*ast.SelectorExpr); ok && sel.Sel.Name == "Column" {
		return c.isCol(sc, sel.X, kind)
	}
	return false
}

// bytes of a `[]byte{…}` literal, of `byte('x')`, `'x'`, a small integer literal
func wByte(sc wscope, e ast.Expr) (byte, bool) {
	e = unparen(e)
	if call, ok := e.(*ast.CallExpr); ok && len(call.Args) == 1 && wUnbound(sc, call.Fun, "byte") {
		return wByte(sc, call.Args[0])
	}
	bl, ok := e.(*ast.BasicLit)
	if !ok {
		return 0, false
	}
	switch bl.Kind {
	case token.CHAR:
		if v, _, _, err := strconv.UnquoteChar(strings.TrimSuffix(strings.TrimPrefix(bl.Value, "'"), "'"), '\''); err == nil && v < 0x80 {
			return byte(v), true
		}
	case token.INT:
		if v, err := strconv.ParseUint(bl.Value, 0, 8); err == nil {
			return byte(v), true
		}
	}
	return 0, false
}

func isByteSliceType(e ast.Expr) bool {
	at, ok := e.(*ast.ArrayType)
	if !ok || at.Len != nil {
		return false
	}
	id, ok := at.Elt.(*ast.Ident)
	return ok && (id.Name == "byte" || id.Name == "uint8")
}

// `[]byte{'a', 'b'}` / `[]byte("ab")`
func wBytesLit(sc wscope, e ast.Expr) (string, bool) {
	e = unparen(e)
	switch t := e.(type) {
	case *ast.CompositeLit:
		if t.Type == nil || !isByteSliceType(t.Type) {
			return "", false
		}
		var b []byte
		for _, el := range t.Elts {
			v, ok := wByte(sc, el)
			if !ok {
				return "", false
			}
			b = append(b, v)
		}
		return string(b), true
	case *ast.CallExpr:
		if len(t.Args) == 1 && isByteSliceType(t.Fun) {
			return strLit(t.Args[0])
		}
	}
	return "", false
}

func u8Term(b byte) *lt { return lh(strconv.Itoa(int(b))) }

// `if recv.Err != nil { return … }` at the head of a body
func (c *wctx) isErrGuard(sc wscope, st ast.Stmt) bool {
	ifs, ok := st.(*ast.IfStmt)
	if !ok || ifs.Init != nil || ifs.Else != nil || len(ifs.Body.List) != 1 {
		return false
	}
	be, ok := unparen(ifs.Cond).(*ast.BinaryExpr)
	if !ok || be.Op != token.NEQ || !c.recvField(sc, be.X, c.errField) || !isNilIdent(be.Y) {
		return false
	}
	_, ok = ifs.Body.List[0].(*ast.ReturnStmt)
	return ok
}

// `if err != nil { return err }` for the error variable `name`
func isReturnIfErr(st ast.Stmt, name string) bool {
	ifs, ok := st.(*ast.IfStmt)
	if !ok || ifs.Init != nil || ifs.Else != nil || len(ifs.Body.List) != 1 {
		return false
	}
	be, ok := unparen(ifs.Cond).(*ast.BinaryExpr)
	if !ok || be.Op != token.NEQ || !isName(be.X, name) || !isNilIdent(be.Y) {
		return false
	}
	ret, ok := ifs.Body.List[0].(*ast.ReturnStmt)
	return ok && len(ret.Results) == 1 && isName(ret.Results[0], name)
}

// the receiver and the parameters of a writer
func (c *wctx) topScope(fd *ast.FuncDecl, roles ...string) (wscope, bool) {
	sc := wscope{}
	if !recvIs(fd, "QFrame") {
		return sc, false
	}
	for _, n := range fd.Recv.List[0].Names {
		sc[n.Name] = wsym{kind: "recv"}
	}
	names := paramNames(fd)
	if len(names) != len(roles) {
		return sc, false
	}
	for i, n := range names {
		if n != "_" {
			sc[n] = wsym{kind: roles[i]}
		}
	}
	return sc, true
}

// ---------------------------------------------------------------------------------------------------------------------
// ToJSON

func jop(n ast.Node) *lt        { return ls("JS.opaque", src(n)) }
func jopStmts(s []ast.Stmt) *lt { return ls("JS.opaque", stmtsText(s)) }

// `_, err := w.Write(x)` / `_, err = w.Write(x)`: the argument and the error variable
func (c *wctx) jWrite(sc wscope, st ast.Stmt) (ast.Expr, string, bool) {
	as, ok := st.(*ast.AssignStmt)
	if !ok || len(as.Lhs) != 2 || len(as.Rhs) != 1 {
		return nil, "", false
	}
	if id, isID := as.Lhs[0].(*ast.Ident); !isID || id.Name != "_" {
		return nil, "", false
	}
	errID, ok := as.Lhs[1].(*ast.Ident)
	if !ok || errID.Name == "_" {
		return nil, "", false
	}
	if as.Tok == token.ASSIGN && sc[errID.Name].kind != "err" {
		return nil, "", false
	}
	if as.Tok == token.DEFINE {
		if k := sc[errID.Name].kind; k != "" && k != "err" {
			return nil, "", false
		}
	}
	call, ok := unparen(as.Rhs[0]).(*ast.CallExpr)
	if !ok || len(call.Args) != 1 || call.Ellipsis.IsValid() {
		return nil, "", false
	}
	sel, ok := call.Fun.(*ast.SelectorExpr)
	if !ok || sel.Sel.Name != "Write" || c.kindOf(sc, sel.X) != "writer" {
		return nil, "", false
	}
	return call.Args[0], errID.Name, true
}

// what `e` appends to the buffer (the argument of `append`, after the buffer)
func (c *wctx) jSrc(sc wscope, args []ast.Expr, ellipsis bool) *lt {
	if ellipsis {
		if len(args) != 1 {
			return nil
		}
		if s, ok := strLit(args[0]); ok {
			return lh("JSrc.lit", bytesTerm(s))
		}
		if s, ok := wBytesLit(sc, args[0]); ok {
			return lh("JSrc.lit", bytesTerm(s))
		}
		if ix, ok := unparen(args[0]).(*ast.IndexExpr); ok && c.kindOf(sc, ix.X) == "tbl" && c.kindOf(sc, ix.Index) == "colpos" {
			return lh("JSrc.prepared")
		}
		return nil
	}
	var b []byte
	for _, a := range args {
		v, ok := wByte(sc, a)
		if !ok {
			return nil
		}
		b = append(b, v)
	}
	if len(b) == 0 {
		return nil
	}
	return lh("JSrc.lit", bytesTerm(string(b)))
}

// `<strings>.AppendQuotedString(<first>, <col>.name)`: is it, and its first argument
func (c *wctx) jQuoted(sc wscope, e ast.Expr) (ast.Expr, bool) {
	call, ok := unparen(e).(*ast.CallExpr)
	if !ok || len(call.Args) != 2 || call.Ellipsis.IsValid() {
		return nil, false
	}
	sel, ok := call.Fun.(*ast.SelectorExpr)
	if !ok || sel.Sel.Name != "AppendQuotedString" || !c.isPkg(sc, sel.X, "/internal/strings") {
		return nil, false
	}
	nm, ok := unparen(call.Args[1]).(*ast.SelectorExpr)
	if !ok || nm.Sel.Name != c.nameField || c.nameField == "" || !c.isCol(sc, nm.X, "col") {
		return nil, false
	}
	return call.Args[0], true
}

// `buf = <rhs>` for the byte buffer: the statement it is
func (c *wctx) jBufAssign(sc wscope, rhs ast.Expr, k *lt) *lt {
	rhs = unparen(rhs)
	// buf[:0]
	if se, ok := rhs.(*ast.SliceExpr); ok && !se.Slice3 && se.Low == nil && se.High != nil && c.kindOf(sc, se.X) == "buf" && isIntLitVal(se.High, "0") {
		return lh("JS.reset", k)
	}
	if first, ok := c.jQuoted(sc, rhs); ok && c.kindOf(sc, first) == "buf" {
		return lh("JS.emit", lh("JSrc.quotedName"), k)
	}
	call, ok := rhs.(*ast.CallExpr)
	if !ok {
		return nil
	}
	if wUnbound(sc, call.Fun, "append") && len(call.Args) >= 2 && c.kindOf(sc, call.Args[0]) == "buf" {
		if s := c.jSrc(sc, call.Args[1:], call.Ellipsis.IsValid()); s != nil {
			return lh("JS.emit", s, k)
		}
		return nil
	}
	if sel, ok := call.Fun.(*ast.SelectorExpr); ok && sel.Sel.Name == "AppendByteStringAt" && len(call.Args) == 2 && !call.Ellipsis.IsValid() &&
		c.isCol(sc, sel.X, "col") && c.kindOf(sc, call.Args[0]) == "buf" && c.isRow(sc, call.Args[1]) {
		return lh("JS.emitCell", k)
	}
	return nil
}

// `buf[len(buf)-1]`
func (c *wctx) jLastOfBuf(sc wscope, e ast.Expr) bool {
	ix, ok := unparen(e).(*ast.IndexExpr)
	return ok && c.kindOf(sc, ix.X) == "buf" && c.jLenBufMinus1(sc, ix.Index)
}

func (c *wctx) jLenBufMinus1(sc wscope, e ast.Expr) bool {
	be, ok := unparen(e).(*ast.BinaryExpr)
	return ok && be.Op == token.SUB && isIntLitVal(be.Y, "1") &&
		c.lenOf(sc, be.X, func(x ast.Expr) bool { return c.kindOf(sc, x) == "buf" })
}

// `i > 0` for the position of the row loop
func (c *wctx) jRowPosCond(sc wscope, e ast.Expr) bool {
	be, ok := unparen(e).(*ast.BinaryExpr)
	if !ok {
		return false
	}
	switch be.Op {
	case token.GTR, token.NEQ:
		return c.kindOf(sc, be.X) == "rowpos" && isIntLitVal(be.Y, "0")
	case token.LSS:
		return c.kindOf(sc, be.Y) == "rowpos" && isIntLitVal(be.X, "0")
	}
	return false
}

func wBind(sc wscope, e ast.Expr, v wsym) bool {
	if e == nil {
		return true
	}
	id, ok := e.(*ast.Ident)
	if !ok {
		return false
	}
	if id.Name != "_" {
		sc[id.Name] = v
	}
	return true
}

// jBlock translates a statement list; `top`: the body of the function (it must end in a return), else a block that ends
// in `done`.
func (c *wctx) jBlock(stmts []ast.Stmt, sc wscope, top bool, depth int) *lt {
	if len(stmts) == 0 {
		if top {
			return ls("JS.opaque", "no return")
		}
		return lh("JS.done")
	}
	if depth > 60 {
		return jopStmts(stmts)
	}
	rest := stmts[1:]
	next := func(sc wscope) *lt { return c.jBlock(rest, sc, top, depth+1) }
	switch s := stmts[0].(type) {
	case *ast.AssignStmt:
		// the writes
		if arg, errName, ok := c.jWrite(sc, s); ok && len(rest) > 0 {
			inner := sc.clone()
			inner[errName] = wsym{kind: "err"}
			if c.kindOf(sc, arg) == "buf" && isReturnIfErr(rest[0], errName) {
				return lh("JS.write", c.jBlock(rest[1:], inner, top, depth+1))
			}
			if lit, isLit := wBytesLit(sc, arg); isLit && top && len(rest) == 1 {
				if ret, isRet := rest[0].(*ast.ReturnStmt); isRet && len(ret.Results) == 1 && isName(ret.Results[0], errName) {
					return lh("JS.writeLitRet", bytesTerm(lit))
				}
			}
			return jopStmts(stmts)
		}
		if len(s.Lhs) != 1 || len(s.Rhs) != 1 {
			break
		}
		lhs, ok := s.Lhs[0].(*ast.Ident)
		if !ok || lhs.Name == "_" {
			break
		}
		if s.Tok == token.DEFINE {
			if _, bound := sc[lhs.Name]; bound {
				break
			}
			// tbl := make([][]byte, len(recv.columns)); for i, col := range recv.columns { tbl[i] = <src of nil> }
			if call, isCall := unparen(s.Rhs[0]).(*ast.CallExpr); isCall && wUnbound(sc, call.Fun, "make") && len(call.Args) == 2 &&
				src(call.Args[0]) == "[][]byte" && c.lenOf(sc, call.Args[1], c.isCols(sc)) && len(rest) > 0 && !sc.has("tbl") {
				if srcT := c.jPrepLoop(sc, rest[0], lhs.Name); srcT != nil {
					inner := sc.clone()
					inner[lhs.Name] = wsym{kind: "tbl"}
					return lh("JS.prep", srcT, c.jBlock(rest[1:], inner, top, depth+1))
				}
				break
			}
			// buf := []byte{…}
			if lit, isLit := wBytesLit(sc, s.Rhs[0]); isLit && !sc.has("buf") {
				inner := sc.clone()
				inner[lhs.Name] = wsym{kind: "buf"}
				return lh("JS.setBuf", bytesTerm(lit), next(inner))
			}
			break
		}
		if s.Tok == token.ASSIGN && sc[lhs.Name].kind == "buf" {
			if t := c.jBufAssign(sc, s.Rhs[0], next(sc)); t != nil {
				return t
			}
		}
	case *ast.RangeStmt:
		if s.Tok != token.DEFINE && !(s.Key == nil && s.Value == nil) {
			break
		}
		inner := sc.clone()
		switch {
		case c.recvField(sc, s.X, c.indexField) && !sc.has("rowpos") && !sc.has("rowix"):
			if !wBind(inner, s.Key, wsym{kind: "rowpos"}) || !wBind(inner, s.Value, wsym{kind: "rowix"}) {
				break
			}
			return lh("JS.forRows", c.jBlock(s.Body.List, inner, false, depth+1), next(sc))
		case c.recvField(sc, s.X, c.colsField) && !sc.has("colpos") && !sc.has("col"):
			if !wBind(inner, s.Key, wsym{kind: "colpos"}) || !wBind(inner, s.Value, wsym{kind: "col"}) {
				break
			}
			return lh("JS.forCols", c.jBlock(s.Body.List, inner, false, depth+1), next(sc))
		}
	case *ast.IfStmt:
		if s.Init != nil || s.Else != nil {
			break
		}
		if c.jRowPosCond(sc, s.Cond) {
			return lh("JS.ifRowPos", c.jBlock(s.Body.List, sc.clone(), false, depth+1), next(sc))
		}
		// if buf[len(buf)-1] == ',' { buf = buf[:len(buf)-1] }
		if be, ok := unparen(s.Cond).(*ast.BinaryExpr); ok && be.Op == token.EQL && c.jLastOfBuf(sc, be.X) && len(s.Body.List) == 1 {
			if ch, isCh := wByte(sc, be.Y); isCh {
				if as, isAs := s.Body.List[0].(*ast.AssignStmt); isAs && as.Tok == token.ASSIGN && len(as.Lhs) == 1 && len(as.Rhs) == 1 && c.kindOf(sc, as.Lhs[0]) == "buf" {
					if se, isSl := unparen(as.Rhs[0]).(*ast.SliceExpr); isSl && !se.Slice3 && se.Low == nil && se.High != nil && c.kindOf(sc, se.X) == "buf" && c.jLenBufMinus1(sc, se.High) {
						return lh("JS.stripIfLast", u8Term(ch), next(sc))
					}
				}
			}
		}
	case *ast.BlockStmt:
		return c.jBlock(append(append([]ast.Stmt{}, s.List...), rest...), sc.clone(), top, depth+1)
	}
	return jopStmts(stmts)
}

// `for i, col := range recv.columns { tbl[i] = <what a source makes of nil> }`: the source
func (c *wctx) jPrepLoop(sc wscope, st ast.Stmt, tbl string) *lt {
	r, ok := st.(*ast.RangeStmt)
	if !ok || r.Tok != token.DEFINE || !c.recvField(sc, r.X, c.colsField) || len(r.Body.List) != 1 {
		return nil
	}
	inner := sc.clone()
	if r.Key == nil || !wBind(inner, r.Key, wsym{kind: "colpos"}) || !wBind(inner, r.Value, wsym{kind: "col"}) {
		return nil
	}
	as, ok := r.Body.List[0].(*ast.AssignStmt)
	if !ok || as.Tok != token.ASSIGN || len(as.Lhs) != 1 || len(as.Rhs) != 1 {
		return nil
	}
	ix, ok := as.Lhs[0].(*ast.IndexExpr)
	if !ok || !isName(ix.X, tbl) || c.kindOf(inner, ix.Index) != "colpos" {
		return nil
	}
	if _, shadow := inner[tbl]; shadow {
		return nil
	}
	if first, ok := c.jQuoted(inner, as.Rhs[0]); ok && isNilIdent(first) {
		return lh("JSrc.quotedName")
	}
	if lit, ok := wBytesLit(inner, as.Rhs[0]); ok {
		return lh("JSrc.lit", bytesTerm(lit))
	}
	return nil
}

func (c *wctx) toJSON() *lt {
	fd, ok := c.root["QFrame.ToJSON"]
	if !ok {
		return ls("JS.opaque", "?missing")
	}
	sc, ok := c.topScope(fd, "writer")
	if !ok {
		return ls("JS.opaque", "signature")
	}
	body := fd.Body.List
	if len(body) == 0 || !c.isErrGuard(sc, body[0]) {
		return ls("JS.opaque", "guard")
	}
	return c.jBlock(body[1:], sc, true, 0)
}

// ---------------------------------------------------------------------------------------------------------------------
// ToCSV

func cop(n ast.Node) *lt        { return ls("CW.opaque", src(n)) }
func copStmts(s []ast.Stmt) *lt { return ls("CW.opaque", stmtsText(s)) }

// `conf.<field>` of the csv configuration
func (c *wctx) confField(sc wscope, e ast.Expr, field string) bool {
	sel, ok := unparen(e).(*ast.SelectorExpr)
	return ok && sel.Sel.Name == field && c.kindOf(sc, sel.X) == "conf"
}

func (c *wctx) isGiven(sc wscope) func(ast.Expr) bool {
	return func(e ast.Expr) bool { return c.confField(sc, e, "Columns") }
}

// a non-nil error built on the spot: a call into qerrors, `errors.New`, `fmt.Errorf`
func (c *wctx) isNewError(sc wscope, e ast.Expr) bool {
	call, ok := unparen(e).(*ast.CallExpr)
	if !ok {
		return false
	}
	sel, ok := call.Fun.(*ast.SelectorExpr)
	if !ok {
		return false
	}
	switch {
	case c.isPkg(sc, sel.X, "/qerrors"):
		return sel.Sel.Name == "New"
	case c.isPkg(sc, sel.X, "errors"):
		return sel.Sel.Name == "New"
	case c.isPkg(sc, sel.X, "fmt"):
		return sel.Sel.Name == "Errorf"
	}
	return false
}

// `recv.<name map>[<the current given name>]`
func (c *wctx) isLookupOf(sc wscope, e ast.Expr, kind string) bool {
	ix, ok := unparen(e).(*ast.IndexExpr)
	return ok && c.recvField(sc, ix.X, c.byName) && c.isElemOf(sc, ix.Index, kind)
}

// the current element of a loop: its range value, or `<list>[<position>]` for the given names
func (c *wctx) isElemOf(sc wscope, e ast.Expr, kind string) bool {
	if c.kindOf(sc, e) == kind {
		return true
	}
	if kind == "gname" {
		if ix, ok := unparen(e).(*ast.IndexExpr); ok {
			return c.confField(sc, ix.X, "Columns") && c.kindOf(sc, ix.Index) == "gpos"
		}
	}
	return false
}

// `make(<type>, …)` with the given type text: the remaining arguments
func makeArgs(sc wscope, e ast.Expr, typ string) ([]ast.Expr, bool) {
	call, ok := unparen(e).(*ast.CallExpr)
	if !ok || !wUnbound(sc, call.Fun, "make") || len(call.Args) < 2 || len(call.Args) > 3 || src(call.Args[0]) != typ {
		return nil, false
	}
	return call.Args[1:], true
}

// an empty slice of the type: `make(T, 0)`, `make(T, 0, <any length expression without effects>)`, `T{}`
func (c *wctx) isEmptySlice(sc wscope, e ast.Expr, typ string) bool {
	if args, ok := makeArgs(sc, e, typ); ok {
		if !isIntLitVal(args[0], "0") {
			return false
		}
		if len(args) == 2 {
			return c.lenOf(sc, args[1], func(x ast.Expr) bool {
				k := c.kindOf(sc, x)
				return k == "sel" || k == "rec" || k == "cols" || c.recvField(sc, x, c.colsField) || c.recvField(sc, x, c.indexField)
			})
		}
		return true
	}
	if cl, ok := unparen(e).(*ast.CompositeLit); ok && cl.Type != nil && src(cl.Type) == typ && len(cl.Elts) == 0 {
		return true
	}
	return false
}

// `x = append(x, <item>)` for the list variable of kind `kind`: the item
func (c *wctx) pushOf(sc wscope, s *ast.AssignStmt, kind string) ast.Expr {
	if s.Tok != token.ASSIGN || len(s.Lhs) != 1 || len(s.Rhs) != 1 || c.kindOf(sc, s.Lhs[0]) != kind {
		return nil
	}
	call, ok := unparen(s.Rhs[0]).(*ast.CallExpr)
	if !ok || !wUnbound(sc, call.Fun, "append") || len(call.Args) != 2 || call.Ellipsis.IsValid() || c.kindOf(sc, call.Args[0]) != kind ||
		identName(call.Args[0]) != identName(s.Lhs[0]) {
		return nil
	}
	return call.Args[1]
}

// `<col>.StringAt(<row>, "<literal>")` for the current element of kind `kind`: the literal
func (c *wctx) stringAtOf(sc wscope, e ast.Expr, kind string) (string, bool) {
	call, ok := unparen(e).(*ast.CallExpr)
	if !ok || len(call.Args) != 2 || call.Ellipsis.IsValid() {
		return "", false
	}
	sel, ok := call.Fun.(*ast.SelectorExpr)
	if !ok || sel.Sel.Name != "StringAt" || !c.isCol(sc, sel.X, kind) || !c.isRow(sc, call.Args[0]) {
		return "", false
	}
	return strLit(call.Args[1])
}

// `err := w.Write(rec)` / `err = w.Write(rec)`: the error variable
func (c *wctx) cWrite(sc wscope, st ast.Stmt) (string, bool) {
	as, ok := st.(*ast.AssignStmt)
	if !ok || len(as.Lhs) != 1 || len(as.Rhs) != 1 {
		return "", false
	}
	errID, ok := as.Lhs[0].(*ast.Ident)
	if !ok || errID.Name == "_" {
		return "", false
	}
	k := sc[errID.Name].kind
	if (as.Tok == token.ASSIGN && k != "err") || (as.Tok == token.DEFINE && k != "" && k != "err") || (as.Tok != token.ASSIGN && as.Tok != token.DEFINE) {
		return "", false
	}
	call, ok := unparen(as.Rhs[0]).(*ast.CallExpr)
	if !ok || len(call.Args) != 1 || call.Ellipsis.IsValid() || c.kindOf(sc, call.Args[0]) != "rec" {
		return "", false
	}
	sel, ok := call.Fun.(*ast.SelectorExpr)
	if !ok || sel.Sel.Name != "Write" || c.kindOf(sc, sel.X) != "csvw" {
		return "", false
	}
	return errID.Name, true
}

// `for i := 0; i < <row count>; i++`: the loop variable
func (c *wctx) countingLoop(sc wscope, s *ast.ForStmt, bound func(ast.Expr) bool) (string, bool) {
	init, ok := s.Init.(*ast.AssignStmt)
	if !ok || init.Tok != token.DEFINE || len(init.Lhs) != 1 || len(init.Rhs) != 1 || !isIntLitVal(init.Rhs[0], "0") {
		return "", false
	}
	v, ok := init.Lhs[0].(*ast.Ident)
	if !ok || v.Name == "_" {
		return "", false
	}
	if _, shadow := sc[v.Name]; shadow {
		return "", false
	}
	cond, ok := unparen(s.Cond).(*ast.BinaryExpr)
	if !ok || cond.Op != token.LSS || !isName(cond.X, v.Name) || !bound(cond.Y) {
		return "", false
	}
	post, ok := s.Post.(*ast.IncDecStmt)
	if !ok || post.Tok != token.INC || !isName(post.X, v.Name) {
		return "", false
	}
	// the body must not assign to the loop variable
	bad := false
	ast.Inspect(s.Body, func(n ast.Node) bool {
		switch t := n.(type) {
		case *ast.AssignStmt:
			for _, l := range t.Lhs {
				if isName(l, v.Name) {
					bad = true
				}
			}
		case *ast.IncDecStmt:
			if isName(t.X, v.Name) {
				bad = true
			}
		case *ast.UnaryExpr:
			if t.Op == token.AND {
				bad = true
			}
		}
		return true
	})
	return v.Name, !bad
}

func (c *wctx) cBlock(stmts []ast.Stmt, sc wscope, top bool, depth int) *lt {
	if len(stmts) == 0 {
		if top {
			return ls("CW.opaque", "no return")
		}
		return lh("CW.done")
	}
	if depth > 80 {
		return copStmts(stmts)
	}
	rest := stmts[1:]
	next := func(sc wscope) *lt { return c.cBlock(rest, sc, top, depth+1) }
	block := func(b *ast.BlockStmt, sc wscope) *lt { return c.cBlock(b.List, sc.clone(), false, depth+1) }
	selType := "[]" + c.elemType
	switch s := stmts[0].(type) {
	case *ast.DeclStmt:
		// var sel []namedColumn
		gd, ok := s.Decl.(*ast.GenDecl)
		if !ok || gd.Tok != token.VAR || len(gd.Specs) != 1 {
			break
		}
		vs, ok := gd.Specs[0].(*ast.ValueSpec)
		if !ok || len(vs.Names) != 1 || len(vs.Values) != 0 || vs.Type == nil || src(vs.Type) != selType || sc.has("sel") {
			break
		}
		if _, bound := sc[vs.Names[0].Name]; bound || vs.Names[0].Name == "_" {
			break
		}
		inner := sc.clone()
		inner[vs.Names[0].Name] = wsym{kind: "sel"}
		return next(inner)
	case *ast.ReturnStmt:
		if len(s.Results) != 1 {
			break
		}
		if c.isNewError(sc, s.Results[0]) {
			return lh("CW.retErr")
		}
		if call, ok := unparen(s.Results[0]).(*ast.CallExpr); ok && len(call.Args) == 0 {
			if sel, ok := call.Fun.(*ast.SelectorExpr); ok && sel.Sel.Name == "Error" && c.kindOf(sc, sel.X) == "csvw" {
				return lh("CW.retWriterErr")
			}
		}
	case *ast.ExprStmt:
		if call, ok := unparen(s.X).(*ast.CallExpr); ok && len(call.Args) == 0 {
			if sel, ok := call.Fun.(*ast.SelectorExpr); ok && sel.Sel.Name == "Flush" && c.kindOf(sc, sel.X) == "csvw" {
				return lh("CW.flush", next(sc))
			}
		}
	case *ast.AssignStmt:
		if errName, ok := c.cWrite(sc, s); ok && len(rest) > 0 && isReturnIfErr(rest[0], errName) {
			return lh("CW.writeRec", c.cBlock(rest[1:], sc, top, depth+1))
		}
		if item := c.pushOf(sc, s, "rec"); item != nil {
			if nm, ok := unparen(item).(*ast.SelectorExpr); ok && nm.Sel.Name == c.nameField && c.kindOf(sc, nm.X) == "selElem" {
				return lh("CW.recPush", lh("CWItem.selName"), next(sc))
			}
			if na, ok := c.stringAtOf(sc, item, "rcol"); ok {
				return lh("CW.recPush", lh("CWItem.cellString", bytesTerm(na)), next(sc))
			}
			break
		}
		if item := c.pushOf(sc, s, "cols"); item != nil {
			if c.isLookupOf(sc, item, "recElem") {
				return lh("CW.colsPush", lh("CWItem.recLookup"), next(sc))
			}
			break
		}
		if len(s.Lhs) != 1 || len(s.Rhs) != 1 {
			break
		}
		// sel[i] = col
		if ix, ok := s.Lhs[0].(*ast.IndexExpr); ok && s.Tok == token.ASSIGN {
			if c.kindOf(sc, ix.X) == "sel" && c.kindOf(sc, ix.Index) == "gpos" && c.kindOf(sc, s.Rhs[0]) == "found" {
				return lh("CW.selSet", next(sc))
			}
			break
		}
		lhs, ok := s.Lhs[0].(*ast.Ident)
		if !ok || lhs.Name == "_" {
			break
		}
		if s.Tok == token.ASSIGN {
			switch sc[lhs.Name].kind {
			case "sel":
				if args, ok := makeArgs(sc, s.Rhs[0], selType); ok && len(args) == 1 && c.lenOf(sc, args[0], c.isCols(sc)) {
					return lh("CW.selAlloc", next(sc))
				}
				if c.recvField(sc, s.Rhs[0], c.colsField) {
					return lh("CW.selFrame", next(sc))
				}
			case "rec":
				if se, ok := unparen(s.Rhs[0]).(*ast.SliceExpr); ok && !se.Slice3 && se.Low == nil && se.High != nil && isName(se.X, lhs.Name) && isIntLitVal(se.High, "0") {
					return lh("CW.recReset", next(sc))
				}
			}
			break
		}
		if s.Tok != token.DEFINE {
			break
		}
		if _, bound := sc[lhs.Name]; bound {
			break
		}
		inner := sc.clone()
		switch {
		case c.isElemOf(sc, s.Rhs[0], "gname") && c.kindOf(sc, s.Rhs[0]) != "gname":
			// cName := conf.Columns[i]
			inner[lhs.Name] = wsym{kind: "gname"}
			return next(inner)
		case c.isEmptySlice(sc, s.Rhs[0], "[]string") && !sc.has("rec"):
			inner[lhs.Name] = wsym{kind: "rec"}
			return lh("CW.recNew", next(inner))
		case !sc.has("cols") && func() bool {
			for _, t := range c.columnSliceTypes(sc) {
				if c.isEmptySlice(sc, s.Rhs[0], t) {
					return true
				}
			}
			return false
		}():
			inner[lhs.Name] = wsym{kind: "cols"}
			return lh("CW.colsNew", next(inner))
		}
		// w := csv.NewWriter(writer)
		if call, ok := unparen(s.Rhs[0]).(*ast.CallExpr); ok && len(call.Args) == 1 && !sc.has("csvw") {
			if sel, ok := call.Fun.(*ast.SelectorExpr); ok && sel.Sel.Name == "NewWriter" && c.isPkg(sc, sel.X, "encoding/csv") && c.kindOf(sc, call.Args[0]) == "writer" {
				inner[lhs.Name] = wsym{kind: "csvw"}
				return lh("CW.newWriter", next(inner))
			}
		}
	case *ast.IfStmt:
		if s.Init == nil {
			// if conf.Columns != nil { … } else { … }
			if be, ok := unparen(s.Cond).(*ast.BinaryExpr); ok && be.Op == token.NEQ && c.confField(sc, be.X, "Columns") && isNilIdent(be.Y) {
				els := lh("CW.done")
				if s.Else != nil {
					eb, ok := s.Else.(*ast.BlockStmt)
					if !ok {
						break
					}
					els = block(eb, sc)
				}
				return lh("CW.ifGiven", block(s.Body, sc), els, next(sc))
			}
			// if len(conf.Columns) != len(recv.columns) { return <error> }
			if be, ok := unparen(s.Cond).(*ast.BinaryExpr); ok && be.Op == token.NEQ && s.Else == nil && len(s.Body.List) == 1 &&
				((c.lenOf(sc, be.X, c.isGiven(sc)) && c.lenOf(sc, be.Y, c.isCols(sc))) || (c.lenOf(sc, be.Y, c.isGiven(sc)) && c.lenOf(sc, be.X, c.isCols(sc)))) {
				if ret, ok := s.Body.List[0].(*ast.ReturnStmt); ok && len(ret.Results) == 1 && c.isNewError(sc, ret.Results[0]) {
					return lh("CW.rejectIfLenNe", next(sc))
				}
				break
			}
			// if conf.Header { … }
			if c.confField(sc, s.Cond, "Header") && s.Else == nil {
				return lh("CW.ifHeader", block(s.Body, sc), next(sc))
			}
			break
		}
		// if col, ok := recv.byName[<given name>]; !ok { miss } else { hit }    (or `; ok { hit } else { miss }`)
		init, ok := s.Init.(*ast.AssignStmt)
		if !ok {
			break
		}
		if errName, isW := c.cWrite(sc, init); isW && s.Else == nil && isReturnIfErr(&ast.IfStmt{Cond: s.Cond, Body: s.Body}, errName) {
			return lh("CW.writeRec", next(sc))
		}
		if init.Tok != token.DEFINE || len(init.Lhs) != 2 || len(init.Rhs) != 1 || !c.isLookupOf(sc, init.Rhs[0], "gname") {
			break
		}
		colID, ok1 := init.Lhs[0].(*ast.Ident)
		okID, ok2 := init.Lhs[1].(*ast.Ident)
		if !ok1 || !ok2 || okID.Name == "_" {
			break
		}
		hitSc, missSc := sc.clone(), sc.clone()
		if colID.Name != "_" {
			hitSc[colID.Name] = wsym{kind: "found"}
			delete(missSc, colID.Name)
			missSc[colID.Name] = wsym{kind: "zero"}
		}
		hitSc[okID.Name] = wsym{kind: "okflag"}
		missSc[okID.Name] = wsym{kind: "okflag"}
		var hitB, missB []ast.Stmt
		var elseB []ast.Stmt
		switch e := s.Else.(type) {
		case nil:
		case *ast.BlockStmt:
			elseB = e.List
		default:
			return copStmts(stmts)
		}
		if u, isNot := unparen(s.Cond).(*ast.UnaryExpr); isNot && u.Op == token.NOT && isName(u.X, okID.Name) {
			missB, hitB = s.Body.List, elseB
		} else if isName(s.Cond, okID.Name) {
			hitB, missB = s.Body.List, elseB
		} else {
			break
		}
		return lh("CW.lookupGiven", c.cBlock(missB, missSc, false, depth+1), c.cBlock(hitB, hitSc, false, depth+1), next(sc))
	case *ast.RangeStmt:
		if s.Tok != token.DEFINE && !(s.Key == nil && s.Value == nil) {
			break
		}
		inner := sc.clone()
		loop := func(head string, keyKind, valKind string) *lt {
			if sc.has(valKind) || (keyKind != "" && sc.has(keyKind)) {
				return nil
			}
			if keyKind == "" {
				if s.Key != nil && !isName(s.Key, "_") && identName(s.Key) != "_" {
					return nil
				}
			} else if !wBind(inner, s.Key, wsym{kind: keyKind}) {
				return nil
			}
			if !wBind(inner, s.Value, wsym{kind: valKind}) {
				return nil
			}
			return lh(head, c.cBlock(s.Body.List, inner, false, depth+1), next(sc))
		}
		var t *lt
		switch {
		case c.confField(sc, s.X, "Columns"):
			t = loop("CW.forGiven", "gpos", "gname")
		case c.kindOf(sc, s.X) == "sel":
			t = loop("CW.forSel", "", "selElem")
		case c.kindOf(sc, s.X) == "rec":
			t = loop("CW.forRec", "", "recElem")
		case c.kindOf(sc, s.X) == "cols":
			t = loop("CW.forResolved", "", "rcol")
		case c.recvField(sc, s.X, c.indexField):
			if !sc.has("rowpos") && !sc.has("rowix") && wBind(inner, s.Key, wsym{kind: "rowpos"}) && wBind(inner, s.Value, wsym{kind: "rowix"}) {
				t = lh("CW.forRows", c.cBlock(s.Body.List, inner, false, depth+1), next(sc))
			}
		}
		if t != nil {
			return t
		}
	case *ast.ForStmt:
		if sc.has("rowpos") {
			break
		}
		if v, ok := c.countingLoop(sc, s, func(e ast.Expr) bool { return c.isRowCount(sc, e) }); ok {
			inner := sc.clone()
			inner[v] = wsym{kind: "rowpos"}
			return lh("CW.forRows", c.cBlock(s.Body.List, inner, false, depth+1), next(sc))
		}
	case *ast.BlockStmt:
		return c.cBlock(append(append([]ast.Stmt{}, s.List...), rest...), sc.clone(), top, depth+1)
	}
	return copStmts(stmts)
}

// the slice types a list of columns may have: `[]column.Column` under the local name of internal/column
func (c *wctx) columnSliceTypes(sc wscope) []string {
	var res []string
	for name, p := range c.imports {
		if _, bound := sc[name]; !bound && strings.HasSuffix(p, "/internal/column") {
			res = append(res, "[]"+name+".Column")
		}
	}
	return res
}

func (c *wctx) toCSV() *lt {
	fd, ok := c.root["QFrame.ToCSV"]
	if !ok {
		return ls("CW.opaque", "?missing")
	}
	sc, ok := c.topScope(fd, "writer", "conffuncs")
	if !ok {
		return ls("CW.opaque", "signature")
	}
	body := fd.Body.List
	// the prefix (gast.go): the configuration is fetched, the frame's error is checked — in either order
	seenConf, seenGuard := false, false
	for len(body) > 0 {
		if !seenGuard && c.isErrGuard(sc, body[0]) {
			seenGuard = true
			body = body[1:]
			continue
		}
		if as, isAs := body[0].(*ast.AssignStmt); !seenConf && isAs && as.Tok == token.DEFINE && len(as.Lhs) == 1 && len(as.Rhs) == 1 {
			if call, isCall := unparen(as.Rhs[0]).(*ast.CallExpr); isCall && len(call.Args) == 1 && c.kindOf(sc, call.Args[0]) == "conffuncs" {
				if sel, isSel := call.Fun.(*ast.SelectorExpr); isSel && sel.Sel.Name == "NewToConfig" && c.isPkg(sc, sel.X, "/config/csv") {
					if id, isID := as.Lhs[0].(*ast.Ident); isID && id.Name != "_" {
						sc[id.Name] = wsym{kind: "conf"}
						seenConf = true
						body = body[1:]
						continue
					}
				}
			}
		}
		break
	}
	if !seenConf || !seenGuard {
		return ls("CW.opaque", "prefix")
	}
	return c.cBlock(body, sc, true, 0)
}

// ---------------------------------------------------------------------------------------------------------------------
// String()

func pop(n ast.Node) *lt        { return ls("PS.opaque", src(n)) }
func popStmts(s []ast.Stmt) *lt { return ls("PS.opaque", stmtsText(s)) }

// pval is an expression of String(): its term and whether it is a string ("s") or an int ("i")
type pval struct {
	t   *lt
	typ string
}

// the function of the root package with the signature (string, string, int) string
func (c *wctx) findFix() string {
	name := ""
	for n, fd := range c.root {
		if fd.Recv != nil || fd.Type.Results == nil || len(fd.Type.Results.List) != 1 || src(fd.Type.Results.List[0].Type) != "string" {
			continue
		}
		if strings.Join(flatTypes(fd.Type.Params), ",") != "string,string,int" {
			continue
		}
		if name != "" {
			return ""
		}
		name = n
	}
	return name
}

func (c *wctx) pExpr(e ast.Expr, sc wscope) *pval {
	e = unparen(e)
	str := func(t *lt) *pval { return &pval{t, "s"} }
	num := func(t *lt) *pval { return &pval{t, "i"} }
	switch t := e.(type) {
	case *ast.BasicLit:
		switch t.Kind {
		case token.STRING:
			if v, err := strconv.Unquote(t.Value); err == nil {
				return str(lh("PE.str", bytesTerm(v)))
			}
		case token.INT:
			if v, err := strconv.ParseInt(t.Value, 0, 32); err == nil {
				return num(lh("PE.num", lh(strconv.FormatInt(v, 10))))
			}
		}
	case *ast.Ident:
		if v := sc[t.Name]; v.kind == "pes" {
			return str(v.t)
		} else if v.kind == "pei" {
			return num(v.t)
		}
	case *ast.SelectorExpr:
		if t.Sel.Name == c.nameField && c.nameField != "" && c.isCol(sc, t.X, "col") {
			return str(lh("PE.colName"))
		}
	case *ast.BinaryExpr:
		if t.Op == token.ADD {
			a, b := c.pExpr(t.X, sc), c.pExpr(t.Y, sc)
			if a != nil && b != nil && a.typ == "s" && b.typ == "s" {
				return str(lh("PE.cat", a.t, b.t))
			}
		}
	case *ast.SliceExpr:
		if t.Slice3 || t.Low != nil || t.High == nil {
			break
		}
		bl, ok := unparen(t.High).(*ast.BasicLit)
		if !ok || bl.Kind != token.INT {
			break
		}
		n, err := strconv.ParseUint(bl.Value, 0, 16)
		if x := c.pExpr(t.X, sc); err == nil && x != nil && x.typ == "s" {
			return str(lh("PE.sliceTo", lh(strconv.FormatUint(n, 10)), x.t))
		}
	case *ast.IndexExpr:
		if c.kindOf(sc, t.X) == "widths" && c.kindOf(sc, t.Index) == "colpos" {
			return num(lh("PE.width"))
		}
	case *ast.CallExpr:
		if t.Ellipsis.IsValid() {
			break
		}
		switch {
		case c.isRowCount(sc, t):
			return num(lh("PE.nrows"))
		case c.lenOf(sc, t, c.isCols(sc)):
			return num(lh("PE.ncols"))
		case wUnbound(sc, t.Fun, "len") && len(t.Args) == 1:
			if x := c.pExpr(t.Args[0], sc); x != nil && x.typ == "s" {
				return num(lh("PE.len", x.t))
			}
			return nil
		case wUnbound(sc, t.Fun, "string") && len(t.Args) == 1:
			// string(<col>.DataType())
			if call, ok := unparen(t.Args[0]).(*ast.CallExpr); ok && len(call.Args) == 0 {
				if sel, ok := call.Fun.(*ast.SelectorExpr); ok && sel.Sel.Name == "DataType" && c.isCol(sc, sel.X, "col") {
					return str(lh("PE.typeName"))
				}
			}
			return nil
		case c.fixName != "" && wUnbound(sc, t.Fun, c.fixName) && len(t.Args) == 3:
			a, b, w := c.pExpr(t.Args[0], sc), c.pExpr(t.Args[1], sc), c.pExpr(t.Args[2], sc)
			if a != nil && b != nil && w != nil && a.typ == "s" && b.typ == "s" && w.typ == "i" {
				return str(lh("PE.fix", a.t, b.t, w.t))
			}
			return nil
		}
		if na, ok := c.stringAtOf(sc, t, "col"); ok {
			return str(lh("PE.cellStr", bytesTerm(na)))
		}
		sel, ok := t.Fun.(*ast.SelectorExpr)
		if !ok {
			break
		}
		if c.isPkg(sc, sel.X, "/internal/math/integer") && (sel.Sel.Name == "Max" || sel.Sel.Name == "Min") && len(t.Args) == 2 {
			a, b := c.pExpr(t.Args[0], sc), c.pExpr(t.Args[1], sc)
			if a != nil && b != nil && a.typ == "i" && b.typ == "i" {
				return num(lh("PE."+strings.ToLower(sel.Sel.Name), a.t, b.t))
			}
			return nil
		}
		if c.isPkg(sc, sel.X, "fmt") && sel.Sel.Name == "Sprintf" && len(t.Args) >= 1 {
			format, ok := strLit(t.Args[0])
			if !ok {
				return nil
			}
			// literal text and %d verbs only
			var acc *lt
			add := func(x *lt) {
				if acc == nil {
					acc = x
				} else {
					acc = lh("PE.cat", acc, x)
				}
			}
			args := t.Args[1:]
			for len(format) > 0 {
				i := strings.IndexByte(format, '%')
				if i < 0 {
					add(lh("PE.str", bytesTerm(format)))
					break
				}
				if i > 0 {
					add(lh("PE.str", bytesTerm(format[:i])))
				}
				if i+1 >= len(format) || format[i+1] != 'd' || len(args) == 0 {
					return nil
				}
				a := c.pExpr(args[0], sc)
				if a == nil || a.typ != "i" {
					return nil
				}
				add(lh("PE.itoa", a.t))
				args = args[1:]
				format = format[i+2:]
			}
			if len(args) != 0 || acc == nil {
				return nil
			}
			return str(acc)
		}
	}
	return nil
}

// `strings.Join(<list of kind>, "<sep>")`: the separator
func (c *wctx) joinOf(sc wscope, e ast.Expr, kind string) (string, bool) {
	call, ok := unparen(e).(*ast.CallExpr)
	if !ok || len(call.Args) != 2 || call.Ellipsis.IsValid() || c.kindOf(sc, call.Args[0]) != kind {
		return "", false
	}
	sel, ok := call.Fun.(*ast.SelectorExpr)
	if !ok || sel.Sel.Name != "Join" || !c.isPkg(sc, sel.X, "strings") {
		return "", false
	}
	return strLit(call.Args[1])
}

func (c *wctx) pBlock(stmts []ast.Stmt, sc wscope, top bool, depth int) *lt {
	if len(stmts) == 0 {
		if top {
			return ls("PS.opaque", "no return")
		}
		return lh("PS.done")
	}
	if depth > 80 {
		return popStmts(stmts)
	}
	rest := stmts[1:]
	next := func(sc wscope) *lt { return c.pBlock(rest, sc, top, depth+1) }
	switch s := stmts[0].(type) {
	case *ast.ReturnStmt:
		if len(s.Results) == 1 && top {
			if sep, ok := c.joinOf(sc, s.Results[0], "result"); ok {
				return lh("PS.retJoin", bytesTerm(sep))
			}
		}
	case *ast.AssignStmt:
		if len(s.Lhs) != 1 || len(s.Rhs) != 1 {
			break
		}
		if item := c.pushOf(sc, s, "result"); item != nil {
			if sep, ok := c.joinOf(sc, item, "rowS"); ok {
				return lh("PS.pushJoin", bytesTerm(sep), next(sc))
			}
			if v := c.pExpr(item, sc); v != nil && v.typ == "s" {
				return lh("PS.push", v.t, next(sc))
			}
			break
		}
		if ix, ok := s.Lhs[0].(*ast.IndexExpr); ok && s.Tok == token.ASSIGN && c.kindOf(sc, ix.Index) == "colpos" {
			v := c.pExpr(s.Rhs[0], sc)
			switch c.kindOf(sc, ix.X) {
			case "widths":
				if v != nil && v.typ == "i" {
					return lh("PS.setWidth", v.t, next(sc))
				}
			case "rowS":
				if v != nil && v.typ == "s" {
					return lh("PS.setRow", v.t, next(sc))
				}
			}
			break
		}
		lhs, ok := s.Lhs[0].(*ast.Ident)
		if !ok || lhs.Name == "_" || s.Tok != token.DEFINE {
			break
		}
		if _, bound := sc[lhs.Name]; bound {
			break
		}
		inner := sc.clone()
		switch {
		case c.isEmptySlice(sc, s.Rhs[0], "[]string") && !sc.has("result"):
			inner[lhs.Name] = wsym{kind: "result"}
			return lh("PS.allocResult", next(inner))
		default:
			if args, ok := makeArgs(sc, s.Rhs[0], "[]string"); ok && len(args) == 1 && c.lenOf(sc, args[0], c.isCols(sc)) && !sc.has("rowS") {
				inner[lhs.Name] = wsym{kind: "rowS"}
				return lh("PS.allocRow", next(inner))
			}
			if args, ok := makeArgs(sc, s.Rhs[0], "[]int"); ok && len(args) == 1 && c.lenOf(sc, args[0], c.isCols(sc)) && !sc.has("widths") {
				inner[lhs.Name] = wsym{kind: "widths"}
				return lh("PS.allocWidths", next(inner))
			}
			// an abbreviation: a pure expression that is inlined (it must not mention the mutable lists)
			if v := c.pExpr(s.Rhs[0], sc); v != nil && !strings.Contains(v.t.lean(), "PE.width") {
				inner[lhs.Name] = wsym{kind: "pe" + v.typ, t: v.t}
				return next(inner)
			}
		}
	case *ast.RangeStmt:
		if s.Tok != token.DEFINE && !(s.Key == nil && s.Value == nil) {
			break
		}
		if c.recvField(sc, s.X, c.colsField) && !sc.has("colpos") && !sc.has("col") {
			inner := sc.clone()
			if wBind(inner, s.Key, wsym{kind: "colpos"}) && wBind(inner, s.Value, wsym{kind: "col"}) {
				return lh("PS.forCols", c.pBlock(s.Body.List, inner, false, depth+1), next(sc))
			}
		}
	case *ast.ForStmt:
		if sc.has("rowpos") {
			break
		}
		var bound *pval
		if v, ok := c.countingLoop(sc, s, func(e ast.Expr) bool {
			bound = c.pExpr(e, sc)
			return bound != nil && bound.typ == "i"
		}); ok {
			inner := sc.clone()
			inner[v] = wsym{kind: "rowpos"}
			return lh("PS.forRowsTo", bound.t, c.pBlock(s.Body.List, inner, false, depth+1), next(sc))
		}
	case *ast.IfStmt:
		if s.Init != nil || s.Else != nil {
			break
		}
		be, ok := unparen(s.Cond).(*ast.BinaryExpr)
		if !ok {
			break
		}
		x, y := be.X, be.Y
		if be.Op == token.LSS {
			x, y = y, x
		} else if be.Op != token.GTR {
			break
		}
		a, b := c.pExpr(x, sc), c.pExpr(y, sc)
		if a != nil && b != nil && a.typ == "i" && b.typ == "i" {
			return lh("PS.ifGt", a.t, b.t, c.pBlock(s.Body.List, sc.clone(), false, depth+1), next(sc))
		}
	case *ast.BlockStmt:
		return c.pBlock(append(append([]ast.Stmt{}, s.List...), rest...), sc.clone(), top, depth+1)
	}
	return popStmts(stmts)
}

func (c *wctx) stringFn() *lt {
	fd, ok := c.root["QFrame.String"]
	if !ok {
		return ls("PS.opaque", "?missing")
	}
	sc, ok := c.topScope(fd)
	if !ok {
		return ls("PS.opaque", "signature")
	}
	body := fd.Body.List
	if len(body) == 0 || !c.isErrGuard(sc, body[0]) {
		return ls("PS.opaque", "guard")
	}
	return c.pBlock(body[1:], sc, true, 0)
}

// ---- fixLengthString, Max, Min: small functions of ints and strings ----

type fscopeW map[string]*pval // parameter / abbreviation → term

func cmpTerm(op token.Token) string {
	switch op {
	case token.GTR:
		return "ICmp.gt"
	case token.LSS:
		return "ICmp.lt"
	case token.GEQ:
		return "ICmp.ge"
	case token.LEQ:
		return "ICmp.le"
	}
	return ""
}

func (c *wctx) fxExpr(e ast.Expr, sc fscopeW, imports map[string]string) *pval {
	e = unparen(e)
	switch t := e.(type) {
	case *ast.Ident:
		if v, ok := sc[t.Name]; ok {
			return v
		}
	case *ast.BasicLit:
		switch t.Kind {
		case token.STRING:
			if v, err := strconv.Unquote(t.Value); err == nil {
				return &pval{lh("FXS.lit", bytesTerm(v)), "s"}
			}
		case token.INT:
			if v, err := strconv.ParseInt(t.Value, 0, 32); err == nil {
				return &pval{lh("FXI.lit", lh(strconv.FormatInt(v, 10))), "i"}
			}
		}
	case *ast.BinaryExpr:
		a, b := c.fxExpr(t.X, sc, imports), c.fxExpr(t.Y, sc, imports)
		if a == nil || b == nil {
			return nil
		}
		switch {
		case t.Op == token.ADD && a.typ == "s" && b.typ == "s":
			return &pval{lh("FXS.cat", a.t, b.t), "s"}
		case t.Op == token.SUB && a.typ == "i" && b.typ == "i":
			return &pval{lh("FXI.sub", a.t, b.t), "i"}
		}
	case *ast.SliceExpr:
		if t.Slice3 || t.Low != nil || t.High == nil {
			return nil
		}
		x, hi := c.fxExpr(t.X, sc, imports), c.fxExpr(t.High, sc, imports)
		if x != nil && hi != nil && x.typ == "s" && hi.typ == "i" {
			return &pval{lh("FXS.sliceTo", x.t, hi.t), "s"}
		}
	case *ast.CallExpr:
		if t.Ellipsis.IsValid() {
			return nil
		}
		if id, ok := t.Fun.(*ast.Ident); ok && id.Name == "len" && len(t.Args) == 1 {
			if _, shadow := sc["len"]; shadow {
				return nil
			}
			// only `len(s)` of the first parameter has a term
			if x := c.fxExpr(t.Args[0], sc, imports); x != nil && x.t.lean() == "FXS.s" {
				return &pval{lh("FXI.lenS"), "i"}
			}
			return nil
		}
		if sel, ok := t.Fun.(*ast.SelectorExpr); ok && sel.Sel.Name == "Repeat" && len(t.Args) == 2 {
			if id, ok := sel.X.(*ast.Ident); ok && imports[id.Name] == "strings" {
				if _, shadow := sc[id.Name]; shadow {
					return nil
				}
				x, n := c.fxExpr(t.Args[0], sc, imports), c.fxExpr(t.Args[1], sc, imports)
				if x != nil && n != nil && x.typ == "s" && n.typ == "i" {
					return &pval{lh("FXS.rep", x.t, n.t), "s"}
				}
			}
		}
	}
	return nil
}

// a body of `if a <cmp> b { … return }`, `x := <expr>`, `return <expr>`: the decision tree (head: "FX" or "IE")
func (c *wctx) fxBlock(stmts []ast.Stmt, sc fscopeW, imports map[string]string, head string, depth int) *lt {
	bad := func() *lt {
		if len(stmts) == 0 {
			return ls(head+".opaque", "no return")
		}
		return ls(head+".opaque", stmtsText(stmts))
	}
	if len(stmts) == 0 || depth > 40 {
		return bad()
	}
	rest := stmts[1:]
	switch s := stmts[0].(type) {
	case *ast.ReturnStmt:
		if len(s.Results) != 1 {
			return bad()
		}
		v := c.fxExpr(s.Results[0], sc, imports)
		if v == nil {
			return bad()
		}
		if head == "IE" {
			if v.typ != "i" {
				return bad()
			}
			return v.t
		}
		if v.typ != "s" {
			return bad()
		}
		return lh("FX.ret", v.t)
	case *ast.AssignStmt:
		if s.Tok != token.DEFINE || len(s.Lhs) != 1 || len(s.Rhs) != 1 {
			return bad()
		}
		id, ok := s.Lhs[0].(*ast.Ident)
		if !ok || id.Name == "_" {
			return bad()
		}
		if _, bound := sc[id.Name]; bound {
			return bad()
		}
		v := c.fxExpr(s.Rhs[0], sc, imports)
		if v == nil {
			return bad()
		}
		inner := fscopeW{}
		for k, x := range sc {
			inner[k] = x
		}
		inner[id.Name] = v
		return c.fxBlock(rest, inner, imports, head, depth+1)
	case *ast.IfStmt:
		if s.Init != nil {
			return bad()
		}
		be, ok := unparen(s.Cond).(*ast.BinaryExpr)
		if !ok || cmpTerm(be.Op) == "" {
			return bad()
		}
		a, b := c.fxExpr(be.X, sc, imports), c.fxExpr(be.Y, sc, imports)
		if a == nil || b == nil || a.typ != "i" || b.typ != "i" {
			return bad()
		}
		els := rest
		if s.Else != nil {
			eb, ok := s.Else.(*ast.BlockStmt)
			if !ok {
				return bad()
			}
			els = append(append([]ast.Stmt{}, eb.List...), rest...)
		}
		then := append(append([]ast.Stmt{}, s.Body.List...), rest...)
		return lh(head+".ite", lh(cmpTerm(be.Op)), a.t, b.t, c.fxBlock(then, sc, imports, head, depth+1), c.fxBlock(els, sc, imports, head, depth+1))
	}
	return bad()
}

func (c *wctx) fixLength() *lt {
	if c.fixName == "" {
		return ls("FX.opaque", "?missing")
	}
	fd := c.root[c.fixName]
	names := paramNames(fd)
	if len(names) != 3 {
		return ls("FX.opaque", "parameters")
	}
	sc := fscopeW{}
	for i, n := range names {
		if n != "_" {
			sc[n] = []*pval{{lh("FXS.s"), "s"}, {lh("FXS.pad"), "s"}, {lh("FXI.w"), "i"}}[i]
		}
	}
	return c.fxBlock(fd.Body.List, sc, c.imports, "FX", 0)
}

// `func Max(x, y int) int` / `Min` of internal/math/integer
func intFn(repo, name string) *lt {
	files := parseDir(filepath.Join(repo, "internal", "math", "integer"))
	fd, ok := funcDecls(files)[name]
	if !ok {
		return ls("IE.opaque", "?missing")
	}
	if fd.Recv != nil || strings.Join(flatTypes(fd.Type.Params), ",") != "int,int" || fd.Type.Results == nil || len(fd.Type.Results.List) != 1 || src(fd.Type.Results.List[0].Type) != "int" {
		return ls("IE.opaque", "signature")
	}
	names := paramNames(fd)
	sc := fscopeW{}
	for i, n := range names {
		if n != "_" {
			sc[n] = []*pval{{lh("IE.x"), "i"}, {lh("IE.y"), "i"}}[i]
		}
	}
	c := &wctx{}
	return c.fxBlock(fd.Body.List, sc, importsOf(files), "IE", 0)
}

// the string `Column.DataType()` of a column package returns: `return types.X` with X a string constant of package types,
// or a string literal (possibly under a conversion)
func dataTypeName(repo, pkg string) (string, bool) {
	files := parseDir(filepath.Join(repo, "internal", pkg))
	fd, ok := funcDecls(files)["Column.DataType"]
	if !ok || len(paramNames(fd)) != 0 || len(fd.Body.List) != 1 {
		return "", false
	}
	ret, ok := fd.Body.List[0].(*ast.ReturnStmt)
	if !ok || len(ret.Results) != 1 {
		return "", false
	}
	e := unparen(ret.Results[0])
	if call, ok := e.(*ast.CallExpr); ok && len(call.Args) == 1 {
		// a conversion types.DataType("…")
		if sel, ok := call.Fun.(*ast.SelectorExpr); ok && sel.Sel.Name == "DataType" {
			e = unparen(call.Args[0])
		}
	}
	if v, ok := strLit(e); ok {
		return v, true
	}
	sel, ok := e.(*ast.SelectorExpr)
	if !ok {
		return "", false
	}
	id, ok := sel.X.(*ast.Ident)
	if !ok || !strings.HasSuffix(importsOf(files)[id.Name], "/types") {
		return "", false
	}
	v, ok := stringConsts(parseDir(filepath.Join(repo, "types")))[sel.Sel.Name]
	return v, ok
}

// ---------------------------------------------------------------------------------------------------------------------

// writersLean renders QF/Gen/Writers.lean.
func writersLean(repo string, rootFiles, strFiles map[string]*ast.File) string {
	c := newWctx(rootFiles, strFiles)
	c.fixName = c.findFix()
	var b strings.Builder
	b.WriteString("/- GENERATED on every run by /verif/go/cmd/extract from /repo's source (tie T1). Do not edit. -/\nimport QF.Core.WExpr\nnamespace QF.Gen\n\n")
	b.WriteString("/-- `QFrame.ToJSON` after its guard, as a byte template program -/\ndef toJsonAst : JS :=\n  " + c.toJSON().lean() + "\n\n")
	b.WriteString("/-- `QFrame.ToCSV` after the configuration is fetched and the frame's error is checked, as a record program -/\ndef toCsvAst : CW :=\n  " + c.toCSV().lean() + "\n\n")
	b.WriteString("/-- `fixLengthString(s, pad, desiredLen)` as a decision tree -/\ndef fixLengthAst : FX :=\n  " + c.fixLength().lean() + "\n\n")
	b.WriteString("/-- `Max(x, y)` / `Min(x, y)` of internal/math/integer -/\ndef intMaxAst : IE := " + intFn(repo, "Max").lean() + "\ndef intMinAst : IE := " + intFn(repo, "Min").lean() + "\n\n")
	var names []string
	for _, p := range []string{"icolumn", "fcolumn", "bcolumn", "scolumn", "ecolumn"} {
		if v, ok := dataTypeName(repo, p); ok {
			names = append(names, fmt.Sprintf("(%s, %s)", leanStr(p), bytesTerm(v).lean()))
		}
	}
	b.WriteString("/-- the string `Column.DataType()` of every column package returns (constants of package types resolved): (package, bytes) -/\ndef dataTypeNames : List (String × Bytes) := [" + strings.Join(names, ", ") + "]\n\n")
	b.WriteString("/-- `QFrame.String` after its guard, as a layout program -/\ndef stringAst : PS :=\n  " + c.stringFn().lean() + "\n\n")
	b.WriteString("end QF.Gen\n")
	return b.String()
}
