package main

// Translation go/ast → SO / SN / CH / OH / AP / EV / RS (lean/QF/Core/SortGlue.lean) of the glue of /repo/qframe.go that
// was compared as text until now:
//
//	func (qf QFrame) Sort(orders ...Order) QFrame                                       → SO   (withErr, withIndex inlined)
//	func New(ix index.Int, columns []column.Comparable) Sorter   (internal/sort)        → SN
//	func (qf QFrame) comparables(columns []string, orders []Order, b bool) []column.Comparable → CH
//	func (qf QFrame) orders(columns []string) []Order                                   → OH
//	func (qf QFrame) apply1(fn, dstCol, srcCol string) QFrame                           → AP
//	func (qf QFrame) apply2(fn, dstCol, srcCol1, srcCol2 string) QFrame                 → AP
//	func createColumn(name string, data interface{}, config *newqf.Config) (column.Column, error)   → its error returns, (ESite, EV)
//	func ReadSQLWithArgs(tx *sql.Tx, queryArgs []interface{}, confFuncs ...qsql.ConfigFunc) QFrame  → RS
//
// Everything is found by ROLE: the functions by their signatures, the fields of QFrame / Order / Sorter by their types (and,
// for the two bool fields of Order, their order), the helper methods withErr / withIndex / setColumn by signature and (the
// first two) by the shape of their bodies, locals by what they are bound to. Fixed vocabulary: the interface methods
// `Comparable`, `Apply1`, `Apply2`, `DataType`, `Copy` of column.Column / index.Int, `Sort` of the sorter, the functions
// `New` / `Propagate` of qerrors, `Prepare`, `Query`, `Close` of database/sql, `New` of the column packages, the names of
// types.DataType. What is not understood becomes `.opaque "<text>"`.

import (
	"go/ast"
	"go/token"
	"path/filepath"
	"sort"
	"strconv"
	"strings"
)

type sgctx struct {
	files   map[string]*ast.File
	fns     map[string]*ast.FuncDecl
	imports map[string]string
	repo    string
	// fields of QFrame by role
	qCols, qNames, qIndex, qErr string
	// fields of Order by role
	oCol, oRev, oNullLast string
	ixPkg, sortPkg        string
	sorterType            string // the result type of <sort>.New
	sorterNew             string // name of the function (index.Int, []column.Comparable) <Sorter> of internal/sort
	sorterHasSort         bool
}

func (c *sgctx) importNamed(suffix string) string {
	var names []string
	for n, p := range c.imports {
		if strings.HasSuffix(p, suffix) {
			names = append(names, n)
		}
	}
	sort.Strings(names)
	if len(names) > 0 {
		return names[0]
	}
	return ""
}

func (c *sgctx) scan() bool {
	c.ixPkg, c.sortPkg = c.importNamed("/internal/index"), c.importNamed("/internal/sort")
	if c.ixPkg == "" || c.sortPkg == "" {
		return false
	}
	first := func(dst *string, v string) {
		if *dst == "" {
			*dst = v
		}
	}
	for _, f := range ctStructFields(c.files, "QFrame") {
		switch f[1] {
		case "[]namedColumn":
			first(&c.qCols, f[0])
		case "map[string]namedColumn":
			first(&c.qNames, f[0])
		case c.ixPkg + ".Int":
			first(&c.qIndex, f[0])
		case "error":
			first(&c.qErr, f[0])
		}
	}
	nb := 0
	for _, f := range ctStructFields(c.files, "Order") {
		switch f[1] {
		case "string":
			first(&c.oCol, f[0])
		case "bool":
			if nb == 0 {
				c.oRev = f[0]
			} else if nb == 1 {
				c.oNullLast = f[0]
			}
			nb++
		}
	}
	if nb != 2 {
		return false
	}
	for _, s := range []string{c.qCols, c.qNames, c.qIndex, c.qErr, c.oCol, c.oRev, c.oNullLast} {
		if s == "" {
			return false
		}
	}
	return true
}

// every name a function declares (receiver, parameters, results, locals)
func sgDeclared(fd *ast.FuncDecl) map[string]bool {
	res := map[string]bool{}
	if r := recvName(fd); r != "" {
		res[r] = true
	}
	for _, n := range paramNames(fd) {
		res[n] = true
	}
	ast.Inspect(fd.Body, func(n ast.Node) bool {
		switch t := n.(type) {
		case *ast.AssignStmt:
			if t.Tok == token.DEFINE {
				for _, l := range t.Lhs {
					if id, ok := l.(*ast.Ident); ok {
						res[id.Name] = true
					}
				}
			}
		case *ast.RangeStmt:
			if t.Tok == token.DEFINE {
				for _, l := range []ast.Expr{t.Key, t.Value} {
					if id, ok := l.(*ast.Ident); ok {
						res[id.Name] = true
					}
				}
			}
		case *ast.ValueSpec:
			for _, id := range t.Names {
				res[id.Name] = true
			}
		case *ast.TypeSwitchStmt:
			if as, ok := t.Assign.(*ast.AssignStmt); ok {
				for _, l := range as.Lhs {
					if id, ok := l.(*ast.Ident); ok {
						res[id.Name] = true
					}
				}
			}
		case *ast.FuncLit:
			return false
		}
		return true
	})
	return res
}

// does the function declare a name that hides one of the packages / builtins the translation relies on?
func sgShadows(fd *ast.FuncDecl, names ...string) bool {
	d := sgDeclared(fd)
	for _, n := range append([]string{"len", "make", "append", "nil", "true", "false"}, names...) {
		if n != "" && d[n] {
			return true
		}
	}
	return false
}

type sgscope map[string]string

func (s sgscope) with(name, kind string) sgscope {
	r := sgscope{}
	for k, v := range s {
		r[k] = v
	}
	if name != "_" {
		r[name] = kind
	}
	return r
}

// kind classifies an expression by what it denotes
func (c *sgctx) kind(e ast.Expr, sc sgscope) string {
	switch t := unparen(e).(type) {
	case *ast.Ident:
		if k, ok := sc[t.Name]; ok {
			return k
		}
		switch t.Name {
		case "nil", "true", "false":
			return t.Name
		}
	case *ast.SelectorExpr:
		x := c.kind(t.X, sc)
		switch x {
		case "recv":
			switch t.Sel.Name {
			case c.qCols:
				return "recv.cols"
			case c.qNames:
				return "recv.names"
			case c.qIndex:
				return "recv.index"
			case c.qErr:
				return "recv.err"
			}
		case "newdf":
			if t.Sel.Name == c.qIndex {
				return "newdf.index"
			}
		case "ord":
			switch t.Sel.Name {
			case c.oCol:
				return "ord.col"
			case c.oRev:
				return "ord.rev"
			case c.oNullLast:
				return "ord.nullLast"
			}
		case "nc:a", "nc:b":
			if t.Sel.Name == "Column" {
				return "col:" + strings.TrimPrefix(x, "nc:")
			}
		}
	case *ast.IndexExpr:
		// orders[i] / columns[i] for the loop position i
		if c.kind(t.Index, sc) == "i" {
			switch c.kind(t.X, sc) {
			case "orders":
				return "ord"
			case "columns":
				return "columns.at"
			}
		}
	}
	return "?"
}

// `return QFrame{…}` as the only statement of a method of QFrame with one parameter: where the four fields come from
// (cols, names, index, err), each "recv" | "param" | "zero"; ok=false when it is anything else
func (c *sgctx) frameHelper(fd *ast.FuncDecl) (f [4]string, ok bool) {
	if fd == nil || fd.Recv == nil || len(fd.Body.List) != 1 || len(paramNames(fd)) != 1 || strings.Join(ctFlatTypes(fd.Type.Results), ",") != "QFrame" || sgShadows(fd) {
		return
	}
	recv, p := recvName(fd), paramNames(fd)[0]
	r, okr := fd.Body.List[0].(*ast.ReturnStmt)
	if !okr || len(r.Results) != 1 || recv == "" {
		return
	}
	cl, okc := unparen(r.Results[0]).(*ast.CompositeLit)
	if !okc || src(cl.Type) != "QFrame" {
		return
	}
	f = [4]string{"zero", "zero", "zero", "zero"}
	names := []string{c.qCols, c.qNames, c.qIndex, c.qErr}
	seen := map[string]bool{}
	for _, el := range cl.Elts {
		kv, okk := el.(*ast.KeyValueExpr)
		if !okk {
			return
		}
		k := src(kv.Key)
		if seen[k] {
			return
		}
		seen[k] = true
		found := false
		for i, n := range names {
			if k == n {
				found = true
				switch src(kv.Value) {
				case recv + "." + n:
					f[i] = "recv"
				case p:
					f[i] = "param"
				default:
					return
				}
			}
		}
		if !found {
			return
		}
	}
	ok = true
	return
}

// a method of QFrame `(error) QFrame` that returns the receiver with the error set
func (c *sgctx) isWithErr(fd *ast.FuncDecl) bool {
	if fd == nil || strings.Join(ctFlatTypes(fd.Type.Params), ",") != "error" {
		return false
	}
	f, ok := c.frameHelper(fd)
	return ok && f == [4]string{"recv", "recv", "recv", "param"}
}

// a method of QFrame `(index.Int) QFrame` that returns the receiver with the index replaced
func (c *sgctx) isWithIndex(fd *ast.FuncDecl) bool {
	if fd == nil || strings.Join(ctFlatTypes(fd.Type.Params), ",") != c.ixPkg+".Int" {
		return false
	}
	f, ok := c.frameHelper(fd)
	return ok && f == [4]string{"recv", "recv", "param", "recv"}
}

// the value a `return` of a frame method hands back: "recv" | "recvWithErr" | "newFrame" | ""
func (c *sgctx) frameOut(e ast.Expr, sc sgscope) string {
	switch c.kind(e, sc) {
	case "recv":
		return "recv"
	case "newdf":
		return "newFrame"
	}
	if call, ok := unparen(e).(*ast.CallExpr); ok && len(call.Args) == 1 && call.Ellipsis == token.NoPos {
		if sel, ok := call.Fun.(*ast.SelectorExpr); ok && c.kind(sel.X, sc) == "recv" && c.isWithErr(c.fns["QFrame."+sel.Sel.Name]) && eIsErrCall(call.Args[0], ggNoScope) {
			return "recvWithErr"
		}
	}
	return ""
}

// a block that is one `return <frame>`
func (c *sgctx) retBlock(b *ast.BlockStmt, sc sgscope) string {
	if b == nil || len(b.List) != 1 {
		return ""
	}
	r, ok := b.List[0].(*ast.ReturnStmt)
	if !ok || len(r.Results) != 1 {
		return ""
	}
	return c.frameOut(r.Results[0], sc)
}

func sgOut(o string) *lt { return lh("Out." + o) }

func (c *sgctx) bsrc(e ast.Expr, sc sgscope) *lt {
	switch c.kind(e, sc) {
	case "true", "false":
		return lh("BSrc.lit", lh(c.kind(e, sc)))
	case "flag":
		return lh("BSrc.param")
	case "ord.rev":
		return lh("BSrc.ordReverse")
	case "ord.nullLast":
		return lh("BSrc.ordNullLast")
	}
	return nil
}

func (c *sgctx) nsrc(e ast.Expr, sc sgscope) *lt {
	switch c.kind(e, sc) {
	case "ord.col":
		return lh("NSrc.ordCol")
	case "columns.at":
		return lh("NSrc.columnsAt")
	}
	return nil
}

// `recv.<names>[<name>]`: the name
func (c *sgctx) nameLookup(e ast.Expr, sc sgscope) ast.Expr {
	ix, ok := unparen(e).(*ast.IndexExpr)
	if !ok || c.kind(ix.X, sc) != "recv.names" {
		return nil
	}
	return ix.Index
}

// ---------------------------------------------------------------------------------------------------------------
// Sort

func soop(n ast.Node) *lt { return ls("SO.opaque", src(n)) }

// an index expression of Sort
func (c *sgctx) isrc(e ast.Expr, sc sgscope) *lt {
	switch c.kind(e, sc) {
	case "recv.index":
		return lh("ISrc.recvIndex")
	case "newdf.index":
		return lh("ISrc.newIndex")
	}
	if call, ok := unparen(e).(*ast.CallExpr); ok && len(call.Args) == 0 {
		if sel, ok := call.Fun.(*ast.SelectorExpr); ok && sel.Sel.Name == "Copy" && c.kind(sel.X, sc) == "recv.index" {
			return lh("ISrc.recvIndexCopy")
		}
	}
	return nil
}

func (c *sgctx) sortBody(stmts []ast.Stmt, sc sgscope) []*lt {
	var out []*lt
	for _, st := range stmts {
		var t *lt
		switch s := st.(type) {
		case *ast.AssignStmt:
			// s, ok := qf.<names>[<name>]
			if s.Tok == token.DEFINE && len(s.Lhs) == 2 && len(s.Rhs) == 1 && src(s.Lhs[0]) != "_" && src(s.Lhs[1]) != "_" {
				if nm := c.nameLookup(s.Rhs[0], sc); nm != nil {
					if n := c.nsrc(nm, sc); n != nil {
						t = lh("SB.lookup", n)
						sc = sc.with(src(s.Lhs[0]), "found").with(src(s.Lhs[1]), "ok")
					}
				}
			}
			// comparables = append(comparables, s.Comparable(a, b, c))
			if s.Tok == token.ASSIGN && len(s.Lhs) == 1 && len(s.Rhs) == 1 && c.kind(s.Lhs[0], sc) == "cmps" {
				if call, ok := s.Rhs[0].(*ast.CallExpr); ok && src(call.Fun) == "append" && len(call.Args) == 2 && call.Ellipsis == token.NoPos && c.kind(call.Args[0], sc) == "cmps" {
					if cmp, ok := call.Args[1].(*ast.CallExpr); ok && len(cmp.Args) == 3 && cmp.Ellipsis == token.NoPos {
						if sel, ok := cmp.Fun.(*ast.SelectorExpr); ok && sel.Sel.Name == "Comparable" && c.kind(sel.X, sc) == "found" {
							a, b, d := c.bsrc(cmp.Args[0], sc), c.bsrc(cmp.Args[1], sc), c.bsrc(cmp.Args[2], sc)
							if a != nil && b != nil && d != nil {
								t = lh("SB.appendCmp", a, b, d)
							}
						}
					}
				}
			}
		case *ast.IfStmt:
			// if !ok { return … }
			if s.Init == nil && s.Else == nil {
				if u, ok := unparen(s.Cond).(*ast.UnaryExpr); ok && u.Op == token.NOT && c.kind(u.X, sc) == "ok" {
					if o := c.retBlock(s.Body, sc); o != "" {
						t = lh("SB.ifMissing", sgOut(o))
					}
				}
			}
		}
		if t == nil {
			t = ls("SB.opaque", src(st))
		}
		out = append(out, t)
	}
	return out
}

func (c *sgctx) so(stmts []ast.Stmt, sc sgscope) *lt {
	if len(stmts) == 0 {
		return ls("SO.opaque", "missing return")
	}
	st, rest := stmts[0], stmts[1:]
	switch s := st.(type) {
	case *ast.IfStmt:
		if s.Init != nil || s.Else != nil {
			return soop(s)
		}
		o := c.retBlock(s.Body, sc)
		if o == "" {
			return soop(s)
		}
		if b, ok := unparen(s.Cond).(*ast.BinaryExpr); ok {
			switch {
			case b.Op == token.NEQ && c.kind(b.X, sc) == "recv.err" && isNilIdent(b.Y):
				return lh("SO.ifRecvErr", sgOut(o), c.so(rest, sc))
			case b.Op == token.EQL && src(b.Y) == "0":
				if call, ok := unparen(b.X).(*ast.CallExpr); ok && src(call.Fun) == "len" && len(call.Args) == 1 && c.kind(call.Args[0], sc) == "orders" {
					return lh("SO.ifNoOrders", sgOut(o), c.so(rest, sc))
				}
			}
		}
		return soop(s)
	case *ast.AssignStmt:
		if s.Tok != token.DEFINE || len(s.Lhs) != 1 || len(s.Rhs) != 1 || src(s.Lhs[0]) == "_" {
			return soop(s)
		}
		name := src(s.Lhs[0])
		call, ok := s.Rhs[0].(*ast.CallExpr)
		if !ok || call.Ellipsis != token.NoPos {
			return soop(s)
		}
		// comparables := make([]column.Comparable, 0, …)
		if src(call.Fun) == "make" && (len(call.Args) == 2 || len(call.Args) == 3) && strings.HasPrefix(src(call.Args[0]), "[]") && strings.HasSuffix(src(call.Args[0]), ".Comparable") && src(call.Args[1]) == "0" {
			if len(call.Args) == 3 {
				// the capacity: any int expression without effects on what is modelled: len(orders)
				if lc, ok := call.Args[2].(*ast.CallExpr); !ok || src(lc.Fun) != "len" || len(lc.Args) != 1 || c.kind(lc.Args[0], sc) != "orders" {
					return soop(s)
				}
			}
			return lh("SO.makeCmps", c.so(rest, sc.with(name, "cmps")))
		}
		if sel, ok := call.Fun.(*ast.SelectorExpr); ok {
			// newDf := qf.<withIndex>(<ix>)
			if c.kind(sel.X, sc) == "recv" && len(call.Args) == 1 && c.isWithIndex(c.fns["QFrame."+sel.Sel.Name]) {
				if ix := c.isrc(call.Args[0], sc); ix != nil {
					return lh("SO.withIndex", ix, c.so(rest, sc.with(name, "newdf")))
				}
			}
			// sorter := qfsort.New(<ix>, comparables)
			if src(sel.X) == c.sortPkg && sel.Sel.Name == c.sorterNew && c.sorterNew != "" && len(call.Args) == 2 && c.kind(call.Args[1], sc) == "cmps" {
				if ix := c.isrc(call.Args[0], sc); ix != nil {
					return lh("SO.newSorter", ix, c.so(rest, sc.with(name, "sorter")))
				}
			}
		}
		return soop(s)
	case *ast.RangeStmt:
		// for _, o := range orders { … }
		if s.Tok == token.DEFINE && (s.Key == nil || src(s.Key) == "_") && s.Value != nil && src(s.Value) != "_" && c.kind(s.X, sc) == "orders" {
			hasCmps := false
			for _, k := range sc {
				if k == "cmps" {
					hasCmps = true
				}
			}
			if !hasCmps {
				return soop(s)
			}
			return lh("SO.forOrders", ll(c.sortBody(s.Body.List, sc.with(src(s.Value), "ord"))), c.so(rest, sc))
		}
		return soop(s)
	case *ast.ExprStmt:
		// sorter.Sort()
		if call, ok := s.X.(*ast.CallExpr); ok && len(call.Args) == 0 {
			if sel, ok := call.Fun.(*ast.SelectorExpr); ok && sel.Sel.Name == "Sort" && c.kind(sel.X, sc) == "sorter" && c.sorterHasSort {
				return lh("SO.sort", c.so(rest, sc))
			}
		}
		return soop(s)
	case *ast.ReturnStmt:
		if len(s.Results) == 1 {
			if o := c.frameOut(s.Results[0], sc); o != "" {
				return lh("SO.ret", sgOut(o))
			}
		}
		return soop(s)
	}
	return soop(st)
}

// qfsort.New: `return Sorter{<index.Int field>: ix, <[]column.Comparable field>: columns}`
func (c *sgctx) sorterNewTerm(files map[string]*ast.File) *lt {
	fns := funcDecls(files)
	var names []string
	for n, fd := range fns {
		pts := ctFlatTypes(fd.Type.Params)
		rts := ctFlatTypes(fd.Type.Results)
		if fd.Recv == nil && len(pts) == 2 && strings.HasSuffix(pts[0], ".Int") && strings.HasPrefix(pts[1], "[]") && strings.HasSuffix(pts[1], ".Comparable") && len(rts) == 1 {
			names = append(names, n)
		}
	}
	sort.Strings(names)
	if len(names) != 1 {
		return ls("SN.opaque", "not exactly one function (index.Int, []column.Comparable) T in internal/sort")
	}
	fd := fns[names[0]]
	c.sorterNew = names[0]
	c.sorterType = ctFlatTypes(fd.Type.Results)[0]
	_, c.sorterHasSort = fns[c.sorterType+".Sort"]
	var ixField, colsField string
	for _, f := range ctStructFields(files, c.sorterType) {
		switch {
		case strings.HasSuffix(f[1], ".Int") && !strings.HasPrefix(f[1], "[]") && ixField == "":
			ixField = f[0]
		case strings.HasPrefix(f[1], "[]") && strings.HasSuffix(f[1], ".Comparable") && colsField == "":
			colsField = f[0]
		}
	}
	if ixField == "" || colsField == "" || len(fd.Body.List) != 1 || sgShadows(fd) {
		return ls("SN.opaque", src(fd.Body))
	}
	r, ok := fd.Body.List[0].(*ast.ReturnStmt)
	if !ok || len(r.Results) != 1 {
		return ls("SN.opaque", src(fd.Body))
	}
	cl, ok := unparen(r.Results[0]).(*ast.CompositeLit)
	if !ok || src(cl.Type) != c.sorterType {
		return ls("SN.opaque", src(fd.Body))
	}
	pn := paramNames(fd)
	val := map[string]string{ixField: "zero", colsField: "zero"}
	for _, el := range cl.Elts {
		kv, ok := el.(*ast.KeyValueExpr)
		if !ok {
			return ls("SN.opaque", src(fd.Body))
		}
		k := src(kv.Key)
		if _, known := val[k]; !known {
			return ls("SN.opaque", src(fd.Body))
		}
		switch src(kv.Value) {
		case pn[0]:
			val[k] = "ixParam"
		case pn[1]:
			val[k] = "colsParam"
		default:
			return ls("SN.opaque", src(fd.Body))
		}
	}
	return lh("SN.lit", lh("SNSrc."+val[ixField]), lh("SNSrc."+val[colsField]))
}

// ---------------------------------------------------------------------------------------------------------------
// the helpers comparables / orders

var sgDataTypes = map[string]string{"Int": "CType.int", "Float": "CType.float", "Bool": "CType.bool", "String": "CType.string", "Enum": "CType.enum"}

func (c *sgctx) comparablesTerm(fd *ast.FuncDecl) *lt {
	if len(fd.Body.List) != 3 || sgShadows(fd, c.importNamed("/types")) {
		return ls("CH.opaque", src(fd.Body))
	}
	pn := paramNames(fd)
	sc := sgscope{recvName(fd): "recv", pn[0]: "columns", pn[1]: "orders", pn[2]: "flag"}
	as, ok1 := fd.Body.List[0].(*ast.AssignStmt)
	loop, ok2 := fd.Body.List[1].(*ast.ForStmt)
	ret, ok3 := fd.Body.List[2].(*ast.ReturnStmt)
	if !ok1 || !ok2 || !ok3 || as.Tok != token.DEFINE || len(as.Lhs) != 1 || len(as.Rhs) != 1 || len(ret.Results) != 1 {
		return ls("CH.opaque", src(fd.Body))
	}
	res := src(as.Lhs[0])
	mk, okm := as.Rhs[0].(*ast.CallExpr)
	if !okm || src(mk.Fun) != "make" || len(mk.Args) < 2 || len(mk.Args) > 3 || src(mk.Args[1]) != "0" || !strings.HasPrefix(src(mk.Args[0]), "[]") || !strings.HasSuffix(src(mk.Args[0]), ".Comparable") || src(ret.Results[0]) != res {
		return ls("CH.opaque", src(fd.Body))
	}
	if len(mk.Args) == 3 {
		lc, ok := mk.Args[2].(*ast.CallExpr)
		if !ok || src(lc.Fun) != "len" || len(lc.Args) != 1 || (c.kind(lc.Args[0], sc) != "columns" && c.kind(lc.Args[0], sc) != "orders") {
			return ls("CH.opaque", src(as))
		}
	}
	sc = sc.with(res, "res")
	init, oi := loop.Init.(*ast.AssignStmt)
	post, op := loop.Post.(*ast.IncDecStmt)
	if !oi || !op || init.Tok != token.DEFINE || len(init.Lhs) != 1 || len(init.Rhs) != 1 || src(init.Rhs[0]) != "0" || post.Tok != token.INC || src(post.X) != src(init.Lhs[0]) {
		return ls("CH.opaque", src(loop))
	}
	i := src(init.Lhs[0])
	cond, okc := unparen(loop.Cond).(*ast.BinaryExpr)
	if !okc || cond.Op != token.LSS || src(cond.X) != i {
		return ls("CH.opaque", src(loop))
	}
	bound := ""
	if lc, ok := unparen(cond.Y).(*ast.CallExpr); ok && src(lc.Fun) == "len" && len(lc.Args) == 1 {
		switch c.kind(lc.Args[0], sc) {
		case "columns":
			bound = "LSrc.columns"
		case "orders":
			bound = "LSrc.orders"
		}
	}
	if bound == "" {
		return ls("CH.opaque", src(loop))
	}
	sc = sc.with(i, "i")
	var body []*lt
	for _, st := range loop.Body.List {
		var t *lt
		switch s := st.(type) {
		case *ast.AssignStmt:
			if s.Tok == token.DEFINE && len(s.Lhs) == 1 && len(s.Rhs) == 1 && src(s.Lhs[0]) != "_" {
				// o := orders[i]: followed through
				if c.kind(s.Rhs[0], sc) == "ord" {
					sc = sc.with(src(s.Lhs[0]), "ord")
					continue
				}
				// col := qf.<names>[<name>]
				if nm := c.nameLookup(s.Rhs[0], sc); nm != nil {
					if n := c.nsrc(nm, sc); n != nil {
						t = lh("CB.bindCol", n)
						sc = sc.with(src(s.Lhs[0]), "found")
					}
				}
			}
			// result = append(result, <column>.Comparable(a, b, c))
			if s.Tok == token.ASSIGN && len(s.Lhs) == 1 && len(s.Rhs) == 1 && c.kind(s.Lhs[0], sc) == "res" {
				if call, ok := s.Rhs[0].(*ast.CallExpr); ok && src(call.Fun) == "append" && len(call.Args) == 2 && call.Ellipsis == token.NoPos && c.kind(call.Args[0], sc) == "res" {
					if cmp, ok := call.Args[1].(*ast.CallExpr); ok && len(cmp.Args) == 3 && cmp.Ellipsis == token.NoPos {
						if sel, ok := cmp.Fun.(*ast.SelectorExpr); ok && sel.Sel.Name == "Comparable" {
							var who *lt
							if c.kind(sel.X, sc) == "found" {
								who = lh("none")
							} else if nm := c.nameLookup(sel.X, sc); nm != nil {
								if n := c.nsrc(nm, sc); n != nil {
									who = lh("some", n)
								}
							}
							a, b, d := c.bsrc(cmp.Args[0], sc), c.bsrc(cmp.Args[1], sc), c.bsrc(cmp.Args[2], sc)
							if who != nil && a != nil && b != nil && d != nil {
								t = lh("CB.append", who, a, b, d)
							}
						}
					}
				}
			}
		case *ast.IfStmt:
			// if dt := col.DataType(); dt == types.A || dt == types.B { <flag> = <bool> }
			t = c.setParamIfType(s, sc)
		}
		if t == nil {
			t = ls("CB.opaque", src(st))
		}
		body = append(body, t)
	}
	return lh("CH.forLen", lh(bound), ll(body))
}

func (c *sgctx) setParamIfType(s *ast.IfStmt, sc sgscope) *lt {
	typesPkg := c.importNamed("/types")
	if s.Init == nil || s.Else != nil || len(s.Body.List) != 1 || typesPkg == "" {
		return nil
	}
	as, ok := s.Init.(*ast.AssignStmt)
	if !ok || as.Tok != token.DEFINE || len(as.Lhs) != 1 || len(as.Rhs) != 1 {
		return nil
	}
	call, ok := as.Rhs[0].(*ast.CallExpr)
	if !ok || len(call.Args) != 0 {
		return nil
	}
	sel, ok := call.Fun.(*ast.SelectorExpr)
	if !ok || sel.Sel.Name != "DataType" || c.kind(sel.X, sc) != "found" {
		return nil
	}
	dt := src(as.Lhs[0])
	var tys []*lt
	var walk func(e ast.Expr) bool
	walk = func(e ast.Expr) bool {
		b, ok := unparen(e).(*ast.BinaryExpr)
		if !ok {
			return false
		}
		if b.Op == token.LOR {
			return walk(b.X) && walk(b.Y)
		}
		if b.Op != token.EQL || src(b.X) != dt {
			return false
		}
		ts, ok := unparen(b.Y).(*ast.SelectorExpr)
		if !ok || src(ts.X) != typesPkg {
			return false
		}
		ct, known := sgDataTypes[ts.Sel.Name]
		if !known {
			return false
		}
		tys = append(tys, lh(ct))
		return true
	}
	if !walk(s.Cond) {
		return nil
	}
	set, ok := s.Body.List[0].(*ast.AssignStmt)
	if !ok || set.Tok != token.ASSIGN || len(set.Lhs) != 1 || len(set.Rhs) != 1 || c.kind(set.Lhs[0], sc) != "flag" {
		return nil
	}
	v := c.kind(set.Rhs[0], sc)
	if v != "true" && v != "false" {
		return nil
	}
	return lh("CB.setParamIfType", ll(tys), lh(v))
}

func (c *sgctx) ordersTerm(fd *ast.FuncDecl) *lt {
	if len(fd.Body.List) != 3 || sgShadows(fd) {
		return ls("OH.opaque", src(fd.Body))
	}
	cols := paramNames(fd)[0]
	as, ok1 := fd.Body.List[0].(*ast.AssignStmt)
	rg, ok2 := fd.Body.List[1].(*ast.RangeStmt)
	ret, ok3 := fd.Body.List[2].(*ast.ReturnStmt)
	if !ok1 || !ok2 || !ok3 || as.Tok != token.DEFINE || len(as.Lhs) != 1 || len(as.Rhs) != 1 || src(as.Rhs[0]) != "make([]Order, len("+cols+"))" {
		return ls("OH.opaque", src(fd.Body))
	}
	o := src(as.Lhs[0])
	k, okk := rg.Key.(*ast.Ident)
	v, okv := rg.Value.(*ast.Ident)
	if !okk || !okv || k.Name == "_" || v.Name == "_" || rg.Tok != token.DEFINE || src(rg.X) != cols || len(rg.Body.List) != 1 || len(ret.Results) != 1 || src(ret.Results[0]) != o {
		return ls("OH.opaque", src(fd.Body))
	}
	set, ok := rg.Body.List[0].(*ast.AssignStmt)
	if !ok || set.Tok != token.ASSIGN || len(set.Lhs) != 1 || len(set.Rhs) != 1 || src(set.Lhs[0]) != o+"["+k.Name+"]" {
		return ls("OH.opaque", src(rg))
	}
	cl, ok := set.Rhs[0].(*ast.CompositeLit)
	if !ok || src(cl.Type) != "Order" {
		return ls("OH.opaque", src(rg))
	}
	rev, nl, hasCol := "false", "false", false
	seen := map[string]bool{}
	for _, el := range cl.Elts {
		kv, ok := el.(*ast.KeyValueExpr)
		if !ok || seen[src(kv.Key)] {
			return ls("OH.opaque", src(rg))
		}
		seen[src(kv.Key)] = true
		val := src(kv.Value)
		switch src(kv.Key) {
		case c.oCol:
			if val != v.Name {
				return ls("OH.opaque", src(rg))
			}
			hasCol = true
		case c.oRev:
			if val != "true" && val != "false" {
				return ls("OH.opaque", src(rg))
			}
			rev = val
		case c.oNullLast:
			if val != "true" && val != "false" {
				return ls("OH.opaque", src(rg))
			}
			nl = val
		default:
			return ls("OH.opaque", src(rg))
		}
	}
	if !hasCol {
		return ls("OH.opaque", src(rg))
	}
	return lh("OH.perColumn", lh(rev), lh(nl))
}

// ---------------------------------------------------------------------------------------------------------------
// apply1 / apply2

func apop(n ast.Node) *lt { return ls("AP.opaque", src(n)) }

func (c *sgctx) aout(b *ast.BlockStmt, sc sgscope) *lt {
	switch c.retBlock(b, sc) {
	case "recv":
		return lh("AOut.recv")
	case "recvWithErr":
		return lh("AOut.recvWithErr")
	}
	return nil
}

func (c *sgctx) aname(e ast.Expr, sc sgscope) *lt {
	switch c.kind(e, sc) {
	case "name:dst":
		return lh("AName.dst")
	case "name:src1":
		return lh("AName.src1")
	case "name:src2":
		return lh("AName.src2")
	}
	return nil
}

func (c *sgctx) aslot(e ast.Expr, sc sgscope) *lt {
	switch c.kind(e, sc) {
	case "col:a":
		return lh("Slot.a")
	case "col:b":
		return lh("Slot.b")
	}
	return nil
}

func (c *sgctx) aix(e ast.Expr, sc sgscope) *lt {
	if c.kind(e, sc) == "recv.index" {
		return lh("AIx.recvIndex")
	}
	if sl, ok := unparen(e).(*ast.SliceExpr); ok && c.kind(sl.X, sc) == "recv.index" && sl.Low == nil && sl.High != nil && src(sl.High) == "0" && !sl.Slice3 {
		return lh("AIx.empty")
	}
	return nil
}

// the method `(string, column.Column) QFrame` of QFrame (setColumn)
func (c *sgctx) isSetColumn(fd *ast.FuncDecl) bool {
	if fd == nil || fd.Recv == nil {
		return false
	}
	pts := ctFlatTypes(fd.Type.Params)
	return len(pts) == 2 && pts[0] == "string" && strings.HasSuffix(pts[1], ".Column") && strings.Join(ctFlatTypes(fd.Type.Results), ",") == "QFrame"
}

var sgSliceTypes = map[string][2]string{"[]int": {"STy.ints", "CType.int"}, "[]float64": {"STy.floats", "CType.float"}, "[]bool": {"STy.bools", "CType.bool"}, "[]*string": {"STy.strs", "CType.string"}}

func (c *sgctx) ap(stmts []ast.Stmt, sc sgscope, nLookups int) *lt {
	if len(stmts) == 0 {
		return ls("AP.opaque", "missing return")
	}
	st, rest := stmts[0], stmts[1:]
	switch s := st.(type) {
	case *ast.IfStmt:
		if s.Init != nil || s.Else != nil {
			return apop(s)
		}
		o := c.aout(s.Body, sc)
		if o == nil {
			return apop(s)
		}
		cond := unparen(s.Cond)
		if b, ok := cond.(*ast.BinaryExpr); ok && b.Op == token.NEQ && isNilIdent(b.Y) {
			switch c.kind(b.X, sc) {
			case "recv.err":
				return lh("AP.ifRecvErr", o, c.ap(rest, sc, nLookups))
			case "err":
				return lh("AP.ifErr", o, c.ap(rest, sc, nLookups))
			}
		}
		if u, ok := cond.(*ast.UnaryExpr); ok && u.Op == token.NOT {
			switch c.kind(u.X, sc) {
			case "ok:a":
				return lh("AP.ifMissing", lh("Slot.a"), o, c.ap(rest, sc, nLookups))
			case "ok:b":
				return lh("AP.ifMissing", lh("Slot.b"), o, c.ap(rest, sc, nLookups))
			}
		}
		return apop(s)
	case *ast.AssignStmt:
		if len(s.Rhs) != 1 {
			return apop(s)
		}
		// nc, ok := qf.<names>[<name>]   (`ok` may be assigned again by a second look-up)
		if len(s.Lhs) == 2 && src(s.Lhs[0]) != "_" && src(s.Lhs[1]) != "_" {
			if nm := c.nameLookup(s.Rhs[0], sc); nm != nil && s.Tok == token.DEFINE {
				if n := c.aname(nm, sc); n != nil && nLookups < 2 {
					slot := []string{"a", "b"}[nLookups]
					// the variables are new, or — for `ok` — the flag of an earlier look-up
					if k, bound := sc[src(s.Lhs[0])]; bound && k != "?" {
						return apop(s)
					}
					if k, bound := sc[src(s.Lhs[1])]; bound && !strings.HasPrefix(k, "ok:") {
						return apop(s)
					}
					return lh("AP.lookup", lh("Slot."+slot), n, c.ap(rest, sc.with(src(s.Lhs[0]), "nc:"+slot).with(src(s.Lhs[1]), "ok:"+slot), nLookups+1))
				}
			}
			// res, err := <col>.Apply1(fn, <ix>) / <col>.Apply2(fn, <other>, <ix>)
			if call, ok := s.Rhs[0].(*ast.CallExpr); ok && s.Tok == token.DEFINE && call.Ellipsis == token.NoPos {
				if sel, ok := call.Fun.(*ast.SelectorExpr); ok {
					if _, bound := sc[src(s.Lhs[0])]; bound {
						return apop(s)
					}
					if k, bound := sc[src(s.Lhs[1])]; bound && k != "err" {
						return apop(s)
					}
					recv := c.aslot(sel.X, sc)
					switch {
					case sel.Sel.Name == "Apply1" && len(call.Args) == 2 && recv != nil && c.kind(call.Args[0], sc) == "fn":
						if ix := c.aix(call.Args[1], sc); ix != nil {
							return lh("AP.apply1", recv, ix, c.ap(rest, sc.with(src(s.Lhs[0]), "res1").with(src(s.Lhs[1]), "err"), nLookups))
						}
					case sel.Sel.Name == "Apply2" && len(call.Args) == 3 && recv != nil && c.kind(call.Args[0], sc) == "fn":
						other := c.aslot(call.Args[1], sc)
						if ix := c.aix(call.Args[2], sc); ix != nil && other != nil {
							return lh("AP.apply2", recv, other, ix, c.ap(rest, sc.with(src(s.Lhs[0]), "res2").with(src(s.Lhs[1]), "err"), nLookups))
						}
					}
				}
			}
			return apop(s)
		}
		// x := nc.Column: followed through
		if s.Tok == token.DEFINE && len(s.Lhs) == 1 && src(s.Lhs[0]) != "_" {
			if k := c.kind(s.Rhs[0], sc); strings.HasPrefix(k, "col:") {
				if _, bound := sc[src(s.Lhs[0])]; !bound {
					return c.ap(rest, sc.with(src(s.Lhs[0]), k), nLookups)
				}
			}
		}
		return apop(s)
	case *ast.DeclStmt:
		// var c column.Column, followed by the type switch that assigns it
		gd, ok := s.Decl.(*ast.GenDecl)
		if !ok || gd.Tok != token.VAR || len(gd.Specs) != 1 || len(rest) == 0 {
			return apop(s)
		}
		vs, ok := gd.Specs[0].(*ast.ValueSpec)
		if !ok || len(vs.Names) != 1 || len(vs.Values) != 0 || vs.Type == nil || !strings.HasSuffix(src(vs.Type), ".Column") {
			return apop(s)
		}
		if _, bound := sc[vs.Names[0].Name]; bound {
			return apop(s)
		}
		ts, ok := rest[0].(*ast.TypeSwitchStmt)
		if !ok {
			return apop(s)
		}
		return c.apSwitch(ts, vs.Names[0].Name, rest[1:], sc, nLookups)
	case *ast.ReturnStmt:
		if len(s.Results) != 1 {
			return apop(s)
		}
		switch c.frameOut(s.Results[0], sc) {
		case "recv":
			return lh("AP.ret", lh("AOut.recv"))
		case "recvWithErr":
			return lh("AP.ret", lh("AOut.recvWithErr"))
		}
		// return qf.<setColumn>(<name>, <column>)
		if call, ok := unparen(s.Results[0]).(*ast.CallExpr); ok && len(call.Args) == 2 && call.Ellipsis == token.NoPos {
			if sel, ok := call.Fun.(*ast.SelectorExpr); ok && c.kind(sel.X, sc) == "recv" && c.isSetColumn(c.fns["QFrame."+sel.Sel.Name]) {
				n := c.aname(call.Args[0], sc)
				var v *lt
				switch k := c.kind(call.Args[1], sc); k {
				case "wrapped":
					v = lh("RSrc.wrapped")
				case "res2":
					v = lh("RSrc.result")
				case "col:a":
					v = lh("RSrc.slot", lh("Slot.a"))
				case "col:b":
					v = lh("RSrc.slot", lh("Slot.b"))
				}
				if n != nil && v != nil {
					return lh("AP.retSet", n, v)
				}
			}
		}
		return apop(s)
	}
	return apop(st)
}

// switch t := res.(type) { case []int: c = icolumn.New(t) … case column.Column: c = t; default: return … }
func (c *sgctx) apSwitch(ts *ast.TypeSwitchStmt, target string, rest []ast.Stmt, sc sgscope, nLookups int) *lt {
	as, ok := ts.Assign.(*ast.AssignStmt)
	if !ok || ts.Init != nil || as.Tok != token.DEFINE || len(as.Lhs) != 1 || len(as.Rhs) != 1 {
		return apop(ts)
	}
	ta, ok := as.Rhs[0].(*ast.TypeAssertExpr)
	if !ok || ta.Type != nil || c.kind(ta.X, sc) != "res1" {
		return apop(ts)
	}
	t := src(as.Lhs[0])
	if _, bound := sc[t]; bound {
		return apop(ts)
	}
	var cases []*lt
	var dflt *lt
	seen := map[string]bool{}
	for _, cl := range ts.Body.List {
		cc := cl.(*ast.CaseClause)
		if cc.List == nil {
			if dflt != nil {
				return apop(ts)
			}
			dflt = c.aout(&ast.BlockStmt{List: cc.Body}, sc)
			if dflt == nil {
				return apop(ts)
			}
			continue
		}
		if len(cc.List) != 1 || len(cc.Body) != 1 {
			return apop(ts)
		}
		set, ok := cc.Body[0].(*ast.AssignStmt)
		if !ok || set.Tok != token.ASSIGN || len(set.Lhs) != 1 || len(set.Rhs) != 1 || src(set.Lhs[0]) != target {
			return apop(ts)
		}
		ty := src(cc.List[0])
		if seen[ty] {
			return apop(ts)
		}
		seen[ty] = true
		var sty, res *lt
		if st, ok := sgSliceTypes[ty]; ok {
			sty = lh(st[0])
			// <pkg>.New(t) where <pkg> is the column package of that element type
			if call, ok := set.Rhs[0].(*ast.CallExpr); ok && len(call.Args) == 1 && call.Ellipsis == token.NoPos && src(call.Args[0]) == t {
				if sel, ok := call.Fun.(*ast.SelectorExpr); ok && sel.Sel.Name == "New" {
					if ct := c.columnPkgType(src(sel.X), ty); ct != "" {
						res = lh("WRes.newOf", lh(ct))
					}
				}
			}
		} else if strings.HasSuffix(ty, ".Column") && strings.HasSuffix(c.imports[strings.TrimSuffix(ty, ".Column")], "/internal/column") {
			sty = lh("STy.column")
			if src(set.Rhs[0]) == t {
				res = lh("WRes.itself")
			}
		}
		if res == nil && sty != nil {
			switch c.kind(set.Rhs[0], sc) {
			case "col:a":
				res = lh("WRes.slot", lh("Slot.a"))
			case "col:b":
				res = lh("WRes.slot", lh("Slot.b"))
			}
		}
		if sty == nil || res == nil {
			return apop(ts)
		}
		cases = append(cases, lh("(,)", sty, res))
	}
	if dflt == nil {
		return apop(ts)
	}
	return lh("AP.wrap", ll(cases), dflt, c.ap(rest, sc.with(target, "wrapped"), nLookups))
}

// the column type made by `<pkg>.New` when <pkg> is imported from /internal/{i,f,b,s}column and its New takes exactly the slice type
func (c *sgctx) columnPkgType(pkg, sliceType string) string {
	for suffix, ct := range map[string]string{"/internal/icolumn": "CType.int", "/internal/fcolumn": "CType.float", "/internal/bcolumn": "CType.bool", "/internal/scolumn": "CType.string"} {
		if strings.HasSuffix(c.imports[pkg], suffix) {
			fd := funcDecls(parseDir(filepath.Join(c.repo, "internal", strings.TrimPrefix(suffix, "/internal/"))))["New"]
			if fd != nil && fd.Recv == nil && strings.Join(ctFlatTypes(fd.Type.Params), ",") == sliceType && sgSliceTypes[sliceType][1] == ct {
				return ct
			}
		}
	}
	return ""
}

func (c *sgctx) applyTerm(fd *ast.FuncDecl, nSrc int) *lt {
	if sgShadows(fd) {
		return ls("AP.opaque", "a local hides a builtin")
	}
	pn := paramNames(fd)
	sc := sgscope{recvName(fd): "recv", pn[0]: "fn", pn[1]: "name:dst", pn[2]: "name:src1"}
	if nSrc == 2 {
		sc[pn[3]] = "name:src2"
	}
	for p := range c.imports {
		if _, hidden := sc[p]; hidden {
			return ls("AP.opaque", "a parameter hides a package")
		}
	}
	return c.ap(fd.Body.List, sc, 0)
}

// ---------------------------------------------------------------------------------------------------------------
// createColumn: the error returns

func (c *sgctx) emsg(e ast.Expr, sc sgscope, extra []ast.Expr) *lt {
	// a string literal with the params that follow, or fmt.Sprintf(lit, args…); the format string is cut at its verbs
	args := extra
	if call, ok := unparen(e).(*ast.CallExpr); ok && src(call.Fun) == "fmt.Sprintf" && len(call.Args) >= 1 && extra == nil && call.Ellipsis == token.NoPos {
		e, args = call.Args[0], call.Args[1:]
	}
	lit, ok := unparen(e).(*ast.BasicLit)
	if !ok || lit.Kind != token.STRING {
		return nil
	}
	text, err := strconv.Unquote(lit.Value)
	if err != nil {
		return nil
	}
	var pieces []*lt
	cur := ""
	flush := func() {
		if cur != "" {
			pieces = append(pieces, ls("EPiece.lit", cur))
			cur = ""
		}
	}
	next := 0
	rs := []rune(text)
	for i := 0; i < len(rs); i++ {
		if rs[i] != '%' {
			cur += string(rs[i])
			continue
		}
		if i+1 >= len(rs) {
			return nil
		}
		i++
		if rs[i] == '%' {
			cur += "%"
			continue
		}
		verb := string(rs[i])
		if next >= len(args) {
			return nil
		}
		a := args[next]
		next++
		var role string
		switch c.kind(a, sc) {
		case "name":
			if verb != "s" && verb != "v" {
				return nil
			}
			role = "EArg.name"
		case "count":
			if verb != "d" && verb != "v" {
				return nil
			}
			role = "EArg.count"
		default:
			call, ok := unparen(a).(*ast.CallExpr)
			if !ok || src(call.Fun) != "reflect.TypeOf" || len(call.Args) != 1 || (c.kind(call.Args[0], sc) != "data" && c.kind(call.Args[0], sc) != "data.t") || (verb != "s" && verb != "v") {
				return nil
			}
			role = "EArg.typeOfData"
		}
		flush()
		v := "%" + verb
		pieces = append(pieces, &lt{head: "EPiece.arg", str: &v, args: []*lt{lh(role)}})
	}
	flush()
	if next != len(args) {
		return nil
	}
	return ll(pieces)
}

func (c *sgctx) ev(e ast.Expr, sc sgscope) *lt {
	switch c.kind(e, sc) {
	case "nil":
		return lh("EV.nil")
	case "err":
		return lh("EV.bare")
	}
	if call, ok := unparen(e).(*ast.CallExpr); ok && call.Ellipsis == token.NoPos {
		if sel, ok := call.Fun.(*ast.SelectorExpr); ok && src(sel.X) == "qerrors" && strings.HasSuffix(c.imports["qerrors"], "/qerrors") {
			switch {
			case sel.Sel.Name == "New" && len(call.Args) >= 2:
				op, ok := unparen(call.Args[0]).(*ast.BasicLit)
				if ok && op.Kind == token.STRING {
					if text, err := strconv.Unquote(op.Value); err == nil {
						if m := c.emsg(call.Args[1], sc, append([]ast.Expr{}, call.Args[2:]...)); m != nil {
							return &lt{head: "EV.new", str: &text, args: []*lt{m}}
						}
					}
				}
			case sel.Sel.Name == "Propagate" && len(call.Args) == 2 && c.kind(call.Args[1], sc) == "err":
				if m := c.emsg(call.Args[0], sc, nil); m != nil {
					return lh("EV.propagate", m)
				}
			}
		}
	}
	return ls("EV.opaque", src(e))
}

// every `return <x>, <e>` of createColumn with e != nil-literal-after-success, with the place it stands in
func (c *sgctx) createColumnErrs(fd *ast.FuncDecl) []*lt {
	pn := paramNames(fd)
	sc := sgscope{pn[0]: "name", pn[1]: "data", pn[2]: "config"}
	ecolPkg := c.importNamed("/internal/ecolumn")
	if sgShadows(fd, "qerrors", "fmt", "reflect", ecolPkg) {
		return []*lt{lh("(,)", ls("ESite.other", "shadowing"), ls("EV.opaque", "a local hides a package"))}
	}
	var out []*lt
	var walk func(stmts []ast.Stmt, sc sgscope, site string)
	emit := func(site string, r *ast.ReturnStmt, sc sgscope) {
		if len(r.Results) != 2 {
			out = append(out, lh("(,)", ls("ESite.other", site), ls("EV.opaque", src(r))))
			return
		}
		t := c.ev(r.Results[1], sc)
		if t.head == "EV.nil" && !isNilIdent(r.Results[0]) {
			return // the successful return
		}
		var s *lt
		switch site {
		case "negativeCount", "enumCells", "enumConst", "unknownType":
			s = lh("ESite." + site)
		default:
			s = ls("ESite.other", site)
		}
		out = append(out, lh("(,)", s, t))
	}
	walk = func(stmts []ast.Stmt, sc sgscope, site string) {
		for _, st := range stmts {
			switch s := st.(type) {
			case *ast.ReturnStmt:
				emit(site, s, sc)
			case *ast.IfStmt:
				inner, isite := sc, site
				if as, ok := s.Init.(*ast.AssignStmt); ok && as.Tok == token.DEFINE && len(as.Lhs) == 2 && len(as.Rhs) == 1 {
					// if count, ok := constCount(data); ok && count < 0 { … }
					if call, ok := as.Rhs[0].(*ast.CallExpr); ok && len(call.Args) == 1 && c.kind(call.Args[0], sc) == "data" && c.isConstCount(src(call.Fun)) {
						if src(s.Cond) == src(as.Lhs[1])+" && "+src(as.Lhs[0])+" < 0" {
							inner, isite = sc.with(src(as.Lhs[0]), "count"), "negativeCount"
						}
					}
				}
				if b, ok := unparen(s.Cond).(*ast.BinaryExpr); ok && b.Op == token.NEQ && isNilIdent(b.Y) && c.kind(b.X, sc) == "err" && s.Init == nil {
					if strings.HasPrefix(site, "after:") {
						isite = strings.TrimPrefix(site, "after:")
					}
				}
				walk(s.Body.List, inner, isite)
				if s.Else != nil {
					if eb, ok := s.Else.(*ast.BlockStmt); ok {
						walk(eb.List, sc, site)
					} else {
						walk([]ast.Stmt{s.Else}, sc, site)
					}
				}
			case *ast.AssignStmt:
				// localS, err = ecolumn.New(t, values) / ecolumn.NewConst(…): the next `if err != nil` is that call's
				if len(s.Lhs) == 2 && len(s.Rhs) == 1 && c.kind(s.Lhs[1], sc) == "err" {
					if call, ok := s.Rhs[0].(*ast.CallExpr); ok {
						if sel, ok := call.Fun.(*ast.SelectorExpr); ok && src(sel.X) == ecolPkg && ecolPkg != "" {
							switch sel.Sel.Name {
							case "New":
								site = "after:enumCells"
							case "NewConst":
								site = "after:enumConst"
							default:
								site = "after:" + src(call.Fun)
							}
							continue
						}
					}
					site = "after:" + src(s.Rhs[0])
				}
			case *ast.DeclStmt:
				if gd, ok := s.Decl.(*ast.GenDecl); ok && gd.Tok == token.VAR {
					for _, sp := range gd.Specs {
						if vs, ok := sp.(*ast.ValueSpec); ok && len(vs.Names) == 1 && src(vs.Type) == "error" && len(vs.Values) == 0 {
							sc = sc.with(vs.Names[0].Name, "err")
						}
					}
				}
			case *ast.TypeSwitchStmt:
				tsc := sc
				if as, ok := s.Assign.(*ast.AssignStmt); ok && len(as.Lhs) == 1 {
					if ta, ok := as.Rhs[0].(*ast.TypeAssertExpr); ok && ta.Type == nil && c.kind(ta.X, sc) == "data" {
						tsc = sc.with(src(as.Lhs[0]), "data.t")
					}
				}
				for _, cl := range s.Body.List {
					cc := cl.(*ast.CaseClause)
					csite := "case " + stmtsTextExprs(cc.List)
					if cc.List == nil {
						csite = "unknownType"
					}
					walk(cc.Body, tsc, csite)
				}
			case *ast.BlockStmt:
				walk(s.List, sc, site)
			case *ast.ForStmt:
				walk(s.Body.List, sc, site)
			case *ast.RangeStmt:
				walk(s.Body.List, sc, site)
			case *ast.SwitchStmt:
				for _, cl := range s.Body.List {
					walk(cl.(*ast.CaseClause).Body, sc, site)
				}
			}
		}
	}
	walk(fd.Body.List, sc, "top")
	return out
}

func stmtsTextExprs(es []ast.Expr) string {
	parts := make([]string, len(es))
	for i, e := range es {
		parts[i] = src(e)
	}
	return strings.Join(parts, ", ")
}

// the function `(interface{}) (int, bool)` of the root package (constCount)
func (c *sgctx) isConstCount(name string) bool {
	fd := c.fns[name]
	return fd != nil && fd.Recv == nil && strings.Join(ctFlatTypes(fd.Type.Params), ",") == "interface{}" && strings.Join(ctFlatTypes(fd.Type.Results), ",") == "int,bool"
}

// ---------------------------------------------------------------------------------------------------------------
// ReadSQLWithArgs

func rsop(n ast.Node) *lt { return ls("RS.opaque", src(n)) }

func (c *sgctx) rs(stmts []ast.Stmt, sc sgscope, pkgs map[string]string) *lt {
	if len(stmts) == 0 {
		return ls("RS.opaque", "missing return")
	}
	st, rest := stmts[0], stmts[1:]
	switch s := st.(type) {
	case *ast.AssignStmt:
		if s.Tok != token.DEFINE || len(s.Rhs) != 1 {
			return rsop(s)
		}
		call, ok := s.Rhs[0].(*ast.CallExpr)
		if !ok {
			return rsop(s)
		}
		sel, ok := call.Fun.(*ast.SelectorExpr)
		if !ok {
			return rsop(s)
		}
		names := make([]string, len(s.Lhs))
		for i, l := range s.Lhs {
			names[i] = src(l)
			if names[i] == "_" {
				return rsop(s)
			}
		}
		fresh := func(n string) bool { _, bound := sc[n]; return !bound }
		errOK := func(n string) bool { k, bound := sc[n]; return !bound || k == "err" }
		switch {
		// conf := qsql.NewConfig(confFuncs)
		case len(names) == 1 && src(sel.X) == pkgs["cfg"] && sel.Sel.Name == "NewConfig" && len(call.Args) == 1 && call.Ellipsis == token.NoPos && c.kind(call.Args[0], sc) == "cfgfns" && fresh(names[0]):
			return lh("RS.newConfig", c.rs(rest, sc.with(names[0], "conf"), pkgs))
		// stmt, err := tx.Prepare(conf.Query)
		case len(names) == 2 && c.kind(sel.X, sc) == "tx" && sel.Sel.Name == "Prepare" && len(call.Args) == 1 && call.Ellipsis == token.NoPos && fresh(names[0]) && errOK(names[1]):
			if q, ok := unparen(call.Args[0]).(*ast.SelectorExpr); ok && c.kind(q.X, sc) == "conf" && q.Sel.Name == pkgs["queryField"] {
				return lh("RS.prepare", c.rs(rest, sc.with(names[0], "stmt").with(names[1], "err"), pkgs))
			}
		// rows, err := stmt.Query(queryArgs...)
		case len(names) == 2 && c.kind(sel.X, sc) == "stmt" && sel.Sel.Name == "Query" && len(call.Args) == 1 && call.Ellipsis != token.NoPos && fresh(names[0]) && errOK(names[1]):
			all := ""
			if c.kind(call.Args[0], sc) == "args" {
				all = "true"
			} else if sl, ok := unparen(call.Args[0]).(*ast.SliceExpr); ok && c.kind(sl.X, sc) == "args" && sl.Low == nil && sl.High != nil && src(sl.High) == "0" && !sl.Slice3 {
				all = "false"
			}
			if all != "" {
				return lh("RS.query", lh(all), c.rs(rest, sc.with(names[0], "rows").with(names[1], "err"), pkgs))
			}
		// data, columns, err := qfsqlio.ReadSQL(rows, qfsqlio.SQLConfig(conf))
		case len(names) == 3 && src(sel.X) == pkgs["io"] && sel.Sel.Name == pkgs["readFn"] && len(call.Args) == 2 && call.Ellipsis == token.NoPos && c.kind(call.Args[0], sc) == "rows" && fresh(names[0]) && fresh(names[1]) && errOK(names[2]):
			if conv, ok := unparen(call.Args[1]).(*ast.CallExpr); ok && src(conv.Fun) == pkgs["io"]+"."+pkgs["cfgType"] && len(conv.Args) == 1 && c.kind(conv.Args[0], sc) == "conf" {
				return lh("RS.readSql", c.rs(rest, sc.with(names[0], "data").with(names[1], "columns").with(names[2], "err"), pkgs))
			}
		}
		return rsop(s)
	case *ast.IfStmt:
		// if err != nil { return QFrame{Err: err} }
		if s.Init != nil || s.Else != nil || len(s.Body.List) != 1 {
			return rsop(s)
		}
		b, ok := unparen(s.Cond).(*ast.BinaryExpr)
		if !ok || b.Op != token.NEQ || !isNilIdent(b.Y) || c.kind(b.X, sc) != "err" {
			return rsop(s)
		}
		r, ok := s.Body.List[0].(*ast.ReturnStmt)
		if !ok || len(r.Results) != 1 {
			return rsop(s)
		}
		cl, ok := unparen(r.Results[0]).(*ast.CompositeLit)
		if !ok || src(cl.Type) != "QFrame" {
			return rsop(s)
		}
		switch {
		case len(cl.Elts) == 0:
			return lh("RS.ifErr", lh("RErr.none"), c.rs(rest, sc, pkgs))
		case len(cl.Elts) == 1:
			if kv, ok := cl.Elts[0].(*ast.KeyValueExpr); ok && src(kv.Key) == c.qErr && c.kind(kv.Value, sc) == "err" {
				return lh("RS.ifErr", lh("RErr.callErr"), c.rs(rest, sc, pkgs))
			}
		}
		return rsop(s)
	case *ast.DeferStmt:
		// defer stmt.Close()
		if sel, ok := s.Call.Fun.(*ast.SelectorExpr); ok && len(s.Call.Args) == 0 && sel.Sel.Name == "Close" && c.kind(sel.X, sc) == "stmt" {
			return lh("RS.deferClose", c.rs(rest, sc, pkgs))
		}
		return rsop(s)
	case *ast.ReturnStmt:
		// return New(data, newqf.ColumnOrder(columns...))
		if len(s.Results) == 1 && len(rest) == 0 {
			if call, ok := unparen(s.Results[0]).(*ast.CallExpr); ok && src(call.Fun) == pkgs["new"] && len(call.Args) >= 1 && len(call.Args) <= 2 && call.Ellipsis == token.NoPos && c.kind(call.Args[0], sc) == "data" {
				if len(call.Args) == 1 {
					return lh("RS.retNew", lh("false"))
				}
				if oc, ok := unparen(call.Args[1]).(*ast.CallExpr); ok && src(oc.Fun) == pkgs["newqf"]+"."+pkgs["orderFn"] && len(oc.Args) == 1 && oc.Ellipsis != token.NoPos && c.kind(oc.Args[0], sc) == "columns" {
					return lh("RS.retNew", lh("true"))
				}
			}
		}
		return rsop(s)
	}
	return rsop(st)
}

// the function of /repo/config/newqf `(...string) ConfigFunc` whose closure sets the `[]string` field of Config (ColumnOrder)
func sgColumnOrderFn(repo string) string {
	files := parseDir(filepath.Join(repo, "config", "newqf"))
	field := ""
	for _, f := range ctStructFields(files, "Config") {
		if f[1] == "[]string" && field == "" {
			field = f[0]
		}
	}
	var names []string
	for n, fd := range funcDecls(files) {
		if fd.Recv != nil || strings.Join(ctFlatTypes(fd.Type.Params), ",") != "...string" || strings.Join(ctFlatTypes(fd.Type.Results), ",") != "ConfigFunc" || len(fd.Body.List) != 1 {
			continue
		}
		p := paramNames(fd)[0]
		r, ok := fd.Body.List[0].(*ast.ReturnStmt)
		if !ok || len(r.Results) != 1 {
			continue
		}
		fl, ok := r.Results[0].(*ast.FuncLit)
		if !ok || fl.Type.Params == nil || len(fl.Type.Params.List) != 1 || len(fl.Type.Params.List[0].Names) != 1 {
			continue
		}
		cp := fl.Type.Params.List[0].Names[0].Name
		if field == "" {
			continue
		}
		// c.<field> = columns   |   c.<field> = make([]string, len(columns)); copy(c.<field>, columns)
		switch len(fl.Body.List) {
		case 1:
			if src(fl.Body.List[0]) == cp+"."+field+" = "+p {
				names = append(names, n)
			}
		case 2:
			if src(fl.Body.List[0]) == cp+"."+field+" = make([]string, len("+p+"))" && src(fl.Body.List[1]) == "copy("+cp+"."+field+", "+p+")" {
				names = append(names, n)
			}
		}
	}
	sort.Strings(names)
	if len(names) == 1 {
		return names[0]
	}
	return ""
}

func (c *sgctx) readSqlArgsTerm(fd *ast.FuncDecl) *lt {
	pn := paramNames(fd)
	sc := sgscope{pn[0]: "tx", pn[1]: "args", pn[2]: "cfgfns"}
	pkgs := map[string]string{"cfg": c.importNamed("/config/sql"), "io": c.importNamed("/internal/io/sql"), "newqf": c.importNamed("/config/newqf"), "new": "New"}
	if pkgs["cfg"] == "" || pkgs["io"] == "" || pkgs["newqf"] == "" || sgShadows(fd, pkgs["cfg"], pkgs["io"], pkgs["newqf"], "New") {
		return ls("RS.opaque", "packages not found or hidden")
	}
	// New is the function (map[string]types.DataSlice, ...newqf.ConfigFunc) QFrame of the root package
	if nf := c.fns["New"]; nf == nil || nf.Recv != nil || strings.Join(ctFlatTypes(nf.Type.Results), ",") != "QFrame" || len(ctFlatTypes(nf.Type.Params)) != 2 || ctFlatTypes(nf.Type.Params)[1] != "..."+pkgs["newqf"]+".ConfigFunc" {
		return ls("RS.opaque", "no function New(data, ...newqf.ConfigFunc) QFrame")
	}
	// the configuration: the string field of config/sql.Config named in `Prepare(conf.<field>)` is the query
	cfgFiles := parseDir(filepath.Join(c.repo, "config", "sql"))
	ioFiles := parseDir(filepath.Join(c.repo, "internal", "io", "sql"))
	cfgFields := ctStructFields(cfgFiles, "Config")
	if len(cfgFields) == 0 {
		// type Config <io>.<T>: the fields of that struct
		for _, f := range cfgFiles {
			for _, d := range f.Decls {
				if gd, ok := d.(*ast.GenDecl); ok && gd.Tok == token.TYPE {
					for _, sp := range gd.Specs {
						if ts, ok := sp.(*ast.TypeSpec); ok && ts.Name.Name == "Config" {
							if sel, ok := ts.Type.(*ast.SelectorExpr); ok && strings.HasSuffix(importsOf(cfgFiles)[src(sel.X)], "/internal/io/sql") {
								cfgFields = ctStructFields(ioFiles, sel.Sel.Name)
							}
						}
					}
				}
			}
		}
	}
	for _, f := range cfgFields {
		if f[0] == "Query" && f[1] == "string" {
			pkgs["queryField"] = f[0]
		}
	}
	var readFns []string
	for n, f := range funcDecls(ioFiles) {
		pts, rts := ctFlatTypes(f.Type.Params), ctFlatTypes(f.Type.Results)
		if f.Recv == nil && len(pts) == 2 && pts[0] == "*sql.Rows" && len(rts) == 3 && rts[1] == "[]string" && rts[2] == "error" {
			readFns = append(readFns, n)
			pkgs["cfgType"] = pts[1]
		}
	}
	if len(readFns) != 1 || pkgs["queryField"] == "" {
		return ls("RS.opaque", "reader or query field not found")
	}
	pkgs["readFn"] = readFns[0]
	pkgs["orderFn"] = sgColumnOrderFn(c.repo)
	if pkgs["orderFn"] == "" {
		return ls("RS.opaque", "no function (...string) ConfigFunc of config/newqf that sets the column order")
	}
	return c.rs(fd.Body.List, sc, pkgs)
}

// ---------------------------------------------------------------------------------------------------------------

// sortGlueLean writes QF/Gen/SortGlue.lean.
func sortGlueLean(repo string, root map[string]*ast.File) string {
	var b strings.Builder
	b.WriteString("/- GENERATED on every run by /verif/go/cmd/extract from /repo's source (tie T1). Do not edit. -/\nimport QF.Core.SortGlue\nnamespace QF.Gen\nopen QF.SG\n\n")
	c := &sgctx{files: root, fns: funcDecls(root), imports: importsOf(root), repo: repo}
	so, sn := ls("SO.opaque", "scan failed"), ls("SN.opaque", "scan failed")
	ch, oh := ls("CH.opaque", "scan failed"), ls("OH.opaque", "scan failed")
	a1, a2 := ls("AP.opaque", "scan failed"), ls("AP.opaque", "scan failed")
	rs := ls("RS.opaque", "scan failed")
	errs := []*lt{lh("(,)", ls("ESite.other", "scan failed"), ls("EV.opaque", "scan failed"))}
	if c.scan() {
		sn = c.sorterNewTerm(parseDir(filepath.Join(repo, "internal", "sort")))
		so, ch, oh = ls("SO.opaque", "no method (...Order) QFrame of QFrame"), ls("CH.opaque", "no method ([]string, []Order, bool) []column.Comparable of QFrame"), ls("OH.opaque", "no method ([]string) []Order of QFrame")
		a1, a2 = ls("AP.opaque", "no method (F, string, string) QFrame of QFrame"), ls("AP.opaque", "no method (F, string, string, string) QFrame of QFrame")
		rs = ls("RS.opaque", "no function (*sql.Tx, []interface{}, ...ConfigFunc) QFrame")
		errs = []*lt{lh("(,)", ls("ESite.other", "missing"), ls("EV.opaque", "no function (string, interface{}, *Config) (column.Column, error)"))}
		var names []string
		for n := range c.fns {
			names = append(names, n)
		}
		sort.Strings(names)
		count := map[string]int{}
		for _, n := range names {
			fd := c.fns[n]
			pts, rts := ctFlatTypes(fd.Type.Params), strings.Join(ctFlatTypes(fd.Type.Results), ",")
			params := strings.Join(pts, ",")
			isQ := strings.HasPrefix(n, "QFrame.") && recvName(fd) != ""
			switch {
			case isQ && params == "...Order" && rts == "QFrame":
				count["so"]++
				if sgShadows(fd, c.sortPkg) {
					so = ls("SO.opaque", "a local hides a package or a builtin")
				} else {
					so = c.so(fd.Body.List, sgscope{recvName(fd): "recv", paramNames(fd)[0]: "orders"})
				}
			case isQ && params == "[]string,[]Order,bool" && strings.HasPrefix(rts, "[]") && strings.HasSuffix(rts, ".Comparable"):
				count["ch"]++
				ch = c.comparablesTerm(fd)
			case isQ && params == "[]string" && rts == "[]Order":
				count["oh"]++
				oh = c.ordersTerm(fd)
			case isQ && len(pts) == 3 && strings.HasSuffix(pts[0], ".DataFuncOrBuiltInId") && pts[1] == "string" && pts[2] == "string" && rts == "QFrame":
				count["a1"]++
				a1 = c.applyTerm(fd, 1)
			case isQ && len(pts) == 4 && strings.HasSuffix(pts[0], ".DataFuncOrBuiltInId") && pts[1] == "string" && pts[2] == "string" && pts[3] == "string" && rts == "QFrame":
				count["a2"]++
				a2 = c.applyTerm(fd, 2)
			case fd.Recv == nil && len(pts) == 3 && pts[0] == "string" && pts[1] == "interface{}" && strings.HasSuffix(pts[2], ".Config") && strings.HasSuffix(rts, ".Column,error"):
				count["cc"]++
				errs = c.createColumnErrs(fd)
			case fd.Recv == nil && len(pts) == 3 && pts[0] == "*sql.Tx" && pts[1] == "[]interface{}" && strings.HasPrefix(pts[2], "...") && strings.HasSuffix(pts[2], ".ConfigFunc") && rts == "QFrame":
				count["rs"]++
				rs = c.readSqlArgsTerm(fd)
			}
		}
		if count["so"] > 1 {
			so = ls("SO.opaque", "more than one method (...Order) QFrame")
		}
		if count["ch"] > 1 {
			ch = ls("CH.opaque", "more than one method ([]string, []Order, bool) []column.Comparable")
		}
		if count["oh"] > 1 {
			oh = ls("OH.opaque", "more than one method ([]string) []Order")
		}
		if count["a1"] > 1 {
			a1 = ls("AP.opaque", "more than one method (F, string, string) QFrame")
		}
		if count["a2"] > 1 {
			a2 = ls("AP.opaque", "more than one method (F, string, string, string) QFrame")
		}
		if count["rs"] > 1 {
			rs = ls("RS.opaque", "more than one function (*sql.Tx, []interface{}, ...ConfigFunc) QFrame")
		}
		if count["cc"] > 1 {
			errs = []*lt{lh("(,)", ls("ESite.other", "ambiguous"), ls("EV.opaque", "more than one function (string, interface{}, *Config) (column.Column, error)"))}
		}
	}
	b.WriteString("/-- the method of QFrame `(...Order) QFrame` (`Sort`), `withErr` / `withIndex` inlined -/\ndef sortAst : SO := " + so.lean() + "\n\n")
	b.WriteString("/-- the function of internal/sort `(index.Int, []column.Comparable) Sorter` (`New`) -/\ndef sorterNewAst : SN := " + sn.lean() + "\n\n")
	b.WriteString("/-- the method of QFrame `([]string, []Order, bool) []column.Comparable` (`comparables`, the helper of `GroupBy` and `Distinct`) -/\ndef comparablesAst : CH := " + ch.lean() + "\n\n")
	b.WriteString("/-- the method of QFrame `([]string) []Order` (`orders`) -/\ndef ordersAst : OH := " + oh.lean() + "\n\n")
	b.WriteString("/-- the method of QFrame `(fn, string, string) QFrame` (`apply1`) -/\ndef apply1GlueAst : AP := " + a1.lean() + "\n\n")
	b.WriteString("/-- the method of QFrame `(fn, string, string, string) QFrame` (`apply2`) -/\ndef apply2GlueAst : AP := " + a2.lean() + "\n\n")
	parts := make([]string, len(errs))
	for i, t := range errs {
		parts[i] = "  " + t.lean()
	}
	b.WriteString("/-- the error returns of `createColumn`, in source order: (where, the error value) -/\ndef createColumnErrs : List (ESite × EV) := [\n" + strings.Join(parts, ",\n") + "]\n\n")
	b.WriteString("/-- the function `(*sql.Tx, []interface{}, ...qsql.ConfigFunc) QFrame` (`ReadSQLWithArgs`) -/\ndef readSqlArgsAst : RS := " + rs.lean() + "\n\nend QF.Gen\n")
	return b.String()
}
