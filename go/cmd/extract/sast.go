package main

// Translation go/ast → SX (lean/QF/Core/SExpr.lean) of the scanner of ReadSQL in /repo/internal/io/sql:
//
//	column.go   type Column struct{…}; (c *Column) Scan / Null / Int / Float / String / Bool / Data
//	coerce.go   Int64ToBool, StringToFloat: func(c *Column) func(t interface{}) error
//
// Every function body becomes a decision tree: the statements after an `if` / `switch` are carried into each branch
// (`bscoped` of nast.go), so every path ends in a return. Tests whose outcome is known on a path (`ok` after a type
// assertion, `err` after `c.Null()` / `strconv.ParseFloat`) are decided at translation time.
//
// Everything is found by ROLE: the struct is the one with a `reflect.Kind` field; its fields by type (the two `int`
// fields: the one a method increments counts the NULLs, the other one is the precision; the slices of the inner struct by
// element type); the methods by signature; the coercions are the functions (*Column) func(interface{}) error, named by
// the exported constant of config/sql that selects them. Whatever is not understood becomes `.opaque "<text>"`.

import (
	"fmt"
	"go/ast"
	"go/token"
	"path/filepath"
	"sort"
	"strings"
)

type sctx struct {
	repo    string
	files   map[string]*ast.File
	fns     map[string]*ast.FuncDecl
	imports map[string]string

	recv                                       string
	fKind, fNulls, fPtr, fData, fCoerce, fPrec string
	slices                                     map[string]string // field of the data struct → SSlice
	meths                                      map[string]string // method name → role
	fixedFn                                    string            // the function (float64, int) float64 of internal/math/float
}

func sxop(n ast.Node) *lt        { return ls("SX.opaque", src(n)) }
func sxopText(s string) *lt      { return ls("SX.opaque", s) }
func isEmptyIface(t string) bool { return t == "interface{}" || t == "any" }

var sliceRole = map[string]string{"[]int": "ints", "[]float64": "floats", "[]bool": "bools", "[]*string": "strings"}
var reflectKind = map[string]string{"Invalid": "invalid", "Int": "int", "Float64": "float", "Bool": "bool", "String": "string"}
var dynType = map[string]string{"bool": "bool", "string": "string", "int64": "int64", "[]uint8": "bytes", "[]byte": "bytes", "float64": "float64", "nil": "null"}
var methArg = map[string]string{"int": "int", "float64": "float", "string": "string", "bool": "bool"}

func (c *sctx) scan() string {
	// the struct with a reflect.Kind field
	for _, f := range c.files {
		for _, d := range f.Decls {
			gd, ok := d.(*ast.GenDecl)
			if !ok || gd.Tok != token.TYPE {
				continue
			}
			for _, sp := range gd.Specs {
				ts, ok := sp.(*ast.TypeSpec)
				if !ok {
					continue
				}
				st, ok := ts.Type.(*ast.StructType)
				if !ok {
					continue
				}
				var kind, ptr, data, coerce string
				var ints []string
				slices := map[string]string{}
				bad := false
				for _, fl := range st.Fields.List {
					for _, n := range fl.Names {
						switch t := fl.Type.(type) {
						case *ast.SelectorExpr:
							if id, ok := t.X.(*ast.Ident); ok && c.imports[id.Name] == "reflect" && t.Sel.Name == "Kind" && kind == "" {
								kind = n.Name
							} else {
								bad = true
							}
						case *ast.InterfaceType:
							if len(t.Methods.List) == 0 && ptr == "" {
								ptr = n.Name
							} else {
								bad = true
							}
						case *ast.FuncType:
							if coerce == "" {
								coerce = n.Name
							} else {
								bad = true
							}
						case *ast.StructType:
							if data != "" {
								bad = true
							}
							data = n.Name
							for _, sf := range t.Fields.List {
								r, ok := sliceRole[src(sf.Type)]
								for _, sn := range sf.Names {
									if !ok || len(sf.Names) != 1 {
										bad = true
									}
									slices[sn.Name] = r
								}
							}
						case *ast.Ident:
							if t.Name == "int" {
								ints = append(ints, n.Name)
							} else {
								bad = true
							}
						default:
							bad = true
						}
					}
				}
				if kind == "" {
					continue
				}
				roles := map[string]bool{}
				for _, r := range slices {
					roles[r] = true
				}
				if bad || ptr == "" || data == "" || coerce == "" || len(ints) != 2 || len(slices) != 4 || len(roles) != 4 {
					return "the column struct " + ts.Name.Name + " has not the expected fields"
				}
				if c.recv != "" {
					return "two structs with a reflect.Kind field"
				}
				c.recv, c.fKind, c.fPtr, c.fData, c.fCoerce, c.slices = ts.Name.Name, kind, ptr, data, coerce, slices
				c.fNulls, c.fPrec = ints[0], ints[1]
			}
		}
	}
	if c.recv == "" {
		return "no struct with a reflect.Kind field"
	}
	// the methods by signature; the NULL counter is the int field a method increments
	c.meths = map[string]string{}
	seen := map[string]bool{}
	incs := map[string]bool{}
	for name, fd := range c.fns {
		if !strings.HasPrefix(name, c.recv+".") {
			continue
		}
		p, r := flatTypes(fd.Type.Params), flatTypes(fd.Type.Results)
		role := ""
		switch {
		case len(p) == 1 && isEmptyIface(p[0]) && len(r) == 1 && r[0] == "error":
			role = "scan"
		case len(p) == 0 && len(r) == 1 && r[0] == "error":
			role = "null"
		case len(p) == 0 && len(r) == 1 && isEmptyIface(r[0]):
			role = "data"
		case len(p) == 1 && len(r) == 0 && methArg[p[0]] != "":
			role = methArg[p[0]]
		default:
			continue
		}
		if seen[role] {
			return "two methods with the signature of " + role
		}
		seen[role] = true
		c.meths[fd.Name.Name] = role
		rn := recvName(fd)
		ast.Inspect(fd.Body, func(n ast.Node) bool {
			if inc, ok := n.(*ast.IncDecStmt); ok && inc.Tok == token.INC {
				if sel, ok := inc.X.(*ast.SelectorExpr); ok && isIdent(sel.X, rn) {
					incs[sel.Sel.Name] = true
				}
			}
			return true
		})
	}
	for _, r := range []string{"scan", "null", "data", "int", "float", "string", "bool"} {
		if !seen[r] {
			return "no method with the signature of " + r
		}
	}
	switch {
	case incs[c.fNulls] && !incs[c.fPrec]:
	case incs[c.fPrec] && !incs[c.fNulls]:
		c.fNulls, c.fPrec = c.fPrec, c.fNulls
	default:
		return "the NULL counter and the precision cannot be told apart"
	}
	// float.Fixed
	for n, fd := range funcDecls(parseDir(filepath.Join(c.repo, "internal", "math", "float"))) {
		if fd.Recv == nil && strings.Join(flatTypes(fd.Type.Params), ",") == "float64,int" && strings.Join(flatTypes(fd.Type.Results), ",") == "float64" {
			if c.fixedFn != "" {
				c.fixedFn = "?"
			} else {
				c.fixedFn = n
			}
		}
	}
	return ""
}

func recvName(fd *ast.FuncDecl) string {
	if fd.Recv == nil || len(fd.Recv.List) != 1 || len(fd.Recv.List[0].Names) != 1 {
		return ""
	}
	return fd.Recv.List[0].Names[0].Name
}

// ---------------------------------------------------------------------------------------------------------------

// sexec translates one function body. Values of names (bv of nast.go): recv · arg (s: dyn | bool | string | int64 | bytes |
// float64 | int) · parsed · bool (b) · err (s: nil | failed) · stale
type sexec struct {
	*sctx
	result string // error | void | data
}

// c.<field>
func (x *sexec) field(e ast.Expr, sc *bscope, field string) bool {
	sel, ok := unparen(e).(*ast.SelectorExpr)
	if !ok || sel.Sel.Name != field || field == "" {
		return false
	}
	id, ok := sel.X.(*ast.Ident)
	if !ok {
		return false
	}
	v, ok := sc.get(id.Name)
	return ok && v.kind == "recv"
}

// c.<data>.<slice>: the slice
func (x *sexec) slice(e ast.Expr, sc *bscope) string {
	sel, ok := unparen(e).(*ast.SelectorExpr)
	if !ok || !x.field(sel.X, sc, x.fData) {
		return ""
	}
	return x.slices[sel.Sel.Name]
}

func (x *sexec) unbound(e ast.Expr, sc *bscope, name string) bool {
	return isIdent(e, name) && !sc.bound(name)
}

func (x *sexec) std(e ast.Expr, sc *bscope, pkg string) bool {
	id, ok := unparen(e).(*ast.Ident)
	return ok && !sc.bound(id.Name) && x.imports[id.Name] == pkg
}

func (x *sexec) arg(e ast.Expr, sc *bscope) (*bv, bool) {
	id, ok := unparen(e).(*ast.Ident)
	if !ok {
		return nil, false
	}
	v, ok := sc.get(id.Name)
	return v, ok && v.kind == "arg"
}

func (x *sexec) reflectKind(e ast.Expr, sc *bscope) (string, bool) {
	sel, ok := unparen(e).(*ast.SelectorExpr)
	if !ok || !x.std(sel.X, sc, "reflect") {
		return "", false
	}
	k, ok := reflectKind[sel.Sel.Name]
	return k, ok
}

func (x *sexec) val(e ast.Expr, sc *bscope) *lt {
	e = unparen(e)
	switch t := e.(type) {
	case *ast.Ident:
		if v, ok := sc.get(t.Name); ok {
			switch v.kind {
			case "arg":
				return lh("SVE.arg")
			case "parsed":
				return lh("SVE.parsed")
			}
		} else if t.Name == "nil" {
			return lh("SVE.nilPtr")
		}
	case *ast.CallExpr:
		if len(t.Args) == 1 {
			if a, ok := x.arg(t.Args[0], sc); ok {
				switch {
				case x.unbound(t.Fun, sc, "int") && a.s == "int64":
					return lh("SVE.intOf", lh("SVE.arg"))
				case x.unbound(t.Fun, sc, "string") && (a.s == "bytes" || a.s == "string"):
					return lh("SVE.stringOf", lh("SVE.arg"))
				}
			}
		}
		if sel, ok := t.Fun.(*ast.SelectorExpr); ok && len(t.Args) == 0 && x.std(sel.X, sc, "math") && sel.Sel.Name == "NaN" {
			return lh("SVE.nan")
		}
	case *ast.BinaryExpr:
		if a, ok := x.arg(t.X, sc); ok && t.Op == token.NEQ && iIntLit(t.Y, "0") && a.s == "int64" {
			return lh("SVE.neZero", lh("SVE.arg"))
		}
	case *ast.UnaryExpr:
		if a, ok := x.arg(t.X, sc); ok && t.Op == token.AND && a.s == "string" {
			return lh("SVE.addrOf", lh("SVE.arg"))
		}
	}
	return ls("SVE.opaque", src(e))
}

// a condition: (term, known, value)
func (x *sexec) cond(e ast.Expr, sc *bscope) (*lt, bool, bool) {
	e = unparen(e)
	not := func(c *lt, neg bool) *lt {
		if neg {
			return lh("SC.not", c)
		}
		return c
	}
	switch t := e.(type) {
	case *ast.Ident:
		if v, ok := sc.get(t.Name); ok && v.kind == "bool" {
			return nil, true, v.b
		}
	case *ast.UnaryExpr:
		if t.Op == token.NOT {
			c, known, v := x.cond(t.X, sc)
			if known {
				return nil, true, !v
			}
			return lh("SC.not", c), false, false
		}
	case *ast.BinaryExpr:
		switch t.Op {
		case token.EQL, token.NEQ:
			neg := t.Op == token.NEQ
			for _, p := range [][2]ast.Expr{{t.X, t.Y}, {t.Y, t.X}} {
				a, b := unparen(p[0]), p[1]
				isNil := x.unbound(b, sc, "nil")
				if id, ok := a.(*ast.Ident); ok && isNil {
					if v, ok := sc.get(id.Name); ok {
						switch {
						case v.kind == "err" && (v.s == "nil" || v.s == "failed"):
							return nil, true, (v.s == "nil") != neg
						case v.kind == "arg" && v.s == "dyn":
							return not(lh("SC.argNil"), neg), false, false
						}
					}
				}
				if x.field(a, sc, x.fPtr) && isNil {
					return not(lh("SC.ptrNil"), neg), false, false
				}
				if x.field(a, sc, x.fCoerce) && isNil {
					return not(lh("SC.hasCoerce"), !neg), false, false
				}
				if x.field(a, sc, x.fKind) {
					if k, ok := x.reflectKind(b, sc); ok {
						return not(lh("SC.kindIs", lh("SKind."+k)), neg), false, false
					}
				}
			}
		case token.GTR, token.LSS:
			a, b := t.X, t.Y
			if t.Op == token.LSS {
				a, b = b, a
			}
			if iIntLit(b, "0") {
				switch {
				case x.field(a, sc, x.fNulls):
					return lh("SC.nullsPos"), false, false
				case x.field(a, sc, x.fPrec):
					return lh("SC.precPos"), false, false
				}
			}
		}
	}
	return ls("SC.opaque", src(e)), false, false
}

func (x *sexec) errCall(e ast.Expr, sc *bscope) bool {
	call, ok := unparen(e).(*ast.CallExpr)
	if !ok {
		return false
	}
	sel, ok := call.Fun.(*ast.SelectorExpr)
	if !ok {
		return false
	}
	id, ok := sel.X.(*ast.Ident)
	if !ok || sc.bound(id.Name) {
		return false
	}
	p := x.imports[id.Name]
	switch {
	case strings.HasSuffix(p, "/qerrors"):
		return sel.Sel.Name == "New" || sel.Sel.Name == "Propagate"
	case p == "errors":
		return sel.Sel.Name == "New"
	case p == "fmt":
		return sel.Sel.Name == "Errorf"
	}
	return false
}

// c.<Method>(…): the role of the method
func (x *sexec) methodCall(e ast.Expr, sc *bscope) (string, []ast.Expr) {
	call, ok := unparen(e).(*ast.CallExpr)
	if !ok {
		return "", nil
	}
	sel, ok := call.Fun.(*ast.SelectorExpr)
	if !ok {
		return "", nil
	}
	id, ok := sel.X.(*ast.Ident)
	if !ok {
		return "", nil
	}
	if v, ok := sc.get(id.Name); !ok || v.kind != "recv" {
		return "", nil
	}
	return x.meths[sel.Sel.Name], call.Args
}

// c.<data>.<slice> = append(c.<data>.<slice>, v): (slice, v)
func (x *sexec) appendTo(st ast.Stmt, sc *bscope) (string, *lt) {
	as, ok := st.(*ast.AssignStmt)
	if !ok || as.Tok != token.ASSIGN || len(as.Lhs) != 1 || len(as.Rhs) != 1 {
		return "", nil
	}
	sl := x.slice(as.Lhs[0], sc)
	call, ok := unparen(as.Rhs[0]).(*ast.CallExpr)
	if sl == "" || !ok || !x.unbound(call.Fun, sc, "append") || len(call.Args) != 2 || call.Ellipsis.IsValid() || x.slice(call.Args[0], sc) != sl {
		return "", nil
	}
	return sl, x.val(call.Args[1], sc)
}

// in the branch where the dynamic value was bound to a typed variable the interface variable is no longer the value the
// term's `arg` stands for; what is still known of it is its dynamic type d (d == "": nothing)
func staleArgs(sc *bscope, d string) {
	for f := sc; f != nil; f = f.parent {
		for n, v := range f.vars {
			switch {
			case v.kind == "arg" && v.s == "dyn" && d != "":
				f.vars[n] = &bv{kind: "dynknown", s: d}
			case v.kind == "arg" || v.kind == "dynknown":
				f.vars[n] = &bv{kind: "stale"}
			}
		}
	}
}

func (x *sexec) exec(stmts []ast.Stmt, sc *bscope) *lt {
	if len(stmts) == 0 {
		if x.result == "void" {
			return lh("SX.retNil")
		}
		return sxopText("missing return")
	}
	st, rest := stmts[0], stmts[1:]
	switch st {
	case bPush:
		return x.exec(rest, sc.push())
	case bPop:
		return x.exec(rest, sc.parent)
	}
	switch s := st.(type) {
	case *ast.BlockStmt:
		return x.exec(bscoped(s.List, rest), sc)
	case *ast.IfStmt:
		if s.Init != nil {
			// the variables of the init statement live in the if statement: { init; if cond { … } else { … } }
			plain := *s
			plain.Init = nil
			return x.exec(bscoped([]ast.Stmt{s.Init, &plain}, rest), sc)
		}
		thenB, elseB := bscoped(s.Body.List, rest), bscoped(blockOf(s.Else), rest)
		c, known, v := x.cond(s.Cond, sc)
		if known {
			if v {
				return x.exec(thenB, sc)
			}
			return x.exec(elseB, sc)
		}
		return lh("SX.ifC", c, x.exec(thenB, sc.clone()), x.exec(elseB, sc.clone()))
	case *ast.IncDecStmt:
		if s.Tok == token.INC && x.field(s.X, sc, x.fNulls) {
			return lh("SX.incNulls", x.exec(rest, sc))
		}
	case *ast.AssignStmt:
		if t := x.assign(s, rest, sc); t != nil {
			return t
		}
	case *ast.ForStmt:
		// for i := 0; i < c.<nulls>; i++ { c.<data>.<slice> = append(c.<data>.<slice>, v) }
		init, ok1 := s.Init.(*ast.AssignStmt)
		cnd, ok2 := s.Cond.(*ast.BinaryExpr)
		post, ok3 := s.Post.(*ast.IncDecStmt)
		if !ok1 || !ok2 || !ok3 || init.Tok != token.DEFINE || len(init.Lhs) != 1 || len(init.Rhs) != 1 || !iIntLit(init.Rhs[0], "0") || len(s.Body.List) != 1 {
			return sxop(s)
		}
		i, ok := init.Lhs[0].(*ast.Ident)
		if !ok || cnd.Op != token.LSS || !isIdent(cnd.X, i.Name) || !x.field(cnd.Y, sc, x.fNulls) || post.Tok != token.INC || !isIdent(post.X, i.Name) {
			return sxop(s)
		}
		inner := sc.push()
		inner.vars[i.Name] = &bv{kind: "stale"}
		sl, v := x.appendTo(s.Body.List[0], inner)
		if sl == "" {
			return sxop(s)
		}
		return lh("SX.backfill", lh("SSlice."+sl), v, x.exec(rest, sc))
	case *ast.SwitchStmt:
		if s.Init != nil || s.Tag == nil || !x.field(s.Tag, sc, x.fKind) {
			return sxop(s)
		}
		var deflt []ast.Stmt
		type kcase struct {
			k    string
			body []ast.Stmt
		}
		var cases []kcase
		for _, cl := range s.Body.List {
			cc := cl.(*ast.CaseClause)
			for _, b := range cc.Body {
				if br, ok := b.(*ast.BranchStmt); ok && br.Tok != token.GOTO {
					return sxop(s) // break / fallthrough inside a clause
				}
			}
			if cc.List == nil {
				deflt = cc.Body
				continue
			}
			for _, e := range cc.List {
				k, ok := x.reflectKind(e, sc)
				if !ok {
					return sxop(s)
				}
				cases = append(cases, kcase{k, cc.Body})
			}
		}
		t := x.exec(bscoped(deflt, rest), sc.clone())
		for i := len(cases) - 1; i >= 0; i-- {
			t = lh("SX.ifC", lh("SC.kindIs", lh("SKind."+cases[i].k)), x.exec(bscoped(cases[i].body, rest), sc.clone()), t)
		}
		return t
	case *ast.TypeSwitchStmt:
		return x.typeSwitch(s, rest, sc)
	case *ast.ExprStmt:
		if role, args := x.methodCall(s.X, sc); (role == "int" || role == "float" || role == "string" || role == "bool") && len(args) == 1 {
			return lh("SX.call", lh("SMeth."+role), x.val(args[0], sc), x.exec(rest, sc))
		}
	case *ast.ReturnStmt:
		return x.ret(s, sc)
	}
	return sxop(st)
}

func (x *sexec) ret(s *ast.ReturnStmt, sc *bscope) *lt {
	switch x.result {
	case "void":
		if len(s.Results) == 0 {
			return lh("SX.retNil")
		}
	case "data":
		if len(s.Results) == 1 {
			if x.unbound(s.Results[0], sc, "nil") {
				return lh("SX.retNoData")
			}
			// reflect.ValueOf(c.<ptr>).Elem().Interface()
			if c1, ok := unparen(s.Results[0]).(*ast.CallExpr); ok && len(c1.Args) == 0 {
				if s1, ok := c1.Fun.(*ast.SelectorExpr); ok && s1.Sel.Name == "Interface" {
					if c2, ok := s1.X.(*ast.CallExpr); ok && len(c2.Args) == 0 {
						if s2, ok := c2.Fun.(*ast.SelectorExpr); ok && s2.Sel.Name == "Elem" {
							if c3, ok := s2.X.(*ast.CallExpr); ok && len(c3.Args) == 1 && x.field(c3.Args[0], sc, x.fPtr) {
								if s3, ok := c3.Fun.(*ast.SelectorExpr); ok && s3.Sel.Name == "ValueOf" && x.std(s3.X, sc, "reflect") {
									return lh("SX.retPointee")
								}
							}
						}
					}
				}
			}
		}
	case "error":
		if len(s.Results) != 1 {
			break
		}
		r := unparen(s.Results[0])
		if x.unbound(r, sc, "nil") {
			return lh("SX.retNil")
		}
		if x.errCall(r, sc) {
			return lh("SX.retErr")
		}
		if id, ok := r.(*ast.Ident); ok {
			if v, ok := sc.get(id.Name); ok && v.kind == "err" {
				switch v.s {
				case "nil":
					return lh("SX.retNil")
				case "failed":
					return lh("SX.retErr")
				}
			}
		}
		if role, args := x.methodCall(r, sc); role == "null" && len(args) == 0 {
			return lh("SX.callNull", lh("SX.retErr"), lh("SX.retNil"))
		}
		// c.<coerce>(t)
		if call, ok := r.(*ast.CallExpr); ok && len(call.Args) == 1 && x.field(call.Fun, sc, x.fCoerce) {
			if a, ok := x.arg(call.Args[0], sc); ok && a.s == "dyn" {
				return lh("SX.retCoerce")
			}
		}
	}
	return sxop(s)
}

func (x *sexec) assign(s *ast.AssignStmt, rest []ast.Stmt, sc *bscope) *lt {
	if s.Tok == token.ASSIGN && len(s.Lhs) == len(s.Rhs) && len(s.Lhs) > 1 {
		// v, ok = <value>, true: flags are updated on the path, ONE value variable is re-bound (the right-hand sides are
		// evaluated first)
		var val *lt
		valName, valType := "", ""
		flags := map[string]bool{}
		for i, l := range s.Lhs {
			id, ok := l.(*ast.Ident)
			if !ok {
				return nil
			}
			tv, ok := sc.get(id.Name)
			if !ok {
				return nil
			}
			r := unparen(s.Rhs[i])
			switch {
			case tv.kind == "bool" && (x.unbound(r, sc, "true") || x.unbound(r, sc, "false")):
				flags[id.Name] = isIdent(r, "true")
			case (tv.kind == "stale" || tv.kind == "arg") && val == nil:
				call, isCall := r.(*ast.CallExpr)
				if !isCall || !x.unbound(call.Fun, sc, "string") {
					return nil
				}
				val, valName, valType = x.val(r, sc), id.Name, "string"
			default:
				return nil
			}
		}
		if val == nil || val.hasOpaque() {
			return nil
		}
		staleArgs(sc, "")
		sc.set(valName, &bv{kind: "arg", s: valType})
		for n, b := range flags {
			sc.set(n, &bv{kind: "bool", b: b})
		}
		return lh("SX.bindArg", val, x.exec(rest, sc))
	}
	if len(s.Rhs) != 1 {
		return nil
	}
	rhs := unparen(s.Rhs[0])
	if s.Tok == token.ASSIGN && len(s.Lhs) == 1 {
		lhs := s.Lhs[0]
		switch {
		case x.field(lhs, sc, x.fKind):
			if k, ok := x.reflectKind(rhs, sc); ok {
				return lh("SX.setKind", lh("SKind."+k), x.exec(rest, sc))
			}
		case x.field(lhs, sc, x.fPtr):
			if u, ok := rhs.(*ast.UnaryExpr); ok && u.Op == token.AND {
				if sl := x.slice(u.X, sc); sl != "" {
					return lh("SX.setPtr", lh("SSlice."+sl), x.exec(rest, sc))
				}
			}
		case x.field(lhs, sc, x.fNulls):
			if iIntLit(rhs, "0") {
				return lh("SX.clearNulls", x.exec(rest, sc))
			}
		}
		if sl, v := x.appendTo(s, sc); sl != "" {
			return lh("SX.append", lh("SSlice."+sl), v, x.exec(rest, sc))
		}
		// f = float.Fixed(f, c.<precision>)
		if a, ok := x.arg(lhs, sc); ok && a.s == "float64" {
			if call, ok := rhs.(*ast.CallExpr); ok && len(call.Args) == 2 && src(call.Args[0]) == src(lhs) && x.field(call.Args[1], sc, x.fPrec) {
				if sel, ok := call.Fun.(*ast.SelectorExpr); ok && sel.Sel.Name == x.fixedFn && x.fixedFn != "" {
					if id, ok := sel.X.(*ast.Ident); ok && !sc.bound(id.Name) && strings.HasSuffix(x.imports[id.Name], "/internal/math/float") {
						return lh("SX.fixArg", x.exec(rest, sc))
					}
				}
			}
		}
		return nil
	}
	if s.Tok != token.DEFINE {
		return nil
	}
	names := make([]string, len(s.Lhs))
	for i, l := range s.Lhs {
		id, ok := l.(*ast.Ident)
		if !ok {
			return nil
		}
		names[i] = id.Name
	}
	def := func(sc *bscope, n string, v *bv) {
		if n != "_" {
			sc.vars[n] = v
		}
	}
	switch len(names) {
	case 1:
		// err := c.Null()
		if role, args := x.methodCall(rhs, sc); role == "null" && len(args) == 0 {
			failed, fine := sc.clone(), sc.clone()
			def(failed, names[0], &bv{kind: "err", s: "failed"})
			def(fine, names[0], &bv{kind: "err", s: "nil"})
			return lh("SX.callNull", x.exec(rest, failed), x.exec(rest, fine))
		}
	case 2:
		// v, ok := t.(T)
		if ta, ok := rhs.(*ast.TypeAssertExpr); ok && ta.Type != nil {
			a, isArg := x.arg(ta.X, sc)
			d, isDyn := dynType[src(ta.Type)]
			// the dynamic type of the value is known on this path: the assertion is decided
			if id, isId := unparen(ta.X).(*ast.Ident); isId && isDyn && d != "null" && !sc.bound(src(ta.Type)) {
				if kv, ok := sc.get(id.Name); ok && kv.kind == "dynknown" {
					if kv.s == d {
						def(sc, names[0], &bv{kind: "arg", s: d})
						def(sc, names[1], &bv{kind: "bool", b: true})
					} else {
						def(sc, names[0], &bv{kind: "stale"})
						def(sc, names[1], &bv{kind: "bool", b: false})
					}
					return x.exec(rest, sc)
				}
			}
			if !isArg || a.s != "dyn" || !isDyn || d == "null" || sc.bound(src(ta.Type)) {
				return nil
			}
			yes, no := sc.clone(), sc.clone()
			staleArgs(yes, d)
			def(yes, names[0], &bv{kind: "arg", s: d})
			def(yes, names[1], &bv{kind: "bool", b: true})
			def(no, names[0], &bv{kind: "stale"})
			def(no, names[1], &bv{kind: "bool", b: false})
			return lh("SX.ifDyn", lh("SDyn."+d), x.exec(rest, yes), x.exec(rest, no))
		}
		// f, err := strconv.ParseFloat(v, 64)
		if call, ok := rhs.(*ast.CallExpr); ok && len(call.Args) == 2 && iIntLit(call.Args[1], "64") {
			sel, ok := call.Fun.(*ast.SelectorExpr)
			a, isArg := x.arg(call.Args[0], sc)
			if ok && x.std(sel.X, sc, "strconv") && sel.Sel.Name == "ParseFloat" && isArg && a.s == "string" {
				failed, fine := sc.clone(), sc.clone()
				def(failed, names[0], &bv{kind: "stale"})
				def(failed, names[1], &bv{kind: "err", s: "failed"})
				def(fine, names[0], &bv{kind: "parsed"})
				def(fine, names[1], &bv{kind: "err", s: "nil"})
				return lh("SX.parseFloat", x.exec(rest, failed), x.exec(rest, fine))
			}
		}
	}
	return nil
}

func (x *sexec) typeSwitch(s *ast.TypeSwitchStmt, rest []ast.Stmt, sc *bscope) *lt {
	if s.Init != nil {
		return sxop(s)
	}
	bind := ""
	var subject ast.Expr
	switch a := s.Assign.(type) {
	case *ast.AssignStmt:
		if len(a.Lhs) != 1 || len(a.Rhs) != 1 || a.Tok != token.DEFINE {
			return sxop(s)
		}
		bind = a.Lhs[0].(*ast.Ident).Name
		subject = a.Rhs[0]
	case *ast.ExprStmt:
		subject = a.X
	default:
		return sxop(s)
	}
	ta, ok := subject.(*ast.TypeAssertExpr)
	if !ok || ta.Type != nil {
		return sxop(s)
	}
	if a, ok := x.arg(ta.X, sc); !ok || a.s != "dyn" {
		return sxop(s)
	}
	type tcase struct {
		d    string
		body []ast.Stmt
	}
	var cases []tcase
	var deflt []ast.Stmt
	for _, cl := range s.Body.List {
		cc := cl.(*ast.CaseClause)
		for _, b := range cc.Body {
			if br, ok := b.(*ast.BranchStmt); ok && br.Tok != token.GOTO {
				return sxop(s)
			}
		}
		if cc.List == nil {
			deflt = cc.Body
			continue
		}
		if len(cc.List) != 1 {
			return sxop(s)
		}
		d, ok := dynType[src(cc.List[0])]
		if !ok || sc.bound(src(cc.List[0])) {
			return sxop(s)
		}
		cases = append(cases, tcase{d, cc.Body})
	}
	// the default clause (or none): the variable has the interface type
	dsc := sc.clone().push()
	if bind != "" && bind != "_" {
		dsc.vars[bind] = &bv{kind: "arg", s: "dyn"}
	}
	t := x.exec(concat(deflt, concat([]ast.Stmt{bPop}, rest)), dsc)
	for i := len(cases) - 1; i >= 0; i-- {
		inner := sc.clone()
		staleArgs(inner, cases[i].d)
		inner = inner.push()
		if bind != "" && bind != "_" {
			if cases[i].d == "null" {
				inner.vars[bind] = &bv{kind: "stale"}
			} else {
				inner.vars[bind] = &bv{kind: "arg", s: cases[i].d}
			}
		}
		t = lh("SX.ifDyn", lh("SDyn."+cases[i].d), x.exec(concat(cases[i].body, concat([]ast.Stmt{bPop}, rest)), inner), t)
	}
	return t
}

// the exported constant of config/sql that selects a coercion function of this package
func (c *sctx) publicCoercions() map[string]string {
	res := map[string]string{}
	files := parseDir(filepath.Join(c.repo, "config", "sql"))
	imports := importsOf(files)
	for _, f := range files {
		ast.Inspect(f, func(n ast.Node) bool {
			cc, ok := n.(*ast.CaseClause)
			if !ok || len(cc.List) != 1 || len(cc.Body) != 1 {
				return true
			}
			k, ok1 := cc.List[0].(*ast.Ident)
			ret, ok2 := cc.Body[0].(*ast.ReturnStmt)
			if !ok1 || !ok2 || len(ret.Results) != 1 {
				return true
			}
			sel, ok := ret.Results[0].(*ast.SelectorExpr)
			if !ok {
				return true
			}
			if id, ok := sel.X.(*ast.Ident); ok && strings.HasSuffix(imports[id.Name], "/internal/io/sql") {
				if _, dup := res[sel.Sel.Name]; dup {
					res[sel.Sel.Name] = "?"
				} else {
					res[sel.Sel.Name] = k.Name
				}
			}
			return true
		})
	}
	return res
}

// scanLean writes QF/Gen/Scan.lean.
func scanLean(repo string) string {
	var b strings.Builder
	b.WriteString("/- GENERATED on every run by /verif/go/cmd/extract from /repo's source (tie T1). Do not edit. -/\nimport QF.Core.SExpr\nnamespace QF.Gen\n\n")
	files := parseDir(filepath.Join(repo, "internal", "io", "sql"))
	c := &sctx{repo: repo, files: files, fns: funcDecls(files), imports: importsOf(files)}
	msg := c.scan()
	body := func(fd *ast.FuncDecl, result string, params []string, roles []*bv, stmts []ast.Stmt) *lt {
		sc := &bscope{vars: map[string]*bv{}}
		if rn := recvName(fd); rn != "" {
			sc.vars[rn] = &bv{kind: "recv"}
		}
		for i, n := range params {
			if n != "_" {
				sc.vars[n] = roles[i]
			}
		}
		x := &sexec{sctx: c, result: result}
		return x.exec(stmts, sc.push())
	}
	byRole := map[string]*ast.FuncDecl{}
	if msg == "" {
		for name, role := range c.meths {
			byRole[role] = c.fns[c.recv+"."+name]
		}
	}
	method := func(role string) *lt {
		if msg != "" {
			return sxopText(msg)
		}
		fd := byRole[role]
		if recvName(fd) == "" || !strings.HasPrefix(src(fd.Recv.List[0].Type), "*") {
			return sxopText("the receiver of " + fd.Name.Name + " is not a named pointer")
		}
		switch role {
		case "scan":
			return body(fd, "error", paramNames(fd), []*bv{{kind: "arg", s: "dyn"}}, fd.Body.List)
		case "null":
			return body(fd, "error", nil, nil, fd.Body.List)
		case "data":
			return body(fd, "data", nil, nil, fd.Body.List)
		}
		ty := map[string]string{"int": "int", "float": "float64", "string": "string", "bool": "bool"}[role]
		return body(fd, "void", paramNames(fd), []*bv{{kind: "arg", s: ty}}, fd.Body.List)
	}
	b.WriteString("/-- `Null` and the four appenders of the column, by signature -/\ndef scanMethods : List (SMeth × SX) := [\n")
	for i, r := range []string{"null", "int", "float", "string", "bool"} {
		if i > 0 {
			b.WriteString(",\n")
		}
		fmt.Fprintf(&b, "  (SMeth.%s, %s)", r, method(r).lean())
	}
	b.WriteString("]\n\n/-- `Scan` -/\ndef scanAst : SX :=\n  " + method("scan").lean() + "\n\n")
	b.WriteString("/-- `Data` -/\ndef dataAst : SX :=\n  " + method("data").lean() + "\n\n")
	// the coercions
	var cos []string
	if msg == "" {
		public := c.publicCoercions()
		for name, fd := range c.fns {
			p, r := fd.Type.Params, fd.Type.Results
			if fd.Recv != nil || p == nil || len(p.List) != 1 || len(p.List[0].Names) != 1 || src(p.List[0].Type) != "*"+c.recv || r == nil || len(r.List) != 1 {
				continue
			}
			ft, ok := r.List[0].Type.(*ast.FuncType)
			if !ok || strings.Join(flatTypes(ft.Params), ",") != "interface{}" && strings.Join(flatTypes(ft.Params), ",") != "any" || strings.Join(flatTypes(ft.Results), ",") != "error" {
				continue
			}
			key := name
			if k, ok := public[name]; ok && k != "?" {
				key = k
			}
			var t *lt
			ret, ok := fd.Body.List[0].(*ast.ReturnStmt)
			if len(fd.Body.List) != 1 || !ok || len(ret.Results) != 1 {
				t = sxop(fd.Body)
			} else if fl, ok := ret.Results[0].(*ast.FuncLit); !ok || len(fl.Type.Params.List) != 1 || len(fl.Type.Params.List[0].Names) != 1 {
				t = sxop(fd.Body)
			} else {
				sc := &bscope{vars: map[string]*bv{}}
				sc.vars[p.List[0].Names[0].Name] = &bv{kind: "recv"}
				inner := sc.push()
				if n := fl.Type.Params.List[0].Names[0].Name; n != "_" {
					inner.vars[n] = &bv{kind: "arg", s: "dyn"}
				}
				x := &sexec{sctx: c, result: "error"}
				t = x.exec(fl.Body.List, inner.push())
			}
			cos = append(cos, fmt.Sprintf("  (%s, %s)", leanStr(key), t.lean()))
		}
		sort.Strings(cos)
	}
	b.WriteString("/-- the closures the coercion functions return, named by the constant of config/sql that selects them -/\ndef coerceAsts : List (String × SX) := [\n" + strings.Join(cos, ",\n") + "]\n")
	b.WriteString("\nend QF.Gen\n")
	return b.String()
}
