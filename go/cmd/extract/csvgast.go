package main

// Translation go/ast → CG / CGB / CGA / CGR / CGZ / CGU (lean/QF/Core/CGExpr.lean) of the glue of ReadCSV:
//
//	/repo/internal/io/csv.go   isEmptyLine → CGB · addAliasToMissingColumnNames → CGA · renameDuplicateColumns → CGR ·
//	                           resizeColPointers, resizeColBytes → CGZ · ReadCSV → CG
//	/repo/qframe.go            ReadCSV → CGU
//
// Everything is found by ROLE:
//
//   - ReadCSV of internal/io: the function without receiver (io.Reader, C) (map[string]interface{}, []string, error), C a
//     struct; the fields of C by type (byte: delimiter, []string: headers, int: row count hint, string: alias,
//     map[string][]string: enum declarations), the bool fields by the exported function of config/csv that sets them;
//   - the helpers by signature: ([][]byte) bool · ([]string, string) []string · ([]string) []string · ([][]P, int) ·
//     ([][]byte, int, int) · columnToData as in iast.go; P the struct of two uint32 fields, start / end as in iast.go;
//   - the reader: the package imported with a path ending in internal/fastcsv, its constructor (io.Reader, byte) *R, the
//     methods of R by signature: () bool · () [][]byte · () error · () ([][]byte, error);
//   - variables by what they are bound to; a kind of variable can be bound only while no other variable of that kind is in
//     scope, so a name always means the value its register holds.
//
// Whatever is not understood becomes `.opaque "<text>"`.

import (
	"go/ast"
	"go/token"
	"path/filepath"
	"strconv"
	"strings"
)

type cgctx struct {
	repo    string
	files   map[string]*ast.File
	fns     map[string]*ast.FuncDecl
	imports map[string]string

	fd                                                         *ast.FuncDecl
	cfgType                                                    string
	cfgDelim, cfgHeaders, cfgHint, cfgAlias, cfgEnums          string
	cfgIgnore, cfgRename                                       string
	fnEmpty, fnAlias, fnRename, fnResizeP, fnResizeB, fnToData string
	ptrType, fStart, fEnd                                      string
	rdCtor, rdNext, rdFields, rdErr, rdRead                    string
	nextDone                                                   bool
}

func cgop(n ast.Node) *lt { return ls("CG.opaque", src(n)) }

// the bool field of the configuration that the exported function `name` of config/csv assigns its parameter to
func cfgBoolBy(repo, name string) string {
	fd, ok := funcDecls(parseDir(filepath.Join(repo, "config", "csv")))[name]
	if !ok || fd.Recv != nil {
		return ""
	}
	pn, pty := paramNames(fd), flatTypes(fd.Type.Params)
	if len(pn) != 1 || pty[0] != "bool" {
		return ""
	}
	field, n := "", 0
	ast.Inspect(fd.Body, func(nd ast.Node) bool {
		as, ok := nd.(*ast.AssignStmt)
		if !ok || as.Tok != token.ASSIGN || len(as.Lhs) != 1 || len(as.Rhs) != 1 {
			return true
		}
		n++
		if sel, ok := as.Lhs[0].(*ast.SelectorExpr); ok && isIdent(as.Rhs[0], pn[0]) {
			field = sel.Sel.Name
		}
		return true
	})
	if n != 1 {
		return ""
	}
	return field
}

func (c *cgctx) scan() string {
	ioName := ""
	for n, p := range c.imports {
		if p == "io" {
			ioName = n
		}
	}
	var found []*ast.FuncDecl
	for _, fd := range c.fns {
		if fd.Recv != nil {
			continue
		}
		p, r := flatTypes(fd.Type.Params), flatTypes(fd.Type.Results)
		if len(p) == 2 && len(r) == 3 && ioName != "" && p[0] == ioName+".Reader" && isMapStringIface(r[0]) && r[1] == "[]string" && r[2] == "error" {
			if _, _, ok := structFields(c.files, p[1]); ok {
				found = append(found, fd)
			}
		}
	}
	if len(found) != 1 {
		return "no unique function (io.Reader, <config>) (map[string]interface{}, []string, error)"
	}
	c.fd = found[0]
	c.cfgType = flatTypes(c.fd.Type.Params)[1]
	names, types, _ := structFields(c.files, c.cfgType)
	set := func(dst *string, v string) bool {
		if *dst != "" {
			return false
		}
		*dst = v
		return true
	}
	var bools []string
	for i, t := range types {
		ok := true
		switch t {
		case "byte", "uint8":
			ok = set(&c.cfgDelim, names[i])
		case "[]string":
			ok = set(&c.cfgHeaders, names[i])
		case "int":
			ok = set(&c.cfgHint, names[i])
		case "string":
			ok = set(&c.cfgAlias, names[i])
		case "map[string][]string":
			ok = set(&c.cfgEnums, names[i])
		case "bool":
			bools = append(bools, names[i])
		}
		if !ok {
			return "two fields of type " + t + " in the configuration"
		}
	}
	in := func(n string) bool {
		for _, b := range bools {
			if b == n && n != "" {
				return true
			}
		}
		return false
	}
	c.cfgIgnore, c.cfgRename = cfgBoolBy(c.repo, "IgnoreEmptyLines"), cfgBoolBy(c.repo, "RenameDuplicateColumns")
	if c.cfgDelim == "" || c.cfgHeaders == "" || c.cfgHint == "" || c.cfgAlias == "" || c.cfgEnums == "" || !in(c.cfgIgnore) || !in(c.cfgRename) || c.cfgIgnore == c.cfgRename {
		return "the fields of the configuration cannot be told apart"
	}
	// the pointer struct and the helpers, by signature
	one := func(dst *string, v string) {
		if *dst != "" {
			*dst = "?"
		} else {
			*dst = v
		}
	}
	for n, fd := range c.fns {
		if fd.Recv != nil || fd == c.fd {
			continue
		}
		p, r := strings.Join(flatTypes(fd.Type.Params), ","), strings.Join(flatTypes(fd.Type.Results), ",")
		switch {
		case p == "[][]byte" && r == "bool":
			one(&c.fnEmpty, n)
		case p == "[]string,string" && r == "[]string":
			one(&c.fnAlias, n)
		case p == "[]string" && r == "[]string":
			one(&c.fnRename, n)
		case p == "[][]byte,int,int" && r == "":
			one(&c.fnResizeB, n)
		case strings.HasPrefix(p, "[][]") && strings.HasSuffix(p, ",int") && strings.Count(p, ",") == 1 && r == "":
			t := strings.TrimSuffix(strings.TrimPrefix(p, "[][]"), ",int")
			if _, pt, ok := structFields(c.files, t); ok && len(pt) == 2 && pt[0] == "uint32" && pt[1] == "uint32" {
				one(&c.fnResizeP, n)
				c.ptrType = t
			}
		}
	}
	// columnToData and start / end: as iast.go
	ic := &ictx{repo: c.repo, files: c.files, fns: c.fns, imports: c.imports}
	if msg := ic.scan(); msg != "" {
		return msg
	}
	c.fnToData = ic.fd.Name.Name
	if c.ptrType != ic.ptrType {
		return "the pointer type of the resize helper is not the one of " + c.fnToData
	}
	c.fStart, c.fEnd = ic.fStart, ic.fEnd
	for _, f := range []string{c.fnEmpty, c.fnAlias, c.fnRename, c.fnResizeB, c.fnResizeP} {
		if f == "" || f == "?" {
			return "the helper functions cannot be told apart by their signatures"
		}
	}
	// the reader
	fpkg := ""
	for n, p := range c.imports {
		if strings.HasSuffix(p, "/internal/fastcsv") {
			fpkg = n
		}
	}
	if fpkg == "" {
		return "internal/fastcsv is not imported"
	}
	ffns := funcDecls(parseDir(filepath.Join(c.repo, "internal", "fastcsv")))
	rdType := ""
	for n, fd := range ffns {
		if fd.Recv != nil {
			continue
		}
		p, r := flatTypes(fd.Type.Params), flatTypes(fd.Type.Results)
		if len(p) == 2 && len(r) == 1 && strings.HasSuffix(p[0], ".Reader") && (p[1] == "byte" || p[1] == "uint8") {
			one(&c.rdCtor, n)
			rdType = strings.TrimPrefix(r[0], "*")
		}
	}
	if c.rdCtor == "" || c.rdCtor == "?" {
		return "no unique constructor (io.Reader, byte) R in internal/fastcsv"
	}
	for n, fd := range ffns {
		if !strings.HasPrefix(n, rdType+".") || fd.Type.Params.NumFields() != 0 {
			continue
		}
		switch strings.Join(flatTypes(fd.Type.Results), ",") {
		case "bool":
			one(&c.rdNext, fd.Name.Name)
		case "[][]byte":
			one(&c.rdFields, fd.Name.Name)
		case "error":
			one(&c.rdErr, fd.Name.Name)
		case "[][]byte,error":
			one(&c.rdRead, fd.Name.Name)
		}
	}
	for _, f := range []string{c.rdNext, c.rdFields, c.rdErr, c.rdRead} {
		if f == "" || f == "?" {
			return "the methods of the fastcsv reader cannot be told apart by their signatures"
		}
	}
	c.rdCtor = fpkg + "." + c.rdCtor
	return ""
}

// ---------------------------------------------------------------------------------------------------------------
// shared helpers

func gIs(e ast.Expr, sc *jscope, kind string) bool {
	id, ok := unparen(e).(*ast.Ident)
	if !ok {
		return false
	}
	v, ok := sc.get(id.Name)
	return ok && v.kind == kind
}

func gLen(e ast.Expr, sc *jscope, kind string) bool {
	call, ok := unparen(e).(*ast.CallExpr)
	return ok && jBuiltin(call.Fun, sc, "len") && len(call.Args) == 1 && !call.Ellipsis.IsValid() && gIs(call.Args[0], sc, kind)
}

// <X>[<idx>] with X of kind `kind`
func gAt(e ast.Expr, sc *jscope, kind string) bool {
	ix, ok := unparen(e).(*ast.IndexExpr)
	return ok && gIs(ix.X, sc, kind) && gIs(ix.Index, sc, "idx")
}

func (c *cgctx) conf(e ast.Expr, sc *jscope, field string) bool {
	sel, ok := unparen(e).(*ast.SelectorExpr)
	return ok && field != "" && sel.Sel.Name == field && gIs(sel.X, sc, "conf")
}

// a new variable of a kind that must be unique in scope
func gDef(sc *jscope, name, kind string) bool {
	if name == "" || name == "_" || sc.hasKind(kind) {
		return false
	}
	sc.def(name, &jv{kind: kind})
	return true
}

func gCallOf(e ast.Expr, sc *jscope, fn string, nargs int) (*ast.CallExpr, bool) {
	call, ok := unparen(e).(*ast.CallExpr)
	if !ok || call.Ellipsis.IsValid() || len(call.Args) != nargs || fn == "" || !isIdent(call.Fun, fn) || sc.bound(fn) {
		return nil, false
	}
	return call, true
}

func cgIntLit(e ast.Expr) (int, bool) {
	b, ok := unparen(e).(*ast.BasicLit)
	if !ok || b.Kind != token.INT {
		return 0, false
	}
	n, err := strconv.ParseUint(b.Value, 0, 31)
	return int(n), err == nil
}

func lnat(n int) *lt { return lh(strconv.Itoa(n)) }

// r.<method>()
func (c *cgctx) rdCall(e ast.Expr, sc *jscope, meth string) bool {
	call, ok := unparen(e).(*ast.CallExpr)
	if !ok || len(call.Args) != 0 {
		return false
	}
	sel, ok := call.Fun.(*ast.SelectorExpr)
	return ok && sel.Sel.Name == meth && gIs(sel.X, sc, "rd")
}

// ---------------------------------------------------------------------------------------------------------------
// ReadCSV

func (c *cgctx) block(stmts []ast.Stmt, sc *jscope) *lt {
	if len(stmts) == 0 {
		return lh("CG.done")
	}
	st, rest := stmts[0], stmts[1:]
	k := func() *lt { return c.block(rest, sc) }
	nilOk := !sc.bound("nil")
	inLoop := sc.hasKind("record")
	switch s := st.(type) {
	case *ast.AssignStmt:
		if t := c.assign(s, rest, sc); t != nil {
			return t
		}
	case *ast.IncDecStmt:
		if s.Tok == token.INC {
			switch {
			case gIs(s.X, sc, "row") && inLoop:
				return lh("CG.incRow", k())
			case gIs(s.X, sc, "nonEmpty") && inLoop && !sc.hasKind("idx"):
				return lh("CG.incNonEmpty", k())
			}
		}
	case *ast.ForStmt:
		// for r.Next() { … }
		if s.Init == nil && s.Post == nil && s.Cond != nil && c.rdCall(s.Cond, sc, c.rdNext) && !inLoop && !c.nextDone && !sc.hasKind("idx") {
			inner := sc.push()
			inner.def("\x00record", &jv{kind: "record"})
			body := c.block(s.Body.List, inner.push())
			c.nextDone = true
			return lh("CG.forNext", body, k())
		}
	case *ast.RangeStmt:
		if t := c.rangeStmt(s, rest, sc); t != nil {
			return t
		}
	case *ast.BranchStmt:
		if s.Tok == token.CONTINUE && s.Label == nil && inLoop && !sc.hasKind("idx") && len(rest) == 0 {
			return lh("CG.cont")
		}
	case *ast.ExprStmt:
		// the resize helpers
		if call, ok := gCallOf(s.X, sc, c.fnResizeB, 3); ok && gIs(call.Args[0], sc, "colBytes") && gIs(call.Args[1], sc, "nonEmpty") && c.conf(call.Args[2], sc, c.cfgHint) {
			return lh("CG.resizeBytes", k())
		}
		if call, ok := gCallOf(s.X, sc, c.fnResizeP, 2); ok && gIs(call.Args[0], sc, "colPointers") && c.conf(call.Args[1], sc, c.cfgHint) {
			return lh("CG.resizePointers", k())
		}
	case *ast.IfStmt:
		if s.Init != nil || s.Else != nil {
			return cgop(s)
		}
		cond := unparen(s.Cond)
		then := func() *lt { return c.block(s.Body.List, sc.push()) }
		if c.conf(cond, sc, c.cfgRename) {
			return lh("CG.ifRename", then(), k())
		}
		b, ok := cond.(*ast.BinaryExpr)
		if !ok {
			return cgop(s)
		}
		switch {
		case b.Op == token.EQL && gLen(b.X, sc, "headers") && iIntLit(b.Y, "0"):
			return lh("CG.ifNoHeaders", then(), k())
		case b.Op == token.NEQ && c.rdCall(b.X, sc, c.rdErr) && isNilIdent(b.Y) && nilOk && (inLoop || c.nextDone) && !sc.hasKind("idx"):
			return lh("CG.ifReaderErr", then(), k())
		case b.Op == token.NEQ && gLen(b.X, sc, "fields") && gLen(b.Y, sc, "headers"):
			return lh("CG.ifWrongWidth", then(), k())
		case b.Op == token.LAND:
			// isEmptyLine(fields) && conf.IgnoreEmptyLines
			if call, ok := gCallOf(b.X, sc, c.fnEmpty, 1); ok && gIs(call.Args[0], sc, "fields") && c.conf(b.Y, sc, c.cfgIgnore) {
				return lh("CG.ifEmptyIgnored", then(), k())
			}
			// nonEmptyRows == 1000 && conf.RowCountHint > 2000
			l, ok1 := unparen(b.X).(*ast.BinaryExpr)
			r, ok2 := unparen(b.Y).(*ast.BinaryExpr)
			if ok1 && ok2 && l.Op == token.EQL && gIs(l.X, sc, "nonEmpty") && iIntLit(l.Y, "1000") && r.Op == token.GTR && c.conf(r.X, sc, c.cfgHint) && iIntLit(r.Y, "2000") {
				return lh("CG.ifResizeDue", then(), k())
			}
		case b.Op == token.NEQ && c.conf(b.X, sc, c.cfgAlias) && src(b.Y) == `""`:
			return lh("CG.ifAlias", then(), k())
		case b.Op == token.GTR && iIntLit(b.Y, "0"):
			// len(conf.EnumVals) > 0
			if call, ok := unparen(b.X).(*ast.CallExpr); ok && jBuiltin(call.Fun, sc, "len") && len(call.Args) == 1 && c.conf(call.Args[0], sc, c.cfgEnums) && sc.hasKind("dataMap") {
				return lh("CG.ifEnumsLeft", then(), k())
			}
		case b.Op == token.GTR && gLen(b.X, sc, "headers") && gLen(b.Y, sc, "dataMap"):
			return lh("CG.ifFewerKeys", then(), k())
		}
	case *ast.ReturnStmt:
		if len(rest) != 0 || len(s.Results) != 3 {
			return cgop(s)
		}
		switch {
		case isNilIdent(s.Results[0]) && isNilIdent(s.Results[1]) && nilOk && jErrCall(s.Results[2], sc.bound, c.imports):
			return lh("CG.retErr")
		case gIs(s.Results[0], sc, "dataMap") && gIs(s.Results[1], sc, "headers") && isNilIdent(s.Results[2]) && nilOk && !inLoop:
			return lh("CG.retOk")
		}
	}
	// the list of duplicate names for the message of the last error
	if n := c.dupMessage(stmts, sc); n > 0 {
		return lh("CG.buildDupMessage", c.block(stmts[n:], sc))
	}
	return cgop(st)
}

// `dups := make([]string, 0); set := strings.NewEmptyStringSet(); for _, h := range headers { if set.Contains(h) { dups =
// append(dups, h) } else { set.Add(h) } }`: the number of statements (0: not this)
func (c *cgctx) dupMessage(stmts []ast.Stmt, sc *jscope) int {
	if len(stmts) < 3 || !sc.hasKind("dataMap") {
		return 0
	}
	a1, ok1 := stmts[0].(*ast.AssignStmt)
	a2, ok2 := stmts[1].(*ast.AssignStmt)
	rs, ok3 := stmts[2].(*ast.RangeStmt)
	if !ok1 || !ok2 || !ok3 || a1.Tok != token.DEFINE || a2.Tok != token.DEFINE || len(a1.Lhs) != 1 || len(a2.Lhs) != 1 || len(a1.Rhs) != 1 || len(a2.Rhs) != 1 {
		return 0
	}
	dups, okd := a1.Lhs[0].(*ast.Ident)
	set, oks := a2.Lhs[0].(*ast.Ident)
	if !okd || !oks || dups.Name == set.Name || dups.Name == "_" || set.Name == "_" || sc.bound(dups.Name) || sc.bound(set.Name) {
		return 0
	}
	mk, ok := unparen(a1.Rhs[0]).(*ast.CallExpr)
	if !ok || !jBuiltin(mk.Fun, sc, "make") || len(mk.Args) != 2 || src(mk.Args[0]) != "[]string" || !iIntLit(mk.Args[1], "0") {
		return 0
	}
	ns, ok := unparen(a2.Rhs[0]).(*ast.CallExpr)
	if !ok || len(ns.Args) != 0 {
		return 0
	}
	sel, ok := ns.Fun.(*ast.SelectorExpr)
	if !ok || !jPkg(sel.X, sc.bound, c.imports, "internal/strings") {
		return 0
	}
	// the constructor returns a fresh map: `return make(T)` with T a map type of the package
	sfns := funcDecls(parseDir(filepath.Join(c.repo, "internal", "strings")))
	ctor, ok := sfns[sel.Sel.Name]
	if !ok || ctor.Recv != nil || ctor.Type.Params.NumFields() != 0 || len(ctor.Body.List) != 1 {
		return 0
	}
	setType := strings.Join(flatTypes(ctor.Type.Results), ",")
	if ret, ok := ctor.Body.List[0].(*ast.ReturnStmt); !ok || len(ret.Results) != 1 || src(ret.Results[0]) != "make("+setType+")" {
		return 0
	}
	// the methods: (string) bool reads the map, (string) adds a key
	var contains, add string
	for n, fd := range sfns {
		if !strings.HasPrefix(n, setType+".") {
			continue
		}
		p, r := strings.Join(flatTypes(fd.Type.Params), ","), strings.Join(flatTypes(fd.Type.Results), ",")
		rn, pn := recvName(fd), paramNames(fd)
		if p != "string" || len(fd.Body.List) == 0 || rn == "" || len(pn) != 1 {
			continue
		}
		body := src(fd.Body)
		switch {
		case r == "bool" && body == "{ _, ok := "+rn+"["+pn[0]+"] return ok }":
			contains = fd.Name.Name
		case r == "" && body == "{ "+rn+"["+pn[0]+"] = struct{}{} }":
			add = fd.Name.Name
		}
	}
	if contains == "" || add == "" {
		return 0
	}
	// the loop
	if rs.Tok != token.DEFINE || rs.Value == nil || (rs.Key != nil && !isIdent(rs.Key, "_")) || !gIs(rs.X, sc, "headers") || len(rs.Body.List) != 1 {
		return 0
	}
	h, ok := rs.Value.(*ast.Ident)
	if !ok || h.Name == "_" || h.Name == dups.Name || h.Name == set.Name {
		return 0
	}
	want := "if " + set.Name + "." + contains + "(" + h.Name + ") { " + dups.Name + " = append(" + dups.Name + ", " + h.Name + ") } else { " + set.Name + "." + add + "(" + h.Name + ") }"
	if src(rs.Body.List[0]) != want {
		return 0
	}
	sc.def(dups.Name, &jv{kind: "msg"})
	sc.def(set.Name, &jv{kind: "msg"})
	return 3
}

func (c *cgctx) rangeStmt(s *ast.RangeStmt, rest []ast.Stmt, sc *jscope) *lt {
	if s.Tok != token.DEFINE || s.Key == nil {
		return nil
	}
	key, ok := s.Key.(*ast.Ident)
	if !ok || key.Name == "_" || sc.hasKind("idx") {
		return nil
	}
	inner := sc.push()
	inner.def(key.Name, &jv{kind: "idx"})
	switch {
	case s.Value == nil && gIs(s.X, sc, "headers"):
		return lh("CG.rangeHeaders", c.block(s.Body.List, inner.push()), c.block(rest, sc))
	case s.Value != nil && gIs(s.X, sc, "fields") && sc.hasKind("record"):
		v, ok := s.Value.(*ast.Ident)
		if !ok || v.Name == key.Name || !gDef(inner, v.Name, "col") {
			return nil
		}
		return lh("CG.rangeFields", c.block(s.Body.List, inner.push()), c.block(rest, sc))
	case s.Value != nil && gIs(s.X, sc, "headers") && sc.hasKind("dataMap") && !sc.hasKind("record"):
		v, ok := s.Value.(*ast.Ident)
		if !ok || v.Name == key.Name || !gDef(inner, v.Name, "header") {
			return nil
		}
		return lh("CG.rangeHeadersData", c.block(s.Body.List, inner.push()), c.block(rest, sc))
	}
	return nil
}

func (c *cgctx) assign(s *ast.AssignStmt, rest []ast.Stmt, sc *jscope) *lt {
	if len(s.Rhs) != 1 {
		return nil
	}
	rhs := unparen(s.Rhs[0])
	names := make([]string, len(s.Lhs))
	for i, l := range s.Lhs {
		if id, ok := l.(*ast.Ident); ok {
			names[i] = id.Name
		}
	}
	k := func() *lt { return c.block(rest, sc) }
	call, isCall := rhs.(*ast.CallExpr)
	inLoop := sc.hasKind("record")
	switch {
	case s.Tok == token.DEFINE && len(names) == 1 && names[0] != "":
		switch {
		case isCall && src(call.Fun) == c.rdCtor && len(call.Args) == 2 && !call.Ellipsis.IsValid() && gIs(call.Args[0], sc, "reader") && c.conf(call.Args[1], sc, c.cfgDelim) && !sc.bound(strings.Split(c.rdCtor, ".")[0]):
			if gDef(sc, names[0], "rd") {
				return lh("CG.newReader", k())
			}
		case c.conf(rhs, sc, c.cfgHeaders) && !inLoop && !c.nextDone:
			if gDef(sc, names[0], "headers") {
				return lh("CG.headersFromConf", k())
			}
		case isCall && jBuiltin(call.Fun, sc, "make") && len(call.Args) == 2 && gLen(call.Args[1], sc, "headers"):
			switch src(call.Args[0]) {
			case "[][]" + c.ptrType:
				if !sc.bound(c.ptrType) && !sc.hasKind("record") && gDef(sc, names[0], "colPointers") {
					return lh("CG.makePointers", k())
				}
			case "[][]byte":
				if !sc.bound("byte") && !sc.hasKind("record") && gDef(sc, names[0], "colBytes") {
					return lh("CG.makeBytes", k())
				}
			case "map[string]interface{}", "map[string]any":
				if !sc.bound("string") && !sc.hasKind("record") && c.nextDone && gDef(sc, names[0], "dataMap") {
					return lh("CG.makeDataMap", k())
				}
			}
		case iIntLit(rhs, "1") && !inLoop && !c.nextDone:
			if gDef(sc, names[0], "row") {
				return lh("CG.initRow", k())
			}
		case iIntLit(rhs, "0") && !inLoop && !c.nextDone:
			if gDef(sc, names[0], "nonEmpty") {
				return lh("CG.initNonEmpty", k())
			}
		case c.rdCall(rhs, sc, c.rdFields) && inLoop && !sc.hasKind("idx"):
			if gDef(sc, names[0], "fields") {
				return lh("CG.bindFields", k())
			}
		case isCall && jBuiltin(call.Fun, sc, "len") && len(call.Args) == 1 && gAt(call.Args[0], sc, "colBytes") && sc.hasKind("col"):
			// start := len(colBytes[i]); colBytes[i] = append(colBytes[i], col...); colPointers[i] = append(colPointers[i], P{…})
			if len(rest) < 2 || sc.hasKind("start") {
				return nil
			}
			if !c.appendUnit(names[0], rest[0], rest[1], sc) {
				return nil
			}
			return lh("CG.appendField", c.block(rest[2:], sc))
		}
	case s.Tok == token.DEFINE && len(names) == 2 && names[0] != "" && names[1] != "" && names[0] != names[1] && names[0] != "_" && len(rest) > 0:
		body, ok := errTest(rest[0], names[1], sc)
		if !ok {
			return nil
		}
		onErr := func() *lt {
			inner := sc.push()
			inner.def(names[1], &jv{kind: "err"})
			return c.block(body, inner.push())
		}
		switch {
		case c.rdCall(rhs, sc, c.rdRead) && !inLoop && !c.nextDone:
			// byteHeader, err := r.Read()
			t := onErr()
			if !gDef(sc, names[0], "byteHeader") {
				return nil
			}
			sc.def(names[1], &jv{kind: "err"})
			return lh("CG.readHeader", t, c.block(rest[1:], sc))
		case isCall && isIdent(call.Fun, c.fnToData) && !sc.bound(c.fnToData) && len(call.Args) == 4 && !call.Ellipsis.IsValid() && gAt(call.Args[0], sc, "colBytes") && gAt(call.Args[1], sc, "colPointers") && gIs(call.Args[2], sc, "header") && gIs(call.Args[3], sc, "conf"):
			// data, err := columnToData(colBytes[i], colPointers[i], header, conf)
			t := onErr()
			if !gDef(sc, names[0], "data") {
				return nil
			}
			sc.def(names[1], &jv{kind: "err"})
			return lh("CG.toData", t, c.block(rest[1:], sc))
		}
	case s.Tok == token.ASSIGN && len(s.Lhs) == 1:
		switch l := unparen(s.Lhs[0]).(type) {
		case *ast.Ident:
			if !gIs(l, sc, "headers") {
				return nil
			}
			switch {
			case isCall && jBuiltin(call.Fun, sc, "make") && len(call.Args) == 2 && src(call.Args[0]) == "[]string" && !sc.bound("string") && gLen(call.Args[1], sc, "byteHeader"):
				return lh("CG.makeHeaders", k())
			case isCall && isIdent(call.Fun, c.fnAlias) && !sc.bound(c.fnAlias) && len(call.Args) == 2 && !call.Ellipsis.IsValid() && gIs(call.Args[0], sc, "headers") && c.conf(call.Args[1], sc, c.cfgAlias) && !inLoop && c.nextDone && !sc.hasKind("dataMap"):
				return lh("CG.applyAlias", k())
			case isCall && isIdent(call.Fun, c.fnRename) && !sc.bound(c.fnRename) && len(call.Args) == 1 && !call.Ellipsis.IsValid() && gIs(call.Args[0], sc, "headers") && !inLoop && c.nextDone && !sc.hasKind("dataMap"):
				return lh("CG.applyRename", k())
			}
		case *ast.IndexExpr:
			switch {
			case gAt(l, sc, "headers") && !inLoop:
				// headers[i] = string(byteHeader[i])
				if isCall && jBuiltin(call.Fun, sc, "string") && len(call.Args) == 1 && gAt(call.Args[0], sc, "byteHeader") {
					return lh("CG.setHeaderFromRecord", k())
				}
			case gAt(l, sc, "colPointers") && !inLoop:
				// colPointers[i] = []P{}
				if cl, ok := rhs.(*ast.CompositeLit); ok && cl.Type != nil && src(cl.Type) == "[]"+c.ptrType && len(cl.Elts) == 0 && !sc.bound(c.ptrType) {
					return lh("CG.setEmptyPointers", k())
				}
			case gIs(l.X, sc, "dataMap") && gIs(l.Index, sc, "header") && gIs(rhs, sc, "data"):
				return lh("CG.setData", k())
			}
		}
	}
	return nil
}

// the two statements after `start := len(colBytes[i])`
func (c *cgctx) appendUnit(start string, s1, s2 ast.Stmt, sc *jscope) bool {
	if start == "" || start == "_" || sc.bound(start) {
		return false
	}
	a1, ok1 := s1.(*ast.AssignStmt)
	a2, ok2 := s2.(*ast.AssignStmt)
	if !ok1 || !ok2 || a1.Tok != token.ASSIGN || a2.Tok != token.ASSIGN || len(a1.Lhs) != 1 || len(a2.Lhs) != 1 || len(a1.Rhs) != 1 || len(a2.Rhs) != 1 {
		return false
	}
	// colBytes[i] = append(colBytes[i], col...)
	c1, ok := unparen(a1.Rhs[0]).(*ast.CallExpr)
	if !ok || !gAt(a1.Lhs[0], sc, "colBytes") || !jBuiltin(c1.Fun, sc, "append") || len(c1.Args) != 2 || !c1.Ellipsis.IsValid() || !gAt(c1.Args[0], sc, "colBytes") || !gIs(c1.Args[1], sc, "col") {
		return false
	}
	// colPointers[i] = append(colPointers[i], P{start: uint32(start), end: uint32(len(colBytes[i]))})
	c2, ok := unparen(a2.Rhs[0]).(*ast.CallExpr)
	if !ok || !gAt(a2.Lhs[0], sc, "colPointers") || !jBuiltin(c2.Fun, sc, "append") || len(c2.Args) != 2 || c2.Ellipsis.IsValid() || !gAt(c2.Args[0], sc, "colPointers") {
		return false
	}
	cl, ok := unparen(c2.Args[1]).(*ast.CompositeLit)
	if !ok || !isIdent(cl.Type, c.ptrType) || sc.bound(c.ptrType) || len(cl.Elts) != 2 || sc.bound("uint32") {
		return false
	}
	pnames, _, _ := structFields(c.files, c.ptrType)
	got := map[string]string{}
	for i, el := range cl.Elts {
		field, val := pnames[i], el
		if kv, ok := el.(*ast.KeyValueExpr); ok {
			field, val = src(kv.Key), kv.Value
		}
		conv, ok := unparen(val).(*ast.CallExpr)
		if !ok || !isIdent(conv.Fun, "uint32") || len(conv.Args) != 1 {
			return false
		}
		arg := unparen(conv.Args[0])
		switch {
		case isIdent(arg, start):
			got[field] = "start"
		default:
			if inner, ok := arg.(*ast.CallExpr); ok && jBuiltin(inner.Fun, sc, "len") && len(inner.Args) == 1 && gAt(inner.Args[0], sc, "colBytes") {
				got[field] = "len"
			}
		}
	}
	return got[c.fStart] == "start" && got[c.fEnd] == "len" && len(got) == 2
}

func (c *cgctx) readCsv() *lt {
	sc := &jscope{vars: map[string]*jv{}}
	pn := paramNames(c.fd)
	sc.def(pn[0], &jv{kind: "reader"})
	sc.def(pn[1], &jv{kind: "conf"})
	if len(sc.vars) != 2 {
		return ls("CG.opaque", "parameters are not distinct names")
	}
	c.nextDone = false
	return c.block(c.fd.Body.List, sc.push())
}

// ---------------------------------------------------------------------------------------------------------------
// isEmptyLine

func (c *cgctx) emptyLine() *lt {
	fd := c.fns[c.fnEmpty]
	pn := paramNames(fd)
	if len(fd.Body.List) != 1 || pn[0] == "_" {
		return ls("CGB.opaque", src(fd.Body))
	}
	ret, ok := fd.Body.List[0].(*ast.ReturnStmt)
	if !ok || len(ret.Results) != 1 {
		return ls("CGB.opaque", src(fd.Body))
	}
	var expr func(e ast.Expr) *lt
	expr = func(e ast.Expr) *lt {
		e = unparen(e)
		if b, ok := e.(*ast.BinaryExpr); ok {
			switch b.Op {
			case token.LAND:
				return lh("CGB.and", expr(b.X), expr(b.Y))
			case token.EQL:
				n, okn := cgIntLit(b.Y)
				call, okc := unparen(b.X).(*ast.CallExpr)
				if okn && okc && isIdent(call.Fun, "len") && pn[0] != "len" && len(call.Args) == 1 {
					arg := unparen(call.Args[0])
					if isIdent(arg, pn[0]) {
						return lh("CGB.lenIs", lnat(n))
					}
					if ix, ok := arg.(*ast.IndexExpr); ok && isIdent(ix.X, pn[0]) {
						if i, ok := cgIntLit(ix.Index); ok {
							return lh("CGB.lenAtIs", lnat(i), lnat(n))
						}
					}
				}
			}
		}
		return ls("CGB.opaque", src(e))
	}
	return expr(ret.Results[0])
}

// ---------------------------------------------------------------------------------------------------------------
// addAliasToMissingColumnNames

func (c *cgctx) aliasFn() *lt {
	fd := c.fns[c.fnAlias]
	pn := paramNames(fd)
	if pn[0] == "_" || pn[1] == "_" || pn[0] == pn[1] {
		return ls("CGA.opaque", "parameters")
	}
	sc := &jscope{vars: map[string]*jv{}}
	sc.def(pn[0], &jv{kind: "headers"})
	sc.def(pn[1], &jv{kind: "alias"})
	var block func(stmts []ast.Stmt, sc *jscope) *lt
	block = func(stmts []ast.Stmt, sc *jscope) *lt {
		if len(stmts) == 0 {
			return lh("CGA.done")
		}
		st, rest := stmts[0], stmts[1:]
		k := func() *lt { return block(rest, sc) }
		switch s := st.(type) {
		case *ast.RangeStmt:
			key, ok1 := s.Key.(*ast.Ident)
			val, ok2 := s.Value.(*ast.Ident)
			if s.Tok == token.DEFINE && ok1 && ok2 && key.Name != "_" && val.Name != "_" && key.Name != val.Name && gIs(s.X, sc, "headers") && !sc.hasKind("idx") {
				inner := sc.push()
				inner.def(key.Name, &jv{kind: "idx"})
				inner.def(val.Name, &jv{kind: "name"})
				return lh("CGA.rangeHeaders", block(s.Body.List, inner.push()), k())
			}
		case *ast.IfStmt:
			if b, ok := unparen(s.Cond).(*ast.BinaryExpr); ok && s.Init == nil && s.Else == nil && b.Op == token.EQL && gIs(b.X, sc, "name") && src(b.Y) == `""` {
				return lh("CGA.ifNameEmpty", block(s.Body.List, sc.push()), k())
			}
		case *ast.AssignStmt:
			if s.Tok == token.ASSIGN && len(s.Lhs) == 1 && len(s.Rhs) == 1 && gAt(s.Lhs[0], sc, "headers") && gIs(s.Rhs[0], sc, "alias") {
				return lh("CGA.setAlias", k())
			}
		case *ast.ReturnStmt:
			if len(rest) == 0 && len(s.Results) == 1 && gIs(s.Results[0], sc, "headers") && !sc.hasKind("idx") {
				return lh("CGA.retHeaders")
			}
		}
		return ls("CGA.opaque", src(st))
	}
	return block(fd.Body.List, sc.push())
}

// ---------------------------------------------------------------------------------------------------------------
// renameDuplicateColumns

func (c *cgctx) renameFn() *lt {
	fd := c.fns[c.fnRename]
	pn := paramNames(fd)
	if pn[0] == "_" {
		return ls("CGR.opaque", "parameters")
	}
	sc := &jscope{vars: map[string]*jv{}}
	sc.def(pn[0], &jv{kind: "headers"})
	okGen := 0 // which lookup bound the variable `ok`: 1 = of h, 2 = of the candidate
	sprint := func(e ast.Expr, sc *jscope) bool {
		call, ok := unparen(e).(*ast.CallExpr)
		if !ok || len(call.Args) != 1 || call.Ellipsis.IsValid() || !gIs(call.Args[0], sc, "counter") {
			return false
		}
		sel, ok := call.Fun.(*ast.SelectorExpr)
		if !ok || sel.Sel.Name != "Sprint" {
			return false
		}
		id, ok := unparen(sel.X).(*ast.Ident)
		return ok && !sc.bound(id.Name) && c.imports[id.Name] == "fmt"
	}
	var block func(stmts []ast.Stmt, sc *jscope, inForever bool) *lt
	block = func(stmts []ast.Stmt, sc *jscope, inForever bool) *lt {
		if len(stmts) == 0 {
			return lh("CGR.done")
		}
		st, rest := stmts[0], stmts[1:]
		k := func() *lt { return block(rest, sc, inForever) }
		op := ls("CGR.opaque", src(st))
		switch s := st.(type) {
		case *ast.RangeStmt:
			key, ok1 := s.Key.(*ast.Ident)
			val, ok2 := s.Value.(*ast.Ident)
			if s.Tok == token.DEFINE && ok1 && ok2 && key.Name != "_" && val.Name != "_" && key.Name != val.Name && gIs(s.X, sc, "headers") && !sc.hasKind("idx") && sc.hasKind("map") {
				inner := sc.push()
				inner.def(key.Name, &jv{kind: "idx"})
				inner.def(val.Name, &jv{kind: "h"})
				okGen = 0
				body := block(s.Body.List, inner.push(), false)
				okGen = 0
				return lh("CGR.rangeHeaders", body, k())
			}
		case *ast.ForStmt:
			if s.Init == nil && s.Cond == nil && s.Post == nil && sc.hasKind("idx") && !inForever {
				body := block(s.Body.List, sc.push(), true)
				okGen = 0
				return lh("CGR.forever", body, k())
			}
		case *ast.BranchStmt:
			if s.Tok == token.BREAK && s.Label == nil && inForever && len(rest) == 0 {
				return lh("CGR.brk")
			}
		case *ast.IncDecStmt:
			if s.Tok == token.INC && gIs(s.X, sc, "counter") {
				return lh("CGR.incCounter", k())
			}
		case *ast.IfStmt:
			if s.Init != nil {
				return op
			}
			cond := unparen(s.Cond)
			if u, ok := cond.(*ast.UnaryExpr); ok && u.Op == token.NOT && gIs(u.X, sc, "ok") && okGen == 1 && s.Else == nil {
				return lh("CGR.ifNotOk", block(s.Body.List, sc.push(), inForever), k())
			}
			if gIs(cond, sc, "ok") && okGen == 2 && s.Else != nil {
				t := block(s.Body.List, sc.push(), inForever)
				okGen = 2
				e := block(blockOf(s.Else), sc.push(), inForever)
				okGen = 0
				return lh("CGR.ifOk", t, e, k())
			}
			if b, ok := cond.(*ast.BinaryExpr); ok && b.Op == token.LAND && gIs(b.X, sc, "ok") && okGen == 1 && s.Else == nil {
				if ne, ok := unparen(b.Y).(*ast.BinaryExpr); ok && ne.Op == token.NEQ && (gIs(ne.X, sc, "idx") && gIs(ne.Y, sc, "index") || gIs(ne.X, sc, "index") && gIs(ne.Y, sc, "idx")) {
					return lh("CGR.ifOtherIndex", block(s.Body.List, sc.push(), inForever), k())
				}
			}
		case *ast.AssignStmt:
			if len(s.Rhs) != 1 {
				return op
			}
			rhs := unparen(s.Rhs[0])
			ident := func(e ast.Expr) string {
				if id, ok := e.(*ast.Ident); ok {
					return id.Name
				}
				return ""
			}
			switch {
			case s.Tok == token.DEFINE && len(s.Lhs) == 1:
				n := ident(s.Lhs[0])
				call, isCall := rhs.(*ast.CallExpr)
				switch {
				case isCall && jBuiltin(call.Fun, sc, "make") && len(call.Args) == 1 && src(call.Args[0]) == "map[string]int" && !sc.bound("string") && !sc.bound("int") && !sc.hasKind("idx"):
					if gDef(sc, n, "map") {
						return lh("CGR.newMap", k())
					}
				case iIntLit(rhs, "0") && sc.hasKind("idx") && !inForever:
					if gDef(sc, n, "counter") {
						return lh("CGR.zeroCounter", k())
					}
				default:
					// candidateName := headers[i] + fmt.Sprint(counter)
					if b, ok := rhs.(*ast.BinaryExpr); ok && b.Op == token.ADD && gAt(b.X, sc, "headers") && sprint(b.Y, sc) && inForever {
						if gDef(sc, n, "candidate") {
							return lh("CGR.bindCandidate", k())
						}
					}
				}
			case len(s.Lhs) == 2:
				// index, ok := headersMap[h] · _, ok := headersMap[h] · _, ok = headersMap[candidateName]
				ix, isIx := rhs.(*ast.IndexExpr)
				if !isIx || !gIs(ix.X, sc, "map") {
					return op
				}
				n0, n1 := ident(s.Lhs[0]), ident(s.Lhs[1])
				switch {
				case s.Tok == token.DEFINE && gIs(ix.Index, sc, "h") && n1 != "" && n1 != "_" && n0 != n1 && !sc.hasKind("ok") && !sc.hasKind("index"):
					if n0 != "_" && n0 != "" {
						sc.def(n0, &jv{kind: "index"})
					} else if n0 == "" {
						return op
					}
					sc.def(n1, &jv{kind: "ok"})
					okGen = 1
					return lh("CGR.lookupH", k())
				case s.Tok == token.ASSIGN && gIs(ix.Index, sc, "candidate") && n0 == "_" && gIs(s.Lhs[1], sc, "ok"):
					okGen = 2
					return lh("CGR.lookupCandidate", k())
				}
			case s.Tok == token.ASSIGN && len(s.Lhs) == 1:
				l, ok := unparen(s.Lhs[0]).(*ast.IndexExpr)
				if !ok {
					return op
				}
				switch {
				case gIs(l.X, sc, "map") && gIs(l.Index, sc, "h") && gIs(rhs, sc, "idx") && !inForever:
					return lh("CGR.setMapH", k())
				case gAt(l, sc, "headers") && gIs(rhs, sc, "candidate"):
					return lh("CGR.setHeaderCandidate", k())
				case gIs(l.X, sc, "map") && gAt(l.Index, sc, "headers") && gIs(rhs, sc, "idx"):
					return lh("CGR.setMapCurrent", k())
				}
			}
		case *ast.ReturnStmt:
			if len(rest) == 0 && len(s.Results) == 1 && gIs(s.Results[0], sc, "headers") && !sc.hasKind("idx") {
				return lh("CGR.retHeaders")
			}
		}
		return op
	}
	return block(fd.Body.List, sc.push(), false)
}

// ---------------------------------------------------------------------------------------------------------------
// the resize helpers

func (c *cgctx) resizeFn(name string) *lt {
	fd := c.fns[name]
	pn, pt := paramNames(fd), flatTypes(fd.Type.Params)
	sc := &jscope{vars: map[string]*jv{}}
	sc.def(pn[0], &jv{kind: "slices"})
	for _, n := range pn[1:] {
		sc.def(n, &jv{kind: "num"})
	}
	if len(sc.vars) != len(pn) {
		return ls("CGZ.opaque", "parameters")
	}
	elem := strings.TrimPrefix(pt[0], "[]")
	// an arithmetic expression over len(p), the int parameters and literals, with conversions
	var arith func(e ast.Expr, sc *jscope) bool
	arith = func(e ast.Expr, sc *jscope) bool {
		switch t := unparen(e).(type) {
		case *ast.BasicLit:
			return t.Kind == token.INT || t.Kind == token.FLOAT
		case *ast.Ident:
			return gIs(t, sc, "num") || gIs(t, sc, "estimate")
		case *ast.BinaryExpr:
			return (t.Op == token.MUL || t.Op == token.QUO || t.Op == token.ADD) && arith(t.X, sc) && arith(t.Y, sc)
		case *ast.CallExpr:
			if len(t.Args) != 1 || t.Ellipsis.IsValid() {
				return false
			}
			switch {
			case jBuiltin(t.Fun, sc, "len"):
				return gIs(t.Args[0], sc, "p")
			case jBuiltin(t.Fun, sc, "float64"), jBuiltin(t.Fun, sc, "int"):
				return arith(t.Args[0], sc)
			}
		}
		return false
	}
	var block func(stmts []ast.Stmt, sc *jscope) *lt
	block = func(stmts []ast.Stmt, sc *jscope) *lt {
		if len(stmts) == 0 {
			return lh("CGZ.done")
		}
		st, rest := stmts[0], stmts[1:]
		k := func() *lt { return block(rest, sc) }
		op := ls("CGZ.opaque", src(st))
		switch s := st.(type) {
		case *ast.RangeStmt:
			key, ok1 := s.Key.(*ast.Ident)
			val, ok2 := s.Value.(*ast.Ident)
			if s.Tok == token.DEFINE && ok1 && ok2 && key.Name != "_" && val.Name != "_" && key.Name != val.Name && gIs(s.X, sc, "slices") && !sc.hasKind("idx") {
				inner := sc.push()
				inner.def(key.Name, &jv{kind: "idx"})
				inner.def(val.Name, &jv{kind: "p"})
				return lh("CGZ.rangeSlices", block(s.Body.List, inner.push()), k())
			}
		case *ast.IfStmt:
			if b, ok := unparen(s.Cond).(*ast.BinaryExpr); ok && s.Init == nil && s.Else == nil && b.Op == token.LSS && arith(b.Y, sc) {
				if call, ok := unparen(b.X).(*ast.CallExpr); ok && jBuiltin(call.Fun, sc, "cap") && len(call.Args) == 1 && gIs(call.Args[0], sc, "p") && !sc.hasKind("q") {
					return lh("CGZ.ifCapLess", block(s.Body.List, sc.push()), k())
				}
			}
		case *ast.AssignStmt:
			if len(s.Lhs) != 1 || len(s.Rhs) != 1 {
				return op
			}
			rhs := unparen(s.Rhs[0])
			call, isCall := rhs.(*ast.CallExpr)
			switch {
			case s.Tok == token.DEFINE && isCall && jBuiltin(call.Fun, sc, "make") && len(call.Args) == 3 && src(call.Args[0]) == elem && iIntLit(call.Args[1], "0") && arith(call.Args[2], sc) && sc.hasKind("p"):
				if id, ok := s.Lhs[0].(*ast.Ident); ok && gDef(sc, id.Name, "q") {
					return lh("CGZ.makeNew", k())
				}
			case s.Tok == token.DEFINE && arith(rhs, sc) && sc.hasKind("p") && !sc.hasKind("q"):
				if id, ok := s.Lhs[0].(*ast.Ident); ok && gDef(sc, id.Name, "estimate") {
					return lh("CGZ.bindEstimate", k())
				}
			case s.Tok == token.ASSIGN && gIs(s.Lhs[0], sc, "q") && isCall && jBuiltin(call.Fun, sc, "append") && len(call.Args) == 2 && call.Ellipsis.IsValid() && gIs(call.Args[0], sc, "q") && gIs(call.Args[1], sc, "p"):
				return lh("CGZ.appendAll", k())
			case s.Tok == token.ASSIGN && gAt(s.Lhs[0], sc, "slices") && gIs(rhs, sc, "q"):
				return lh("CGZ.store", k())
			}
		}
		return op
	}
	return block(fd.Body.List, sc.push())
}

// ---------------------------------------------------------------------------------------------------------------
// ReadCSV of the root package

func (c *cgctx) entry(root map[string]*ast.File) *lt {
	rfn, rimp := funcDecls(root), importsOf(root)
	op := func(s string) *lt { return ls("CGU.opaque", s) }
	var found []*ast.FuncDecl
	for _, f := range rfn {
		if f.Recv != nil || f.Type.Params.NumFields() != 2 || len(f.Type.Params.List) != 2 || f.Type.Results.NumFields() != 1 {
			continue
		}
		if _, ok := f.Type.Params.List[1].Type.(*ast.Ellipsis); !ok {
			continue
		}
		sel, ok := f.Type.Params.List[0].Type.(*ast.SelectorExpr)
		if !ok || sel.Sel.Name != "Reader" {
			continue
		}
		if id, ok := sel.X.(*ast.Ident); !ok || rimp[id.Name] != "io" {
			continue
		}
		calls := false
		ast.Inspect(f.Body, func(n ast.Node) bool {
			if call, ok := n.(*ast.CallExpr); ok {
				if s, ok := call.Fun.(*ast.SelectorExpr); ok && s.Sel.Name == c.fd.Name.Name && jPkg(s.X, func(string) bool { return false }, rimp, "internal/io") {
					calls = true
				}
			}
			return true
		})
		if calls {
			found = append(found, f)
		}
	}
	if len(found) != 1 {
		return op("no unique function (io.Reader, ...ConfigFunc) of the root package that calls " + c.fd.Name.Name)
	}
	fd := found[0]
	frame := flatTypes(fd.Type.Results)[0]
	fnames, ftypes, ok := structFields(root, frame)
	if !ok {
		return op("the result type is no struct")
	}
	errField := ""
	for i, t := range ftypes {
		if t == "error" {
			errField = fnames[i]
		}
	}
	// New: (map[string]X, ...F) frame; the column order option: the function of config/newqf (...string) F
	newFn, optPkg, optFn := "", "", ""
	for n, f := range rfn {
		if f.Recv != nil || len(f.Type.Params.List) != 2 {
			continue
		}
		p, r := flatTypes(f.Type.Params), flatTypes(f.Type.Results)
		el, isEl := f.Type.Params.List[1].Type.(*ast.Ellipsis)
		if len(p) == 2 && len(r) == 1 && r[0] == frame && strings.HasPrefix(p[0], "map[string]") && isEl {
			if sel, ok := el.Elt.(*ast.SelectorExpr); ok {
				if id, ok := sel.X.(*ast.Ident); ok && strings.HasSuffix(rimp[id.Name], "/config/newqf") {
					newFn, optPkg = n, id.Name
				}
			}
		}
	}
	for n, f := range funcDecls(parseDir(filepath.Join(c.repo, "config", "newqf"))) {
		if f.Recv == nil && len(f.Type.Params.List) == 1 && src(f.Type.Params.List[0].Type) == "...string" && f.Type.Results.NumFields() == 1 {
			if optFn != "" {
				optFn = "?"
			} else {
				optFn = n
			}
		}
	}
	if errField == "" || newFn == "" || optFn == "" || optFn == "?" {
		return op("the error field / the constructor / the column order option cannot be found")
	}
	pn := paramNames(fd)
	sc := &jscope{vars: map[string]*jv{}}
	sc.def(pn[0], &jv{kind: "reader"})
	sc.def(pn[1], &jv{kind: "conffuncs"})
	if len(sc.vars) != 2 {
		return op("parameters")
	}
	stmts := fd.Body.List
	if len(stmts) != 4 {
		return op(src(fd.Body))
	}
	// conf := csv.NewConfig(confFuncs)
	a0, ok := stmts[0].(*ast.AssignStmt)
	if !ok || a0.Tok != token.DEFINE || len(a0.Lhs) != 1 || len(a0.Rhs) != 1 {
		return op(src(stmts[0]))
	}
	cf, ok := a0.Lhs[0].(*ast.Ident)
	call0, ok2 := unparen(a0.Rhs[0]).(*ast.CallExpr)
	if !ok || !ok2 || len(call0.Args) != 1 || call0.Ellipsis.IsValid() || !gIs(call0.Args[0], sc, "conffuncs") || cf.Name == "_" || sc.bound(cf.Name) {
		return op(src(stmts[0]))
	}
	s0, ok := call0.Fun.(*ast.SelectorExpr)
	if !ok || !jPkg(s0.X, sc.bound, rimp, "config/csv") {
		return op(src(stmts[0]))
	}
	// the constructor of config/csv: `conf := T{}; for _, f := range ff { f(&conf) }; return conf` is not looked into: it is
	// the function ([]ConfigFunc) Config of that package
	if nc, ok := funcDecls(parseDir(filepath.Join(c.repo, "config", "csv")))[s0.Sel.Name]; !ok || nc.Recv != nil || nc.Type.Params.NumFields() != 1 || nc.Type.Results.NumFields() != 1 || !strings.HasPrefix(flatTypes(nc.Type.Params)[0], "[]") {
		return op(src(stmts[0]))
	}
	sc.def(cf.Name, &jv{kind: "conf"})
	// data, columns, err := qfio.ReadCSV(reader, qfio.CSVConfig(conf))
	a1, ok := stmts[1].(*ast.AssignStmt)
	if !ok || a1.Tok != token.DEFINE || len(a1.Lhs) != 3 || len(a1.Rhs) != 1 {
		return op(src(stmts[1]))
	}
	var ids [3]string
	for i, l := range a1.Lhs {
		id, ok := l.(*ast.Ident)
		if !ok || id.Name == "_" || sc.bound(id.Name) {
			return op(src(stmts[1]))
		}
		ids[i] = id.Name
	}
	if ids[0] == ids[1] || ids[0] == ids[2] || ids[1] == ids[2] {
		return op(src(stmts[1]))
	}
	call1, ok := unparen(a1.Rhs[0]).(*ast.CallExpr)
	if !ok || len(call1.Args) != 2 || call1.Ellipsis.IsValid() || !gIs(call1.Args[0], sc, "reader") {
		return op(src(stmts[1]))
	}
	s1, ok := call1.Fun.(*ast.SelectorExpr)
	if !ok || s1.Sel.Name != c.fd.Name.Name || !jPkg(s1.X, sc.bound, rimp, "internal/io") {
		return op(src(stmts[1]))
	}
	conv, ok := unparen(call1.Args[1]).(*ast.CallExpr)
	if !ok || len(conv.Args) != 1 || !gIs(conv.Args[0], sc, "conf") {
		return op(src(stmts[1]))
	}
	if cs, ok := conv.Fun.(*ast.SelectorExpr); !ok || cs.Sel.Name != c.cfgType || !jPkg(cs.X, sc.bound, rimp, "internal/io") {
		return op(src(stmts[1]))
	}
	sc.def(ids[0], &jv{kind: "data"})
	sc.def(ids[1], &jv{kind: "columns"})
	// if err != nil { return QFrame{Err: err} }
	body, ok := errTest(stmts[2], ids[2], sc)
	if !ok || len(body) != 1 {
		return op(src(stmts[2]))
	}
	ret, ok := body[0].(*ast.ReturnStmt)
	if !ok || len(ret.Results) != 1 {
		return op(src(stmts[2]))
	}
	cl, ok := unparen(ret.Results[0]).(*ast.CompositeLit)
	if !ok || !isIdent(cl.Type, frame) || sc.bound(frame) || len(cl.Elts) != 1 {
		return op(src(stmts[2]))
	}
	if kv, ok := cl.Elts[0].(*ast.KeyValueExpr); !ok || !isIdent(kv.Key, errField) || !isIdent(kv.Value, ids[2]) {
		return op(src(stmts[2]))
	}
	// return New(data, newqf.ColumnOrder(columns...))
	r3, ok := stmts[3].(*ast.ReturnStmt)
	if !ok || len(r3.Results) != 1 {
		return op(src(stmts[3]))
	}
	nw, ok := unparen(r3.Results[0]).(*ast.CallExpr)
	if !ok || !isIdent(nw.Fun, newFn) || sc.bound(newFn) || len(nw.Args) != 2 || nw.Ellipsis.IsValid() || !gIs(nw.Args[0], sc, "data") {
		return op(src(stmts[3]))
	}
	oc, ok := unparen(nw.Args[1]).(*ast.CallExpr)
	if !ok || len(oc.Args) != 1 || !oc.Ellipsis.IsValid() || !gIs(oc.Args[0], sc, "columns") {
		return op(src(stmts[3]))
	}
	if os, ok := oc.Fun.(*ast.SelectorExpr); !ok || os.Sel.Name != optFn || !isIdent(os.X, optPkg) || sc.bound(optPkg) {
		return op(src(stmts[3]))
	}
	return lh("CGU.newConfig", lh("CGU.readCsv", lh("CGU.retErrFrame"), lh("CGU.retNewOrdered")))
}

// csvGlueLean writes QF/Gen/CsvGlue.lean.
func csvGlueLean(repo string, root map[string]*ast.File) string {
	var b strings.Builder
	b.WriteString("/- GENERATED on every run by /verif/go/cmd/extract from /repo's source (tie T1). Do not edit. -/\nimport QF.Core.CGExpr\nnamespace QF.Gen\n\n")
	files := parseDir(filepath.Join(repo, "internal", "io"))
	c := &cgctx{repo: repo, files: files, fns: funcDecls(files), imports: importsOf(files)}
	msg := c.scan()
	emp, ali, ren, rzp, rzb, rd, ent := ls("CGB.opaque", msg), ls("CGA.opaque", msg), ls("CGR.opaque", msg), ls("CGZ.opaque", msg), ls("CGZ.opaque", msg), ls("CG.opaque", msg), ls("CGU.opaque", msg)
	if msg == "" {
		emp, ali, ren, rzp, rzb, rd, ent = c.emptyLine(), c.aliasFn(), c.renameFn(), c.resizeFn(c.fnResizeP), c.resizeFn(c.fnResizeB), c.readCsv(), c.entry(root)
	}
	b.WriteString("/-- the function ([][]byte) bool of internal/io (`isEmptyLine`) -/\ndef isEmptyLineAst : CGB :=\n  " + emp.lean() + "\n\n")
	b.WriteString("/-- the function ([]string, string) []string of internal/io (`addAliasToMissingColumnNames`) -/\ndef addAliasAst : CGA :=\n  " + ali.lean() + "\n\n")
	b.WriteString("/-- the function ([]string) []string of internal/io (`renameDuplicateColumns`) -/\ndef renameDupAst : CGR :=\n  " + ren.lean() + "\n\n")
	b.WriteString("/-- the function ([][]P, int) of internal/io (`resizeColPointers`) -/\ndef resizePointersAst : CGZ :=\n  " + rzp.lean() + "\n\n")
	b.WriteString("/-- the function ([][]byte, int, int) of internal/io (`resizeColBytes`) -/\ndef resizeBytesAst : CGZ :=\n  " + rzb.lean() + "\n\n")
	b.WriteString("/-- the function (io.Reader, <config>) (map[string]interface{}, []string, error) of internal/io (`ReadCSV`) -/\ndef readCsvAst : CG :=\n  " + rd.lean() + "\n\n")
	b.WriteString("/-- the function (io.Reader, ...ConfigFunc) QFrame of the root package that calls it (`ReadCSV`) -/\ndef readCsvEntryAst : CGU :=\n  " + ent.lean() + "\n")
	b.WriteString("\nend QF.Gen\n")
	return b.String()
}
