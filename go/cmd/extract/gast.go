package main

// Translation go/ast → GStep / IStep / NStep (lean/QF/Core/GExpr.lean) of the VALIDATION LOGIC of the projection
// operations of qframe.go: the prefix of
//
//	QFrame.Slice(start, end int) · QFrame.Select(columns ...string) · QFrame.Drop(columns ...string) ·
//	QFrame.Copy(dstCol, srcCol string) · New(data map[string]…, fns ...)
//
// up to the statement where the real work starts, as a list of guards (`if cond { return … }`,
// `for _, c := range columns { if cond { return … } }`); `QFrame.Len` as a list of int-valued guards; the function of
// internal/strings the guards call to check a column name (`CheckName`, with the bool helpers it calls inlined) as a
// list of conditions on the bytes of the name.
//
// The translation is by ROLE, never by identifier name (the names of the exported operations above and of
// `newqf.Config.ColumnOrder` are the only fixed vocabulary):
//   - the receiver is the frame; its error field, name map and index are found by their TYPES in `type QFrame struct`
//     (`error`, `map[string]…`, `index.Int`);
//   - parameters get their role from type and position: first / second `int` = start / stop, first / second `string` =
//     dst / src, `...string` = columns, `map[string]…` = data;
//   - locals get their role from their declaration (`_, ok := qf.columnsByName[c]`, `err := qf.checkColumns(…)`,
//     `config := newqf.NewConfig(fns)`);
//   - a method of the frame that returns an `error` (checkColumns) is inlined where its result is tested; a tail call
//     `return qf.m(…)` that forwards the request's parameters (Copy → setColumn) is inlined, so its guards become part
//     of the caller's chain;
//   - what a `return` means is read off the value: the receiver itself (returnSelf), a `QFrame{…}` literal with / without
//     a non-nil `Err` (err / ok), a call of a method whose body is such a literal (withErr); a non-nil error is a call
//     into package qerrors or an `err` variable inside `if err != nil`;
//   - `x < y` and `y > x` are the same condition, `x >= y` is `le y x`, `x != y` is `not (eqI x y)`.
//
// Statements after the prefix are not translated; the number of error returns among them is reported (`lateErrors`: 0
// for the four projections — their whole rejection logic is in the chain) and so are tail calls that were not inlined
// (`openTails`: Drop ends with `qf.Select(<names computed from qf.columns>...)`). Whatever is not understood inside the
// prefix becomes `.opaque "<text>"`: such a chain has no meaning in the model and the proofs of
// QF/Props/C08Guards.lean fail on it.

import (
	"fmt"
	"go/ast"
	"go/token"
	"sort"
	"strconv"
	"strings"
)

type gsym struct {
	kind  string // recv | int | name | coll | data | config | ok | errc | errs | errnn | unknown
	t     *lt    // int: the GInt; ok: the GCond "ok is true"; errc: the GCond "err != nil"
	role  string // name: GRole.…; coll: GColl.…
	steps []*lt  // errs: the steps of the helper that produced the error (it is non-nil iff one of them fires)
}

type gscope map[string]gsym

func (s gscope) clone() gscope {
	r := gscope{}
	for k, v := range s {
		r[k] = v
	}
	return r
}

type gctx struct {
	root       map[string]*ast.FuncDecl
	strFns     map[string]*ast.FuncDecl
	strAlias   map[string]bool // import names of …/internal/strings in the root package
	errAlias   map[string]bool // … of …/qerrors
	cfgAlias   map[string]bool // … of …/config/newqf
	byName     string          // field of QFrame of type map[string]…
	errField   string          // field of QFrame of type error
	indexField string          // field of QFrame of type index.Int
	checkers   map[string]bool // functions of internal/strings called as name checks
	mode       string          // what the function being translated returns: frame | error
	late       int
	tails      []string
	depth      int
}

// import names bound to a package whose path ends with suffix
func importNames(files map[string]*ast.File, suffix string) map[string]bool {
	res := map[string]bool{}
	for _, f := range files {
		for _, im := range f.Imports {
			p, err := strconv.Unquote(im.Path.Value)
			if err != nil || !(p == strings.TrimPrefix(suffix, "/") || strings.HasSuffix(p, suffix)) {
				continue
			}
			name := p[strings.LastIndex(p, "/")+1:]
			if im.Name != nil {
				name = im.Name.Name
			}
			res[name] = true
		}
	}
	return res
}

func newGctx(rootFiles, strFiles map[string]*ast.File) *gctx {
	c := &gctx{root: funcDecls(rootFiles), strFns: funcDecls(strFiles), checkers: map[string]bool{}}
	c.strAlias = importNames(rootFiles, "/internal/strings")
	c.errAlias = importNames(rootFiles, "/qerrors")
	c.cfgAlias = importNames(rootFiles, "/config/newqf")
	ixAlias := importNames(rootFiles, "/internal/index")
	for _, f := range rootFiles {
		for _, d := range f.Decls {
			gd, ok := d.(*ast.GenDecl)
			if !ok || gd.Tok != token.TYPE {
				continue
			}
			for _, sp := range gd.Specs {
				ts := sp.(*ast.TypeSpec)
				st, ok := ts.Type.(*ast.StructType)
				if !ok || ts.Name.Name != "QFrame" {
					continue
				}
				for _, fl := range st.Fields.List {
					for _, n := range fl.Names {
						switch t := fl.Type.(type) {
						case *ast.Ident:
							if t.Name == "error" && c.errField == "" {
								c.errField = n.Name
							}
						case *ast.MapType:
							if k, ok := t.Key.(*ast.Ident); ok && k.Name == "string" && c.byName == "" {
								c.byName = n.Name
							}
						case *ast.SelectorExpr:
							if x, ok := t.X.(*ast.Ident); ok && ixAlias[x.Name] && t.Sel.Name == "Int" && c.indexField == "" {
								c.indexField = n.Name
							}
						}
					}
				}
			}
		}
	}
	return c
}

func gnot(c *lt) *lt {
	if c.head == "GCond.not" {
		return c.args[0]
	}
	return lh("GCond.not", c)
}

func isNilIdent(e ast.Expr) bool {
	id, ok := unparen(e).(*ast.Ident)
	return ok && id.Name == "nil"
}

func gIntLit(e ast.Expr) (string, bool) {
	e = unparen(e)
	neg := false
	if u, ok := e.(*ast.UnaryExpr); ok && u.Op == token.SUB {
		neg = true
		e = unparen(u.X)
	}
	bl, ok := e.(*ast.BasicLit)
	if !ok || bl.Kind != token.INT {
		return "", false
	}
	n, err := strconv.ParseInt(bl.Value, 0, 64)
	if err != nil {
		return "", false
	}
	if neg && n != 0 {
		return fmt.Sprintf("(-%d)", n), true
	}
	return fmt.Sprintf("%d", n), true
}

// is e the field `field` of the receiver?
func (c *gctx) recvField(e ast.Expr, sc gscope, field string) bool {
	sel, ok := unparen(e).(*ast.SelectorExpr)
	if !ok || field == "" || sel.Sel.Name != field {
		return false
	}
	id, ok := unparen(sel.X).(*ast.Ident)
	return ok && sc[id.Name].kind == "recv"
}

func (c *gctx) collExpr(e ast.Expr, sc gscope) string {
	switch t := unparen(e).(type) {
	case *ast.Ident:
		switch s := sc[t.Name]; s.kind {
		case "coll":
			return s.role
		case "data":
			return "GColl.dataKeys"
		}
	case *ast.SelectorExpr:
		if id, ok := unparen(t.X).(*ast.Ident); ok && sc[id.Name].kind == "config" && t.Sel.Name == "ColumnOrder" {
			return "GColl.order"
		}
	}
	return ""
}

func (c *gctx) nameExpr(e ast.Expr, sc gscope) string {
	if id, ok := unparen(e).(*ast.Ident); ok && sc[id.Name].kind == "name" {
		return sc[id.Name].role
	}
	return ""
}

func (c *gctx) intExpr(e ast.Expr, sc gscope) *lt {
	e = unparen(e)
	if s, ok := gIntLit(e); ok {
		return lh("GInt.lit", lh(s))
	}
	switch t := e.(type) {
	case *ast.Ident:
		if s := sc[t.Name]; s.kind == "int" {
			return s.t
		}
	case *ast.CallExpr:
		if id, ok := t.Fun.(*ast.Ident); ok && id.Name == "len" && len(t.Args) == 1 {
			if _, shadowed := sc["len"]; shadowed {
				return nil
			}
			if coll := c.collExpr(t.Args[0], sc); coll != "" {
				return lh("GInt.count", lh(coll))
			}
			if c.recvField(t.Args[0], sc, c.indexField) {
				return lh("GInt.indexLen")
			}
			return nil
		}
		sel, ok := t.Fun.(*ast.SelectorExpr)
		if !ok || len(t.Args) != 0 || sel.Sel.Name != "Len" {
			return nil
		}
		if id, ok := unparen(sel.X).(*ast.Ident); ok && sc[id.Name].kind == "recv" {
			if _, ok := c.root["QFrame.Len"]; ok {
				return lh("GInt.len")
			}
			return nil
		}
		if c.recvField(sel.X, sc, c.indexField) {
			return lh("GInt.indexLen")
		}
	}
	return nil
}

func (c *gctx) cond(e ast.Expr, sc gscope) *lt {
	bad := func() *lt { return ls("GCond.opaque", src(e)) }
	switch t := unparen(e).(type) {
	case *ast.UnaryExpr:
		if t.Op == token.NOT {
			return gnot(c.cond(t.X, sc))
		}
		return bad()
	case *ast.BinaryExpr:
		switch t.Op {
		case token.LOR:
			return lh("GCond.or", c.cond(t.X, sc), c.cond(t.Y, sc))
		case token.LAND:
			return lh("GCond.and", c.cond(t.X, sc), c.cond(t.Y, sc))
		case token.LSS, token.GTR, token.LEQ, token.GEQ, token.EQL, token.NEQ:
			if a, b := c.intExpr(t.X, sc), c.intExpr(t.Y, sc); a != nil && b != nil {
				switch t.Op {
				case token.LSS:
					return lh("GCond.lt", a, b)
				case token.GTR:
					return lh("GCond.lt", b, a)
				case token.LEQ:
					return lh("GCond.le", a, b)
				case token.GEQ:
					return lh("GCond.le", b, a)
				}
				if a.head == "GInt.lit" && b.head != "GInt.lit" {
					a, b = b, a
				}
				if t.Op == token.EQL {
					return lh("GCond.eqI", a, b)
				}
				return lh("GCond.not", lh("GCond.eqI", a, b))
			}
			if t.Op != token.EQL && t.Op != token.NEQ {
				return bad()
			}
			pos := func(x *lt) *lt {
				if t.Op == token.NEQ {
					return x
				}
				return gnot(x)
			}
			if a, b := c.nameExpr(t.X, sc), c.nameExpr(t.Y, sc); a != "" && b != "" {
				if (a == "GRole.dst" && b == "GRole.src") || (a == "GRole.src" && b == "GRole.dst") {
					return gnot(pos(lh("GCond.sameName")))
				}
				return bad()
			}
			// `<error> != nil` / `<error> == nil`
			x, y := t.X, t.Y
			if isNilIdent(x) {
				x, y = y, x
			}
			if !isNilIdent(y) {
				return bad()
			}
			if c.recvField(x, sc, c.errField) {
				return pos(lh("GCond.qfHasErr"))
			}
			if id, ok := unparen(x).(*ast.Ident); ok && sc[id.Name].kind == "errc" {
				return pos(sc[id.Name].t)
			}
			return bad()
		}
		return bad()
	case *ast.Ident:
		if s := sc[t.Name]; s.kind == "ok" {
			return s.t
		}
	}
	return bad()
}

// is e an error that cannot be nil?
func (c *gctx) nonNilErr(e ast.Expr, sc gscope) bool {
	switch t := unparen(e).(type) {
	case *ast.Ident:
		return sc[t.Name].kind == "errnn"
	case *ast.CallExpr:
		if sel, ok := t.Fun.(*ast.SelectorExpr); ok {
			if id, ok := sel.X.(*ast.Ident); ok && c.errAlias[id.Name] {
				if _, shadowed := sc[id.Name]; !shadowed {
					return true
				}
			}
		}
	}
	return false
}

func isQFrameType(e ast.Expr) bool {
	id, ok := e.(*ast.Ident)
	return ok && id.Name == "QFrame"
}

// outcome classifies the value of a `return`: GOut.err | GOut.returnSelf | GOut.ok | carry (a new frame with the
// receiver's Err) | "" (not understood).
func (c *gctx) outcome(e ast.Expr, sc gscope, depth int) string {
	if c.mode == "error" {
		if c.nonNilErr(e, sc) {
			return "GOut.err"
		}
		return ""
	}
	switch t := unparen(e).(type) {
	case *ast.Ident:
		if sc[t.Name].kind == "recv" {
			return "GOut.returnSelf"
		}
	case *ast.CompositeLit:
		if t.Type == nil || !isQFrameType(t.Type) {
			return ""
		}
		for _, el := range t.Elts {
			kv, ok := el.(*ast.KeyValueExpr)
			if !ok {
				return ""
			}
			if k, ok := kv.Key.(*ast.Ident); ok && k.Name == c.errField {
				switch {
				case isNilIdent(kv.Value):
					return "GOut.ok"
				case c.nonNilErr(kv.Value, sc):
					return "GOut.err"
				case c.recvField(kv.Value, sc, c.errField):
					return "carry"
				}
				return ""
			}
		}
		return "GOut.ok"
	case *ast.CallExpr:
		// a method of the frame whose body is `return QFrame{…}` (withErr, withIndex)
		sel, ok := t.Fun.(*ast.SelectorExpr)
		if !ok || depth > 4 {
			return ""
		}
		id, ok := unparen(sel.X).(*ast.Ident)
		if !ok || sc[id.Name].kind != "recv" {
			return ""
		}
		fd, ok := c.root["QFrame."+sel.Sel.Name]
		if !ok || len(fd.Body.List) != 1 {
			return ""
		}
		ret, ok := fd.Body.List[0].(*ast.ReturnStmt)
		if !ok || len(ret.Results) != 1 {
			return ""
		}
		if _, ok := unparen(ret.Results[0]).(*ast.CompositeLit); !ok {
			return ""
		}
		inner := gscope{}
		for _, n := range fd.Recv.List[0].Names {
			inner[n.Name] = gsym{kind: "recv"}
		}
		i := 0
		for _, par := range fd.Type.Params.List {
			for _, n := range par.Names {
				if id, ok := par.Type.(*ast.Ident); ok && id.Name == "error" && i < len(t.Args) && c.nonNilErr(t.Args[i], sc) {
					inner[n.Name] = gsym{kind: "errnn"}
				} else {
					inner[n.Name] = gsym{kind: "unknown"}
				}
				i++
			}
		}
		return c.outcome(ret.Results[0], inner, depth+1)
	}
	return ""
}

// a call that yields an `error`: a name check of internal/strings (→ errc) or a helper method of the frame (→ errs)
func (c *gctx) errCall(e ast.Expr, sc gscope) (gsym, bool) {
	call, ok := unparen(e).(*ast.CallExpr)
	if !ok {
		return gsym{}, false
	}
	sel, ok := call.Fun.(*ast.SelectorExpr)
	if !ok {
		return gsym{}, false
	}
	id, ok := unparen(sel.X).(*ast.Ident)
	if !ok {
		return gsym{}, false
	}
	if _, shadowed := sc[id.Name]; !shadowed && c.strAlias[id.Name] {
		fd, ok := c.strFns[sel.Sel.Name]
		if !ok || !returnsOnly(fd, "error") || len(call.Args) != 1 {
			return gsym{}, false
		}
		if ps := paramNames(fd); len(ps) != 1 || src(fd.Type.Params.List[0].Type) != "string" {
			return gsym{}, false
		}
		role := c.nameExpr(call.Args[0], sc)
		if role == "" {
			return gsym{kind: "errc", t: ls("GCond.opaque", src(e))}, true
		}
		c.checkers[sel.Sel.Name] = true
		return gsym{kind: "errc", t: lh("GCond.nameCheckFails", lh(role))}, true
	}
	if sc[id.Name].kind != "recv" {
		return gsym{}, false
	}
	fd, ok := c.root["QFrame."+sel.Sel.Name]
	if !ok || !returnsOnly(fd, "error") || c.depth > 4 {
		return gsym{}, false
	}
	inner, _ := c.callScope(fd, call, sc)
	saved := c.mode
	c.mode = "error"
	c.depth++
	steps, rest, _ := c.chain(fd.Body.List, inner)
	c.depth--
	c.mode = saved
	okEnd := false
	if len(rest) == 1 {
		if r, ok := rest[0].(*ast.ReturnStmt); ok && len(r.Results) == 1 && isNilIdent(r.Results[0]) {
			okEnd = true
		}
	}
	if !okEnd {
		steps = append(steps, ls("GStep.opaque", "helper "+stmtsText(rest)))
	}
	return gsym{kind: "errs", steps: steps}, true
}

func returnsOnly(fd *ast.FuncDecl, typ string) bool {
	r := fd.Type.Results
	return r != nil && len(r.List) == 1 && len(r.List[0].Names) <= 1 && src(r.List[0].Type) == typ
}

// callScope binds the receiver and the parameters of fd to what the call passes, by role; forwarded reports whether
// every int / string / []string parameter is fed from a value with a role.
func (c *gctx) callScope(fd *ast.FuncDecl, call *ast.CallExpr, sc gscope) (gscope, bool) {
	inner := gscope{}
	if fd.Recv != nil {
		for _, n := range fd.Recv.List[0].Names {
			inner[n.Name] = gsym{kind: "recv"}
		}
	}
	forwarded := true
	i := 0
	for _, par := range fd.Type.Params.List {
		names := par.Names
		if len(names) == 0 {
			names = []*ast.Ident{{Name: "_"}}
		}
		for _, n := range names {
			s := gsym{kind: "unknown"}
			typ := src(par.Type)
			var arg ast.Expr
			if i < len(call.Args) {
				arg = call.Args[i]
			}
			switch typ {
			case "int":
				forwarded = false
				if arg != nil {
					if t := c.intExpr(arg, sc); t != nil {
						s = gsym{kind: "int", t: t}
						forwarded = true
					}
				}
			case "string":
				// string literals (the operation's name in messages) carry no role and are not part of the request
				if bl, ok := unparen(arg).(*ast.BasicLit); arg != nil && ok && bl.Kind == token.STRING {
					break
				}
				forwarded = false
				if arg != nil {
					if r := c.nameExpr(arg, sc); r != "" {
						s = gsym{kind: "name", role: r}
						forwarded = true
					}
				}
			case "[]string", "...string":
				forwarded = false
				if arg != nil && i == len(call.Args)-1 && (typ == "[]string" || call.Ellipsis.IsValid()) {
					if r := c.collExpr(arg, sc); r != "" && r != "GColl.dataKeys" {
						s = gsym{kind: "coll", role: r}
						forwarded = true
					}
				}
			}
			if n.Name != "_" {
				inner[n.Name] = s
			}
			i++
		}
	}
	return inner, forwarded
}

// `lhs := rhs` in a guard prefix
func (c *gctx) define(as *ast.AssignStmt, sc gscope) bool {
	if as.Tok != token.DEFINE || len(as.Rhs) != 1 {
		return false
	}
	var names []string
	for _, l := range as.Lhs {
		id, ok := l.(*ast.Ident)
		if !ok {
			return false
		}
		names = append(names, id.Name)
	}
	set := func(i int, s gsym) {
		if names[i] != "_" {
			sc[names[i]] = s
		}
	}
	rhs := unparen(as.Rhs[0])
	switch len(names) {
	case 2:
		ix, ok := rhs.(*ast.IndexExpr)
		if !ok {
			return false
		}
		role := c.nameExpr(ix.Index, sc)
		var t *lt
		switch {
		case role == "":
			t = ls("GCond.opaque", src(rhs))
		case c.recvField(ix.X, sc, c.byName):
			t = lh("GCond.not", lh("GCond.unknownColumn", lh(role)))
		default:
			if id, ok := unparen(ix.X).(*ast.Ident); ok && sc[id.Name].kind == "data" {
				t = lh("GCond.not", lh("GCond.notInData", lh(role)))
			} else {
				return false
			}
		}
		set(0, gsym{kind: "unknown"})
		set(1, gsym{kind: "ok", t: t})
		return true
	case 1:
		if s, ok := c.errCall(rhs, sc); ok {
			set(0, s)
			return true
		}
		if call, ok := rhs.(*ast.CallExpr); ok {
			if sel, ok := call.Fun.(*ast.SelectorExpr); ok {
				if id, ok := sel.X.(*ast.Ident); ok && c.cfgAlias[id.Name] && sel.Sel.Name == "NewConfig" {
					if _, shadowed := sc[id.Name]; !shadowed {
						set(0, gsym{kind: "config"})
						return true
					}
				}
			}
		}
	}
	return false
}

// the single value a block `{ return v }` returns
func soleReturn(b *ast.BlockStmt) ast.Expr {
	if b == nil || len(b.List) != 1 {
		return nil
	}
	r, ok := b.List[0].(*ast.ReturnStmt)
	if !ok || len(r.Results) != 1 {
		return nil
	}
	return r.Results[0]
}

// `if len(order) == 0 { order = make([]string, 0, …); for k := range data { order = append(order, k); sort.Strings(order) } }`
func (c *gctx) isDefaultOrder(s *ast.IfStmt, sc gscope) bool {
	if s.Init != nil || s.Else != nil {
		return false
	}
	cond := c.cond(s.Cond, sc)
	if cond.lean() != "GCond.eqI (GInt.count GColl.order) (GInt.lit 0)" {
		return false
	}
	isOrder := func(e ast.Expr) bool { return c.collExpr(e, sc) == "GColl.order" }
	appended := 0
	var simple func(st ast.Stmt, key string) bool
	simple = func(st ast.Stmt, key string) bool {
		switch t := st.(type) {
		case *ast.AssignStmt:
			if t.Tok != token.ASSIGN || len(t.Lhs) != 1 || len(t.Rhs) != 1 || !isOrder(t.Lhs[0]) {
				return false
			}
			call, ok := t.Rhs[0].(*ast.CallExpr)
			if !ok {
				return false
			}
			fn, ok := call.Fun.(*ast.Ident)
			if !ok {
				return false
			}
			switch {
			case fn.Name == "make" && len(call.Args) >= 2 && key == "":
				n, ok := gIntLit(call.Args[1])
				return ok && n == "0" && src(call.Args[0]) == "[]string"
			case fn.Name == "append" && len(call.Args) == 2 && key != "" && isOrder(call.Args[0]):
				if id, ok := call.Args[1].(*ast.Ident); ok && id.Name == key {
					appended++
					return true
				}
			}
			return false
		case *ast.ExprStmt:
			call, ok := t.X.(*ast.CallExpr)
			if !ok || len(call.Args) != 1 || !isOrder(call.Args[0]) {
				return false
			}
			sel, ok := call.Fun.(*ast.SelectorExpr)
			return ok && src(sel) == "sort.Strings"
		case *ast.RangeStmt:
			if key != "" || c.collExpr(t.X, sc) != "GColl.dataKeys" || t.Tok != token.DEFINE {
				return false
			}
			k, ok := t.Key.(*ast.Ident)
			if !ok || k.Name == "_" {
				return false
			}
			before := appended
			for _, b := range t.Body.List {
				if !simple(b, k.Name) {
					return false
				}
			}
			return appended == before+1
		}
		return false
	}
	for _, st := range s.Body.List {
		if !simple(st, "") {
			return false
		}
	}
	return appended == 1
}

// chain translates the longest prefix of stmts that consists of guards; returns the steps, the statements left over and
// the scope at that point.
func (c *gctx) chain(stmts []ast.Stmt, sc gscope) ([]*lt, []ast.Stmt, gscope) {
	var steps []*lt
	sc = sc.clone()
	for n, st := range stmts {
		switch s := st.(type) {
		case *ast.IfStmt:
			if c.isDefaultOrder(s, sc) {
				steps = append(steps, lh("GStep.defaultOrder"))
				continue
			}
			val := soleReturn(s.Body)
			if s.Else != nil || val == nil {
				return steps, stmts[n:], sc
			}
			inner := sc.clone()
			if s.Init != nil {
				as, ok := s.Init.(*ast.AssignStmt)
				if !ok || !c.define(as, inner) {
					return steps, stmts[n:], sc
				}
			}
			// `if err != nil` on the error of a helper: the helper's steps, with this statement's outcome
			if be, ok := unparen(s.Cond).(*ast.BinaryExpr); ok && be.Op == token.NEQ && isNilIdent(be.Y) {
				if id, ok := unparen(be.X).(*ast.Ident); ok && inner[id.Name].kind == "errs" {
					helper := inner[id.Name].steps
					inner[id.Name] = gsym{kind: "errnn"}
					out := c.outcome(val, inner, 0)
					for _, h := range helper {
						switch {
						case out == "" || out == "carry":
							steps = append(steps, ls("GStep.opaque", "return "+src(val)))
						case h.head == "GStep.guard" && h.args[1].head == "GOut.err":
							steps = append(steps, lh("GStep.guard", h.args[0], lh(out)))
						case h.head == "GStep.forEach" && h.args[2].head == "GOut.err":
							steps = append(steps, lh("GStep.forEach", h.args[0], h.args[1], lh(out)))
						default:
							steps = append(steps, ls("GStep.opaque", "helper step "+h.lean()))
						}
					}
					continue
				}
			}
			cond := c.cond(s.Cond, inner)
			// inside the body an error tested `!= nil` is not nil
			if be, ok := unparen(s.Cond).(*ast.BinaryExpr); ok && be.Op == token.NEQ && isNilIdent(be.Y) {
				if id, ok := unparen(be.X).(*ast.Ident); ok && inner[id.Name].kind == "errc" {
					inner[id.Name] = gsym{kind: "errnn"}
				}
			}
			out := c.outcome(val, inner, 0)
			if out == "" || out == "carry" {
				steps = append(steps, ls("GStep.opaque", "return "+src(val)))
				continue
			}
			steps = append(steps, lh("GStep.guard", cond, lh(out)))
		case *ast.AssignStmt:
			if !c.define(s, sc) {
				return steps, stmts[n:], sc
			}
		case *ast.RangeStmt:
			coll := c.collExpr(s.X, sc)
			if coll == "" || s.Tok != token.DEFINE {
				return steps, stmts[n:], sc
			}
			inner := sc.clone()
			var elem ast.Expr
			if coll == "GColl.dataKeys" {
				// a map: the key is the name
				if v, ok := s.Value.(*ast.Ident); s.Value != nil && (!ok || v.Name != "_") {
					return steps, stmts[n:], sc
				}
				elem = s.Key
			} else {
				if k, ok := s.Key.(*ast.Ident); s.Key != nil && (!ok || k.Name != "_") {
					return steps, stmts[n:], sc
				}
				elem = s.Value
			}
			id, ok := elem.(*ast.Ident)
			if !ok || id.Name == "_" {
				return steps, stmts[n:], sc
			}
			inner[id.Name] = gsym{kind: "name", role: "GRole.each"}
			body, rest, _ := c.chain(s.Body.List, inner)
			if len(rest) != 0 || len(body) == 0 {
				return steps, stmts[n:], sc
			}
			for _, b := range body {
				if b.head == "GStep.guard" {
					steps = append(steps, lh("GStep.forEach", lh(coll), b.args[0], b.args[1]))
				} else {
					steps = append(steps, ls("GStep.opaque", "in loop: "+b.lean()))
				}
			}
		default:
			return steps, stmts[n:], sc
		}
	}
	return steps, nil, sc
}

// function translates the guard prefix of fd under the scope sc and what follows it: a forwarding tail call is inlined,
// error returns after the prefix are counted.
func (c *gctx) function(name string, fd *ast.FuncDecl, sc gscope) []*lt {
	steps, rest, sc := c.chain(fd.Body.List, sc)
	if len(rest) == 1 && c.depth < 4 {
		if r, ok := rest[0].(*ast.ReturnStmt); ok && len(r.Results) == 1 {
			if call, ok := unparen(r.Results[0]).(*ast.CallExpr); ok {
				if sel, ok := call.Fun.(*ast.SelectorExpr); ok {
					if id, ok := unparen(sel.X).(*ast.Ident); ok && sc[id.Name].kind == "recv" {
						if callee, ok := c.root["QFrame."+sel.Sel.Name]; ok && returnsOnly(callee, "QFrame") {
							if out := c.outcome(call, sc, 0); out == "" {
								inner, forwarded := c.callScope(callee, call, sc)
								if forwarded {
									c.depth++
									more := c.function(name, callee, inner)
									c.depth--
									return append(steps, more...)
								}
								c.tails = append(c.tails, sel.Sel.Name)
								return steps
							}
						}
					}
				}
			}
		}
	}
	for _, st := range rest {
		ast.Inspect(st, func(n ast.Node) bool {
			switch t := n.(type) {
			case *ast.FuncLit:
				return false
			case *ast.ReturnStmt:
				for _, v := range t.Results {
					// the scope of the prefix: locals of the rest are unknown, which errs on the side of counting
					if c.lateError(v, sc) {
						c.late++
					} else if callee := c.frameCall(v, sc); callee != "" && c.outcome(v, sc, 0) == "" {
						c.tails = append(c.tails, callee)
					}
				}
			}
			return true
		})
	}
	return steps
}

// the method of the frame that a call `qf.m(…)` on the receiver invokes, if it returns a frame
func (c *gctx) frameCall(e ast.Expr, sc gscope) string {
	call, ok := unparen(e).(*ast.CallExpr)
	if !ok {
		return ""
	}
	sel, ok := call.Fun.(*ast.SelectorExpr)
	if !ok {
		return ""
	}
	id, ok := unparen(sel.X).(*ast.Ident)
	if !ok || sc[id.Name].kind != "recv" {
		return ""
	}
	if fd, ok := c.root["QFrame."+sel.Sel.Name]; ok && returnsOnly(fd, "QFrame") {
		return sel.Sel.Name
	}
	return ""
}

// an error return after the prefix: `QFrame{Err: x}` with x not nil / not the receiver's error, or a call of a method
// that builds such a value (withErr)
func (c *gctx) lateError(e ast.Expr, sc gscope) bool {
	switch t := unparen(e).(type) {
	case *ast.CompositeLit:
		if t.Type == nil || !isQFrameType(t.Type) {
			return false
		}
		for _, el := range t.Elts {
			if kv, ok := el.(*ast.KeyValueExpr); ok {
				if k, ok := kv.Key.(*ast.Ident); ok && k.Name == c.errField {
					return !isNilIdent(kv.Value) && !c.recvField(kv.Value, sc, c.errField)
				}
			}
		}
		return false
	case *ast.CallExpr:
		sel, ok := t.Fun.(*ast.SelectorExpr)
		if !ok {
			return false
		}
		id, ok := unparen(sel.X).(*ast.Ident)
		if !ok || sc[id.Name].kind != "recv" {
			return false
		}
		fd, ok := c.root["QFrame."+sel.Sel.Name]
		if !ok || len(fd.Body.List) != 1 {
			return false
		}
		ret, ok := fd.Body.List[0].(*ast.ReturnStmt)
		if !ok || len(ret.Results) != 1 {
			return false
		}
		cl, ok := unparen(ret.Results[0]).(*ast.CompositeLit)
		if !ok || cl.Type == nil || !isQFrameType(cl.Type) {
			return false
		}
		inner := gscope{}
		for _, n := range fd.Recv.List[0].Names {
			inner[n.Name] = gsym{kind: "recv"}
		}
		return c.lateError(cl, inner)
	}
	return false
}

// the scope of an exported operation: parameters by type and position
func topScope(fd *ast.FuncDecl) gscope {
	sc := gscope{}
	if fd.Recv != nil && len(fd.Recv.List) == 1 && strings.TrimPrefix(src(fd.Recv.List[0].Type), "*") == "QFrame" {
		for _, n := range fd.Recv.List[0].Names {
			sc[n.Name] = gsym{kind: "recv"}
		}
	}
	ints, strs, colls, maps := 0, 0, 0, 0
	if fd.Type.Params == nil {
		return sc
	}
	for _, par := range fd.Type.Params.List {
		for _, n := range par.Names {
			s := gsym{kind: "unknown"}
			switch typ := src(par.Type); {
			case typ == "int":
				if ints < 2 {
					s = gsym{kind: "int", t: lh([]string{"GInt.start", "GInt.stop"}[ints])}
				}
				ints++
			case typ == "string":
				if strs < 2 {
					s = gsym{kind: "name", role: []string{"GRole.dst", "GRole.src"}[strs]}
				}
				strs++
			case typ == "...string" || typ == "[]string":
				if colls == 0 {
					s = gsym{kind: "coll", role: "GColl.columns"}
				}
				colls++
			case strings.HasPrefix(typ, "map[string]"):
				if maps == 0 {
					s = gsym{kind: "data"}
				}
				maps++
			}
			if n.Name != "_" {
				sc[n.Name] = s
			}
		}
	}
	return sc
}

// `func (qf QFrame) Len() int` as a list of IStep
func (c *gctx) lenSteps() []*lt {
	fd, ok := c.root["QFrame.Len"]
	if !ok {
		return []*lt{ls("IStep.opaque", "?missing")}
	}
	sc := topScope(fd)
	var out []*lt
	for _, st := range fd.Body.List {
		switch s := st.(type) {
		case *ast.ReturnStmt:
			if len(s.Results) == 1 {
				if v := c.intExpr(s.Results[0], sc); v != nil && v.head != "GInt.len" {
					return append(out, lh("IStep.ret", v))
				}
			}
		case *ast.IfStmt:
			if val := soleReturn(s.Body); val != nil && s.Init == nil && s.Else == nil {
				if v := c.intExpr(val, sc); v != nil && v.head != "GInt.len" {
					out = append(out, lh("IStep.guard", c.cond(s.Cond, sc), v))
					continue
				}
			}
		}
		return append(out, ls("IStep.opaque", src(st)))
	}
	return out
}

/* ---- the name check of internal/strings ---- */

type nctx struct {
	fns      map[string]*ast.FuncDecl
	stdAlias map[string]bool // import names of the standard package strings
	errAlias map[string]bool
}

func bytesTerm(s string) *lt {
	items := make([]*lt, len(s))
	for i := 0; i < len(s); i++ {
		items[i] = lh(strconv.Itoa(int(s[i])))
	}
	return ll(items)
}

func strLit(e ast.Expr) (string, bool) {
	bl, ok := unparen(e).(*ast.BasicLit)
	if !ok || bl.Kind != token.STRING {
		return "", false
	}
	v, err := strconv.Unquote(bl.Value)
	return v, err == nil
}

func isName(e ast.Expr, name string) bool {
	id, ok := unparen(e).(*ast.Ident)
	return ok && name != "" && name != "_" && id.Name == name
}

func (c *nctx) nint(e ast.Expr, name string) *lt {
	e = unparen(e)
	if bl, ok := e.(*ast.BasicLit); ok && bl.Kind == token.INT {
		if n, err := strconv.ParseUint(bl.Value, 0, 32); err == nil {
			return lh("NInt.lit", lh(strconv.FormatUint(n, 10)))
		}
	}
	if call, ok := e.(*ast.CallExpr); ok && len(call.Args) == 1 {
		if fn, ok := call.Fun.(*ast.Ident); ok && fn.Name == "len" && fn.Name != name && isName(call.Args[0], name) {
			return lh("NInt.len")
		}
	}
	return nil
}

func nnot(c *lt) *lt {
	if c.head == "NCond.not" {
		return c.args[0]
	}
	return lh("NCond.not", c)
}

func (c *nctx) cond(e ast.Expr, name string, depth int) *lt {
	bad := func() *lt { return ls("NCond.opaque", src(e)) }
	switch t := unparen(e).(type) {
	case *ast.UnaryExpr:
		if t.Op == token.NOT {
			return nnot(c.cond(t.X, name, depth))
		}
	case *ast.BinaryExpr:
		switch t.Op {
		case token.LOR:
			return lh("NCond.or", c.cond(t.X, name, depth), c.cond(t.Y, name, depth))
		case token.LAND:
			return lh("NCond.and", c.cond(t.X, name, depth), c.cond(t.Y, name, depth))
		case token.LSS, token.GTR, token.LEQ, token.GEQ, token.EQL, token.NEQ:
			if a, b := c.nint(t.X, name), c.nint(t.Y, name); a != nil && b != nil {
				switch t.Op {
				case token.LSS:
					return lh("NCond.lt", a, b)
				case token.GTR:
					return lh("NCond.lt", b, a)
				case token.LEQ:
					return lh("NCond.le", a, b)
				case token.GEQ:
					return lh("NCond.le", b, a)
				}
				if a.head == "NInt.lit" && b.head != "NInt.lit" {
					a, b = b, a
				}
				if t.Op == token.EQL {
					return lh("NCond.eqI", a, b)
				}
				return lh("NCond.not", lh("NCond.eqI", a, b))
			}
			// name == "" / name != ""
			if t.Op == token.EQL || t.Op == token.NEQ {
				x, y := t.X, t.Y
				if _, ok := strLit(x); ok {
					x, y = y, x
				}
				if v, ok := strLit(y); ok && v == "" && isName(x, name) {
					r := lh("NCond.eqI", lh("NInt.len"), lh("NInt.lit", lh("0")))
					if t.Op == token.NEQ {
						return lh("NCond.not", r)
					}
					return r
				}
			}
		}
	case *ast.CallExpr:
		switch fn := t.Fun.(type) {
		case *ast.SelectorExpr:
			if id, ok := fn.X.(*ast.Ident); ok && c.stdAlias[id.Name] && id.Name != name && len(t.Args) == 2 && isName(t.Args[0], name) {
				if v, ok := strLit(t.Args[1]); ok {
					switch fn.Sel.Name {
					case "HasPrefix":
						return lh("NCond.hasPrefix", bytesTerm(v))
					case "HasSuffix":
						return lh("NCond.hasSuffix", bytesTerm(v))
					}
				}
			}
		case *ast.Ident:
			// a bool helper of the package applied to the name (isQuoted): inlined
			fd, ok := c.fns[fn.Name]
			if !ok || fn.Name == name || depth > 4 || len(t.Args) != 1 || !isName(t.Args[0], name) || !returnsOnly(fd, "bool") {
				break
			}
			ps := paramNames(fd)
			if fd.Recv != nil || len(ps) != 1 || src(fd.Type.Params.List[0].Type) != "string" {
				break
			}
			if v := soleReturn(fd.Body); v != nil {
				return c.cond(v, ps[0], depth+1)
			}
		}
	}
	return bad()
}

// `func CheckName(name string) error` as a list of NStep
func (c *nctx) steps(fd *ast.FuncDecl) []*lt {
	ps := paramNames(fd)
	if fd.Recv != nil || len(ps) != 1 || src(fd.Type.Params.List[0].Type) != "string" || !returnsOnly(fd, "error") {
		return []*lt{ls("NStep.opaque", "signature")}
	}
	name := ps[0]
	g := &gctx{errAlias: c.errAlias, mode: "error"}
	var out []*lt
	for _, st := range fd.Body.List {
		switch s := st.(type) {
		case *ast.ReturnStmt:
			if len(s.Results) == 1 && isNilIdent(s.Results[0]) {
				return append(out, lh("NStep.accept"))
			}
		case *ast.IfStmt:
			if val := soleReturn(s.Body); val != nil && s.Init == nil && s.Else == nil && g.nonNilErr(val, gscope{name: gsym{kind: "unknown"}}) {
				out = append(out, lh("NStep.reject", c.cond(s.Cond, name, 0)))
				continue
			}
		}
		return append(out, ls("NStep.opaque", src(st)))
	}
	return out
}

// guardsLean renders QF/Gen/Guards.lean.
func guardsLean(rootFiles, strFiles map[string]*ast.File) string {
	c := newGctx(rootFiles, strFiles)
	ops := []struct{ name, key string }{{"Slice", "QFrame.Slice"}, {"Select", "QFrame.Select"}, {"Drop", "QFrame.Drop"}, {"Copy", "QFrame.Copy"}, {"New", "New"}}
	var chains, lates, tails []string
	for _, op := range ops {
		steps := []*lt{ls("GStep.opaque", "?missing")}
		c.late, c.tails, c.mode, c.depth = 0, nil, "frame", 0
		if fd, ok := c.root[op.key]; ok {
			steps = c.function(op.name, fd, topScope(fd))
		}
		items := make([]string, len(steps))
		for i, s := range steps {
			items[i] = "    " + s.lean()
		}
		chains = append(chains, fmt.Sprintf("  (%s, [\n%s])", leanStr(op.name), strings.Join(items, ",\n")))
		lates = append(lates, fmt.Sprintf("(%s, %d)", leanStr(op.name), c.late))
		for _, t := range c.tails {
			// the callee by role: one of the exported operations, or a helper
			callee := "helper"
			for _, o := range ops {
				if o.key == "QFrame."+t {
					callee = o.name
				}
			}
			tails = append(tails, fmt.Sprintf("(%s, %s)", leanStr(op.name), leanStr(callee)))
		}
	}
	lenItems := c.lenSteps()
	// the name check: the one function of internal/strings the guards call
	var checkers []string
	for n := range c.checkers {
		checkers = append(checkers, n)
	}
	sort.Strings(checkers)
	nameSteps := []*lt{ls("NStep.opaque", fmt.Sprintf("name checks called: %v", checkers))}
	if len(checkers) == 1 {
		// the standard package strings has exactly this import path
		n := &nctx{fns: c.strFns, stdAlias: map[string]bool{}, errAlias: importNames(strFiles, "/qerrors")}
		for _, f := range strFiles {
			for _, im := range f.Imports {
				if im.Path.Value == `"strings"` {
					name := "strings"
					if im.Name != nil {
						name = im.Name.Name
					}
					n.stdAlias[name] = true
				}
			}
		}
		nameSteps = n.steps(c.strFns[checkers[0]])
	}
	join := func(ts []*lt) string {
		items := make([]string, len(ts))
		for i, s := range ts {
			items[i] = "  " + s.lean()
		}
		return strings.Join(items, ",\n")
	}
	var b strings.Builder
	b.WriteString("/- GENERATED on every run by /verif/go/cmd/extract from /repo's source (tie T1). Do not edit. -/\nimport QF.Core.GExpr\nnamespace QF.Gen\n\n")
	b.WriteString("/-- the function of internal/strings that the guards of qframe.go call on a column name (`CheckName`, bool helpers inlined) -/\n")
	b.WriteString("def checkNameAst : List NStep := [\n" + join(nameSteps) + "]\n\n")
	b.WriteString("/-- `QFrame.Len` -/\ndef lenAst : List IStep := [\n" + join(lenItems) + "]\n\n")
	b.WriteString("/-- the guard prefix of the projection operations and of `New`, by role: (operation, steps) -/\n")
	b.WriteString("def guardAst : List (String × List GStep) := [\n" + strings.Join(chains, ",\n") + "]\n\n")
	b.WriteString("/-- number of error returns in the statements AFTER the translated prefix: (operation, count) -/\n")
	b.WriteString("def lateErrors : List (String × Nat) := [" + strings.Join(lates, ", ") + "]\n\n")
	b.WriteString("/-- `return qf.m(…)` of a frame method after the prefix that is not part of the chain (its arguments are computed, not the request's): (operation, callee: an exported operation, else `helper`) -/\n")
	b.WriteString("def openTails : List (String × String) := [" + strings.Join(tails, ", ") + "]\n\nend QF.Gen\n")
	return b.String()
}
