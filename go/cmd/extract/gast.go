package main

// Translation go/ast → GStep / IStep / NStep (lean/QF/Core/GExpr.lean) of the VALIDATION LOGIC of the projection
// operations of qframe.go: the prefix of
//
//	QFrame.Slice(start, end int) · QFrame.Select(columns ...string) · QFrame.Drop(columns ...string) ·
//	QFrame.Copy(dstCol, srcCol string) · New(data map[string]…, fns ...)
//
// up to the statement where the real work starts, as a list of guards (`if cond { return … }`,
// `for _, c := range columns { if cond { return … } }`); `QFrame.Len` as a list of int-valued guards; the function of
// internal/strings the guards call to check a column name (`CheckName`, with the bool helpers it calls inlined) as a
// list of conditions on the bytes of the name.
//
// The translation is by ROLE, never by identifier name (the names of the exported operations above and of
// `newqf.Config.ColumnOrder` are the only fixed vocabulary):
//   - the receiver is the frame; its error field, name map and index are found by their TYPES in `type QFrame struct`
//     (`error`, `map[string]…`, `index.Int`);
//   - parameters get their role from type and position: first / second `int` = start / stop, first / second `string` =
//     dst / src, `...string` = columns, `map[string]…` = data;
//   - locals get their role from their declaration (`_, ok := qf.columnsByName[c]`, `err := qf.checkColumns(…)`,
//     `config := newqf.NewConfig(fns)`);
//   - a method of the frame that returns an `error` (checkColumns) is inlined where its result is tested; a tail call
//     `return qf.m(…)` that forwards the request's parameters (Copy → setColumn) is inlined, so its guards become part
//     of the caller's chain;
//   - what a `return` means is read off the value: the receiver itself (returnSelf), a `QFrame{…}` literal with / without
//     a non-nil `Err` (err / ok), a call of a method whose body is such a literal (withErr); a non-nil error is a call
//     into package qerrors or an `err` variable inside `if err != nil`;
//   - `x < y` and `y > x` are the same condition, `x >= y` is `le y x`, `x != y` is `not (eqI x y)`.
//
// Statements after the prefix are not translated; the number of error returns among them is reported (`lateErrors`: 0
// for the four projections — their whole rejection logic is in the chain) and so are tail calls that were not inlined
// (`openTails`: Drop ends with `qf.Select(<names computed from qf.columns>...)`). Whatever is not understood inside the
// prefix becomes `.opaque "<text>"`: such a chain has no meaning in the model and the proofs of
// QF/Props/C08Guards.lean fail on it.

import (
	"fmt"
	"go/ast"
	"go/token"
	"sort"
	"strconv"
	"strings"
)

type gsym struct {
	kind string // recv | int | name | coll | data | config | ok | errc | errs | errnn | unknown
	// v2: scoll (a variadic parameter of structs with a Column field) | elem (its loop variable) | idx (the index variable of a
	// loop over a collection) | other (a parameter of type QFrame) | pidx / pairL / pairR (the loop over qf.columns of Equals) |
	// sub (the result of an exported frame operation called on the receiver) | okval (a value of the result type without
	// error) | param (a parameter without a role)
	t     *lt    // int: the GInt; ok: the GCond "ok is true"; errc: the GCond "err != nil"
	role  string // name: GRole.…; coll: GColl.…
	steps []*lt  // errs: the steps of the helper that produced the error (it is non-nil iff one of them fires)
}

type gscope map[string]gsym

func (s gscope) clone() gscope {
	r := gscope{}
	for k, v := range s {
		r[k] = v
	}
	return r
}

type gctx struct {
	root       map[string]*ast.FuncDecl
	strFns     map[string]*ast.FuncDecl
	strAlias   map[string]bool // import names of …/internal/strings in the root package
	errAlias   map[string]bool // … of …/qerrors
	cfgAlias   map[string]bool // … of …/config/newqf
	byName     string          // field of QFrame of type map[string]…
	errField   string          // field of QFrame of type error
	indexField string          // field of QFrame of type index.Int
	checkers   map[string]bool // functions of internal/strings called as name checks
	mode       string          // what the function being translated returns: frame | error (v2: grouper | pair | verdict)
	late       int
	tails      []string
	depth      int

	// v2: the remaining operations (see the second half of this file)
	v2          bool
	structs     map[string]*gstruct // QFrame, Grouper: fields by type
	recvType    string              // receiver type of the function being translated ("" for a function)
	elemName    string              // the string field of the element type of QFrame's column slice (namedColumn.name)
	gbAlias     map[string]bool     // import names of …/config/groupby
	csvAlias    map[string]bool     // … of …/config/csv
	filterAlias map[string]bool     // … of …/filter
	roleOf      map[string]string   // private method → its role label (set, apply0…2, filterLeaf)
	calls       []string            // frame methods called after the prefix
	extN        int                 // calls outside the package that yield an error, so far
	inLoop      bool                // translating the body of a loop
	ifaces      map[string]*ast.InterfaceType
	sharesNames bool // GroupBy: the Grouper literal takes the receiver's name map
}

// the fields of a struct type of the root package, by type
type gstruct struct{ errField, byName, indexField, colsField string }

// import names bound to a package whose path ends with suffix
func importNames(files map[string]*ast.File, suffix string) map[string]bool {
	res := map[string]bool{}
	for _, f := range files {
		for _, im := range f.Imports {
			p, err := strconv.Unquote(im.Path.Value)
			if err != nil || !(p == strings.TrimPrefix(suffix, "/") || strings.HasSuffix(p, suffix)) {
				continue
			}
			name := p[strings.LastIndex(p, "/")+1:]
			if im.Name != nil {
				name = im.Name.Name
			}
			res[name] = true
		}
	}
	return res
}

func newGctx(rootFiles, strFiles map[string]*ast.File) *gctx {
	c := &gctx{root: funcDecls(rootFiles), strFns: funcDecls(strFiles), checkers: map[string]bool{}, structs: map[string]*gstruct{}, roleOf: map[string]string{}}
	c.strAlias = importNames(rootFiles, "/internal/strings")
	c.errAlias = importNames(rootFiles, "/qerrors")
	c.cfgAlias = importNames(rootFiles, "/config/newqf")
	c.gbAlias = importNames(rootFiles, "/config/groupby")
	c.csvAlias = importNames(rootFiles, "/config/csv")
	c.filterAlias = importNames(rootFiles, "/filter")
	ixAlias := importNames(rootFiles, "/internal/index")
	c.scanStructs(rootFiles, ixAlias)
	for _, f := range rootFiles {
		for _, d := range f.Decls {
			gd, ok := d.(*ast.GenDecl)
			if !ok || gd.Tok != token.TYPE {
				continue
			}
			for _, sp := range gd.Specs {
				ts := sp.(*ast.TypeSpec)
				st, ok := ts.Type.(*ast.StructType)
				if !ok || ts.Name.Name != "QFrame" {
					continue
				}
				for _, fl := range st.Fields.List {
					for _, n := range fl.Names {
						switch t := fl.Type.(type) {
						case *ast.Ident:
							if t.Name == "error" && c.errField == "" {
								c.errField = n.Name
							}
						case *ast.MapType:
							if k, ok := t.Key.(*ast.Ident); ok && k.Name == "string" && c.byName == "" {
								c.byName = n.Name
							}
						case *ast.SelectorExpr:
							if x, ok := t.X.(*ast.Ident); ok && ixAlias[x.Name] && t.Sel.Name == "Int" && c.indexField == "" {
								c.indexField = n.Name
							}
						}
					}
				}
			}
		}
	}
	return c
}

func gnot(c *lt) *lt {
	if c.head == "GCond.not" {
		return c.args[0]
	}
	return lh("GCond.not", c)
}

func isNilIdent(e ast.Expr) bool {
	id, ok := unparen(e).(*ast.Ident)
	return ok && id.Name == "nil"
}

func gIntLit(e ast.Expr) (string, bool) {
	e = unparen(e)
	neg := false
	if u, ok := e.(*ast.UnaryExpr); ok && u.Op == token.SUB {
		neg = true
		e = unparen(u.X)
	}
	bl, ok := e.(*ast.BasicLit)
	if !ok || bl.Kind != token.INT {
		return "", false
	}
	n, err := strconv.ParseInt(bl.Value, 0, 64)
	if err != nil {
		return "", false
	}
	if neg && n != 0 {
		return fmt.Sprintf("(-%d)", n), true
	}
	return fmt.Sprintf("%d", n), true
}

// is e the field `field` of the receiver?
func (c *gctx) recvField(e ast.Expr, sc gscope, field string) bool {
	sel, ok := unparen(e).(*ast.SelectorExpr)
	if !ok || field == "" || sel.Sel.Name != field {
		return false
	}
	id, ok := unparen(sel.X).(*ast.Ident)
	return ok && sc[id.Name].kind == "recv"
}

func (c *gctx) collExpr(e ast.Expr, sc gscope) string {
	switch t := unparen(e).(type) {
	case *ast.Ident:
		switch s := sc[t.Name]; s.kind {
		case "coll", "scoll":
			return s.role
		case "data":
			return "GColl.dataKeys"
		}
	case *ast.SelectorExpr:
		if id, ok := unparen(t.X).(*ast.Ident); ok && sc[id.Name].kind == "config" {
			switch {
			case sc[id.Name].role == "" && t.Sel.Name == "ColumnOrder":
				return "GColl.order"
			case sc[id.Name].role == "groupby" && t.Sel.Name == "Columns":
				return "GColl.groupCols"
			case sc[id.Name].role == "csvto" && t.Sel.Name == "Columns":
				return "GColl.csvCols"
			}
		}
	}
	return ""
}

func (c *gctx) nameExpr(e ast.Expr, sc gscope) string {
	if id, ok := unparen(e).(*ast.Ident); ok && sc[id.Name].kind == "name" {
		return sc[id.Name].role
	}
	// v2: the Column field of the variable of a loop over Order / Aggregation / filter.Filter values
	if sel, ok := unparen(e).(*ast.SelectorExpr); ok && sel.Sel.Name == "Column" {
		if id, ok := unparen(sel.X).(*ast.Ident); ok && sc[id.Name].kind == "elem" {
			return "GRole.each"
		}
	}
	return ""
}

func (c *gctx) intExpr(e ast.Expr, sc gscope) *lt {
	e = unparen(e)
	if s, ok := gIntLit(e); ok {
		return lh("GInt.lit", lh(s))
	}
	switch t := e.(type) {
	case *ast.Ident:
		if s := sc[t.Name]; s.kind == "int" {
			return s.t
		}
	case *ast.CallExpr:
		if id, ok := t.Fun.(*ast.Ident); ok && id.Name == "len" && len(t.Args) == 1 {
			if _, shadowed := sc["len"]; shadowed {
				return nil
			}
			if coll := c.collExpr(t.Args[0], sc); coll != "" {
				return lh("GInt.count", lh(coll))
			}
			if c.recvField(t.Args[0], sc, c.indexField) {
				return lh("GInt.indexLen")
			}
			if st := c.structs["QFrame"]; c.v2 && st != nil && c.recvType == "QFrame" {
				switch {
				case c.recvField(t.Args[0], sc, st.colsField):
					return lh("GInt.colCount")
				case c.otherField(t.Args[0], sc, st.indexField):
					return lh("GInt.otherIndexLen")
				case c.otherField(t.Args[0], sc, st.colsField):
					return lh("GInt.otherColCount")
				}
			}
			return nil
		}
		sel, ok := t.Fun.(*ast.SelectorExpr)
		if !ok || len(t.Args) != 0 || sel.Sel.Name != "Len" {
			return nil
		}
		if id, ok := unparen(sel.X).(*ast.Ident); ok && sc[id.Name].kind == "recv" {
			if _, ok := c.root["QFrame.Len"]; ok {
				return lh("GInt.len")
			}
			return nil
		}
		if c.recvField(sel.X, sc, c.indexField) {
			return lh("GInt.indexLen")
		}
	}
	return nil
}

func (c *gctx) cond(e ast.Expr, sc gscope) *lt {
	bad := func() *lt { return ls("GCond.opaque", src(e)) }
	switch t := unparen(e).(type) {
	case *ast.UnaryExpr:
		if t.Op == token.NOT {
			if c.v2 && c.isPairEquals(t.X, sc) {
				return lh("GCond.pairContentDiffers")
			}
			return gnot(c.cond(t.X, sc))
		}
		return bad()
	case *ast.BinaryExpr:
		switch t.Op {
		case token.LOR:
			return lh("GCond.or", c.cond(t.X, sc), c.cond(t.Y, sc))
		case token.LAND:
			return lh("GCond.and", c.cond(t.X, sc), c.cond(t.Y, sc))
		case token.LSS, token.GTR, token.LEQ, token.GEQ, token.EQL, token.NEQ:
			if a, b := c.intExpr(t.X, sc), c.intExpr(t.Y, sc); a != nil && b != nil {
				switch t.Op {
				case token.LSS:
					return lh("GCond.lt", a, b)
				case token.GTR:
					return lh("GCond.lt", b, a)
				case token.LEQ:
					return lh("GCond.le", a, b)
				case token.GEQ:
					return lh("GCond.le", b, a)
				}
				if a.head == "GInt.lit" && b.head != "GInt.lit" {
					a, b = b, a
				}
				if t.Op == token.EQL {
					return lh("GCond.eqI", a, b)
				}
				return lh("GCond.not", lh("GCond.eqI", a, b))
			}
			if t.Op != token.EQL && t.Op != token.NEQ {
				return bad()
			}
			pos := func(x *lt) *lt {
				if t.Op == token.NEQ {
					return x
				}
				return gnot(x)
			}
			if a, b := c.nameExpr(t.X, sc), c.nameExpr(t.Y, sc); a != "" && b != "" {
				if (a == "GRole.dst" && b == "GRole.src") || (a == "GRole.src" && b == "GRole.dst") {
					return gnot(pos(lh("GCond.sameName")))
				}
				return bad()
			}
			// v2: `s.name != o.name` for the two columns at the same position
			if c.v2 && c.elemName != "" {
				if k1, k2 := c.pairSide(t.X, sc), c.pairSide(t.Y, sc); (k1 == "pairL" && k2 == "pairR") || (k1 == "pairR" && k2 == "pairL") {
					return pos(lh("GCond.pairNameDiffers"))
				}
			}
			// `<error> != nil` / `<error> == nil`
			x, y := t.X, t.Y
			if isNilIdent(x) {
				x, y = y, x
			}
			if !isNilIdent(y) {
				return bad()
			}
			if c.recvField(x, sc, c.errField) {
				return pos(lh(c.hasErrAtom()))
			}
			if coll := c.collExpr(x, sc); c.v2 && coll != "" && coll != "GColl.dataKeys" {
				return pos(lh("GCond.given", lh(coll)))
			}
			if id, ok := unparen(x).(*ast.Ident); ok && sc[id.Name].kind == "errc" {
				return pos(sc[id.Name].t)
			}
			return bad()
		}
		return bad()
	case *ast.Ident:
		if s := sc[t.Name]; s.kind == "ok" {
			return s.t
		}
	}
	return bad()
}

// is e an error that cannot be nil?
func (c *gctx) nonNilErr(e ast.Expr, sc gscope) bool {
	switch t := unparen(e).(type) {
	case *ast.Ident:
		return sc[t.Name].kind == "errnn"
	case *ast.CallExpr:
		if sel, ok := t.Fun.(*ast.SelectorExpr); ok {
			if id, ok := sel.X.(*ast.Ident); ok && c.errAlias[id.Name] {
				if _, shadowed := sc[id.Name]; !shadowed {
					return true
				}
			}
		}
	}
	return false
}

func isQFrameType(e ast.Expr) bool {
	id, ok := e.(*ast.Ident)
	return ok && id.Name == "QFrame"
}

// outcome classifies the value of a `return`: GOut.err | GOut.returnSelf | GOut.ok | carry (a new frame with the
// receiver's Err) | "" (not understood).
func (c *gctx) outcome(e ast.Expr, sc gscope, depth int) string {
	if c.mode == "error" {
		if c.nonNilErr(e, sc) {
			return "GOut.err"
		}
		return ""
	}
	if c.mode == "pair" {
		// the error of `return …, <error>`
		switch {
		case c.nonNilErr(e, sc):
			return "GOut.err"
		case c.recvField(e, sc, c.errField):
			return "carry"
		case isNilIdent(e):
			return "GOut.ok"
		}
		return ""
	}
	if c.mode == "verdict" {
		if id, ok := unparen(e).(*ast.Ident); ok {
			if _, shadowed := sc[id.Name]; !shadowed {
				switch id.Name {
				case "true":
					return "GOut.retTrue"
				case "false":
					return "GOut.retFalse"
				}
			}
		}
		return ""
	}
	resType, resErr := "QFrame", c.errField
	if c.v2 {
		if c.mode == "grouper" {
			resType = "Grouper"
		}
		if st := c.structs[resType]; st != nil {
			resErr = st.errField
		}
	}
	switch t := unparen(e).(type) {
	case *ast.Ident:
		if sc[t.Name].kind == "recv" && (!c.v2 || (c.mode == "frame" && c.recvType == "QFrame")) {
			return "GOut.returnSelf"
		}
		if c.v2 && sc[t.Name].kind == "okval" {
			return "GOut.ok"
		}
	case *ast.CompositeLit:
		if id, ok := t.Type.(*ast.Ident); t.Type == nil || !ok || id.Name != resType {
			return ""
		}
		for _, el := range t.Elts {
			kv, ok := el.(*ast.KeyValueExpr)
			if !ok {
				return ""
			}
			if k, ok := kv.Key.(*ast.Ident); ok && k.Name == resErr {
				switch {
				case isNilIdent(kv.Value):
					return "GOut.ok"
				case c.nonNilErr(kv.Value, sc):
					return "GOut.err"
				case c.recvField(kv.Value, sc, c.errField):
					return "carry"
				}
				return ""
			}
		}
		return "GOut.ok"
	case *ast.CallExpr:
		// a method of the frame whose body is `return QFrame{…}` (withErr, withIndex)
		sel, ok := t.Fun.(*ast.SelectorExpr)
		if !ok || depth > 4 {
			return ""
		}
		id, ok := unparen(sel.X).(*ast.Ident)
		if !ok || sc[id.Name].kind != "recv" {
			return ""
		}
		fd, ok := c.root["QFrame."+sel.Sel.Name]
		if !ok || len(fd.Body.List) != 1 {
			return ""
		}
		ret, ok := fd.Body.List[0].(*ast.ReturnStmt)
		if !ok || len(ret.Results) != 1 {
			return ""
		}
		if _, ok := unparen(ret.Results[0]).(*ast.CompositeLit); !ok {
			return ""
		}
		inner := gscope{}
		for _, n := range fd.Recv.List[0].Names {
			inner[n.Name] = gsym{kind: "recv"}
		}
		i := 0
		for _, par := range fd.Type.Params.List {
			for _, n := range par.Names {
				if id, ok := par.Type.(*ast.Ident); ok && id.Name == "error" && i < len(t.Args) && c.nonNilErr(t.Args[i], sc) {
					inner[n.Name] = gsym{kind: "errnn"}
				} else {
					inner[n.Name] = gsym{kind: "unknown"}
				}
				i++
			}
		}
		return c.outcome(ret.Results[0], inner, depth+1)
	}
	return ""
}

// a call that yields an `error`: a name check of internal/strings (→ errc) or a helper method of the frame (→ errs)
func (c *gctx) errCall(e ast.Expr, sc gscope) (gsym, bool) {
	call, ok := unparen(e).(*ast.CallExpr)
	if !ok {
		return gsym{}, false
	}
	sel, ok := call.Fun.(*ast.SelectorExpr)
	if !ok {
		return gsym{}, false
	}
	id, ok := unparen(sel.X).(*ast.Ident)
	if !ok {
		return gsym{}, false
	}
	if _, shadowed := sc[id.Name]; !shadowed && c.strAlias[id.Name] {
		fd, ok := c.strFns[sel.Sel.Name]
		if !ok || !returnsOnly(fd, "error") || len(call.Args) != 1 {
			return gsym{}, false
		}
		if ps := paramNames(fd); len(ps) != 1 || src(fd.Type.Params.List[0].Type) != "string" {
			return gsym{}, false
		}
		role := c.nameExpr(call.Args[0], sc)
		if role == "" {
			return gsym{kind: "errc", t: ls("GCond.opaque", src(e))}, true
		}
		c.checkers[sel.Sel.Name] = true
		return gsym{kind: "errc", t: lh("GCond.nameCheckFails", lh(role))}, true
	}
	if sc[id.Name].kind != "recv" {
		return gsym{}, false
	}
	fd, ok := c.root["QFrame."+sel.Sel.Name]
	if !ok || !returnsOnly(fd, "error") || c.depth > 4 {
		return gsym{}, false
	}
	inner, _ := c.callScope(fd, call, sc)
	saved := c.mode
	c.mode = "error"
	c.depth++
	steps, rest, _ := c.chain(fd.Body.List, inner)
	c.depth--
	c.mode = saved
	okEnd := false
	if len(rest) == 1 {
		if r, ok := rest[0].(*ast.ReturnStmt); ok && len(r.Results) == 1 && isNilIdent(r.Results[0]) {
			okEnd = true
		}
	}
	if !okEnd {
		steps = append(steps, ls("GStep.opaque", "helper "+stmtsText(rest)))
	}
	return gsym{kind: "errs", steps: steps}, true
}

func returnsOnly(fd *ast.FuncDecl, typ string) bool {
	r := fd.Type.Results
	return r != nil && len(r.List) == 1 && len(r.List[0].Names) <= 1 && src(r.List[0].Type) == typ
}

// callScope binds the receiver and the parameters of fd to what the call passes, by role; forwarded reports whether
// every int / string / []string parameter is fed from a value with a role.
func (c *gctx) callScope(fd *ast.FuncDecl, call *ast.CallExpr, sc gscope) (gscope, bool) {
	inner := gscope{}
	if fd.Recv != nil {
		for _, n := range fd.Recv.List[0].Names {
			inner[n.Name] = gsym{kind: "recv"}
		}
	}
	forwarded := true
	i := 0
	for _, par := range fd.Type.Params.List {
		names := par.Names
		if len(names) == 0 {
			names = []*ast.Ident{{Name: "_"}}
		}
		for _, n := range names {
			s := gsym{kind: "unknown"}
			typ := src(par.Type)
			var arg ast.Expr
			if i < len(call.Args) {
				arg = call.Args[i]
			}
			switch typ {
			case "int":
				forwarded = false
				if arg != nil {
					if t := c.intExpr(arg, sc); t != nil {
						s = gsym{kind: "int", t: t}
						forwarded = true
					}
				}
			case "string":
				// string literals (the operation's name in messages) carry no role and are not part of the request
				if bl, ok := unparen(arg).(*ast.BasicLit); arg != nil && ok && bl.Kind == token.STRING {
					break
				}
				forwarded = false
				if arg != nil {
					if r := c.nameExpr(arg, sc); r != "" {
						s = gsym{kind: "name", role: r}
						forwarded = true
					}
				}
			case "[]string", "...string":
				forwarded = false
				if arg != nil && i == len(call.Args)-1 && (typ == "[]string" || call.Ellipsis.IsValid()) {
					if r := c.collExpr(arg, sc); r != "" && r != "GColl.dataKeys" {
						s = gsym{kind: "coll", role: r}
						forwarded = true
					}
				}
			}
			if n.Name != "_" {
				inner[n.Name] = s
			}
			i++
		}
	}
	return inner, forwarded
}

// `lhs := rhs` in a guard prefix
func (c *gctx) define(as *ast.AssignStmt, sc gscope) bool {
	if as.Tok != token.DEFINE || len(as.Rhs) != 1 {
		return false
	}
	var names []string
	for _, l := range as.Lhs {
		id, ok := l.(*ast.Ident)
		if !ok {
			return false
		}
		names = append(names, id.Name)
	}
	set := func(i int, s gsym) {
		if names[i] != "_" {
			sc[names[i]] = s
		}
	}
	rhs := unparen(as.Rhs[0])
	if c.v2 && c.define2(names, rhs, sc) {
		return true
	}
	switch len(names) {
	case 2:
		ix, ok := rhs.(*ast.IndexExpr)
		if !ok {
			return false
		}
		role := c.nameExpr(ix.Index, sc)
		var t *lt
		switch {
		case role == "":
			t = ls("GCond.opaque", src(rhs))
		case c.recvField(ix.X, sc, c.byName):
			t = lh("GCond.not", lh("GCond.unknownColumn", lh(role)))
		default:
			if id, ok := unparen(ix.X).(*ast.Ident); ok && sc[id.Name].kind == "data" {
				t = lh("GCond.not", lh("GCond.notInData", lh(role)))
			} else {
				return false
			}
		}
		set(0, gsym{kind: "unknown"})
		set(1, gsym{kind: "ok", t: t})
		return true
	case 1:
		if s, ok := c.errCall(rhs, sc); ok {
			set(0, s)
			return true
		}
		if call, ok := rhs.(*ast.CallExpr); ok {
			if sel, ok := call.Fun.(*ast.SelectorExpr); ok {
				if id, ok := sel.X.(*ast.Ident); ok && c.cfgAlias[id.Name] && sel.Sel.Name == "NewConfig" {
					if _, shadowed := sc[id.Name]; !shadowed {
						set(0, gsym{kind: "config"})
						return true
					}
				}
			}
		}
	}
	return false
}

// the single value a block `{ return v }` returns
func soleReturn(b *ast.BlockStmt) ast.Expr {
	if b == nil || len(b.List) != 1 {
		return nil
	}
	r, ok := b.List[0].(*ast.ReturnStmt)
	if !ok || len(r.Results) != 1 {
		return nil
	}
	return r.Results[0]
}

// `if len(order) == 0 { order = make([]string, 0, …); for k := range data { order = append(order, k); sort.Strings(order) } }`
func (c *gctx) isDefaultOrder(s *ast.IfStmt, sc gscope) bool {
	if s.Init != nil || s.Else != nil {
		return false
	}
	cond := c.cond(s.Cond, sc)
	if cond.lean() != "GCond.eqI (GInt.count GColl.order) (GInt.lit 0)" {
		return false
	}
	isOrder := func(e ast.Expr) bool { return c.collExpr(e, sc) == "GColl.order" }
	appended := 0
	var simple func(st ast.Stmt, key string) bool
	simple = func(st ast.Stmt, key string) bool {
		switch t := st.(type) {
		case *ast.AssignStmt:
			if t.Tok != token.ASSIGN || len(t.Lhs) != 1 || len(t.Rhs) != 1 || !isOrder(t.Lhs[0]) {
				return false
			}
			call, ok := t.Rhs[0].(*ast.CallExpr)
			if !ok {
				return false
			}
			fn, ok := call.Fun.(*ast.Ident)
			if !ok {
				return false
			}
			switch {
			case fn.Name == "make" && len(call.Args) >= 2 && key == "":
				n, ok := gIntLit(call.Args[1])
				return ok && n == "0" && src(call.Args[0]) == "[]string"
			case fn.Name == "append" && len(call.Args) == 2 && key != "" && isOrder(call.Args[0]):
				if id, ok := call.Args[1].(*ast.Ident); ok && id.Name == key {
					appended++
					return true
				}
			}
			return false
		case *ast.ExprStmt:
			call, ok := t.X.(*ast.CallExpr)
			if !ok || len(call.Args) != 1 || !isOrder(call.Args[0]) {
				return false
			}
			sel, ok := call.Fun.(*ast.SelectorExpr)
			return ok && src(sel) == "sort.Strings"
		case *ast.RangeStmt:
			if key != "" || c.collExpr(t.X, sc) != "GColl.dataKeys" || t.Tok != token.DEFINE {
				return false
			}
			k, ok := t.Key.(*ast.Ident)
			if !ok || k.Name == "_" {
				return false
			}
			before := appended
			for _, b := range t.Body.List {
				if !simple(b, k.Name) {
					return false
				}
			}
			return appended == before+1
		}
		return false
	}
	for _, st := range s.Body.List {
		if !simple(st, "") {
			return false
		}
	}
	return appended == 1
}

// chain translates the longest prefix of stmts that consists of guards; returns the steps, the statements left over and
// the scope at that point.
func (c *gctx) chain(stmts []ast.Stmt, sc gscope) ([]*lt, []ast.Stmt, gscope) {
	var steps []*lt
	sc = sc.clone()
	worked := false // v2: a statement without `return` was stepped over
	for n, st := range stmts {
		switch s := st.(type) {
		case *ast.IfStmt:
			if c.isDefaultOrder(s, sc) {
				steps = append(steps, lh("GStep.defaultOrder"))
				continue
			}
			if c.v2 {
				// `r := qf.op(…); if r.Err != nil { return r }`
				if op := c.subFailsGuard(s, sc); op != "" {
					steps = append(steps, ls("GStep.subFails", op))
					continue
				}
			}
			val := c.soleRet(s.Body)
			if c.v2 && (val == nil || (s.Else != nil && !c.inert(s.Else, sc, false))) {
				// `if pre { guards…; work }`, or work
				if more, ok := c.condBlock(s, sc); ok {
					steps = append(steps, more...)
					continue
				}
				if c.inert(s, sc, false) {
					c.skip(s, sc)
					worked = true
					continue
				}
				return steps, stmts[n:], sc
			}
			if (!c.v2 && s.Else != nil) || val == nil {
				return steps, stmts[n:], sc
			}
			inner := sc.clone()
			if s.Init != nil {
				as, ok := s.Init.(*ast.AssignStmt)
				if !ok || !c.define(as, inner) {
					return steps, stmts[n:], sc
				}
			}
			// `if err != nil` on the error of a helper: the helper's steps, with this statement's outcome
			if be, ok := unparen(s.Cond).(*ast.BinaryExpr); ok && be.Op == token.NEQ && isNilIdent(be.Y) {
				if id, ok := unparen(be.X).(*ast.Ident); ok && inner[id.Name].kind == "errs" {
					helper := inner[id.Name].steps
					inner[id.Name] = gsym{kind: "errnn"}
					out := c.outcome(val, inner, 0)
					for _, h := range helper {
						switch {
						case out == "" || out == "carry":
							if c.v2 && worked {
								return steps, stmts[n:], sc
							}
							steps = append(steps, ls("GStep.opaque", "return "+src(val)))
						case h.head == "GStep.guard" && h.args[1].head == "GOut.err":
							steps = append(steps, lh("GStep.guard", h.args[0], lh(out)))
						case h.head == "GStep.forEach" && h.args[2].head == "GOut.err":
							steps = append(steps, lh("GStep.forEach", h.args[0], h.args[1], lh(out)))
						default:
							steps = append(steps, ls("GStep.opaque", "helper step "+h.lean()))
						}
					}
					continue
				}
			}
			cond := c.cond(s.Cond, inner)
			// inside the body an error tested `!= nil` is not nil
			if be, ok := unparen(s.Cond).(*ast.BinaryExpr); ok && be.Op == token.NEQ && isNilIdent(be.Y) {
				if id, ok := unparen(be.X).(*ast.Ident); ok && inner[id.Name].kind == "errc" {
					inner[id.Name] = gsym{kind: "errnn"}
				}
			}
			out := c.outcome(val, inner, 0)
			if c.v2 && out == "carry" && cond.lean() == c.hasErrAtom() {
				// `if recv.Err != nil { return T{Err: recv.Err} }`
				out = "GOut.carryErr"
			}
			if c.v2 && worked && (out == "" || out == "carry" || cond.hasOpaque()) {
				// after work was stepped over, a guard that is not understood ends the prefix (it is counted as a late error)
				return steps, stmts[n:], sc
			}
			if out == "" || out == "carry" {
				steps = append(steps, ls("GStep.opaque", "return "+src(val)))
				continue
			}
			steps = append(steps, lh("GStep.guard", cond, lh(out)))
		case *ast.AssignStmt:
			if !c.define(s, sc) {
				if c.v2 && c.inert(s, sc, false) {
					c.skip(s, sc)
					worked = true
					continue
				}
				return steps, stmts[n:], sc
			}
		case *ast.RangeStmt:
			if c.v2 {
				more, ok := c.range2(s, sc)
				if !ok {
					return steps, stmts[n:], sc
				}
				if more == nil {
					c.skip(s, sc)
					worked = true
				}
				steps = append(steps, more...)
				continue
			}
			coll := c.collExpr(s.X, sc)
			if coll == "" || s.Tok != token.DEFINE {
				return steps, stmts[n:], sc
			}
			inner := sc.clone()
			var elem ast.Expr
			if coll == "GColl.dataKeys" {
				// a map: the key is the name
				if v, ok := s.Value.(*ast.Ident); s.Value != nil && (!ok || v.Name != "_") {
					return steps, stmts[n:], sc
				}
				elem = s.Key
			} else {
				if k, ok := s.Key.(*ast.Ident); s.Key != nil && (!ok || k.Name != "_") {
					return steps, stmts[n:], sc
				}
				elem = s.Value
			}
			id, ok := elem.(*ast.Ident)
			if !ok || id.Name == "_" {
				return steps, stmts[n:], sc
			}
			inner[id.Name] = gsym{kind: "name", role: "GRole.each"}
			body, rest, _ := c.chain(s.Body.List, inner)
			if len(rest) != 0 || len(body) == 0 {
				return steps, stmts[n:], sc
			}
			for _, b := range body {
				if b.head == "GStep.guard" {
					steps = append(steps, lh("GStep.forEach", lh(coll), b.args[0], b.args[1]))
				} else {
					steps = append(steps, ls("GStep.opaque", "in loop: "+b.lean()))
				}
			}
		case *ast.ReturnStmt:
			// the end of a function that was translated completely (`Equals`)
			if c.v2 && c.mode == "verdict" && n == len(stmts)-1 && c.depth == 0 && !c.inLoop {
				if v := c.retExpr(s.Results); v != nil {
					if out := c.outcome(v, sc, 0); out != "" {
						return append(steps, lh("GStep.done", lh(out))), nil, sc
					}
				}
			}
			return steps, stmts[n:], sc
		default:
			if c.v2 && c.inert(st, sc, false) {
				c.skip(st, sc)
				worked = true
				continue
			}
			return steps, stmts[n:], sc
		}
	}
	return steps, nil, sc
}

// function translates the guard prefix of fd under the scope sc and what follows it: a forwarding tail call is inlined,
// error returns after the prefix are counted.
func (c *gctx) function(name string, fd *ast.FuncDecl, sc gscope) []*lt {
	steps, rest, sc := c.chain(fd.Body.List, sc)
	if c.v2 {
		c.after2(rest, sc)
		return steps
	}
	if len(rest) == 1 && c.depth < 4 {
		if r, ok := rest[0].(*ast.ReturnStmt); ok && len(r.Results) == 1 {
			if call, ok := unparen(r.Results[0]).(*ast.CallExpr); ok {
				if sel, ok := call.Fun.(*ast.SelectorExpr); ok {
					if id, ok := unparen(sel.X).(*ast.Ident); ok && sc[id.Name].kind == "recv" {
						if callee, ok := c.root["QFrame."+sel.Sel.Name]; ok && returnsOnly(callee, "QFrame") {
							if out := c.outcome(call, sc, 0); out == "" {
								inner, forwarded := c.callScope(callee, call, sc)
								if forwarded {
									if name == "Copy" {
										c.roleOf[sel.Sel.Name] = "set"
									}
									c.depth++
									more := c.function(name, callee, inner)
									c.depth--
									return append(steps, more...)
								}
								c.tails = append(c.tails, sel.Sel.Name)
								return steps
							}
						}
					}
				}
			}
		}
	}
	for _, st := range rest {
		ast.Inspect(st, func(n ast.Node) bool {
			switch t := n.(type) {
			case *ast.FuncLit:
				return false
			case *ast.ReturnStmt:
				for _, v := range t.Results {
					// the scope of the prefix: locals of the rest are unknown, which errs on the side of counting
					if c.lateError(v, sc) {
						c.late++
					} else if callee := c.frameCall(v, sc); callee != "" && c.outcome(v, sc, 0) == "" {
						c.tails = append(c.tails, callee)
					}
				}
			}
			return true
		})
	}
	return steps
}

// the method of the frame that a call `qf.m(…)` on the receiver invokes, if it returns a frame
func (c *gctx) frameCall(e ast.Expr, sc gscope) string {
	call, ok := unparen(e).(*ast.CallExpr)
	if !ok {
		return ""
	}
	sel, ok := call.Fun.(*ast.SelectorExpr)
	if !ok {
		return ""
	}
	id, ok := unparen(sel.X).(*ast.Ident)
	if !ok || sc[id.Name].kind != "recv" {
		return ""
	}
	if fd, ok := c.root["QFrame."+sel.Sel.Name]; ok && returnsOnly(fd, "QFrame") {
		return sel.Sel.Name
	}
	return ""
}

// an error return after the prefix: `QFrame{Err: x}` with x not nil / not the receiver's error, or a call of a method
// that builds such a value (withErr)
func (c *gctx) lateError(e ast.Expr, sc gscope) bool {
	switch t := unparen(e).(type) {
	case *ast.CompositeLit:
		if t.Type == nil || !isQFrameType(t.Type) {
			return false
		}
		for _, el := range t.Elts {
			if kv, ok := el.(*ast.KeyValueExpr); ok {
				if k, ok := kv.Key.(*ast.Ident); ok && k.Name == c.errField {
					return !isNilIdent(kv.Value) && !c.recvField(kv.Value, sc, c.errField)
				}
			}
		}
		return false
	case *ast.CallExpr:
		sel, ok := t.Fun.(*ast.SelectorExpr)
		if !ok {
			return false
		}
		id, ok := unparen(sel.X).(*ast.Ident)
		if !ok || sc[id.Name].kind != "recv" {
			return false
		}
		fd, ok := c.root["QFrame."+sel.Sel.Name]
		if !ok || len(fd.Body.List) != 1 {
			return false
		}
		ret, ok := fd.Body.List[0].(*ast.ReturnStmt)
		if !ok || len(ret.Results) != 1 {
			return false
		}
		cl, ok := unparen(ret.Results[0]).(*ast.CompositeLit)
		if !ok || cl.Type == nil || !isQFrameType(cl.Type) {
			return false
		}
		inner := gscope{}
		for _, n := range fd.Recv.List[0].Names {
			inner[n.Name] = gsym{kind: "recv"}
		}
		return c.lateError(cl, inner)
	}
	return false
}

// the scope of an exported operation: parameters by type and position
func topScope(fd *ast.FuncDecl) gscope {
	sc := gscope{}
	if fd.Recv != nil && len(fd.Recv.List) == 1 && strings.TrimPrefix(src(fd.Recv.List[0].Type), "*") == "QFrame" {
		for _, n := range fd.Recv.List[0].Names {
			sc[n.Name] = gsym{kind: "recv"}
		}
	}
	ints, strs, colls, maps := 0, 0, 0, 0
	if fd.Type.Params == nil {
		return sc
	}
	for _, par := range fd.Type.Params.List {
		for _, n := range par.Names {
			s := gsym{kind: "unknown"}
			switch typ := src(par.Type); {
			case typ == "int":
				if ints < 2 {
					s = gsym{kind: "int", t: lh([]string{"GInt.start", "GInt.stop"}[ints])}
				}
				ints++
			case typ == "string":
				if strs < 2 {
					s = gsym{kind: "name", role: []string{"GRole.dst", "GRole.src"}[strs]}
				}
				strs++
			case typ == "...string" || typ == "[]string":
				if colls == 0 {
					s = gsym{kind: "coll", role: "GColl.columns"}
				}
				colls++
			case strings.HasPrefix(typ, "map[string]"):
				if maps == 0 {
					s = gsym{kind: "data"}
				}
				maps++
			}
			if n.Name != "_" {
				sc[n.Name] = s
			}
		}
	}
	return sc
}

// `func (qf QFrame) Len() int` as a list of IStep
func (c *gctx) lenSteps() []*lt {
	fd, ok := c.root["QFrame.Len"]
	if !ok {
		return []*lt{ls("IStep.opaque", "?missing")}
	}
	sc := topScope(fd)
	var out []*lt
	for _, st := range fd.Body.List {
		switch s := st.(type) {
		case *ast.ReturnStmt:
			if len(s.Results) == 1 {
				if v := c.intExpr(s.Results[0], sc); v != nil && v.head != "GInt.len" {
					return append(out, lh("IStep.ret", v))
				}
			}
		case *ast.IfStmt:
			if val := soleReturn(s.Body); val != nil && s.Init == nil && s.Else == nil {
				if v := c.intExpr(val, sc); v != nil && v.head != "GInt.len" {
					out = append(out, lh("IStep.guard", c.cond(s.Cond, sc), v))
					continue
				}
			}
		}
		return append(out, ls("IStep.opaque", src(st)))
	}
	return out
}

/* ---- the name check of internal/strings ---- */

type nctx struct {
	fns      map[string]*ast.FuncDecl
	stdAlias map[string]bool // import names of the standard package strings
	errAlias map[string]bool
}

func bytesTerm(s string) *lt {
	items := make([]*lt, len(s))
	for i := 0; i < len(s); i++ {
		items[i] = lh(strconv.Itoa(int(s[i])))
	}
	return ll(items)
}

func strLit(e ast.Expr) (string, bool) {
	bl, ok := unparen(e).(*ast.BasicLit)
	if !ok || bl.Kind != token.STRING {
		return "", false
	}
	v, err := strconv.Unquote(bl.Value)
	return v, err == nil
}

func isName(e ast.Expr, name string) bool {
	id, ok := unparen(e).(*ast.Ident)
	return ok && name != "" && name != "_" && id.Name == name
}

func (c *nctx) nint(e ast.Expr, name string) *lt {
	e = unparen(e)
	if bl, ok := e.(*ast.BasicLit); ok && bl.Kind == token.INT {
		if n, err := strconv.ParseUint(bl.Value, 0, 32); err == nil {
			return lh("NInt.lit", lh(strconv.FormatUint(n, 10)))
		}
	}
	if call, ok := e.(*ast.CallExpr); ok && len(call.Args) == 1 {
		if fn, ok := call.Fun.(*ast.Ident); ok && fn.Name == "len" && fn.Name != name && isName(call.Args[0], name) {
			return lh("NInt.len")
		}
	}
	return nil
}

func nnot(c *lt) *lt {
	if c.head == "NCond.not" {
		return c.args[0]
	}
	return lh("NCond.not", c)
}

func (c *nctx) cond(e ast.Expr, name string, depth int) *lt {
	bad := func() *lt { return ls("NCond.opaque", src(e)) }
	switch t := unparen(e).(type) {
	case *ast.UnaryExpr:
		if t.Op == token.NOT {
			return nnot(c.cond(t.X, name, depth))
		}
	case *ast.BinaryExpr:
		switch t.Op {
		case token.LOR:
			return lh("NCond.or", c.cond(t.X, name, depth), c.cond(t.Y, name, depth))
		case token.LAND:
			return lh("NCond.and", c.cond(t.X, name, depth), c.cond(t.Y, name, depth))
		case token.LSS, token.GTR, token.LEQ, token.GEQ, token.EQL, token.NEQ:
			if a, b := c.nint(t.X, name), c.nint(t.Y, name); a != nil && b != nil {
				switch t.Op {
				case token.LSS:
					return lh("NCond.lt", a, b)
				case token.GTR:
					return lh("NCond.lt", b, a)
				case token.LEQ:
					return lh("NCond.le", a, b)
				case token.GEQ:
					return lh("NCond.le", b, a)
				}
				if a.head == "NInt.lit" && b.head != "NInt.lit" {
					a, b = b, a
				}
				if t.Op == token.EQL {
					return lh("NCond.eqI", a, b)
				}
				return lh("NCond.not", lh("NCond.eqI", a, b))
			}
			// name == "" / name != ""
			if t.Op == token.EQL || t.Op == token.NEQ {
				x, y := t.X, t.Y
				if _, ok := strLit(x); ok {
					x, y = y, x
				}
				if v, ok := strLit(y); ok && v == "" && isName(x, name) {
					r := lh("NCond.eqI", lh("NInt.len"), lh("NInt.lit", lh("0")))
					if t.Op == token.NEQ {
						return lh("NCond.not", r)
					}
					return r
				}
			}
		}
	case *ast.CallExpr:
		switch fn := t.Fun.(type) {
		case *ast.SelectorExpr:
			if id, ok := fn.X.(*ast.Ident); ok && c.stdAlias[id.Name] && id.Name != name && len(t.Args) == 2 && isName(t.Args[0], name) {
				if v, ok := strLit(t.Args[1]); ok {
					switch fn.Sel.Name {
					case "HasPrefix":
						return lh("NCond.hasPrefix", bytesTerm(v))
					case "HasSuffix":
						return lh("NCond.hasSuffix", bytesTerm(v))
					}
				}
			}
		case *ast.Ident:
			// a bool helper of the package applied to the name (isQuoted): inlined
			fd, ok := c.fns[fn.Name]
			if !ok || fn.Name == name || depth > 4 || len(t.Args) != 1 || !isName(t.Args[0], name) || !returnsOnly(fd, "bool") {
				break
			}
			ps := paramNames(fd)
			if fd.Recv != nil || len(ps) != 1 || src(fd.Type.Params.List[0].Type) != "string" {
				break
			}
			if v := soleReturn(fd.Body); v != nil {
				return c.cond(v, ps[0], depth+1)
			}
		}
	}
	return bad()
}

// `func CheckName(name string) error` as a list of NStep
func (c *nctx) steps(fd *ast.FuncDecl) []*lt {
	ps := paramNames(fd)
	if fd.Recv != nil || len(ps) != 1 || src(fd.Type.Params.List[0].Type) != "string" || !returnsOnly(fd, "error") {
		return []*lt{ls("NStep.opaque", "signature")}
	}
	name := ps[0]
	g := &gctx{errAlias: c.errAlias, mode: "error"}
	var out []*lt
	for _, st := range fd.Body.List {
		switch s := st.(type) {
		case *ast.ReturnStmt:
			if len(s.Results) == 1 && isNilIdent(s.Results[0]) {
				return append(out, lh("NStep.accept"))
			}
		case *ast.IfStmt:
			if val := soleReturn(s.Body); val != nil && s.Init == nil && s.Else == nil && g.nonNilErr(val, gscope{name: gsym{kind: "unknown"}}) {
				out = append(out, lh("NStep.reject", c.cond(s.Cond, name, 0)))
				continue
			}
		}
		return append(out, ls("NStep.opaque", src(st)))
	}
	return out
}

// guardsLean renders QF/Gen/Guards.lean.
func guardsLean(rootFiles, strFiles map[string]*ast.File) string {
	c := newGctx(rootFiles, strFiles)
	ops := []struct{ name, key string }{{"Slice", "QFrame.Slice"}, {"Select", "QFrame.Select"}, {"Drop", "QFrame.Drop"}, {"Copy", "QFrame.Copy"}, {"New", "New"}}
	var chains, lates, tails []string
	for _, op := range ops {
		steps := []*lt{ls("GStep.opaque", "?missing")}
		c.late, c.tails, c.mode, c.depth = 0, nil, "frame", 0
		if fd, ok := c.root[op.key]; ok {
			steps = c.function(op.name, fd, topScope(fd))
		}
		items := make([]string, len(steps))
		for i, s := range steps {
			items[i] = "    " + s.lean()
		}
		chains = append(chains, fmt.Sprintf("  (%s, [\n%s])", leanStr(op.name), strings.Join(items, ",\n")))
		lates = append(lates, fmt.Sprintf("(%s, %d)", leanStr(op.name), c.late))
		for _, t := range c.tails {
			// the callee by role: one of the exported operations, or a helper
			callee := "helper"
			for _, o := range ops {
				if o.key == "QFrame."+t {
					callee = o.name
				}
			}
			tails = append(tails, fmt.Sprintf("(%s, %s)", leanStr(op.name), leanStr(callee)))
		}
	}
	lenItems := c.lenSteps()
	// the name check: the one function of internal/strings the guards call
	var checkers []string
	for n := range c.checkers {
		checkers = append(checkers, n)
	}
	sort.Strings(checkers)
	nameSteps := []*lt{ls("NStep.opaque", fmt.Sprintf("name checks called: %v", checkers))}
	if len(checkers) == 1 {
		// the standard package strings has exactly this import path
		n := &nctx{fns: c.strFns, stdAlias: map[string]bool{}, errAlias: importNames(strFiles, "/qerrors")}
		for _, f := range strFiles {
			for _, im := range f.Imports {
				if im.Path.Value == `"strings"` {
					name := "strings"
					if im.Name != nil {
						name = im.Name.Name
					}
					n.stdAlias[name] = true
				}
			}
		}
		nameSteps = n.steps(c.strFns[checkers[0]])
	}
	join := func(ts []*lt) string {
		items := make([]string, len(ts))
		for i, s := range ts {
			items[i] = "  " + s.lean()
		}
		return strings.Join(items, ",\n")
	}
	var b strings.Builder
	b.WriteString("/- GENERATED on every run by /verif/go/cmd/extract from /repo's source (tie T1). Do not edit. -/\nimport QF.Core.GExpr\nnamespace QF.Gen\n\n")
	b.WriteString("/-- the function of internal/strings that the guards of qframe.go call on a column name (`CheckName`, bool helpers inlined) -/\n")
	b.WriteString("def checkNameAst : List NStep := [\n" + join(nameSteps) + "]\n\n")
	b.WriteString("/-- `QFrame.Len` -/\ndef lenAst : List IStep := [\n" + join(lenItems) + "]\n\n")
	b.WriteString("/-- the guard prefix of the projection operations and of `New`, by role: (operation, steps) -/\n")
	b.WriteString("def guardAst : List (String × List GStep) := [\n" + strings.Join(chains, ",\n") + "]\n\n")
	b.WriteString("/-- number of error returns in the statements AFTER the translated prefix: (operation, count) -/\n")
	b.WriteString("def lateErrors : List (String × Nat) := [" + strings.Join(lates, ", ") + "]\n\n")
	b.WriteString("/-- `return qf.m(…)` of a frame method after the prefix that is not part of the chain (its arguments are computed, not the request's): (operation, callee: an exported operation, else `helper`) -/\n")
	b.WriteString("def openTails : List (String × String) := [" + strings.Join(tails, ", ") + "]\n\n")
	b.WriteString(c.guards2Lean())
	b.WriteString("end QF.Gen\n")
	return b.String()
}

/* ---- v2: the remaining public operations of qframe.go and grouper.go ----

   Sort · Distinct · GroupBy · Grouper.Aggregate · Grouper.QFrames · Apply (a loop without guards: its per-instruction
   dispatch, `applyAst`, and the three helpers it dispatches to) · FilteredApply · WithRowNums · Eval · Filter · the frame
   method clauses call with their leaf filters (`filterLeaf`) · Equals · ToCSV · ToJSON · ToSQL · ReadCSV · ReadJSON ·
   ReadSQL · ReadSQLWithArgs.

   Fixed vocabulary (exported API): the names of these operations, the struct types `Order`, `Aggregation`, `Instruction`,
   `filter.Filter` with their fields `Column`, `Fn`, `DstCol`, `SrcCol1`, `SrcCol2`, and `groupby.NewConfig(…).Columns`,
   `csv.NewToConfig(…).Columns`. Everything else — receivers, parameters, locals, struct fields of QFrame / Grouper /
   namedColumn, private methods — is found by type, position and use.

   Beyond the rules of the first half:
     - WORK: a statement that contains no `return`, no `goto` / label, no `break` / `continue` of an enclosing loop, no
       `panic(…)` and no assignment to (or `delete` from) the receiver is stepped over; the names it assigns lose their
       role. After work, a guard that is not understood ends the prefix instead of becoming `.opaque` (its error return is
       then counted in `lateErrors2`).
     - `if c { return … } else { work }` is the guard `c`.
     - `if pre { guards…; work } [else { work }]` gives `guardIf pre …` / `forEachIf pre …`.
     - a loop `for _, x := range coll { guards…; work }` is `forEach` per guard; if what follows the guards in the body has
       `return`s and ALL of them return an error, the guards become `forEachWork` and those returns are counted as late.
     - `for i := range coll { x := coll[i]; … }` is a loop over the elements of `coll`.
     - `for i, s := range qf.columns { o := other.columns[i]; … }` is `forEachPair`.
     - a function (no receiver): `…, err := <call>` of something outside the package makes `err != nil` the condition
       `extFails k` (k-th such call).
     - statements after the prefix: error returns are counted (`lateErrors2`), `return recv.m(…)` / `return F(…)` of a frame
       method / a function of the package are `openTails2`, frame methods called on anything but a parameter are
       `laterCalls`. */

func (c *gctx) scanStructs(rootFiles map[string]*ast.File, ixAlias map[string]bool) {
	types := map[string]*ast.StructType{}
	c.ifaces = map[string]*ast.InterfaceType{}
	for _, f := range rootFiles {
		for _, d := range f.Decls {
			gd, ok := d.(*ast.GenDecl)
			if !ok || gd.Tok != token.TYPE {
				continue
			}
			for _, sp := range gd.Specs {
				ts := sp.(*ast.TypeSpec)
				if st, ok := ts.Type.(*ast.StructType); ok {
					types[ts.Name.Name] = st
				}
				if it, ok := ts.Type.(*ast.InterfaceType); ok && it.Methods != nil {
					c.ifaces[ts.Name.Name] = it
				}
			}
		}
	}
	for name, st := range types {
		g := &gstruct{}
		for _, fl := range st.Fields.List {
			for _, n := range fl.Names {
				switch t := fl.Type.(type) {
				case *ast.Ident:
					if t.Name == "error" && g.errField == "" {
						g.errField = n.Name
					}
				case *ast.MapType:
					if k, ok := t.Key.(*ast.Ident); ok && k.Name == "string" && g.byName == "" {
						g.byName = n.Name
					}
				case *ast.SelectorExpr:
					if x, ok := t.X.(*ast.Ident); ok && ixAlias[x.Name] && t.Sel.Name == "Int" && g.indexField == "" {
						g.indexField = n.Name
					}
				case *ast.ArrayType:
					if el, ok := t.Elt.(*ast.Ident); ok && t.Len == nil && g.colsField == "" {
						if est, ok := types[el.Name]; ok {
							g.colsField = n.Name
							if name == "QFrame" {
								for _, ef := range est.Fields.List {
									if id, ok := ef.Type.(*ast.Ident); ok && id.Name == "string" && len(ef.Names) == 1 && c.elemName == "" {
										c.elemName = ef.Names[0].Name
									}
								}
							}
						}
					}
				}
			}
		}
		c.structs[name] = g
	}
	if st := c.structs["QFrame"]; st != nil {
		c.errField, c.byName, c.indexField = st.errField, st.byName, st.indexField
	}
}

func (c *gctx) hasErrAtom() string {
	if c.v2 && c.recvType == "Grouper" {
		return "GCond.grouperHasErr"
	}
	return "GCond.qfHasErr"
}

// is e the field `field` of the parameter of type QFrame (`other`)?
func (c *gctx) otherField(e ast.Expr, sc gscope, field string) bool {
	sel, ok := unparen(e).(*ast.SelectorExpr)
	if !ok || field == "" || sel.Sel.Name != field {
		return false
	}
	id, ok := unparen(sel.X).(*ast.Ident)
	return ok && sc[id.Name].kind == "other"
}

// `s.name` / `o.name` for the loop variable over qf.columns and the column of `other` at the same position
func (c *gctx) pairSide(e ast.Expr, sc gscope) string {
	sel, ok := unparen(e).(*ast.SelectorExpr)
	if !ok || sel.Sel.Name != c.elemName {
		return ""
	}
	if id, ok := unparen(sel.X).(*ast.Ident); ok {
		if k := sc[id.Name].kind; k == "pairL" || k == "pairR" {
			return k
		}
	}
	return ""
}

// `s.M(qf.index, o.X, other.index)`: the comparison of the two columns by the column code
func (c *gctx) isPairEquals(e ast.Expr, sc gscope) bool {
	call, ok := unparen(e).(*ast.CallExpr)
	if !ok || len(call.Args) != 3 {
		return false
	}
	sel, ok := call.Fun.(*ast.SelectorExpr)
	if !ok || sel.Sel.Name != "Equals" {
		return false
	}
	id, ok := unparen(sel.X).(*ast.Ident)
	if !ok || sc[id.Name].kind != "pairL" {
		return false
	}
	st := c.structs["QFrame"]
	if st == nil || !c.recvField(call.Args[0], sc, st.indexField) || !c.otherField(call.Args[2], sc, st.indexField) {
		return false
	}
	// the embedded interface value of the other column: `other.(Column)` in the column packages fails on anything else
	a1, ok := unparen(call.Args[1]).(*ast.SelectorExpr)
	if !ok || a1.Sel.Name != "Column" {
		return false
	}
	o, ok := unparen(a1.X).(*ast.Ident)
	return ok && sc[o.Name].kind == "pairR"
}

// the expression of a `return` that decides its outcome, by the kind of function
func (c *gctx) retExpr(rs []ast.Expr) ast.Expr {
	switch c.mode {
	case "pair":
		if len(rs) == 2 {
			return rs[1]
		}
	case "verdict":
		if len(rs) == 2 {
			return rs[0]
		}
	default:
		if len(rs) == 1 {
			return rs[0]
		}
	}
	return nil
}

func (c *gctx) soleRet(b *ast.BlockStmt) ast.Expr {
	if !c.v2 {
		return soleReturn(b)
	}
	if b == nil || len(b.List) != 1 {
		return nil
	}
	r, ok := b.List[0].(*ast.ReturnStmt)
	if !ok {
		return nil
	}
	return c.retExpr(r.Results)
}

func rootIdent(e ast.Expr) *ast.Ident {
	for {
		switch t := e.(type) {
		case *ast.Ident:
			return t
		case *ast.ParenExpr:
			e = t.X
		case *ast.SelectorExpr:
			e = t.X
		case *ast.IndexExpr:
			e = t.X
		case *ast.StarExpr:
			e = t.X
		case *ast.SliceExpr:
			e = t.X
		default:
			return nil
		}
	}
}

// inert reports whether n is work: see the comment at the head of this half. With errReturns, `return`s are allowed if
// every one of them returns an error; their number is added to *count.
func (c *gctx) inert(n ast.Node, sc gscope, errReturns bool, count ...*int) bool {
	ok := true
	isRecv := func(e ast.Expr) bool {
		id := rootIdent(e)
		return id != nil && sc[id.Name].kind == "recv"
	}
	var walk func(x ast.Node, inLoop bool)
	walk = func(x ast.Node, inLoop bool) {
		ast.Inspect(x, func(y ast.Node) bool {
			if !ok || y == nil {
				return false
			}
			switch t := y.(type) {
			case *ast.FuncLit:
				return false
			case *ast.ReturnStmt:
				if !errReturns || !c.isLateErr(t, sc) {
					ok = false
				} else if len(count) == 1 {
					*count[0]++
				}
			case *ast.LabeledStmt:
				ok = false
			case *ast.BranchStmt:
				if t.Tok == token.GOTO || t.Label != nil || !inLoop {
					ok = false
				}
			case *ast.ForStmt:
				if y != x {
					walk(t, true)
					return false
				}
			case *ast.RangeStmt:
				if y != x {
					walk(t, true)
					return false
				}
			case *ast.SwitchStmt, *ast.TypeSwitchStmt, *ast.SelectStmt:
				// `break` inside binds to it; `continue` would bind to an enclosing loop
				if y != x {
					sub := true
					ast.Inspect(y, func(z ast.Node) bool {
						if b, isB := z.(*ast.BranchStmt); isB && b.Tok == token.CONTINUE && !inLoop {
							sub = false
						}
						return true
					})
					if !sub {
						ok = false
					}
					walk(y, true)
					return false
				}
			case *ast.AssignStmt:
				for _, l := range t.Lhs {
					if isRecv(l) {
						ok = false
					}
				}
			case *ast.IncDecStmt:
				if isRecv(t.X) {
					ok = false
				}
			case *ast.CallExpr:
				if id, isId := t.Fun.(*ast.Ident); isId {
					if _, shadowed := sc[id.Name]; !shadowed {
						if id.Name == "panic" || (id.Name == "delete" && len(t.Args) > 0 && isRecv(t.Args[0])) {
							ok = false
						}
					}
				}
			}
			return ok
		})
	}
	_, isFor := n.(*ast.ForStmt)
	_, isRange := n.(*ast.RangeStmt)
	_, isSw := n.(*ast.SwitchStmt)
	_, isTsw := n.(*ast.TypeSwitchStmt)
	walk(n, isFor || isRange || isSw || isTsw)
	return ok
}

// forget removes the role of every name that the work n assigns or declares
func (c *gctx) forget(n ast.Node, sc gscope) {
	ast.Inspect(n, func(y ast.Node) bool {
		switch t := y.(type) {
		case *ast.FuncLit:
			return false
		case *ast.AssignStmt:
			for _, l := range t.Lhs {
				if id, ok := l.(*ast.Ident); ok && id.Name != "_" {
					if k := sc[id.Name].kind; k != "recv" && k != "frame" {
						sc[id.Name] = gsym{kind: "unknown"}
					}
				}
			}
		case *ast.ValueSpec:
			for _, id := range t.Names {
				sc[id.Name] = gsym{kind: "unknown"}
			}
		case *ast.RangeStmt:
			for _, e := range []ast.Expr{t.Key, t.Value} {
				if id, ok := e.(*ast.Ident); ok && id.Name != "_" && t.Tok == token.DEFINE {
					// the loop's own variables shadow only inside it; a role of the same name outside survives, which
					// is safe only if the body does not assign it — handled by the AssignStmt case
					_ = id
				}
			}
		}
		return true
	})
}

// is this `return` (after the prefix, or in the rest of a loop body) the return of an error?
func (c *gctx) isLateErr(r *ast.ReturnStmt, sc gscope) bool {
	v := c.retExpr(r.Results)
	if v == nil {
		return false
	}
	switch c.mode {
	case "error", "pair":
		return !isNilIdent(v)
	case "verdict":
		return false
	case "grouper":
		if cl, ok := unparen(v).(*ast.CompositeLit); ok {
			if id, ok := cl.Type.(*ast.Ident); ok && id.Name == "Grouper" {
				st := c.structs["Grouper"]
				for _, el := range cl.Elts {
					if kv, ok := el.(*ast.KeyValueExpr); ok {
						if k, ok := kv.Key.(*ast.Ident); ok && st != nil && k.Name == st.errField {
							return !isNilIdent(kv.Value)
						}
					}
				}
			}
		}
		return false
	}
	if c.recvType != "QFrame" {
		// a frame built by a method of another type: `QFrame{Err: x}`
		if cl, ok := unparen(v).(*ast.CompositeLit); ok && cl.Type != nil && isQFrameType(cl.Type) {
			st := c.structs["QFrame"]
			for _, el := range cl.Elts {
				if kv, ok := el.(*ast.KeyValueExpr); ok {
					if k, ok := kv.Key.(*ast.Ident); ok && st != nil && k.Name == st.errField {
						return !isNilIdent(kv.Value) && !c.recvField(kv.Value, sc, c.errField)
					}
				}
			}
		}
		return false
	}
	return c.lateError(v, sc)
}

// define2: the `:=` forms of the second half
func (c *gctx) define2(names []string, rhs ast.Expr, sc gscope) bool {
	set := func(i int, s gsym) {
		if names[i] != "_" {
			sc[names[i]] = s
		}
	}
	if len(names) == 1 {
		switch t := rhs.(type) {
		case *ast.CallExpr:
			sel, ok := t.Fun.(*ast.SelectorExpr)
			if !ok {
				break
			}
			id, ok := unparen(sel.X).(*ast.Ident)
			if !ok {
				break
			}
			if _, shadowed := sc[id.Name]; !shadowed {
				switch {
				case c.gbAlias[id.Name] && sel.Sel.Name == "NewConfig":
					set(0, gsym{kind: "config", role: "groupby"})
					return true
				case c.csvAlias[id.Name] && sel.Sel.Name == "NewToConfig":
					set(0, gsym{kind: "config", role: "csvto"})
					return true
				}
			}
			// `r := qf.Op(<parameters>)` for an exported frame operation
			if sc[id.Name].kind == "recv" && c.recvType == "QFrame" && ast.IsExported(sel.Sel.Name) {
				if fd, ok := c.root["QFrame."+sel.Sel.Name]; ok && returnsOnly(fd, "QFrame") {
					all := len(t.Args) > 0
					for _, a := range t.Args {
						aid, ok := unparen(a).(*ast.Ident)
						if !ok || sc[aid.Name].kind != "param" {
							all = false
						}
					}
					if all {
						set(0, gsym{kind: "sub", role: sel.Sel.Name})
						return true
					}
				}
			}
		case *ast.CompositeLit:
			// a value of the result type without an error
			if id, ok := t.Type.(*ast.Ident); ok && c.mode == "grouper" && id.Name == "Grouper" {
				st, qst := c.structs["Grouper"], c.structs["QFrame"]
				for _, el := range t.Elts {
					kv, ok := el.(*ast.KeyValueExpr)
					if !ok {
						return false
					}
					k, ok := kv.Key.(*ast.Ident)
					if !ok || st == nil || k.Name == st.errField {
						return false
					}
					if qst != nil && k.Name == st.byName && c.recvField(kv.Value, sc, qst.byName) {
						c.sharesNames = true
					}
				}
				set(0, gsym{kind: "okval"})
				return true
			}
		case *ast.IndexExpr:
			// `x := coll[i]` in a loop over the indices of coll; `o := other.columns[i]` in the loop over qf.columns
			if ix, ok := unparen(t.Index).(*ast.Ident); ok {
				switch s := sc[ix.Name]; {
				case s.kind == "idx" && c.collExpr(t.X, sc) == s.role:
					set(0, gsym{kind: "name", role: "GRole.each"})
					return true
				case s.kind == "pidx" && c.structs["QFrame"] != nil && c.otherField(t.X, sc, c.structs["QFrame"].colsField):
					set(0, gsym{kind: "pairR"})
					return true
				}
			}
		}
		return false
	}
	// `…, err := <call outside the package>` in a function without receiver
	if call, ok := rhs.(*ast.CallExpr); ok && c.recvType == "" {
		external := false
		if sel, ok := call.Fun.(*ast.SelectorExpr); ok {
			if id, ok := unparen(sel.X).(*ast.Ident); ok {
				external = true
				_ = id
			}
		}
		if external {
			for i := range names {
				set(i, gsym{kind: "unknown"})
			}
			set(len(names)-1, gsym{kind: "errc", t: lh("GCond.extFails", lh(strconv.Itoa(c.extN)))})
			c.extN++
			return true
		}
	}
	return false
}

// `if r.Err != nil { return r }` for r := qf.Op(…): the operation's name
func (c *gctx) subFailsGuard(s *ast.IfStmt, sc gscope) string {
	if s.Init != nil || s.Else != nil || c.mode != "frame" {
		return ""
	}
	be, ok := unparen(s.Cond).(*ast.BinaryExpr)
	if !ok || be.Op != token.NEQ || !isNilIdent(be.Y) {
		return ""
	}
	sel, ok := unparen(be.X).(*ast.SelectorExpr)
	st := c.structs["QFrame"]
	if !ok || st == nil || sel.Sel.Name != st.errField {
		return ""
	}
	id, ok := unparen(sel.X).(*ast.Ident)
	if !ok || sc[id.Name].kind != "sub" {
		return ""
	}
	v := c.soleRet(s.Body)
	if v == nil {
		return ""
	}
	if rid, ok := unparen(v).(*ast.Ident); ok && rid.Name == id.Name {
		return sc[id.Name].role
	}
	return ""
}

// `if pre { guards…; work } [else { work }]`
func (c *gctx) condBlock(s *ast.IfStmt, sc gscope) ([]*lt, bool) {
	if s.Init != nil {
		return nil, false
	}
	if s.Else != nil && !c.inert(s.Else, sc, false) {
		return nil, false
	}
	pre := c.cond(s.Cond, sc)
	if pre.hasOpaque() {
		return nil, false
	}
	c.depth++
	body, rest, _ := c.chain(s.Body.List, sc)
	c.depth--
	if len(rest) != 0 || len(body) == 0 {
		return nil, false
	}
	var out []*lt
	for _, b := range body {
		switch b.head {
		case "GStep.guard":
			out = append(out, lh("GStep.guardIf", pre, b.args[0], b.args[1]))
		case "GStep.forEach":
			out = append(out, lh("GStep.forEachIf", pre, b.args[0], b.args[1], b.args[2]))
		default:
			return nil, false
		}
	}
	c.skip(s, sc)
	return out, true
}

// range2 translates a loop. (nil, true): the loop is work.
func (c *gctx) range2(s *ast.RangeStmt, sc gscope) ([]*lt, bool) {
	work := func() ([]*lt, bool) {
		if c.inert(s, sc, false) {
			return nil, true
		}
		return nil, false
	}
	if s.Tok != token.DEFINE {
		return work()
	}
	ident := func(e ast.Expr) string {
		if e == nil {
			return "_"
		}
		if id, ok := e.(*ast.Ident); ok {
			return id.Name
		}
		return ""
	}
	key, val := ident(s.Key), ident(s.Value)
	if key == "" || val == "" {
		return work()
	}
	inner := sc.clone()
	coll, pair := c.collExpr(s.X, sc), false
	switch {
	case coll == "GColl.dataKeys":
		if val != "_" || key == "_" {
			return work()
		}
		inner[key] = gsym{kind: "name", role: "GRole.each"}
	case coll != "":
		structs := false
		if id, ok := unparen(s.X).(*ast.Ident); ok && sc[id.Name].kind == "scoll" {
			structs = true
		}
		switch {
		case key == "_" && val != "_" && structs:
			inner[val] = gsym{kind: "elem", role: coll}
		case key == "_" && val != "_":
			inner[val] = gsym{kind: "name", role: "GRole.each"}
		case key != "_" && val == "_" && !structs:
			inner[key] = gsym{kind: "idx", role: coll}
		default:
			return work()
		}
	case c.recvType == "QFrame" && c.structs["QFrame"] != nil && c.recvField(s.X, sc, c.structs["QFrame"].colsField) && key != "_" && val != "_" && c.mode == "verdict":
		pair = true
		inner[key] = gsym{kind: "pidx"}
		inner[val] = gsym{kind: "pairL"}
	default:
		return work()
	}
	c.depth++
	wasLoop := c.inLoop
	c.inLoop = true
	body, rest, rsc := c.chain(s.Body.List, inner)
	c.inLoop = wasLoop
	c.depth--
	if len(body) == 0 {
		return work()
	}
	head := "GStep.forEach"
	if len(rest) != 0 {
		// more returns in the body: all of them must return an error
		n := 0
		for _, st := range rest {
			if !c.inert(st, rsc, true, &n) {
				return nil, false
			}
		}
		if pair {
			return nil, false
		}
		head = "GStep.forEachWork"
		c.late += n
	}
	var out []*lt
	for _, b := range body {
		if b.head != "GStep.guard" {
			return nil, false
		}
		switch {
		case pair:
			out = append(out, lh("GStep.forEachPair", b.args[0], b.args[1]))
		case head == "GStep.forEachWork" && b.args[1].head != "GOut.err":
			return nil, false
		default:
			out = append(out, lh(head, lh(coll), b.args[0], b.args[1]))
		}
	}
	return out, true
}

func (c *gctx) label(method string) string {
	if r, ok := c.roleOf[method]; ok {
		return r
	}
	if ast.IsExported(method) {
		return method
	}
	return "helper"
}

// skip steps over the work st: the names it assigns lose their role, locals that hold frames are tracked, frame methods it
// calls are recorded
func (c *gctx) skip(st ast.Node, sc gscope) {
	c.forget(st, sc)
	c.noteCalls(st, sc)
}

// does e denote a frame: the receiver, a local that holds one, a frame method called on one?
func (c *gctx) isFrame(e ast.Expr, sc gscope) bool {
	switch t := unparen(e).(type) {
	case *ast.Ident:
		k := sc[t.Name].kind
		return (k == "recv" && c.recvType == "QFrame") || k == "frame" || k == "sub" || k == "other"
	case *ast.CallExpr:
		if sel, ok := t.Fun.(*ast.SelectorExpr); ok && c.isFrame(sel.X, sc) {
			fd, ok := c.root["QFrame."+sel.Sel.Name]
			return ok && returnsOnly(fd, "QFrame")
		}
	}
	return false
}

// which results of `p.m(…)` are frames, for a parameter p whose type is an interface of the package
func (c *gctx) ifaceResults(call *ast.CallExpr, sc gscope) []bool {
	sel, ok := call.Fun.(*ast.SelectorExpr)
	if !ok {
		return nil
	}
	id, ok := unparen(sel.X).(*ast.Ident)
	if !ok || sc[id.Name].kind != "param" {
		return nil
	}
	it, ok := c.ifaces[sc[id.Name].role]
	if !ok {
		return nil
	}
	for _, m := range it.Methods.List {
		ft, ok := m.Type.(*ast.FuncType)
		if !ok || len(m.Names) != 1 || m.Names[0].Name != sel.Sel.Name || ft.Results == nil {
			continue
		}
		var res []bool
		for _, r := range ft.Results.List {
			k := len(r.Names)
			if k == 0 {
				k = 1
			}
			for i := 0; i < k; i++ {
				res = append(res, isQFrameType(r.Type))
			}
		}
		return res
	}
	return nil
}

// noteCalls records the frame methods called on frames inside n (in source order) and tracks the locals that hold frames
func (c *gctx) noteCalls(n ast.Node, sc gscope) {
	ast.Inspect(n, func(y ast.Node) bool {
		switch t := y.(type) {
		case *ast.FuncLit:
			return false
		case *ast.AssignStmt:
			for _, r := range t.Rhs {
				c.noteCalls(r, sc)
			}
			for _, l := range t.Lhs {
				if _, isId := l.(*ast.Ident); !isId {
					c.noteCalls(l, sc)
				}
			}
			mark := func(l ast.Expr, frame bool) {
				if id, ok := l.(*ast.Ident); ok && id.Name != "_" && sc[id.Name].kind != "recv" {
					if frame {
						sc[id.Name] = gsym{kind: "frame"}
					} else if sc[id.Name].kind == "frame" {
						sc[id.Name] = gsym{kind: "unknown"}
					}
				}
			}
			switch {
			case len(t.Lhs) == len(t.Rhs):
				for i, l := range t.Lhs {
					mark(l, c.isFrame(t.Rhs[i], sc))
				}
			case len(t.Rhs) == 1:
				var res []bool
				if call, ok := unparen(t.Rhs[0]).(*ast.CallExpr); ok {
					res = c.ifaceResults(call, sc)
				}
				for i, l := range t.Lhs {
					mark(l, i < len(res) && res[i])
				}
			}
			return false
		case *ast.CallExpr:
			if sel, ok := t.Fun.(*ast.SelectorExpr); ok && c.isFrame(sel.X, sc) {
				if fd, ok := c.root["QFrame."+sel.Sel.Name]; ok && returnsOnly(fd, "QFrame") {
					if id, isId := unparen(sel.X).(*ast.Ident); !isId || sc[id.Name].kind != "recv" || c.mode != "frame" || (c.outcome(t, sc, 0) == "" && !c.lateError(t, sc)) {
						c.calls = append(c.calls, c.label(sel.Sel.Name))
					}
				}
			}
		}
		return true
	})
}

// after2 looks at the statements after the prefix: late errors, tails, later calls
func (c *gctx) after2(rest []ast.Stmt, sc gscope) {
	for _, st := range rest {
		c.noteCalls(st, sc)
		ast.Inspect(st, func(n ast.Node) bool {
			switch t := n.(type) {
			case *ast.FuncLit:
				return false
			case *ast.ReturnStmt:
				if c.isLateErr(t, sc) {
					c.late++
				}
				if v := c.retExpr(t.Results); v != nil {
					if call, ok := unparen(v).(*ast.CallExpr); ok {
						switch f := call.Fun.(type) {
						case *ast.SelectorExpr:
							if id, ok := unparen(f.X).(*ast.Ident); ok {
								switch sc[id.Name].kind {
								case "recv":
									if fd, ok := c.root[c.recvType+"."+f.Sel.Name]; ok && returnsOnly(fd, "QFrame") && c.outcome(v, sc, 0) == "" && !c.lateError(v, sc) {
										c.tails = append(c.tails, c.label(f.Sel.Name))
									}
								case "param":
									c.tails = append(c.tails, "parameter")
								}
							}
						case *ast.Ident:
							if fd, ok := c.root[f.Name]; ok && fd.Recv == nil {
								if _, shadowed := sc[f.Name]; !shadowed {
									c.tails = append(c.tails, c.label(f.Name))
								}
							}
						}
					}
				}
			}
			return true
		})
	}
}

// topScope2: parameters by type and position, for the second half
func (c *gctx) topScope2(fd *ast.FuncDecl) gscope {
	sc := topScope(fd)
	if fd.Recv != nil && len(fd.Recv.List) == 1 {
		for _, n := range fd.Recv.List[0].Names {
			sc[n.Name] = gsym{kind: "recv"}
		}
	}
	if fd.Type.Params == nil {
		return sc
	}
	strs := 0
	seen := map[string]bool{}
	for _, par := range fd.Type.Params.List {
		typ := src(par.Type)
		for _, n := range par.Names {
			if n.Name == "_" {
				continue
			}
			s := sc[n.Name]
			role := ""
			switch {
			case typ == "string":
				if strs == 2 {
					s = gsym{kind: "name", role: "GRole.src2"}
				}
				strs++
			case typ == "...Order":
				role = "GColl.orderCols"
			case typ == "...Aggregation":
				role = "GColl.aggCols"
			case typ == "QFrame":
				if !seen["other"] {
					s = gsym{kind: "other"}
					seen["other"] = true
				}
			case strings.HasPrefix(typ, "..."):
				if sel, ok := par.Type.(*ast.Ellipsis); ok {
					if se, ok := sel.Elt.(*ast.SelectorExpr); ok {
						if id, ok := se.X.(*ast.Ident); ok && c.filterAlias[id.Name] && se.Sel.Name == "Filter" {
							role = "GColl.filterCols"
						}
					}
				}
			}
			if role != "" && !seen[role] {
				s = gsym{kind: "scoll", role: role}
				seen[role] = true
			}
			if s.kind == "unknown" || s.kind == "" {
				s = gsym{kind: "param", role: typ}
			}
			sc[n.Name] = s
		}
	}
	return sc
}

var instrFields = map[string]string{"Fn": "IField.fn", "DstCol": "IField.dst", "SrcCol1": "IField.src1", "SrcCol2": "IField.src2"}

// applyLean translates `func (qf QFrame) Apply(instructions ...Instruction) QFrame` and finds the helpers it dispatches to.
func (c *gctx) applyLean() (string, map[int]string) {
	helpers := map[int]string{}
	bad := func(why string) (string, map[int]string) {
		return "{ accFromRecv := false, disp := IDisp.opaque " + leanStr(why) + ", returnsAcc := false }", map[int]string{}
	}
	fd, ok := c.root["QFrame.Apply"]
	if !ok || fd.Recv == nil || len(fd.Recv.List[0].Names) != 1 || !returnsOnly(fd, "QFrame") {
		return bad("?missing")
	}
	recv := fd.Recv.List[0].Names[0].Name
	ps := paramNames(fd)
	if len(ps) != 1 || src(fd.Type.Params.List[0].Type) != "...Instruction" {
		return bad("signature")
	}
	instrs := ps[0]
	body := fd.Body.List
	if len(body) != 3 {
		return bad(stmtsText(body))
	}
	acc := ""
	if as, ok := body[0].(*ast.AssignStmt); ok && as.Tok == token.DEFINE && len(as.Lhs) == 1 && len(as.Rhs) == 1 {
		if l, ok := as.Lhs[0].(*ast.Ident); ok && isName(as.Rhs[0], recv) {
			acc = l.Name
		}
	}
	returnsAcc := false
	if r, ok := body[2].(*ast.ReturnStmt); ok && len(r.Results) == 1 && isName(r.Results[0], acc) {
		returnsAcc = true
	}
	rs, ok := body[1].(*ast.RangeStmt)
	if !ok || rs.Tok != token.DEFINE || !isName(rs.X, instrs) || rs.Value == nil || acc == instrs {
		return bad(src(body[1]))
	}
	if k, ok := rs.Key.(*ast.Ident); rs.Key != nil && (!ok || k.Name != "_") {
		return bad(src(body[1]))
	}
	elem, ok := rs.Value.(*ast.Ident)
	if !ok || elem.Name == "_" || elem.Name == acc {
		return bad(src(body[1]))
	}
	field := func(e ast.Expr) string {
		sel, ok := unparen(e).(*ast.SelectorExpr)
		if !ok || !isName(sel.X, elem.Name) {
			return ""
		}
		return instrFields[sel.Sel.Name]
	}
	conflict := false
	var disp func(st ast.Stmt) *lt
	block := func(b *ast.BlockStmt) *lt {
		if b == nil || len(b.List) != 1 {
			return ls("IDisp.opaque", "block")
		}
		return disp(b.List[0])
	}
	disp = func(st ast.Stmt) *lt {
		switch t := st.(type) {
		case *ast.BlockStmt:
			return block(t)
		case *ast.IfStmt:
			be, ok := unparen(t.Cond).(*ast.BinaryExpr)
			if t.Init != nil || !ok || (be.Op != token.EQL && be.Op != token.NEQ) || t.Else == nil {
				return ls("IDisp.opaque", src(t.Cond))
			}
			x, y := be.X, be.Y
			if v, ok := strLit(x); ok && v == "" {
				x, y = y, x
			}
			f := field(x)
			if v, ok := strLit(y); !ok || v != "" || f == "" || f == "IField.fn" {
				return ls("IDisp.opaque", src(t.Cond))
			}
			th, el := block(t.Body), disp(t.Else)
			if be.Op == token.NEQ {
				th, el = el, th
			}
			return lh("IDisp.ifEmpty", lh(f), th, el)
		case *ast.AssignStmt:
			if t.Tok != token.ASSIGN || len(t.Lhs) != 1 || len(t.Rhs) != 1 || !isName(t.Lhs[0], acc) {
				return ls("IDisp.opaque", src(t))
			}
			call, ok := unparen(t.Rhs[0]).(*ast.CallExpr)
			if !ok {
				return ls("IDisp.opaque", src(t))
			}
			sel, ok := call.Fun.(*ast.SelectorExpr)
			if !ok || !isName(sel.X, acc) {
				return ls("IDisp.opaque", src(t))
			}
			h, ok := c.root["QFrame."+sel.Sel.Name]
			if !ok || !returnsOnly(h, "QFrame") || h.Type.Params == nil {
				return ls("IDisp.opaque", src(t))
			}
			// the helper's signature: (fn, dstCol, srcCol…)
			var ptypes []string
			for _, par := range h.Type.Params.List {
				for range par.Names {
					ptypes = append(ptypes, src(par.Type))
				}
			}
			if len(ptypes) < 2 || ptypes[0] == "string" || len(ptypes) != len(call.Args) {
				return ls("IDisp.opaque", src(t))
			}
			for _, pt := range ptypes[1:] {
				if pt != "string" {
					return ls("IDisp.opaque", src(t))
				}
			}
			srcs := len(ptypes) - 2
			args := make([]*lt, len(call.Args))
			for i, a := range call.Args {
				f := field(a)
				if f == "" {
					return ls("IDisp.opaque", src(t))
				}
				args[i] = lh(f)
			}
			if prev, ok := helpers[srcs]; ok && prev != sel.Sel.Name {
				conflict = true
			}
			helpers[srcs] = sel.Sel.Name
			return lh("IDisp.call", lh(strconv.Itoa(srcs)), ll(args))
		}
		return ls("IDisp.opaque", src(st))
	}
	d := block(rs.Body)
	if conflict {
		return bad("two helpers with the same signature")
	}
	b2s := func(b bool) string {
		if b {
			return "true"
		}
		return "false"
	}
	return "{ accFromRecv := " + b2s(acc != "") + ", disp := " + d.lean() + ", returnsAcc := " + b2s(returnsAcc) + " }", helpers
}

// rowNumsLean: the `Instruction{…}` literals `WithRowNums` passes to `Apply`
func (c *gctx) rowNumsLean() string {
	fd, ok := c.root["QFrame.WithRowNums"]
	if !ok || len(fd.Body.List) == 0 {
		return "none"
	}
	sc := c.topScope2(fd)
	last, ok := fd.Body.List[len(fd.Body.List)-1].(*ast.ReturnStmt)
	if !ok || len(last.Results) != 1 {
		return "none"
	}
	c.v2, c.recvType, c.mode = true, "QFrame", "frame"
	for _, st := range fd.Body.List[:len(fd.Body.List)-1] {
		if !c.inert(st, sc, false) {
			return "none"
		}
	}
	call, ok := unparen(last.Results[0]).(*ast.CallExpr)
	if !ok {
		return "none"
	}
	sel, ok := call.Fun.(*ast.SelectorExpr)
	if !ok || sel.Sel.Name != "Apply" {
		return "none"
	}
	if id, ok := unparen(sel.X).(*ast.Ident); !ok || sc[id.Name].kind != "recv" {
		return "none"
	}
	var items []string
	for _, a := range call.Args {
		cl, ok := unparen(a).(*ast.CompositeLit)
		if !ok || cl.Type == nil || src(cl.Type) != "Instruction" {
			return "none"
		}
		dst, s1, s2, fn := "none", "false", "false", "false"
		for _, el := range cl.Elts {
			kv, ok := el.(*ast.KeyValueExpr)
			if !ok {
				return "none"
			}
			k, ok := kv.Key.(*ast.Ident)
			if !ok {
				return "none"
			}
			switch k.Name {
			case "DstCol":
				r := c.nameExpr(kv.Value, sc)
				if r == "" {
					return "none"
				}
				dst = "(some " + r + ")"
			case "SrcCol1":
				s1 = "true"
			case "SrcCol2":
				s2 = "true"
			case "Fn":
				if _, ok := unparen(kv.Value).(*ast.FuncLit); ok {
					fn = "true"
				}
			default:
				return "none"
			}
		}
		items = append(items, "{ dst := "+dst+", src1Set := "+s1+", src2Set := "+s2+", fnIsFuncLit := "+fn+" }")
	}
	return "some [" + strings.Join(items, ", ") + "]"
}

// guards2Lean renders the definitions of the second half.
func (c *gctx) guards2Lean() string {
	applyTerm, helpers := c.applyLean()
	for k, name := range helpers {
		c.roleOf[name] = "apply" + strconv.Itoa(k)
	}
	// the frame method that takes the leaf filters of a clause
	leaf := ""
	var names []string
	for n := range c.root {
		names = append(names, n)
	}
	sort.Strings(names)
	for _, n := range names {
		fd := c.root[n]
		if !strings.HasPrefix(n, "QFrame.") || fd.Type.Params == nil || len(fd.Type.Params.List) != 1 || !returnsOnly(fd, "QFrame") {
			continue
		}
		if el, ok := fd.Type.Params.List[0].Type.(*ast.Ellipsis); ok {
			if se, ok := el.Elt.(*ast.SelectorExpr); ok {
				if id, ok := se.X.(*ast.Ident); ok && c.filterAlias[id.Name] && se.Sel.Name == "Filter" {
					if leaf != "" {
						leaf = "?"
					} else {
						leaf = n
					}
				}
			}
		}
	}
	if leaf != "" && leaf != "?" {
		c.roleOf[strings.TrimPrefix(leaf, "QFrame.")] = "filterLeaf"
	}
	helperKey := func(k int) string {
		if n, ok := helpers[k]; ok {
			return "QFrame." + n
		}
		return "?"
	}
	ops := []struct{ name, key string }{
		{"Sort", "QFrame.Sort"}, {"Distinct", "QFrame.Distinct"}, {"GroupBy", "QFrame.GroupBy"},
		{"Aggregate", "Grouper.Aggregate"}, {"QFrames", "Grouper.QFrames"},
		{"apply0", helperKey(0)}, {"apply1", helperKey(1)}, {"apply2", helperKey(2)},
		{"FilteredApply", "QFrame.FilteredApply"}, {"WithRowNums", "QFrame.WithRowNums"}, {"Eval", "QFrame.Eval"},
		{"Filter", "QFrame.Filter"}, {"filterLeaf", leaf}, {"Equals", "QFrame.Equals"},
		{"ToCSV", "QFrame.ToCSV"}, {"ToJSON", "QFrame.ToJSON"}, {"ToSQL", "QFrame.ToSQL"},
		{"ReadCSV", "ReadCSV"}, {"ReadJSON", "ReadJSON"}, {"ReadSQL", "ReadSQL"}, {"ReadSQLWithArgs", "ReadSQLWithArgs"}}
	var chains, lates, tails, calls []string
	for _, op := range ops {
		steps := []*lt{ls("GStep.opaque", "?missing")}
		c.late, c.tails, c.calls, c.depth, c.extN, c.v2, c.inLoop = 0, nil, nil, 0, 0, true, false
		if fd, ok := c.root[op.key]; ok {
			c.recvType, c.mode = "", ""
			if fd.Recv != nil && len(fd.Recv.List) == 1 {
				c.recvType = strings.TrimPrefix(src(fd.Recv.List[0].Type), "*")
			}
			var res []string
			if fd.Type.Results != nil {
				for _, r := range fd.Type.Results.List {
					k := len(r.Names)
					if k == 0 {
						k = 1
					}
					for i := 0; i < k; i++ {
						res = append(res, src(r.Type))
					}
				}
			}
			switch strings.Join(res, ",") {
			case "QFrame":
				c.mode = "frame"
			case "error":
				c.mode = "error"
			case "Grouper":
				c.mode = "grouper"
			case "[]QFrame,error":
				c.mode = "pair"
			case "bool,string":
				c.mode = "verdict"
			}
			st := c.structs[c.recvType]
			if c.recvType == "" {
				st = c.structs["QFrame"]
			}
			if c.mode != "" && st != nil {
				c.errField, c.byName, c.indexField = st.errField, st.byName, st.indexField
				steps = c.function(op.name, fd, c.topScope2(fd))
				if steps == nil {
					steps = []*lt{}
				}
			}
		}
		items := make([]string, len(steps))
		for i, s := range steps {
			items[i] = "    " + s.lean()
		}
		if len(items) == 0 {
			chains = append(chains, fmt.Sprintf("  (%s, [])", leanStr(op.name)))
		} else {
			chains = append(chains, fmt.Sprintf("  (%s, [\n%s])", leanStr(op.name), strings.Join(items, ",\n")))
		}
		lates = append(lates, fmt.Sprintf("(%s, %d)", leanStr(op.name), c.late))
		for _, t := range c.tails {
			tails = append(tails, fmt.Sprintf("(%s, %s)", leanStr(op.name), leanStr(t)))
		}
		if len(c.calls) > 0 {
			qs := make([]string, len(c.calls))
			for i, x := range c.calls {
				qs[i] = leanStr(x)
			}
			calls = append(calls, fmt.Sprintf("(%s, [%s])", leanStr(op.name), strings.Join(qs, ", ")))
		}
	}
	rowNums := c.rowNumsLean()
	if st := c.structs["QFrame"]; st != nil {
		c.errField, c.byName, c.indexField = st.errField, st.byName, st.indexField
	}
	c.v2 = false
	var b strings.Builder
	b.WriteString("/-- the guard prefix of the remaining operations of qframe.go and grouper.go, by role: (operation, steps). `apply0`…`apply2` are the frame methods `Apply` dispatches to, named by their number of source columns; `filterLeaf` is the frame method that takes the leaf filters of a clause -/\n")
	b.WriteString("def guardAst2 : List (String × List GStep) := [\n" + strings.Join(chains, ",\n") + "]\n\n")
	b.WriteString("/-- number of error returns AFTER the translated prefix (for a `forEachWork` loop: in the rest of its body): (operation, count) -/\n")
	b.WriteString("def lateErrors2 : List (String × Nat) := [" + strings.Join(lates, ", ") + "]\n\n")
	b.WriteString("/-- `return recv.m(…)` / `return F(…)` / `return <parameter>.m(…)` after the prefix: (operation, callee by role: an exported name, `set`, `apply0`…, `filterLeaf`, `parameter`, else `helper`) -/\n")
	b.WriteString("def openTails2 : List (String × String) := [" + strings.Join(tails, ", ") + "]\n\n")
	b.WriteString("/-- frame methods called after the prefix on anything but a parameter, in source order: (operation, callees by role) -/\n")
	b.WriteString("def laterCalls : List (String × List String) := [" + strings.Join(calls, ", ") + "]\n\n")
	b.WriteString("/-- `QFrame.Apply`: a loop without guards -/\ndef applyAst : ApplyAst :=\n  " + applyTerm + "\n\n")
	b.WriteString("/-- the instructions `WithRowNums` passes to `Apply` -/\ndef rowNumsAst : Option (List InstrLit) := " + rowNums + "\n\n")
	sh := "false"
	if c.sharesNames {
		sh = "true"
	}
	b.WriteString("/-- `GroupBy` builds its `Grouper` with the receiver's name map, so `Aggregate` checks its columns against the frame's -/\ndef grouperSharesNames : Bool := " + sh + "\n\n")
	return b.String()
}
