package main

// faast.go — the REST of Apply (tie T1 for C06 / C01): `QFrame.FilteredApply` and `QFrame.WithRowNums` of qframe.go as
// terms of QF.FAStm (frames as values: struct copy, assignment of the index field, the calls of Filter and Apply), the
// built-in functions that `Column.Apply1` of the string and enum column packages hands a `string` function value to
// (found through the package-level map the `case string:` of the type switch consults) as terms of QF.SUFn / QF.EUFn
// (QF/Core/FAExpr.lean). Written to QF/Gen/FApply.lean on every run.
//
// Things are found by ROLE: the index / error field of the frame struct and the pointer / data / value-table fields of
// the column structs by their TYPES, parameters by their types, locals by what they are made of (`make([]T, …)`), the
// helper `stringAt` by the shape of its body, `NewBytes` by inlining its composite literal. Exported names of the public
// API (`Filter`, `Apply`, `FilteredApply`, `WithRowNums`, the fields of `Instruction`) and of internal/strings (`ToUpper`,
// `NewPointer`, `Pointer.IsNull/Offset/Len`) are fixed vocabulary. Whatever is not understood becomes `.opaque "<text>"`.

import (
	"fmt"
	"go/ast"
	"go/token"
	"path/filepath"
	"strconv"
	"strings"
)

// ---------------------------------------------------------------------------------------------------------------------
// Part A: FilteredApply, WithRowNums

type faCtx struct {
	fns        map[string]*ast.FuncDecl
	imports    map[string]string
	recvType   string
	indexField string
	errField   string
}

type faScope struct {
	recv        string
	locals      map[string]int
	clauseParam string
	clauseType  string
	instrParam  string
	instrType   string
	strParam    string
	ints        map[string]int64
	body        *ast.BlockStmt
}

func faOp(kind string, n ast.Node) string { return kind + ".opaque " + leanStr(src(n)) }

// an integer literal, possibly negated
func faIntLit(e ast.Expr) (int64, bool) {
	e = unparen(e)
	neg := false
	if u, ok := e.(*ast.UnaryExpr); ok && u.Op == token.SUB {
		neg = true
		e = unparen(u.X)
	}
	bl, ok := e.(*ast.BasicLit)
	if !ok || bl.Kind != token.INT {
		return 0, false
	}
	n, err := strconv.ParseInt(bl.Value, 0, 64)
	if err != nil {
		return 0, false
	}
	if neg {
		n = -n
	}
	return n, true
}

// a non-negative integer literal, as Lean text
func faNatLit(e ast.Expr) (string, bool) {
	n, ok := faIntLit(e)
	if !ok || n < 0 {
		return "", false
	}
	return strconv.FormatInt(n, 10), true
}

func newFaCtx(root map[string]*ast.File) *faCtx {
	c := &faCtx{fns: funcDecls(root), imports: importsOf(root)}
	fd, ok := c.fns["QFrame.FilteredApply"]
	if !ok {
		return c
	}
	c.recvType = strings.TrimPrefix(src(fd.Recv.List[0].Type), "*")
	st := structTypes(root)[c.recvType]
	if st == nil {
		return c
	}
	for _, f := range st.Fields.List {
		if len(f.Names) != 1 {
			continue
		}
		if sel, ok := f.Type.(*ast.SelectorExpr); ok && sel.Sel.Name == "Int" && strings.HasSuffix(c.imports[identName(sel.X)], "/internal/index") {
			if c.indexField != "" {
				c.indexField = "?"
			} else {
				c.indexField = f.Names[0].Name
			}
		}
		if src(f.Type) == "error" {
			if c.errField != "" {
				c.errField = "?"
			} else {
				c.errField = f.Names[0].Name
			}
		}
	}
	return c
}

func (c *faCtx) scopeOf(fd *ast.FuncDecl) *faScope {
	sc := &faScope{locals: map[string]int{}, ints: map[string]int64{}, body: fd.Body}
	if fd.Recv != nil && len(fd.Recv.List) == 1 && len(fd.Recv.List[0].Names) == 1 {
		sc.recv = fd.Recv.List[0].Names[0].Name
	}
	if fd.Type.Params != nil {
		for _, p := range fd.Type.Params.List {
			for _, n := range p.Names {
				switch t := p.Type.(type) {
				case *ast.Ellipsis:
					sc.instrParam, sc.instrType = n.Name, src(t.Elt)
				case *ast.Ident:
					if t.Name == "string" {
						sc.strParam = n.Name
					} else {
						sc.clauseParam, sc.clauseType = n.Name, t.Name
					}
				}
			}
		}
	}
	return sc
}

// method of the receiver type with that exported name
func (c *faCtx) method(name string) *ast.FuncDecl {
	fd := c.fns[c.recvType+"."+name]
	if fd == nil || !returnsOnly(fd, c.recvType) {
		return nil
	}
	return fd
}

func countIdent(n ast.Node, name string) int {
	k := 0
	ast.Inspect(n, func(x ast.Node) bool {
		if id, ok := x.(*ast.Ident); ok && id.Name == name {
			k++
		}
		return true
	})
	return k
}

func faCType(t ast.Expr) string {
	switch src(t) {
	case "int":
		return "CType.int"
	case "float64":
		return "CType.float"
	case "bool":
		return "CType.bool"
	case "*string":
		return "CType.string"
	}
	return ""
}

// a function literal over one captured int local
func (c *faCtx) fnLit(e ast.Expr, sc *faScope) string {
	fl, ok := unparen(e).(*ast.FuncLit)
	if !ok || (fl.Type.Params != nil && len(fl.Type.Params.List) != 0) || fl.Type.Results == nil || len(fl.Type.Results.List) != 1 || len(fl.Type.Results.List[0].Names) != 0 {
		return faOp("FAFnLit", e)
	}
	res := faCType(fl.Type.Results.List[0].Type)
	if res == "" {
		return faOp("FAFnLit", e)
	}
	// the captured variable: the one int local of the method that occurs in the literal
	v := ""
	for name := range sc.ints {
		if countIdent(fl.Body, name) > 0 {
			if v != "" {
				return faOp("FAFnLit", e)
			}
			v = name
		}
	}
	// … declared once in front and used nowhere else
	if v == "" || countIdent(sc.body, v) != countIdent(fl.Body, v)+1 {
		return faOp("FAFnLit", e)
	}
	// nothing else of the method is captured
	for _, other := range []string{sc.recv, sc.clauseParam, sc.instrParam, sc.strParam} {
		if other != "" && countIdent(fl.Body, other) > 0 {
			return faOp("FAFnLit", e)
		}
	}
	for name := range sc.locals {
		if countIdent(fl.Body, name) > 0 {
			return faOp("FAFnLit", e)
		}
	}
	var stmts []string
	for _, st := range fl.Body.List {
		switch t := st.(type) {
		case *ast.IncDecStmt:
			if isName(t.X, v) && t.Tok == token.INC {
				stmts = append(stmts, "FACStm.inc")
				continue
			}
			if isName(t.X, v) && t.Tok == token.DEC {
				stmts = append(stmts, "FACStm.dec")
				continue
			}
		case *ast.ReturnStmt:
			if len(t.Results) == 1 && isName(t.Results[0], v) {
				stmts = append(stmts, "FACStm.ret")
				continue
			}
		}
		stmts = append(stmts, faOp("FACStm", st))
	}
	return fmt.Sprintf("FAFnLit.counter (%d) %s [%s]", sc.ints[v], res, strings.Join(stmts, ", "))
}

func (c *faCtx) instrLit(e ast.Expr, sc *faScope) (string, bool) {
	cl, ok := unparen(e).(*ast.CompositeLit)
	if !ok || cl.Type == nil || src(cl.Type) != sc.instrType {
		return "", false
	}
	fields := map[string]string{"IField.dst": "FAName.unset", "IField.src1": "FAName.unset", "IField.src2": "FAName.unset", "IField.fn": ""}
	for _, el := range cl.Elts {
		kv, ok := el.(*ast.KeyValueExpr)
		if !ok {
			return "", false
		}
		role, ok := instrFields[identName(kv.Key)]
		if !ok {
			return "", false
		}
		if role == "IField.fn" {
			fields[role] = c.fnLit(kv.Value, sc)
			continue
		}
		if isName(kv.Value, sc.strParam) {
			fields[role] = "FAName.param"
		} else if s, ok := strLit(kv.Value); ok {
			if s == "" {
				fields[role] = "FAName.unset"
			} else {
				fields[role] = "(FAName.lit " + leanStr(s) + ")"
			}
		} else {
			return "", false
		}
	}
	if fields["IField.fn"] == "" {
		return "", false
	}
	return fmt.Sprintf("{ dst := %s, src1 := %s, src2 := %s, fn := %s }", fields["IField.dst"], fields["IField.src1"], fields["IField.src2"], fields["IField.fn"]), true
}

func (c *faCtx) frameExpr(e ast.Expr, sc *faScope) string {
	e = unparen(e)
	switch t := e.(type) {
	case *ast.Ident:
		if t.Name == sc.recv && sc.recv != "" {
			return "FAFr.recv"
		}
		if n, ok := sc.locals[t.Name]; ok {
			return fmt.Sprintf("(FAFr.loc %d)", n)
		}
	case *ast.CallExpr:
		sel, ok := t.Fun.(*ast.SelectorExpr)
		if !ok {
			break
		}
		x := c.frameExpr(sel.X, sc)
		if strings.Contains(x, "FAFr.opaque") {
			break
		}
		switch sel.Sel.Name {
		case "Filter":
			m := c.method("Filter")
			if m == nil || m.Type.Params == nil || len(m.Type.Params.List) != 1 || src(m.Type.Params.List[0].Type) != sc.clauseType {
				break
			}
			if len(t.Args) == 1 && isName(t.Args[0], sc.clauseParam) && !t.Ellipsis.IsValid() {
				return "(FAFr.filter " + x + ")"
			}
		case "Apply":
			m := c.method("Apply")
			if m == nil || m.Type.Params == nil || len(m.Type.Params.List) != 1 {
				break
			}
			el, ok := m.Type.Params.List[0].Type.(*ast.Ellipsis)
			if !ok {
				break
			}
			if sc.instrType == "" {
				sc.instrType = src(el.Elt)
			}
			if src(el.Elt) != sc.instrType {
				break
			}
			if t.Ellipsis.IsValid() {
				if len(t.Args) == 1 && isName(t.Args[0], sc.instrParam) {
					return "(FAFr.applyParam " + x + ")"
				}
				break
			}
			var lits []string
			good := len(t.Args) > 0
			for _, a := range t.Args {
				l, ok := c.instrLit(a, sc)
				if !ok {
					good = false
					break
				}
				lits = append(lits, l)
			}
			if good {
				return "(FAFr.applyLits " + x + " [" + strings.Join(lits, ", ") + "])"
			}
		}
	}
	return "(" + faOp("FAFr", e) + ")"
}

func (c *faCtx) frameMethod(name string) string {
	fd := c.method(name)
	if fd == nil || c.indexField == "" || c.indexField == "?" || c.errField == "" || c.errField == "?" {
		return "[FAStm.opaque \"?missing\"]"
	}
	sc := c.scopeOf(fd)
	var out []string
	isOpaque := func(s string) bool { return strings.Contains(s, "FAFr.opaque") }
	for _, st := range fd.Body.List {
		term := ""
		switch t := st.(type) {
		case *ast.AssignStmt:
			if len(t.Lhs) != 1 || len(t.Rhs) != 1 {
				break
			}
			if t.Tok == token.DEFINE {
				l, ok := t.Lhs[0].(*ast.Ident)
				if !ok || l.Name == "_" {
					break
				}
				if n, ok := faIntLit(t.Rhs[0]); ok {
					// an int local with a constant value: becomes the state of the closure that captures it
					sc.ints[l.Name] = n
					term = "-"
					break
				}
				x := c.frameExpr(t.Rhs[0], sc)
				if isOpaque(x) {
					break
				}
				sc.locals[l.Name] = len(sc.locals)
				term = "FAStm.decl " + x
			} else if t.Tok == token.ASSIGN {
				if l, ok := t.Lhs[0].(*ast.Ident); ok {
					if n, ok := sc.locals[l.Name]; ok {
						x := c.frameExpr(t.Rhs[0], sc)
						if !isOpaque(x) {
							term = fmt.Sprintf("FAStm.assign %d %s", n, x)
						}
					}
					break
				}
				ls, ok1 := t.Lhs[0].(*ast.SelectorExpr)
				rs, ok2 := unparen(t.Rhs[0]).(*ast.SelectorExpr)
				if ok1 && ok2 && ls.Sel.Name == c.indexField && rs.Sel.Name == c.indexField {
					if n, ok := sc.locals[identName(ls.X)]; ok {
						x := c.frameExpr(rs.X, sc)
						if !isOpaque(x) {
							term = fmt.Sprintf("FAStm.setIndex %d %s", n, x)
						}
					}
				}
			}
		case *ast.IfStmt:
			if t.Init != nil || t.Else != nil || len(t.Body.List) != 1 {
				break
			}
			be, ok := unparen(t.Cond).(*ast.BinaryExpr)
			if !ok || be.Op != token.NEQ || !isNilIdent(be.Y) {
				break
			}
			sel, ok := unparen(be.X).(*ast.SelectorExpr)
			ret, ok2 := t.Body.List[0].(*ast.ReturnStmt)
			if !ok || !ok2 || sel.Sel.Name != c.errField || len(ret.Results) != 1 {
				break
			}
			x, r := c.frameExpr(sel.X, sc), c.frameExpr(ret.Results[0], sc)
			if !isOpaque(x) && !isOpaque(r) {
				term = "FAStm.retIfErr " + x + " " + r
			}
		case *ast.ReturnStmt:
			if len(t.Results) == 1 {
				term = "FAStm.ret " + c.frameExpr(t.Results[0], sc)
			}
		}
		if term == "-" {
			continue
		}
		if term == "" {
			term = faOp("FAStm", st)
		}
		out = append(out, "  "+term)
	}
	// an int local that no closure took
	for name := range sc.ints {
		used := false
		ast.Inspect(fd.Body, func(x ast.Node) bool {
			if fl, ok := x.(*ast.FuncLit); ok && countIdent(fl.Body, name) > 0 {
				used = true
			}
			return true
		})
		if !used {
			out = append(out, "  FAStm.opaque "+leanStr("int local "+name))
		}
	}
	return "[\n" + strings.Join(out, ",\n") + "]"
}

// ---------------------------------------------------------------------------------------------------------------------
// Parts B and C: the built-in functions of the string and the enum column

type upCtx struct {
	pkg     string
	files   map[string]*ast.File
	fns     map[string]*ast.FuncDecl
	imports map[string]string
	structs map[string]*ast.StructType
	// fields of `Column` by type
	ptrsField, dataField, valuesField, strictField string
	codeType                                       string // the element type of the enum's data (`enumVal`)
}

func newUpCtx(repo, pkg string) *upCtx {
	files := parseDir(filepath.Join(repo, "internal", pkg))
	c := &upCtx{pkg: pkg, files: files, fns: funcDecls(files), imports: importsOf(files), structs: structTypes(files)}
	st := c.structs["Column"]
	if st == nil {
		return c
	}
	set := func(dst *string, name string) {
		if *dst != "" {
			*dst = "?"
		} else {
			*dst = name
		}
	}
	for _, f := range st.Fields.List {
		if len(f.Names) != 1 {
			continue
		}
		name := f.Names[0].Name
		switch t := f.Type.(type) {
		case *ast.ArrayType:
			if t.Len != nil {
				continue
			}
			switch e := t.Elt.(type) {
			case *ast.SelectorExpr:
				if e.Sel.Name == "Pointer" && c.isStringsPkg(identName(e.X)) {
					set(&c.ptrsField, name)
				}
			case *ast.Ident:
				switch {
				case e.Name == "byte" || e.Name == "uint8":
					set(&c.dataField, name)
				case e.Name == "string":
					set(&c.valuesField, name)
				default:
					// a named integer type of the package: the enum codes
					if nt, ok := namedTypes(files)[e.Name]; ok && src(nt) == "uint8" {
						set(&c.dataField, name)
						c.codeType = e.Name
					}
				}
			}
		case *ast.Ident:
			if t.Name == "bool" {
				set(&c.strictField, name)
			}
		}
	}
	return c
}

func (c *upCtx) isStringsPkg(local string) bool {
	return local != "" && strings.HasSuffix(c.imports[local], "/internal/strings")
}

func (c *upCtx) isIndexInt(t ast.Expr) bool {
	sel, ok := t.(*ast.SelectorExpr)
	return ok && sel.Sel.Name == "Int" && strings.HasSuffix(c.imports[identName(sel.X)], "/internal/index")
}

// the entries of the map the `case string:` of `Column.Apply1` consults, and whether the entry is called with
// (the index parameter, the receiver) for its (index, column) parameters
func (c *upCtx) builtinEntries() ([][2]string, string) {
	fd := c.fns["Column.Apply1"]
	if fd == nil || fd.Recv == nil || len(fd.Recv.List[0].Names) != 1 || fd.Type.Params == nil {
		return nil, "?missing"
	}
	recv := fd.Recv.List[0].Names[0].Name
	ixParam := ""
	for _, p := range fd.Type.Params.List {
		if c.isIndexInt(p.Type) && len(p.Names) == 1 {
			ixParam = p.Names[0].Name
		}
	}
	var ts *ast.TypeSwitchStmt
	for _, st := range fd.Body.List {
		if t, ok := st.(*ast.TypeSwitchStmt); ok {
			ts = t
		}
	}
	if ts == nil || ixParam == "" {
		return nil, "no type switch"
	}
	bound := ""
	if as, ok := ts.Assign.(*ast.AssignStmt); ok && len(as.Lhs) == 1 {
		bound = identName(as.Lhs[0])
	}
	for _, cc := range ts.Body.List {
		cl := cc.(*ast.CaseClause)
		if len(cl.List) != 1 || src(cl.List[0]) != "string" {
			continue
		}
		if len(cl.Body) == 0 {
			return nil, "empty case"
		}
		is, ok := cl.Body[0].(*ast.IfStmt)
		if !ok || is.Init == nil || is.Else != nil || len(is.Body.List) != 1 {
			return nil, src(cl.Body[0])
		}
		as, ok := is.Init.(*ast.AssignStmt)
		if !ok || as.Tok != token.DEFINE || len(as.Lhs) != 2 || len(as.Rhs) != 1 || !isName(is.Cond, identName(as.Lhs[1])) {
			return nil, src(is)
		}
		ie, ok := as.Rhs[0].(*ast.IndexExpr)
		if !ok || !isName(ie.Index, bound) {
			return nil, src(is)
		}
		ret, ok := is.Body.List[0].(*ast.ReturnStmt)
		if !ok || len(ret.Results) != 2 || !isNilIdent(ret.Results[1]) {
			return nil, src(is)
		}
		call, ok := unparen(ret.Results[0]).(*ast.CallExpr)
		if !ok || !isName(call.Fun, identName(as.Lhs[0])) || len(call.Args) != 2 {
			return nil, src(is)
		}
		// the roles of the two arguments
		var roles []string
		for _, a := range call.Args {
			switch {
			case isName(a, ixParam):
				roles = append(roles, "ix")
			case isName(a, recv):
				roles = append(roles, "recv")
			default:
				roles = append(roles, "?")
			}
		}
		ents, ok := c.mapEntries(identName(ie.X))
		if !ok {
			return nil, "map " + src(ie.X)
		}
		return ents, strings.Join(roles, ",")
	}
	return nil, "no string case"
}

// (key, function name) of a package-level `map[string]func(index.Int, Column) interface{}` literal
func (c *upCtx) mapEntries(name string) ([][2]string, bool) {
	for _, f := range c.files {
		for _, d := range f.Decls {
			gd, ok := d.(*ast.GenDecl)
			if !ok || gd.Tok != token.VAR {
				continue
			}
			for _, sp := range gd.Specs {
				vs, ok := sp.(*ast.ValueSpec)
				if !ok || len(vs.Names) != len(vs.Values) {
					continue
				}
				for i, n := range vs.Names {
					if n.Name != name {
						continue
					}
					cl, ok := vs.Values[i].(*ast.CompositeLit)
					if !ok {
						return nil, false
					}
					mt, ok := cl.Type.(*ast.MapType)
					if !ok || src(mt.Key) != "string" {
						return nil, false
					}
					var ents [][2]string
					for _, el := range cl.Elts {
						kvp, ok := el.(*ast.KeyValueExpr)
						if !ok {
							return nil, false
						}
						key, ok := strLit(kvp.Key)
						fn := identName(kvp.Value)
						if !ok || fn == "" {
							return nil, false
						}
						ents = append(ents, [2]string{key, fn})
					}
					return ents, true
				}
			}
		}
	}
	return nil, false
}

// the (index, column) parameters of a built-in, by type; `order`: the roles the positional arguments must have
func (c *upCtx) builtinParams(fd *ast.FuncDecl) (ix, col, order string, ok bool) {
	if fd.Recv != nil || fd.Type.Params == nil {
		return "", "", "", false
	}
	var roles []string
	for _, p := range fd.Type.Params.List {
		names := p.Names
		if len(names) == 0 {
			names = []*ast.Ident{{Name: "_"}}
		}
		for _, n := range names {
			switch {
			case c.isIndexInt(p.Type):
				ix = n.Name
				roles = append(roles, "ix")
			case src(p.Type) == "Column":
				col = n.Name
				roles = append(roles, "recv")
			default:
				return "", "", "", false
			}
		}
	}
	return ix, col, strings.Join(roles, ","), len(roles) == 2 && col != "" && col != "_"
}

// expressions that only compute a number from lengths and constants (capacity estimates)
func (c *upCtx) pureNum(e ast.Expr, nums map[string]bool, params map[string]bool) bool {
	switch t := unparen(e).(type) {
	case *ast.BasicLit:
		return t.Kind == token.INT || t.Kind == token.FLOAT
	case *ast.Ident:
		return nums[t.Name]
	case *ast.BinaryExpr:
		switch t.Op {
		case token.ADD, token.SUB, token.MUL, token.QUO:
			return c.pureNum(t.X, nums, params) && c.pureNum(t.Y, nums, params)
		}
	case *ast.CallExpr:
		if len(t.Args) != 1 {
			return false
		}
		switch identName(t.Fun) {
		case "int", "float64", "uint32", "int64":
			return c.pureNum(t.Args[0], nums, params)
		case "len":
			switch a := unparen(t.Args[0]).(type) {
			case *ast.Ident:
				return params[a.Name]
			case *ast.SelectorExpr:
				return params[identName(a.X)]
			}
		}
	}
	return false
}

// `func (c Column) stringAt(i uint32) (string, bool)`: the pointer of the row; "" and true for a null pointer; else the
// bytes `data[p.Offset() : p.Offset()+p.Len()]` as a string and false
func (c *upCtx) isStringAt(fd *ast.FuncDecl) bool {
	if fd == nil || fd.Recv == nil || len(fd.Recv.List[0].Names) != 1 || src(fd.Recv.List[0].Type) != "Column" {
		return false
	}
	recv := fd.Recv.List[0].Names[0].Name
	ps := paramNames(fd)
	if len(ps) != 1 || fd.Type.Results == nil || len(fd.Type.Results.List) != 2 ||
		src(fd.Type.Results.List[0].Type) != "string" || src(fd.Type.Results.List[1].Type) != "bool" || len(fd.Body.List) != 3 {
		return false
	}
	field := func(e ast.Expr, f string) bool {
		sel, ok := unparen(e).(*ast.SelectorExpr)
		return ok && isName(sel.X, recv) && sel.Sel.Name == f && f != "" && f != "?"
	}
	meth := func(e ast.Expr, p, m string) bool {
		call, ok := unparen(e).(*ast.CallExpr)
		if !ok || len(call.Args) != 0 {
			return false
		}
		sel, ok := call.Fun.(*ast.SelectorExpr)
		return ok && isName(sel.X, p) && sel.Sel.Name == m
	}
	as, ok := fd.Body.List[0].(*ast.AssignStmt)
	if !ok || as.Tok != token.DEFINE || len(as.Lhs) != 1 || len(as.Rhs) != 1 {
		return false
	}
	p := identName(as.Lhs[0])
	ie, ok := as.Rhs[0].(*ast.IndexExpr)
	if !ok || !field(ie.X, c.ptrsField) || !isName(ie.Index, ps[0]) {
		return false
	}
	is, ok := fd.Body.List[1].(*ast.IfStmt)
	if !ok || is.Init != nil || is.Else != nil || !meth(is.Cond, p, "IsNull") || len(is.Body.List) != 1 {
		return false
	}
	r1, ok := is.Body.List[0].(*ast.ReturnStmt)
	if !ok || len(r1.Results) != 2 || !isName(r1.Results[1], "true") {
		return false
	}
	if s, ok := strLit(r1.Results[0]); !ok || s != "" {
		return false
	}
	r2, ok := fd.Body.List[2].(*ast.ReturnStmt)
	if !ok || len(r2.Results) != 2 || !isName(r2.Results[1], "false") {
		return false
	}
	conv, ok := unparen(r2.Results[0]).(*ast.CallExpr)
	if !ok || len(conv.Args) != 1 {
		return false
	}
	if sel, ok := conv.Fun.(*ast.SelectorExpr); ok {
		if sel.Sel.Name != "UnsafeBytesToString" || !c.isStringsPkg(identName(sel.X)) {
			return false
		}
	} else if !isName(conv.Fun, "string") {
		return false
	}
	sl, ok := unparen(conv.Args[0]).(*ast.SliceExpr)
	if !ok || sl.Slice3 || !field(sl.X, c.dataField) || !meth(sl.Low, p, "Offset") {
		return false
	}
	hi, ok := unparen(sl.High).(*ast.BinaryExpr)
	return ok && hi.Op == token.ADD && meth(hi.X, p, "Offset") && meth(hi.Y, p, "Len")
}

func suOp(kind string, n ast.Node) string { return "(" + kind + ".opaque " + leanStr(src(n)) + ")" }

func suOpaqueFn(why string) string {
	return "{ emptyReturnsSource := false, ptrInit := SUPtrInit.opaque " + leanStr(why) + ", dataInit := SUDataInit.empty, cellAt := LIdx.row, body := [], ret := SURet.opaque " + leanStr(why) + " }"
}

// the built-in of the string column
func (c *upCtx) stringBuiltin(fd *ast.FuncDecl, callRoles string) string {
	ix, source, order, ok := c.builtinParams(fd)
	if !ok || order != callRoles || c.ptrsField == "" || c.ptrsField == "?" || c.dataField == "" || c.dataField == "?" {
		return suOpaqueFn("signature " + order + " called with " + callRoles)
	}
	params := map[string]bool{source: true}
	if ix != "_" {
		params[ix] = true
	}
	nums := map[string]bool{}
	srcField := func(e ast.Expr, f string) bool {
		sel, ok := unparen(e).(*ast.SelectorExpr)
		return ok && isName(sel.X, source) && sel.Sel.Name == f
	}
	lenOf := func(e ast.Expr) (ast.Expr, bool) {
		call, ok := unparen(e).(*ast.CallExpr)
		if !ok || !isName(call.Fun, "len") || len(call.Args) != 1 {
			return nil, false
		}
		return unparen(call.Args[0]), true
	}
	emptyRet, ptrInit, dataInit := "false", "", ""
	ptrs, data, buf := "", "", ""
	cellAt, ret := "LIdx.row", ""
	var body []string
	stmts := fd.Body.List
	bad := func(n ast.Node) string { return suOpaqueFn(src(n)) }
	i := 0
	// `if len(source.pointers) == 0 { return source }`
	if len(stmts) > 0 {
		if is, ok := stmts[0].(*ast.IfStmt); ok && is.Init == nil && is.Else == nil && len(is.Body.List) == 1 {
			be, ok := unparen(is.Cond).(*ast.BinaryExpr)
			if !ok || be.Op != token.EQL || !isIntLit(be.Y, "0") {
				return bad(is)
			}
			x, ok := lenOf(be.X)
			r, ok2 := is.Body.List[0].(*ast.ReturnStmt)
			if !ok || !ok2 || !srcField(x, c.ptrsField) || len(r.Results) != 1 || !isName(r.Results[0], source) {
				return bad(is)
			}
			emptyRet = "true"
			i = 1
		}
	}
	loopSeen := false
	for ; i < len(stmts); i++ {
		st := stmts[i]
		switch t := st.(type) {
		case *ast.AssignStmt:
			if loopSeen || t.Tok != token.DEFINE || len(t.Lhs) != 1 || len(t.Rhs) != 1 {
				return bad(st)
			}
			name := identName(t.Lhs[0])
			rhs := unparen(t.Rhs[0])
			if c.pureNum(rhs, nums, params) {
				nums[name] = true
				continue
			}
			if srcField(rhs, c.ptrsField) && ptrs == "" {
				ptrs, ptrInit = name, "SUPtrInit.source"
				continue
			}
			if srcField(rhs, c.dataField) && data == "" {
				data, dataInit = name, "SUDataInit.source"
				continue
			}
			if sl, ok := rhs.(*ast.SliceExpr); ok && !sl.Slice3 && sl.Low == nil && sl.High != nil && srcField(sl.X, c.dataField) && data == "" {
				if n, ok := faNatLit(sl.High); ok {
					data, dataInit = name, "SUDataInit.sourcePrefix "+n
					continue
				}
			}
			mk, ok := rhs.(*ast.CallExpr)
			if !ok || !isName(mk.Fun, "make") || len(mk.Args) < 2 {
				return bad(st)
			}
			at, ok := mk.Args[0].(*ast.ArrayType)
			if !ok || at.Len != nil {
				return bad(st)
			}
			if sel, ok := at.Elt.(*ast.SelectorExpr); ok && sel.Sel.Name == "Pointer" && c.isStringsPkg(identName(sel.X)) && ptrs == "" && len(mk.Args) == 2 {
				l := suOp("SULen", mk.Args[1])
				if x, ok := lenOf(mk.Args[1]); ok {
					if srcField(x, c.ptrsField) {
						l = "SULen.srcPtrs"
					} else if ix != "_" && isName(x, ix) {
						l = "SULen.ixLen"
					}
				} else if n, ok := faNatLit(mk.Args[1]); ok {
					l = "(SULen.lit " + n + ")"
				}
				ptrs, ptrInit = name, "SUPtrInit.fresh "+l
				continue
			}
			if el := src(at.Elt); el == "byte" || el == "uint8" {
				if isIntLit(mk.Args[1], "0") && (len(mk.Args) == 2 || c.pureNum(mk.Args[2], nums, params)) && data == "" {
					data, dataInit = name, "SUDataInit.empty"
					continue
				}
				if len(mk.Args) == 2 && c.pureNum(mk.Args[1], nums, params) && buf == "" {
					buf = name
					continue
				}
			}
			return bad(st)
		case *ast.RangeStmt:
			if loopSeen || t.Tok != token.DEFINE || ix == "_" || !isName(t.X, ix) || ptrs == "" || data == "" || len(t.Body.List) == 0 {
				return bad(st)
			}
			loopSeen = true
			pos, row := identName(t.Key), identName(t.Value)
			if t.Key != nil && pos == "" || t.Value != nil && row == "" {
				return bad(st)
			}
			lidx := func(e ast.Expr) string {
				switch {
				case isName(e, row):
					return "LIdx.row"
				case isName(e, pos):
					return "LIdx.pos"
				}
				return ""
			}
			// `str, isNull := source.stringAt(<idx>)`
			first, ok := t.Body.List[0].(*ast.AssignStmt)
			if !ok || first.Tok != token.DEFINE || len(first.Lhs) != 2 || len(first.Rhs) != 1 {
				return bad(t.Body.List[0])
			}
			str, isNull := identName(first.Lhs[0]), identName(first.Lhs[1])
			call, ok := first.Rhs[0].(*ast.CallExpr)
			if !ok || len(call.Args) != 1 || lidx(call.Args[0]) == "" {
				return bad(first)
			}
			sel, ok := call.Fun.(*ast.SelectorExpr)
			if !ok || !isName(sel.X, source) || !c.isStringAt(c.fns["Column."+sel.Sel.Name]) {
				return bad(first)
			}
			cellAt = lidx(call.Args[0])
			strs := map[string]string{}
			if str != "" && str != "_" {
				strs[str] = "SUStr.cell"
			}
			strTerm := func(e ast.Expr) string {
				if v, ok := strs[identName(e)]; ok {
					return v
				}
				return suOp("SUStr", e)
			}
			intTerm := func(e ast.Expr) string {
				if x, ok := lenOf(e); ok {
					if isName(x, data) {
						return "SUInt.dataLen"
					}
					if _, ok := strs[identName(x)]; ok {
						return "(SUInt.strLen " + paren(strTerm(x)) + ")"
					}
				}
				if n, ok := faNatLit(e); ok {
					return "(SUInt.lit " + n + ")"
				}
				return suOp("SUInt", e)
			}
			flagTerm := func(e ast.Expr) string {
				switch {
				case isName(e, isNull):
					return "SUFlag.cellNull"
				case isName(e, "true"):
					return "(SUFlag.lit true)"
				case isName(e, "false"):
					return "(SUFlag.lit false)"
				}
				return suOp("SUFlag", e)
			}
			for _, bs := range t.Body.List[1:] {
				as, ok := bs.(*ast.AssignStmt)
				if !ok || len(as.Lhs) != 1 || len(as.Rhs) != 1 {
					body = append(body, suOp("SUAct", bs))
					continue
				}
				rc, _ := unparen(as.Rhs[0]).(*ast.CallExpr)
				switch {
				case as.Tok == token.DEFINE && rc != nil:
					// `upper := qfstrings.ToUpper(&buf, str)`
					fs, ok := rc.Fun.(*ast.SelectorExpr)
					if !ok || fs.Sel.Name != "ToUpper" || !c.isStringsPkg(identName(fs.X)) || len(rc.Args) != 2 || identName(as.Lhs[0]) == "" {
						body = append(body, suOp("SUAct", bs))
						continue
					}
					b := suOp("SUBuf", rc.Args[0])
					if u, ok := unparen(rc.Args[0]).(*ast.UnaryExpr); ok && u.Op == token.AND && isName(u.X, buf) {
						b = "SUBuf.fresh"
					}
					strs[identName(as.Lhs[0])] = "SUStr.upper " + b + " " + paren(strTerm(rc.Args[1]))
				case as.Tok == token.ASSIGN && rc != nil && isName(rc.Fun, "append"):
					// `data = append(data, s...)`
					if !isName(as.Lhs[0], data) || len(rc.Args) != 2 || !isName(rc.Args[0], data) || !rc.Ellipsis.IsValid() {
						body = append(body, suOp("SUAct", bs))
						continue
					}
					body = append(body, "SUAct.appendStr "+paren(strTerm(rc.Args[1])))
				case as.Tok == token.ASSIGN && rc != nil:
					// `pointers[idx] = qfstrings.NewPointer(off, len, null)`
					ie, ok := as.Lhs[0].(*ast.IndexExpr)
					fs, ok2 := rc.Fun.(*ast.SelectorExpr)
					if !ok || !ok2 || !isName(ie.X, ptrs) || lidx(ie.Index) == "" || fs.Sel.Name != "NewPointer" || !c.isStringsPkg(identName(fs.X)) || len(rc.Args) != 3 {
						body = append(body, suOp("SUAct", bs))
						continue
					}
					body = append(body, fmt.Sprintf("SUAct.setPtr %s %s %s %s", lidx(ie.Index), intTerm(rc.Args[0]), intTerm(rc.Args[1]), flagTerm(rc.Args[2])))
				default:
					body = append(body, suOp("SUAct", bs))
				}
			}
		case *ast.ReturnStmt:
			if !loopSeen || len(t.Results) != 1 || i != len(stmts)-1 {
				return bad(st)
			}
			ref := func(e ast.Expr, local, field string) string {
				switch {
				case isName(e, local):
					return "SURef.new"
				case srcField(e, field):
					return "SURef.source"
				}
				return ""
			}
			// `Column{pointers: p, data: d}` or a constructor whose body is that literal
			fieldsOf := func(cl *ast.CompositeLit, bind map[string]ast.Expr) (p, d ast.Expr) {
				if src(cl.Type) != "Column" {
					return nil, nil
				}
				for _, el := range cl.Elts {
					kv, ok := el.(*ast.KeyValueExpr)
					if !ok {
						return nil, nil
					}
					v := kv.Value
					if b, ok := bind[identName(v)]; ok {
						v = b
					}
					switch identName(kv.Key) {
					case c.ptrsField:
						p = v
					case c.dataField:
						d = v
					default:
						return nil, nil
					}
				}
				return p, d
			}
			var p, d ast.Expr
			switch r := unparen(t.Results[0]).(type) {
			case *ast.CompositeLit:
				p, d = fieldsOf(r, nil)
			case *ast.CallExpr:
				ctor := c.fns[identName(r.Fun)]
				if ctor != nil && ctor.Recv == nil && len(ctor.Body.List) == 1 {
					ps := paramNames(ctor)
					if rs, ok := ctor.Body.List[0].(*ast.ReturnStmt); ok && len(rs.Results) == 1 && len(ps) == len(r.Args) {
						if cl, ok := unparen(rs.Results[0]).(*ast.CompositeLit); ok {
							bind := map[string]ast.Expr{}
							for k, n := range ps {
								bind[n] = r.Args[k]
							}
							p, d = fieldsOf(cl, bind)
						}
					}
				}
			}
			if p == nil || d == nil || ref(p, ptrs, c.ptrsField) == "" || ref(d, data, c.dataField) == "" {
				ret = "SURet.opaque " + leanStr(src(st))
			} else {
				ret = "SURet.col " + ref(p, ptrs, c.ptrsField) + " " + ref(d, data, c.dataField)
			}
		default:
			return bad(st)
		}
	}
	if ptrInit == "" || dataInit == "" || ret == "" || !loopSeen {
		return suOpaqueFn("incomplete: " + stmtsText(stmts))
	}
	return fmt.Sprintf("{ emptyReturnsSource := %s, ptrInit := %s, dataInit := %s, cellAt := %s,\n      body := [%s],\n      ret := %s }",
		emptyRet, ptrInit, dataInit, cellAt, strings.Join(body, ", "), ret)
}

func euOpaqueFn(why string) string {
	return "{ ixUsed := false, valsInit := LGInit.opaque " + leanStr(why) + ", mapFresh := false, mappingLen := EULen.srcVals, loop1 := [], fast := EUFast.none, dataInit := EUDataInit.source, loop2 := [], ret := EURet.opaque " + leanStr(why) + " }"
}

// an integer constant of the package, through a chain of constants
func (c *upCtx) constInt(name string, depth int) (int64, bool) {
	if depth > 5 {
		return 0, false
	}
	v := valueOf(c.files, name)
	if v == "" {
		return 0, false
	}
	if n, err := strconv.ParseInt(v, 0, 64); err == nil {
		return n, true
	}
	return c.constInt(v, depth+1)
}

// `func (v enumVal) isNull() bool { return v == <255> }`
func (c *upCtx) isNullMethod(name string) bool {
	fd := c.fns[c.codeType+"."+name]
	if fd == nil || fd.Recv == nil || len(fd.Recv.List[0].Names) != 1 || len(paramNames(fd)) != 0 || len(fd.Body.List) != 1 {
		return false
	}
	r, ok := fd.Body.List[0].(*ast.ReturnStmt)
	if !ok || len(r.Results) != 1 {
		return false
	}
	be, ok := unparen(r.Results[0]).(*ast.BinaryExpr)
	if !ok || be.Op != token.EQL || !isName(be.X, fd.Recv.List[0].Names[0].Name) {
		return false
	}
	if n, ok := faNatLit(be.Y); ok {
		return n == "255"
	}
	n, ok := c.constInt(identName(be.Y), 0)
	return ok && n == 255
}

// the built-in of the enum column
func (c *upCtx) enumBuiltin(fd *ast.FuncDecl, callRoles string) string {
	ix, s, order, ok := c.builtinParams(fd)
	if !ok || order != callRoles || c.codeType == "" || c.dataField == "" || c.dataField == "?" || c.valuesField == "" || c.valuesField == "?" {
		return euOpaqueFn("signature " + order + " called with " + callRoles)
	}
	ixUsed := "false"
	if ix != "_" && countIdent(fd.Body, ix) > 0 {
		ixUsed = "true"
	}
	params := map[string]bool{s: true}
	nums := map[string]bool{}
	srcField := func(e ast.Expr, f string) bool {
		sel, ok := unparen(e).(*ast.SelectorExpr)
		return ok && isName(sel.X, s) && sel.Sel.Name == f && f != ""
	}
	lenOf := func(e ast.Expr) (ast.Expr, bool) {
		call, ok := unparen(e).(*ast.CallExpr)
		if !ok || !isName(call.Fun, "len") || len(call.Args) != 1 {
			return nil, false
		}
		return unparen(call.Args[0]), true
	}
	lenTerm := func(e ast.Expr) string {
		if x, ok := lenOf(e); ok {
			if srcField(x, c.valuesField) {
				return "EULen.srcVals"
			}
			if srcField(x, c.dataField) {
				return "EULen.srcData"
			}
		}
		if n, ok := faNatLit(e); ok {
			return "(EULen.lit " + n + ")"
		}
		return suOp("EULen", e)
	}
	bad := func(n ast.Node) string { return euOpaqueFn(src(n)) }
	vals, mp, mapping, nd := "", "", "", ""
	valsInit, mapFresh, mappingLen, fast, dataInit, ret := "", "false", "", "EUFast.none", "", ""
	var loop1, loop2 []string
	phase := 0 // 0 inits, 1 after loop 1, 2 after the fast path, 3 after the data init, 4 after loop 2

	retTerm := func(e ast.Expr) string {
		cl, ok := unparen(e).(*ast.CompositeLit)
		if !ok || src(cl.Type) != "Column" {
			return "EURet.opaque " + leanStr(src(e))
		}
		d, v, strict := "", "", "EUStrict.unset"
		for _, el := range cl.Elts {
			kv, ok := el.(*ast.KeyValueExpr)
			if !ok {
				return "EURet.opaque " + leanStr(src(e))
			}
			switch identName(kv.Key) {
			case c.dataField:
				switch {
				case isName(kv.Value, nd):
					d = "SURef.new"
				case srcField(kv.Value, c.dataField):
					d = "SURef.source"
				}
			case c.valuesField:
				switch {
				case isName(kv.Value, vals):
					v = "SURef.new"
				case srcField(kv.Value, c.valuesField):
					v = "SURef.source"
				}
			case c.strictField:
				switch {
				case srcField(kv.Value, c.strictField):
					strict = "EUStrict.source"
				case isName(kv.Value, "true"):
					strict = "(EUStrict.lit true)"
				case isName(kv.Value, "false"):
					strict = "(EUStrict.lit false)"
				default:
					return "EURet.opaque " + leanStr(src(e))
				}
			default:
				return "EURet.opaque " + leanStr(src(e))
			}
		}
		if d == "" || v == "" {
			return "EURet.opaque " + leanStr(src(e))
		}
		return "EURet.col " + d + " " + v + " " + strict
	}

	// the statements of a loop body
	loopBody := func(rs *ast.RangeStmt, second bool) []string {
		key, val := identName(rs.Key), identName(rs.Value)
		strLoc, reg, okv := "", "", ""
		if second {
			reg = val
		}
		var strTerm func(e ast.Expr) string
		strTerm = func(e ast.Expr) string {
			e = unparen(e)
			if !second && isName(e, val) {
				return "EUStr.elem"
			}
			if isName(e, strLoc) {
				return "EUStr.loc"
			}
			if call, ok := e.(*ast.CallExpr); ok && len(call.Args) == 1 {
				if sel, ok := call.Fun.(*ast.SelectorExpr); ok && sel.Sel.Name == "ToUpper" && c.imports[identName(sel.X)] == "strings" {
					return "(EUStr.upper " + strTerm(call.Args[0]) + ")"
				}
			}
			return suOp("EUStr", e)
		}
		var codeTerm func(e ast.Expr) string
		codeTerm = func(e ast.Expr) string {
			e = unparen(e)
			if isName(e, reg) {
				return "EUCode.reg"
			}
			if call, ok := e.(*ast.CallExpr); ok && len(call.Args) == 1 && isName(call.Fun, c.codeType) {
				if x, ok := lenOf(call.Args[0]); ok && isName(x, vals) {
					return "EUCode.valsLen"
				}
			}
			if ie, ok := e.(*ast.IndexExpr); ok && isName(ie.X, mapping) {
				return "(EUCode.mappingAt " + codeTerm(ie.Index) + ")"
			}
			if n, ok := faNatLit(e); ok {
				return "(EUCode.lit " + n + ")"
			}
			return suOp("EUCode", e)
		}
		var act func(st ast.Stmt) string
		act = func(st ast.Stmt) string {
			as, ok := st.(*ast.AssignStmt)
			if !ok || len(as.Rhs) != 1 {
				return suOp("EUAct", st)
			}
			rhs := unparen(as.Rhs[0])
			if as.Tok == token.DEFINE {
				if len(as.Lhs) == 1 && strLoc == "" && identName(as.Lhs[0]) != "" {
					t := strTerm(rhs)
					if !strings.Contains(t, "opaque") {
						strLoc = identName(as.Lhs[0])
						return "EUAct.bindStr " + t
					}
				}
				if ie, ok := rhs.(*ast.IndexExpr); ok && len(as.Lhs) == 2 && isName(ie.X, mp) && reg == "" {
					k := strTerm(ie.Index)
					reg, okv = identName(as.Lhs[0]), identName(as.Lhs[1])
					return "EUAct.lookup " + k
				}
				return suOp("EUAct", st)
			}
			if as.Tok != token.ASSIGN || len(as.Lhs) != 1 {
				return suOp("EUAct", st)
			}
			lhs := unparen(as.Lhs[0])
			if isName(lhs, reg) {
				return "EUAct.setReg " + codeTerm(rhs)
			}
			if call, ok := rhs.(*ast.CallExpr); ok && isName(call.Fun, "append") && len(call.Args) == 2 && !call.Ellipsis.IsValid() {
				if isName(lhs, vals) && isName(call.Args[0], vals) {
					return "EUAct.pushVal " + strTerm(call.Args[1])
				}
				if nd != "" && isName(lhs, nd) && isName(call.Args[0], nd) {
					return "EUAct.appendData " + codeTerm(call.Args[1])
				}
				return suOp("EUAct", st)
			}
			if ie, ok := lhs.(*ast.IndexExpr); ok {
				switch {
				case isName(ie.X, mp):
					return "EUAct.mapPut " + strTerm(ie.Index) + " " + codeTerm(rhs)
				case isName(ie.X, mapping) && isName(ie.Index, key):
					return "EUAct.storeMapping " + codeTerm(rhs)
				case nd != "" && isName(ie.X, nd) && isName(ie.Index, key):
					return "EUAct.storeData " + codeTerm(rhs)
				}
			}
			return suOp("EUAct", st)
		}
		cond := func(e ast.Expr) string {
			e = unparen(e)
			neg := false
			if u, ok := e.(*ast.UnaryExpr); ok && u.Op == token.NOT {
				neg = true
				e = unparen(u.X)
			}
			if okv != "" && isName(e, okv) {
				if neg {
					return "EUCond.notFound"
				}
				return "EUCond.found"
			}
			if call, ok := e.(*ast.CallExpr); ok && len(call.Args) == 0 {
				if sel, ok := call.Fun.(*ast.SelectorExpr); ok && isName(sel.X, reg) && c.isNullMethod(sel.Sel.Name) {
					if neg {
						return "EUCond.regNotNull"
					}
					return "EUCond.regIsNull"
				}
			}
			return suOp("EUCond", e)
		}
		var out []string
		for _, st := range rs.Body.List {
			if is, ok := st.(*ast.IfStmt); ok {
				if is.Init != nil || is.Else != nil {
					out = append(out, "EUStm.do "+suOp("EUAct", st))
					continue
				}
				cd := cond(is.Cond)
				var as []string
				for _, b := range is.Body.List {
					as = append(as, act(b))
				}
				out = append(out, "EUStm.when "+cd+" ["+strings.Join(as, ", ")+"]")
				continue
			}
			out = append(out, "EUStm.do ("+act(st)+")")
		}
		return out
	}

	stmts := fd.Body.List
	for i, st := range stmts {
		switch t := st.(type) {
		case *ast.AssignStmt:
			if t.Tok != token.DEFINE || len(t.Lhs) != 1 || len(t.Rhs) != 1 || identName(t.Lhs[0]) == "" {
				return bad(st)
			}
			name := identName(t.Lhs[0])
			rhs := unparen(t.Rhs[0])
			if phase == 0 && c.pureNum(rhs, nums, params) {
				nums[name] = true
				continue
			}
			// the new data
			if phase == 1 || phase == 2 {
				if srcField(rhs, c.dataField) {
					nd, dataInit, phase = name, "EUDataInit.source", 3
					continue
				}
				if sl, ok := rhs.(*ast.SliceExpr); ok && !sl.Slice3 && sl.Low == nil && sl.High != nil && srcField(sl.X, c.dataField) {
					if n, ok := faNatLit(sl.High); ok {
						nd, dataInit, phase = name, "EUDataInit.sourcePrefix "+n, 3
						continue
					}
				}
			}
			mk, ok := rhs.(*ast.CallExpr)
			if !ok || !isName(mk.Fun, "make") || len(mk.Args) < 1 {
				return bad(st)
			}
			switch mt := mk.Args[0].(type) {
			case *ast.MapType:
				if phase != 0 || mp != "" || src(mt.Key) != "string" || src(mt.Value) != c.codeType || len(mk.Args) > 2 ||
					(len(mk.Args) == 2 && !c.pureNum(mk.Args[1], nums, params)) {
					return bad(st)
				}
				mp, mapFresh = name, "true"
			case *ast.ArrayType:
				if mt.Len != nil {
					return bad(st)
				}
				switch src(mt.Elt) {
				case "string":
					if phase != 0 || vals != "" || len(mk.Args) < 2 || !isIntLit(mk.Args[1], "0") || (len(mk.Args) == 3 && !c.pureNum(mk.Args[2], nums, params)) {
						return bad(st)
					}
					vals, valsInit = name, "LGInit.empty"
				case c.codeType:
					if len(mk.Args) != 2 {
						return bad(st)
					}
					if phase == 0 && mapping == "" {
						mapping, mappingLen = name, lenTerm(mk.Args[1])
					} else if (phase == 1 || phase == 2) && nd == "" {
						nd, dataInit, phase = name, "EUDataInit.fresh "+lenTerm(mk.Args[1]), 3
					} else {
						return bad(st)
					}
				default:
					return bad(st)
				}
			default:
				return bad(st)
			}
		case *ast.RangeStmt:
			if t.Tok != token.DEFINE || (t.Key != nil && identName(t.Key) == "") || t.Value == nil || identName(t.Value) == "" || identName(t.Value) == "_" {
				return bad(st)
			}
			switch {
			case phase == 0 && srcField(t.X, c.valuesField) && vals != "" && mp != "" && mapping != "":
				loop1 = loopBody(t, false)
				phase = 1
			case phase == 3 && srcField(t.X, c.dataField):
				loop2 = loopBody(t, true)
				phase = 4
			default:
				return bad(st)
			}
		case *ast.IfStmt:
			if phase != 1 || t.Init != nil || t.Else != nil || len(t.Body.List) != 1 {
				return bad(st)
			}
			be, ok := unparen(t.Cond).(*ast.BinaryExpr)
			r, ok2 := t.Body.List[0].(*ast.ReturnStmt)
			if !ok || !ok2 || be.Op != token.EQL || len(r.Results) != 1 {
				return bad(st)
			}
			x, okx := lenOf(be.X)
			y, oky := lenOf(be.Y)
			if !okx || !oky {
				return bad(st)
			}
			if !(isName(x, vals) && srcField(y, c.valuesField)) && !(isName(y, vals) && srcField(x, c.valuesField)) {
				return bad(st)
			}
			fast = "EUFast.ifSameLen (" + retTerm(r.Results[0]) + ")"
			phase = 2
		case *ast.ReturnStmt:
			if phase != 4 || len(t.Results) != 1 || i != len(stmts)-1 {
				return bad(st)
			}
			ret = retTerm(t.Results[0])
		default:
			return bad(st)
		}
	}
	if ret == "" || valsInit == "" || mappingLen == "" || dataInit == "" {
		return euOpaqueFn("incomplete: " + stmtsText(stmts))
	}
	j := func(l []string) string { return strings.Join(l, ",\n        ") }
	return fmt.Sprintf("{ ixUsed := %s, valsInit := %s, mapFresh := %s, mappingLen := %s,\n      loop1 := [\n        %s],\n      fast := %s,\n      dataInit := %s,\n      loop2 := [\n        %s],\n      ret := %s }",
		ixUsed, valsInit, mapFresh, mappingLen, j(loop1), fast, dataInit, j(loop2), ret)
}

func fapplyLean(repo string, root map[string]*ast.File) string {
	var b strings.Builder
	b.WriteString("/- GENERATED on every run by /verif/go/cmd/extract from /repo's source (tie T1). Do not edit. -/\nimport QF.Core.FAExpr\nnamespace QF.Gen\n\n")
	fc := newFaCtx(root)
	b.WriteString("/-- `QFrame.FilteredApply` as statements on frame VALUES (`QF.FAStm`), by role -/\ndef fapplyAst : List FAStm := " + fc.frameMethod("FilteredApply") + "\n\n")
	b.WriteString("/-- `QFrame.WithRowNums`; the int local in front of the call is the state of the closure that captures it -/\ndef rowNumsFnAst : List FAStm := " + fc.frameMethod("WithRowNums") + "\n\n")
	table := func(pkg, typ string, tr func(c *upCtx, fd *ast.FuncDecl, roles string) string) (string, string) {
		c := newUpCtx(repo, pkg)
		ents, roles := c.builtinEntries()
		var items []string
		for _, e := range ents {
			fd := c.fns[e[1]]
			term := ""
			if fd == nil {
				if typ == "SUFn" {
					term = suOpaqueFn("no function " + e[1])
				} else {
					term = euOpaqueFn("no function " + e[1])
				}
			} else {
				term = tr(c, fd, roles)
			}
			items = append(items, fmt.Sprintf("  (%s,\n    %s)", leanStr(e[0]), term))
		}
		return "[\n" + strings.Join(items, ",\n") + "]", roles
	}
	st, sr := table("scolumn", "SUFn", func(c *upCtx, fd *ast.FuncDecl, roles string) string { return c.stringBuiltin(fd, roles) })
	et, er := table("ecolumn", "EUFn", func(c *upCtx, fd *ast.FuncDecl, roles string) string { return c.enumBuiltin(fd, roles) })
	b.WriteString("/-- the built-in functions `Column.Apply1` of the string column hands a `string` function value to: (key of the package-level map the `case string:` consults, the function the entry names as a term of `QF.SUFn`) -/\ndef supperTable : List (String × SUFn) := " + st + "\n\n")
	b.WriteString("/-- … of the enum column, as terms of `QF.EUFn` -/\ndef eupperTable : List (String × EUFn) := " + et + "\n\n")
	b.WriteString("/-- what `Apply1` passes to the entry it found, by role: (package, arguments) -/\ndef builtinCallArgs : List (String × String) := [(\"scolumn\", " + leanStr(sr) + "), (\"ecolumn\", " + leanStr(er) + ")]\n\n")
	b.WriteString("end QF.Gen\n")
	return b.String()
}
